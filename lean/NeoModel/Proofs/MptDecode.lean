/-
Helper lemmas for C10: a node's encoding decodes to its shallow form (children as hashes).
-/
import NeoModel.Model.Mpt.Proof
import NeoModel.Proofs.MptLookup
set_option linter.unusedSimpArgs false
namespace NeoModel.Mpt
open NeoModel.Wire

/-! var-uint round trip (same statement as C17's, re-proved here to keep the modules independent) -/

theorem leVal_leBytes' (n v : Nat) (h : v < 256 ^ n) : leVal (leBytes n v) = v := by
  induction n generalizing v with
  | zero => simp at h; simp [leBytes, leVal, h]
  | succ n ih =>
    have h2 : v / 256 < 256 ^ n := by
      rw [Nat.div_lt_iff_lt_mul (by decide)]; rw [Nat.pow_succ] at h; exact h
    simp only [leBytes, leVal, ih _ h2]
    have : (UInt8.ofNat (v % 256)).toNat = v % 256 := by simp [UInt8.toNat_ofNat']
    rw [this]; omega

theorem leBytes_length' (n v : Nat) : (leBytes n v).length = n := by
  induction n generalizing v with
  | zero => rfl
  | succ n ih => simp [leBytes, ih]

theorem varuint_rt (v : Nat) (r : Bytes) (h : v < 2 ^ 64) :
    readVarUint (putVarUint v ++ r) = some (v, r) := by
  unfold putVarUint
  split
  · rename_i h1
    have hb : (UInt8.ofNat v).toNat = v := by simp [UInt8.toNat_ofNat']; omega
    have n1 : UInt8.ofNat v ≠ 0xfd := by intro e; have := congrArg UInt8.toNat e; rw [hb] at this; simp at this; omega
    have n2 : UInt8.ofNat v ≠ 0xfe := by intro e; have := congrArg UInt8.toNat e; rw [hb] at this; simp at this; omega
    have n3 : UInt8.ofNat v ≠ 0xff := by intro e; have := congrArg UInt8.toNat e; rw [hb] at this; simp at this; omega
    simp [readVarUint, n1, n2, n3, hb]
  · split
    · have : v < 256 ^ 2 := by omega
      simp [readVarUint, takeN, leBytes_length', leVal_leBytes' 2 v this]
    · split
      · have : v < 256 ^ 4 := by omega
        simp [readVarUint, takeN, leBytes_length', leVal_leBytes' 4 v this]
      · have : v < 256 ^ 8 := by omega
        simp [readVarUint, takeN, leBytes_length', leVal_leBytes' 8 v this]

theorem takeN_append (b r : Bytes) : takeN b.length (b ++ r) = some (b, r) := by
  simp [takeN]

/-- reading back `WriteVarBytes(b)`. -/
theorem read_varBytes (b r : Bytes) (h : b.length < 2 ^ 64) :
    readVarUint (varBytes b ++ r) = some (b.length, b ++ r) := by
  simp only [varBytes, List.append_assoc]
  exact varuint_rt _ _ h

/-! the decoded form of a node's own encoding -/

/-- how a child is referenced in its parent's encoding, decoded. -/
def pref (H : Bytes → Bytes) (n : Node) : PNode :=
  if n.isEmpty then .empty else .hash (hash H n)

def pslot (H : Bytes → Bytes) (v : Option Val) : PNode :=
  match v with
  | none => .empty
  | some w => .hash (H (encLeaf w))

def prefs (H : Bytes → Bytes) (cs : Nib → Node) (v : Option Val) : List PNode :=
  (List.finRange 16).map (fun i => pref H (cs i)) ++ [pslot H v]

/-- `decodeTop (enc H n)`: children as hashes. -/
def shallow (H : Bytes → Bytes) : Node → PNode
  | .empty => .empty
  | .leaf v => .leaf v
  | .ext k n => .ext (k.map nibByte) (pref H n)
  | .branch cs v => .branch (fun i => (prefs H cs v).getD i.val .empty)

theorem decode_ref (H : Bytes → Bytes) (h32 : ∀ b, (H b).length = 32) (d : Nat) (n : Node) (r : Bytes) :
    decode (d + 1) (childRef H n (enc H n) ++ r) = some (pref H n, r) := by
  unfold childRef pref hash
  cases hn : n.isEmpty with
  | true => simp [decode]
  | false =>
    have : takeN 32 (H (enc H n) ++ r) = some (H (enc H n), r) := by
      have := takeN_append (H (enc H n)) r; rwa [h32] at this
    simp [decode, this]

theorem decode_slot (H : Bytes → Bytes) (h32 : ∀ b, (H b).length = 32) (d : Nat) (v : Option Val) (r : Bytes) :
    decode (d + 1) (slotRef H v ++ r) = some (pslot H v, r) := by
  cases v with
  | none => simp [decode, pslot, slotRef]
  | some w =>
    have : takeN 32 (H (encLeaf w) ++ r) = some (H (encLeaf w), r) := by
      have := takeN_append (H (encLeaf w)) r; rwa [h32] at this
    simp [decode, pslot, slotRef, this]

theorem decodeKids_refs (H : Bytes → Bytes) (h32 : ∀ b, (H b).length = 32) (d : Nat) (cs : Nib → Node)
    (l : List Nib) (tail : Bytes) (tl : List PNode) (r : Bytes)
    (ht : decodeKids (decode (d + 1)) tl.length tail = some (tl, r)) :
    decodeKids (decode (d + 1)) (l.length + tl.length)
      (l.flatMap (fun i => childRef H (cs i) (enc H (cs i))) ++ tail) =
      some (l.map (fun i => pref H (cs i)) ++ tl, r) := by
  induction l with
  | nil => simpa using ht
  | cons i l ih =>
    have : (i :: l).length + tl.length = (l.length + tl.length) + 1 := by simp; omega
    rw [this]
    simp only [List.flatMap_cons, List.append_assoc, decodeKids, decode_ref H h32, List.map_cons,
      List.cons_append]
    rw [ih]

theorem decode_enc (H : Bytes → Bytes) (h32 : ∀ b, (H b).length = 32) (d : Nat) (n : Node)
    (hb : Bounded n) (hne : n.isEmpty = false) (r : Bytes) :
    decode (d + 2) (enc H n ++ r) = some (shallow H n, r) := by
  cases n with
  | empty => simp [Node.isEmpty] at hne
  | leaf v =>
    simp only [Bounded] at hb
    have hlt : v.length < 2 ^ 64 := by unfold maxValueLength at hb; omega
    have hle : ¬ v.length > maxValueLength := by omega
    simp [enc, encLeaf, decode, read_varBytes _ _ hlt, hle, takeN_append, shallow]
  | ext k m =>
    obtain ⟨hk, _⟩ := hb
    have hlen : (k.map nibByte).length = k.length := by simp
    have hlt : (k.map nibByte).length < 2 ^ 64 := by rw [hlen]; unfold maxPathLength at hk; omega
    have hle : ¬ (k.map nibByte).length > maxPathLength := by rw [hlen]; omega
    have ht : takeN k.length (k.map nibByte ++ (childRef H m (enc H m) ++ r)) =
        some (k.map nibByte, childRef H m (enc H m) ++ r) := by
      have := takeN_append (k.map nibByte) (childRef H m (enc H m) ++ r); rwa [hlen] at this
    have hle' : ¬ maxPathLength < k.length := by omega
    simp only [enc, List.cons_append, List.append_assoc, decode]
    simp [read_varBytes _ _ hlt, hle', ht, decode_ref H h32, shallow]
  | branch cs v =>
    have hslot : decodeKids (decode (d + 1)) [pslot H v].length
        (slotRef H v ++ r) = some ([pslot H v], r) := by
      simp [decodeKids, decode_slot H h32]
    have := decodeKids_refs H h32 d cs (List.finRange 16) _ [pslot H v] r hslot
    simp only [List.length_finRange, List.length_singleton] at this
    simp only [enc, List.cons_append, List.append_assoc, decode]
    simp [this, shallow, prefs]

theorem decodeTop_enc (H : Bytes → Bytes) (h32 : ∀ b, (H b).length = 32) (n : Node)
    (hb : Bounded n) (hne : n.isEmpty = false) : decodeTop (enc H n) = some (shallow H n) := by
  have := decode_enc H h32 135 n hb hne []
  simp only [List.append_nil] at this
  simp [decodeTop, maxPathLength, this]

end NeoModel.Mpt
