/-
C08 helper: the invariant of the memory-pool model (`Inv`), its components, and list lemmas.
-/
import NeoModel.Proofs.MempoolBasic
namespace NeoModel.Mempool

/-! ### the invariant -/

/-- What a transaction universe must satisfy for ids to behave like hashes: the id determines the
transaction, a transaction does not repeat a Conflicts hash (blockchain.go verifyTxAttributes), and
two transactions cannot name each other (the hash of each would have to be known before the other). -/
structure WF (U : Tx → Prop) : Prop where
  idInj : ∀ a b, U a → U b → a.id = b.id → a = b
  confNodup : ∀ a, U a → a.conflicts.Nodup
  acyclic : ∀ a b, U a → U b → a.id ∈ b.conflicts → b.id ∉ a.conflicts

/-- Σ (system + network fee) of the listed transactions paid by `q`. -/
def sumFees (q : Payer) : List Tx → Nat
  | [] => 0
  | t :: l => (if payerOf t = q then t.fee else 0) + sumFees q l

def VmapOk (L : List Tx) (m : Nat → Option Tx) : Prop :=
  ∀ h t, m h = some t ↔ (t ∈ L ∧ t.id = h)

def OrcOk (L : List Tx) (o : Nat → Option Nat) : Prop :=
  ∀ i h, o i = some h ↔ ∃ t ∈ L, t.id = h ∧ t.oracle = some i

def ConfEntry (L : List Tx) (h : Nat) : Option (List Nat) → Prop
  | none => ∀ t ∈ L, h ∉ t.conflicts
  | some l => l ≠ [] ∧ l.Nodup ∧ ∀ x, x ∈ l ↔ ∃ t ∈ L, t.id = x ∧ h ∈ t.conflicts

def ConfOk (L : List Tx) (c : Nat → Option (List Nat)) : Prop := ∀ h, ConfEntry L h (c h)

/-- half of the uint256 range: balances below it make the pool's uint256 additions exact -/
def H256 : Nat := 2 ^ 255

theorem two_H256 : H256 + H256 = U256 := by unfold H256 U256; omega

theorem H256_pos : 0 < H256 := by unfold H256; exact Nat.two_pow_pos _

/-- the balances the `Feer` reports (as uint256) are below 2^255 (GAS supply is below 2^63 · 10^8) -/
def FeerOk (feer : Feer) : Prop := ∀ p s, feer.balance p s % U256 < H256

def FeeEntry (L : List Tx) (q : Payer) : Option Fee → Prop
  | none => sumFees q L = 0
  | some f => f.feeSum = sumFees q L ∧ f.feeSum ≤ f.balance ∧ f.balance < H256

def FeesOk (L : List Tx) (f : Payer → Option Fee) : Prop := ∀ q, FeeEntry L q (f q)

/-- the list-level part of the invariant -/
structure ListOk (U : Tx → Prop) (l : List Tx) : Prop where
  inU : ∀ t ∈ l, U t
  nodup : (l.map (·.id)).Nodup
  sorted : Sorted l
  noConf : ∀ a ∈ l, ∀ b ∈ l, a.id ∉ b.conflicts
  orcUniq : ∀ a ∈ l, ∀ b ∈ l, ∀ i, a.oracle = some i → b.oracle = some i → a = b

/-- C08's invariant on the model state. -/
structure Inv (U : Tx → Prop) (mp : Pool) : Prop where
  noPanic : mp.panicked = false
  cap : mp.txs.length ≤ mp.capacity
  list : ListOk U mp.txs
  vmap : VmapOk mp.txs mp.vmap
  conf : ConfOk mp.txs mp.conflicts
  orc : OrcOk mp.txs mp.oracleResp
  fees : FeesOk mp.txs mp.fees

/-! ### basic lemmas -/

@[simp] theorem upd_same {κ ν : Type} [DecidableEq κ] (m : κ → Option ν) (k : κ) (v : Option ν) :
    upd m k v k = v := by simp [upd]

theorem upd_other {κ ν : Type} [DecidableEq κ] (m : κ → Option ν) {k x : κ} (v : Option ν) (h : x ≠ k) :
    upd m k v x = m x := by simp [upd, h]

theorem ListOk.sublist {U : Tx → Prop} {l l' : List Tx} (h : ListOk U l) (hs : l'.Sublist l) : ListOk U l' where
  inU := fun t ht => h.inU t (hs.subset ht)
  nodup := h.nodup.sublist (hs.map _)
  sorted := List.Pairwise.sublist hs h.sorted
  noConf := fun a ha b hb => h.noConf a (hs.subset ha) b (hs.subset hb)
  orcUniq := fun a ha b hb => h.orcUniq a (hs.subset ha) b (hs.subset hb)

theorem ListOk.idEq {U : Tx → Prop} {l : List Tx} (hw : WF U) (h : ListOk U l) {a b : Tx}
    (ha : a ∈ l) (hb : b ∈ l) (e : a.id = b.id) : a = b :=
  hw.idInj a b (h.inU a ha) (h.inU b hb) e

theorem sumFees_append (q : Payer) (l1 l2 : List Tx) :
    sumFees q (l1 ++ l2) = sumFees q l1 + sumFees q l2 := by
  induction l1 with
  | nil => simp [sumFees]
  | cons a l ih => simp [sumFees, ih]; omega

theorem sumFees_mem_le (q : Payer) (l : List Tx) (t : Tx) (ht : t ∈ l) (hq : payerOf t = q) :
    t.fee ≤ sumFees q l := by
  induction l with
  | nil => cases ht
  | cons a l ih =>
    simp only [sumFees]
    rcases List.mem_cons.mp ht with rfl | h
    · simp [hq]
    · have := ih h; omega

theorem filter_ne_id_of_not_mem (l : List Tx) (h : Nat) (hn : h ∉ l.map (·.id)) :
    l.filter (fun t => t.id != h) = l := by
  apply List.filter_eq_self.mpr
  intro a ha
  have : a.id ≠ h := by
    intro e; apply hn; rw [← e]; exact List.mem_map_of_mem ha
  simpa using this

theorem sumFees_filter_ne (q : Payer) (l : List Tx) (itm : Tx) (hnd : (l.map (·.id)).Nodup) (hm : itm ∈ l) :
    sumFees q l = (if payerOf itm = q then itm.fee else 0) + sumFees q (l.filter (fun t => t.id != itm.id)) := by
  induction l with
  | nil => cases hm
  | cons a l ih =>
    rw [List.map_cons, List.nodup_cons] at hnd
    by_cases e : a.id = itm.id
    · have hnot : itm ∉ l := by
        intro hin; apply hnd.1; rw [e]; exact List.mem_map_of_mem hin
      have ha : itm = a := by
        rcases List.mem_cons.mp hm with h | h
        · exact h
        · exact absurd h hnot
      subst ha
      have : (itm :: l).filter (fun t => t.id != itm.id) = l := by
        have h1 : (itm.id != itm.id) = false := by simp
        rw [List.filter_cons, h1]; simp only [Bool.false_eq_true, if_false]
        exact filter_ne_id_of_not_mem l itm.id hnd.1
      rw [this]; simp [sumFees]
    · have hin : itm ∈ l := by
        rcases List.mem_cons.mp hm with h | h
        · subst h; exact absurd rfl e
        · exact h
      have : (a :: l).filter (fun t => t.id != itm.id) = a :: l.filter (fun t => t.id != itm.id) := by
        rw [List.filter_cons]; simp [e]
      rw [this]; simp only [sumFees]; rw [ih hnd.2 hin]; omega

theorem findNum_spec (l : List Tx) (h : Nat) (e : Tx) (hm : e ∈ l) (he : e.id = h) (hnd : (l.map (·.id)).Nodup) :
    ∃ e', l[findNum l h]? = some e' ∧ e' ∈ l ∧ e'.id = h ∧
      l.eraseIdx (findNum l h) = l.filter (fun t => t.id != h) := by
  induction l with
  | nil => cases hm
  | cons a l ih =>
    rw [List.map_cons, List.nodup_cons] at hnd
    by_cases ea : a.id = h
    · refine ⟨a, ?_, List.mem_cons_self, ea, ?_⟩
      · simp [findNum, List.findIdx?_cons, ea]
      · have : findNum (a :: l) h = 0 := by simp [findNum, List.findIdx?_cons, ea]
        rw [this, List.eraseIdx_cons_zero, List.filter_cons]
        simp [ea]
        exact (filter_ne_id_of_not_mem l h (by rw [← ea]; exact hnd.1)).symm
    · have hin : e ∈ l := by
        rcases List.mem_cons.mp hm with h' | h'
        · subst h'; exact absurd he ea
        · exact h'
      obtain ⟨e', h1, h2, h3, h4⟩ := ih hin hnd.2
      have hsome : ∃ i, l.findIdx? (fun t => t.id == h) = some i := by
        cases hf : l.findIdx? (fun t => t.id == h) with
        | some i => exact ⟨i, rfl⟩
        | none =>
          rw [List.findIdx?_eq_none_iff] at hf
          have := hf e hin; simp [he] at this
      obtain ⟨i, hi⟩ := hsome
      have hfl : findNum l h = i := by simp [findNum, hi]
      have hfa : findNum (a :: l) h = i + 1 := by
        simp [findNum, List.findIdx?_cons, ea, hi]
      refine ⟨e', ?_, List.mem_cons_of_mem _ h2, h3, ?_⟩
      · rw [hfa]; rw [hfl] at h1; simpa using h1
      · rw [hfa, List.eraseIdx_cons_succ, List.filter_cons]
        simp [ea]; rw [← hfl]; exact h4

end NeoModel.Mempool
