/- C19 helper lemmas: shape of ledgers (one block per height), prefix ordering. -/
import NeoModel.Proofs.DbftRun
namespace NeoModel.Dbft

theorem chainAt_length {l : List Block} {h : Nat} (hc : ChainAt l h) : l.length + 1 = h := by
  induction l generalizing h with
  | nil => simp [ChainAt] at hc; simp [hc]
  | cons b rest ih =>
    obtain ⟨h1, h2⟩ := hc
    have := ih h2
    simp; omega

theorem chainAt_pos {l : List Block} {h : Nat} (hc : ChainAt l h) : 1 ≤ h := by
  have := chainAt_length hc; omega

theorem chainAt_mem {l : List Block} {h : Nat} (hc : ChainAt l h) (h' : Nat) (h1 : 1 ≤ h') (h2 : h' < h) :
    ∃ b, b ∈ l ∧ b.h = h' := by
  induction l generalizing h with
  | nil => simp [ChainAt] at hc; omega
  | cons b rest ih =>
    obtain ⟨e1, e2⟩ := hc
    by_cases hb : b.h = h'
    · exact ⟨b, List.mem_cons_self, hb⟩
    · obtain ⟨x, hx, hxh⟩ := ih e2 (by omega)
      exact ⟨x, List.mem_cons_of_mem _ hx, hxh⟩

theorem chainAt_eq {l1 l2 : List Block} {h : Nat} (c1 : ChainAt l1 h) (c2 : ChainAt l2 h)
    (agree : ∀ b b', b ∈ l1 → b' ∈ l2 → b.h = b'.h → b = b') : l1 = l2 := by
  induction l1 generalizing l2 h with
  | nil =>
    cases l2 with
    | nil => rfl
    | cons b rest =>
      simp [ChainAt] at c1
      obtain ⟨e1, e2⟩ := c2
      have := chainAt_pos e2
      omega
  | cons a r1 ih =>
    cases l2 with
    | nil =>
      simp [ChainAt] at c2
      obtain ⟨e1, e2⟩ := c1
      have := chainAt_pos e2
      omega
    | cons b r2 =>
      obtain ⟨a1, a2⟩ := c1
      obtain ⟨b1, b2⟩ := c2
      have hab : a = b := agree a b List.mem_cons_self List.mem_cons_self (by omega)
      subst hab
      have := ih a2 b2 (fun x y hx hy => agree x y (List.mem_cons_of_mem _ hx) (List.mem_cons_of_mem _ hy))
      rw [this]

theorem chainAt_suffix {l1 l2 : List Block} {h1 h2 : Nat} (c1 : ChainAt l1 h1) (c2 : ChainAt l2 h2) (hle : h1 ≤ h2)
    (agree : ∀ b b', b ∈ l1 → b' ∈ l2 → b.h = b'.h → b = b') : l1 <:+ l2 := by
  induction l2 generalizing h2 with
  | nil =>
    simp [ChainAt] at c2
    have := chainAt_pos c1
    have : h1 = 1 := by omega
    subst this
    cases l1 with
    | nil => exact List.suffix_refl _
    | cons a r =>
      obtain ⟨e1, e2⟩ := c1
      have := chainAt_pos e2
      omega
  | cons b rest ih =>
    by_cases heq : h1 = h2
    · subst heq
      rw [chainAt_eq c1 c2 agree]
      exact List.suffix_refl _
    · obtain ⟨e1, e2⟩ := c2
      have := ih e2 (by omega) (fun x y hx hy => agree x y hx (List.mem_cons_of_mem _ hy))
      exact List.suffix_cons_iff.mpr (Or.inr this)

end NeoModel.Dbft
