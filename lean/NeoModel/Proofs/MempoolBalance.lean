/-
C08 helper: cached balances never exceed what the `Feer` reports, as long as the same `Feer` is used
since the last `RemoveStale`; with the invariant this gives solvency against the real balances.
-/
import NeoModel.Proofs.MempoolStale
namespace NeoModel.Mempool

/-- every cached balance is at most what the `Feer` `F` reports (as a uint256) -/
def BalLe (F : Feer) (fees : Payer → Option Fee) : Prop :=
  ∀ q f, fees q = some f → f.balance ≤ F.balance q.1 q.2 % U256

theorem balLe_upd {F : Feer} {fees : Payer → Option Fee} (h : BalLe F fees) (q : Payer) (v : Fee)
    (hv : v.balance ≤ F.balance q.1 q.2 % U256) : BalLe F (upd fees q (some v)) := by
  intro q' f hf
  by_cases e : q' = q
  · subst e; rw [upd_same] at hf; cases hf; exact hv
  · rw [upd_other _ _ e] at hf; exact h q' f hf

theorem balLe_getPayerFee {F : Feer} {fees : Payer → Option Fee} (h : BalLe F fees) (p : Payer) :
    (getPayerFee p fees F).1.balance ≤ F.balance p.1 p.2 % U256 := by
  unfold getPayerFee
  cases hp : fees p with
  | some f => exact h p f hp
  | none => exact Nat.le_refl _

theorem balLe_removeFromMap {F : Feer} (mp : Pool) (itm : Tx) (h : BalLe F mp.fees) :
    BalLe F (removeFromMap mp itm).fees := by
  unfold removeFromMap
  simp only
  apply balLe_upd h
  cases hp : mp.fees (payerOf itm) with
  | some f => exact h _ f hp
  | none => exact Nat.zero_le _

theorem balLe_removeInternal {F : Feer} (mp : Pool) (hh : Nat) (h : BalLe F mp.fees) :
    BalLe F (removeInternal mp hh).fees := by
  unfold removeInternal
  split
  · exact h
  · simp only
    split
    · exact h
    · exact balLe_removeFromMap { mp with txs := _ } _ h

theorem balLe_removeAll {F : Feer} : ∀ (rm : List Tx) (mp : Pool), BalLe F mp.fees → BalLe F (removeAll mp rm).fees := by
  intro rm
  induction rm with
  | nil => intro mp h; exact h
  | cons c cs ih => intro mp h; simp only [removeAll]; exact ih _ (balLe_removeInternal mp c.id h)

theorem checkTxConflicts_fees (mp : Pool) (t : Tx) (F : Feer) :
    (checkTxConflicts mp t F).1.fees = mp.fees ∨
    (checkTxConflicts mp t F).1.fees = upd mp.fees (payerOf t) (some (getPayerFee (payerOf t) mp.fees F).1) := by
  unfold checkTxConflicts
  simp only
  repeat' split
  all_goals first | exact Or.inl rfl | exact Or.inr rfl

theorem balLe_checkTxConflicts {F : Feer} (mp : Pool) (t : Tx) (h : BalLe F mp.fees) :
    BalLe F (checkTxConflicts mp t F).1.fees := by
  rcases checkTxConflicts_fees mp t F with e | e
  · rw [e]; exact h
  · rw [e]; exact balLe_upd h _ _ (balLe_getPayerFee h _)

theorem balLe_verify {F : Feer} (mp : Pool) (t : Tx) (h : BalLe F mp.fees) : BalLe F (verify mp t F).1.fees := by
  have := balLe_checkTxConflicts mp t h
  unfold verify
  cases hc : checkTxConflicts mp t F with
  | mk mp1 r => rw [hc] at this; cases r <;> exact this

theorem balLe_oracleStage {F : Feer} (mp : Pool) (t : Tx) (h : BalLe F mp.fees) :
    BalLe F (oracleStage mp t).1.fees := by
  unfold oracleStage
  split
  · exact h
  · split
    · exact h
    · split
      · exact h
      · split
        · exact h
        · exact balLe_removeInternal mp _ h

theorem balLe_tryAdd {F : Feer} (mp : Pool) (t : Tx) (b : Bool) (h : BalLe F mp.fees) :
    BalLe F (tryAddSendersFee mp t F b).1.fees := by
  have hpf := balLe_getPayerFee h (payerOf t)
  have h0 : BalLe F (if !(getPayerFee (payerOf t) mp.fees F).2
      then { mp with fees := upd mp.fees (payerOf t) (some (getPayerFee (payerOf t) mp.fees F).1) } else mp).fees := by
    split
    · exact balLe_upd h _ _ hpf
    · exact h
  unfold tryAddSendersFee
  simp only
  cases b with
  | true =>
    simp only [if_true]
    split
    · exact h0
    · exact balLe_upd h0 _ _ hpf
  | false =>
    simp only [Bool.false_eq_true, if_false]
    exact balLe_upd h0 _ _ hpf

theorem balLe_insertStage {F : Feer} (mp : Pool) (t : Tx) (d : Nat) (h : BalLe F mp.fees) :
    BalLe F (insertStage mp t F d).1.fees := by
  unfold insertStage
  simp only
  split
  · exact h
  · show BalLe F (tryAddSendersFee _ t F false).1.fees
    apply balLe_tryAdd
    show BalLe F (placeLast mp t).fees
    unfold placeLast
    split
    · split
      · exact h
      · exact balLe_removeFromMap { mp with txs := _ } _ h
    · exact h

theorem balLe_add {F : Feer} (mp : Pool) (t : Tx) (d : Nat) (h : BalLe F mp.fees) : BalLe F (add mp t F d).1.fees := by
  have hc := balLe_checkTxConflicts mp t h
  unfold add
  split
  · exact h
  · cases hck : checkTxConflicts mp t F with
    | mk mp1 r =>
      rw [hck] at hc
      cases r with
      | error e => exact hc
      | ok rm =>
        simp only
        have ho := balLe_oracleStage mp1 t hc
        split
        · exact ho
        · split
          · exact ho
          · exact balLe_insertStage _ t d (balLe_removeAll rm _ ho)

theorem balLe_staleLoop {F : Feer} (isOK : Tx → Bool) (pc : Bool) : ∀ (rest : List Tx) (mp : Pool) (acc : List Tx),
    BalLe F mp.fees → BalLe F (staleLoop isOK F pc rest mp acc).1.fees := by
  intro rest
  induction rest with
  | nil => intro mp acc h; exact h
  | cons itm rest ih =>
    intro mp acc h
    simp only [staleLoop]
    have ht := balLe_tryAdd mp itm true h
    split
    · cases hres : tryAddSendersFee mp itm F true with
      | mk mp' b =>
        rw [hres] at ht
        cases b <;> exact ih _ _ ht
    · exact ih _ _ h

theorem balLe_removeStale (F : Feer) (mp : Pool) (isOK : Tx → Bool) : BalLe F (removeStale mp isOK F).fees := by
  unfold removeStale
  simp only
  apply balLe_staleLoop
  intro q f hf; cases hf

/-- C08 solvency in terms of the `Feer`: under the invariant, with cached balances bounded by the
balances `F` reports, every payer's pooled fees sum to at most its balance. -/
theorem solvent_of_balLe {U : Tx → Prop} {mp : Pool} (hi : Inv U mp) {F : Feer} (hb : BalLe F mp.fees) (q : Payer) :
    sumFees q mp.txs ≤ F.balance q.1 q.2 := by
  have := hi.fees q
  cases hq : mp.fees q with
  | none => rw [hq] at this; simp only [FeeEntry] at this; omega
  | some f =>
    rw [hq] at this; simp only [FeeEntry] at this
    have h1 := hb q f hq
    have h2 : F.balance q.1 q.2 % U256 ≤ F.balance q.1 q.2 := Nat.mod_le _ _
    omega

end NeoModel.Mempool
