/-
Helper lemmas for C18 / script builders and parsers: `emit.Int`/`emit.BigInt` push what they are
given; `CheckIntegerSize` is the 256-bit range.
-/
import NeoModel.Model.Codec.Script
import NeoModel.Proofs.CodecBigInt
namespace NeoModel.Codec

/-! ### sign extension does not change the decoded value -/

theorem stripT_append_replicate (p : UInt8) (l : Bytes) (k : Nat) :
    stripT p (l ++ List.replicate k p) = stripT p l := by
  induction l with
  | nil =>
    simp only [List.nil_append]
    induction k with
    | zero => rfl
    | succ k ih => simp [List.replicate_succ, stripT, ih]
  | cons x xs ih => simp [stripT, ih]

theorem isNegB_append_replicate (l : Bytes) (k : Nat) (x : UInt8) :
    isNegB (l ++ List.replicate (k + 1) x) = decide (128 ≤ x.toNat) := by
  have : (l ++ List.replicate (k + 1) x).getLast? = some x := by
    rw [List.replicate_succ', ← List.append_assoc, List.getLast?_append]; simp
  unfold isNegB
  rw [this]

theorem isNegB_append_sign (l : Bytes) (k : Nat) :
    isNegB (l ++ List.replicate k (if isNegB l then 0xFF else 0x00)) = isNegB l := by
  cases k with
  | zero => simp
  | succ k =>
    rw [isNegB_append_replicate]
    cases isNegB l <;> rfl

theorem fromBytes_padRight (s : Nat) (buf : Bytes) (hne : buf ≠ []) :
    fromBytes (padRight s buf) = fromBytes buf := by
  unfold padRight
  generalize hk : s - buf.length = k
  have hneg := isNegB_append_sign buf k
  have hne2 : (buf ++ List.replicate k (if isNegB buf then (0xFF : UInt8) else 0x00)).isEmpty = false := by
    cases buf <;> simp_all
  have hne1 : buf.isEmpty = false := by cases buf <;> simp_all
  unfold fromBytes
  rw [hne1, hne2, hneg]
  cases hb : isNegB buf
  · simp only [Bool.false_eq_true, if_false]
    rw [stripT_append_replicate]
  · simp only [if_true]
    rw [stripT_append_replicate]


/-! ### `CheckIntegerSize` -/

theorem checkIntegerSize_iff (v : Int) :
    checkIntegerSize v = true ↔ (-(2:Int)^255 ≤ v ∧ v < (2:Int)^255) := by
  have hp : ((2 ^ 255 : Nat) : Int) = (2:Int) ^ 255 := by simp
  have h1 := bitLen_le_iff v.natAbs 255
  have h2 := bitLen_le_iff v.natAbs 256
  have hpp : (2:Nat) ^ 256 = 2 * 2 ^ 255 := by rw [Nat.pow_succ]
  unfold checkIntegerSize
  simp only []
  by_cases c1 : bitLen v.natAbs < 256
  · simp only [c1, if_true, true_iff]
    have : v.natAbs < 2 ^ 255 := h1.mp (by omega)
    omega
  · simp only [c1, if_false]
    by_cases c2 : 256 < bitLen v.natAbs
    · simp only [c2, if_true, Bool.false_eq_true, false_iff]
      have : ¬ v.natAbs < 2 ^ 256 := fun h => by have := h2.mpr h; omega
      omega
    · simp only [c2, if_false]
      have hlo : ¬ v.natAbs < 2 ^ 255 := fun h => by have := h1.mpr h; omega
      have hhi : v.natAbs < 2 ^ 256 := h2.mp (by omega)
      by_cases c3 : 0 < v
      · simp only [c3, decide_true, Bool.true_or, if_true, Bool.false_eq_true, false_iff]
        omega
      · simp only [c3, decide_false, Bool.false_or]
        by_cases c4 : v.natAbs % 2 ^ 255 = 0
        · simp only [c4, bne_self_eq_false, Bool.false_eq_true, if_false, true_iff]
          omega
        · have : (v.natAbs % 2 ^ 255 != 0) = true := by simp [c4]
          simp only [this, if_true, Bool.false_eq_true, false_iff]
          omega


/-! ### integer pushes -/

theorem pushed_small : ∀ i : Fin 16, pushedInt [UInt8.ofNat (16 + i.val)] = some (i.val : Int) := by decide

theorem smallInt_pushes (n : Int) (s : Bytes) (h : smallInt n = some s) : pushedInt s = some n := by
  unfold smallInt at h
  split at h
  · rename_i h1; subst h1; cases h; decide
  · split at h
    · rename_i h1 h2
      cases h
      have := pushed_small ⟨n.toNat, by omega⟩
      simp only at this
      rw [this]
      congr 1; omega
    · cases h

theorem padRight_length (s : Nat) (buf : Bytes) (h : buf.length ≤ s) : (padRight s buf).length = s := by
  simp [padRight]; omega

theorem pushed_pushint (p : Nat) (hp : p ≤ 5) (param : Bytes) (hl : param.length = 2 ^ p) :
    pushedInt (UInt8.ofNat p :: param) = some (fromBytes param) := by
  have hop : (UInt8.ofNat p).toNat = p := by simp [UInt8.toNat_ofNat']; omega
  have h5 : opPUSHINT256.toNat = 5 := rfl
  have h15 : opPUSHM1.toNat = 15 := rfl
  unfold pushedInt nextInstr
  simp only [List.length_cons, hl, List.getD_cons_zero, hop, h5]
  have c1 : ¬ (2 ^ p + 1 ≤ 0) := by omega
  have c3 : ¬ (2 ^ p + 1 < 0 + 1 + 2 ^ p) := by omega
  simp only [c1, hp, c3, if_true, if_false, List.drop_succ_cons, List.drop_zero]
  have ht : List.take (2 ^ p) param = param := by rw [← hl]; exact List.take_length
  have e : (0 + 1 + 2 ^ p == 2 ^ p + 1) = true := by simp; omega
  have pos : decide (0 < 2 ^ p + 1) = true := by simp
  simp only [ht, e, pos, Bool.and_self, if_true]
  unfold getBigIntFromInstr
  simp only [hop, h15, h5]
  have c4 : ¬ (15 ≤ p ∧ p ≤ opPUSH16.toNat) := by omega
  simp only [c4, hp, if_true, if_false]

theorem emitBigIntAux_pushes (n : Int) (ts : Bool) (hr : -(2:Int)^255 ≤ n ∧ n < (2:Int)^255) :
    ∃ s, emitBigIntAux n ts = some s ∧ pushedInt s = some n := by
  unfold emitBigIntAux
  by_cases c1 : (ts && isInt64 n && (smallInt n).isSome) = true
  · simp only [c1, if_true]
    have : (smallInt n).isSome = true := by
      simp only [Bool.and_eq_true] at c1; exact c1.2
    obtain ⟨s, hs⟩ := Option.isSome_iff_exists.mp this
    exact ⟨s, hs, smallInt_pushes n s hs⟩
  · simp only [c1]
    have hc : checkIntegerSize n = true := (checkIntegerSize_iff n).mpr hr
    simp only [hc, Bool.not_true, Bool.false_eq_true, if_false]
    by_cases he : (toBytes n).isEmpty = true
    · simp only [he, if_true]
      have h0 : n = 0 := by
        have := fromBytes_toBytes n
        have e : toBytes n = [] := by cases h : toBytes n <;> simp_all
        rw [e] at this; exact this.symm
      subst h0
      exact ⟨_, rfl, by decide⟩
    · simp only [he]
      have hne : toBytes n ≠ [] := by intro h; rw [h] at he; exact he rfl
      have hL1 : 1 ≤ (toBytes n).length := by cases h : toBytes n <;> simp_all
      have hL32 : (toBytes n).length ≤ 32 := (toBytes_length_le_32_iff n).mpr hr
      have hp5 : bitLen ((toBytes n).length - 1) ≤ 5 := (bitLen_le_iff _ _).mpr (by omega)
      have hpow : (toBytes n).length - 1 < 2 ^ bitLen ((toBytes n).length - 1) := lt_pow_bitLen _
      refine ⟨_, rfl, ?_⟩
      rw [pushed_pushint _ hp5 _ (padRight_length _ _ (by omega)), fromBytes_padRight _ _ hne, fromBytes_toBytes]

theorem emitBigInt_none (n : Int) (hr : ¬ (-(2:Int)^255 ≤ n ∧ n < (2:Int)^255)) : emitBigInt n = none := by
  unfold emitBigInt emitBigIntAux
  have hc : checkIntegerSize n = false := by
    cases h : checkIntegerSize n with
    | false => rfl
    | true => exact absurd ((checkIntegerSize_iff n).mp h) hr
  have hi : isInt64 n = false := by
    simp only [isInt64, decide_eq_false_iff_not]
    intro h; apply hr; constructor <;> omega
  simp [hc, hi]

theorem emitInt_pushes (i : Int) (hr : -(2:Int)^63 ≤ i ∧ i < (2:Int)^63) :
    ∃ s, emitInt i = some s ∧ pushedInt s = some i := by
  unfold emitInt
  cases h : smallInt i with
  | some b => exact ⟨b, rfl, smallInt_pushes i b h⟩
  | none => exact emitBigIntAux_pushes i false (by constructor <;> omega)

end NeoModel.Codec
