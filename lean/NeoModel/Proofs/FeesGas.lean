/- C07 helper lemmas (see Props/C07.lean for the property theorems). -/
import NeoModel.Model.Fees
namespace NeoModel.Fees
open NeoModel.Generated.FeeConsts

/-! ### gas limit: running with a limit = running without and checking the total -/

/-- keep a result only if its gas is within `L`. -/
def filt (L : Nat) (o : Option VM) : Option VM := o.bind fun s => if s.gas ≤ L then some s else none

def Env.lim (e : Env) (L : Nat) : Env := { e with limit := some L }
def Env.unl (e : Env) : Env := { e with limit := none }

@[simp] theorem filt_none (L) : filt L none = none := rfl
theorem filt_some (L) (s : VM) : filt L (some s) = if s.gas ≤ L then some s else none := rfl

@[simp] theorem lim_base (e : Env) (L) : (e.lim L).base = e.base := rfl
@[simp] theorem unl_base (e : Env) : e.unl.base = e.base := rfl
@[simp] theorem lim_gorgon (e : Env) (L) : (e.lim L).gorgon = e.gorgon := rfl
@[simp] theorem unl_gorgon (e : Env) : e.unl.gorgon = e.gorgon := rfl
@[simp] theorem lim_validKey (e : Env) (L) : (e.lim L).validKey = e.validKey := rfl
@[simp] theorem unl_validKey (e : Env) : e.unl.validKey = e.validKey := rfl
@[simp] theorem lim_verify (e : Env) (L) : (e.lim L).verify = e.verify := rfl
@[simp] theorem unl_verify (e : Env) : e.unl.verify = e.verify := rfl

theorem charge_unl (e : Env) (s : VM) (p : Nat) : charge e.unl s p = some { s with gas := s.gas + p } := by
  simp [charge, Env.unl]

theorem charge_lim (e : Env) (L : Nat) (s : VM) (p : Nat) :
    charge (e.lim L) s p = if s.gas + p ≤ L then some { s with gas := s.gas + p } else none := by
  simp only [charge, Env.lim]
  split <;> rename_i h <;> simp_all <;> omega

/-- the composition principle: a charge followed by a continuation that itself obeys the principle and
never lowers the gas. -/
theorem charge_bind_lim (e : Env) (L : Nat) (s : VM) (p : Nat) (f g : VM → Option VM)
    (hfg : ∀ s1, s1.gas ≤ L → f s1 = filt L (g s1))
    (hmono : ∀ s1 s2, g s1 = some s2 → s1.gas ≤ s2.gas) :
    (charge (e.lim L) s p).bind f = filt L ((charge e.unl s p).bind g) := by
  rw [charge_unl, charge_lim]
  by_cases h : s.gas + p ≤ L
  · simp only [h, if_true, Option.bind_some]
    exact hfg _ h
  · simp only [h, if_false, Option.bind_none, Option.bind_some]
    cases hg : g { s with gas := s.gas + p } with
    | none => rfl
    | some s2 =>
      have := hmono _ _ hg
      simp only [filt_some]
      have : ¬ s2.gas ≤ L := by simp at this; omega
      simp [this]

theorem checkSigBody_gas {g vk vf} {s s' : VM} (h : checkSigBody g vk vf s = some s') : s'.gas = s.gas := by
  unfold checkSigBody at h
  split at h
  · split at h <;> try contradiction
    split at h <;> try contradiction
    simp at h; subst h; rfl
  · contradiction

theorem multisigFinish_gas {g vk vf ks sg} {s s' : VM} (h : multisigFinish g vk vf ks sg s = some s') : s'.gas = s.gas := by
  unfold multisigFinish at h
  split at h <;> try contradiction
  split at h <;> try contradiction
  cases hm : multisigResult vk vf ks sg with
  | none => simp [hm] at h
  | some ok => simp [hm] at h; subst h; rfl

theorem filt_of_gas_eq (L : Nat) (o : Option VM) (g : Nat) (hg : ∀ s', o = some s' → s'.gas = g) (hL : g ≤ L) : filt L o = o := by
  cases o with
  | none => rfl
  | some s' => simp [filt_some, hg s' rfl, hL]

theorem syscall_mono (e : Env) (s s' : VM) (id : Bytes) (h : syscall e.unl s id = some s') : s.gas ≤ s'.gas := by
  unfold syscall at h
  simp only [charge_unl, Option.bind_some] at h
  split at h
  · have := checkSigBody_gas h; simp at this; omega
  · split at h
    · simp only [Option.bind_eq_some_iff] at h
      obtain ⟨⟨keys, st1⟩, _, ⟨sigs, st2⟩, _, h⟩ := h
      have := multisigFinish_gas h; simp at this; omega
    · contradiction

theorem syscall_lim (e : Env) (L : Nat) (s : VM) (id : Bytes) :
    syscall (e.lim L) s id = filt L (syscall e.unl s id) := by
  unfold syscall
  simp only [lim_base, unl_base, lim_gorgon, unl_gorgon, lim_validKey, unl_validKey, lim_verify, unl_verify]
  split
  · apply charge_bind_lim
    · intro s1 h
      exact (filt_of_gas_eq L _ s1.gas (fun s' hs => checkSigBody_gas hs) h).symm
    · intro s1 s2 hs; rw [checkSigBody_gas hs]; exact Nat.le_refl _
  · split
    · apply charge_bind_lim
      · intro s1 _
        cases popSigElements s1.stack with
        | none => rfl
        | some p1 =>
          obtain ⟨keys, st1⟩ := p1
          simp only [Option.bind_some]
          cases popSigElements st1 with
          | none => rfl
          | some p2 =>
            obtain ⟨sigs, st2⟩ := p2
            simp only [Option.bind_some]
            apply charge_bind_lim
            · intro s3 h
              exact (filt_of_gas_eq L _ s3.gas (fun s' hs => multisigFinish_gas hs) h).symm
            · intro s3 s4 hs; rw [multisigFinish_gas hs]; exact Nat.le_refl _
      · intro s1 s2 hs
        simp only [Option.bind_eq_some_iff] at hs
        obtain ⟨⟨keys, st1⟩, _, ⟨sigs, st2⟩, _, hs⟩ := hs
        rw [charge_unl] at hs
        obtain ⟨a, ha, hs⟩ := hs
        simp at ha; subst ha
        have := multisigFinish_gas hs; simp at this; omega
    · rfl

end NeoModel.Fees

namespace NeoModel.Fees
open NeoModel.Generated.FeeConsts

theorem stackCheck_eq {s s' : VM} (h : stackCheck s = some s') : s' = s := by
  unfold stackCheck at h; split at h <;> simp_all

theorem execBody_mono (e : Env) (s s' : VM) (opc : Nat) (x : Bytes) (h : execBody e.unl s opc x = some s') : s.gas ≤ s'.gas := by
  unfold execBody at h
  split at h
  · simp at h; subst h; exact Nat.le_refl _
  · split at h
    · simp at h; subst h; exact Nat.le_refl _
    · split at h
      · simp at h; subst h; exact Nat.le_refl _
      · split at h
        · exact syscall_mono e s s' x h
        · contradiction

theorem execBody_lim (e : Env) (L : Nat) (s : VM) (opc : Nat) (x : Bytes) (hs : s.gas ≤ L) :
    execBody (e.lim L) s opc x = filt L (execBody e.unl s opc x) := by
  unfold execBody
  split
  · simp [filt_some, hs]
  · split
    · simp [filt_some, hs]
    · split
      · simp [filt_some, hs]
      · split
        · exact syscall_lim e L s x
        · rfl

theorem filt_bind_stackCheck (L : Nat) (o : Option VM) : (filt L o).bind stackCheck = filt L (o.bind stackCheck) := by
  cases o with
  | none => rfl
  | some s =>
    simp only [filt_some, Option.bind_some]
    by_cases h : s.gas ≤ L
    · simp only [h, if_true, Option.bind_some]
      unfold stackCheck; split <;> simp [filt_some, h]
    · simp only [h, if_false, Option.bind_none]
      unfold stackCheck; split <;> simp [filt_some, h]

theorem exec_mono (e : Env) (s s' : VM) (opc : Nat) (x : Bytes) (h : exec e.unl s opc x = some s') : s.gas ≤ s'.gas := by
  unfold exec at h
  rw [charge_unl] at h
  simp only [Option.bind_some, Option.bind_eq_some_iff] at h
  obtain ⟨s1, h1, h2⟩ := h
  have := execBody_mono e _ _ _ _ h1
  rw [stackCheck_eq h2]
  simp at this; omega

theorem exec_lim (e : Env) (L : Nat) (s : VM) (opc : Nat) (x : Bytes) :
    exec (e.lim L) s opc x = filt L (exec e.unl s opc x) := by
  unfold exec
  simp only [lim_base, unl_base]
  apply charge_bind_lim
  · intro s1 h1
    rw [execBody_lim e L s1 opc x h1, filt_bind_stackCheck]
  · intro s1 s2 h
    simp only [Option.bind_eq_some_iff] at h
    obtain ⟨s3, h3, h4⟩ := h
    rw [stackCheck_eq h4]
    exact execBody_mono e _ _ _ _ h3

theorem step_mono (e : Env) (s s' : VM) (b : UInt8) (h : step e.unl s b = some s') : s.gas ≤ s'.gas := by
  unfold step at h
  split at h
  · dsimp only at h
    repeat' split at h
    all_goals first
      | (simp at h; subst h; exact Nat.le_refl _)
      | exact exec_mono e _ _ _ _ h
      | contradiction
  · dsimp only at h
    repeat' split at h
    all_goals first
      | (simp at h; subst h; exact Nat.le_refl _)
      | exact exec_mono e _ _ _ _ h
      | contradiction
  · dsimp only at h
    repeat' split at h
    all_goals first
      | (simp at h; subst h; exact Nat.le_refl _)
      | exact exec_mono e _ _ _ _ h
      | contradiction

theorem step_lim (e : Env) (L : Nat) (s : VM) (b : UInt8) (hs : s.gas ≤ L) :
    step (e.lim L) s b = filt L (step e.unl s b) := by
  unfold step
  split
  · dsimp only
    repeat' split
    all_goals first
      | exact exec_lim e L _ _ _
      | simp [filt_some, hs]
  · dsimp only
    repeat' split
    all_goals first
      | exact exec_lim e L _ _ _
      | simp [filt_some, hs]
  · dsimp only
    repeat' split
    all_goals first
      | exact exec_lim e L _ _ _
      | simp [filt_some, hs]

theorem runBytes_mono (e : Env) (bs : Bytes) : ∀ (s s' : VM), runBytes e.unl s bs = some s' → s.gas ≤ s'.gas := by
  induction bs with
  | nil => intro s s' h; simp [runBytes] at h; subst h; exact Nat.le_refl _
  | cons b bs ih =>
    intro s s' h
    simp only [runBytes, List.foldlM_cons, Option.bind_eq_bind, Option.bind_eq_some_iff] at h
    obtain ⟨s1, h1, h2⟩ := h
    exact Nat.le_trans (step_mono e _ _ _ h1) (ih s1 s' h2)

theorem runBytes_lim (e : Env) (L : Nat) (bs : Bytes) : ∀ (s : VM), s.gas ≤ L →
    runBytes (e.lim L) s bs = filt L (runBytes e.unl s bs) := by
  induction bs with
  | nil => intro s hs; simp [runBytes, filt_some, hs]
  | cons b bs ih =>
    intro s hs
    simp only [runBytes, List.foldlM_cons, Option.bind_eq_bind]
    rw [step_lim e L s b hs]
    cases h1 : step e.unl s b with
    | none => rfl
    | some s1 =>
      simp only [filt_some, Option.bind_some]
      by_cases hL : s1.gas ≤ L
      · simp only [hL, if_true, Option.bind_some]
        exact ih s1 hL
      · simp only [hL, if_false, Option.bind_none]
        cases h2 : List.foldlM (step e.unl) s1 bs with
        | none => rfl
        | some s2 =>
          have := runBytes_mono e bs s1 s2 h2
          have : ¬ s2.gas ≤ L := by omega
          simp [filt_some, this]

end NeoModel.Fees
