import NeoModel.Model.VmAcct.Gas
namespace NeoModel.VmGas

set_option maxRecDepth 20000 in
/-- generated fact (pkg/core/fee/opcode.go, pkg/vm/opcode): every valid opcode except RET, SYSCALL,
ABORT and ABORTMSG has a price coefficient ≥ 1 -/
theorem price_pos_table :
    Generated.Opcodes.table.all (fun e => e.1 == opRET || e.1 == opSYSCALL || e.1 == opABORT || e.1 == opABORTMSG ||
      decide (1 ≤ coeff e.1)) = true := by decide

theorem price_pos (op : Nat) (hv : isValidOp op = true) (h1 : op ≠ opRET) (h2 : op ≠ opSYSCALL) (h3 : op ≠ opABORT)
    (h4 : op ≠ opABORTMSG) : 1 ≤ coeff op := by
  simp only [isValidOp, List.any_eq_true, beq_iff_eq] at hv
  obtain ⟨e, he, rfl⟩ := hv
  have := List.all_eq_true.1 price_pos_table e he
  simp only [Bool.or_eq_true, beq_iff_eq, decide_eq_true_eq] at this
  omega

set_option maxRecDepth 20000 in
theorem coeff_ret : coeff opRET = 0 := by decide

/-- invariant: a running or halted VM has not consumed more than the limit; a running one has a
non-empty invocation stack within the limit -/
structure Ok (cfg : Cfg) (g : G) : Prop where
  gas : g.status ≠ .fault → g.gas ≤ cfg.limit
  depth : g.status = .running → 1 ≤ g.depth ∧ g.depth ≤ maxDepth

def mu (cfg : Cfg) (g : G) : Nat := (cfg.limit + 1 - g.gas) * (maxDepth + 1) + g.depth

theorem gstep_ok (cfg : Cfg) (hb : 1 ≤ cfg.base) (g : G) (op : Nat) (e : Eff) (he : e.okFor op) (hok : Ok cfg g)
    (hr : g.status = .running) :
    Ok cfg (gstep cfg g op e) ∧ ((gstep cfg g op e).status = .running → mu cfg (gstep cfg g op e) < mu cfg g) := by
  have hg := hok.gas (by rw [hr]; decide)
  have hd := hok.depth hr
  simp only [gstep, hr]
  by_cases hlim : g.gas + cfg.base * coeff op > cfg.limit
  · simp only [hlim, if_true, fault]
    exact ⟨⟨fun h => absurd rfl h, fun h => by cases h⟩, fun h => by cases h⟩
  · simp only [hlim, if_false]
    have hle : g.gas + cfg.base * coeff op ≤ cfg.limit := by omega
    cases e with
    | fault =>
      simp only [fault]
      exact ⟨⟨fun h => absurd rfl h, fun h => by cases h⟩, fun h => by cases h⟩
    | cont d =>
      obtain ⟨hv, h1, h2, h3, h4, hd1, hd2⟩ := he
      have hp := price_pos op hv h1 h2 h3 h4
      have hpaid : 1 ≤ cfg.base * coeff op := Nat.mul_le_mul hb hp
      refine ⟨⟨fun _ => hle, fun _ => ⟨hd1, hd2⟩⟩, fun _ => ?_⟩
      simp only [mu]
      have hmul : (cfg.limit + 1 - (g.gas + cfg.base * coeff op)) * (maxDepth + 1) + (maxDepth + 1)
          ≤ (cfg.limit + 1 - g.gas) * (maxDepth + 1) := by
        have : cfg.limit + 1 - (g.gas + cfg.base * coeff op) + 1 ≤ cfg.limit + 1 - g.gas := by omega
        calc (cfg.limit + 1 - (g.gas + cfg.base * coeff op)) * (maxDepth + 1) + (maxDepth + 1)
            = (cfg.limit + 1 - (g.gas + cfg.base * coeff op) + 1) * (maxDepth + 1) := by rw [Nat.add_mul]; simp
          _ ≤ (cfg.limit + 1 - g.gas) * (maxDepth + 1) := Nat.mul_le_mul_right _ this
      omega
    | ret =>
      have hop : op = opRET := he
      have hc : coeff op = 0 := by rw [hop]; exact coeff_ret
      by_cases hd1 : g.depth ≤ 1
      · simp only [hd1, if_true]
        exact ⟨⟨fun _ => hle, fun h => by cases h⟩, fun h => by cases h⟩
      · simp only [hd1, if_false]
        refine ⟨⟨fun _ => hle, fun _ => by dsimp only; omega⟩, fun _ => ?_⟩
        simp only [mu, hc, Nat.mul_zero, Nat.add_zero]
        omega
    | sys c d =>
      obtain ⟨_, hc1, hd1, hd2⟩ := he
      by_cases hlim2 : g.gas + cfg.base * coeff op + c > cfg.limit
      · simp only [hlim2, if_true, fault]
        exact ⟨⟨fun h => absurd rfl h, fun h => by cases h⟩, fun h => by cases h⟩
      · simp only [hlim2, if_false]
        refine ⟨⟨fun _ => by dsimp only; omega, fun _ => ⟨hd1, hd2⟩⟩, fun _ => ?_⟩
        simp only [mu]
        have hmul : (cfg.limit + 1 - (g.gas + cfg.base * coeff op + c)) * (maxDepth + 1) + (maxDepth + 1)
            ≤ (cfg.limit + 1 - g.gas) * (maxDepth + 1) := by
          have : cfg.limit + 1 - (g.gas + cfg.base * coeff op + c) + 1 ≤ cfg.limit + 1 - g.gas := by omega
          calc (cfg.limit + 1 - (g.gas + cfg.base * coeff op + c)) * (maxDepth + 1) + (maxDepth + 1)
              = (cfg.limit + 1 - (g.gas + cfg.base * coeff op + c) + 1) * (maxDepth + 1) := by rw [Nat.add_mul]; simp
            _ ≤ (cfg.limit + 1 - g.gas) * (maxDepth + 1) := Nat.mul_le_mul_right _ this
        omega

theorem gstep_stopped (cfg : Cfg) (g : G) (op : Nat) (e : Eff) (hs : g.status ≠ .running) : gstep cfg g op e = g := by
  unfold gstep
  cases h : g.status with
  | running => exact absurd h hs
  | halt => rfl
  | fault => rfl

theorem run_stopped (cfg : Cfg) : ∀ (n : Nat) (sch : Sched) (g : G), g.status ≠ .running → run cfg sch n g = g := by
  intro n
  induction n with
  | zero => intro sch g _; rfl
  | succ n ih => intro sch g hs; simp only [run, gstep_stopped cfg g _ _ hs]; exact ih _ g hs

theorem run_ok (cfg : Cfg) (hb : 1 ≤ cfg.base) : ∀ (n : Nat) (sch : Sched) (g : G), (∀ k, (sch k).2.okFor (sch k).1) → Ok cfg g →
    Ok cfg (run cfg sch n g) := by
  intro n
  induction n with
  | zero => intro sch g _ hok; exact hok
  | succ n ih =>
    intro sch g hv hok
    simp only [run]
    apply ih _ _ (fun k => hv (k + 1))
    by_cases hr : g.status = .running
    · exact (gstep_ok cfg hb g _ _ (hv 0) hok hr).1
    · rw [gstep_stopped cfg g _ _ hr]; exact hok

/-- within `mu g + 1` steps the machine has stopped -/
theorem run_terminates (cfg : Cfg) (hb : 1 ≤ cfg.base) : ∀ (k : Nat) (sch : Sched) (g : G), (∀ i, (sch i).2.okFor (sch i).1) → Ok cfg g →
    mu cfg g ≤ k → (run cfg sch (k + 1) g).status ≠ .running := by
  intro k
  induction k with
  | zero =>
    intro sch g hv hok hk
    simp only [run]
    by_cases hr : g.status = .running
    · have := (gstep_ok cfg hb g _ _ (hv 0) hok hr).2
      intro h
      have := this h
      omega
    · rw [gstep_stopped cfg g _ _ hr]; exact hr
  | succ k ih =>
    intro sch g hv hok hk
    show (run cfg (fun i => sch (i + 1)) (k + 1) (gstep cfg g (sch 0).1 (sch 0).2)).status ≠ .running
    by_cases hr : g.status = .running
    · obtain ⟨hok', hdec⟩ := gstep_ok cfg hb g _ _ (hv 0) hok hr
      by_cases hr' : (gstep cfg g (sch 0).1 (sch 0).2).status = .running
      · exact ih _ _ (fun i => hv (i + 1)) hok' (by have := hdec hr'; omega)
      · rw [run_stopped cfg _ _ _ hr']; exact hr'
    · rw [gstep_stopped cfg g _ _ hr, run_stopped cfg _ _ _ hr]; exact hr

end NeoModel.VmGas
