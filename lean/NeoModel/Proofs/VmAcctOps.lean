/-
C12 proofs, part 4: the stack/heap instructions (`execS`) preserve the counter invariant.
-/
import NeoModel.Proofs.VmAcctBasic
namespace NeoModel.VmAcct

/-- the invariant seen from an instruction working on the current stack: `rest` are all other
counted references (other stacks, slots, leaked ones) -/
abbrev InvW (w : W) (rest : Nat → Nat) (n : Nat) : Prop :=
  InvC w.c (fun id => cnt id w.st + rest id) (w.st.length + n)

theorem InvW.mem_valid {w : W} {rest : Nat → Nat} {n : Nat} (inv : InvW w rest n) {x : Item} (hx : x ∈ w.st) :
    WfItem w.c.heap x := by
  intro d hd
  exact inv.valid (d := d) (by have := cnt_pos_of_mem hx hd; omega)

theorem pop_inv {w w' : W} {x : Item} {rest : Nat → Nat} {n : Nat} (inv : InvW w rest n) (hp : w.pop = some (x, w')) :
    InvW w' rest n ∧ SameShape w.c.heap w'.c.heap ∧ WfItem w'.c.heap x ∧ w.st = x :: w'.st := by
  unfold W.pop at hp
  cases hst : w.st with
  | nil => simp [hst] at hp
  | cons y r =>
    simp only [hst, Option.some.injEq, Prod.mk.injEq] at hp
    obtain ⟨rfl, rfl⟩ := hp
    have hx : WfItem w.c.heap y := inv.mem_valid (by simp [hst])
    have h1 := inv_rem (f := fun id => cnt id r + rest id) (n := r.length + n) y
      (inv.congr (by intro id; simp only [hst, cnt_cons, cnt_nil]; omega) (by simp [hst]; omega))
    refine ⟨h1.1, h1.2, ?_, rfl⟩
    exact wfItem_of_len hx (by rw [h1.2.1]; exact Nat.le_refl _)

theorem push_inv {w : W} {x : Item} {rest : Nat → Nat} {n : Nat} (inv : InvW w rest n) (hx : WfItem w.c.heap x) :
    InvW (w.push x) rest n ∧ SameShape w.c.heap (w.push x).c.heap := by
  have h1 := inv_add x hx inv
  refine ⟨h1.1.congr (by intro id; simp only [W.push, cnt_cons, cnt_nil]; omega) (by simp [W.push]; omega), h1.2⟩

theorem popN_inv {rest : Nat → Nat} {n : Nat} : ∀ (k : Nat) {w w' : W}, InvW w rest n → W.popN k w = some w' →
    InvW w' rest n ∧ SameShape w.c.heap w'.c.heap ∧ w'.st = w.st.drop k ∧ k ≤ w.st.length := by
  intro k
  induction k with
  | zero => intro w w' inv h; simp [W.popN] at h; subst h; exact ⟨inv, SameShape.refl _, by simp, by simp⟩
  | succ k ih =>
    intro w w' inv h
    simp only [W.popN] at h
    cases hp : w.pop with
    | none => simp [hp] at h
    | some r =>
      obtain ⟨x, w1⟩ := r
      simp only [hp] at h
      obtain ⟨i1, s1, _, hst⟩ := pop_inv inv hp
      obtain ⟨i2, s2, hd, hk⟩ := ih i1 h
      refine ⟨i2, s1.trans s2, ?_, ?_⟩
      · rw [hd, hst]; simp
      · rw [hst]; simp; omega

theorem pushPrims_inv {rest : Nat → Nat} {n : Nat} : ∀ (k : Nat) {w : W}, InvW w rest n →
    InvW (W.pushPrims k w) rest n ∧ SameShape w.c.heap (W.pushPrims k w).c.heap := by
  intro k
  induction k with
  | zero => intro w inv; exact ⟨inv, SameShape.refl _⟩
  | succ k ih =>
    intro w inv
    obtain ⟨i1, s1⟩ := push_inv inv (wfItem_prim _)
    obtain ⟨i2, s2⟩ := ih i1
    exact ⟨i2, s1.trans s2⟩

/-- a result invariant possibly with newly leaked references; none if the heap was acyclic -/
def Post (h0 : Heap) (w' : W) (rest : Nat → Nat) (n : Nat) : Prop :=
  ∃ lk : List Item, InvW w' (fun id => rest id + cnt id lk) (n + lk.length) ∧ (Acyclic h0 → lk = [])

theorem post_of_inv {h0 : Heap} {w' : W} {rest : Nat → Nat} {n : Nat} (inv : InvW w' rest n) : Post h0 w' rest n :=
  ⟨[], inv.congr (by intro id; simp) (by simp), fun _ => rfl⟩

theorem cnt_eraseIdx (id : Nat) : ∀ (xs : List Item) (i : Nat) (x : Item), xs[i]? = some x →
    cnt id (xs.eraseIdx i) + cnt id [x] = cnt id xs ∧ (xs.eraseIdx i).length + 1 = xs.length := by
  intro xs
  induction xs with
  | nil => intro i x h; simp at h
  | cons a t ih =>
    intro i x h
    cases i with
    | zero =>
      simp only [List.getElem?_cons_zero, Option.some.injEq] at h
      subst h
      simp only [List.eraseIdx_cons_zero, cnt_cons, cnt_nil, List.length_cons]
      simp
    | succ i =>
      have := ih i x (by simpa using h)
      simp only [List.eraseIdx_cons_succ, cnt_cons, cnt_nil, List.length_cons] at this ⊢
      omega

theorem cnt_set (id : Nat) : ∀ (xs : List Item) (i : Nat) (old x : Item), xs[i]? = some old →
    cnt id (xs.set i x) + cnt id [old] = cnt id xs + cnt id [x] ∧ (xs.set i x).length = xs.length := by
  intro xs
  induction xs with
  | nil => intro i old x h; simp at h
  | cons a t ih =>
    intro i old x h
    cases i with
    | zero =>
      simp only [List.getElem?_cons_zero, Option.some.injEq] at h
      subst h
      simp only [List.set_cons_zero, cnt_cons, cnt_nil, List.length_cons]
      refine ⟨by omega, trivial⟩
    | succ i =>
      have := ih i old x (by simpa using h)
      simp only [List.set_cons_succ, cnt_cons, cnt_nil, List.length_cons] at this ⊢
      omega

theorem mem_of_getElem? {xs : List Item} {i : Nat} {x : Item} (h : xs[i]? = some x) : x ∈ xs :=
  List.mem_of_getElem? h

end NeoModel.VmAcct
