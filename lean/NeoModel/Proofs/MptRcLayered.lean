/-
C11 helper lemmas: the node store as MemCachedStore layers — reads, Flush, Persist, the collection
on the lower store and a state-sync restore against the single merged store of Model/MptRc.lean.
-/
import NeoModel.Model.MptRc.Layered
import NeoModel.Proofs.MptRcLazy
import NeoModel.Proofs.MptRcGcIndex
set_option linter.unusedSimpArgs false
namespace NeoModel.MptRc
open NeoModel.Mpt

/-! ### the layered store against the merged one -/

/-- the single store `s` shows what the layers show. -/
def Rep (l : Lay) (s : Store) : Prop := ∀ k, l.get k = sget s k

theorem uget_filter_ne (u : Upper) (k k' : Bytes) :
    uget (u.filter (fun e => e.1 ≠ k)) k' = if k' = k then none else uget u k' := by
  induction u with
  | nil => simp [uget]
  | cons x u ih =>
    obtain ⟨a, oc⟩ := x
    by_cases ha : a = k
    · subst ha
      simp only [List.filter, ne_eq, not_true_eq_false, decide_false, uget]
      rw [ih]
      by_cases hk : k' = a
      · simp [hk]
      · simp [hk, Ne.symm hk]
    · simp only [List.filter, ne_eq, ha, not_false_eq_true, decide_true, uget]
      rw [ih]
      by_cases hk : k' = k
      · subst hk; simp [ha]
      · simp [hk]

theorem get_set (l : Lay) (k k' : Bytes) (oc : Option Cell) :
    (l.set k oc).get k' = if k' = k then oc else l.get k' := by
  simp only [Lay.get, Lay.set, uget]
  by_cases hk : k' = k
  · subst hk; simp
  · have : ¬ k = k' := fun e => hk e.symm
    simp only [this, if_false, hk, uget_filter_ne]

theorem rep_set {l : Lay} {s : Store} (h : Rep l s) (k : Bytes) (oc : Option Cell) :
    Rep (l.set k oc) (setCell s k oc) := by
  intro k'
  rw [get_set, sget_setCell, h k']

/-- a Seek over the layers shows, per key, what Get returns. -/
theorem sget_view (l : Lay) (k : Bytes) : sget l.view k = l.get k := by
  obtain ⟨up, low⟩ := l
  simp only [Lay.view, Lay.get]
  induction up with
  | nil => rfl
  | cons x up ih =>
    obtain ⟨a, oc⟩ := x
    simp only [List.foldr_cons, sget_setCell, uget]
    by_cases hk : k = a
    · subst hk; simp
    · have : ¬ a = k := fun e => hk e.symm
      simp only [hk, this, if_false]; exact ih

theorem rep_view (l : Lay) : Rep l l.view := fun k => (sget_view l k).symm

/-- `Persist` does not change what the layers show. -/
theorem rep_persist {l : Lay} {s : Store} (h : Rep l s) : Rep l.persist s := by
  intro k
  simp only [Lay.persist, Lay.get, uget]
  rw [sget_view]; exact h k

theorem nd_view (l : Lay) (hn : StoreND l.low) : StoreND l.view := by
  obtain ⟨up, low⟩ := l
  simp only [Lay.view] at hn ⊢
  induction up with
  | nil => exact hn
  | cons x up ih => exact nd_setCell _ _ _ ih

/-- the condition under which collecting on the lower store is collecting on the merged store: no
record waiting in the upper layer is an inactive one that the collection would remove. -/
def UpAbove (g : Nat) (l : Lay) : Prop := ∀ k b n, uget l.up k = some (some (.rc b false n)) → g < n

/-- MemCachedStore layering under GC: the collection runs on the persistent store only
(blockchain.go:1422 `bc.stateRoot.GC(tgt, bc.store)`); reading through the layers afterwards gives
exactly the merged store collected — provided no inactive record with height ≤ g sits in the upper
layer. -/
theorem rep_gcLow {l : Lay} {s : Store} (h : Rep l s) (hnl : StoreND l.low) (hns : StoreND s) (g : Nat)
    (hup : UpAbove g l) : Rep (l.gcLow g) (gc g s) := by
  intro k
  have hk := h k
  rw [sget_gc g s hns k, ← hk]
  simp only [Lay.gcLow, Lay.get]
  cases hu : uget l.up k with
  | none =>
    simp only [Lay.get, hu] at hk ⊢
    rw [sget_gc g l.low hnl k]
  | some oc =>
    simp only
    cases oc with
    | none => rfl
    | some c =>
      cases c with
      | plain b => rfl
      | rc b a n =>
        cases a with
        | true => rfl
        | false => simp [hup k b n hu]

/-- without that condition the two differ: a record deactivated at height 1 still waits in the
upper layer; collecting the merged store at 1 removes it, collecting the lower store does not. -/
theorem gcLow_needs_condition :
    let l : Lay := { up := [([7], some (.rc [1] false 1))], low := [] }
    (l.gcLow 1).get [7] = some (.rc [1] false 1) ∧ sget (gc 1 l.view) [7] = none := by
  decide

theorem estep_unwritten {mode : Mode} {idx : Nat} {c : Option Cell} {e : RcEntry} {oc : Option Cell}
    {oe : Option RcEntry} (hs : estep mode idx c e = some (oc, oe))
    (hw : e.delta = 0 ∨ (mode.rc = false ∧ e.delta < 0)) : oc = c := by
  unfold estep at hs
  rcases hw with h0 | ⟨hrc, hneg⟩
  · simp [h0] at hs; exact hs.1.symm
  · have h0 : ¬ e.delta = 0 := by omega
    have h1 : ¬ e.delta > 0 := by omega
    simp [h0, hrc, h1] at hs; exact hs.1.symm

/-- `Flush` through the layers simulates `Flush` on the merged store. -/
theorem flushL_sim (mode : Mode) (idx : Nat) : ∀ (m : RcMap) (l : Lay) (s : Store), Rep l s →
    match flush mode idx m s with
    | none => flushL mode idx m l = none
    | some (m', s') => ∃ l', flushL mode idx m l = some (m', l') ∧ Rep l' s' := by
  intro m
  induction m with
  | nil => intro l s h; exact ⟨l, rfl, h⟩
  | cons x rest ih =>
    intro l s h
    obtain ⟨k, e⟩ := x
    simp only [flush, flushL, h k]
    cases hs : estep mode idx (sget s k) e with
    | none => rfl
    | some r =>
      obtain ⟨oc, oe⟩ := r
      simp only
      have hrep : Rep (if e.delta = 0 ∨ (mode.rc = false ∧ e.delta < 0) then l else l.set k oc) (setCell s k oc) := by
        split
        · rename_i hw
          have := estep_unwritten hs hw
          subst this
          intro k'
          rw [sget_setCell]
          by_cases hk : k' = k
          · subst hk; simp [h k']
          · simp [hk, h k']
        · exact rep_set h k oc
      have := ih _ _ hrep
      cases hf : flush mode idx rest (setCell s k oc) with
      | none => rw [hf] at this; simp only at this; rw [this]
      | some r2 =>
        obtain ⟨m2, s2⟩ := r2
        rw [hf] at this
        obtain ⟨l2, hl2, hr2⟩ := this
        rw [hl2]
        exact ⟨l2, rfl, hr2⟩

/-! ### what a block leaves in the upper layer -/

/-- every inactive record waiting in the upper layer was deactivated at a height ≥ `p`. -/
def UpFresh (p : Nat) (l : Lay) : Prop := ∀ k b n, uget l.up k = some (some (.rc b false n)) → p ≤ n

theorem urc_inactive {mode : Mode} {idx : Nat} {c : Option Cell} {e : RcEntry} {x : Nat} {b : Bytes} {n : Nat}
    (h : urc mode idx c e = some (x, some (.rc b false n))) : n = idx := by
  unfold urc at h
  simp only at h
  split at h
  · cases h
  · split at h
    · split at h
      · simp only [Option.some.injEq, Prod.mk.injEq, Cell.rc.injEq] at h; exact h.2.2.2.symm
      · simp at h
    · simp at h

theorem upFresh_set {p : Nat} {l : Lay} (h : UpFresh p l) (k : Bytes) (oc : Option Cell)
    (hoc : ∀ b n, oc = some (.rc b false n) → p ≤ n) : UpFresh p (l.set k oc) := by
  intro k' b n hu
  simp only [Lay.set, uget] at hu
  by_cases hk : k = k'
  · subst hk
    simp only [if_true, Option.some.injEq] at hu
    exact hoc b n hu
  · rw [if_neg hk, uget_filter_ne] at hu
    by_cases hk2 : k' = k
    · exact absurd hk2.symm hk
    · rw [if_neg hk2] at hu; exact h k' b n hu

theorem flushL_fresh (mode : Mode) (idx : Nat) (p : Nat) (hp : p ≤ idx) : ∀ (m : RcMap) (l : Lay) (m' : RcMap) (l' : Lay),
    UpFresh p l → flushL mode idx m l = some (m', l') → UpFresh p l' ∧ l'.low = l.low := by
  intro m
  induction m with
  | nil => intro l m' l' h hf; simp only [flushL, Option.some.injEq, Prod.mk.injEq] at hf; rw [← hf.2]; exact ⟨h, rfl⟩
  | cons x rest ih =>
    intro l m' l' h hf
    obtain ⟨k, e⟩ := x
    simp only [flushL] at hf
    cases hs : estep mode idx (l.get k) e with
    | none => simp [hs] at hf
    | some r =>
      obtain ⟨oc, oe⟩ := r
      simp only [hs] at hf
      have hfr : UpFresh p (if e.delta = 0 ∨ (mode.rc = false ∧ e.delta < 0) then l else l.set k oc) ∧
          (if e.delta = 0 ∨ (mode.rc = false ∧ e.delta < 0) then l else l.set k oc).low = l.low := by
        split
        · exact ⟨h, rfl⟩
        · rename_i hw
          refine ⟨upFresh_set h k oc ?_, rfl⟩
          intro b n hoc
          subst hoc
          have hd : ¬ e.delta = 0 := fun h0 => hw (Or.inl h0)
          unfold estep at hs
          simp only [hd, if_false] at hs
          cases hrc : mode.rc with
          | true =>
            simp only [hrc, if_true] at hs
            cases hu : urc mode idx (l.get k) e with
            | none => simp [hu] at hs
            | some r =>
              obtain ⟨x, oc'⟩ := r
              simp only [hu, Option.some.injEq, Prod.mk.injEq] at hs
              rw [hs.1] at hu
              rw [urc_inactive hu]; exact hp
          | false =>
            simp only [hrc, if_false, Bool.false_eq_true, Option.some.injEq, Prod.mk.injEq] at hs
            have hpos : e.delta > 0 := by
              apply Classical.byContradiction; intro hn
              exact hw (Or.inr ⟨hrc, by omega⟩)
            simp [hpos] at hs
      cases hf2 : flushL mode idx rest (if e.delta = 0 ∨ (mode.rc = false ∧ e.delta < 0) then l else l.set k oc) with
      | none => simp [hf2] at hf
      | some r2 =>
        obtain ⟨m2, l2⟩ := r2
        simp only [hf2, Option.some.injEq, Prod.mk.injEq] at hf
        rw [← hf.2]
        obtain ⟨h1, h2⟩ := ih _ _ _ hfr.1 hf2
        exact ⟨h1, by rw [h2, hfr.2]⟩

theorem lwalk_eq {l : Lay} {s : Store} (h : Rep l s) : ∀ f hh p, lwalk l f hh p = swalk s f hh p := by
  intro f
  induction f with
  | zero => intro hh p; rfl
  | succ f ih =>
    intro hh p
    have : lwalk l f = swalk s f := funext fun a => funext fun b => ih a b
    simp only [lwalk, swalk, h hh, this]
    rfl

/-! ### state-sync restore with persists in between -/

theorem rep_incr (H : Bytes → Bytes) (mode : Mode) {l : Lay} {s : Store} (h : Rep l s) (n : Node) :
    Rep (incrRefL H mode l n) (incrRef H mode s n) := by
  unfold incrRefL incrRef
  split
  · rw [h (hash H n)]
    cases hc : sget s (hash H n) with
    | none => exact rep_set h _ _
    | some c =>
      cases c with
      | plain b => exact rep_set h _ _
      | rc b a c => exact rep_set h _ _
  · exact rep_set h _ _

/-- billet.go over MemCachedStore layers: whatever persists happen between the restorations, the
layers show exactly what restoring into a single store gives. -/
theorem restoreL_rep (H : Bytes → Bytes) (mode : Mode) : ∀ (ns : List Node) (l : Lay) (s : Store) (sched : List Bool),
    Rep l s → Rep (restoreL H mode l ns sched) (ns.foldl (incrRef H mode) s) := by
  intro ns
  induction ns with
  | nil => intro l s sched h; exact h
  | cons n r ih =>
    intro l s sched h
    simp only [restoreL, List.foldl_cons]
    apply ih
    apply rep_incr
    split
    · exact rep_persist h
    · exact h

/-! ### state jump through the layers -/

theorem get_fold_del (ks : List (Bytes × Cell)) : ∀ (l : Lay) (k : Bytes),
    (ks.foldl (fun a e => a.set e.1 none) l).get k = if k ∈ ks.map (·.1) then none else l.get k := by
  induction ks with
  | nil => intro l k; simp
  | cons e r ih =>
    intro l k
    rw [List.foldl_cons, ih, get_set]
    by_cases h1 : k ∈ r.map (·.1)
    · simp [h1]
    · by_cases h2 : k = e.1
      · simp [h2]
      · simp [h1, h2]

theorem sget_none_of_not_mem (s : Store) (k : Bytes) (h : k ∉ s.map (·.1)) : sget s k = none := by
  induction s with
  | nil => rfl
  | cons e r ih =>
    obtain ⟨a, c⟩ := e
    simp only [List.map_cons, List.mem_cons, not_or] at h
    simp only [sget]
    rw [if_neg (fun e => h.1 e.symm)]
    exact ih h.2

/-- `CleanStorage` (module.go:207-223): afterwards the layers show no record at all. -/
theorem rep_clean (l : Lay) : Rep (cleanL l) [] := by
  intro k
  unfold cleanL
  rw [get_fold_del]
  split
  · rfl
  · rename_i h
    rw [← sget_view]; exact sget_none_of_not_mem _ _ h

/-- a state jump through the layers (CleanStorage, Billet restore with any persists in between) shows
exactly the store of the single-store model's `jumpSt`. -/
theorem rep_jump (H : Bytes → Bytes) (s : St) (l : Lay) (idx : Nat) (t : Node) (sched : List Bool) :
    Rep (jumpLay H s.mode l t sched) (jumpSt H s idx t).store :=
  restoreL_rep H s.mode (positions t) (cleanL l) [] sched (rep_clean l)

end NeoModel.MptRc
