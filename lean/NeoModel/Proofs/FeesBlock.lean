/- C07 helper lemmas: the wire length of a block, ApplyPolicyToTxSet with the code's arithmetic. -/
import NeoModel.Model.Fees.Block
import NeoModel.Proofs.FeesPack
import NeoModel.Proofs.FeesCalc
namespace NeoModel.Pack
open NeoModel NeoModel.Fees NeoModel.Admission
open NeoModel.Generated.FeeConsts
open NeoModel.Wire (leBytes putVarUint varUintSize)

/-! ### wire length -/

theorem hashable_length (h : Header) (hw : h.WF) :
    h.hashable.length = 109 + (if h.stateRootEnabled then 32 else 0) := by
  obtain ⟨h1, h2, h3, h4, _, _⟩ := hw
  simp only [uint256Size, uint160Size] at h1 h2 h3 h4
  simp only [Header.hashable, List.length_append, List.length_cons, leBytes_length', h1, h2, h3]
  split <;> simp [h4]

theorem flatten_length (txs : List Bytes) : txs.flatten.length = (txs.map List.length).sum := by
  induction txs with
  | nil => rfl
  | cons t ts ih => simp [ih]

/-- the generated constant is the length of the encoding of `new(Header)` (re-checked against the source on every build). -/
theorem zeroHeader_size : (Header.encode zeroHeader).length = expectedHeaderSizeWithEmptyWitness := by decide

theorem emptyBlock_size : expectedSizeWithoutTx false [] [] 0 = emptyBlockExpectedSize := by decide

/-- **the expected size is the wire size**: `GetExpectedBlockSize` = length of `Block.EncodeBinary`. -/
theorem encodeBlock_length (h : Header) (txs : List Bytes) (hw : h.WF) (hn : txs.length ≤ 0xFFFFFFFF) :
    (encodeBlock h txs).length = expectedBlockSize h.stateRootEnabled h.inv h.ver (txs.map List.length) := by
  have hh := hashable_length h hw
  have h1 : (putVarUint 1).length = 1 := by decide
  simp only [encodeBlock, Header.encode, List.length_append, hh, h1, putVarUint_length _ hn, flatten_length,
    expectedBlockSize, expectedSizeWithoutTx, overheadOf, List.length_map, expectedHeaderSizeWithEmptyWitness, uint256Size]
  split <;> omega

/-! ### exact arithmetic -/

def sizesM (l : List (Nat × Int)) : Nat := (l.map (·.1)).sum
def feesM (l : List (Nat × Int)) : Int := (l.map (·.2)).sum

/-- the loop with unbounded integers. -/
def packLoopN (mb : Nat) (mf : Int) : Nat → Int → List (Nat × Int) → List (Nat × Int)
  | _, _, [] => []
  | size, fee, t :: ts =>
    if size + t.1 > mb ∨ fee + t.2 > mf then [] else t :: packLoopN mb mf (size + t.1) (fee + t.2) ts

theorem wrap64_id (x : Int) (h0 : 0 ≤ x) (h1 : x < 2 ^ 63) : wrap64 x = x := by
  simp only [wrap64, Int.reducePow] at *
  omega

theorem u32_id (x : Nat) (h : x < 2 ^ 32) : u32 x = x := Nat.mod_eq_of_lt h

/-- within these bounds no addition of the loop wraps. -/
theorem packLoopM_eq (cfg : Cfg) : ∀ (txs : List (Nat × Int)) (s : Nat) (f : Int),
    (∀ t ∈ txs, t.1 ≤ maxTransactionSize ∧ 0 ≤ t.2 ∧ t.2 ≤ cfg.maxBlockSysFee) →
    cfg.maxBlockSize + maxTransactionSize < 2 ^ 32 → 2 * cfg.maxBlockSysFee < 2 ^ 63 →
    s + maxTransactionSize < 2 ^ 32 → 0 ≤ f → f ≤ cfg.maxBlockSysFee →
    packLoopM cfg s f txs = packLoopN cfg.maxBlockSize cfg.maxBlockSysFee s f txs := by
  intro txs
  induction txs with
  | nil => intros; rfl
  | cons t ts ih =>
    intro s f ht hb hf hs hf0 hf1
    obtain ⟨ht1, ht2, ht3⟩ := ht t (by simp)
    simp only [Int.reducePow, Nat.reducePow, maxTransactionSize] at hb hf hs ht1
    have e1 : u32 t.1 = t.1 := u32_id _ (by simp only [Nat.reducePow]; omega)
    have e2 : u32 (s + t.1) = s + t.1 := u32_id _ (by simp only [Nat.reducePow]; omega)
    have e3 : wrap64 (f + t.2) = f + t.2 := wrap64_id _ (by omega) (by simp only [Int.reducePow]; omega)
    simp only [packLoopM, packLoopN, e1, e2, e3]
    split
    · rfl
    · rename_i hc
      simp only [not_or, Nat.not_lt, Int.not_lt] at hc
      rw [ih (s + t.1) (f + t.2) (fun x hx => ht x (by simp [hx])) (by simp only [Nat.reducePow, maxTransactionSize]; omega)
        (by simp only [Int.reducePow]; omega) (by simp only [Nat.reducePow, maxTransactionSize]; omega) (by omega) hc.2]

theorem packLoopN_prefix (mb : Nat) (mf : Int) : ∀ (txs : List (Nat × Int)) (s : Nat) (f : Int),
    packLoopN mb mf s f txs <+: txs := by
  intro txs
  induction txs with
  | nil => intro s f; simp [packLoopN]
  | cons t ts ih =>
    intro s f
    simp only [packLoopN]
    split
    · exact List.nil_prefix
    · exact (List.prefix_cons_inj t).mpr (ih _ _)

/-- every non-empty prefix of what the loop takes is within both limits (the loop tests after every addition). -/
theorem packLoopN_fits (mb : Nat) (mf : Int) : ∀ (txs : List (Nat × Int)) (s : Nat) (f : Int) (j : Nat),
    0 < j → j ≤ (packLoopN mb mf s f txs).length →
    s + sizesM (txs.take j) ≤ mb ∧ f + feesM (txs.take j) ≤ mf := by
  intro txs
  induction txs with
  | nil => intro s f j h0 hj; simp [packLoopN] at hj; omega
  | cons t ts ih =>
    intro s f j h0 hj
    simp only [packLoopN] at hj
    split at hj
    · simp at hj; omega
    · rename_i hc
      simp only [not_or, Nat.not_lt, Int.not_lt] at hc
      cases j with
      | zero => omega
      | succ j =>
        simp only [List.take_succ_cons, sizesM, feesM, List.map_cons, List.sum_cons]
        cases j with
        | zero => simp; exact hc
        | succ j =>
          have := ih (s + t.1) (f + t.2) (j + 1) (by omega) (by simpa using hj)
          simp only [sizesM, feesM] at this
          omega

/-- the cut is maximal: the first transaction not taken breaks a limit. -/
theorem packLoopN_maximal (mb : Nat) (mf : Int) : ∀ (txs : List (Nat × Int)) (s : Nat) (f : Int),
    (packLoopN mb mf s f txs).length < txs.length →
    ∃ t, txs[(packLoopN mb mf s f txs).length]? = some t ∧
      (s + sizesM (packLoopN mb mf s f txs) + t.1 > mb ∨ f + feesM (packLoopN mb mf s f txs) + t.2 > mf) := by
  intro txs
  induction txs with
  | nil => intro s f h; simp [packLoopN] at h
  | cons t ts ih =>
    intro s f h
    simp only [packLoopN] at h ⊢
    split
    · rename_i hc
      exact ⟨t, by simp, by simpa [sizesM, feesM] using hc⟩
    · rename_i hc
      rw [if_neg hc] at h
      obtain ⟨t', h1, h2⟩ := ih (s + t.1) (f + t.2) (by simpa using h)
      refine ⟨t', by simpa using h1, ?_⟩
      simp only [sizesM, feesM, List.map_cons, List.sum_cons] at h2 ⊢
      omega

end NeoModel.Pack
