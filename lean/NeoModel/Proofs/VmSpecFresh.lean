/-
C13 — fresh results do not alias their operands.

Every instruction that CREATES a Buffer / Array / Struct / Map from operands (CAT, SUBSTR, LEFT, RIGHT, CONVERT to
Buffer, NEWBUFFER, PACK, PACKSTRUCT, PACKMAP, KEYS, VALUES, NEWARRAY*, CONVERT Array<->Struct, the Struct clone of
APPEND / SETITEM / VALUES) gives its result the NEXT heap id: an identity no existing object — in particular no
operand — has; the heap is only extended (every old object is unchanged); and ByteStrings are values carried by
the item itself, so no instruction can change one. Consequently an in-place write to the result (SETITEM, MEMCPY
as destination, REVERSEITEMS, APPEND …: all of them `Heap.put` at the id of their target) leaves every operand
as it was, seen through any other reference, and vice versa.
-/
import NeoModel.Proofs.VmSpecClone
import NeoModel.Proofs.VmSpecConvB
open NeoModel NeoModel.Vm
namespace NeoModel.Vm.Spec

/-- the heap object an item refers to (Buffer, Array, Struct, Map); primitives, ByteStrings included, refer to none. -/
def Item.refId : Item → Option Nat
  | .buffer id => some id
  | .array id => some id
  | .struct id => some id
  | .map id => some id
  | _ => none

/-- the outcome pushes ONE new object (the next heap id) and a reference to it, and changes nothing else. -/
def Fresh (h : Heap) (st : List Item) (o : E Outcome) : Prop :=
  ∃ x obj, o = .ok (.next (x :: st) (h.push obj)) ∧ Item.refId x = some h.size

/-- a fresh identity differs from the identity of every item that refers to an existing object. -/
theorem fresh_ne_existing (h : Heap) (x y : Item) (hx : Item.refId x = some h.size) (i : Nat)
    (hy : Item.refId y = some i) (hi : i < h.size) : x ≠ y := by
  intro he; subst he; rw [hx] at hy; cases hy; omega

/-- **write_to_fresh_keeps_old.** Whatever is later written in place to the fresh object, every old object — every
operand — is unchanged; and a write to an old object does not change the fresh one. -/
theorem write_to_fresh_keeps_old (h : Heap) (obj o' : HeapObj) (i : Nat) (hi : i < h.size) :
    (Heap.put (h.push obj) h.size o')[i]? = h[i]? ∧ (Heap.put (h.push obj) i o')[h.size]? = some obj := by
  constructor
  · rw [heap_get_put_other _ _ _ _ (Nat.ne_of_lt hi), heap_get_push_old h obj i hi]
  · rw [heap_get_put_other _ _ _ _ (Nat.ne_of_gt hi)]; simp

/-- **bytes_never_change.** A ByteString is a value: it refers to no heap object and reads the same in every heap. -/
theorem bytes_never_change (b : Bytes) (h h' : Heap) :
    Item.refId (.bytes b) = none ∧ Item.toBytes h (.bytes b) = some b ∧ Item.toBytes h' (.bytes b) = some b :=
  ⟨rfl, rfl, rfl⟩

theorem newbuffer_spec (n : Item) (k : Int) (hn : n.toInteger = some k) (hk : 0 ≤ k ∧ k ≤ 131070) (st : List Item) (h : Heap) :
    execPure .newBuffer [] (n :: st) h =
      .ok (.next (.buffer h.size :: st) (h.push (.buf (List.replicate k.toNat 0)))) := by
  have h32 : -(2:Int)^31 ≤ k ∧ k < (2:Int)^31 := by constructor <;> omega
  have hnot : ¬ (k < 0 ∨ k > (maxItemSize : Int)) := by simp [maxItemSize]; omega
  simp only [execPure, popIdx_cons n _ k hn h32, bind, Except.bind, hnot, if_false, newBuf, Heap.alloc]

/-- **fresh_results_do_not_alias.** The results of the creating instructions are fresh (`Fresh`: next heap id,
heap extended by exactly that object). Byte-level: CAT (any operands, even a zero-length one), SUBSTR / LEFT /
RIGHT (even the full-length ones), CONVERT to Buffer (of a ByteString or an Integer), NEWBUFFER. -/
theorem fresh_results_do_not_alias (h : Heap) (st : List Item) :
    (∀ (a b : Item) (x y : Bytes), a.toBytes h = some x → b.toBytes h = some y → x.length + y.length ≤ maxItemSize →
      Fresh h st (execPure .cat [] (b :: a :: st) h)) ∧
    (∀ (s oi li : Item) (bs : Bytes) (o l : Int), s.toBytes h = some bs → oi.toInteger = some o → li.toInteger = some l →
      0 ≤ o → 0 ≤ l → o + l ≤ bs.length → bs.length < 2^31 →
      Fresh h st (execPure .substr [] (li :: oi :: s :: st) h) ∧ Fresh h st (execPure .left [] (li :: s :: st) h) ∧
      Fresh h st (execPure .right [] (li :: s :: st) h)) ∧
    (∀ (b : Bytes), Fresh h st ((convert h (.bytes b) tBuffer).elim (.error "") fun r => .ok (.next (r.2 :: st) r.1))) ∧
    (∀ (n : Int256), Fresh h st ((convert h (.int n) tBuffer).elim (.error "") fun r => .ok (.next (r.2 :: st) r.1))) ∧
    (∀ (n : Item) (k : Int), n.toInteger = some k → 0 ≤ k ∧ k ≤ 131070 → Fresh h st (execPure .newBuffer [] (n :: st) h)) := by
  refine ⟨?_, ?_, ?_, ?_, ?_⟩
  · intro a b x y ha hb hl
    rw [cat_spec a b x y st h ha hb, if_neg (by omega)]
    exact ⟨_, _, rfl, rfl⟩
  · intro s oi li bs o l hs ho hl h0 h1 hb hsz
    obtain ⟨e1, e2, e3⟩ := substr_spec s oi li bs o l st h hs ho hl h0 h1 hb hsz
    rw [e1, e2, e3]
    exact ⟨⟨_, _, rfl, rfl⟩, ⟨_, _, rfl, rfl⟩, ⟨_, _, rfl, rfl⟩⟩
  · intro b
    rw [(convert_bytes_buffer b h).1]
    exact ⟨_, _, rfl, rfl⟩
  · intro n
    rw [(convert_int_buffer_int n h).1]
    exact ⟨_, _, rfl, rfl⟩
  · intro n k hn hk
    rw [newbuffer_spec n k hn hk]
    exact ⟨_, _, rfl, rfl⟩

/-- … and the compound ones: PACK / PACKSTRUCT (any count item), PACKMAP after UNPACK, KEYS, VALUES, NEWARRAY_T /
NEWARRAY / NEWSTRUCT, CONVERT Array<->Struct. The ELEMENTS of the new object are the operand items themselves
(reference items stay shared, as the specification of compound types says); the container is new. -/
theorem fresh_compound_results (h : Heap) (st : List Item) :
    (∀ (n : Item) (xs : List Item), n.toInteger = some (xs.length : Int) → xs.length < 2^31 →
      Fresh h st (execPure .pack [] (n :: (xs ++ st)) h) ∧ Fresh h st (execPure .packStruct [] (n :: (xs ++ st)) h)) ∧
    (∀ (id : Nat) (kv : List (Item × Item)), h.getEntries id = some kv →
      Fresh h st (execPure .keys [] (.map id :: st) h) ∧
      ((∀ e ∈ kv, ∀ s, e.2 ≠ .struct s) → Fresh h st (execPure .values [] (.map id :: st) h))) ∧
    (∀ (n : Item) (k : Int) (t : UInt8), n.toInteger = some k → 0 ≤ k ∧ k ≤ 2048 →
      Fresh h st (execPure .newArray [] (n :: st) h) ∧ Fresh h st (execPure .newStruct [] (n :: st) h) ∧
      (typeValid t = true → Fresh h st (execPure .newArrayT [t] (n :: st) h))) ∧
    (∀ (id : Nat) (xs : List Item), h.getItems id = some xs →
      Fresh h st ((convert h (.array id) tStruct).elim (.error "") fun r => .ok (.next (r.2 :: st) r.1)) ∧
      Fresh h st ((convert h (.struct id) tArray).elim (.error "") fun r => .ok (.next (r.2 :: st) r.1))) := by
  refine ⟨?_, ?_, ?_, ?_⟩
  · intro n xs hn hl
    obtain ⟨p1, _, p3, _⟩ := pack_unpack n xs st h hn hl
    rw [p1, p3]
    exact ⟨⟨_, _, rfl, rfl⟩, ⟨_, _, rfl, rfl⟩⟩
  · intro id kv hkv
    constructor
    · have hk : Item.validKey (.bool true) = true := rfl
      rw [(map_ops_spec id kv (.bool true) .null st h hkv hk (by intro s hs; cases hs)).2.2.2.2.1]
      exact ⟨_, _, rfl, rfl⟩
    · intro hv
      rw [(map_size_values id kv st h hkv hv).2]
      exact ⟨_, _, rfl, rfl⟩
  · intro n k t hn hk
    obtain ⟨q1, q2, _, _⟩ := newarray_spec n k hn t st h
    obtain ⟨a1, a2⟩ := q2 hk
    rw [a1, a2]
    refine ⟨⟨_, _, rfl, rfl⟩, ⟨_, _, rfl, rfl⟩, ?_⟩
    intro ht
    rw [q1 hk ht]
    exact ⟨_, _, rfl, rfl⟩
  · intro id xs hx
    obtain ⟨c1, c2, _⟩ := convert_compound id xs h hx
    rw [c1, c2]
    exact ⟨⟨_, _, rfl, rfl⟩, ⟨_, _, rfl, rfl⟩⟩

/-- the Struct clone stored by APPEND / SETITEM / VALUES is fresh too (`clone_spec`): a new id, the heap only
extended, and no new object refers to an old Struct. -/
theorem fresh_clone (h : Heap) (id : Nat) (xs : List Item) (h' : Heap) (v : Item)
    (hx : h.getItems id = some xs) (hc : cloneIfStruct h (.struct id) = some (h', v)) :
    (∃ nid, v = .struct nid ∧ h.size ≤ nid) ∧ Ext h h' ∧ NewFresh h.size h' := by
  obtain ⟨nid, ys, hv, hn, _, he, hnf, _, _⟩ := clone_spec h id xs h' v hx hc
  exact ⟨⟨nid, hv, hn⟩, he, hnf⟩

/-- **buffer_inplace_writes.** The in-place writers of a Buffer — SETITEM and REVERSEITEMS (MEMCPY: `memcpy_spec`) —
replace exactly the object of their target (`Heap.put h id`): by `put_aliasing` no other object changes. -/
theorem buffer_inplace_writes (id : Nat) (bs : Bytes) (key v : Item) (i b : Int) (st : List Item) (h : Heap)
    (hb : h.getBuf id = some bs) (hi : key.toInteger = some i) (hlt : 0 ≤ i ∧ i < bs.length) (hl : bs.length < 2^31)
    (hv : v.toInteger = some b) (hbr : -128 ≤ b ∧ b ≤ 255) :
    execPure .setItem [] (v :: key :: .buffer id :: st) h =
      .ok (.next st (Heap.put h id (.buf (bs.set i.toNat (byteOf b))))) ∧
    execPure .reverseItems [] (.buffer id :: st) h = .ok (.next st (Heap.put h id (.buf bs.reverse))) := by
  have hk := idx_of key i hi
  have hnk : (!key.validKey) = false := by simp [hk]
  have h32 : toInt32 i = some i := toInt32_of _ (by constructor <;> omega)
  have hb32 : toInt32 b = some b := toInt32_of _ (by constructor <;> omega)
  have hin : ¬ (i < 0 ∨ i ≥ bs.length) := by omega
  have hbn : ¬ (b < -128 ∨ b > 255) := by omega
  have hns : ∀ s, v ≠ .struct s := by intro s hs; subst hs; simp [Item.toInteger] at hv
  constructor
  · simp [execPure, popE, optE, cloneIfStruct_nonstruct h v hns, hnk, hi, h32, hb, hin, hv, hb32, hbn, bind, Except.bind]
  · simp [execPure, popE, optE, hb, bind, Except.bind]

-- non-vacuity: the scenario of seeded/C13-m6 on the specification: "AB" DUP, CAT with an empty second operand,
-- SETITEM 0 := 0x5a on the result: the result Buffer changes, the ByteString operand does not.
example : let r := run {} 20 (Vm.load #[0x0c, 0x02, 0x41, 0x42, 0x4a, 0x0c, 0x00, 0x8b, 0x4a, 0x10, 0x00, 0x5a, 0xd0] [] none)
    r.state = .halt ∧ r.result = [.buffer 0, .bytes [0x41, 0x42]] ∧ r.heap = #[.buf [0x5a, 0x42]] := by
  decide +kernel

end NeoModel.Vm.Spec
