/-
CompileVarDecl — `var x T = e` (C14 target 1a).  Go opens the scope of `x` AFTER the ValueSpec; the compiler allocates
the local when it stores the value, after the initialiser has been walked (it used to allocate it before: the former
known finding var-decl-shadow-self, repaired in /repo).  The statement compiles to the same code and the same
compile-time state as `x := e` (`compS_varDecl_define`) and has the same Go semantics (`exec_varDecl_define`).
-/
import NeoModel.Proofs.CompileStmt
namespace NeoModel.CompileProofs
open NeoModel.MiniVm NeoModel.MiniVm.Asm NeoModel.MiniGo NeoModel.Compile

/-- the identifier `x` occurs in `e` (as a variable; function names live in another name space). -/
def mentions (x : String) : Expr → Bool
  | .var y => y == x
  | .paren e | .neg e | .not e => mentions x e
  | .bin _ a b => mentions x a || mentions x b
  | .call1 _ a => mentions x a
  | .call2 _ a b => mentions x a || mentions x b
  | .call3 _ a b c => mentions x a || mentions x b || mentions x c
  | _ => false

theorem loadVar_congr (cx : Ctx) (sc sc' : Scopes) (x : String) (h : lookupSlot sc x = lookupSlot sc' x) :
    loadVar cx sc x = loadVar cx sc' x := by
  simp [loadVar, h]

/-- the code of an expression depends on the scopes only through the variables that occur in it. -/
theorem compE_congr (cx : Ctx) (sc sc' : Scopes) : ∀ (e : Expr) (m : Mode) (nl : Nat),
    (∀ y, mentions y e = true → lookupSlot sc y = lookupSlot sc' y) →
    compE cx sc e m nl = compE cx sc' e m nl := by
  intro e
  induction e with
  | lit n => intro m nl _; rfl
  | tt => intro m nl _; rfl
  | ff => intro m nl _; rfl
  | var x => intro m nl h; simp only [compE]; rw [loadVar_congr cx sc sc' x (h x (by simp [mentions]))]
  | paren e ih => intro m nl h; simp only [compE]; rw [ih .val nl (fun y hy => h y (by simpa [mentions] using hy))]
  | neg e ih => intro m nl h; simp only [compE]; rw [ih .val nl (fun y hy => h y (by simpa [mentions] using hy))]
  | not e ih => intro m nl h; simp only [compE]; rw [ih .val nl (fun y hy => h y (by simpa [mentions] using hy))]
  | bin op a b iha ihb =>
    intro m nl h
    have ha : ∀ m nl, compE cx sc a m nl = compE cx sc' a m nl :=
      fun m nl => iha m nl (fun y hy => h y (by simp [mentions, hy]))
    have hb : ∀ m nl, compE cx sc b m nl = compE cx sc' b m nl :=
      fun m nl => ihb m nl (fun y hy => h y (by simp [mentions, hy]))
    simp only [compE, ha, hb]
  | call0 f => intro m nl _; rfl
  | call1 f a iha =>
    intro m nl h
    have ha : ∀ m nl, compE cx sc a m nl = compE cx sc' a m nl :=
      fun m nl => iha m nl (fun y hy => h y (by simp [mentions, hy]))
    simp only [compE, ha]
  | call2 f a b iha ihb =>
    intro m nl h
    have ha : ∀ m nl, compE cx sc a m nl = compE cx sc' a m nl :=
      fun m nl => iha m nl (fun y hy => h y (by simp [mentions, hy]))
    have hb : ∀ m nl, compE cx sc b m nl = compE cx sc' b m nl :=
      fun m nl => ihb m nl (fun y hy => h y (by simp [mentions, hy]))
    simp only [compE, ha, hb]
  | call3 f a b c iha ihb ihc =>
    intro m nl h
    have ha : ∀ m nl, compE cx sc a m nl = compE cx sc' a m nl :=
      fun m nl => iha m nl (fun y hy => h y (by simp [mentions, hy]))
    have hb : ∀ m nl, compE cx sc b m nl = compE cx sc' b m nl :=
      fun m nl => ihb m nl (fun y hy => h y (by simp [mentions, hy]))
    have hc : ∀ m nl, compE cx sc c m nl = compE cx sc' c m nl :=
      fun m nl => ihc m nl (fun y hy => h y (by simp [mentions, hy]))
    simp only [compE, ha, hb, hc]

theorem lookupSlot_newLocal_ne (st : St) (x y : String) (h : y ≠ x) :
    lookupSlot (st.newLocal x).scopes y = lookupSlot st.scopes y := by
  have hb : (y == x) = false := by simpa using h
  unfold St.newLocal
  cases hs : st.scopes <;> simp [lookupSlot, List.lookup, hb]

/-- `var x T = e` compiles exactly like `x := e`: the local is allocated after the initialiser has been walked
    (codegen.go GenDecl), as Go's scoping demands — also when `x` occurs in `e` (it is the outer `x` then). -/
theorem compS_varDecl_define (cx : Ctx) (lp : LoopCtx) (x : String) (b : Bool) (e : Expr) (st : St) :
    compS cx lp (.varDecl x b (some e)) st = compS cx lp (.define x e) st := by
  simp only [compS]

theorem exec_varDecl_define (fuel : Nat) (P : Prog) (env : Env) (x : String) (b : Bool) (e : Expr) :
    exec fuel P env (.varDecl x b (some e)) = exec fuel P env (.define x e) := by
  cases fuel with
  | zero => simp [exec]
  | succ n => simp only [exec]

end NeoModel.CompileProofs
