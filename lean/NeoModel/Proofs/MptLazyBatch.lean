/-
PutBatch on the in-memory representation refines `putBatch` of the expanded trie.
-/
import NeoModel.Model.Mpt.LazyBatch
import NeoModel.Proofs.MptLazyFlush
import NeoModel.Proofs.MptBatch
namespace NeoModel.Mpt

variable {H : Bytes → Bytes} {S : LStore}

theorem rep_lmergeExtN (pre : Path) {l : LNode} {n : Node} (h : LRep H S l n) (hh : l.isHash = false) :
    LRep H S (lmergeExtN pre l) (mergeExt pre n) := by
  cases l with
  | hash x => simp [LNode.isHash] at hh
  | empty => simp [LRep] at h; subst h; simp [lmergeExtN, mergeExt, LRep]
  | leaf v => simp [LRep] at h; subst h; exact rep_lnewSub pre (rep_leaf v)
  | ext k l => obtain ⟨m, rfl, hm⟩ := h; exact ⟨m, rfl, hm⟩
  | branch ls lv =>
    obtain ⟨cs, v, rfl, hc, hv⟩ := h
    exact rep_lnewSub pre (l := .branch ls lv) ⟨cs, v, rfl, hc, hv⟩

/-- mergeExtension, with the HashNode loaded first. -/
theorem lmergeExt_rep (pre : Path) {l : LNode} {n : Node} (h : LRep H S l n) :
    ∃ l', lmergeExt S pre l = (l', false) ∧ LRep H S l' (mergeExt pre n) := by
  cases l with
  | hash x =>
    obtain ⟨hres, hr'⟩ := rep_hash h
    exact ⟨_, by simp [lmergeExt, hres], rep_lmergeExtN pre hr' (lshallow_isHash _)⟩
  | empty => exact ⟨_, rfl, rep_lmergeExtN pre h rfl⟩
  | leaf v => exact ⟨_, rfl, rep_lmergeExtN pre h rfl⟩
  | ext k l => exact ⟨_, rfl, rep_lmergeExtN pre h rfl⟩
  | branch ls lv => exact ⟨_, rfl, rep_lmergeExtN pre h rfl⟩

/-- stripBranch. -/
theorem lstripBranch_rep {ls : Nib → LNode} {lv : LNode} {cs : Nib → Node} {v : Option Val}
    (hc : ∀ j, LRep H S (ls j) (cs j)) (hv : LRep H S lv (slotNode v)) :
    ∃ l', lstripBranch S ls lv = (l', false) ∧ LRep H S l' (stripBranch cs v) := by
  have hk := lkids_rep hc
  have he : lv.isEmpty = v.isNone := by rw [rep_isEmpty hv, slotNode_isEmpty]
  unfold lstripBranch stripBranch
  rw [hk, he]
  cases hkc : kids cs with
  | nil =>
    cases v with
    | none => exact ⟨_, rfl, rep_empty⟩
    | some w => exact ⟨lv, rfl, by simpa [slotNode] using hv⟩
  | cons i rest =>
    cases rest with
    | nil =>
      cases v with
      | some w => exact ⟨_, rfl, ⟨cs, some w, rfl, hc, hv⟩⟩
      | none => exact lmergeExt_rep [i] (hc i)
    | cons j rest =>
      refine ⟨.branch ls lv, ?_, ?_⟩
      · cases v <;> rfl
      · cases v <;> exact ⟨cs, _, rfl, hc, hv⟩

theorem lkidRes_eq (rec : LNode → Batch → LNode × Bool) (cs : Nib → LNode) (kv : Batch) (c : Nib) :
    ltabOf (lkidRes rec cs kv) c = if sub c kv = [] then (cs c, false) else rec (cs c) (sub c kv) := by
  unfold lkidRes; rw [ltabOf_ofFn]

/-- addToBranch when every group goes through without error. -/
theorem laddToBranch_rep {rec : LNode → Batch → LNode × Bool} (grec : Node → Batch → Node)
    {ls : Nib → LNode} {lv : LNode} {cs : Nib → Node} {v : Option Val} {kv : Batch}
    (hc : ∀ j, LRep H S (ls j) (cs j)) (hv : LRep H S lv (slotNode v))
    (hkid : ∀ c, sub c kv ≠ [] → ∃ l', rec (ls c) (sub c kv) = (l', false) ∧ LRep H S l' (grec (cs c) (sub c kv)))
    (hslot : ∀ ov, kv.lookup [] = some ov → ∃ l', rec lv [([], ov)] = (l', false) ∧ LRep H S l' (slotNode ov)) :
    ∃ l', laddToBranch S rec ls lv kv = (l', false) ∧
      LRep H S l' (stripBranch (fun c => if sub c kv = [] then cs c else grec (cs c) (sub c kv)) (slot kv v)) := by
  -- the 17th child
  have hrv : ∃ lv', lslotRes rec lv kv = (lv', false) ∧ LRep H S lv' (slotNode (slot kv v)) := by
    unfold slot lslotRes
    cases hl : kv.lookup [] with
    | none => exact ⟨lv, rfl, hv⟩
    | some ov => exact hslot ov hl
  obtain ⟨lv', hlv', hrepv⟩ := hrv
  -- the 16 children (the table is kept opaque: only its defining equation is used)
  unfold laddToBranch
  rw [hlv']
  have hrsdef := lkidRes_eq rec ls kv
  generalize ltabOf (lkidRes rec ls kv) = rs at hrsdef ⊢
  have hrs2 : ∀ c, (rs c).2 = false := by
    intro c
    rw [hrsdef]
    by_cases hg : sub c kv = []
    · rw [if_pos hg]
    · obtain ⟨l', hl', _⟩ := hkid c hg
      rw [if_neg hg, hl']
  have hrs1 : ∀ c, LRep H S (rs c).1 (if sub c kv = [] then cs c else grec (cs c) (sub c kv)) := by
    intro c
    rw [hrsdef]
    by_cases hg : sub c kv = []
    · rw [if_pos hg, if_pos hg]; exact hc c
    · obtain ⟨l', hl', hr⟩ := hkid c hg
      rw [if_neg hg, if_neg hg, hl']; exact hr
  have hka : lkidsAfter rs ls = (fun c => (rs c).1, false) := by
    unfold lkidsAfter
    have : (List.finRange 16).find? (fun c => (rs c).2) = none := by
      apply List.find?_eq_none.mpr
      intro c _; simp [hrs2 c]
    rw [this]
  obtain ⟨l', hl', hr⟩ := lstripBranch_rep (ls := fun c => (rs c).1) (lv := lv')
    (cs := fun c => if sub c kv = [] then cs c else grec (cs c) (sub c kv)) (v := slot kv v) hrs1 hrepv
  refine ⟨l', ?_, hr⟩
  simp only [Bool.false_eq_true, if_false, hka, hl', Bool.or_false]



theorem mergeExt_nil (n : Node) : mergeExt [] n = n := by cases n <;> simp [mergeExt, newSub]

theorem stripN_zero (kv : Batch) : stripN 0 kv = kv := by
  unfold stripN
  induction kv with
  | nil => rfl
  | cons e kv _ => simp

theorem lcp_nil_right (a : Path) : lcp a [] = [] := by cases a <;> simp [lcp, lcpSplit]

theorem putBatchNode_slot (v ov : Option Val) : putBatchNode (slotNode v) [([], ov)] = slotNode ov := by
  have hl : lcpMany [(([] : Path), ov)] = [] := by simp [lcpMany]
  have hs : stripN 0 [(([] : Path), ov)] = [([], ov)] := stripN_zero _
  cases v with
  | none =>
    simp only [slotNode, putBatchNode, intoEmpty, hl, List.length_nil, hs]
    cases ov with
    | none => rw [many]
    | some w => rw [many]; rfl
  | some x =>
    simp only [slotNode, putBatchNode]
    cases ov with
    | none => rw [many]
    | some w => rw [many]; rfl

theorem putBatchNode_newSub (rest : Path) (m : Node) (kv : Batch) :
    putBatchNode (newSub rest m) kv = extBatch m (putBatchNode m) rest kv := by
  cases rest with
  | nil => rw [extBatch]; rfl
  | cons a r => rfl

/-- one step of `putBatchIntoExtension` when the batch diverges inside the extension's key: the
fresh branch of `putBatchIntoExtensionNoPrefix` followed by `addToBranch`. -/
theorem extBatch_split (m : Node) (kh : Nib) (kt : Path) (kv : Batch) (c0 : Nib) (rest : Path)
    (hlen : ¬ (lcp (lcpMany kv) (kh :: kt)).length = (kh :: kt).length)
    (hdrop : (kh :: kt).drop (lcp (lcpMany kv) (kh :: kt)).length = c0 :: rest) :
    extBatch m (putBatchNode m) (kh :: kt) kv =
      mergeExt (lcp (lcpMany kv) (kh :: kt))
        (stripBranch
          (fun c => if sub c (stripN (lcp (lcpMany kv) (kh :: kt)).length kv) = [] then upd noKids c0 (newSub rest m) c
            else putBatchNode (upd noKids c0 (newSub rest m) c) (sub c (stripN (lcp (lcpMany kv) (kh :: kt)).length kv)))
          (slot (stripN (lcp (lcpMany kv) (kh :: kt)).length kv) none)) := by
  rw [extBatch, if_neg hlen]
  split
  · next hk => rw [hdrop] at hk; cases hk
  · next c0' rest' hk =>
    rw [hdrop] at hk
    injection hk with h1 h2
    subst h1; subst h2
    dsimp only
    congr 2
    funext c
    by_cases hc : c = c0
    · subst hc
      simp only [if_true, upd, putBatchNode_newSub]
    · simp only [hc, if_false, upd, noKids, putBatchNode]

theorem need_newSub {k rest : Path} {n : LNode} {m : Node} {f : Nat}
    (hf : need (.ext k n) (.ext k m) ≤ f + 1) (hl : rest.length < k.length) :
    need (lnewSub rest n) (newSub rest m) ≤ f := by
  cases rest with
  | nil => exact need_ext hf
  | cons a r =>
    simp only [lnewSub, newSub, need, LNode.isHash, height] at hf ⊢
    simp at hf hl ⊢
    omega

theorem need_empty (f : Nat) (l : LNode) (t : Node) (hf : need l t ≤ f + 1) : need .empty .empty ≤ f + 1 := by
  have := need_pos l t
  simp [need, LNode.isHash, height]; omega

/-- PutBatch on the in-memory trie: no error, and the result represents `putBatchNode t kv`. -/
theorem lputBatchNode_rep : ∀ (f : Nat) (l : LNode) (t : Node) (kv : Batch), LRep H S l t → need l t ≤ f →
    ∃ l', lputBatchNode S f l kv = (l', false) ∧ LRep H S l' (putBatchNode t kv) := by
  intro f
  induction f with
  | zero => intro l t _ _ hf; have := need_pos l t; omega
  | succ f ih =>
    intro l t kv hr hf
    cases l with
    | empty => simp [LRep] at hr; subst hr; exact ⟨_, rfl, rep_emb _⟩
    | leaf w => simp [LRep] at hr; subst hr; exact ⟨_, rfl, rep_emb _⟩
    | hash h =>
      obtain ⟨hres, hr'⟩ := rep_hash hr
      obtain ⟨l', hl', hrep⟩ := ih _ t kv hr' (need_hash hf)
      exact ⟨l', by simp [lputBatchNode, hres, hl'], hrep⟩
    | branch ls lv =>
      obtain ⟨cs, v, rfl, hc, hv⟩ := hr
      simp only [lputBatchNode, putBatchNode]
      refine laddToBranch_rep putBatchNode hc hv (fun c _ => ih _ _ _ (hc c) (need_kid hf c)) (fun ov _ => ?_)
      obtain ⟨l', hl', hrep⟩ := ih lv (slotNode v) [([], ov)] hv (need_slot hf)
      rw [putBatchNode_slot] at hrep
      exact ⟨l', hl', hrep⟩
    | ext k n =>
      obtain ⟨m, rfl, hm⟩ := hr
      have hP : putBatchNode (.ext k m) kv = extBatch m (putBatchNode m) k kv := rfl
      rw [hP]
      simp only [lputBatchNode]
      cases k with
      | nil =>
        obtain ⟨r, hr1, hrep⟩ := ih n m (stripN 0 kv) hm (need_ext hf)
        obtain ⟨l', hl', hrep'⟩ := lmergeExt_rep [] hrep
        rw [mergeExt_nil, stripN_zero] at hrep'
        rw [extBatch]
        refine ⟨l', ?_, hrep'⟩
        simp only [lcp_nil_right, List.length_nil, if_true, hr1, Bool.false_eq_true, if_false, hl']
      | cons kh kt =>
        by_cases hlen : (lcp (lcpMany kv) (kh :: kt)).length = (kh :: kt).length
        · obtain ⟨r, hr1, hrep⟩ := ih n m (stripN (kh :: kt).length kv) hm (need_ext hf)
          obtain ⟨l', hl', hrep'⟩ := lmergeExt_rep (lcp (lcpMany kv) (kh :: kt)) hrep
          have hE : extBatch m (putBatchNode m) (kh :: kt) kv =
              mergeExt (lcp (lcpMany kv) (kh :: kt)) (putBatchNode m (stripN (kh :: kt).length kv)) := by
            rw [extBatch, if_pos hlen]
          rw [hE]
          refine ⟨l', ?_, hrep'⟩
          rw [if_pos hlen]
          simp only [hr1, Bool.false_eq_true, if_false, hl']
        · cases hdrop : (kh :: kt).drop (lcp (lcpMany kv) (kh :: kt)).length with
          | nil =>
            exfalso
            have := prefix_drop (lcp_prefix_right (lcpMany kv) (kh :: kt))
            have hl := congrArg List.length this
            rw [hdrop] at hl
            simp at hl
            exact hlen (by simpa using hl.symm)
          | cons c0 rest =>
            have hrl : rest.length < (kh :: kt).length := by
              have := congrArg List.length hdrop
              simp only [List.length_drop, List.length_cons] at this ⊢
              omega
            rw [extBatch_split m kh kt kv c0 rest hlen hdrop]
            rw [if_neg hlen]
            dsimp only
            have hcs : ∀ j, LRep H S (lupd lnoKids c0 (lnewSub rest n) j) (upd noKids c0 (newSub rest m) j) :=
              rep_lupd rep_noKids c0 (rep_lnewSub rest hm)
            have hneed : ∀ c, need (lupd lnoKids c0 (lnewSub rest n) c) (upd noKids c0 (newSub rest m) c) ≤ f := by
              intro c
              unfold lupd upd
              split
              · exact need_newSub hf hrl
              · simp [lnoKids, noKids, need, LNode.isHash, height] at hf ⊢; omega
            have hne : need .empty .empty ≤ f := by
              simp [need, LNode.isHash, height] at hf ⊢; omega
            obtain ⟨r, hr1, hrep⟩ := laddToBranch_rep (S := S) (rec := lputBatchNode S f) putBatchNode
              (kv := stripN (lcp (lcpMany kv) (kh :: kt)).length kv) (v := none) (lv := .empty) hcs rep_empty
              (fun c _ => ih _ _ _ (hcs c) (hneed c))
              (fun ov _ => by
                obtain ⟨l', hl', hrep⟩ := ih .empty (slotNode none) [([], ov)] rep_empty hne
                rw [putBatchNode_slot] at hrep
                exact ⟨l', hl', hrep⟩)
            by_cases hp : lcp (lcpMany kv) (kh :: kt) = []
            · refine ⟨r, ?_, ?_⟩
              · simp only [hp] at hr1 ⊢
                simp only [if_true, hr1]
              · rw [hp, mergeExt_nil]; rw [hp] at hrep; exact hrep
            · obtain ⟨l', hl', hrep'⟩ := lmergeExt_rep (lcp (lcpMany kv) (kh :: kt)) hrep
              refine ⟨l', ?_, hrep'⟩
              simp only [hp, if_false, hr1, Bool.false_eq_true, hl']

theorem lputBatch_rep (f : Nat) (l : LNode) (t : Node) (kv : Batch) (hr : LRep H S l t) (hf : need l t ≤ f) :
    ∃ l', lputBatch S f l kv = (l', false) ∧ LRep H S l' (putBatch t kv) := by
  cases kv with
  | nil => exact ⟨l, rfl, hr⟩
  | cons e kv => exact lputBatchNode_rep f l t _ hr hf

end NeoModel.Mpt
