/-
C12 proofs, part 5c: `Remove` of a reference that is still *held* by a referenced compound
(SETITEM and REMOVE discount the old child first and detach it afterwards, vm.go:1472-1477,
1539-1542). `D` lists the held references that have already been discounted.
-/
import NeoModel.Proofs.VmAcctExecB
import NeoModel.Proofs.VmAcctWalk
namespace NeoModel.VmAcct

structure RemInvD (c : Ctr) (f : Nat → Nat) (m : Nat) (D w : List Item) : Prop where
  wf : HeapWf c.heap
  rc : ∀ id, rcOf c.heap id + cnt id D = f id + heldCnt c.heap id + cnt id w
  refs : c.refs + (D.length : Int) = (m : Int) + heldLen c.heap + (w.length : Int)

structure InvD (c : Ctr) (f : Nat → Nat) (m : Nat) (D : List Item) : Prop where
  wf : HeapWf c.heap
  rc : ∀ id, rcOf c.heap id + cnt id D = f id + heldCnt c.heap id
  refs : c.refs + (D.length : Int) = (m : Int) + heldLen c.heap

theorem cnt_erase (j : Nat) (D : List Item) (y : Item) (hy : y ∈ D) :
    cnt j (D.erase y) + (if y.cid = some j then 1 else 0) = cnt j D ∧ (D.erase y).length + 1 = D.length := by
  induction D with
  | nil => cases hy
  | cons a t ih =>
    by_cases ha : a = y
    · subst ha
      simp only [List.erase_cons_head, cnt_cons, List.length_cons]
      simp
    · have hy' : y ∈ t := by
        rcases List.mem_cons.1 hy with e | e
        · exact absurd e.symm ha
        · exact e
      have := ih hy'
      have hb : (a == y) = false := by simpa using ha
      rw [List.erase_cons, hb]
      simp only [Bool.false_eq_true, if_false, cnt_cons, List.length_cons] at this ⊢
      omega

theorem rcOf_decRC_le (h : Heap) (id j : Nat) : rcOf (decRC h id) j ≤ rcOf h j := by
  rw [rcOf_decRC]; split
  · rename_i hc; rw [hc.1]; omega
  · exact Nat.le_refl _

theorem remW_specD (w : List Item) (c : Ctr) (f : Nat → Nat) (m : Nat) (D : List Item) (h : RemInvD c f m D w) :
    ∃ D', D'.Sublist D ∧ InvD (remW w c) f m D' ∧ SameShape c.heap (remW w c).heap
      ∧ (∀ j, rcOf (remW w c).heap j ≤ rcOf c.heap j)
      ∧ (∀ o, cnt o D' < cnt o D → rcOf (remW w c).heap o = 0) := by
  fun_induction remW w c generalizing D with
  | case1 c =>
    exact ⟨D, List.Sublist.refl _, ⟨h.wf, by simpa using h.rc, by simpa using h.refs⟩, SameShape.refl _,
      fun _ => Nat.le_refl _, fun o ho => absurd ho (Nat.lt_irrefl _)⟩
  | case2 x w c hx ih =>
    apply ih
    refine ⟨h.wf, ?_, ?_⟩
    · intro id; have := h.rc id; simp only [cnt_cons, hx] at this; simpa using this
    · have := h.refs; simp only [List.length_cons] at this ⊢; push_cast at this ⊢; omega
  | case3 x w c id hx hz ih =>
    have h1 := h.rc id
    simp only [cnt_cons, hx, hz] at h1
    have hpos : 0 < cnt id D := by simp at h1; omega
    obtain ⟨y, hy, hyc⟩ := mem_of_cnt_pos hpos
    have he := fun j => cnt_erase j D y hy
    have hstep : RemInvD c f m (D.erase y) w := by
      refine ⟨h.wf, fun j => ?_, ?_⟩
      · have := h.rc j
        have h2 := (he j).1
        simp only [cnt_cons, hx, hyc] at this h2
        by_cases hj : j = id
        · subst hj; simp at this h2; omega
        · have : ¬ (some id = some j) := by simpa using fun e => hj e.symm
          simp [this] at *; omega
      · have := h.refs
        have h2 := (he 0).2
        simp only [List.length_cons] at this
        have h3 : (D.length : Int) = ((D.erase y).length : Int) + 1 := by exact_mod_cast h2.symm
        omega
    obtain ⟨D', hs, i1, s1, hm, hz'⟩ := ih (D.erase y) hstep
    refine ⟨D', hs.trans List.erase_sublist, i1, s1, hm, fun o ho => ?_⟩
    by_cases h3 : cnt o D' < cnt o (D.erase y)
    · exact hz' o h3
    · have h2 := (he o).1
      have : y.cid = some o := by
        apply Classical.byContradiction
        intro hne; simp [hne] at h2; omega
      rw [hyc] at this
      simp only [Option.some.injEq] at this
      subst this
      have := hm id; omega
  | case4 x w c id hx hnz h1 ih =>
    have hl : id < c.heap.length := by
      rcases Nat.lt_or_ge id c.heap.length with hl | hl
      · exact hl
      · rw [rcOf_eq_zero_of_ge _ id hl] at h1; cases h1
    have hstep : RemInvD { heap := decRC c.heap id, refs := c.refs - 1 } f m D (chOf c.heap id ++ w) := by
      refine ⟨HeapWf_decRC id h.wf, ?_, ?_⟩
      · intro j
        have := h.rc j
        simp only [cnt_cons, hx] at this
        have hh := held_decRC_one (cnt j) c.heap id h1
        simp only [rcOf_decRC, cnt_append, heldCnt]
        simp only [heldCnt] at this
        by_cases hj : j = id
        · subst hj; simp [hl] at this ⊢; omega
        · have : ¬ (some id = some j) := by simpa using fun e => hj e.symm
          simp [hj, this] at *; omega
      · have := h.refs
        have hh := held_decRC_one (List.length) c.heap id h1
        simp only [heldLen, List.length_append, List.length_cons] at this ⊢
        push_cast at this ⊢; omega
    obtain ⟨D', hs, i1, s1, hm, hz'⟩ := ih D hstep
    refine ⟨D', hs, i1, (sameShape_decRC c.heap id).trans s1, fun j => Nat.le_trans (hm j) (rcOf_decRC_le _ _ _), hz'⟩
  | case5 x w c id hx hnz h1 ih =>
    have h2 : 2 ≤ rcOf c.heap id := by omega
    have hl : id < c.heap.length := by
      rcases Nat.lt_or_ge id c.heap.length with hl | hl
      · exact hl
      · rw [rcOf_eq_zero_of_ge _ id hl] at h2; omega
    have hstep : RemInvD { heap := decRC c.heap id, refs := c.refs - 1 } f m D w := by
      refine ⟨HeapWf_decRC id h.wf, ?_, ?_⟩
      · intro j
        have := h.rc j
        simp only [cnt_cons, hx] at this
        have hh := held_decRC_many (cnt j) c.heap id h2
        simp only [rcOf_decRC, heldCnt]
        simp only [heldCnt] at this
        by_cases hj : j = id
        · subst hj; simp [hl] at this ⊢; omega
        · have : ¬ (some id = some j) := by simpa using fun e => hj e.symm
          simp [hj, this] at *; omega
      · have := h.refs
        have hh := held_decRC_many (List.length) c.heap id h2
        simp only [heldLen, List.length_cons] at this ⊢
        push_cast at this ⊢; omega
    obtain ⟨D', hs, i1, s1, hm, hz'⟩ := ih D hstep
    refine ⟨D', hs, i1, (sameShape_decRC c.heap id).trans s1, fun j => Nat.le_trans (hm j) (rcOf_decRC_le _ _ _), hz'⟩

end NeoModel.VmAcct

namespace NeoModel.VmAcct

theorem held_eq_range (F : List Item → Nat) (h : Heap) :
    (h.map (fun c => if c.rc = 0 then 0 else F c.ch)).sum
      = ((List.range h.length).map (fun i => if rcOf h i = 0 then 0 else F (chOf h i))).sum := by
  rw [map_sum_eq_range]
  apply congrArg
  apply List.map_congr_left
  intro i hi
  have hl : i < h.length := List.mem_range.1 hi
  simp [rcOf, chOf, List.getElem?_eq_getElem hl]

theorem sum_range_drop (a b : Nat → Nat) : ∀ (n id : Nat), (∀ j, j < n → a j ≤ b j) → id < n → a id = 0 →
    ((List.range n).map a).sum + b id ≤ ((List.range n).map b).sum := by
  intro n
  induction n with
  | zero => intro id _ h; exact absurd h (Nat.not_lt_zero _)
  | succ n ih =>
    intro id hle hid hz
    rw [List.range_succ, List.map_append, List.map_append, List.sum_append, List.sum_append]
    simp only [List.map_cons, List.map_nil, List.sum_cons, List.sum_nil, Nat.add_zero]
    rcases Nat.lt_succ_iff_lt_or_eq.1 hid with hlt | rfl
    · have := ih id (fun j hj => hle j (by omega)) hlt hz
      have := hle n (by omega)
      omega
    · have hmono : ((List.range id).map a).sum ≤ ((List.range id).map b).sum := by
        clear ih hz hid
        have : ∀ k, k ≤ id → ((List.range k).map a).sum ≤ ((List.range k).map b).sum := by
          intro k
          induction k with
          | zero => intro _; simp
          | succ k ihk =>
            intro hk
            rw [List.range_succ, List.map_append, List.map_append, List.sum_append, List.sum_append]
            simp only [List.map_cons, List.map_nil, List.sum_cons, List.sum_nil, Nat.add_zero]
            have := ihk (by omega)
            have := hle k (by omega)
            omega
        exact this id (Nat.le_refl _)
      omega

theorem heldCnt_zeroed_le (h h' : Heap) (hs : SameShape h h') (hle : ∀ j, rcOf h' j ≤ rcOf h j) (id : Nat)
    (hr : rcOf h id ≠ 0) (hz : rcOf h' id = 0) (o : Nat) : heldCnt h' o + cnt o (chOf h id) ≤ heldCnt h o := by
  have hl : id < h.length := by
    rcases Nat.lt_or_ge id h.length with hl | hl
    · exact hl
    · exact absurd (rcOf_eq_zero_of_ge h id hl) hr
  simp only [heldCnt, held_eq_range (cnt o), hs.1]
  have := sum_range_drop (fun i => if rcOf h' i = 0 then 0 else cnt o (chOf h' i))
    (fun i => if rcOf h i = 0 then 0 else cnt o (chOf h i)) h.length id (by
      intro j _
      simp only [hs.2 j]
      have := hle j
      by_cases h1 : rcOf h' j = 0
      · simp [h1]
      · have h2 : rcOf h j ≠ 0 := by omega
        simp [h1, h2]) hl (by simp [hz])
  simp only [hr, if_false] at this
  exact this

/-- in an acyclic heap `Remove` only touches cells of smaller rank than its arguments' parents -/
theorem remW_rank (rank : Nat → Nat) (t : Nat) (w : List Item) (c : Ctr)
    (hrank : ∀ j, ∀ x ∈ chOf c.heap j, ∀ d, x.cid = some d → rank d < rank j)
    (hw : ∀ x ∈ w, ∀ d, x.cid = some d → rank d < rank t) : rcOf (remW w c).heap t = rcOf c.heap t := by
  fun_induction remW w c with
  | case1 c => rfl
  | case2 x w c hx ih => exact ih hrank (fun y hy => hw y (List.mem_cons_of_mem _ hy))
  | case3 x w c id hx hz ih => exact ih hrank (fun y hy => hw y (List.mem_cons_of_mem _ hy))
  | case4 x w c id hx hnz h1 ih =>
    have hlt := hw x (List.mem_cons_self ..) id hx
    have hne : t ≠ id := by intro e; subst e; exact Nat.lt_irrefl _ hlt
    rw [ih (by intro j y hy d hd; simp only [chOf_decRC] at hy; exact hrank j y hy d hd) (by
      intro y hy d hd
      rcases List.mem_append.1 hy with hy | hy
      · exact Nat.lt_trans (hrank id y hy d hd) hlt
      · exact hw y (List.mem_cons_of_mem _ hy) d hd)]
    rw [rcOf_decRC]; simp [hne]
  | case5 x w c id hx hnz h1 ih =>
    have hlt := hw x (List.mem_cons_self ..) id hx
    have hne : t ≠ id := by intro e; subst e; exact Nat.lt_irrefl _ hlt
    rw [ih (by intro j y hy d hd; simp only [chOf_decRC] at hy; exact hrank j y hy d hd)
      (fun y hy => hw y (List.mem_cons_of_mem _ hy))]
    rw [rcOf_decRC]; simp [hne]

theorem rem_prim (c : Ctr) (x : Item) (hx : x.cid = none) : c.rem x = { c with refs := c.refs - 1 } := by
  simp [Ctr.rem, remW, hx]

/-- `Remove` of a child that a referenced compound `id` still holds. Either `id` stays referenced
and exactly that one held reference is now discounted, or the removal cascaded back into `id`
(only possible through a cycle) and everything is consistent again. -/
theorem rem_child {c : Ctr} {f : Nat → Nat} {m : Nat} (inv : InvC c f m) (id o : Nat) (old : Item) (ho : old.cid = some o)
    (hr : rcOf c.heap id ≠ 0) (hold : old ∈ chOf c.heap id) :
    SameShape c.heap (c.rem old).heap ∧
    ((rcOf (c.rem old).heap id ≠ 0 ∧ InvD (c.rem old) f m [old]) ∨
     (rcOf (c.rem old).heap id = 0 ∧ InvC (c.rem old) f m ∧ ¬ Acyclic c.heap)) := by
  have hstart : RemInvD c f m [old] [old] :=
    ⟨inv.wf, fun j => by have := inv.rc j; omega, by have := inv.refs; push_cast at this ⊢; omega⟩
  obtain ⟨D', hs, iD, ss, hmono, hzero⟩ := remW_specD [old] c f m [old] hstart
  simp only [Ctr.rem]
  refine ⟨ss, ?_⟩
  have hcnt1 : 1 ≤ cnt o (chOf c.heap id) := cnt_pos_of_mem hold ho
  have hDcases : D' = [] ∨ D' = [old] := by
    rcases List.sublist_cons_iff.1 hs with h1 | ⟨r, h1, h2⟩
    · left; exact List.sublist_nil.1 h1
    · right; rw [h1, List.sublist_nil.1 h2]
  rcases hDcases with hD | hD
  · -- the discounted reference was consumed: the cascade came back to `id`
    subst hD
    right
    have hinv : InvC (remW [old] c) f m :=
      ⟨iD.wf, fun j => by have := iD.rc j; simpa using this, by have := iD.refs; simpa using this⟩
    have hz : rcOf (remW [old] c).heap o = 0 := hzero o (by simp [cnt_cons, ho])
    have hid0 : rcOf (remW [old] c).heap id = 0 := by
      apply Classical.byContradiction
      intro hne
      have h1 := cnt_pos_le_heldCnt (remW [old] c).heap id hne o
      rw [ss.2 id] at h1
      have h2 := hinv.rc o
      omega
    refine ⟨hid0, hinv, ?_⟩
    rintro ⟨rank, hrank⟩
    have := remW_rank rank id [old] c hrank (by
      intro y hy d hd
      rw [List.mem_singleton.1 hy] at hd
      exact hrank id old hold d hd)
    exact hr (by rw [← this]; exact hid0)
  · subst hD
    left
    refine ⟨?_, iD⟩
    intro hid0
    have hb := heldCnt_zeroed_le c.heap (remW [old] c).heap ss hmono id hr hid0 o
    have h1 := iD.rc o
    have h2 := inv.rc o
    simp only [cnt_cons, cnt_nil, ho, if_true] at h1
    -- how far can the own count of `o` have dropped?
    by_cases h3 : rcOf c.heap o = 1
    · omega
    · have h4 : 2 ≤ rcOf c.heap o := by omega
      have : (remW [old] c).heap = decRC c.heap o := by
        have h5 : ¬ rcOf c.heap o = 0 := by omega
        simp [remW, ho, h5, h3]
      have h6 : rcOf (remW [old] c).heap o = rcOf c.heap o - 1 := by
        rw [this, rcOf_decRC]
        have hl : o < c.heap.length := by
          rcases Nat.lt_or_ge o c.heap.length with hl | hl
          · exact hl
          · rw [rcOf_eq_zero_of_ge _ o hl] at h4; omega
        simp [hl]
      omega

end NeoModel.VmAcct

namespace NeoModel.VmAcct

theorem remW_rc_le (w : List Item) (c : Ctr) : ∀ j, rcOf (remW w c).heap j ≤ rcOf c.heap j := by
  fun_induction remW w c with
  | case1 c => exact fun _ => Nat.le_refl _
  | case2 x w c hx ih => exact ih
  | case3 x w c id hx hz ih => exact ih
  | case4 x w c id hx hnz h1 ih => exact fun j => Nat.le_trans (ih j) (rcOf_decRC_le _ _ _)
  | case5 x w c id hx hnz h1 ih => exact fun j => Nat.le_trans (ih j) (rcOf_decRC_le _ _ _)

theorem add_prim (c : Ctr) (x : Item) (hx : x.cid = none) : c.add x = { c with refs := c.refs + 1 } := by
  simp [Ctr.add, addW, hx]

end NeoModel.VmAcct
