/-
C11 helper lemmas: lazy loading — nodes re-resolved from the store during a block refresh the cached
stored count of their refcount-map entry (trie.go:534-542); the delta accounting stays exact. Then the
induction over whole histories (`run_inv`).
-/
import NeoModel.Model.MptRc
import NeoModel.Proofs.MptRcExact
import NeoModel.Proofs.MptRcRun
import NeoModel.Proofs.MptRcRestore
set_option linter.unusedSimpArgs false
namespace NeoModel.MptRc
open NeoModel.Mpt

/-! ### re-loading nodes from the store during a block -/

theorem mget_refreshH (h b : Bytes) (n : Nat) (m : RcMap) (k : Bytes) :
    mget (refreshH h b n m) k =
      if k = h then (mget m h).map (fun e => { e with bytes := b, initial := n }) else mget m k := by
  induction m with
  | nil => simp [refreshH, mget]
  | cons x m ih =>
    obtain ⟨a, e⟩ := x
    simp only [refreshH]
    by_cases ha : a = h
    · subst ha
      simp only [if_true, mget]
      by_cases hk : k = a
      · subst hk; simp
      · simp [hk, Ne.symm hk]
    · simp only [ha, if_false, mget]
      rw [ih]
      by_cases hk : k = h
      · subst hk; simp [ha]
      · simp only [hk, if_false]

theorem mkeys_refreshH (h b : Bytes) (n : Nat) (m : RcMap) : mkeys (refreshH h b n m) = mkeys m := by
  induction m with
  | nil => rfl
  | cons x m ih =>
    obtain ⟨a, e⟩ := x
    simp only [refreshH]
    by_cases ha : a = h
    · simp [ha, mkeys]
    · simp only [ha, if_false, mkeys, List.map_cons] at ih ⊢
      rw [ih]

/-- the refcount map in the middle of a block, against the store the block started from. -/
structure MidGood (H : Bytes → Bytes) (m : RcMap) (s : Store) : Prop where
  nodup : (mkeys m).Nodup
  ok : MapOK H m
  cache : ∀ k e, mget m k = some e → e.initial ≠ 0 → activeCnt s k = e.initial

theorem midGood_of_good {H : Bytes → Bytes} {m : RcMap} {s : Store} (h : MapGood H m s) : MidGood H m s :=
  ⟨h.nodup, h.ok, h.cache⟩

/-- what `getFromStore` reads as the count of a visible record is the stored active count. -/
theorem readCnt_spec {H : Bytes → Bytes} {mode : Mode} {s : Store} {t : Node}
    (hx : Exact H mode s t) (h : Bytes) (b : Bytes) (n : Nat) (hr : readCnt mode (sget s h) = some (b, n)) :
    activeCnt s h = n ∧ H b = h := by
  cases hc : sget s h with
  | none => rw [hc] at hr; simp [readCnt] at hr
  | some c =>
    have hsh := hx.shape h c hc
    have hb := hx.bytes h c hc
    rw [hc] at hr
    cases c with
    | plain b0 => simp [readCnt] at hr
    | rc b0 a n0 =>
      cases a with
      | true =>
        simp only [readCnt, Option.some.injEq, Prod.mk.injEq] at hr
        obtain ⟨rfl, rfl⟩ := hr
        exact ⟨by simp [activeCnt, hc, actC], hb⟩
      | false =>
        simp only [CellOK] at hsh
        simp [readCnt, hsh] at hr

theorem loadNode_mid {H : Bytes → Bytes} {mode : Mode} (hrc : mode.rc = true) {s : Store} {t : Node}
    (hx : Exact H mode s t) (m : RcMap) (h : Bytes) (hg : MidGood H m s) :
    MidGood H (loadNode mode (sget s h) m h) s ∧ ∀ k, dlt (loadNode mode (sget s h) m h) k = dlt m k := by
  unfold loadNode
  cases hr : readCnt mode (sget s h) with
  | none => exact ⟨hg, fun _ => rfl⟩
  | some bn =>
    obtain ⟨b, n⟩ := bn
    obtain ⟨hcnt, hb⟩ := readCnt_spec hx h b n hr
    have key : MidGood H (refreshH h b n m) s ∧ ∀ k, dlt (refreshH h b n m) k = dlt m k := by
      refine ⟨⟨by rw [mkeys_refreshH]; exact hg.nodup, ?_, ?_⟩, ?_⟩
      · intro k e he
        rw [mget_refreshH] at he
        by_cases hk : k = h
        · subst hk
          simp only [if_true] at he
          cases hm : mget m k with
          | none => simp [hm] at he
          | some e0 => simp [hm] at he; subst he; exact hb
        · rw [if_neg hk] at he; exact hg.ok k e he
      · intro k e he hne
        rw [mget_refreshH] at he
        by_cases hk : k = h
        · subst hk
          simp only [if_true] at he
          cases hm : mget m k with
          | none => simp [hm] at he
          | some e0 => simp [hm] at he; subst he; exact hcnt
        · rw [if_neg hk] at he; exact hg.cache k e he hne
      · intro k
        simp only [dlt, mget_refreshH]
        by_cases hk : k = h
        · subst hk
          cases hm : mget m k <;> simp [hm]
        · simp [hk]
    simp only []
    split
    · exact ⟨hg, fun _ => rfl⟩
    · exact ⟨hg, fun _ => rfl⟩
    · exact ⟨hg, fun _ => rfl⟩
    · simp only [hrc, if_true]; exact key

theorem bump_mid {H : Bytes → Bytes} {s : Store} (m : RcMap) (ev : Ev) (hg : MidGood H m s) :
    MidGood H (bump H m ev) s := by
  refine ⟨nodup_bump H m ev hg.nodup, mapOK_bump H m ev hg.ok, ?_⟩
  intro k e he hne
  rw [mget_bump] at he
  by_cases hk : k = hash H ev.2
  · subst hk
    simp only [if_true, Option.some.injEq] at he
    cases hm : mget m (hash H ev.2) with
    | none => rw [hm] at he; subst he; exact absurd rfl hne
    | some e0 =>
      rw [hm] at he; simp only at he; subst he
      exact hg.cache _ e0 hm hne
  · rw [if_neg hk] at he; exact hg.cache k e he hne

/-- the events among the actions. -/
def evsOf : List Act → Evs
  | [] => []
  | .ev e :: r => e :: evsOf r
  | .load _ :: r => evsOf r

theorem evsOf_append (a b : List Act) : evsOf (a ++ b) = evsOf a ++ evsOf b := by
  induction a with
  | nil => rfl
  | cons x a ih => cases x <;> simp [evsOf, ih]

theorem evsOf_loads (l : List Bytes) : evsOf (l.map .load) = [] := by
  induction l with
  | nil => rfl
  | cons x l ih => simp [evsOf, ih]

/-- whatever loads are interleaved, the events are the block's events. -/
theorem evsOf_interleave (evs : Evs) : ∀ ld, evsOf (interleave evs ld) = evs := by
  induction evs with
  | nil => intro ld; simp [interleave, evsOf_loads]
  | cons e r ih => intro ld; simp [interleave, evsOf_append, evsOf_loads, evsOf, ih]

/-- trie.go:488-545 over a whole block on a partly loaded trie: the map's delta for hash `k` moves by
the net of the EVENTS on nodes with that hash — loads do not touch it —, and every cached count that
is set equals the stored count. -/
theorem applyActs_spec {H : Bytes → Bytes} {mode : Mode} (hrc : mode.rc = true) {s : Store} {t : Node}
    (hx : Exact H mode s t) (acts : List Act) : ∀ (m : RcMap), MidGood H m s →
    MidGood H (applyActs H mode (sget s) m acts) s ∧
    ∀ k, dlt (applyActs H mode (sget s) m acts) k = dlt m k + net (hP H k) (evsOf acts) := by
  induction acts with
  | nil => intro m hg; exact ⟨hg, fun k => by simp [applyActs, evsOf, net_nil]⟩
  | cons a acts ih =>
    intro m hg
    cases a with
    | ev e =>
      obtain ⟨h1, h2⟩ := ih (bump H m e) (bump_mid m e hg)
      refine ⟨h1, fun k => ?_⟩
      have := h2 k
      simp only [applyActs, List.foldl_cons, applyAct, evsOf] at this ⊢
      rw [this, dlt_bump]
      have : net (hP H k) (e :: evsOf acts) = net (hP H k) [e] + net (hP H k) (evsOf acts) := by
        rw [← net_append]; rfl
      rw [this]; omega
    | load h =>
      obtain ⟨hl1, hl2⟩ := loadNode_mid hrc hx m h hg
      obtain ⟨h1, h2⟩ := ih _ hl1
      refine ⟨h1, fun k => ?_⟩
      have := h2 k
      simp only [applyActs, List.foldl_cons, applyAct, evsOf] at this ⊢
      rw [this, hl2]

/-- a block on a partly loaded trie, any loads interleaved: same conclusion as `commit_inv`. -/
theorem commitL_inv (H : Bytes → Bytes) (mode : Mode) (hrc : mode.rc = true) (top : Option Nat) (s : St)
    (idx : Nat) (ops : List SubOp) (ld : List (List Bytes)) (hinv : Inv H mode top s)
    (hh : ∀ h, top = some h → h < idx) :
    ∃ s', commitL H s idx ops ld = some s' ∧ Inv H mode (some idx) s' ∧
      s'.root = trieAfter s.root ops ∧ s'.hist = (idx, trieAfter s.root ops) :: s.hist ∧ s'.gcAt = s.gcAt ∧
      (∀ k, CellMove mode idx (sget s.store k) (sget s'.store k)) ∧
      (∀ k, ctag (sget s'.store k) = if net (hP H k) (blockEvs s.root ops) = 0 then ctag (sget s.store k)
        else tagAfter mode idx (occH H (trieAfter s.root ops) k)) := by
  have hocc : ∀ h, (occH H (trieAfter s.root ops) h : Int) = occH H s.root h + net (hP H h) (blockEvs s.root ops) :=
    fun h => occ_block (hP H h) ops s.root
  obtain ⟨hmid, hdl⟩ := applyActs_spec hrc hinv.exact (interleave (blockEvs s.root ops) ld) s.rc
    (midGood_of_good hinv.good)
  have hz : ∀ k, dlt s.rc k = 0 := by
    intro k
    simp only [dlt]
    cases hm : mget s.rc k with
    | none => rfl
    | some e0 => exact hinv.good.zero k e0 hm
  have hdl' : ∀ k, dlt (applyActs H mode (sget s.store) s.rc (interleave (blockEvs s.root ops) ld)) k =
      net (hP H k) (blockEvs s.root ops) := fun k => by rw [hdl k, hz k, evsOf_interleave]; omega
  obtain ⟨m', st', hf, hg', hx', hmv, htag0⟩ :=
    flush_exact_mid H mode hrc idx _ s.store s.root (trieAfter s.root ops) hmid.nodup hmid.ok hmid.cache
      hinv.exact (by intro h; rw [hdl' h, hocc h])
  have htag : ∀ k, ctag (sget st' k) = if net (hP H k) (blockEvs s.root ops) = 0 then ctag (sget s.store k)
      else tagAfter mode idx (occH H (trieAfter s.root ops) k) := fun k => by rw [htag0 k, hdl' k]
  have hcomp : computeL H s idx ops ld = some (trieAfter s.root ops, m', st') := by
    simp only [computeL, hinv.mode_eq, hf]
  refine ⟨{ s with root := trieAfter s.root ops, rc := m', store := st',
                    roots := (idx, rootHash H (trieAfter s.root ops)) :: s.roots,
                    hist := (idx, trieAfter s.root ops) :: s.hist },
    by simp only [commitL, hcomp], ?_, rfl, rfl, rfl, hmv, htag⟩
  refine ⟨hinv.mode_eq, hg', hx', nd_flush mode idx _ _ _ _ hinv.nd hf, ?_, ?_⟩
  · intro e he
    simp only [List.mem_cons] at he
    rcases he with rfl | he
    · exact ⟨idx, rfl, Nat.le_refl _⟩
    · obtain ⟨tp, htp, hle⟩ := hinv.tops e he
      exact ⟨idx, rfl, Nat.le_of_lt (Nat.lt_of_le_of_lt hle (hh tp htp))⟩
  · intro hgc e he hge
    simp only [List.mem_cons] at he
    rcases he with rfl | he
    · exact kept_of_exact hx' idx
    · obtain ⟨tp, htp, hle⟩ := hinv.tops e he
      exact kept_move hgc (hinv.kept hgc e he hge) hmv (Nat.lt_of_le_of_lt hle (hh tp htp))

/-- without loads the lazy block is the plain block. -/
theorem applyActs_evs (H : Bytes → Bytes) (mode : Mode) (get : Bytes → Option Cell) (evs : Evs) : ∀ m,
    applyActs H mode get m (interleave evs []) = applyEvs H m evs := by
  induction evs with
  | nil => intro m; rfl
  | cons e r ih => intro m; simp only [interleave, List.headD_nil, List.map_nil, List.nil_append, List.tail_nil,
      applyActs, List.foldl_cons, applyAct, applyEvs] at ih ⊢; exact ih _

theorem commitL_nil (H : Bytes → Bytes) (s : St) (idx : Nat) (ops : List SubOp) :
    commitL H s idx ops [] = commit H s idx ops := by
  simp only [commitL, computeL, commit, compute, fold_applySub, applyActs_evs]

theorem nd_restore (H : Bytes → Bytes) (mode : Mode) (l : List Node) : ∀ (s : Store), StoreND s →
    StoreND (l.foldl (incrRef H mode) s) := by
  induction l with
  | nil => intro s h; exact h
  | cons n r ih =>
    intro s h
    apply ih
    unfold incrRef
    split
    · split
      · exact nd_setCell s _ (some _) h
      · exact nd_setCell s _ (some _) h
    · exact nd_setCell s _ (some _) h

/-- a state jump re-establishes the history invariant: the store is exact for the restored trie, the
map is empty, the only retained height is the sync point. -/
theorem jump_inv (H : Bytes → Bytes) (mode : Mode) (hrc : mode.rc = true) (top : Option Nat) (s : St)
    (hinv : Inv H mode top s) (idx : Nat) (t : Node) : Inv H mode (some idx) (jumpSt H s idx t) := by
  have hx : Exact H mode (restoreAll H s.mode [] t) t := by rw [hinv.mode_eq]; exact restore_exact_store H mode hrc t
  exact {
    mode_eq := hinv.mode_eq
    good := ⟨List.nodup_nil, fun _ _ h => by simp [jumpSt, mget] at h, fun _ _ h => by simp [jumpSt, mget] at h,
      fun _ _ h => by simp [jumpSt, mget] at h⟩
    exact := hx
    nd := nd_restore H s.mode (positions t) [] List.nodup_nil
    tops := fun e he => by
      simp only [jumpSt, List.mem_singleton] at he
      subst he; exact ⟨idx, rfl, Nat.le_refl _⟩
    kept := fun _ e he _ => by
      simp only [jumpSt, List.mem_singleton] at he
      subst he; exact kept_of_exact hx idx }

/-- C11.2/3: by induction over the history — blocks with strictly increasing heights (on a fully or
partly loaded trie, any re-loads from the store interleaved), collections at
any height, restarts — `Flush` never panics and the invariant holds at the end. -/
theorem run_inv (H : Bytes → Bytes) (mode : Mode) (hrc : mode.rc = true) (ops : List Op) :
    ∀ (top : Option Nat) (s : St), Inv H mode top s → Heights top ops →
      ∃ s' top', runOps H s ops = some s' ∧ Inv H mode top' s' := by
  induction ops with
  | nil => intro top s hinv _; exact ⟨s, top, rfl, hinv⟩
  | cons o r ih =>
    intro top s hinv hh
    cases o with
    | block idx bops =>
      simp only [Heights] at hh
      obtain ⟨s1, hc, hinv1, _⟩ := commit_inv H mode hrc top s idx bops hinv hh.1
      obtain ⟨s', top', hr, hinv'⟩ := ih (some idx) s1 hinv1 hh.2
      exact ⟨s', top', by simp only [runOps, stepOp, hc, hr], hinv'⟩
    | blockL idx bops ld =>
      simp only [Heights] at hh
      obtain ⟨s1, hc, hinv1, _⟩ := commitL_inv H mode hrc top s idx bops ld hinv hh.1
      obtain ⟨s', top', hr, hinv'⟩ := ih (some idx) s1 hinv1 hh.2
      exact ⟨s', top', by simp only [runOps, stepOp, hc, hr], hinv'⟩
    | gc g =>
      simp only [Heights] at hh
      obtain ⟨s', top', hr, hinv'⟩ := ih top (gcSt s g) (gc_inv H mode top s g hinv) hh
      exact ⟨s', top', by simp only [runOps, stepOp, hr], hinv'⟩
    | reset =>
      simp only [Heights] at hh
      obtain ⟨s', top', hr, hinv'⟩ := ih top (reset s) (reset_inv H mode top s hinv) hh
      exact ⟨s', top', by simp only [runOps, stepOp, hr], hinv'⟩
    | jump idx t =>
      simp only [Heights] at hh
      obtain ⟨s', top', hr, hinv'⟩ := ih (some idx) (jumpSt H s idx t) (jump_inv H mode hrc top s hinv idx t) hh
      exact ⟨s', top', by simp only [runOps, stepOp, hr], hinv'⟩

end NeoModel.MptRc
