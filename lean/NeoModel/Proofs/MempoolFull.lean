/-
C08 helper: capacity and eviction at full strength. For a transaction that has no Conflicts / oracle relation with
the pooled ones and whose payer can pay, `Add` is decided by capacity alone: it returns ErrOOM iff the pool is full
and no pooled transaction ranks below the new one; otherwise it succeeds, and on a full pool the new list is the
old one without its LAST item, with the new transaction at the computed index.
-/
import NeoModel.Proofs.MempoolRun
namespace NeoModel.Mempool

/-- the new transaction has nothing to do with the pooled ones -/
structure Unrelated (mp : Pool) (t : Tx) : Prop where
  fresh : ∀ e ∈ mp.txs, e.id ≠ t.id
  notNamed : ∀ e ∈ mp.txs, t.id ∉ e.conflicts
  namesNone : ∀ e ∈ mp.txs, e.id ∉ t.conflicts
  orc : ∀ i, t.oracle = some i → ∀ e ∈ mp.txs, e.oracle ≠ some i

theorem scanStep2_none (vmap : Nat → Option Tx) (t : Tx) : ∀ (hs : List Nat) (s : Scan),
    (∀ h ∈ hs, vmap h = none) → scanStep2 vmap t hs s = some s := by
  intro hs
  induction hs with
  | nil => intro s _; rfl
  | cons h hs ih =>
    intro s hn
    simp only [scanStep2, hn h List.mem_cons_self]
    exact ih s (fun x hx => hn x (List.mem_cons_of_mem _ hx))

theorem insertIdx_len_iff (l : List Tx) (t : Tx) (hs : Sorted l) :
    insertIdx l t = l.length ↔ ∀ x ∈ l, ge x t := by
  obtain ⟨h1, h2, h3⟩ := insertIdx_spec l t hs
  constructor
  · intro e x hx
    apply h2 x
    rw [e, List.take_length]; exact hx
  · intro hall
    apply Nat.le_antisymm h1
    apply Nat.le_of_not_lt
    intro hlt
    have hm : l[insertIdx l t] ∈ l.drop (insertIdx l t) := by
      rw [List.mem_drop_iff_getElem]
      exact ⟨0, by simpa using hlt, by simp⟩
    have hp := h3 _ hm
    have hg := hall _ (List.getElem_mem hlt)
    unfold ge at hg
    rw [compare_nonneg_iff] at hg
    rw [compare_pos_iff] at hp
    exact hp hg

/-- the checks of `Add` before the insertion stage pass for an unrelated transaction of a payer that can pay;
the only effect is the balance-cache entry -/
theorem add_unrelated_eq {U : Tx → Prop} {mp : Pool} (hi : Inv U mp) (t : Tx) (feer : Feer)
    (hF : FeerOk feer) (d : Nat) (hun : Unrelated mp t)
    (hpay : t.fee + sumFees (payerOf t) mp.txs ≤ (getPayerFee (payerOf t) mp.fees feer).1.balance) :
    add mp t feer d =
      insertStage { mp with fees := upd mp.fees (payerOf t) (some (getPayerFee (payerOf t) mp.fees feer).1) } t feer d := by
  obtain ⟨hent, hcase⟩ := getPayerFee_entry hi.fees (payerOf t) feer hF
  have hv : mp.vmap t.id = none := by
    cases h : mp.vmap t.id with
    | none => rfl
    | some e =>
      obtain ⟨h1, h2⟩ := (hi.vmap t.id e).mp h
      exact absurd h2 (hun.fresh e h1)
  have hcf : mp.conflicts t.id = none := by
    have := hi.conf t.id
    cases h : mp.conflicts t.id with
    | none => rfl
    | some l =>
      rw [h] at this; simp only [ConfEntry] at this
      obtain ⟨hne, _, hmem⟩ := this
      cases l with
      | nil => exact absurd rfl hne
      | cons x r =>
        obtain ⟨e, he, _, hh⟩ := (hmem x).mp List.mem_cons_self
        exact absurd hh (hun.notNamed e he)
  have hvc : ∀ h ∈ t.conflicts, mp.vmap h = none := by
    intro h hh
    cases hv' : mp.vmap h with
    | none => rfl
    | some e =>
      obtain ⟨h1, h2⟩ := (hi.vmap h e).mp hv'
      exact absurd (h2 ▸ hh) (hun.namesNone e h1)
  have hck : checkTxConflicts mp t feer =
      ({ mp with fees := upd mp.fees (payerOf t) (some (getPayerFee (payerOf t) mp.fees feer).1) }, .ok []) := by
    unfold checkTxConflicts
    simp only [scan1, hcf, Bool.false_eq_true, if_false, scanStep2_none mp.vmap t t.conflicts _ hvc, ne_eq,
      not_true_eq_false, false_and, expectedFeeSum]
    simp only [FeeEntry] at hent
    obtain ⟨f1, f2, f3⟩ := hent
    have hcb : (checkBalance t (getPayerFee (payerOf t) mp.fees feer).1).2 = none := by
      unfold checkBalance
      simp only
      rw [if_neg (by omega)]
      rw [addW_eq _ _ (by have := two_H256; omega)]
      rw [if_neg (by omega)]
    have hfe : ({ balance := (getPayerFee (payerOf t) mp.fees feer).1.balance,
                  feeSum := (getPayerFee (payerOf t) mp.fees feer).1.feeSum } : Fee)
        = (getPayerFee (payerOf t) mp.fees feer).1 := rfl
    rw [hfe, hcb]
    simp only
    rcases hcase with ⟨h1, h2⟩ | ⟨h1, _, _⟩
    · simp only [h1, Bool.not_true, Bool.false_eq_true, if_false]
      rw [upd_self_eq _ _ _ h2]
    · simp only [h1, Bool.not_false, if_true]
  unfold add
  rw [hv]
  simp only [Option.isSome_none, Bool.false_eq_true, if_false, hck]
  have hos : oracleStage { mp with fees := upd mp.fees (payerOf t) (some (getPayerFee (payerOf t) mp.fees feer).1) } t
      = ({ mp with fees := upd mp.fees (payerOf t) (some (getPayerFee (payerOf t) mp.fees feer).1) }, true) := by
    unfold oracleStage
    cases ho : t.oracle with
    | none => rfl
    | some id =>
      simp only
      have : mp.oracleResp id = none := by
        cases h : mp.oracleResp id with
        | none => rfl
        | some hh =>
          obtain ⟨e, he, _, h2⟩ := (hi.orc id hh).mp h
          exact absurd h2 (hun.orc id ho e he)
      rw [this]
  rw [hos]
  simp only [hi.noPanic, Bool.false_eq_true, if_false, Bool.not_true, removeAll]

/-- C08, capacity decision and eviction for an unrelated, payable transaction -/
theorem add_unrelated_spec {U : Tx → Prop} (hw : WF U) {mp : Pool} (hi : Inv U mp) {t : Tx} (ht : U t) (feer : Feer)
    (hF : FeerOk feer) (d : Nat) (hun : Unrelated mp t)
    (hpay : t.fee + sumFees (payerOf t) mp.txs ≤ (getPayerFee (payerOf t) mp.fees feer).1.balance) :
    -- refused iff the pool is full and nothing ranks below the new transaction
    ((add mp t feer d).2 = some .oom ↔ (mp.txs.length = mp.capacity ∧ ∀ x ∈ mp.txs, ge x t)) ∧
    -- otherwise it succeeds
    ((add mp t feer d).2 ≠ some .oom → (add mp t feer d).2 = none) ∧
    -- and then the new list is the old one, without its last item when the pool was full, with `t` at its index
    ((add mp t feer d).2 = none →
      Inv U (add mp t feer d).1 ∧
      (add mp t feer d).1.txs =
        (if mp.txs.length = mp.capacity then mp.txs.dropLast else mp.txs).take (insertIdx mp.txs t) ++ [t] ++
        (if mp.txs.length = mp.capacity then mp.txs.dropLast else mp.txs).drop (insertIdx mp.txs t)) := by
  obtain ⟨hent, hcase⟩ := getPayerFee_entry hi.fees (payerOf t) feer hF
  have hi1 : Inv U { mp with fees := upd mp.fees (payerOf t) (some (getPayerFee (payerOf t) mp.fees feer).1) } :=
    inv_fees_upd hi _ _ hent
  rw [add_unrelated_eq hi t feer hF d hun hpay]
  obtain ⟨s1, s2⟩ := insertStage_spec hw hi1 ht feer d hun.fresh hun.notNamed hun.namesNone hun.orc
    (getPayerFee (payerOf t) mp.fees feer).1 (upd_same _ _ _) hpay
  generalize hmp1 : ({ mp with fees := upd mp.fees (payerOf t) (some (getPayerFee (payerOf t) mp.fees feer).1) } : Pool) = mp1 at *
  have htx : mp1.txs = mp.txs := by rw [← hmp1]
  have hcp : mp1.capacity = mp.capacity := by rw [← hmp1]
  have hdec : (insertStage mp1 t feer d).2 = some .oom ↔ (mp.txs.length = mp.capacity ∧ ∀ x ∈ mp.txs, ge x t) := by
    rw [← insertIdx_len_iff mp.txs t hi.list.sorted]
    unfold insertStage
    simp only [htx, hcp]
    split
    · rename_i h; exact ⟨fun _ => h, fun _ => rfl⟩
    · rename_i h; exact ⟨fun h' => (by cases h'), fun h' => absurd h' h⟩
  refine ⟨hdec, ?_, ?_⟩
  · intro hne
    cases hr : insertStage mp1 t feer d with
    | mk mp' r =>
      cases r with
      | none => rfl
      | some e =>
        obtain ⟨he, _⟩ := s1 mp' e hr
        rw [hr] at hne; rw [he] at hne; exact absurd rfl hne
  · intro hs
    cases hr : insertStage mp1 t feer d with
    | mk mp' r =>
      rw [hr] at hs
      simp only at hs
      subst hs
      obtain ⟨a, _, _, _, _, _, g⟩ := s2 mp' hr
      rw [htx, hcp] at g
      exact ⟨a, g⟩

/-- ... in particular on a full pool: the evicted transaction is the last one, it is gone from the list (so, by the
invariant of the new pool, from every index) and its fee is released from its payer's sum. -/
theorem add_full_evicts_last {U : Tx → Prop} (hw : WF U) {mp : Pool} (hi : Inv U mp) {t : Tx} (ht : U t) (feer : Feer)
    (hF : FeerOk feer) (d : Nat) (hun : Unrelated mp t)
    (hpay : t.fee + sumFees (payerOf t) mp.txs ≤ (getPayerFee (payerOf t) mp.fees feer).1.balance)
    (hfull : mp.txs.length = mp.capacity) (hs : (add mp t feer d).2 = none) :
    ∃ base last, mp.txs = base ++ [last] ∧ 0 < compare t last ∧
      (add mp t feer d).1.txs.Perm (t :: base) ∧ last ∉ (add mp t feer d).1.txs ∧
      (∀ x ∈ mp.txs, x ∉ (add mp t feer d).1.txs → x = last) ∧
      (∀ q, sumFees q (add mp t feer d).1.txs + (if payerOf last = q then last.fee else 0)
          = sumFees q mp.txs + (if payerOf t = q then t.fee else 0)) ∧
      (∀ q f, (add mp t feer d).1.fees q = some f → f.feeSum = sumFees q (add mp t feer d).1.txs) := by
  obtain ⟨h1, _, h3⟩ := add_unrelated_spec hw hi ht feer hF d hun hpay
  obtain ⟨hinv, hl⟩ := h3 hs
  rw [if_pos hfull] at hl
  -- the pool is not empty: otherwise ErrOOM
  have hnoom : ¬ (mp.txs.length = mp.capacity ∧ ∀ x ∈ mp.txs, ge x t) := by
    intro h; have := h1.mpr h; rw [hs] at this; cases this
  have hne : mp.txs ≠ [] := by
    intro e; apply hnoom; refine ⟨hfull, ?_⟩; rw [e]; intro x hx; cases hx
  obtain ⟨last, hlast⟩ : ∃ u, mp.txs.getLast? = some u := by
    cases hg : mp.txs.getLast? with
    | none => exact absurd (List.getLast?_eq_none_iff.mp hg) hne
    | some u => exact ⟨u, rfl⟩
  obtain ⟨base, hbase⟩ := List.getLast?_eq_some_iff.mp hlast
  have hdl : mp.txs.dropLast = base := by rw [hbase, List.dropLast_concat]
  rw [hdl] at hl
  have hperm : (add mp t feer d).1.txs.Perm (t :: base) := by
    rw [hl, List.append_assoc, List.singleton_append]
    have := @List.perm_middle _ t (base.take (insertIdx mp.txs t)) (base.drop (insertIdx mp.txs t))
    rw [List.take_append_drop] at this
    exact this
  have hnd := hi.list.nodup
  rw [hbase, List.map_append, List.nodup_append] at hnd
  have hlb : last ∉ base := by
    intro h; exact hnd.2.2 last.id (List.mem_map_of_mem h) last.id (by simp) rfl
  have hlt : last ≠ t := by
    intro e
    exact hun.fresh last (by rw [hbase]; simp) (by rw [e])
  have hnot : last ∉ (add mp t feer d).1.txs := by
    intro h
    rcases List.mem_cons.mp (hperm.subset h) with h' | h'
    · exact hlt h'
    · exact hlb h'
  -- someone ranks below t; the last one ranks lowest
  have hpos : 0 < compare t last := by
    apply Classical.byContradiction
    intro hn
    apply hnoom
    refine ⟨hfull, ?_⟩
    intro x hx
    have hgl : ge last t := ge_of_not_pos hn
    have hs' := hi.list.sorted
    unfold Sorted at hs'
    rw [hbase, List.pairwise_append] at hs'
    rw [hbase] at hx
    rcases List.mem_append.mp hx with hx | hx
    · exact ge_trans (hs'.2.2 x hx last (by simp)) hgl
    · rw [List.mem_singleton.mp hx]; exact hgl
  refine ⟨base, last, hbase, hpos, hperm, hnot, ?_, ?_, ?_⟩
  · intro x hx hnx
    rw [hbase] at hx
    rcases List.mem_append.mp hx with hx | hx
    · exact absurd (hperm.symm.subset (List.mem_cons_of_mem _ hx)) hnx
    · exact List.mem_singleton.mp hx
  · intro q
    rw [hl, sumFees_insert, hbase, sumFees_append]
    simp only [sumFees]
    omega
  · intro q f hq
    have := hinv.fees q; rw [hq] at this; exact this.1

end NeoModel.Mempool
