/-
C19 — the dBFT 2.0 liveness lock, for every n: a height at which NO view can gather M participants any more
is never decided, whatever is delivered and whoever times out. A validator can take part in view `v` of its
height if it signed (sent its Commit) in exactly view `v`, or has not signed and is in a view `≤ v` (it can
still move up; a signer is frozen, dbft.go:535-539 / check.go:153-180). Both signing and changing view only
shrink these sets, a block needs M signatures of one view, and block relay needs somebody who has the block.
-/
import NeoModel.Proofs.DbftLock
namespace NeoModel.Dbft

/-- node `nd` can (still) take part in view `v` of height `h` -/
def partNode (nd : Node) (h v : Nat) : Bool :=
  nd.myCommits.any (fun b => b.h == h && b.v == v) ||
    (nd.myCommits.all (fun b => b.h != h) && decide (nd.view ≤ v))

def part (s : State) (h v j : Nat) : Bool := partNode (s.nodes j) h v

/-- everybody works on height `h` and no view of it can gather M participants -/
structure Stuck (c : Cfg) (s : State) (h : Nat) : Prop where
  height : ∀ i, i < c.n → (s.nodes i).height = h
  few : ∀ v, countP c.n (part s h v) < c.m

/-- a step that leaves heights alone and lets nobody take part where it could not before keeps the height stuck -/
theorem stuck_of {c : Cfg} {s s' : State} {h : Nat} (l : Stuck c s h)
    (hh : ∀ j, (s'.nodes j).height = (s.nodes j).height)
    (hp : ∀ j v, part s' h v j = true → part s h v j = true) : Stuck c s' h :=
  ⟨fun i hi => by rw [hh]; exact l.height i hi,
   fun v => Nat.lt_of_le_of_lt (countP_mono _ _ _ (fun j _ hj => hp j v hj)) (l.few v)⟩

theorem part_upd (s : State) (i : Nat) (nd' : Node) (net : List (Nat × Msg)) (h v j : Nat) :
    part { nodes := upd s.nodes i nd', net := net } h v j = if j = i then partNode nd' h v else part s h v j := by
  unfold part upd; simp only; split <;> rfl

/-- a node whose signatures and view are what they were -/
theorem stuck_same {c : Cfg} {s : State} {h : Nat} (l : Stuck c s h) (i : Nat) (nd' : Node) (net : List (Nat × Msg))
    (h1 : nd'.height = (s.nodes i).height) (h2 : nd'.myCommits = (s.nodes i).myCommits) (h3 : (s.nodes i).view ≤ nd'.view) :
    Stuck c { nodes := upd s.nodes i nd', net := net } h := by
  apply stuck_of l
  · intro j; unfold upd; simp only; split
    · next hj => subst hj; exact h1
    · rfl
  · intro j v hj
    rw [part_upd] at hj
    split at hj
    · next hji =>
      subst hji
      unfold part
      unfold partNode at hj ⊢
      rw [h2] at hj
      simp only [Bool.or_eq_true, Bool.and_eq_true, decide_eq_true_eq] at hj ⊢
      rcases hj with hj | ⟨ha, hv⟩
      · exact Or.inl hj
      · exact Or.inr ⟨ha, by omega⟩
    · exact hj

/-- C19 (the lock is permanent, every n): every enabled step from a reachable state with a stuck height leads
to a state in which it is still stuck. -/
theorem stuck_step (c : Cfg) (s : State) (h : Nat) (a : Action) (inv : Inv c s) (l : Stuck c s h)
    (en : Enabled c s a) : Stuck c (apply c s a) h := by
  cases a with
  | deliver to m => exact stuck_same l to _ _ rfl rfl (Nat.le_refl _)
  | drop to m => exact ⟨l.height, l.few⟩
  | dup to m => exact ⟨l.height, l.few⟩
  | timeout i => exact l
  | sendPrepReq i p => exact stuck_same l i _ _ rfl rfl (Nat.le_refl _)
  | sendPrepResp i b => exact stuck_same l i _ _ rfl rfl (Nat.le_refl _)
  | sendChangeView i => exact stuck_same l i _ _ rfl rfl (Nat.le_refl _)
  | sendRecReq i => exact ⟨l.height, l.few⟩
  | sendRecMsg i items => exact ⟨l.height, l.few⟩
  | changeView i nv => exact stuck_same l i _ _ rfl rfl (Nat.le_of_lt en.2.1)
  | sendCommit i b =>
    obtain ⟨hi, hbh, hbv, _, _, hnc⟩ := en
    apply stuck_of l
    · intro j; simp only [apply]; unfold upd; split
      · next hj => subst hj; rfl
      · rfl
    · intro j v hj
      simp only [apply] at hj
      rw [part_upd] at hj
      split at hj
      · next hji =>
        subst hji
        unfold part
        unfold partNode at hj ⊢
        have hhj : (s.nodes j).height = h := l.height j hi
        simp only [List.any_cons, List.all_cons, Bool.or_eq_true, Bool.and_eq_true, decide_eq_true_eq, beq_iff_eq,
          bne_iff_ne, ne_eq] at hj ⊢
        have hall : ∀ b' ∈ (s.nodes j).myCommits, ¬ b'.h = h := by
          intro b' hb'; rw [← hhj]; exact hnc b' hb'
        rcases hj with (⟨_, hv⟩ | hj) | ⟨⟨hne, _⟩, _⟩
        · right
          refine ⟨?_, by rw [← hbv, hv]; exact Nat.le_refl _⟩
          rw [List.all_eq_true]
          intro b' hb'; simpa using hall b' hb'
        · exact Or.inl hj
        · exact absurd (by rw [hbh, hhj]) hne
      · exact hj
  | accept i b =>
    -- M signatures of one view are M participants of that view
    exfalso
    obtain ⟨hi, hbh, hbv, _, hcnt⟩ := en
    have hhi := l.height i hi
    have : c.m ≤ countP c.n (part s h b.v) := by
      refine Nat.le_trans hcnt (countP_mono _ _ _ ?_)
      intro j _ hj
      unfold committed at hj
      simp only [decide_eq_true_eq] at hj
      have hp := (inv.knownProv i _ hj).2
      unfold part partNode
      simp only [Bool.or_eq_true, List.any_eq_true, Bool.and_eq_true, beq_iff_eq]
      exact Or.inl ⟨b, hp, by rw [hbh, hhi], rfl⟩
    exact Nat.lt_irrefl _ (Nat.lt_of_le_of_lt this (l.few b.v))
  | syncBlock i j =>
    -- nobody has a block of this height
    exfalso
    obtain ⟨hi, hj, hsome⟩ := en
    obtain ⟨b, hb⟩ := Option.isSome_iff_exists.mp hsome
    unfold blockAt at hb
    have hm := List.mem_of_find?_eq_some hb
    have hbh : b.h = (s.nodes i).height := by simpa using List.find?_some hb
    have := inv.chainHeight j b hm
    rw [l.height j hj, hbh, l.height i hi] at this
    exact Nat.lt_irrefl _ this

/-- C19 (no liveness from a stuck height, every n and every schedule): from a reachable state in which height `h`
is stuck, NO schedule — all payloads delivered, any timeouts, any sends — ever puts a block of height `h` on any
validator's ledger; every validator stays at height `h`. -/
theorem stuck_forever (c : Cfg) (s : State) (h : Nat) (hr : Reachable c s) (l : Stuck c s h) (as : List Action) (s' : State)
    (hrun : run c s as = some s') :
    Stuck c s' h ∧ ∀ i, i < c.n → (s'.nodes i).height = h ∧ ∀ b ∈ (s'.nodes i).chain, b.h < h := by
  have key : Stuck c s' h := by
    induction as generalizing s with
    | nil => simp [run] at hrun; subst hrun; exact l
    | cons a as ih =>
      simp only [run] at hrun
      split at hrun
      · next en => exact ih _ (Reachable.step a hr en) (stuck_step c s h a (inv_reachable c s hr) l en) hrun
      · simp at hrun
  refine ⟨key, fun i hi => ⟨key.height i hi, fun b hb => ?_⟩⟩
  have inv' := inv_reachable c s' (run_reachable c s as s' hr hrun)
  have := inv'.chainHeight i b hb
  rw [key.height i hi] at this; exact this

/-- the 4-validator lock of `liveness_lock_witness` is an instance -/
theorem lock_is_stuck (s : State) (inv : Inv cfg4 s) (l : Lock s) : Stuck cfg4 s 1 := by
  obtain ⟨hv0, hv2⟩ := lock_view0 s inv l
  refine ⟨fun i hi => (l.fresh i hi).1, fun v => ?_⟩
  rw [cfg4m]
  show countP 4 _ < 3
  rw [countP4]
  have u0 : ∀ b ∈ (s.nodes 0).myCommits, b.h = 1 → b = lockB := fun b hb hh => inv.commitUniq 0 b lockB hb l.c0 hh
  have u2 : ∀ b ∈ (s.nodes 2).myCommits, b.h = 1 → b = lockB := fun b hb hh => inv.commitUniq 2 b lockB hb l.c2 hh
  have p0 : part s 1 v 0 = true → v = 0 := by
    intro hp
    unfold part partNode at hp
    simp only [Bool.or_eq_true, List.any_eq_true, Bool.and_eq_true, beq_iff_eq, List.all_eq_true, bne_iff_ne, ne_eq,
      decide_eq_true_eq] at hp
    rcases hp with ⟨b, hb, hh, hvv⟩ | ⟨hall, _⟩
    · rw [u0 b hb hh] at hvv; exact hvv.symm
    · exact absurd rfl (hall lockB l.c0)
  have p2 : part s 1 v 2 = true → v = 0 := by
    intro hp
    unfold part partNode at hp
    simp only [Bool.or_eq_true, List.any_eq_true, Bool.and_eq_true, beq_iff_eq, List.all_eq_true, bne_iff_ne, ne_eq,
      decide_eq_true_eq] at hp
    rcases hp with ⟨b, hb, hh, hvv⟩ | ⟨hall, _⟩
    · rw [u2 b hb hh] at hvv; exact hvv.symm
    · exact absurd rfl (hall lockB l.c2)
  have p1 : part s 1 v 1 = true → 1 ≤ v := by
    intro hp
    unfold part partNode at hp
    simp only [Bool.or_eq_true, List.any_eq_true, Bool.and_eq_true, beq_iff_eq, decide_eq_true_eq] at hp
    rcases hp with ⟨b, hb, hh, _⟩ | ⟨_, hle⟩
    · exact absurd hh (l.n1 b hb)
    · exact Nat.le_trans l.v1 hle
  have p3 : part s 1 v 3 = true → 1 ≤ v := by
    intro hp
    unfold part partNode at hp
    simp only [Bool.or_eq_true, List.any_eq_true, Bool.and_eq_true, beq_iff_eq, decide_eq_true_eq] at hp
    rcases hp with ⟨b, hb, hh, _⟩ | ⟨_, hle⟩
    · exact absurd hh (l.n3 b hb)
    · exact Nat.le_trans l.v3 hle
  cases h0 : part s 1 v 0 <;> cases h1 : part s 1 v 1 <;> cases h2 : part s 1 v 2 <;> cases h3 : part s 1 v 3 <;>
    simp only [if_true, if_false, Bool.false_eq_true] <;> first
    | omega
    | (have := p0 h0; have := p1 h1; omega)
    | (have := p0 h0; have := p3 h3; omega)
    | (have := p2 h2; have := p1 h1; omega)
    | (have := p2 h2; have := p3 h3; omega)

end NeoModel.Dbft
