/-
C12 proofs, part 1: counting, the counter invariant, and the specifications of
`refCounter.Add` / `refCounter.Remove` (work-list form) with respect to it.
-/
import NeoModel.Model.VmAcct
namespace NeoModel.VmAcct

/-- occurrences of compound `id` among the references `xs` -/
def cnt (id : Nat) (xs : List Item) : Nat := xs.countP (fun x => x.cid == some id)

@[simp] theorem cnt_nil (id : Nat) : cnt id [] = 0 := rfl
theorem cnt_cons (id : Nat) (x : Item) (xs : List Item) :
    cnt id (x :: xs) = cnt id xs + (if x.cid = some id then 1 else 0) := by
  simp [cnt, List.countP_cons]
@[simp] theorem cnt_append (id : Nat) (xs ys : List Item) : cnt id (xs ++ ys) = cnt id xs + cnt id ys := by
  simp [cnt]
@[simp] theorem cnt_prim_cons (id : Nat) (xs : List Item) : cnt id (.prim :: xs) = cnt id xs := by
  simp [cnt_cons, Item.cid]
theorem cnt_reverse (id : Nat) (xs : List Item) : cnt id xs.reverse = cnt id xs := by
  simp [cnt]
theorem cnt_replicate_prim (id n : Nat) : cnt id (List.replicate n .prim) = 0 := by
  induction n with
  | zero => rfl
  | succ n ih => simp [List.replicate_succ, ih]
theorem cnt_pos_of_mem {id : Nat} {x : Item} {xs : List Item} (hx : x ∈ xs) (hc : x.cid = some id) : 0 < cnt id xs := by
  simp only [cnt]
  exact List.countP_pos_iff.2 ⟨x, hx, by simp [hc]⟩
theorem mem_of_cnt_pos {id : Nat} {xs : List Item} (h : 0 < cnt id xs) : ∃ x ∈ xs, x.cid = some id := by
  simp only [cnt] at h
  obtain ⟨x, hx, hp⟩ := List.countP_pos_iff.1 h
  exact ⟨x, hx, by simpa using hp⟩
theorem cnt_take_drop (id n : Nat) (xs : List Item) : cnt id (xs.take n) + cnt id (xs.drop n) = cnt id xs := by
  rw [← cnt_append, List.take_append_drop]

/-- what the referenced compounds hold: Σ over cells with a non-zero own count -/
def heldCnt (h : Heap) (id : Nat) : Nat := (h.map (fun c => if c.rc = 0 then 0 else cnt id c.ch)).sum
def heldLen (h : Heap) : Nat := (h.map (fun c => if c.rc = 0 then 0 else c.ch.length)).sum

/-- every reference stored in the heap points into the heap -/
def HeapWf (h : Heap) : Prop := ∀ j x d, x ∈ chOf h j → x.cid = some d → d < h.length

/-- The counter invariant relative to the counted root references, given by their per-compound
occurrence count `cntR` and their number `lenR`:
the own count of a compound = references from roots + references from referenced compounds;
`refs` = number of roots + number of children of referenced compounds. -/
structure InvC (c : Ctr) (cntR : Nat → Nat) (lenR : Nat) : Prop where
  wf : HeapWf c.heap
  rc : ∀ id, rcOf c.heap id = cntR id + heldCnt c.heap id
  refs : c.refs = (lenR : Int) + heldLen c.heap

/-! ### sums over a modified cell -/

theorem sum_map_modify (F : Cell → Nat) (g : Cell → Cell) (h : Heap) (id : Nat) (cell : Cell) (hc : h[id]? = some cell) :
    ((h.modify id g).map F).sum + F cell = (h.map F).sum + F (g cell) := by
  induction h generalizing id with
  | nil => simp at hc
  | cons a t ih =>
    cases id with
    | zero =>
      simp only [List.getElem?_cons_zero, Option.some.injEq] at hc
      subst hc
      simp only [List.modify_zero_cons, List.map_cons, List.sum_cons]
      omega
    | succ i =>
      have := ih i (by simpa using hc)
      simp only [List.modify_succ_cons, List.map_cons, List.sum_cons]
      omega

theorem modify_of_none (g : Cell → Cell) (h : Heap) (id : Nat) (hc : h[id]? = none) : h.modify id g = h := by
  induction h generalizing id with
  | nil => simp
  | cons a t ih =>
    cases id with
    | zero => simp at hc
    | succ i => simp [List.modify_succ_cons, ih i (by simpa using hc)]

theorem rcOf_modify_rc (f : Nat → Nat) (h : Heap) (id j : Nat) :
    rcOf (h.modify id (fun c => { c with rc := f c.rc })) j = if j = id ∧ id < h.length then f (rcOf h id) else rcOf h j := by
  simp only [rcOf, List.getElem?_modify]
  by_cases hj : j = id
  · subst hj
    cases hc : h[j]? with
    | none =>
      have : ¬ j < h.length := by
        intro hl; rw [List.getElem?_eq_getElem hl] at hc; cases hc
      simp [this]
    | some cell =>
      have : j < h.length := by
        rcases Nat.lt_or_ge j h.length with hl | hl
        · exact hl
        · rw [List.getElem?_eq_none hl] at hc; cases hc
      simp [this]
  · have : ¬ id = j := fun e => hj e.symm
    cases hc : h[j]? <;> simp [hj, this]

theorem chOf_modify_rc (f : Nat → Nat) (h : Heap) (id j : Nat) :
    chOf (h.modify id (fun c => { c with rc := f c.rc })) j = chOf h j := by
  simp only [chOf, List.getElem?_modify]
  cases hc : h[j]? with
  | none => simp
  | some cell => by_cases hj : id = j <;> simp [hj]

theorem rcOf_incRC (h : Heap) (id j : Nat) : rcOf (incRC h id) j = if j = id ∧ id < h.length then rcOf h id + 1 else rcOf h j :=
  rcOf_modify_rc (· + 1) h id j
theorem rcOf_decRC (h : Heap) (id j : Nat) : rcOf (decRC h id) j = if j = id ∧ id < h.length then rcOf h id - 1 else rcOf h j :=
  rcOf_modify_rc (· - 1) h id j
@[simp] theorem chOf_incRC (h : Heap) (id j : Nat) : chOf (incRC h id) j = chOf h j := chOf_modify_rc (· + 1) h id j
@[simp] theorem chOf_decRC (h : Heap) (id j : Nat) : chOf (decRC h id) j = chOf h j := chOf_modify_rc (· - 1) h id j
@[simp] theorem length_incRC (h : Heap) (id : Nat) : (incRC h id).length = h.length := by simp [incRC]
@[simp] theorem length_decRC (h : Heap) (id : Nat) : (decRC h id).length = h.length := by simp [decRC]

theorem HeapWf_incRC {h : Heap} (id : Nat) (hw : HeapWf h) : HeapWf (incRC h id) := by
  intro j x d hx hd
  simp only [chOf_incRC] at hx
  simpa using hw j x d hx hd
theorem HeapWf_decRC {h : Heap} (id : Nat) (hw : HeapWf h) : HeapWf (decRC h id) := by
  intro j x d hx hd
  simp only [chOf_decRC] at hx
  simpa using hw j x d hx hd

theorem getElem?_of_lt (h : Heap) (id : Nat) (hl : id < h.length) : ∃ cell, h[id]? = some cell ∧ cell.rc = rcOf h id ∧ cell.ch = chOf h id := by
  refine ⟨h[id], List.getElem?_eq_getElem hl, ?_, ?_⟩ <;> simp [rcOf, chOf, List.getElem?_eq_getElem hl]

/-- incrementing a zero count starts holding the children -/
theorem held_incRC_zero (F : List Item → Nat) (h : Heap) (id : Nat) (hz : rcOf h id = 0) (hl : id < h.length) :
    ((incRC h id).map (fun c => if c.rc = 0 then 0 else F c.ch)).sum
      = (h.map (fun c => if c.rc = 0 then 0 else F c.ch)).sum + F (chOf h id) := by
  obtain ⟨cell, hc, hr, hch⟩ := getElem?_of_lt h id hl
  have := sum_map_modify (fun c => if c.rc = 0 then 0 else F c.ch) (fun c => { c with rc := c.rc + 1 }) h id cell hc
  simp only [incRC]
  rw [hr, hz] at *
  simp only [hch] at this
  simp at this
  omega

theorem held_incRC_pos (F : List Item → Nat) (h : Heap) (id : Nat) (hz : rcOf h id ≠ 0) :
    ((incRC h id).map (fun c => if c.rc = 0 then 0 else F c.ch)).sum
      = (h.map (fun c => if c.rc = 0 then 0 else F c.ch)).sum := by
  rcases Nat.lt_or_ge id h.length with hl | hl
  · obtain ⟨cell, hc, hr, hch⟩ := getElem?_of_lt h id hl
    have := sum_map_modify (fun c => if c.rc = 0 then 0 else F c.ch) (fun c => { c with rc := c.rc + 1 }) h id cell hc
    simp only [incRC]
    have hne : cell.rc ≠ 0 := by rw [hr]; exact hz
    simp [hne] at this
    omega
  · rw [incRC_of_ge h id hl]

theorem held_decRC_one (F : List Item → Nat) (h : Heap) (id : Nat) (hz : rcOf h id = 1) :
    ((decRC h id).map (fun c => if c.rc = 0 then 0 else F c.ch)).sum + F (chOf h id)
      = (h.map (fun c => if c.rc = 0 then 0 else F c.ch)).sum := by
  have hl : id < h.length := by
    rcases Nat.lt_or_ge id h.length with hl | hl
    · exact hl
    · rw [rcOf_eq_zero_of_ge h id hl] at hz; cases hz
  obtain ⟨cell, hc, hr, hch⟩ := getElem?_of_lt h id hl
  have := sum_map_modify (fun c => if c.rc = 0 then 0 else F c.ch) (fun c => { c with rc := c.rc - 1 }) h id cell hc
  simp only [decRC]
  rw [hr, hz] at *
  simp only [hch] at this
  simp at this
  omega

theorem held_decRC_many (F : List Item → Nat) (h : Heap) (id : Nat) (hz : 2 ≤ rcOf h id) :
    ((decRC h id).map (fun c => if c.rc = 0 then 0 else F c.ch)).sum
      = (h.map (fun c => if c.rc = 0 then 0 else F c.ch)).sum := by
  have hl : id < h.length := by
    rcases Nat.lt_or_ge id h.length with hl | hl
    · exact hl
    · rw [rcOf_eq_zero_of_ge h id hl] at hz; omega
  obtain ⟨cell, hc, hr, hch⟩ := getElem?_of_lt h id hl
  have := sum_map_modify (fun c => if c.rc = 0 then 0 else F c.ch) (fun c => { c with rc := c.rc - 1 }) h id cell hc
  simp only [decRC]
  have h1 : cell.rc ≠ 0 := by omega
  have h2 : cell.rc - 1 ≠ 0 := by omega
  simp [h1, h2] at this
  omega

/-! ### `Add` and `Remove` re-establish the invariant -/

/-- the invariant while `addW` still has `w` to count: the targets already include `w` -/
structure AddInv (c : Ctr) (cntR : Nat → Nat) (lenR : Nat) (w : List Item) : Prop where
  wf : HeapWf c.heap
  wwf : ∀ x ∈ w, ∀ d, x.cid = some d → d < c.heap.length
  rc : ∀ id, rcOf c.heap id + cnt id w = cntR id + heldCnt c.heap id
  refs : c.refs + (w.length : Int) = (lenR : Int) + heldLen c.heap

/-- relation "same cells, possibly other own counts" -/
def SameShape (h h' : Heap) : Prop := h'.length = h.length ∧ ∀ j, chOf h' j = chOf h j

theorem SameShape.refl (h : Heap) : SameShape h h := ⟨rfl, fun _ => rfl⟩
theorem SameShape.trans {a b c : Heap} (h1 : SameShape a b) (h2 : SameShape b c) : SameShape a c :=
  ⟨h2.1.trans h1.1, fun j => (h2.2 j).trans (h1.2 j)⟩
theorem sameShape_incRC (h : Heap) (id : Nat) : SameShape h (incRC h id) := ⟨by simp, by simp⟩
theorem sameShape_decRC (h : Heap) (id : Nat) : SameShape h (decRC h id) := ⟨by simp, by simp⟩

theorem addW_spec (w : List Item) (c : Ctr) (cntR : Nat → Nat) (lenR : Nat) (h : AddInv c cntR lenR w) :
    InvC (addW w c) cntR lenR ∧ SameShape c.heap (addW w c).heap := by
  fun_induction addW w c with
  | case1 c =>
    exact ⟨⟨h.wf, by simpa using h.rc, by simpa using h.refs⟩, SameShape.refl _⟩
  | case2 x w c hx ih =>
    apply ih
    refine ⟨h.wf, fun y hy => h.wwf y (List.mem_cons_of_mem _ hy), ?_, ?_⟩
    · intro id; have := h.rc id; simp only [cnt_cons, hx] at this; simpa using this
    · have := h.refs; simp only [List.length_cons] at this ⊢; push_cast at this ⊢; omega
  | case3 x w c id hx hz hl ih =>
    have hstep : AddInv { heap := incRC c.heap id, refs := c.refs + 1 } cntR lenR (chOf c.heap id ++ w) := by
      refine ⟨HeapWf_incRC id h.wf, ?_, ?_, ?_⟩
      · intro y hy d hd
        simp only [length_incRC]
        rcases List.mem_append.1 hy with hy | hy
        · exact h.wf id y d hy hd
        · exact h.wwf y (List.mem_cons_of_mem _ hy) d hd
      · intro j
        have := h.rc j
        simp only [cnt_cons, hx] at this
        simp only [rcOf_incRC, cnt_append, heldCnt, held_incRC_zero (cnt j) c.heap id hz hl]
        simp only [heldCnt] at this
        by_cases hj : j = id
        · subst hj; simp [hl] at this ⊢; omega
        · have : ¬ (some id = some j) := by simpa using fun e => hj e.symm
          simp [hj, this] at *; omega
      · have := h.refs
        simp only [heldLen, held_incRC_zero (List.length) c.heap id hz hl, List.length_append, List.length_cons] at this ⊢
        push_cast at this ⊢; omega
    obtain ⟨i1, i2⟩ := ih hstep
    exact ⟨i1, (sameShape_incRC c.heap id).trans i2⟩
  | case4 x w c id hx hz hl ih =>
    -- a reference to a cell that does not exist: excluded by `wwf`
    exact absurd (h.wwf x (List.mem_cons_self ..) id hx) hl
  | case5 x w c id hx hnz ih =>
    have hstep : AddInv { heap := incRC c.heap id, refs := c.refs + 1 } cntR lenR w := by
      have hl : id < c.heap.length := h.wwf x (List.mem_cons_self ..) id hx
      refine ⟨HeapWf_incRC id h.wf, ?_, ?_, ?_⟩
      · intro y hy d hd
        simp only [length_incRC]
        exact h.wwf y (List.mem_cons_of_mem _ hy) d hd
      · intro j
        have := h.rc j
        simp only [cnt_cons, hx] at this
        simp only [rcOf_incRC, heldCnt, held_incRC_pos (cnt j) c.heap id hnz]
        simp only [heldCnt] at this
        by_cases hj : j = id
        · subst hj; simp [hl] at this ⊢; omega
        · have : ¬ (some id = some j) := by simpa using fun e => hj e.symm
          simp [hj, this] at *; omega
      · have := h.refs
        simp only [heldLen, held_incRC_pos (List.length) c.heap id hnz, List.length_cons] at this ⊢
        push_cast at this ⊢; omega
    obtain ⟨i1, i2⟩ := ih hstep
    exact ⟨i1, (sameShape_incRC c.heap id).trans i2⟩

/-- the invariant while `remW` still has `w` to discount: `w` is still counted -/
structure RemInv (c : Ctr) (cntR : Nat → Nat) (lenR : Nat) (w : List Item) : Prop where
  wf : HeapWf c.heap
  rc : ∀ id, rcOf c.heap id = cntR id + heldCnt c.heap id + cnt id w
  refs : c.refs = (lenR : Int) + heldLen c.heap + (w.length : Int)

theorem remW_spec (w : List Item) (c : Ctr) (cntR : Nat → Nat) (lenR : Nat) (h : RemInv c cntR lenR w) :
    InvC (remW w c) cntR lenR ∧ SameShape c.heap (remW w c).heap := by
  fun_induction remW w c with
  | case1 c =>
    exact ⟨⟨h.wf, by simpa using h.rc, by simpa using h.refs⟩, SameShape.refl _⟩
  | case2 x w c hx ih =>
    apply ih
    refine ⟨h.wf, ?_, ?_⟩
    · intro id; have := h.rc id; simp only [cnt_cons, hx] at this; simpa using this
    · have := h.refs; simp only [List.length_cons] at this ⊢; push_cast at this ⊢; omega
  | case3 x w c id hx hz ih =>
    -- cannot happen under the invariant: `x` is still counted, so its count is not 0
    have := h.rc id
    simp only [cnt_cons, hx] at this
    simp at this; omega
  | case4 x w c id hx hnz h1 ih =>
    have hstep : RemInv { heap := decRC c.heap id, refs := c.refs - 1 } cntR lenR (chOf c.heap id ++ w) := by
      have hl : id < c.heap.length := by
        rcases Nat.lt_or_ge id c.heap.length with hl | hl
        · exact hl
        · rw [rcOf_eq_zero_of_ge _ id hl] at h1; cases h1
      refine ⟨HeapWf_decRC id h.wf, ?_, ?_⟩
      · intro j
        have := h.rc j
        simp only [cnt_cons, hx] at this
        have hh := held_decRC_one (cnt j) c.heap id h1
        simp only [rcOf_decRC, cnt_append, heldCnt]
        simp only [heldCnt] at this
        by_cases hj : j = id
        · subst hj; simp [hl] at this ⊢; omega
        · have : ¬ (some id = some j) := by simpa using fun e => hj e.symm
          simp [hj, this] at *; omega
      · have := h.refs
        have hh := held_decRC_one (List.length) c.heap id h1
        simp only [heldLen, List.length_append, List.length_cons] at this ⊢
        push_cast at this ⊢; omega
    obtain ⟨i1, i2⟩ := ih hstep
    exact ⟨i1, (sameShape_decRC c.heap id).trans i2⟩
  | case5 x w c id hx hnz h1 ih =>
    have h2 : 2 ≤ rcOf c.heap id := by omega
    have hstep : RemInv { heap := decRC c.heap id, refs := c.refs - 1 } cntR lenR w := by
      have hl : id < c.heap.length := by
        rcases Nat.lt_or_ge id c.heap.length with hl | hl
        · exact hl
        · rw [rcOf_eq_zero_of_ge _ id hl] at h2; omega
      refine ⟨HeapWf_decRC id h.wf, ?_, ?_⟩
      · intro j
        have := h.rc j
        simp only [cnt_cons, hx] at this
        have hh := held_decRC_many (cnt j) c.heap id h2
        simp only [rcOf_decRC, heldCnt]
        simp only [heldCnt] at this
        by_cases hj : j = id
        · subst hj; simp [hl] at this ⊢; omega
        · have : ¬ (some id = some j) := by simpa using fun e => hj e.symm
          simp [hj, this] at *; omega
      · have := h.refs
        have hh := held_decRC_many (List.length) c.heap id h2
        simp only [heldLen, List.length_cons] at this ⊢
        push_cast at this ⊢; omega
    obtain ⟨i1, i2⟩ := ih hstep
    exact ⟨i1, (sameShape_decRC c.heap id).trans i2⟩

end NeoModel.VmAcct
