/-
C12 proofs, part 6b: the invariant at the level of machine states (frames, slots, stacks).
-/
import NeoModel.Proofs.VmAcctLen
namespace NeoModel.VmAcct

def rootsOf (frames : List Frame) (base : List Item) : List Item := base ++ frames.flatMap Frame.roots

theorem roots_eq (s : St) : s.roots = rootsOf s.frames s.base := rfl

theorem cnt_flatMap_cons (id : Nat) (f : Frame) (fs : List Frame) :
    cnt id ((f :: fs).flatMap Frame.roots) = cnt id f.roots + cnt id (fs.flatMap Frame.roots) := by
  simp [List.flatMap_cons]

/-! ### the current-stack lens -/

theorem curOf_setCurOf : ∀ (fs : List Frame) (b st : List Item), curOf (setCurOf fs b st).1 (setCurOf fs b st).2 = st := by
  intro fs
  induction fs with
  | nil => intro b st; rfl
  | cons f t ih =>
    intro b st
    simp only [setCurOf]
    cases ho : f.own with
    | some o => simp [curOf]
    | none => simp only [curOf, ho]; exact ih b st

theorem cnt_setCurOf (id : Nat) : ∀ (fs : List Frame) (b st : List Item),
    cnt id (rootsOf (setCurOf fs b st).1 (setCurOf fs b st).2) + cnt id (curOf fs b) = cnt id (rootsOf fs b) + cnt id st := by
  intro fs
  induction fs with
  | nil => intro b st; simp [setCurOf, curOf, rootsOf]; omega
  | cons f t ih =>
    intro b st
    simp only [setCurOf]
    cases ho : f.own with
    | some o =>
      simp only [curOf, ho, rootsOf, cnt_append, cnt_flatMap_cons, Frame.roots, slotItems]
      omega
    | none =>
      have := ih b st
      simp only [curOf, ho, rootsOf, cnt_append, cnt_flatMap_cons] at this ⊢
      omega

theorem len_setCurOf : ∀ (fs : List Frame) (b st : List Item),
    (rootsOf (setCurOf fs b st).1 (setCurOf fs b st).2).length + (curOf fs b).length = (rootsOf fs b).length + st.length := by
  intro fs
  induction fs with
  | nil => intro b st; simp [setCurOf, curOf, rootsOf]; omega
  | cons f t ih =>
    intro b st
    simp only [setCurOf]
    cases ho : f.own with
    | some o =>
      simp only [curOf, ho, rootsOf, List.length_append, List.flatMap_cons, Frame.roots, slotItems]
      omega
    | none =>
      have := ih b st
      simp only [curOf, ho, rootsOf, List.length_append, List.flatMap_cons] at this ⊢
      omega

theorem cur_setCur (s : St) (st : List Item) : (s.setCur st).cur = st := curOf_setCurOf _ _ _
theorem cnt_setCur (id : Nat) (s : St) (st : List Item) :
    cnt id (s.setCur st).roots + cnt id s.cur = cnt id s.roots + cnt id st := cnt_setCurOf id _ _ _
theorem len_setCur (s : St) (st : List Item) :
    (s.setCur st).roots.length + s.cur.length = s.roots.length + st.length := len_setCurOf _ _ _
@[simp] theorem c_setCur (s : St) (st : List Item) : (s.setCur st).c = s.c := rfl
@[simp] theorem uncaught_setCur (s : St) (st : List Item) : (s.setCur st).uncaught = s.uncaught := rfl
@[simp] theorem halted_setCur (s : St) (st : List Item) : (s.setCur st).halted = s.halted := rfl

/-- the machine invariant: the counter invariant for the roots plus the leaked references `lk`,
and the pending exception refers to an existing compound -/
structure InvS (s : St) (lk : List Item) : Prop where
  ctr : InvC s.c (fun id => cnt id s.roots + cnt id lk) (s.roots.length + lk.length)
  exc : ∀ x, s.uncaught = some x → WfItem s.c.heap x

/-- the "rest" of an instruction that works on the current stack -/
def restCnt (s : St) (lk : List Item) (id : Nat) : Nat := cnt id (s.setCur []).roots + cnt id lk
def restLen (s : St) (lk : List Item) : Nat := (s.setCur []).roots.length + lk.length

theorem InvS.toW {s : St} {lk : List Item} (inv : InvS s lk) : InvW s.w (restCnt s lk) (restLen s lk) := by
  refine inv.ctr.congr ?_ ?_
  · intro id
    have := cnt_setCur id s []
    simp only [St.w, restCnt, cnt_nil] at this ⊢; omega
  · have := len_setCur s []
    simp only [St.w, restLen, List.length_nil] at this ⊢; omega

/-- putting a working pair back -/
theorem invC_setW {s : St} {lk lk2 : List Item} {w' : W}
    (h : InvW w' (fun id => restCnt s lk id + cnt id lk2) (restLen s lk + lk2.length)) :
    InvC (s.setW w').c (fun id => cnt id (s.setW w').roots + cnt id (lk ++ lk2)) ((s.setW w').roots.length + (lk ++ lk2).length) := by
  have e1 : ∀ id, cnt id (s.setW w').roots + cnt id s.cur = cnt id s.roots + cnt id w'.st := by
    intro id; exact cnt_setCurOf id _ _ _
  have e2 : (s.setW w').roots.length + s.cur.length = s.roots.length + w'.st.length := len_setCurOf _ _ _
  have e3 := fun id => cnt_setCur id s []
  have e4 := len_setCur s []
  refine h.congr ?_ ?_
  · intro id
    have := e1 id; have := e3 id
    simp only [restCnt, cnt_append, cnt_nil] at *; omega
  · simp only [restLen, List.length_append, List.length_nil] at *; omega

end NeoModel.VmAcct
