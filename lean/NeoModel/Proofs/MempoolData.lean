/-
C08 helper: `TryGetData` / `TryGetValue` on a pool that satisfies the invariant. `TryGetData` finds an item by a
binary search for the left bound of the equally prioritized items followed by a scan that stops at the first
item of another priority; this is correct because the list is sorted and hashes are unique.
-/
import NeoModel.Proofs.MempoolRun
namespace NeoModel.Mempool

theorem compare_zero_of_ge_ge {a b : Tx} (h1 : ge a b) (h2 : ge b a) : compare a b = 0 := by
  unfold ge at h1 h2
  rw [compare_nonneg_iff] at h1 h2
  rw [compare_zero_iff]
  unfold keyLe at h1 h2
  have e1 : (key a).1 = (key b).1 := by omega
  have e2 : (key a).2.1 = (key b).2.1 := by omega
  have e3 : (key a).2.2 = (key b).2.2 := by omega
  exact Prod.ext e1 (Prod.ext e2 e3)

/-- the scan of `TryGetData` reaches the wanted item when everything before it has the same priority -/
theorem scanData_found (tx : Tx) (data : Nat → Nat) (post : List Tx) :
    ∀ pre : List Tx, (∀ e ∈ pre, compare tx e = 0 ∧ e.id ≠ tx.id) →
      scanData tx tx.id data (pre ++ tx :: post) = some (data tx.id) := by
  intro pre
  induction pre with
  | nil => intro _; simp [scanData]
  | cons e pre ih =>
    intro h
    obtain ⟨h1, h2⟩ := h e List.mem_cons_self
    simp only [List.cons_append, scanData, h2, if_false, h1, ne_eq, not_true_eq_false]
    exact ih (fun x hx => h x (List.mem_cons_of_mem _ hx))

theorem tryGetData_spec {U : Tx → Prop} {mp : Pool} (hi : Inv U mp) (h : Nat) :
    tryGetData mp h = (mp.vmap h).map (fun _ => mp.data h) := by
  unfold tryGetData
  cases hv : mp.vmap h with
  | none => rfl
  | some tx =>
    obtain ⟨hm, hid⟩ := (hi.vmap h tx).mp hv
    subst hid
    simp only [Option.map_some]
    obtain ⟨a, b, hab⟩ := List.append_of_mem hm
    have hs := hi.list.sorted
    have hnd := hi.list.nodup
    generalize hf : notBelow mp.txs tx = f
    have mono : ∀ i j, i ≤ j → j < mp.txs.length → f i = true → f j = true := by
      intro i j hij hj hfi
      have hi' : i < mp.txs.length := by omega
      subst hf
      simp only [notBelow, List.getElem?_eq_getElem hi', List.getElem?_eq_getElem hj, decide_eq_true_eq, ge_iff_le] at *
      by_cases e : i = j
      · subst e; exact hfi
      · exact ge_trans hfi ((List.pairwise_iff_getElem.mp hs) i j hi' hj (by omega))
    obtain ⟨h1, h2, h3⟩ := sortSearch_spec f mp.txs.length mono
    -- the wanted item sits at index a.length and satisfies the predicate
    have hlen : a.length < mp.txs.length := by rw [hab]; simp
    have hfa : f a.length = true := by
      subst hf
      have : mp.txs[a.length]? = some tx := by rw [hab]; simp
      simp only [notBelow, this, decide_eq_true_eq, ge_iff_le]
      exact ge_refl tx
    have hn : sortSearch mp.txs.length f ≤ a.length := by
      apply Nat.le_of_not_lt
      intro hlt
      have := h2 _ hlt
      rw [hfa] at this; cases this
    generalize hnn : sortSearch mp.txs.length f = n at *
    have hdrop : mp.txs.drop n = a.drop n ++ tx :: b := by
      rw [hab, List.drop_append_of_le_length hn]
    rw [hdrop]
    apply scanData_found
    intro e he
    obtain ⟨k, hk, rfl⟩ := List.getElem_of_mem he
    simp only [List.length_drop] at hk
    rw [List.getElem_drop]
    have hka : n + k < a.length := by omega
    have hkl : n + k < mp.txs.length := by omega
    have hget : mp.txs[n + k]'hkl = a[n + k] := by
      simp only [hab]
      rw [List.getElem_append_left hka]
    constructor
    · -- same priority: not below (from the search) and not above (sorted)
      have hfk := h3 (n + k) (by omega) hkl
      subst hf
      simp only [notBelow, List.getElem?_eq_getElem hkl, decide_eq_true_eq, ge_iff_le] at hfk
      rw [hget] at hfk
      have hge : ge a[n + k] tx := by
        have := List.pairwise_iff_getElem.mp hs (n + k) a.length hkl hlen hka
        rw [hget] at this
        have h2' : mp.txs[a.length]'hlen = tx := by simp [hab]
        rw [h2'] at this; exact this
      exact compare_zero_of_ge_ge hfk hge
    · -- another hash
      intro e
      rw [hab, List.map_append, List.map_cons, List.nodup_append] at hnd
      exact hnd.2.2 (a[n + k]).id (List.mem_map_of_mem (List.getElem_mem hka)) tx.id (by simp) e

theorem tryGetValue_spec {U : Tx → Prop} {mp : Pool} (hi : Inv U mp) (h : Nat) (t : Tx) :
    tryGetValue mp h = some t ↔ t ∈ mp.txs ∧ t.id = h := hi.vmap h t

end NeoModel.Mempool
