/- C19 simulation, part C5: checkCommit (the block goes to the ledger) and checkPrepare. -/
import NeoModel.Proofs.DbftSimC4
import NeoModel.Proofs.DbftWitness
import NeoModel.Proofs.DbftWitnessM
namespace NeoModel.Dbft.Mach
open NeoModel.Dbft

theorem filterMap_filter_length (f : Nat → Option (Nat × Bool)) (l : List Nat) :
    ((l.filterMap f).filter (·.2)).length =
      (l.filter fun j => match f j with | some y => y.2 | none => false).length := by
  induction l with
  | nil => simp
  | cons j t ih =>
    simp only [List.filterMap_cons, List.filter_cons]
    cases hf : f j with
    | none => simp [ih]
    | some y => cases hy : y.2 <;> simp [hy, ih]

/-- M valid entries among the first M of a witness list mean M validators with a valid entry -/
theorem witness_count (f : Nat → Option (Nat × Bool)) (n m : Nat)
    (hall : (((List.range n).filterMap f).take m).all (·.2) = true)
    (hlen : (((List.range n).filterMap f).take m).length = m) :
    m ≤ countP n (fun j => match f j with | some y => y.2 | none => false) := by
  unfold countP
  rw [← filterMap_filter_length]
  have h1 : ((((List.range n).filterMap f).take m).filter (·.2)) = ((List.range n).filterMap f).take m := by
    rw [List.filter_eq_self]; intro a ha; exact List.all_eq_true.mp hall a ha
  have h2 : ((((List.range n).filterMap f).take m).filter (·.2)).Sublist (((List.range n).filterMap f).filter (·.2)) :=
    (List.take_sublist _ _).filter _
  have := h2.length_le
  rw [h1, hlen] at this
  exact this

/-- the entry of validator `j` in the witness list -/
def bwF (nd : Node) (b : Block) (j : Nat) : Option (Nat × Bool) :=
  match slot nd.commit j with
  | some (.commit x sb) => if x.v == nd.view then some (j, decide (sb = b)) else none
  | _ => none

theorem blockWitness_eq (e : Env) (nd : Node) (b : Block) :
    blockWitness e nd b = ((List.range e.n).filterMap (bwF nd b)).take e.m := rfl

/-- In a network of honest machines every Commit held for the current view signs the header: its signer
signed a block of this height and view (a relayed Commit keeps the view it was sent in, ec63204), M validators
prepared that block, and whatever was prepared in this view is the request held. -/
theorem good_commitsSign {e : Env} {as : State} {i : Nat} {w : W} (h : Good e as i w) (b : Block)
    (hh : w.nd.header = some b) : CommitsSign w.nd b := by
  intro j x sb hs hxv
  obtain ⟨y, sb', he, _, _, hm, hsh, hsv⟩ := h.rn.commit j _ hs
  simp only [Pl.commit.injEq] at he
  obtain ⟨rfl, rfl⟩ := he
  have inv := inv_reachable (cfgOf e) as h.g.1
  have hn : 0 < (cfgOf e).n := Nat.lt_of_le_of_lt (Nat.zero_le _) h.lt
  obtain ⟨k, _, hk⟩ := countP_pos (cfgOf e).n _ (Nat.lt_of_lt_of_le (m_pos (cfgOf e) hn) (inv.commitPrepared j sb hm))
  simp only [preparedBy, decide_eq_true_eq] at hk
  obtain ⟨_, p, _, hbeq, hbprim, hpidx⟩ := header_request h.rn b hh
  rw [hpidx] at hbprim
  rw [hbeq] at hbprim ⊢
  have hbk := prepared_is_request h.g hbprim ⟨sb, hk, hsh, by rw [hsv, hxv]⟩
  exact inv.prepUniq k sb _ hk hbk hsh (by rw [hsv, hxv])

/-- check.go:106-153 on the machine -/
theorem prog_checkCommit {e : Env} {as : State} {i : Nat} {w : W} (h : Good e as i w)
    (hbp : w.nd.blockProcessed = false) : Prog e i as (checkCommit e w) := by
  unfold checkCommit
  simp only
  split
  · exact Prog.of_good h
  split
  · exact Prog.of_good h
  rename_i hcnt
  cases hh : w.nd.header with
  | none => exact Prog.of_good h
  | some b =>
    simp only
    have hmy := h.rn.my
    obtain ⟨hbi, hview, hgp, hgc⟩ := h.synced hbp
    obtain ⟨x, p, hslot, hbeq, hbprim, hpidx⟩ := header_request h.rn b hh
    by_cases hok : ((blockWitness e w.nd b).all (·.2) && (blockWitness e w.nd b).length == e.m && w.nd.height + 1 == b.h) = true
    · -- the ledger takes the block: the abstract node accepts it
      simp only [hok, if_true]
      simp only [Bool.and_eq_true, beq_iff_eq] at hok
      obtain ⟨⟨hall, hlen⟩, _⟩ := hok
      let P : Nat → Bool := fun j => match bwF w.nd b j with | some y => y.2 | none => false
      have hcntP : e.m ≤ countP e.n P :=
        witness_count (bwF w.nd b) e.n e.m (by rw [← blockWitness_eq]; exact hall) (by rw [← blockWitness_eq]; exact hlen)
      have hP : ∀ j, P j = true → b ∈ (as.nodes j).myCommits := by
        intro j hj
        simp only [P, bwF] at hj
        split at hj
        · rename_i y hy
          split at hy
          · rename_i z sb heq
            split at hy
            · simp only [Option.some.injEq] at hy
              subst hy
              simp only [decide_eq_true_eq] at hj
              obtain ⟨y', sb', he, _, _, hm⟩ := h.rn.commit j _ heq
              simp only [Pl.commit.injEq] at he
              obtain ⟨_, rfl⟩ := he
              rw [← hj]; exact hm.1
            · cases hy
          · cases hy
        · cases hj
      let S : List Item := (prepItem (cfgOf e) w.nd.pidx b) ::
        ((List.range e.n).filter P).map fun j => Item.commit j b
      have hS : ∀ it ∈ S, it ∈ (as.nodes i).known ∨ (i, Msg.item it) ∈ as.net := by
        intro it hit
        simp only [S, List.mem_cons, List.mem_map, List.mem_filter, List.mem_range] at hit
        rcases hit with rfl | ⟨j, ⟨_, hj⟩, rfl⟩
        · obtain ⟨hb1, hb2⟩ := h.g.2.1 _ b hbprim
          by_cases hji : w.nd.pidx = i
          · rw [hji] at hb2 ⊢; exact Or.inl hb2
          · exact Or.inr (hb1 i h.lt (Ne.symm hji))
        · obtain ⟨hb1, hb2⟩ := h.g.2.2 j b (hP j hj)
          by_cases hji : j = i
          · subst hji; exact Or.inl hb2
          · exact Or.inr (hb1 i h.lt (Ne.symm hji))
      obtain ⟨as1, x1, k1, h1, v1, c1, p1, m1⟩ := ext_get_all (cfgOf e) i S as hS
      have g1 := h.ext_same x1 h1 v1 c1 p1 m1
      have hprim : (cfgOf e).primary b.h b.v = w.nd.pidx := by rw [hbeq, hpidx]; rfl
      have hen : Enabled (cfgOf e) as1 (.accept i b) := by
        refine ⟨h.lt, by rw [h1, hbeq]; exact hbi, by rw [v1, hbeq]; exact hview, ?_, ?_⟩
        · have : prepItem (cfgOf e) w.nd.pidx b ∈ (as1.nodes i).known := k1 _ (by simp [S])
          unfold prepItem at this
          rw [if_pos hprim.symm] at this
          rw [hprim]; exact this
        · refine Nat.le_trans hcntP (countP_mono _ _ _ ?_)
          intro j hj hpj
          unfold committed
          simp only [decide_eq_true_eq]
          apply k1
          simp only [S, List.mem_cons, List.mem_map, List.mem_filter, List.mem_range]
          exact Or.inr ⟨j, ⟨hj, hpj⟩, rfl⟩
      obtain ⟨x2, hv2, hh2, hc2, hp2, hm2⟩ := ext_accept (cfgOf e) as1 i b hen
      have inv := inv_reachable (cfgOf e) as h.g.1
      refine ⟨_, x1.trans x2, ?_⟩
      have rn1 := g1.rn
      have hblk : ∀ b' s, Out.block b' s ∈ Out.block b (blockWitness e w.nd b) :: w.out → SigsOK e s := by
        intro b' s hp
        simp only [List.mem_cons, Out.block.injEq] at hp
        rcases hp with ⟨_, rfl⟩ | hp
        · exact ⟨blockWitness_valid e w.nd b (good_commitsSign h b hh), checkCommit_witness_exact h.rn b hcnt⟩
        · exact h.blk b' s hp
      refine ⟨g1.g.ext x2, ?_, ?_, fun b' s hp => hblk b' s (by simpa [W.upd, W.emit] using hp), h.st, h.lt⟩
      · refine ⟨rn1.my, rn1.lens, by rw [hc2, rn1.chain]; rfl, ?_, ?_, rn1.pidx, ?_, ?_, ?_, ?_, ?_, ?_⟩
        · rw [hh2, rn1.height]; simp [W.upd, W.emit, addToChain, postBlock]
        · right; left
          refine ⟨rfl, ?_, hv2, ?_, ?_⟩
          · show w.nd.bi + 1 = _; rw [hh2, h1, hbi]
          · intro b' hb'; rw [hp2, p1] at hb'
            have := inv.prepHeight i b' hb'; rw [← hbi] at this; exact this
          · intro b' hb'; rw [hm2, m1] at hb'
            have := inv.commitHeight i b' hb'; rw [← hbi] at this; exact this
        · intro j m hj; obtain ⟨a1, a2, a3, a4⟩ := rn1.prep j m hj; exact ⟨a1, a2.ext x2, a3, a4⟩
        · intro j m hj; obtain ⟨y, sb, a1, a2, a3, a4⟩ := rn1.commit j m hj
          exact ⟨y, sb, a1, a2, a3, x2.grows.commits _ _ a4.1, a4.2⟩
        · intro j m hj; obtain ⟨y, r, a1, a2, a3, a4⟩ := rn1.cv j m hj; exact ⟨y, r, a1, a2, a3, a4.ext x2⟩
        · intro j m hj; obtain ⟨y, r, a1, a2, a3, a4⟩ := rn1.lastCv j m hj; exact ⟨y, r, a1, a2, a3, a4.ext x2⟩
        · intro hh' box hb km hkm; exact (rn1.cache hh' box hb km hkm).ext x2
        · exact rn1.own
      · intro pl hpl
        have : Out.bcast pl ∈ w.out := by simpa [W.upd, W.emit] using hpl
        exact (g1.outs pl this).ext x2
    · -- the ledger turns the block down: the machine stops for this height, nothing happens abstractly
      simp only [hok, Bool.false_eq_true, if_false]
      have hblk : ∀ b' s, Out.block b' s ∈ Out.block b (blockWitness e w.nd b) :: w.out → SigsOK e s := by
        intro b' s hp
        simp only [List.mem_cons, Out.block.injEq] at hp
        rcases hp with ⟨_, rfl⟩ | hp
        · exact ⟨blockWitness_valid e w.nd b (good_commitsSign h b hh), checkCommit_witness_exact h.rn b hcnt⟩
        · exact h.blk b' s hp
      refine Prog.of_good ⟨h.g, ?_, ?_, fun b' s hp => hblk b' s (by simpa [W.upd, W.emit] using hp), h.st, h.lt⟩
      · have rn := h.rn
        refine ⟨rn.my, rn.lens, rn.chain, rn.height, ?_, rn.pidx, rn.prep, rn.commit, rn.cv, rn.lastCv, rn.cache, rn.own⟩
        left; exact ⟨hbi, hview, hgp, hgc⟩
      · intro pl hpl
        have : Out.bcast pl ∈ w.out := by simpa [W.upd, W.emit] using hpl
        exact h.outs pl this

end NeoModel.Dbft.Mach
