/-
Any schedule of API calls: the real representation and the expanded trie give the same observations.
-/
import NeoModel.Model.Mpt.LazyOps
import NeoModel.Proofs.MptLazyBatch
import NeoModel.Proofs.MptLazySeek
import NeoModel.Proofs.MptLazyFind
namespace NeoModel.Mpt

variable {H : Bytes → Bytes}

theorem good_need {F : Nat} {t : Node} (l : LNode) (hg : Good H F t) : need l t ≤ F :=
  Nat.le_trans (need_le l t) hg.2.2

/-- one API call: same observation, and the representation invariant is kept. `dirty` says whether
the trie was changed since the last Flush; while it was not, all of `t` can be loaded from the store. -/
theorem lstep_estep (h32 : ∀ b, (H b).length = 32) {F : Nat} (s : LState) (t : Node) (dirty : Bool) (o : LOp)
    (hr : LRep H s.store s.root t) (hst : dirty = false → Stored H s.store t)
    (hok : allowed dirty o = true) (hg : Good H F t) :
    (lstep H F s o).2 = (estep H t o).2 ∧
    LRep H (lstep H F s o).1.store (lstep H F s o).1.root (estep H t o).1 ∧
    (dirtyAfter dirty o = false → Stored H (lstep H F s o).1.store (estep H t o).1) := by
  cases o with
  | put p v =>
    obtain ⟨l', hl', hrep⟩ := lput_rep F s.root t p v hr (good_need _ hg)
    simp [lstep, estep, hl', obsOf, hrep, dirtyAfter]
  | del p =>
    obtain ⟨l', hl', hrep, _⟩ := ldel_rep F s.root t p hr (good_need _ hg)
    simp [lstep, estep, hl', obsOf, hrep, dirtyAfter]
  | batch m =>
    obtain ⟨l', hl', hrep⟩ := lputBatch_rep F s.root t (mapToBatch m) hr (good_need _ hg)
    simp [lstep, estep, hl', obsOf, hrep, dirtyAfter]
  | get p =>
    obtain ⟨h1, h2⟩ := lget_rep F s.root t p hr (good_need _ hg)
    simp only [lstep, estep]
    cases hl : lookup t p with
    | none => simp [h2 hl, hr]; exact hst
    | some v =>
      obtain ⟨l', hg', hrep⟩ := h1 v hl
      simp [hg', hrep]; exact hst
  | proof p =>
    obtain ⟨h1, h2⟩ := lgetProof_rep (H := H) F s.root t p hr (good_need _ hg)
    simp only [lstep, estep]
    cases hl : getProof H t p with
    | none => simp [h2 hl, hr]; exact hst
    | some ps =>
      obtain ⟨l', hg', hrep⟩ := h1 ps hl
      simp [hg', hrep]; exact hst
  | root => simp [lstep, estep, lrootHash_rep hr, hr]; exact hst
  | find pre frm m =>
    obtain ⟨h1, h2⟩ := lfind_rep (H := H) (S := s.store) F s.root t pre frm m hr hg.2.2
    simp only [lstep, estep]
    exact ⟨by rw [h1], h2, hst⟩
  | seek pre st back =>
    have hd : dirty = false := by simpa [allowed] using hok
    have hro := lreopen_rep hr (hst hd)
    simp only [lstep, estep]
    rw [lseek_rep F _ t pre st back hro hg.2.2]
    exact ⟨rfl, hr, fun _ => hst hd⟩
  | flush =>
    have hs := stored_lflush h32 hr hg.1 hg.2.1
    simp only [lstep, estep]
    exact ⟨trivial, rep_of_stored _ _ hr hs, fun _ => hs⟩
  | collapse d =>
    have hd : dirty = false := by simpa [allowed] using hok
    simp only [lstep, estep]
    exact ⟨trivial, lcollapse_rep _ d t hr (hst hd), fun _ => hst hd⟩
  | reopen =>
    have hd : dirty = false := by simpa [allowed] using hok
    simp only [lstep, estep]
    exact ⟨trivial, lreopen_rep hr (hst hd), fun _ => hst hd⟩

/-- any schedule: the real representation and the expanded trie give the same observations, and the
invariant holds at the end. -/
theorem lrun_erun (h32 : ∀ b, (H b).length = 32) {F : Nat} : ∀ (ops : List LOp) (s : LState) (t : Node) (dirty : Bool),
    LRep H s.store s.root t → (dirty = false → Stored H s.store t) → okSched dirty ops = true →
    GoodRun H F t ops →
    (lrun H F s ops).2 = (erun H t ops).2 ∧
    LRep H (lrun H F s ops).1.store (lrun H F s ops).1.root (erun H t ops).1 := by
  intro ops
  induction ops with
  | nil => intro s t _ hr _ _ _; exact ⟨rfl, hr⟩
  | cons o ops ih =>
    intro s t dirty hr hst hok hg
    have hok' : allowed dirty o = true ∧ okSched (dirtyAfter dirty o) ops = true := by
      simpa [okSched] using hok
    obtain ⟨hok1, hok2⟩ := hok'
    obtain ⟨h1, h2, h3⟩ := lstep_estep h32 s t dirty o hr hst hok1 hg.1
    obtain ⟨h4, h5⟩ := ih _ _ _ h2 h3 hok2 hg.2
    simp only [lrun, erun]
    exact ⟨by rw [h1, h4], h5⟩

end NeoModel.Mpt
