/-
CompileEnc — the (decidable) side conditions under which the byte encoding of an instruction / an assembly program
is faithful (C14 target 2: `layoutOK` proved instead of evaluated).  Definitions only; the proofs are in
Proofs/CompileCodec.lean (decode ∘ encode), Proofs/CompileLayout.lean (writeJumps/removeNOPs arithmetic) and
Proofs/CompileTargets.lean (every jump target of the compiler's output is marked).

Where the bounds come from in /repo:
  * PUSHINT*: emit.bigInt (pkg/vm/emit/emit.go:92-113) refuses integers beyond 256 bits (stackitem.CheckIntegerSize);
  * INITSLOT / LDLOC / STLOC / LDARG / STARG carry one-byte operands; writeJumps (codegen.go:2925-2927) rejects a
    function with more than 255 locals;
  * long jump operands are int32 (replaceLabelWithOffset, codegen.go:2979-2982); short ones int8 (codegen.go:2907).
-/
import NeoModel.Model.Compile
namespace NeoModel.CompileProofs
open NeoModel.MiniVm NeoModel.MiniVm.Asm NeoModel.Compile

/-- operands that `Byte.encode long` represents faithfully. -/
def encOK (long : Bool) : Op Int → Bool
  | .pushInt n => fits256 n
  | .jmp t | .jmpIf t | .jmpIfNot t | .jmpCmp _ t | .call t =>
    if long then decide (-(2 ^ 31) ≤ t ∧ t < 2 ^ 31) else decide (-128 ≤ t ∧ t ≤ 127)
  | .initSlot l a => decide (l < 256 ∧ a < 256)
  | .ldloc i | .stloc i | .ldarg i | .starg i => decide (i < 256)
  | _ => true

/-- the same for an assembly item, whatever offset its jump will get. -/
def itemEnc : Item → Bool
  | .lbl _ => true
  | .ins (.pushInt n) => fits256 n
  | .ins (.initSlot l a) => decide (l < 256 ∧ a < 256)
  | .ins (.ldloc i) | .ins (.stloc i) | .ins (.ldarg i) | .ins (.starg i) => decide (i < 256)
  | .ins _ => true

/-- every jump / call target has a mark. -/
def targetsMarked (c : Code) : Bool :=
  c.all (fun it => match it with
    | .ins op => match Op.target? op with
      | some l => (findLabel c l).isSome
      | none => true
    | .lbl _ => true)

/-- size of the script before writeJumps shortens / removes anything. -/
def longLen (c : Code) : Nat := (c.map longSize).sum

/-- the arithmetic hypothesis of the layout theorem. -/
def encodable (c : Code) : Bool := c.all itemEnc && targetsMarked c && decide (longLen c < 2 ^ 31)

end NeoModel.CompileProofs
