/-
C04: stored values are immutable — in the implementation model nothing but System.Storage.Put / Delete and
the native methods changes what the DAO shows. Reads (and whatever the VM does with the bytes it read), calls,
internal calls, notifications, TRY/CATCH/FINALLY, THROW leave the ledger view exactly as it was, in every
context, through every push / commit / drop of DAO layers.
-/
import NeoModel.Model.Exec
import NeoModel.Proofs.ExecFrame
namespace NeoModel.Exec

/-- no Storage.Put, no Storage.Delete, no native call anywhere in the tree. -/
def writeFree : Tree → Bool
  | .skip | .notify .. | .throw | .abort => true
  | .put .. | .del .. | .native .. => false
  | .seq a b => writeFree a && writeFree b
  | .ifp _ b => writeFree b
  | .loc b => writeFree b
  | .call _ _ b => writeFree b
  | .try_ b _ c _ f => writeFree b && writeFree c && writeFree f

def ViewKept (s : ISt) (r : Res ISt) : Prop :=
  match r with
  | .norm s' => s'.view = s.view
  | .thrown s' => s'.view = s.view
  | .fault _ => True

theorem viewkept_trans {s s1 : ISt} {r} (h1 : s1.view = s.view) (h : ViewKept s1 r) : ViewKept s r := by
  cases r <;> simp only [ViewKept] at * <;> first | exact h.trans h1 | trivial

theorem viewkept_raise (h : Bool) (s : ISt) : ViewKept s (raise h s) := by
  unfold raise; split <;> simp [ViewKept, ISt.view]

theorem viewkept_end (h hasF : Bool) (rf : ISt → Res ISt) (s : ISt) (hf : ∀ s, ViewKept s (rf s)) :
    ViewKept s (imEnd h hasF rf s) := by
  unfold imEnd
  split
  · have := hf s
    cases hr : rf s with
    | norm s3 =>
      rw [hr] at this; simp only
      split
      · exact viewkept_trans this (viewkept_raise h s3)
      · exact this
    | thrown s3 => rw [hr] at this; exact this
    | fault s3 => trivial
  · rfl

theorem viewkept_finExc (h : Bool) (rf : ISt → Res ISt) (s : ISt) (hf : ∀ s, ViewKept s (rf s)) :
    ViewKept s (imFinExc h rf s) := by
  unfold imFinExc
  have := hf s
  cases hr : rf s with
  | norm s3 =>
    rw [hr] at this; simp only
    split
    · exact viewkept_trans this (viewkept_raise h s3)
    · trivial
  | thrown s3 => rw [hr] at this; exact this
  | fault s3 => trivial

/-- the unload callback (commit or drop of the callee's layer) gives back the caller's view. -/
theorem unload_view {s s1 : ISt} (wrapped : Bool) (base : Nat)
    (hb : s1.below = (if wrapped = true then s.push else s).below)
    (hv : s1.view = (if wrapped = true then s.push else s).view) :
    (s1.unload wrapped base).view = s.view := by
  cases wrapped with
  | false => simpa [ISt.unload] using hv
  | true =>
    simp only [if_true, ISt.push] at hb hv
    cases he : s1.exc with
    | true => simp [ISt.unload, he, ISt.drop, hb, ISt.view]
    | false =>
      simp only [ISt.unload, he, ISt.merge, hb, if_true, Bool.false_eq_true, if_false]
      simp only [ISt.view, hb, flatten, List.nil_append] at hv ⊢
      rw [List.append_assoc]; exact hv

theorem im_store_immutable (t : Tree) : ∀ (x : Ctx) (s : ISt), writeFree t = true → ViewKept s (im t x s) := by
  induction t with
  | skip => intro x s _; simp [im, ViewKept]
  | seq a b iha ihb =>
    intro x s h
    simp only [writeFree, Bool.and_eq_true] at h
    simp only [im]
    have ha := iha x s h.1
    cases hr : im a x s with
    | norm s1 => rw [hr] at ha; exact viewkept_trans ha (ihb x s1 h.2)
    | thrown s1 => rw [hr] at ha; exact ha
    | fault s1 => trivial
  | put k v => intro x s h; simp [writeFree] at h
  | del k => intro x s h; simp [writeFree] at h
  | native inner o fl cb k _ _ => intro x s h; simp [writeFree] at h
  | notify e =>
    intro x s _; simp only [im]
    split
    · split <;> simp [ViewKept, ISt.view]
    · trivial
  | ifp k body ih =>
    intro x s h
    simp only [writeFree] at h
    simp only [im]
    split
    · split
      · exact ih x s h
      · rfl
    · trivial
  | loc body ih => intro x s h; simp only [writeFree] at h; simp only [im]; exact ih x s h
  | throw => intro x s _; simp only [im]; exact viewkept_raise _ _
  | abort => intro x s _; simp [im, ViewKept]
  | call c' fl body ih =>
    intro x s h
    simp only [writeFree] at h
    simp only [im]
    split
    · generalize (x.inTry && (x.f.and fl).mut) = wrapped
      have hb := ih ⟨c', x.f.and fl, false, x.h⟩ (if wrapped = true then s.push else s) h
      have hf := im_frame body ⟨c', x.f.and fl, false, x.h⟩ (if wrapped = true then s.push else s)
      cases hr : im body ⟨c', x.f.and fl, false, x.h⟩ (if wrapped = true then s.push else s) with
      | norm s1 => rw [hr] at hb hf; exact unload_view wrapped _ hf.1 hb
      | thrown s1 => rw [hr] at hb hf; exact unload_view wrapped _ hf.1.1 hb
      | fault s1 => trivial
    · trivial
  | try_ body hasC cat hasF fin ihb ihc ihf =>
    intro x s h
    simp only [writeFree, Bool.and_eq_true] at h
    simp only [im]
    split
    · trivial
    · have hb := ihb { x with inTry := true, h := true } s h.1.1
      cases hr : im body { x with inTry := true, h := true } s with
      | norm s1 => rw [hr] at hb; exact viewkept_trans hb (viewkept_end _ _ _ _ (fun s => ihf x s h.2))
      | thrown s1 =>
        rw [hr] at hb
        simp only
        split
        · have hc := ihc { x with inTry := x.inTry || hasF, h := x.h || hasF } { s1 with exc := false } h.1.2
          have hv1 : ({ s1 with exc := false } : ISt).view = s.view := hb
          cases hrc : im cat { x with inTry := x.inTry || hasF, h := x.h || hasF } { s1 with exc := false } with
          | norm s2 =>
            rw [hrc] at hc
            exact viewkept_trans (hc.trans hv1) (viewkept_end _ _ _ _ (fun s => ihf x s h.2))
          | thrown s2 =>
            rw [hrc] at hc
            simp only
            split
            · exact viewkept_trans (hc.trans hv1) (viewkept_finExc _ _ _ (fun s => ihf x s h.2))
            · exact hc.trans hv1
          | fault s2 => trivial
        · exact viewkept_trans hb (viewkept_finExc _ _ _ (fun s => ihf x s h.2))
      | fault s1 => trivial

end NeoModel.Exec
