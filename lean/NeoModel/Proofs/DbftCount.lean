/- C19 helper lemmas: counting validators, quorum intersection. -/
import NeoModel.Model.Dbft
namespace NeoModel.Dbft

theorem countP_succ (n : Nat) (P : Nat → Bool) :
    countP (n + 1) P = countP n P + (if P n then 1 else 0) := by
  unfold countP
  rw [List.range_succ, List.filter_append]
  by_cases h : P n <;> simp [h]

theorem countP_le (n : Nat) (P : Nat → Bool) : countP n P ≤ n := by
  induction n with
  | zero => simp [countP]
  | succ n ih => rw [countP_succ]; split <;> omega

theorem countP_mono (n : Nat) (P Q : Nat → Bool) (h : ∀ j, j < n → P j = true → Q j = true) :
    countP n P ≤ countP n Q := by
  induction n with
  | zero => simp [countP]
  | succ n ih =>
    rw [countP_succ, countP_succ]
    have ih' := ih (fun j hj => h j (Nat.lt_succ_of_lt hj))
    by_cases hp : P n
    · have := h n (Nat.lt_succ_self n) hp
      simp [hp, this]; exact ih'
    · simp [hp]; split <;> omega

/-- inclusion–exclusion, the half that is needed -/
theorem countP_inter (n : Nat) (P Q : Nat → Bool) :
    countP n P + countP n Q ≤ n + countP n (fun j => P j && Q j) := by
  induction n with
  | zero => simp [countP]
  | succ n ih =>
    rw [countP_succ, countP_succ, countP_succ]
    by_cases hp : P n <;> by_cases hq : Q n <;> simp [hp, hq] <;> omega

theorem countP_pos (n : Nat) (P : Nat → Bool) (h : 0 < countP n P) : ∃ j, j < n ∧ P j = true := by
  induction n with
  | zero => simp [countP] at h
  | succ n ih =>
    rw [countP_succ] at h
    by_cases hp : P n
    · exact ⟨n, Nat.lt_succ_self n, hp⟩
    · simp [hp] at h
      obtain ⟨j, hj, hpj⟩ := ih h
      exact ⟨j, Nat.lt_succ_of_lt hj, hpj⟩

/-- Two sets of validators that together count more than `n` share a validator. -/
theorem quorum_inter (n : Nat) (P Q : Nat → Bool) (h : n < countP n P + countP n Q) :
    ∃ j, j < n ∧ P j = true ∧ Q j = true := by
  have := countP_inter n P Q
  have hpos : 0 < countP n (fun j => P j && Q j) := by omega
  obtain ⟨j, hj, hpq⟩ := countP_pos n _ hpos
  simp at hpq
  exact ⟨j, hj, hpq.1, hpq.2⟩

theorem two_m_gt_n (c : Cfg) (hn : 0 < c.n) : c.n < c.m + c.m := by
  unfold Cfg.m Cfg.f
  omega

theorem countP_compl (n : Nat) (P : Nat → Bool) : countP n P + countP n (fun j => !P j) = n := by
  induction n with
  | zero => simp [countP]
  | succ n ih =>
    rw [countP_succ, countP_succ]
    by_cases hp : P n <;> simp [hp] <;> omega

/-- Any two sets of `M = n - f` validators intersect in a validator outside any given set of at most
`f` (silent) validators (`f = (n-1)/3`, so `n ≥ 3f+1`). -/
theorem quorum_inter_nonsilent (c : Cfg) (hn : 0 < c.n) (P Q silent : Nat → Bool)
    (hP : c.m ≤ countP c.n P) (hQ : c.m ≤ countP c.n Q) (hs : countP c.n silent ≤ c.f) :
    ∃ j, j < c.n ∧ P j = true ∧ Q j = true ∧ silent j = false := by
  have h1 := countP_inter c.n P Q
  have h2 := countP_inter c.n (fun j => P j && Q j) (fun j => !silent j)
  have h3 := countP_compl c.n silent
  have hm : c.m = c.n - c.f := rfl
  have hf : 3 * c.f ≤ c.n - 1 := by unfold Cfg.f; omega
  have hpos : 0 < countP c.n (fun j => (P j && Q j) && !silent j) := by omega
  obtain ⟨j, hj, hpq⟩ := countP_pos c.n _ hpos
  simp at hpq
  exact ⟨j, hj, hpq.1.1, hpq.1.2, hpq.2⟩

end NeoModel.Dbft
