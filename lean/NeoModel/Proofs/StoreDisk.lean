/-
C09 helper lemmas: goleveldb's BytesPrefix limit, the disk key range of seekRangeToPrefixes is the
range predicate, LevelDB seek is correct.
-/
import NeoModel.Proofs.StoreSeek
set_option linter.unusedSimpArgs false
set_option linter.unusedVariables false
namespace NeoModel.Store

theorem lexLt_nil_cons (c : UInt8) (cs : Bytes) : lexLt [] (c :: cs) = true := rfl
theorem lexLt_cons_nil (c : UInt8) (cs : Bytes) : lexLt (c :: cs) [] = false := rfl
theorem lexLt_cons_cons (a b : UInt8) (as bs : Bytes) :
    lexLt (a :: as) (b :: bs) = if a < b then true else if b < a then false else lexLt as bs := rfl

theorem u8_succ_lt (c d : UInt8) (hc : c < 0xff) : d < c + 1 ↔ (d < c ∨ d = c) := by
  rw [UInt8.lt_iff_toNat_lt, UInt8.lt_iff_toNat_lt, ← UInt8.toNat_inj]
  have h1 : c.toNat < 255 := by
    have := UInt8.lt_iff_toNat_lt.mp hc; simpa using this
  have : (c + 1).toNat = c.toNat + 1 := by
    rw [UInt8.toNat_add]; simp; omega
  rw [this]; omega

theorem u8_not_lt_ff (c d : UInt8) (hc : ¬ c < 0xff) : ¬ c < d := by
  rw [UInt8.lt_iff_toNat_lt] at *
  have := d.toNat_lt
  simp at hc this ⊢; omega

/-- `k < succ x` iff `k < x` or `k` extends `x`; without a successor every `k` is one of the two. -/
theorem succ_facts (x : Bytes) :
    (∀ l, succBytes x = some l → ∀ k, (lexLt k l = true ↔ (lexLt k x = true ∨ x <+: k))) ∧
    (succBytes x = none → ∀ k, (lexLt k x = true ∨ x <+: k)) := by
  induction x with
  | nil =>
    refine ⟨fun l h => by simp [succBytes] at h, fun _ k => Or.inr (List.nil_prefix)⟩
  | cons c cs ih =>
    obtain ⟨ih1, ih2⟩ := ih
    constructor
    · intro l hl k
      simp only [succBytes] at hl
      cases hs : succBytes cs with
      | some l' =>
        rw [hs] at hl; simp only [Option.some.injEq] at hl; subst hl
        cases k with
        | nil => simp [lexLt_nil_cons]
        | cons d ds =>
          rw [lexLt_cons_cons, lexLt_cons_cons, List.cons_prefix_cons]
          rcases u8_tri d c with h | h | h
          · simp [h]
          · subst h; simp [u8_lt_irrefl]; exact ih1 l' hs ds
          · simp [h, u8_lt_asymm h]
            intro e; rw [e] at h; exact absurd h (u8_lt_irrefl _)
      | none =>
        rw [hs] at hl
        by_cases hc : c < 0xff
        · simp only [hc, if_true, Option.some.injEq] at hl; subst hl
          cases k with
          | nil => simp [lexLt_nil_cons]
          | cons d ds =>
            rw [lexLt_cons_cons, lexLt_cons_cons, List.cons_prefix_cons]
            rcases u8_tri d c with h | h | h
            · have : d < c + 1 := (u8_succ_lt c d hc).mpr (Or.inl h)
              simp [h, this]
            · subst h
              have : d < d + 1 := (u8_succ_lt d d hc).mpr (Or.inr rfl)
              simp [this, u8_lt_irrefl]
              exact ih2 hs ds
            · have hn : ¬ d < c + 1 := by
                rw [u8_succ_lt c d hc]; rintro (h' | h')
                · exact u8_lt_asymm h h'
                · rw [h'] at h; exact u8_lt_irrefl _ h
              have hne : ¬ c = d := by intro e; rw [e] at h; exact u8_lt_irrefl _ h
              simp [hn, h, u8_lt_asymm h, hne]
              intro _; cases ds <;> rfl
        · simp [hc] at hl
    · intro hn k
      simp only [succBytes] at hn
      cases hs : succBytes cs with
      | some l' => rw [hs] at hn; cases hn
      | none =>
        rw [hs] at hn
        by_cases hc : c < 0xff
        · simp [hc] at hn
        · cases k with
          | nil => exact Or.inl rfl
          | cons d ds =>
            rw [lexLt_cons_cons, List.cons_prefix_cons]
            rcases u8_tri d c with h | h | h
            · simp [h]
            · subst h; simp [u8_lt_irrefl]; exact ih2 hs ds
            · exact absurd h (u8_not_lt_ff c d hc)



theorem lexLe_of_prefix {p k : Bytes} (h : p <+: k) : lexLe p k = true := by
  obtain ⟨t, rfl⟩ := h
  have := lexLe_append_left p [] t
  rw [List.append_nil] at this
  rw [this]
  cases t <;> rfl

/-- between `p` and anything that extends `p`, every key extends `p`. -/
theorem prefix_of_between (p s k : Bytes) (h1 : lexLe p k = true) (h2 : lexLt k (p ++ s) = true) : p <+: k := by
  induction p generalizing k with
  | nil => exact List.nil_prefix
  | cons c cs ih =>
    cases k with
    | nil => simp [lexLe, lexLt] at h1
    | cons d ds =>
      simp only [lexLe, Bool.not_eq_true', List.cons_append] at h1 h2
      rw [lexLt_cons_cons] at h1 h2
      rcases u8_tri d c with h | h | h
      · simp [h] at h1
      · subst h
        simp [u8_lt_irrefl] at h1 h2
        rw [List.cons_prefix_cons]
        exact ⟨rfl, ih ds (by simp [lexLe, h1]) h2⟩
      · simp [h, u8_lt_asymm h] at h2

/-- `k < succ x` (or no successor) ⟺ `k < x` or `k` extends `x`. -/
def belowSucc (x k : Bytes) : Bool := match succBytes x with | none => true | some l => lexLt k l

theorem belowSucc_iff (x k : Bytes) : belowSucc x k = true ↔ (lexLt k x = true ∨ x <+: k) := by
  unfold belowSucc
  cases h : succBytes x with
  | none => simp; exact (succ_facts x).2 h k
  | some l => exact (succ_facts x).1 l h k

/-- membership in the key range `[Start, Limit)` that seekRangeToPrefixes hands to the disk backends. -/
def inDisk (rng : SeekRange) (k : Key) : Bool :=
  lexLe (seekRangeToPrefixes rng).1 k &&
    (match (seekRangeToPrefixes rng).2 with | none => true | some l => lexLt k l)

theorem inDisk_iff (rng : SeekRange) (k : Key) : inDisk rng k = true ↔ inRange rng k := by
  unfold inDisk inRange seekRangeToPrefixes
  cases hb : rng.bw with
  | false =>
    simp only [Bool.not_false, if_true, Bool.false_eq_true, if_false, Bool.and_eq_true]
    have hlim : (match succBytes rng.pfx with | none => true | some l => lexLt k l) = belowSucc rng.pfx k := rfl
    rw [hlim, belowSucc_iff]
    constructor
    · rintro ⟨h1, h2⟩
      have hpk : lexLe rng.pfx k = true := lexLe_trans (lexLe_of_prefix (List.prefix_append _ _)) h1
      have hp : rng.pfx <+: k := by
        rcases h2 with h | h
        · simp [lexLe, h] at hpk
        · exact h
      exact ⟨hp, Or.inr h1⟩
    · rintro ⟨hp, h⟩
      refine ⟨?_, Or.inr hp⟩
      rcases h with h | h
      · rw [h, List.append_nil]; exact lexLe_of_prefix hp
      · exact h
  | true =>
    simp only [Bool.not_true, Bool.false_eq_true, if_false, if_true, Bool.and_eq_true]
    have hlim : (match succBytes (rng.pfx ++ rng.start) with | none => true | some l => lexLt k l)
        = belowSucc (rng.pfx ++ rng.start) k := rfl
    rw [hlim, belowSucc_iff]
    constructor
    · rintro ⟨h1, h2⟩
      have hp : rng.pfx <+: k := by
        rcases h2 with h | h
        · exact prefix_of_between _ _ _ h1 h
        · exact List.IsPrefix.trans (List.prefix_append _ _) h
      refine ⟨hp, Or.inr ?_⟩
      rcases h2 with h | h
      · left; simp [lexLe, lexLt_asymm h]
      · right; exact h
    · rintro ⟨hp, h⟩
      refine ⟨lexLe_of_prefix hp, ?_⟩
      rcases h with h | h | h
      · right; rw [h, List.append_nil]; exact hp
      · rcases (lexLe_iff _ _).mp h with h' | h'
        · exact Or.inl h'
        · right; rw [h']; exact List.prefix_refl _
      · exact Or.inr h

/-! ### LevelDB -/

theorem mem_iff_lookup (db : List KV) (h : DbWF db) (k : Key) (v : Val) :
    (k, v) ∈ db ↔ List.lookup k db = some v := by
  induction db with
  | nil => simp
  | cons e m ih =>
    unfold DbWF at h
    simp only [List.map_cons, List.nodup_cons] at h
    rw [lookup_cons, List.mem_cons]
    by_cases hk : k = e.1
    · subst hk
      simp only [if_true, Option.some.injEq]
      constructor
      · rintro (h1 | h1)
        · rw [← h1]
        · exact absurd (List.mem_map.mpr ⟨_, h1, rfl⟩) h.1
      · intro h1; left; rw [← h1]
    · simp only [hk, if_false]
      rw [← ih h.2]
      constructor
      · rintro (h1 | h1)
        · rw [← h1] at hk; simp at hk
        · exact h1
      · exact Or.inr

theorem levelSeek_spec (db : List KV) (h : DbWF db) (rng : SeekRange) :
    IsSpecSeek (Store.level db).flatten rng (levelSeek db rng) := by
  have heq : levelSeek db rng = (db.filter (fun e => inDisk rng e.1)).mergeSort (leDir rng.bw) := rfl
  rw [heq]
  refine ⟨sorted_mergeSort rng.bw _ (DbWF_filter db _ h), ?_⟩
  intro q w
  rw [mem_mergeSort, List.mem_filter, mem_iff_lookup db h, inDisk_iff]
  rfl

end NeoModel.Store
