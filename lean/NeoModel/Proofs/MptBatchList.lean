/-
Helper lemmas for C10: list facts about batches (grouping by first nibble, common prefixes, distinct keys).
-/
import NeoModel.Proofs.MptWF
set_option linter.unusedSimpArgs false
namespace NeoModel.Mpt

/-! ### list facts about batches -/

theorem lookup_sub (c : Nib) (kv : Batch) (r : Path) : (sub c kv).lookup r = kv.lookup (c :: r) := by
  induction kv with
  | nil => simp [sub]
  | cons e kv ih =>
    obtain ⟨k, v⟩ := e
    cases k with
    | nil =>
      have : sub c (([], v) :: kv) = sub c kv := by simp [sub]
      rw [this, ih]; simp [List.lookup]
    | cons c' t =>
      by_cases hc : c' = c
      · subst hc
        have : sub c' ((c' :: t, v) :: kv) = (t, v) :: sub c' kv := by simp [sub]
        rw [this]
        simp only [List.lookup]
        by_cases hr : r = t
        · subst hr; simp
        · have h1 : (r == t) = false := by simpa using hr
          have h2 : ((c' :: r) == (c' :: t)) = false := by simpa using hr
          simp [h1, h2, ih]
      · have : sub c ((c' :: t, v) :: kv) = sub c kv := by simp [sub, hc]
        rw [this, ih]
        have h2 : ((c :: r) == (c' :: t)) = false := by
          simp; intro e; exact absurd e.symm hc
        simp [List.lookup, h2]

/-- every key of the batch starts with `L`. -/
def AllPre (L : Path) (kv : Batch) : Prop := ∀ e ∈ kv, L <+: e.1

theorem lookup_stripN {L : Path} {kv : Batch} (h : AllPre L kv) (r : Path) :
    (stripN L.length kv).lookup r = kv.lookup (L ++ r) := by
  induction kv with
  | nil => simp [stripN]
  | cons e kv ih =>
    obtain ⟨k, v⟩ := e
    obtain ⟨t, ht⟩ := h (k, v) (by simp)
    simp only at ht
    subst ht
    have ih' := ih (fun e he => h e (by simp [he]))
    simp only [stripN, List.map_cons, List.drop_left, List.lookup] at ih' ⊢
    by_cases hr : r = t
    · subst hr; simp
    · have h1 : (r == t) = false := by simpa using hr
      have h2 : ((L ++ r) == (L ++ t)) = false := by simpa using hr
      simp only [h1, h2]
      exact ih'

theorem lookup_not_pre {L : Path} {kv : Batch} (h : AllPre L kv) (q : Path) (hq : stripPre L q = none) :
    kv.lookup q = none := by
  induction kv with
  | nil => simp
  | cons e kv ih =>
    obtain ⟨k, v⟩ := e
    obtain ⟨t, ht⟩ := h (k, v) (by simp)
    simp only at ht
    subst ht
    have : (q == L ++ t) = false := by
      simp; intro e; exact stripPre_eq_none.mp hq t e
    simp only [List.lookup, this]
    exact ih (fun e he => h e (by simp [he]))

theorem lcp_prefix_left (a b : Path) : lcp a b <+: a := by
  have := (lcpSplit_spec a b).1
  exact ⟨_, this.symm⟩

theorem lcp_prefix_right (a b : Path) : lcp a b <+: b := by
  have := (lcpSplit_spec a b).2.1
  exact ⟨_, this.symm⟩

theorem foldl_lcp_prefix (rest : Batch) (init : Path) :
    (rest.foldl (fun p z => lcp p z.1) init) <+: init ∧
    ∀ e ∈ rest, (rest.foldl (fun p z => lcp p z.1) init) <+: e.1 := by
  induction rest generalizing init with
  | nil => simp
  | cons z rest ih =>
    simp only [List.foldl_cons]
    obtain ⟨h1, h2⟩ := ih (lcp init z.1)
    refine ⟨h1.trans (lcp_prefix_left _ _), ?_⟩
    intro e he
    simp only [List.mem_cons] at he
    cases he with
    | inl h => subst h; exact h1.trans (lcp_prefix_right _ _)
    | inr h => exact h2 e h

theorem lcpMany_allPre (kv : Batch) : AllPre (lcpMany kv) kv := by
  cases kv with
  | nil => intro e he; simp at he
  | cons x rest =>
    obtain ⟨h1, h2⟩ := foldl_lcp_prefix rest x.1
    intro e he
    simp only [List.mem_cons] at he
    cases he with
    | inl h => subst h; exact h1
    | inr h => exact h2 e h

theorem allPre_of_prefix {L L' : Path} {kv : Batch} (h : AllPre L kv) (hp : L' <+: L) : AllPre L' kv :=
  fun e he => hp.trans (h e he)

theorem stripN_ne_nil {n : Nat} {kv : Batch} (h : kv ≠ []) : stripN n kv ≠ [] := by
  cases kv with
  | nil => exact absurd rfl h
  | cons e kv => simp [stripN]

/-! ### distinct keys -/

theorem distinct_sub (c : Nib) {kv : Batch} (h : DistinctKeys kv) : DistinctKeys (sub c kv) := by
  unfold DistinctKeys at *
  induction kv with
  | nil => simp [sub]
  | cons e kv ih =>
    obtain ⟨k, v⟩ := e
    simp only [List.map_cons, List.nodup_cons] at h
    have ih' := ih h.2
    cases k with
    | nil =>
      have : sub c (([], v) :: kv) = sub c kv := by simp [sub]
      rw [this]; exact ih'
    | cons c' t =>
      by_cases hc : c' = c
      · subst hc
        have : sub c' ((c' :: t, v) :: kv) = (t, v) :: sub c' kv := by simp [sub]
        rw [this]
        simp only [List.map_cons, List.nodup_cons]
        refine ⟨?_, ih'⟩
        intro hm
        apply h.1
        simp only [List.mem_map] at hm ⊢
        obtain ⟨e', he', hk⟩ := hm
        simp only [sub, List.mem_filterMap] at he'
        obtain ⟨e0, he0, hf⟩ := he'
        refine ⟨e0, he0, ?_⟩
        obtain ⟨k0, v0⟩ := e0
        cases k0 with
        | nil => simp at hf
        | cons a t0 =>
          by_cases ha : a = c'
          · subst ha; simp at hf; subst hf; simp at hk; simp [hk]
          · simp [ha] at hf
      · have : sub c ((c' :: t, v) :: kv) = sub c kv := by simp [sub, hc]
        rw [this]; exact ih'

theorem distinct_stripN {L : Path} {kv : Batch} (hp : AllPre L kv) (h : DistinctKeys kv) :
    DistinctKeys (stripN L.length kv) := by
  unfold DistinctKeys at *
  induction kv with
  | nil => simp [stripN]
  | cons e kv ih =>
    obtain ⟨k, v⟩ := e
    simp only [List.map_cons, List.nodup_cons] at h
    have hp' : AllPre L kv := fun e he => hp e (by simp [he])
    have ih' := ih hp' h.2
    obtain ⟨t, ht⟩ := hp (k, v) (by simp)
    simp only at ht
    subst ht
    simp only [stripN, List.map_cons, List.drop_left, List.nodup_cons, List.map_map] at ih' ⊢
    refine ⟨?_, ih'⟩
    intro hm
    apply h.1
    simp only [List.mem_map, Function.comp] at hm ⊢
    obtain ⟨e', he', hk⟩ := hm
    refine ⟨e', he', ?_⟩
    obtain ⟨t', ht'⟩ := hp' e' he'
    rw [← ht'] at hk ⊢
    simp at hk
    rw [hk]

theorem distinct_tail {e : KV} {kv : Batch} (h : DistinctKeys (e :: kv)) : DistinctKeys kv := by
  unfold DistinctKeys at *; simp only [List.map_cons, List.nodup_cons] at h; exact h.2

theorem lookup_nil_of_distinct {v : Option Val} {kv : Batch} (h : DistinctKeys (([], v) :: kv)) :
    kv.lookup [] = none := by
  unfold DistinctKeys at h
  simp only [List.map_cons, List.nodup_cons, List.mem_map] at h
  induction kv with
  | nil => simp
  | cons e kv ih =>
    obtain ⟨k, x⟩ := e
    cases k with
    | nil => exact absurd ⟨([], x), by simp, rfl⟩ h.1
    | cons a t =>
      simp only [List.lookup]
      have : (([] : Path) == a :: t) = false := by simp
      rw [this]
      apply ih
      refine ⟨?_, ?_⟩
      · intro ⟨e', he', hk⟩; exact h.1 ⟨e', by simp [he'], hk⟩
      · have := h.2; simp only [List.map_cons, List.nodup_cons] at this; exact this.2

end NeoModel.Mpt
