/-
Helper lemmas for C18: the image of `CreateMultiSigRedeemScript` inside the set of scripts
`ParseMultiSigContract` accepts (canonical count pushes), uniqueness of the decomposition,
`ParseSignatureContract` characterised, and the builder with its sort.
-/
import NeoModel.Proofs.CodecMsParse
import NeoModel.Proofs.CodecMsSort
namespace NeoModel.Codec

/-- the instruction `emit.Int` writes for a count `v` in 1..1024. -/
def canonCount (v : Nat) : Bytes :=
  if v < 16 then [UInt8.ofNat (16 + v)] else if v ≤ 127 then countEnc 0 v else countEnc 1 v

theorem canonCount_mem (v : Nat) : canonCount v ∈ countEncodings v := by
  unfold canonCount
  by_cases h1 : v < 16
  · simp only [h1, if_true]; exact mem_countEncodings_push v (by omega)
  · by_cases h2 : v ≤ 127
    · simp only [h1, h2, if_true, if_false]; exact mem_countEncodings_enc 0 v (by omega) (fun _ => h2)
    · simp only [h1, h2, if_false]; exact mem_countEncodings_enc 1 v (by omega) (by omega)

theorem bitLen_small (v : Nat) (h1 : 16 ≤ v) (h2 : v ≤ 127) : bitLen v / 8 = 0 := by
  have : bitLen v ≤ 7 := (bitLen_le_iff v 7).mpr (by omega)
  omega

theorem bitLen_mid (v : Nat) (h1 : 128 ≤ v) (h2 : v ≤ 1024) : bitLen v / 8 = 1 := by
  have hu : bitLen v ≤ 11 := (bitLen_le_iff v 11).mpr (by omega)
  have hl : ¬ (bitLen v ≤ 7) := by rw [bitLen_le_iff]; omega
  omega

theorem emitInt_count (v : Nat) (h1 : 1 ≤ v) (h2 : v ≤ 1024) : emitInt (v : Int) = some (canonCount v) := by
  unfold canonCount
  by_cases hs : v < 16
  · simp only [hs, if_true]
    unfold emitInt smallInt
    have c1 : ¬ ((v : Int) = -1) := by omega
    have c2 : (0 : Int) ≤ (v : Int) ∧ (v : Int) < 16 := by omega
    simp [c1, c2]
  · simp only [hs, if_false]
    have hv0 : 0 < v := by omega
    have hsmall : smallInt (v : Int) = none := by
      unfold smallInt
      have c1 : ¬ ((v : Int) = -1) := by omega
      have c2 : ¬ ((0 : Int) ≤ (v : Int) ∧ (v : Int) < 16) := by omega
      simp only [c1, c2, if_false]
    have hcis : checkIntegerSize (v : Int) = true := (checkIntegerSize_iff _).mpr (by constructor <;> omega)
    unfold emitInt
    rw [hsmall]
    unfold emitBigIntAux
    simp only [Bool.false_and, Bool.false_eq_true, if_false, hcis, Bool.not_true, toBytes_pos v hv0]
    by_cases hm : v ≤ 127
    · simp only [hm, if_true, bitLen_small v (by omega) hm]
      simp [leBytes, countEnc, padRight, bitLen]
    · simp only [hm, if_false, bitLen_mid v (by omega) h2]
      have hb1 : bitLen 1 = 1 := by decide
      simp [leBytes, countEnc, padRight, hb1]

theorem emitBytes_pd1 (k : Bytes) (hk : k.length ≤ 255) : emitBytes k = pd1 k := by
  unfold emitBytes pd1
  have : k.length < 0x100 := by omega
  simp [this]

theorem keysCode_eq_emit (ks : List Bytes) (hk : ∀ k ∈ ks, k.length ≤ 255) : (ks.map emitBytes).flatten = keysCode ks := by
  unfold keysCode
  congr 1
  apply List.map_congr_left
  intro k hk'
  exact emitBytes_pd1 k (hk k hk')

/-- the two count pushes around the key pushes and the CheckMultisig syscall. -/
def msScript (a : Bytes) (pubs : List Bytes) (c : Bytes) : Bytes :=
  a ++ keysCode pubs ++ c ++ opSYSCALL :: multisigID

theorem createMultiSig_eq (m : Nat) (keys : List Bytes) (h1 : 1 ≤ m) (h2 : m ≤ keys.length) (h3 : keys.length ≤ 1024)
    (hk : ∀ k ∈ keys, k.length ≤ 255) :
    createMultiSig (m : Int) keys = some (msScript (canonCount m) keys (canonCount keys.length)) := by
  unfold createMultiSig msScript
  have c1 : ¬ ((m : Int) < 1) := by omega
  have c2 : ¬ ((keys.length : Int) < (m : Int)) := by omega
  have c3 : ¬ ((1024 : Int) < (m : Int)) := by omega
  simp only [c1, c2, c3, if_false, emitInt_count m h1 (by omega), emitInt_count keys.length (by omega) h3,
    keysCode_eq_emit keys hk]

/-- an encoding of a count is determined by its first byte. -/
def encOfHead (o : UInt8) (v : Nat) : Bytes := if o.toNat ≤ 5 then countEnc o.toNat v else [o]

theorem countEnc_by_head (v : Nat) (a : Bytes) (ha : a ∈ countEncodings v) (hv : 1 ≤ v) :
    ∃ o, a.head? = some o ∧ a = encOfHead o v := by
  have key : ∀ p, p ≤ 5 → ∃ o, (countEnc p v).head? = some o ∧ countEnc p v = encOfHead o v := by
    intro p hp
    have hop : (UInt8.ofNat p).toNat = p := u8ofNat_toNat p (by omega)
    refine ⟨UInt8.ofNat p, by simp [countEnc], ?_⟩
    simp [encOfHead, hop, hp]
  simp only [countEncodings, List.mem_append, List.mem_cons, List.not_mem_nil, or_false] at ha
  rcases ha with (ha | ha) | ha
  · by_cases c : v ≤ 16
    · simp only [c, if_true, List.mem_cons, List.not_mem_nil, or_false] at ha
      subst ha
      have hop : (UInt8.ofNat (16 + v)).toNat = 16 + v := u8ofNat_toNat _ (by omega)
      refine ⟨UInt8.ofNat (16 + v), rfl, ?_⟩
      have : ¬ (16 + v ≤ 5) := by omega
      generalize UInt8.ofNat (16 + v) = o at hop
      simp only [encOfHead, hop, this, if_false]
    · simp [c] at ha
  · by_cases c : v ≤ 127
    · simp only [c, if_true, List.mem_cons, List.not_mem_nil, or_false] at ha
      subst ha; exact key 0 (by omega)
    · simp [c] at ha
  · rcases ha with rfl | rfl | rfl | rfl | rfl
    · exact key 1 (by omega)
    · exact key 2 (by omega)
    · exact key 3 (by omega)
    · exact key 4 (by omega)
    · exact key 5 (by omega)

theorem countEnc_prefix_unique (v : Nat) (hv : 1 ≤ v) (a a' x x' : Bytes) (ha : a ∈ countEncodings v) (ha' : a' ∈ countEncodings v)
    (h : a ++ x = a' ++ x') : a = a' := by
  obtain ⟨o, ho, he⟩ := countEnc_by_head v a ha hv
  obtain ⟨o', ho', he'⟩ := countEnc_by_head v a' ha' hv
  have h1 : (a ++ x).head? = some o := by
    cases a with
    | nil => simp at ho
    | cons y t => simpa using ho
  have h2 : (a' ++ x').head? = some o' := by
    cases a' with
    | nil => simp at ho'
    | cons y t => simpa using ho'
  rw [h] at h1
  rw [h1] at h2
  injection h2 with h2
  rw [he, he', h2]

/-- the decomposition of an accepted script into its two count pushes is unique. -/
theorem msScript_unique (m : Nat) (pubs : List Bytes) (hm : 1 ≤ m) (hn : 1 ≤ pubs.length) (a a' c c' : Bytes)
    (ha : a ∈ countEncodings m) (ha' : a' ∈ countEncodings m)
    (hc : c ∈ countEncodings pubs.length) (hc' : c' ∈ countEncodings pubs.length)
    (h : msScript a pubs c = msScript a' pubs c') : a = a' ∧ c = c' := by
  unfold msScript at h
  simp only [List.append_assoc] at h
  have e1 := countEnc_prefix_unique m hm a a' _ _ ha ha' h
  subst e1
  have h' := List.append_cancel_left (List.append_cancel_left h)
  exact ⟨rfl, countEnc_prefix_unique _ hn c c' _ _ hc hc' h'⟩

theorem countEncodings_length (v : Nat) :
    (countEncodings v).length = if v ≤ 16 then 7 else if v ≤ 127 then 6 else 5 := by
  unfold countEncodings
  by_cases h1 : v ≤ 16
  · have : v ≤ 127 := by omega
    simp [h1, this]
  · by_cases h2 : v ≤ 127 <;> simp [h1, h2]

theorem parseSig_shape (s k : Bytes) (h : parseSigContract s = some k) : k.length = 33 ∧ s = sigScript k := by
  unfold parseSigContract at h
  by_cases c1 : (s.length != 40) = true
  · simp [c1] at h
  simp only [c1, Bool.false_eq_true, if_false] at h
  have hlen : s.length = 40 := by simpa using c1
  split at h
  · rename_i hc
    simp only [Bool.and_eq_true, beq_iff_eq] at hc
    obtain ⟨⟨⟨h0, h1⟩, h35⟩, h36⟩ := hc
    injection h with h
    have hk : k.length = 33 := by rw [← h, List.length_take, List.length_drop]; omega
    refine ⟨hk, ?_⟩
    have e35 : s.drop 35 = s[35] :: s.drop 36 := List.drop_eq_getElem_cons (by omega)
    have g35 : s.getD 35 0 = s[35] := by simp [List.getD_eq_getElem?_getD, hlen]
    have e0 : s = s[0] :: s.drop 1 := by
      have := List.drop_eq_getElem_cons (l := s) (i := 0) (by omega); simpa using this
    have e1 : s.drop 1 = s[1] :: s.drop 2 := List.drop_eq_getElem_cons (by omega)
    have g0 : s.getD 0 0 = s[0] := by simp [List.getD_eq_getElem?_getD, hlen]
    have g1 : s.getD 1 0 = s[1] := by simp [List.getD_eq_getElem?_getD, hlen]
    have e2 : s.drop 2 = (s.drop 2).take 33 ++ s.drop 35 := by
      have := (List.take_append_drop 33 (s.drop 2)).symm
      rw [List.drop_drop] at this
      exact this
    unfold sigScript
    rw [hk]
    conv => lhs; rw [e0, e1, e2, h, e35, h36]
    rw [← g0, ← g1, ← g35, h0, h1, h35]
    rfl
  · cases h

theorem parseSig_iff' (s k : Bytes) : parseSigContract s = some k ↔ k.length = 33 ∧ s = sigScript k := by
  constructor
  · exact parseSig_shape s k
  · rintro ⟨hk, rfl⟩; exact parseSig_build k hk

/-! ### the builder with its sort -/

theorem pkBytes_length (k : PubKey) (h : k ≠ none) : (pkBytes k).length = 33 := by
  rcases k with _ | ⟨x, y⟩
  · exact absurd rfl h
  · simp [pkBytes, beBytes, leBytes_length]

theorem createMultiSigK_perm (m : Int) (ks ks' : List PubKey) (h : ks.Perm ks') :
    createMultiSigK m ks = createMultiSigK m ks' := by
  unfold createMultiSigK
  rw [sortKeys_perm_invariant ks ks' h, h.length_eq]

theorem parse_createK (m : Nat) (keys : List PubKey) (h1 : 1 ≤ m) (h2 : m ≤ keys.length) (h3 : keys.length ≤ 1024)
    (hinf : ∀ k ∈ keys, k ≠ none) :
    ∃ s, createMultiSigK (m : Int) keys = some s ∧ parseMultiSig s = some (m, (sortKeys keys).map pkBytes) := by
  have hl : ((sortKeys keys).map pkBytes).length = keys.length := by
    rw [List.length_map, (sortKeys_perm keys).length_eq]
  have hk : ∀ k ∈ (sortKeys keys).map pkBytes, k.length = 33 := by
    intro k hk
    obtain ⟨pk, hpk, rfl⟩ := List.mem_map.mp hk
    exact pkBytes_length pk (hinf pk ((sortKeys_perm keys).mem_iff.mp hpk))
  obtain ⟨s, hs, hp⟩ := parse_build m _ h1 (by omega) (by omega) hk
  refine ⟨s, ?_, hp⟩
  unfold createMultiSigK
  have c1 : ¬ ((m : Int) < 1) := by omega
  have c2 : ¬ ((keys.length : Int) < (m : Int)) := by omega
  have c3 : ¬ ((1024 : Int) < (m : Int)) := by omega
  simp only [c1, c2, c3, if_false, hs]

end NeoModel.Codec
