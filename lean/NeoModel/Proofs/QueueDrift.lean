/-
C20 (a): `len` after the fixes 3d50aab (Put counts an element only when its slot was empty, the clean-up loop of
Run removes what other writers applied) and 6d1ab5f (Run's second lock section counts down only when the slot
still holds the applied element): for EVERY interleaving — stale heights, duplicates, external additions,
Discard — `len` IS the number of occupied slots, so `LastQueued` reports the true free capacity.
-/
import NeoModel.Proofs.QueueNoExt
namespace NeoModel.Queue

/-- occupied slots among `0 .. n-1` -/
def occN (ring : Nat → Option Elem) : Nat → Nat
  | 0 => 0
  | n + 1 => occN ring n + (if (ring n).isSome then 1 else 0)

theorem occupied_eq (s : State) : occupied s = occN s.ring s.cap := by
  unfold occupied
  generalize s.cap = n
  induction n with
  | zero => rfl
  | succ n ih =>
    rw [List.range_succ, List.filter_append, List.length_append, ih]
    simp only [occN, List.filter_cons, List.filter_nil]
    split <;> simp

theorem occN_setSlot_ge (ring : Nat → Option Elem) (p : Nat) (v : Option Elem) (n : Nat) (h : n ≤ p) :
    occN (setSlot ring p v) n = occN ring n := by
  induction n with
  | zero => rfl
  | succ n ih =>
    simp only [occN]
    rw [ih (by omega), setSlot_other ring v (by omega : n ≠ p)]

theorem occN_setSlot (ring : Nat → Option Elem) (p : Nat) (v : Option Elem) (n : Nat) (h : p < n) :
    occN (setSlot ring p v) n + (if (ring p).isSome then 1 else 0) = occN ring n + (if v.isSome then 1 else 0) := by
  induction n with
  | zero => omega
  | succ n ih =>
    simp only [occN]
    by_cases e : p = n
    · subst e
      rw [occN_setSlot_ge ring p v p (Nat.le_refl _), setSlot_same]
      omega
    · rw [setSlot_other ring v (Ne.symm e)]
      have := ih (by omega)
      omega

theorem posOf_lt (cap i : Nat) (h : 0 < cap) : posOf cap i < cap := Nat.mod_lt _ h

theorem occN_none (n : Nat) : occN (fun _ => none) n = 0 := by
  induction n with
  | zero => rfl
  | succ n ih => simp [occN, ih]

/-- `len` is the number of occupied slots. -/
def NoOver (s : State) : Prop := s.len = (occN s.ring s.cap : Int)

theorem noOver_cleanup (cap : Nat) (hc : 0 < cap) (n i : Nat) (ring : Nat → Option Elem) (len : Int)
    (h : len = (occN ring cap : Int)) :
    (cleanup cap n i ring len).2 = (occN (cleanup cap n i ring len).1 cap : Int) := by
  induction n generalizing i ring len with
  | zero => simpa [cleanup] using h
  | succ n ih =>
    simp only [cleanup]
    split
    · rename_i x hx
      split
      · apply ih
        have hcount := occN_setSlot ring (posOf cap (i + 1)) none cap (posOf_lt _ _ hc)
        rw [hx] at hcount
        simp only [Option.isSome_some, if_true, Option.isSome_none, Bool.false_eq_true, if_false] at hcount
        omega
      · exact ih _ _ _ h
    · exact ih _ _ _ h

theorem noOver_apply (s : State) (a : Act) (hi : Inv s) (hx : NoOver s) : NoOver (apply s a) := by
  unfold NoOver at hx ⊢
  cases a with
  | adv => exact hx
  | notify => simp only [apply, notify]; split <;> exact hx
  | disc =>
    simp only [apply, discard]
    split
    · exact hx
    · simp [occN_none]
  | put e hr =>
    simp only [apply]
    rcases put_cases s e (min hr s.height) with h | h | ⟨_, _, _, _, h5⟩
    · rw [h]; exact hx
    · rw [h]; exact hx
    · rw [h5]
      have hcount := occN_setSlot s.ring (posOf s.cap e.idx) (some e) s.cap (posOf_lt _ _ hi.cap_pos)
      simp only [insert]
      cases hs : s.ring (posOf s.cap e.idx) with
      | none =>
        rw [hs] at hcount
        simp only [Option.isSome_none, Bool.false_eq_true, if_false, Option.isSome_some, if_true] at hcount ⊢
        omega
      | some old =>
        rw [hs] at hcount
        simp only [Option.isSome_some, if_true] at hcount ⊢
        omega
  | run =>
    simp only [apply, runStep]
    split
    · exact hx
    · unfold wake
      split
      · exact hx
      · split <;> exact hx
    · exact hx
    · simp only [lockSection]
      exact noOver_cleanup s.cap hi.cap_pos _ _ s.ring s.len hx
    · exact hx
    · rename_i b pos hpc
      have hpos : pos < s.cap := by
        have := (hi.pcB b pos (.inr hpc)).1
        rw [← this]; exact posOf_lt _ _ hi.cap_pos
      simp only [finish]
      by_cases hb : s.ring pos = some b
      · simp only [hb, if_true]
        have hcount := occN_setSlot s.ring pos none s.cap hpos
        rw [hb] at hcount
        simp only [Option.isSome_some, if_true, Option.isSome_none, Bool.false_eq_true, if_false] at hcount
        omega
      · simp only [hb, if_false]; exact hx
    · exact hx

theorem exec_cap (s : State) (as : List Act) : (exec s as).cap = s.cap := by
  induction as generalizing s with
  | nil => rfl
  | cons a r ih =>
    rw [exec, ih]
    cases a with
    | put e hr => exact (put_frame s e _).2.2.1
    | adv => rfl
    | disc => simp only [apply, discard]; split <;> rfl
    | notify => simp only [apply, notify]; split <;> rfl
    | run =>
      simp only [apply, runStep]; split <;> try rfl
      unfold wake; split
      · rfl
      · split <;> rfl

theorem noOver_exec (s : State) (as : List Act) (hi : Inv s) (hx : NoOver s) : NoOver (exec s as) := by
  induction as generalizing s with
  | nil => exact hx
  | cons a r ih => exact ih _ (inv_apply s a hi) (noOver_apply s a hi hx)

end NeoModel.Queue
