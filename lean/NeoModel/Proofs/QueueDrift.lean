/-
C20 (a): the schedule class of the finding `len-drift`. Without an external writer, without Discard and as long
as no producer gets an index past the window check that the chain has already passed (a stale height read
racing with the application of the same block), `len` is exact: whenever `Run` is not between `AddItem` and its
second lock section, `len` is the number of occupied slots, so `LastQueued` reports the true free capacity.
-/
import NeoModel.Proofs.QueueNoExt
namespace NeoModel.Queue

/-- occupied slots among `0 .. n-1` -/
def occN (ring : Nat → Option Elem) : Nat → Nat
  | 0 => 0
  | n + 1 => occN ring n + (if (ring n).isSome then 1 else 0)

theorem occupied_eq (s : State) : occupied s = occN s.ring s.cap := by
  unfold occupied
  generalize s.cap = n
  induction n with
  | zero => rfl
  | succ n ih =>
    rw [List.range_succ, List.filter_append, List.length_append, ih]
    simp only [occN, List.filter_cons, List.filter_nil]
    split <;> simp

theorem occN_setSlot_ge (ring : Nat → Option Elem) (p : Nat) (v : Option Elem) (n : Nat) (h : n ≤ p) :
    occN (setSlot ring p v) n = occN ring n := by
  induction n with
  | zero => rfl
  | succ n ih =>
    simp only [occN]
    rw [ih (by omega), setSlot_other ring v (by omega : n ≠ p)]

theorem occN_setSlot (ring : Nat → Option Elem) (p : Nat) (v : Option Elem) (n : Nat) (h : p < n) :
    occN (setSlot ring p v) n + (if (ring p).isSome then 1 else 0) = occN ring n + (if v.isSome then 1 else 0) := by
  induction n with
  | zero => omega
  | succ n ih =>
    simp only [occN]
    by_cases e : p = n
    · subst e
      rw [occN_setSlot_ge ring p v p (Nat.le_refl _), setSlot_same]
      omega
    · rw [setSlot_other ring v (Ne.symm e)]
      have := ih (by omega)
      omega

/-- No external writer, no Discard, and no producer whose stale height lets an index the chain has passed get
past the check `element.GetIndex() <= h` (queue.go:160). -/
def freshAct (s : State) : Act → Bool
  | .put e hr => decide (s.height < e.idx) || decide (e.idx ≤ min hr s.height)
  | .run => true
  | .adv => false
  | .disc => false

def freshPutsB : State → List Act → Bool
  | _, [] => true
  | s, a :: r => freshAct s a && freshPutsB (apply s a) r

def FreshPuts (s : State) (as : List Act) : Prop := freshPutsB s as = true

/-- what `len` counts beyond the occupied slots: the element `Run` has applied whose slot a producer has
re-used before `Run`'s second lock section -/
def extra (s : State) : Int :=
  match s.pc with
  | .added b pos => if s.ring pos = some b then 0 else 1
  | _ => 0

structure Exact (s : State) : Prop where
  len : s.len = (occN s.ring s.cap : Int) + extra s
  live : ∀ p x, s.ring p = some x → s.height < x.idx ∨ ∃ pos, s.pc = .added x pos
  hold : ∀ b pos, s.pc = .holding b pos → s.ring pos = some b
  addedLive : ∀ b pos, s.pc = .added b pos → s.height ≤ b.idx
  addedSlot : ∀ b pos, s.pc = .added b pos → s.ring pos = some b ∨ ∃ x, s.ring pos = some x ∧ b.idx + s.cap ≤ x.idx

theorem exact_init (cap h0 : Nat) : Exact (init cap h0) := by
  refine ⟨?_, fun p x h => by simp [init] at h, fun b pos h => by simp [init] at h,
    fun b pos h => by simp [init] at h, fun b pos h => by simp [init] at h⟩
  have : ∀ n, occN (fun _ => none) n = 0 := by
    intro n; induction n with
    | zero => rfl
    | succ n ih => simp [occN, ih]
  simp [init, extra, this]

theorem posOf_lt (cap i : Nat) (h : 0 < cap) : posOf cap i < cap := Nat.mod_lt _ h

theorem exact_insert (s : State) (e : Elem) (hi : Inv s) (hx : Exact s) (hlive : s.height < e.idx)
    (hwin : e.idx ≤ s.height + s.cap) (hk : keepsOld (s.ring (posOf s.cap e.idx)) e = false) :
    Exact (insert s e) := by
  have hp := posOf_lt s.cap e.idx hi.cap_pos
  have hcount := occN_setSlot s.ring (posOf s.cap e.idx) (some e) s.cap hp
  -- what the slot held
  have hold : s.ring (posOf s.cap e.idx) = none ∨
      ∃ b, s.ring (posOf s.cap e.idx) = some b ∧ s.pc = .added b (posOf s.cap e.idx) ∧ b.idx + s.cap ≤ e.idx := by
    cases hs : s.ring (posOf s.cap e.idx) with
    | none => exact .inl rfl
    | some old =>
      right
      rw [hs] at hk
      simp only [keepsOld, Bool.not_eq_false', decide_eq_true_eq] at hk
      have hslot := hi.slot _ _ hs
      have hge := mod_eq_lt_add (a := e.idx) (b := old.idx) (c := s.cap) (by simpa [posOf] using hslot.symm) hk
      rcases hx.live _ _ hs with h1 | ⟨pos, h1⟩
      · omega
      · have := (hi.pcB old pos (.inr h1)).1
        rw [hslot] at this
        exact ⟨old, rfl, by rw [this]; exact h1, hge⟩
  refine ⟨?_, ?_, ?_, ?_, ?_⟩
  · -- len
    simp only [insert, extra]
    rcases hold with hn | ⟨b, hb, hpc, hge⟩
    · rw [hn] at hcount
      have hl := hx.len
      simp only [extra] at hl
      cases hpc : s.pc with
      | added b pos =>
        simp only [hpc] at hl ⊢
        by_cases e1 : pos = posOf s.cap e.idx
        · subst e1
          -- an applied element's slot is never empty before the second lock section
          rcases hx.addedSlot b _ hpc with h2 | ⟨x, h2, _⟩ <;> rw [hn] at h2 <;> cases h2
        · have hso := setSlot_other s.ring (some e) e1
          simp only [hso]
          simp only [Option.isSome_none, Bool.false_eq_true, if_false, Option.isSome_some, if_true] at hcount
          split <;> split at hl <;> first | omega | contradiction
      | _ =>
        simp only [hpc] at hl ⊢
        simp only [Option.isSome_none, Bool.false_eq_true, if_false, Option.isSome_some, if_true] at hcount
        omega
    · rw [hb] at hcount
      simp only [Option.isSome_some, if_true] at hcount
      have hl := hx.len
      simp only [extra, hpc, hb, if_true] at hl
      simp only [hpc, setSlot_same]
      have hne : (some e : Option Elem) ≠ some b := by
        intro h; cases h; omega
      simp only [hne, if_false]
      omega
  · -- live
    intro p x hr
    simp only [insert, setSlot] at hr
    split at hr
    · cases hr; exact .inl hlive
    · rcases hx.live p x hr with h1 | ⟨pos, h1⟩
      · exact .inl h1
      · exact .inr ⟨pos, h1⟩
  · -- hold
    intro b pos hpc
    simp only [insert] at hpc
    have hb := hx.hold b pos hpc
    simp only [insert, setSlot]
    split
    · rename_i e1
      subst e1
      rcases hold with hn | ⟨b', _, hpc', _⟩
      · rw [hn] at hb; cases hb
      · rw [hpc] at hpc'; cases hpc'
    · exact hb
  · intro b pos hpc; exact hx.addedLive b pos hpc
  · intro b pos hpc
    simp only [insert] at hpc
    simp only [insert, setSlot]
    split
    · rename_i e1
      subst e1
      right
      refine ⟨e, rfl, ?_⟩
      rcases hold with hn | ⟨b', hb', hpc', hge⟩
      · rcases hx.addedSlot b _ hpc with h2 | ⟨x, h2, _⟩ <;> rw [hn] at h2 <;> cases h2
      · rw [hpc] at hpc'; cases hpc'; exact hge
    · exact hx.addedSlot b pos hpc

theorem exact_run (s : State) (hc : 2 ≤ s.cap) (hi : Inv s) (hx : Exact s) : Exact (runStep s) := by
  have hslot := hi.slot
  have hpcB := hi.pcB
  have hcp := hi.cap_pos
  obtain ⟨cap, ring, lastQ, len, height, lastHeight, pc, signal, discarded, log⟩ := s
  obtain ⟨hl, hlv, hhold, haL, haS⟩ := hx
  simp only at hc hslot hpcB hcp hl hlv hhold haL haS
  -- outside the `added` state every queued element is above the chain height
  have hlive : (∀ b pos, pc ≠ .added b pos) → ∀ p x, ring p = some x → height < x.idx := by
    intro hna p x h
    rcases hlv p x h with h1 | ⟨pos, h1⟩
    · exact h1
    · exact absurd h1 (hna x pos)
  cases pc with
  | init =>
    simp only [extra] at hl
    simp only [runStep, start]
    exact ⟨by simpa [extra] using hl, fun p x h => .inl (hlive (by simp) p x h),
      fun b pos h => by simp at h, fun b pos h => by simp at h, fun b pos h => by simp at h⟩
  | wait =>
    simp only [extra] at hl
    simp only [runStep, wake]
    split
    · exact ⟨by simpa [extra] using hl, fun p x h => .inl (hlive (by simp) p x h),
        fun b pos h => by simp at h, fun b pos h => by simp at h, fun b pos h => by simp at h⟩
    · split
      · exact ⟨by simpa [extra] using hl, fun p x h => .inl (hlive (by simp) p x h),
          fun b pos h => by simp at h, fun b pos h => by simp at h, fun b pos h => by simp at h⟩
      · exact ⟨by simpa [extra] using hl, hlv, hhold, haL, haS⟩
  | top =>
    simp only [extra] at hl
    simp only [runStep, readH]
    exact ⟨by simpa [extra] using hl, fun p x h => .inl (hlive (by simp) p x h),
      fun b pos h => by simp at h, fun b pos h => by simp at h, fun b pos h => by simp at h⟩
  | haveH h =>
    simp only [extra] at hl
    have hdead := cleanup_dead cap (h - lastHeight) lastHeight ring len hc hslot
    simp only [runStep, lockSection, hdead]
    cases hr : ring (posOf cap (h + 1)) with
    | none =>
      exact ⟨by simpa [extra] using hl, fun p x h => .inl (hlive (by simp) p x h),
        fun b pos h => by simp at h, fun b pos h => by simp at h, fun b pos h => by simp at h⟩
    | some b' =>
      refine ⟨by simpa [extra] using hl, fun p x h => .inl (hlive (by simp) p x h), ?_,
        fun b pos h => by simp at h, fun b pos h => by simp at h⟩
      intro b pos hp
      simp only [Pc.holding.injEq] at hp
      obtain ⟨rfl, rfl⟩ := hp
      exact hr
  | holding b pos =>
    simp only [extra] at hl
    have hb : ring pos = some b := hhold b pos rfl
    have hbl : height < b.idx := hlive (by simp) pos b hb
    simp only [runStep, addItem]
    refine ⟨by simpa [extra, hb] using hl, ?_, fun b' pos' h => by simp at h, ?_, ?_⟩
    · intro p x h
      simp only at h ⊢
      have h1 := hlive (by simp) p x h
      by_cases hacc : accepts height b = true
      · simp only [hacc, if_true]
        by_cases e1 : x.idx = height + 1
        · right
          have hbi : b.idx = height + 1 := by
            simp only [accepts, Bool.and_eq_true, beq_iff_eq] at hacc; exact hacc.2
          have hp1 := hslot p x h
          have hp2 := hslot pos b hb
          have : p = pos := by rw [← hp1, ← hp2, e1, hbi]
          subst this
          rw [hb] at h; cases h
          exact ⟨p, rfl⟩
        · left; omega
      · simp only [hacc, Bool.false_eq_true, if_false]; exact .inl h1
    · intro b' pos' h
      simp only [Pc.added.injEq] at h
      obtain ⟨rfl, rfl⟩ := h
      simp only
      split
      · rename_i hacc
        simp only [accepts, Bool.and_eq_true, beq_iff_eq] at hacc
        omega
      · omega
    · intro b' pos' h
      simp only [Pc.added.injEq] at h
      obtain ⟨rfl, rfl⟩ := h
      exact .inl hb
  | added b pos =>
    simp only [extra] at hl
    have hpos : pos < cap := by
      have := (hpcB b pos (.inr rfl)).1
      rw [← this]; exact posOf_lt _ _ hcp
    simp only [runStep, finish]
    by_cases hb : ring pos = some b
    · simp only [hb, if_true] at hl ⊢
      have hcount := occN_setSlot ring pos none cap hpos
      rw [hb] at hcount
      simp only [Option.isSome_some, if_true, Option.isSome_none, Bool.false_eq_true, if_false] at hcount
      refine ⟨by simp only [extra]; omega, ?_, fun b' pos' h => by simp at h, fun b' pos' h => by simp at h,
        fun b' pos' h => by simp at h⟩
      intro p x h
      simp only [setSlot] at h
      split at h
      · cases h
      · rename_i hne
        rcases hlv p x h with h1 | ⟨p', h1⟩
        · exact .inl h1
        · simp only [Pc.added.injEq] at h1
          obtain ⟨rfl, rfl⟩ := h1
          have := hslot p b h
          have h2 := hslot _ _ hb
          exact absurd (this.symm.trans h2) hne
    · simp only [hb, if_false] at hl ⊢
      refine ⟨by simp only [extra]; omega, ?_, fun b' pos' h => by simp at h, fun b' pos' h => by simp at h,
        fun b' pos' h => by simp at h⟩
      intro p x h
      rcases hlv p x h with h1 | ⟨p', h1⟩
      · exact .inl h1
      · simp only [Pc.added.injEq] at h1
        obtain ⟨rfl, rfl⟩ := h1
        have h2 := (hpcB b pos (.inr rfl)).1
        have := hslot p b h
        rw [h2] at this
        subst this
        exact absurd h hb
  | done => exact ⟨hl, hlv, hhold, haL, haS⟩

theorem exact_apply (s : State) (a : Act) (hc : 2 ≤ s.cap) (hi : Inv s) (hx : Exact s)
    (hf : freshAct s a = true) : Exact (apply s a) := by
  cases a with
  | adv => simp [freshAct] at hf
  | disc => simp [freshAct] at hf
  | run => exact exact_run s hc hi hx
  | put e hr =>
    simp only [apply]
    rcases put_cases s e (min hr s.height) with h | h | ⟨_, h2, h3, h4, h5⟩
    · rw [h]; exact hx
    · rw [h]; exact ⟨hx.len, hx.live, hx.hold, hx.addedLive, hx.addedSlot⟩
    · rw [h5]
      have hlive : s.height < e.idx := by
        simp only [freshAct, Bool.or_eq_true, decide_eq_true_eq] at hf
        rcases hf with h | h
        · exact h
        · omega
      exact exact_insert s e hi hx hlive (by have := Nat.min_le_right hr s.height; omega) h4

theorem exec_cap (s : State) (as : List Act) : (exec s as).cap = s.cap := by
  induction as generalizing s with
  | nil => rfl
  | cons a r ih =>
    rw [exec, ih]
    cases a with
    | put e hr => exact (put_frame s e _).2.2.1
    | adv => rfl
    | disc => simp only [apply, discard]; split <;> rfl
    | run =>
      simp only [apply, runStep]; split <;> try rfl
      unfold wake; split
      · rfl
      · split <;> rfl

theorem exact_exec (s : State) (as : List Act) (hc : 2 ≤ s.cap) (hi : Inv s) (hx : Exact s)
    (hf : FreshPuts s as) : Exact (exec s as) := by
  induction as generalizing s with
  | nil => exact hx
  | cons a r ih =>
    unfold FreshPuts at hf
    simp only [freshPutsB, Bool.and_eq_true] at hf
    have hcap : (apply s a).cap = s.cap := exec_cap s [a]
    exact ih _ (by rw [hcap]; exact hc) (inv_apply s a hi) (exact_apply s a hc hi hx hf.1) hf.2

end NeoModel.Queue
