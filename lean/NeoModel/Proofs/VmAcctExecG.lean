/-
C12 proofs, part 5j: APPEND and SETITEM in general (a Struct item is cloned first).
-/
import NeoModel.Proofs.VmAcctClone
namespace NeoModel.VmAcct

variable {rest : Nat → Nat} {n : Nat}

theorem cloneIfStruct_spec (w : W) (x x' : Item) (isS : Bool) (w' : W) (h : w.cloneIfStruct x = some (x', isS, w'))
    (hw : HeapWf w.c.heap) (hx : WfItem w.c.heap x) :
    CloneExt w.c.heap w'.c.heap ∧ w'.st = w.st ∧ w'.c.refs = w.c.refs ∧ WfItem w'.c.heap x' ∧
      (isS = false → x' = x ∧ w' = w) := by
  unfold W.cloneIfStruct at h
  cases x with
  | str id =>
    simp only at h
    cases hc : cloneStruct cloneFuel w.c.heap id with
    | none => simp [hc] at h
    | some p =>
      obtain ⟨h1, id'⟩ := p
      simp only [hc, Option.some.injEq, Prod.mk.injEq] at h
      obtain ⟨rfl, rfl, rfl⟩ := h
      obtain ⟨e1, hid⟩ := (clone_spec cloneFuel).1 w.c.heap id h1 id' hc hw
      refine ⟨e1, rfl, rfl, ?_, fun hf => by cases hf⟩
      intro d hd
      simp only [Item.cid, Option.some.injEq] at hd
      subst hd; exact hid
  | prim =>
    simp only [Option.some.injEq, Prod.mk.injEq] at h
    obtain ⟨rfl, rfl, rfl⟩ := h
    exact ⟨CloneExt.refl _, rfl, rfl, hx, fun _ => ⟨rfl, rfl⟩⟩
  | arr a =>
    simp only [Option.some.injEq, Prod.mk.injEq] at h
    obtain ⟨rfl, rfl, rfl⟩ := h
    exact ⟨CloneExt.refl _, rfl, rfl, hx, fun _ => ⟨rfl, rfl⟩⟩
  | map a =>
    simp only [Option.some.injEq, Prod.mk.injEq] at h
    obtain ⟨rfl, rfl, rfl⟩ := h
    exact ⟨CloneExt.refl _, rfl, rfl, hx, fun _ => ⟨rfl, rfl⟩⟩

/-- the working pair after `cloneIfStruct` satisfies the same invariant -/
theorem clone_invW {w w' : W} {f : Nat → Nat} {m : Nat} (he : CloneExt w.c.heap w'.c.heap) (hst : w'.st = w.st) (hr : w'.c.refs = w.c.refs)
    (inv : InvC w.c f m) : InvC w'.c f m := by
  have := he.inv inv
  have e : w'.c = { w.c with heap := w'.c.heap } := by
    cases w' with
    | mk c st => cases c with
      | mk hp rf => simp only at hr ⊢; rw [hr]
  rw [e]; exact this

theorem append_inv' {w w' : W} (inv : InvW w rest n) (h : execS .append w = some (.ok w')) : InvW w' rest n := by
  simp only [execS] at h
  cases hp : w.pop with
  | none => simp [hp] at h
  | some r =>
    obtain ⟨item, w1⟩ := r
    simp only [hp] at h
    obtain ⟨i1, s1, hv1, hst⟩ := pop_inv inv hp
    cases hp2 : w1.pop with
    | none => simp [hp2] at h
    | some r2 =>
      obtain ⟨arr, w2⟩ := r2
      simp only [hp2] at h
      obtain ⟨i2, s2, _, _⟩ := pop_inv i1 hp2
      have hv2 : WfItem w2.c.heap item := wfItem_of_len hv1 (by rw [s2.1]; exact Nat.le_refl _)
      cases hcl : w2.cloneIfStruct item with
      | none => simp [hcl] at h
      | some p =>
        obtain ⟨val, isS, w3⟩ := p
        simp only [hcl] at h
        obtain ⟨e3, hst3, hr3, hval, _⟩ := cloneIfStruct_spec w2 item val isS w3 hcl i2.wf hv2
        have i3 : InvW w3 rest n := by
          have := clone_invW e3 hst3 hr3 i2
          show InvC w3.c (fun id => cnt id w3.st + rest id) (w3.st.length + n)
          rw [hst3]; exact this
        cases arr with
        | prim => simp at h
        | map _ => simp at h
        | arr id =>
          simp only [W.setHeap, okW, Option.some.injEq, Outcome.ok.injEq] at h
          rw [← h]
          have := append_core id val hval i3
          by_cases hr : rcOf w3.c.heap id = 0 <;> simp only [hr, ne_eq, not_true_eq_false, not_false_eq_true, if_true, if_false] at this ⊢ <;> exact this
        | str id =>
          simp only [W.setHeap, okW, Option.some.injEq, Outcome.ok.injEq] at h
          rw [← h]
          have := append_core id val hval i3
          by_cases hr : rcOf w3.c.heap id = 0 <;> simp only [hr, ne_eq, not_true_eq_false, not_false_eq_true, if_true, if_false] at this ⊢ <;> exact this

theorem setitem_inv' {w : W} (i : Int) (inv : InvW w rest n)
    (hkey : ∀ a k id r, w.st = a :: k :: .map id :: r → k = .prim) :
    ∀ out, execS (.setitem i) w = some out → PostOut w.c.heap rest n out := by
  intro out h
  simp only [execS] at h
  cases hp0 : w.popNoRef with
  | none => simp [hp0] at h
  | some r0 =>
    obtain ⟨item, w0⟩ := r0
    simp only [hp0] at h
    obtain ⟨i0, hc0, hst0⟩ := popNoRef_inv inv hp0
    have hitem0 : WfItem w0.c.heap item := by
      intro d hd
      exact i0.valid (d := d) (by simp [cnt_cons, hd]; omega)
    cases hcl : w0.cloneIfStruct item with
    | none => simp [hcl] at h
    | some p =>
      obtain ⟨cloned, isS, w1⟩ := p
      simp only [hcl] at h
      obtain ⟨e1, hst1, hr1, hval, hns⟩ := cloneIfStruct_spec w0 item cloned isS w1 hcl i0.wf hitem0
      have i1 : InvW w1 (fun j => rest j + cnt j [item]) (n + 1) := by
        have := clone_invW e1 hst1 hr1 i0
        show InvC w1.c (fun id => cnt id w1.st + (rest id + cnt id [item])) (w1.st.length + (n + 1))
        rw [hst1]; exact this
      have hacy1 : Acyclic w.c.heap → Acyclic w1.c.heap := by
        intro ha; rw [← hc0] at ha; exact e1.acyclic i0.wf ha
      cases isS with
      | false =>
        obtain ⟨rfl, rfl⟩ := hns rfl
        simp only [Bool.false_eq_true, if_false] at h
        exact setitem_tail_inv i cloned i1 hacy1 (fun k id r hst => hkey cloned k id r (by rw [hst0, hst])) out h
      | true =>
        simp only [if_true] at h
        -- Remove(item); Add(cloned): the clone is the reference in hand now
        have i1' : InvC w1.c (fun j => (cnt j w1.st + rest j) + cnt j [item]) ((w1.st.length + n) + 1) :=
          i1.congr (by intro j; simp only []; omega) (by omega)
        obtain ⟨i2, ss2⟩ := inv_rem item i1'
        obtain ⟨i3, ss3⟩ := inv_add cloned (wfItem_of_len hval (by rw [ss2.1]; exact Nat.le_refl _)) i2
        refine setitem_tail_inv (w0 := { w1 with c := (w1.c.rem item).add cloned }) i cloned
          (i3.congr (by intro j; simp only []; omega) (by dsimp only; omega)) ?_ ?_ out h
        · intro ha
          exact acyclic_of_sameShape' (ss2.trans ss3) (hacy1 ha)
        · intro k id r hst
          exact hkey item k id r (by rw [hst0, ← hst1]; exact congrArg _ hst)

end NeoModel.VmAcct
