/-
C14, step (3): the assembler.  The byte machine running `assemble c` simulates the assembly machine running `c`,
under the decidable layout condition `layoutOK c` (Model/Compile.lean): every item sits at its final offset, an
item without bytes (mark, removed INITSLOT placeholder, removed `JMPL +5`) does not move the offset, and any other
item decodes at its offset to the same instruction carrying the relative offset of its target's mark.

`layoutOK` is evaluated, not proved in general: by the driver for every program of every run (`layout` line) and by
kernel evaluation in the examples.  What is proved here is that it suffices: program counters map to byte offsets
(`mapS`), one assembly step is zero or one byte step (`asm_step_sim`), runs are preserved for halting, faulting and
still-running outcomes alike (`asm_run_sim`), and a label's manifest/debug offset is the offset of its mark
(`labelOffset_of_findLabel`).
-/
import NeoModel.Proofs.CompileLabels
set_option linter.unusedSimpArgs false
namespace NeoModel.CompileProofs
open NeoModel.MiniVm NeoModel.MiniVm.Asm NeoModel.MiniGo NeoModel.Compile

/-- the byte-machine image of an assembly-machine state: program counters become byte offsets. -/
def mapFrame (c : Code) (f : MiniVm.Frame) : MiniVm.Frame := { f with retPc := fposAt c f.retPc }
def mapS (c : Code) (s : State) : State := { s with pc := fposAt c s.pc, frames := s.frames.map (mapFrame c) }

def mapO (c : Code) : Outcome → Outcome
  | .running s => .running (mapS c s)
  | .halt stk => .halt stk
  | .fault => .fault

theorem stepData_retarget {τ σ : Type} (t' : σ) (op : Op τ) (stk loc ar : List Val) :
    stepData (Op.retarget t' op) stk loc ar = stepData op stk loc ar := by
  cases op <;> rfl

theorem isData_retarget {τ σ : Type} (t' : σ) (op : Op τ) : isData (Op.retarget t' op) = isData op := by
  cases op <;> rfl

theorem stepOp_data {τ : Type} (res : τ → Option Nat) (next : Nat) (op : Op τ) (s : State) (h : isData op = true) :
    stepOp res next op s = (match stepData op s.stack s.locals s.args with
      | some (stk, loc, ar) => .running { s with pc := next, stack := stk, locals := loc, args := ar }
      | none => .fault) := by
  cases op <;> simp [isData] at h <;> rfl

/-- `stepOp` does not care how targets are named, as long as they resolve alike. -/
theorem stepOp_map (c : Code) (op : Op Nat) (t' : Int) (resA : Nat → Option Nat) (resB : Int → Option Nat) (nextA nextB : Nat)
    (hres : ∀ l, Op.target? op = some l → resB t' = (resA l).map (fposAt c)) (hnext : nextB = fposAt c nextA) (s : State) :
    stepOp resB nextB (Op.retarget t' op) (mapS c s) = mapO c (stepOp resA nextA op s) := by
  by_cases hd : isData op = true
  · rw [stepOp_data _ _ _ _ (by rw [isData_retarget]; exact hd), stepOp_data _ _ _ _ hd, stepData_retarget]
    simp only [mapS]
    cases stepData op s.stack s.locals s.args with
    | none => rfl
    | some r => obtain ⟨stk, loc, ar⟩ := r; simp [mapO, mapS, hnext]
  · cases op <;> simp [isData] at hd
    case jmp l =>
      have := hres l rfl
      simp only [Op.retarget, stepOp, this]
      cases resA l <;> simp [mapO, mapS]
    case jmpIf l =>
      have := hres l rfl
      simp only [Op.retarget, stepOp, this, mapS]
      cases s.stack <;> cases resA l <;> simp [mapO, mapS, hnext]
      split <;> rfl
    case jmpIfNot l =>
      have := hres l rfl
      simp only [Op.retarget, stepOp, this, mapS]
      cases s.stack <;> cases resA l <;> simp [mapO, mapS, hnext]
      split <;> rfl
    case jmpCmp cm l =>
      have := hres l rfl
      simp only [Op.retarget, stepOp, this, mapS]
      rcases hs : s.stack with _ | ⟨b, _ | ⟨a, r⟩⟩ <;> cases hr : resA l <;> simp [mapO, mapS]
      cases a.toInt? <;> cases b.toInt? <;> simp [mapO, mapS, hnext]
      split <;> rfl
    case call l =>
      have := hres l rfl
      simp only [Op.retarget, stepOp, this, mapS, List.length_map]
      cases resA l <;> simp [mapO, mapS]
      split
      · rfl
      · simp [mapO, mapS, mapFrame, hnext]
    case ret =>
      simp only [Op.retarget, stepOp, mapS]
      cases hf : s.frames with
      | nil => simp [mapO]
      | cons f fs => simp [mapO, mapS, mapFrame]
    case initSlot a b =>
      simp only [Op.retarget, stepOp, mapS]
      cases hc : (s.inited || a == 0 && b == 0 || decide (s.stack.length < b))
      · simp [mapO, mapS, hnext]
        simp at hc
        exact ⟨hc.1, decide_eq_false (by omega)⟩
      · simp [mapO]
        intro h1 h2
        simp [h1] at hc
        rcases hc with ⟨x, y⟩ | h
        · exact absurd y (h2 x)
        · exact decide_eq_true h

/-! ### layout facts -/

theorem longPositions_length (c : Code) (p : Nat) : (longPositions c p).length = c.length := by
  induction c generalizing p with
  | nil => rfl
  | cons it r ih => simp [longPositions, ih]

theorem finalPositions_length (l : List (Item × Form)) (p : Nat) : (finalPositions l p).length = l.length := by
  induction l generalizing p with
  | nil => rfl
  | cons it r ih => obtain ⟨a, b⟩ := it; simp [finalPositions, ih]

/-- the final positions list of `c`. -/
def fposOf (c : Code) : List Nat :=
  let lpos := longPositions c 0
  let forms := (c.zip lpos).map (fun (it, ip) => formOf c lpos it ip)
  finalPositions (c.zip forms) 0

theorem fposOf_length (c : Code) : (fposOf c).length = c.length := by
  simp [fposOf, finalPositions_length, longPositions_length]

theorem fposAt_eq (c : Code) (i : Nat) : fposAt c i = match (fposOf c)[i]? with
    | some p => p
    | none => (assemble c).length := rfl

theorem fposAt_end (c : Code) (i : Nat) (h : c.length ≤ i) : fposAt c i = (assemble c).length := by
  rw [fposAt_eq, List.getElem?_eq_none (by rw [fposOf_length]; exact h)]

theorem labelPos_findLabel (c : Code) (pos : List Nat) (l j : Nat) (hl : pos.length = c.length)
    (h : findLabel c l = some j) : labelPos c pos l = pos[j]? := by
  induction c generalizing pos j with
  | nil => simp [findLabel] at h
  | cons it r ih =>
    cases pos with
    | nil => simp at hl
    | cons p ps =>
      have hl' : ps.length = r.length := by simpa using hl
      cases it with
      | lbl k =>
        simp only [findLabel] at h
        by_cases hk : (k == l) = true
        · simp [hk] at h; subst h; simp [labelPos, hk]
        · simp [hk] at h
          obtain ⟨j', hj', rfl⟩ := h
          simp [labelPos, hk, ih ps j' hl' hj']
      | ins op =>
        simp only [findLabel, Option.map_eq_some_iff] at h
        obtain ⟨j', hj', rfl⟩ := h
        simp [labelPos, ih ps j' hl' hj']

theorem findLabel_lt (c : Code) (l j : Nat) (h : findLabel c l = some j) : j < c.length := by
  induction c generalizing j with
  | nil => simp [findLabel] at h
  | cons it r ih =>
    cases it with
    | lbl k =>
      simp only [findLabel] at h
      by_cases hk : (k == l) = true
      · simp [hk] at h; subst h; simp
      · simp [hk] at h
        obtain ⟨j', hj', rfl⟩ := h
        have := ih j' hj'
        simp; omega
    | ins op =>
      simp only [findLabel, Option.map_eq_some_iff] at h
      obtain ⟨j', hj', rfl⟩ := h
      have := ih j' hj'
      simp; omega

/-- a marked label has a final offset: the one of its mark. -/
theorem labelOffset_of_findLabel (c : Code) (l j : Nat) (h : findLabel c l = some j) :
    labelOffset c l = some (fposAt c j) := by
  have h1 : labelOffset c l = (fposOf c)[j]? := labelPos_findLabel c (fposOf c) l j (fposOf_length c) h
  have hj : j < (fposOf c).length := by rw [fposOf_length]; exact findLabel_lt c l j h
  rw [h1, fposAt_eq, List.getElem?_eq_getElem hj]

theorem labelOffset_fposAt (c : Code) (l j off : Nat) (h : findLabel c l = some j)
    (ho : labelOffset c l = some off) : fposAt c j = off := by
  have := labelPos_findLabel c (fposOf c) l j (fposOf_length c) h
  have ho' : labelPos c (fposOf c) l = some off := ho
  rw [this] at ho'
  rw [fposAt_eq, ho']

theorem itemOK_of_layoutOK (c : Code) (h : layoutOK c = true) (i : Nat) : itemOK c i = true := by
  by_cases hi : i < c.length
  · exact List.all_eq_true.mp h i (List.mem_range.mpr hi)
  · simp [itemOK, List.getElem?_eq_none (Nat.le_of_not_lt hi)]

/-- one assembly step is zero (marks, removed items) or one byte step. -/
theorem asm_step_sim (c : Code) (hl : layoutOK c = true) (s : State) :
    mapO c (Asm.step c s) = .running (mapS c s) ∨ Byte.step (assemble c) (mapS c s) = mapO c (Asm.step c s) := by
  have hi := itemOK_of_layoutOK c hl s.pc
  unfold itemOK at hi
  cases hc : c[s.pc]? with
  | none =>
    right
    have hlen : c.length ≤ s.pc := by simpa using hc
    have hp : fposAt c s.pc = (assemble c).length := fposAt_end c _ hlen
    have hp1 : fposAt c (s.pc + 1) = (assemble c).length := fposAt_end c _ (by omega)
    have := stepOp_map c (.ret : Op Nat) (0 : Int) (findLabel c) (fun _ => none) (s.pc + 1) (fposAt c s.pc)
      (by intro l h; simp [Op.target?] at h) (by rw [hp, hp1]) s
    simp only [Asm.step, hc, Byte.step]
    rw [if_pos (by simp [mapS, hp])]
    exact this
  | some it =>
    rw [hc] at hi
    cases it with
    | lbl k =>
      left
      simp only [beq_iff_eq] at hi
      simp [Asm.step, hc, mapO, mapS, hi]
    | ins op =>
      simp only [] at hi
      by_cases hq : (fposAt c (s.pc + 1) == fposAt c s.pc) = true
      · left
        rw [if_pos hq] at hi
        have hq' : fposAt c (s.pc + 1) = fposAt c s.pc := by simpa using hq
        cases op <;> simp at hi
        case nop => simp [Asm.step, hc, stepOp, stepData, mapO, mapS, hq']
        case jmp l =>
          cases hf : findLabel c l with
          | none => simp [hf] at hi
          | some j =>
            simp [hf] at hi
            simp [Asm.step, hc, stepOp, hf, mapO, mapS, hi]
      · right
        rw [if_neg hq] at hi
        simp only [Bool.and_eq_true, decide_eq_true_eq] at hi
        obtain ⟨⟨hpq, hqlen⟩, hdec⟩ := hi
        have hnext : fposAt c s.pc + (fposAt c (s.pc + 1) - fposAt c s.pc) = fposAt c (s.pc + 1) := by omega
        simp only [Asm.step, hc, Byte.step]
        rw [if_neg (by simp [mapS]; omega)]
        cases ht : Op.target? op with
        | none =>
          rw [ht] at hdec
          simp only [beq_iff_eq] at hdec
          have : (mapS c s).pc = fposAt c s.pc := rfl
          rw [this, hdec]
          exact stepOp_map c op (0 : Int) (findLabel c) _ (s.pc + 1) _ (by intro l h; rw [ht] at h; cases h) hnext s
        | some l =>
          rw [ht] at hdec
          cases hf : findLabel c l with
          | none => simp [hf] at hdec
          | some j =>
            simp only [hf, Bool.and_eq_true, beq_iff_eq, decide_eq_true_eq] at hdec
            obtain ⟨hdec, hj⟩ := hdec
            have : (mapS c s).pc = fposAt c s.pc := rfl
            rw [this, hdec]
            refine stepOp_map c op _ (findLabel c) _ (s.pc + 1) _ ?_ hnext s
            intro l' h'
            rw [ht] at h'
            cases h'
            simp only [hf, Option.map_some]
            rw [if_pos (by omega)]
            congr 1
            omega

/-- runs: whatever the assembly machine reaches in `n` steps, the byte machine reaches in at most `n`. -/
theorem asm_run_sim (c : Code) (hl : layoutOK c = true) (n : Nat) (s : State) :
    ∃ m, m ≤ n ∧ Byte.run (assemble c) m (mapS c s) = mapO c (Asm.run c n s) := by
  induction n generalizing s with
  | zero => exact ⟨0, Nat.le_refl _, rfl⟩
  | succ n ih =>
    rcases asm_step_sim c hl s with h | h
    · -- stutter
      cases hs : Asm.step c s with
      | running s' =>
        rw [hs] at h
        simp only [mapO, Outcome.running.injEq] at h
        obtain ⟨m, hm, hr⟩ := ih s'
        refine ⟨m, by omega, ?_⟩
        rw [← h, hr]
        simp [Asm.run, hs]
      | halt stk => rw [hs] at h; simp [mapO] at h
      | fault => rw [hs] at h; simp [mapO] at h
    · cases hs : Asm.step c s with
      | running s' =>
        rw [hs] at h
        obtain ⟨m, hm, hr⟩ := ih s'
        refine ⟨m + 1, by omega, ?_⟩
        simp only [Byte.run, h, mapO, Asm.run, hs]
        exact hr
      | halt stk =>
        rw [hs] at h
        exact ⟨1, by omega, by simp [Byte.run, h, mapO, Asm.run, hs]⟩
      | fault =>
        rw [hs] at h
        exact ⟨1, by omega, by simp [Byte.run, h, mapO, Asm.run, hs]⟩

theorem asm_halt_sim (c : Code) (hl : layoutOK c = true) (n : Nat) (s : State) (stk : List Val)
    (h : Asm.run c n s = .halt stk) : ∃ m, m ≤ n ∧ Byte.run (assemble c) m (mapS c s) = .halt stk := by
  obtain ⟨m, hm, hr⟩ := asm_run_sim c hl n s
  exact ⟨m, hm, by rw [hr, h]; rfl⟩

theorem asm_fault_sim (c : Code) (hl : layoutOK c = true) (n : Nat) (s : State)
    (h : Asm.run c n s = .fault) : ∃ m, m ≤ n ∧ Byte.run (assemble c) m (mapS c s) = .fault := by
  obtain ⟨m, hm, hr⟩ := asm_run_sim c hl n s
  exact ⟨m, hm, by rw [hr, h]; rfl⟩

end NeoModel.CompileProofs
