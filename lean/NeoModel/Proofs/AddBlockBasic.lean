/-
C06 helper lemmas: what each step of the AddBlock model can do to the node.
-/
import NeoModel.Model.AddBlock
namespace NeoModel.AddBlock
variable {L : Type}

/-- `a` and `b` agree on everything but the header list. -/
def SameButHeaders (a b : Node L) : Prop :=
  a.cfg = b.cfg ∧ a.blockHeight = b.blockHeight ∧ a.ledger = b.ledger ∧ a.pool = b.pool

theorem SameButHeaders.refl (a : Node L) : SameButHeaders a a := ⟨rfl, rfl, rfl, rfl⟩

/-- what verifyHeader establishes -/
def LinkOK (env : Env L) (prev cur : Header) : Prop :=
  cur.prevHash = prev.hash ∧ cur.index = prev.index + 1 ∧ prev.ts < cur.ts ∧
    env.signedBy cur.wit cur.hash prev.nextConsensus = true

theorem verifyHeader_none (env : Env L) (s : Node L) (cur prev : Header)
    (h : verifyHeader env s cur prev = none) :
    LinkOK env prev cur ∧
      (s.cfg.sr = true → s.blockHeight = prev.index → cur.prevStateRoot = env.rootOf s.ledger) := by
  unfold verifyHeader at h
  split at h; · cases h
  split at h; · cases h
  split at h; · cases h
  split at h; · cases h
  split at h; · cases h
  rename_i h1 h2 h3 h4 h5
  refine ⟨⟨?_, ?_, ?_, ?_⟩, ?_⟩
  · simp at h2; exact h2.symm
  · simp at h3; exact h3.symm
  · simp at h4; exact h4
  · simpa using h5
  · intro hsr hbh
    simp [hsr, hbh] at h1
    exact h1

theorem addHeaders_single (env : Env L) (s : Node L) (v : Bool) (h : Header)
    (hidx : h.index = s.headerHeight + 1) (hne : s.headers ≠ []) :
    (addHeaders env s v [h] = ({ s with headers := s.headers ++ [h] }, none) ∧
       (v = true → ∃ last, s.lookup h.prevHash = some last ∧ verifyHeader env s h last = none)) ∨
    (∃ e, addHeaders env s v [h] = (s, some e)) := by
  have hlen : s.headers.length = s.headerHeight + 1 := by
    unfold Node.headerHeight
    cases hh : s.headers with
    | nil => exact absurd hh hne
    | cons a l => simp
  have hdw : List.dropWhile (fun x : Header => decide (x.index ≤ s.headerHeight)) [h] = [h] := by
    simp [List.dropWhile, hidx]
    have : ¬ (s.headerHeight + 1 ≤ s.headerHeight) := by omega
    simp [this]
  have happ : appendHeaders s.headers [h] = s.headers ++ [h] := by
    simp [appendHeaders, hidx, hlen]
  unfold addHeaders
  simp only [hdw]
  cases v with
  | false => left; simp [happ]
  | true =>
    simp only [if_true]
    cases hl : s.lookup h.prevHash with
    | none => right; exact ⟨.prevUnknown, rfl⟩
    | some last =>
      simp only [verifyChain]
      cases hv : verifyHeader env s h last with
      | some e => right; exact ⟨e, rfl⟩
      | none => left; simp [happ, hv]

theorem storeBlock_err (env : Env L) (s s' : Node L) (b : Block) (e : Err)
    (h : storeBlock env s b = (s', some e)) :
    (s' = s ∨ ((∃ l', env.apply s.ledger b = some l') ∧ s' = { s with ledger := env.spoil s.ledger b })) ∧
      e = .store := by
  unfold storeBlock at h
  split at h
  · cases h; exact ⟨Or.inl rfl, rfl⟩
  split at h
  · cases h; exact ⟨Or.inl rfl, rfl⟩
  · rename_i l' hl
    split at h
    · cases h
    · cases h; exact ⟨Or.inl rfl, rfl⟩

/-- a failing storeBlock leaves the node as it was -/
theorem storeBlock_err_same (env : Env L) (s s' : Node L) (b : Block) (e : Err)
    (h : storeBlock env s b = (s', some e)) : s' = s ∧ e = .store := by
  unfold storeBlock at h
  split at h
  · cases h; exact ⟨rfl, rfl⟩
  split at h
  · cases h; exact ⟨rfl, rfl⟩
  · split at h
    · cases h
    · cases h; exact ⟨rfl, rfl⟩

theorem storeBlock_ok (env : Env L) (s s' : Node L) (b : Block)
    (h : storeBlock env s b = (s', none)) :
    ∃ l', env.apply s.ledger b = some l' ∧ nextHeaderOK env s b.hdr.index l' = true ∧ s' = commit env s b l' := by
  unfold storeBlock at h
  split at h
  · cases h
  split at h
  · cases h
  · rename_i l' hl
    split at h
    · rename_i hn
      cases h
      exact ⟨l', hl, hn, rfl⟩
    · cases h

theorem storeBlock_ok_primary (env : Env L) (s s' : Node L) (b : Block)
    (h : storeBlock env s b = (s', none)) : primaryOK env b = true := by
  unfold storeBlock at h
  split at h
  · cases h
  · rename_i hp; simpa using hp

/-- the header step leaves everything but the header list alone; it either fails without a trace,
or records exactly this header (verified unless SkipBlockVerification), or finds it already
recorded with the same hash and (unless SkipBlockVerification) the same witness or a witness that
verifies against the header named as previous. -/
theorem headerStep_spec (env : Env L) (s s1 : Node L) (b : Block) (r : Option Err)
    (hne : s.headers ≠ []) (h : headerStep env s b = (s1, r)) :
    (∃ e, r = some e ∧ s1 = s) ∨
    (r = none ∧ b.hdr.index = s.headerHeight + 1 ∧ s1 = { s with headers := s.headers ++ [b.hdr] } ∧
      (s.cfg.skip = false → ∃ last, s.lookup b.hdr.prevHash = some last ∧ verifyHeader env s b.hdr last = none)) ∨
    (r = none ∧ b.hdr.index ≠ s.headerHeight + 1 ∧ s1 = s ∧
      ∃ kh, s.headers[b.hdr.index]? = some kh ∧ kh.hash = b.hdr.hash ∧
        (s.cfg.skip = true ∨ kh.wit = b.hdr.wit ∨
          ∃ prev, s.lookup b.hdr.prevHash = some prev ∧
            env.signedBy b.hdr.wit b.hdr.hash prev.nextConsensus = true)) := by
  unfold headerStep at h
  split at h
  · rename_i hi
    have hi' : b.hdr.index = s.headerHeight + 1 := by simpa using hi
    rcases addHeaders_single env s (!s.cfg.skip) b.hdr hi' hne with ⟨heq, hv⟩ | ⟨e, heq⟩
    · rw [heq] at h
      cases h
      right; left
      refine ⟨rfl, hi', rfl, ?_⟩
      intro hs
      exact hv (by simp [hs])
    · rw [heq] at h
      cases h
      left; exact ⟨e, rfl, rfl⟩
  · rename_i hi
    have hi' : b.hdr.index ≠ s.headerHeight + 1 := by simpa using hi
    split at h
    · cases h; left; exact ⟨_, rfl, rfl⟩
    · rename_i kh hk
      split at h
      · cases h; left; exact ⟨_, rfl, rfl⟩
      · rename_i hh
        have hh' : kh.hash = b.hdr.hash := by simpa using hh
        split at h
        · rename_i hw
          cases h
          right; right
          refine ⟨rfl, hi', rfl, kh, hk, hh', ?_⟩
          simp at hw
          rcases hw with hw | hw
          · exact Or.inl hw
          · exact Or.inr (Or.inl hw)
        · split at h
          · cases h; left; exact ⟨_, rfl, rfl⟩
          · rename_i prev hp
            split at h
            · rename_i hsg
              cases h
              right; right
              exact ⟨rfl, hi', rfl, kh, hk, hh', Or.inr (Or.inr ⟨prev, hp, hsg⟩)⟩
            · cases h; left; exact ⟨_, rfl, rfl⟩

/-- a failing body step leaves the node as it was, except that a storeBlock failure after the
execution of the block leaves a spoiled ledger behind -/
theorem bodyStep_err (env : Env L) (s s' : Node L) (b : Block) (e : Err)
    (h : bodyStep env s b = (s', some e)) :
    s' = s ∨ (e = .store ∧ (∃ l', env.apply s.ledger b = some l') ∧ s' = { s with ledger := env.spoil s.ledger b }) := by
  unfold bodyStep at h
  split at h
  · cases h; exact Or.inl rfl
  · split at h
    · cases h; exact Or.inl rfl
    · split at h
      · cases h; exact Or.inl rfl
      · obtain ⟨h1, h2⟩ := storeBlock_err env s s' b e h
        rcases h1 with h1 | ⟨h1, h3⟩
        · exact Or.inl h1
        · exact Or.inr ⟨h2, h1, h3⟩

/-- a failing body step leaves the node as it was -/
theorem bodyStep_err_same (env : Env L) (s s' : Node L) (b : Block) (e : Err)
    (h : bodyStep env s b = (s', some e)) : s' = s := by
  unfold bodyStep at h
  split at h
  · cases h; rfl
  · split at h
    · cases h; rfl
    · split at h
      · cases h; rfl
      · exact (storeBlock_err_same env s s' b e h).1

/-- headers are stored under their index -/
def Indexed (hs : List Header) : Prop := ∀ (i : Nat) (h : Header), hs[i]? = some h → h.index = i

theorem Indexed.get (hs : List Header) (hi : Indexed hs) (h : Header) (hm : h ∈ hs) :
    hs[h.index]? = some h := by
  obtain ⟨i, hlt, hg⟩ := List.getElem_of_mem hm
  have h1 : hs[i]? = some h := by rw [List.getElem?_eq_getElem hlt, hg]
  have := hi i h h1
  rw [this]; exact h1

theorem lookup_mem (s : Node L) (x : Nat) (last : Header) (h : s.lookup x = some last) :
    last ∈ s.headers ∧ last.hash = x := by
  unfold Node.lookup at h
  refine ⟨List.mem_of_find?_eq_some h, ?_⟩
  have := List.find?_some h
  simpa using this

theorem indexed_last (hs : List Header) (hi : Indexed hs) (last : Header) (hm : last ∈ hs)
    (hl : last.index + 1 = hs.length) : hs.getLast? = some last := by
  have h1 := Indexed.get hs hi last hm
  rw [List.getLast?_eq_getElem?]
  have : hs.length - 1 = last.index := by omega
  rw [this]; exact h1

/-- the ledger after a rejected block: untouched, unless storeBlock executed the block and failed afterwards -/
def LedgerAfterReject (env : Env L) (s s' : Node L) (b : Block) (e : Err) : Prop :=
  s'.ledger = s.ledger ∨
    (e = .store ∧ (∃ l', env.apply s.ledger b = some l') ∧ s'.ledger = env.spoil s.ledger b)

theorem reject_changes_nothing_aux (env : Env L) (s s' : Node L) (b : Block) (e : Err)
    (hne : s.headers ≠ []) (hix : Indexed s.headers)
    (h : addBlock env s b = (s', some e)) :
    s'.cfg = s.cfg ∧ s'.blockHeight = s.blockHeight ∧ LedgerAfterReject env s s' b e ∧ s'.pool = s.pool ∧
    (s'.headers = s.headers ∨
      (s'.headers = s.headers ++ [b.hdr] ∧ b.hdr.index = s.headerHeight + 1 ∧
        (s.cfg.skip = false → ∃ last, s.headers.getLast? = some last ∧ LinkOK env last b.hdr))) := by
  unfold addBlock at h
  split at h
  · cases h; exact ⟨rfl, rfl, Or.inl rfl, rfl, Or.inl rfl⟩
  split at h
  · cases h; exact ⟨rfl, rfl, Or.inl rfl, rfl, Or.inl rfl⟩
  split at h
  · rename_i s1 e1 hs
    cases h
    rcases headerStep_spec env s s' b (some e) hne hs with ⟨_, _, rfl⟩ | ⟨hr, _⟩ | ⟨hr, _⟩
    · exact ⟨rfl, rfl, Or.inl rfl, rfl, Or.inl rfl⟩
    · cases hr
    · cases hr
  · rename_i s1 hs
    have hb := bodyStep_err env s1 s' b e h
    -- s' agrees with s1 on everything but possibly the ledger
    have hparts : s'.cfg = s1.cfg ∧ s'.blockHeight = s1.blockHeight ∧ s'.pool = s1.pool ∧ s'.headers = s1.headers ∧
        (s'.ledger = s1.ledger ∨ (e = .store ∧ (∃ l', env.apply s1.ledger b = some l') ∧ s'.ledger = env.spoil s1.ledger b)) := by
      rcases hb with rfl | ⟨he, hl, rfl⟩
      · exact ⟨rfl, rfl, rfl, rfl, Or.inl rfl⟩
      · exact ⟨rfl, rfl, rfl, rfl, Or.inr ⟨he, hl, rfl⟩⟩
    obtain ⟨p1, p2, p3, p4, p5⟩ := hparts
    rcases headerStep_spec env s s1 b none hne hs with ⟨_, hr, _⟩ | ⟨_, hi, hs1, hv⟩ | ⟨_, _, hs1, _⟩
    · cases hr
    · subst hs1
      refine ⟨p1, p2, p5, p3, Or.inr ⟨p4, hi, ?_⟩⟩
      intro hsk
      obtain ⟨last, hl, hv⟩ := hv hsk
      obtain ⟨hm, _⟩ := lookup_mem s _ last hl
      have hlk := (verifyHeader_none env s b.hdr last hv).1
      refine ⟨last, ?_, hlk⟩
      apply indexed_last _ hix last hm
      have : s.headers.length = s.headerHeight + 1 := by
        unfold Node.headerHeight
        cases hh : s.headers with
        | nil => exact absurd hh hne
        | cons a l => simp
      have := hlk.2.1
      omega
    · subst hs1
      exact ⟨p1, p2, p5, p3, Or.inl p4⟩

end NeoModel.AddBlock
