/-
C01 — the modelled natives satisfy `Adequate` (Proofs/Ledger.lean): the votesChanged flag influences neither
storage nor results; restart yields adequate caches; every block preserves adequacy.
-/
import NeoModel.Proofs.LedgerNeo
import NeoModel.Proofs.Ledger
namespace NeoModel.Ledger.Natives
open NeoModel.Ledger

/-- overwrite the votesChanged flag. -/
def flag (b : Bool) (w : World) : World :=
  { w with c := { w.c with neo := { w.c.neo with votesChanged := b } } }

theorem execTx_flag (b : Bool) (w : World) (tx : Tx) :
    ∃ b', execTx (flag b w) tx = (flag b' (execTx w tx).1, (execTx w tx).2) := by
  unfold execTx
  by_cases ho : tx.oog = true
  · simp only [ho, if_true]; exact ⟨b, rfl⟩
  · simp only [ho]
    have hv : viewOf (flag b w) = viewOf w := rfl
    rw [hv]
    generalize execOp (viewOf w) tx = p
    obtain ⟨v, r⟩ := p
    cases r <;> first | exact ⟨b, rfl⟩ | exact ⟨b || v.touched, rfl⟩

theorem execTxs_flag (txs : List Tx) : ∀ (b : Bool) (w : World),
    ∃ b', execTxs (flag b w) txs = (flag b' (execTxs w txs).1, (execTxs w txs).2) := by
  induction txs with
  | nil => intro b w; exact ⟨b, rfl⟩
  | cons tx rest ih =>
    intro b w
    obtain ⟨b1, h1⟩ := execTx_flag b w tx
    obtain ⟨b2, h2⟩ := ih b1 (execTx w tx).1
    refine ⟨b2, ?_⟩
    simp only [execTxs, h1, h2]

theorem onPersist_flag (cfg : Cfg) (b : Bool) (w : World) (h : Nat) :
    ∃ b', onPersist cfg (flag b w) h = flag b' (onPersist cfg w h) := by
  unfold onPersist
  split
  · exact ⟨false, rfl⟩
  · exact ⟨b, rfl⟩

theorem postPersist_st (cfg : Cfg) (w : World) (h : Nat) : (postPersist cfg w h).st = w.st := by
  unfold postPersist
  split
  · dsimp only
    split <;> rfl
  · rfl

/-- the flag influences neither the storage a block produces nor its execution results. -/
theorem applyBlock_flag (cfg : Cfg) (st : Storage) (c : Caches) (b : Bool) (h : Nat) (txs : List Tx) :
    (applyBlock cfg st { c with neo := { c.neo with votesChanged := b } } h txs).1 = (applyBlock cfg st c h txs).1 ∧
    (applyBlock cfg st { c with neo := { c.neo with votesChanged := b } } h txs).2.2 = (applyBlock cfg st c h txs).2.2 := by
  have e0 : ({ st := st, c := { c with neo := { c.neo with votesChanged := b } } } : World) = flag b { st := st, c := c } := rfl
  obtain ⟨b1, h1⟩ := onPersist_flag cfg b { st := st, c := c } h
  obtain ⟨b2, h2⟩ := execTxs_flag txs b1 (onPersist cfg { st := st, c := c } h)
  simp only [applyBlock, e0, h1, h2, postPersist_st]
  simp [flag]

-- ---------------------------------------------------------------------------------------------
-- the modelled natives are adequate

def Good (cfg : Cfg) (sv : Unit → Option Storage) (c : Caches) (h : Nat) : Prop :=
  ∃ st, sv () = some st ∧ c.policy = initPolicy st ∧ NeoGood cfg st c.neo h

theorem stateView_native (cfg : Cfg) (rd : Unit → Option Storage) : stateView (nativeSys cfg) rd = rd := by
  funext k; simp [stateView, nativeSys]

theorem initNeo_good (cfg : Cfg) (st : Storage) (h : Nat) : NeoGood cfg st (initNeo cfg st h) h := by
  unfold initNeo
  split
  · rename_i he
    have hpin : pinned cfg st h = computeCommittee cfg st st.blocked := by simp [pinned, he]
    exact ⟨rfl, rfl, by rw [hpin], by rw [hpin], by intro hf; simp at hf⟩
  · rename_i he
    have hpin : pinned cfg st h = st.committee := by simp [pinned, he]
    exact ⟨rfl, rfl, by rw [hpin], by rw [hpin], by intro hf; simp at hf⟩

theorem good_caches_eq (cfg : Cfg) (st : Storage) (c₁ c₂ : Caches) (h : Nat)
    (p1 : c₁.policy = initPolicy st) (g1 : NeoGood cfg st c₁.neo h)
    (p2 : c₂.policy = initPolicy st) (g2 : NeoGood cfg st c₂.neo h) :
    c₂ = { c₁ with neo := { c₁.neo with votesChanged := c₂.neo.votesChanged } } := by
  obtain ⟨pol1, n1⟩ := c₁
  obtain ⟨pol2, n2⟩ := c₂
  obtain ⟨vc1, nv1, nev1, cm1, ne1⟩ := n1
  obtain ⟨vc2, nv2, nev2, cm2, ne2⟩ := n2
  have a := g1.cm; have b := g2.cm
  have c := g1.nv; have d := g2.nv
  have e := g1.ne; have f := g2.ne
  have g := g1.nev; have i := g2.nev
  simp only at a b c d e f g i p1 p2
  subst p1 p2 a c e g
  simp only [b, d, f, i]

theorem nativeSys_adequate (cfg : Cfg) : Adequate (nativeSys cfg) (Good cfg) where
  apply_state := by intro rd c h b; rw [stateView_native]
  init_state := by intro rd h; rw [stateView_native]
  good_restart := by
    intro sv c h ⟨st, hsv, _, _⟩
    refine ⟨st, hsv, ?_, ?_⟩
    · simp [nativeSys, hsv, initCaches]
    · simp only [nativeSys, hsv, initCaches]
      exact initNeo_good cfg st h
  good_step := by
    intro sv c h b ⟨st, hsv, hp, hg⟩
    have hgood := applyBlock_good cfg st c h b hp hg
    refine ⟨(applyBlock cfg st c (h + 1) b).1, ?_, ?_, ?_⟩
    · rw [stateView_native]
      simp [nativeSys, hsv, overlay, Changes.find?]
    · simpa [nativeSys, hsv] using hgood.1
    · simpa [nativeSys, hsv] using hgood.2
  good_det := by
    intro sv c₁ c₂ h ⟨st, hsv, p1, g1⟩ ⟨st', hsv', p2, g2⟩
    have : st' = st := by rw [hsv] at hsv'; exact (Option.some.inj hsv').symm
    subst this
    have hc := good_caches_eq cfg st' c₁ c₂ h p1 g1 p2 g2
    refine ⟨?_, ?_⟩
    · rw [hc]; rfl
    · intro b
      have := applyBlock_flag cfg st' c₁ c₂.neo.votesChanged (h + 1) b
      rw [hc]
      simp only [nativeSys, hsv]
      exact ⟨by rw [this.1], by rw [this.2]⟩

/-- the genesis node's caches are adequate -/
theorem compute_genesis (cfg : Cfg) (holder : Acct) :
    computeCommittee cfg (genesisStorage cfg holder) [] = (genesisStorage cfg holder).committee := by
  simp [computeCommittee, genesisStorage, eligible, sortCands, alGet, totalSupply]

theorem initNeo_committee (cfg : Cfg) (st : Storage) (h : Nat) : (initNeo cfg st h).committee = st.committee := by
  unfold initNeo; split <;> rfl

theorem initNeo_nextValidators (cfg : Cfg) (st : Storage) (h : Nat) :
    (initNeo cfg st h).nextValidators = validatorsOf cfg st.committee := by
  unfold initNeo; split <;> rfl

theorem genesis_good (cfg : Cfg) (holder : Acct) :
    Good cfg (genesisNode cfg holder).read (genesisNode cfg holder).cache 0 := by
  refine ⟨genesisStorage cfg holder, rfl, rfl, ?_⟩
  have hc := compute_genesis cfg holder
  have hb : (genesisStorage cfg holder).blocked = [] := rfl
  refine ⟨initNeo_committee cfg _ 0, initNeo_nextValidators cfg _ 0, ?_, ?_, ?_⟩
  · have e1 : (genesisNode cfg holder).cache.neo.newEpochCommittee =
        computeCommittee cfg (genesisStorage cfg holder) (genesisStorage cfg holder).blocked := rfl
    rw [e1]; unfold pinned; rw [hb, hc]; split <;> rfl
  · have e2 : (genesisNode cfg holder).cache.neo.newEpochNextValidators =
        validatorsOf cfg (computeCommittee cfg (genesisStorage cfg holder) (genesisStorage cfg holder).blocked) := rfl
    rw [e2]; unfold pinned; rw [hb, hc]; split <;> rfl
  · intro _; rw [hb]; exact hc

end NeoModel.Ledger.Natives
