/-
Helper lemmas for C02: a state reset interrupted INSIDE its block-removal stage (several batches when more than
S blocks are removed) resumes; the completed reset reopens. Core Lean only.
-/
import NeoModel.Proofs.PersistJump
namespace NeoModel.Persist

/-- a record of the removal range as the loop may find it: still a block, or already reduced to its header with
its transactions gone. -/
def Removable (H : Hist) (v : Db) (x : Nat) : Prop :=
  (∃ y, v (Key.exec x) = some (Val.blk y)) ∨ ((∃ y, v (Key.exec x) = some (Val.hdr y)) ∧ ∀ j, j < H.ntx x → v (Key.tx x j) = none)

open Classical in
theorem removeBlock_spec {H : Hist} {v : Db} {i : Nat} (hr : Removable H v i) :
    ∃ vd w, removeBlock H v i = .ok (vd, w) ∧
      ∀ k, vd k = if (k = Key.exec i ∨ ∃ j, j < H.ntx i ∧ k = Key.tx i j) then rmVal k else v k := by
  rcases hr with ⟨y, hy⟩ | ⟨⟨y, hy⟩, htx⟩
  · refine ⟨(applyWrites ((Key.exec i, none) :: List.map (fun j => (Key.tx i j, none)) (List.range (H.ntx i))) v).set (Key.exec i) (some (Val.hdr i)),
      (Key.exec i, none) :: (List.map (fun j => (Key.tx i j, none)) (List.range (H.ntx i)) ++ [(Key.exec i, some (Val.hdr i))]),
      by simp [removeBlock, deleteBlock, hy], ?_⟩
    intro k
    by_cases e0 : k = Key.exec i
    · subst e0; simp [Db.set, rmVal]
    · rw [Db.set_other _ _ e0]
      by_cases c : ∃ j, j < H.ntx i ∧ k = Key.tx i j
      · rw [if_pos (Or.inr c)]
        obtain ⟨j, hj, rfl⟩ := c
        simp only [rmVal]
        apply applyWrites_const
        · intro p hp _
          simp only [List.mem_cons, List.mem_map] at hp
          rcases hp with rfl | ⟨j, _, rfl⟩ <;> rfl
        · exact ⟨(Key.tx i j, none), List.mem_cons_of_mem _ (List.mem_map.mpr ⟨j, List.mem_range.mpr hj, rfl⟩), rfl⟩
      · rw [if_neg (by rintro (h | h); exact e0 h; exact c h)]
        apply applyWrites_notin
        intro p hp e
        simp only [List.mem_cons, List.mem_map, List.mem_range] at hp
        rcases hp with rfl | ⟨j, hj, rfl⟩
        · exact e0 e.symm
        · exact c ⟨j, hj, e.symm⟩
  · refine ⟨(v.set (Key.exec i) none).set (Key.exec i) (some (Val.hdr i)), [(Key.exec i, none), (Key.exec i, some (Val.hdr i))],
      by simp [removeBlock, deleteBlock, hy], ?_⟩
    intro k
    by_cases e0 : k = Key.exec i
    · subst e0; simp [Db.set, rmVal]
    · rw [Db.set_other _ _ e0, Db.set_other _ _ e0]
      by_cases c : ∃ j, j < H.ntx i ∧ k = Key.tx i j
      · rw [if_pos (Or.inr c)]
        obtain ⟨j, hj, rfl⟩ := c
        simp only [rmVal]; exact htx j hj
      · rw [if_neg (by rintro (h | h); exact e0 h; exact c h)]


open Classical in
/-- on removable records the loop always succeeds, with the same result whether a record was still a block or
already a header. -/
theorem removeBlocks_total {H : Hist} {S : Nat} (fuel : Nat) :
    ∀ (i : Nat) (v : Db) (acc : Writes) (cnt : Nat), (∀ x, i ≤ x → x < i + fuel → Removable H v x) →
    ∃ bs v' rest, removeBlocks H S i fuel v acc cnt = .ok (bs, v', rest) ∧
      ∀ k, v' k = if (∃ x, i ≤ x ∧ x < i + fuel ∧ (k = Key.exec x ∨ ∃ j, j < H.ntx x ∧ k = Key.tx x j)) then rmVal k else v k := by
  induction fuel with
  | zero =>
    intro i v acc cnt _
    refine ⟨[], v, acc, by simp [removeBlocks], ?_⟩
    intro k
    have : ¬ ∃ x, i ≤ x ∧ x < i + 0 ∧ (k = Key.exec x ∨ ∃ j, j < H.ntx x ∧ k = Key.tx x j) := by
      rintro ⟨x, h1, h2, _⟩; omega
    rw [if_neg this]
  | succ fuel ih =>
    intro i v acc cnt hb
    obtain ⟨vd, w, hrb, hvd⟩ := removeBlock_spec (hb i (Nat.le_refl _) (by omega))
    have hb' : ∀ x, i + 1 ≤ x → x < i + 1 + fuel → Removable H vd x := by
      intro x h1 h2
      have hx := hb x (by omega) (by omega)
      have e1 : vd (Key.exec x) = v (Key.exec x) := by
        rw [hvd, if_neg]; rintro (e | ⟨j, _, e⟩) <;> simp at e; omega
      have e2 : ∀ j, vd (Key.tx x j) = v (Key.tx x j) := by
        intro j; rw [hvd, if_neg]; rintro (e | ⟨j', _, e⟩) <;> simp at e; omega
      unfold Removable
      rw [e1]; simp only [e2]; exact hx
    have key : ∀ (k : Key) (v'' : Db), (v'' k = if (∃ x, i + 1 ≤ x ∧ x < i + 1 + fuel ∧ (k = Key.exec x ∨ ∃ j, j < H.ntx x ∧ k = Key.tx x j)) then rmVal k else vd k) →
        v'' k = if (∃ x, i ≤ x ∧ x < i + (fuel + 1) ∧ (k = Key.exec x ∨ ∃ j, j < H.ntx x ∧ k = Key.tx x j)) then rmVal k else v k := by
      intro k v'' hv''
      rw [hv'', hvd]
      by_cases c1 : ∃ x, i + 1 ≤ x ∧ x < i + 1 + fuel ∧ (k = Key.exec x ∨ ∃ j, j < H.ntx x ∧ k = Key.tx x j)
      · obtain ⟨x, h1, h2, h3⟩ := c1
        rw [if_pos ⟨x, h1, h2, h3⟩, if_pos ⟨x, by omega, by omega, h3⟩]
      · rw [if_neg c1]
        by_cases c2 : k = Key.exec i ∨ ∃ j, j < H.ntx i ∧ k = Key.tx i j
        · rw [if_pos c2, if_pos ⟨i, Nat.le_refl _, by omega, c2⟩]
        · rw [if_neg c2, if_neg]
          rintro ⟨x, h1, h2, h3⟩
          by_cases e : x = i
          · subst e; exact c2 h3
          · exact c1 ⟨x, by omega, by omega, h3⟩
    by_cases hS : cnt + 1 = S
    · obtain ⟨bs', v'', rest', hr, hv''⟩ := ih (i + 1) vd [] 0 hb'
      refine ⟨ofWrites (acc ++ w) :: bs', v'', rest', by simp [removeBlocks, hrb, hS, hr], fun k => key k v'' (hv'' k)⟩
    · obtain ⟨bs', v'', rest', hr, hv''⟩ := ih (i + 1) vd (acc ++ w) (cnt + 1) hb'
      refine ⟨bs', v'', rest', by simp [removeBlocks, hrb, hS, hr], fun k => key k v'' (hv'' k)⟩


/-- `d` is `d1` with some records of the range (lo, hi] already reduced to their headers (transactions gone). -/
def PartRemoved (H : Hist) (lo hi : Nat) (d1 d : Db) : Prop :=
  (∀ k, (¬ ∃ x, lo < x ∧ x ≤ hi ∧ (k = Key.exec x ∨ ∃ j, j < H.ntx x ∧ k = Key.tx x j)) → d k = d1 k) ∧
  ∀ x, lo < x → x ≤ hi →
    (d (Key.exec x) = d1 (Key.exec x) ∧ ∀ j, j < H.ntx x → d (Key.tx x j) = d1 (Key.tx x j)) ∨
    (d (Key.exec x) = some (Val.hdr x) ∧ ∀ j, j < H.ntx x → d (Key.tx x j) = none)

theorem partRemoved_refl (H : Hist) (lo hi : Nat) (d1 : Db) : PartRemoved H lo hi d1 d1 :=
  ⟨fun _ _ => rfl, fun _ _ _ => Or.inl ⟨rfl, fun _ _ => rfl⟩⟩

theorem partRemoved_removable {H : Hist} {lo hi : Nat} {d1 d : Db} (h : PartRemoved H lo hi d1 d)
    (hblk : ∀ x, lo < x → x ≤ hi → ∃ y, d1 (Key.exec x) = some (Val.blk y)) (x : Nat) (h1 : lo < x) (h2 : x ≤ hi) :
    Removable H d x := by
  rcases h.2 x h1 h2 with ⟨e, _⟩ | ⟨e, ht⟩
  · left; rw [e]; exact hblk x h1 h2
  · right; exact ⟨⟨x, e⟩, ht⟩

open Classical in
theorem partRemoved_step {H : Hist} {lo hi : Nat} {d1 v vd : Db} {i : Nat} (h : PartRemoved H lo hi d1 v) (h1 : lo < i) (h2 : i ≤ hi)
    (hvd : ∀ k, vd k = if (k = Key.exec i ∨ ∃ j, j < H.ntx i ∧ k = Key.tx i j) then rmVal k else v k) :
    PartRemoved H lo hi d1 vd := by
  refine ⟨?_, ?_⟩
  · intro k hk
    rw [hvd, if_neg]
    · exact h.1 k hk
    · intro c; exact hk ⟨i, h1, h2, c⟩
  · intro x hx1 hx2
    by_cases e : x = i
    · subst e
      right
      refine ⟨by rw [hvd, if_pos (Or.inl rfl)]; rfl, ?_⟩
      intro j hj
      rw [hvd, if_pos (Or.inr ⟨j, hj, rfl⟩)]; rfl
    · have e1 : vd (Key.exec x) = v (Key.exec x) := by
        rw [hvd, if_neg]; rintro (c | ⟨j, _, c⟩) <;> simp at c; exact e c
      have e2 : ∀ j, vd (Key.tx x j) = v (Key.tx x j) := by
        intro j; rw [hvd, if_neg]; rintro (c | ⟨j', _, c⟩) <;> simp at c; exact e c.1
      rw [e1]; simp only [e2]; exact h.2 x hx1 hx2

/-- every prefix of the intermediate batches of the removal loop leaves a partially-removed database. -/
theorem removeBlocks_prefixes {H : Hist} {S lo hi : Nat} {d1 : Db}
    (hblk : ∀ x, lo < x → x ≤ hi → ∃ y, d1 (Key.exec x) = some (Val.blk y)) (fuel : Nat) :
    ∀ (i : Nat) (v : Db) (acc : Writes) (cnt : Nat) (bs : List Batch) (v' : Db) (rest : Writes) (db0 : Db),
    removeBlocks H S i fuel v acc cnt = .ok (bs, v', rest) → v = applyWrites acc db0 →
    PartRemoved H lo hi d1 db0 → PartRemoved H lo hi d1 v → lo < i → i + fuel ≤ hi + 1 →
    ∀ j, j ≤ bs.length → PartRemoved H lo hi d1 (foldBatches (bs.take j) db0) := by
  induction fuel with
  | zero =>
    intro i v acc cnt bs v' rest db0 h _ h0 _ _ _ j hj
    simp [removeBlocks] at h
    obtain ⟨rfl, _, _⟩ := h
    simp at hj; subst hj; exact h0
  | succ fuel ih =>
    intro i v acc cnt bs v' rest db0 h hv h0 hpv hi hle j hj
    obtain ⟨vd, w, hrb, hvd⟩ := removeBlock_spec (partRemoved_removable hpv hblk i hi (by omega))
    have hpvd := partRemoved_step hpv hi (by omega) hvd
    have hvdw : vd = applyWrites (acc ++ w) db0 := by rw [removeBlock_view hrb, applyWrites_append, hv]
    simp only [removeBlocks, hrb] at h
    split at h
    · split at h
      · simp at h
      · rename_i bs' v'' rest' hr
        simp at h
        obtain ⟨rfl, _, _⟩ := h
        cases j with
        | zero => exact h0
        | succ j =>
          simp only [List.take_succ_cons, foldBatches, applyBatch_ofWrites, ← hvdw]
          exact ih (i + 1) vd [] 0 bs' v'' rest' vd hr rfl hpvd hpvd (by omega) (by omega) j (by simpa using hj)
    · exact ih (i + 1) vd (acc ++ w) (cnt + 1) bs v' rest db0 h hvdw h0 hpvd (by omega) (by omega) j hj


open Classical in
/-- the block-removal stage on removable records: it succeeds and leaves the range reduced to headers. -/
theorem stageBlocks_total {H : Hist} {S t cur : Nat} {db : Db} (hr : ∀ x, t < x → x ≤ cur → Removable H db x) :
    ∃ bs d2, stageBlocks H S t cur db = .ok (bs, d2) ∧ d2 Key.stage = some (Val.stagev true stBlocksRemoved) ∧
      ∀ k, k ≠ Key.stage → d2 k = if (∃ x, t < x ∧ x ≤ cur ∧ (k = Key.exec x ∨ ∃ j, j < H.ntx x ∧ k = Key.tx x j)) then rmVal k else db k := by
  obtain ⟨bs', v', rest, hrm, hv'⟩ := removeBlocks_total (H := H) (S := S) (cur - t) (t + 1) db [] 0 (fun x h1 h2 => hr x (by omega) (by omega))
  have hf := removeBlocks_fold (H := H) (S := S) (cur - t) (t + 1) db [] 0 bs' v' rest db hrm rfl
  refine ⟨bs' ++ [ofWrites (rest ++ [marker stBlocksRemoved])], foldBatches (bs' ++ [ofWrites (rest ++ [marker stBlocksRemoved])]) db,
    by simp [stageBlocks, hrm], ?_, ?_⟩
  · rw [foldBatches_append]
    simp [foldBatches, applyBatch_ofWrites, applyWrites_append, applyWrites, marker]
  · intro k hk
    rw [foldBatches_append]
    simp only [foldBatches, applyBatch_ofWrites, applyWrites_append, applyWrites, marker]
    rw [Db.set_other _ _ hk, ← hf, hv']
    by_cases c : ∃ x, t + 1 ≤ x ∧ x < t + 1 + (cur - t) ∧ (k = Key.exec x ∨ ∃ j, j < H.ntx x ∧ k = Key.tx x j)
    · obtain ⟨x, h1, h2, h3⟩ := c
      rw [if_pos ⟨x, h1, h2, h3⟩, if_pos ⟨x, by omega, by omega, h3⟩]
    · rw [if_neg c, if_neg]
      rintro ⟨x, h1, h2, h3⟩
      exact c ⟨x, by omega, by omega, h3⟩

/-- **a reset interrupted INSIDE its block-removal stage resumes** (the stage needs several batches when more
than S blocks are removed): after any number of its intermediate batches the database reopens to the node of
the uninterrupted reset. -/
theorem reset_resumable_inside_block_removal (H : Hist) {B S : Nat} (n n' : Node) (hn : Inv H B n) (hb : ∀ i, i ≤ n.height → ∃ y, n.view (Key.exec i) = some (Val.blk y)) (hc : n.cache = [])
    (t : Nat) (bs : List Batch) (hreset : reset H B S n t = .ok (bs, n')) (hbs : bs ≠ []) :
    ∀ d1, d1 = applyBatch (ofWrites [(Key.syncPoint, some (Val.ptr t)), marker stJumpStarted]) n.db →
    ∃ (b2 : List Batch) (d2 : Db), stageBlocks H S t n.height d1 = .ok (b2, d2) ∧
      ∀ j, j < b2.length → recover H B S (foldBatches (b2.take j) d1) = .ok n' := by
  intro d1 hd1e
  subst hd1e
  obtain ⟨bs', D, rdy, _, hrf, hnar, hle⟩ := reset_unfold hreset hbs
  obtain ⟨b2, d2, cur, x, r, p0, hr, hsb, _, hD, hrdy, _⟩ := reset_stage_idempotent (Or.inl rfl) hrf
  subst hrdy
  have hv : n.view = n.db := by simp [Node.view, hc, applyWrites]
  have hd1 : ∀ k, k ≠ Key.syncPoint → k ≠ Key.stage → applyBatch (ofWrites [(Key.syncPoint, some (Val.ptr t)), marker stJumpStarted]) n.db k = n.db k := by
    intro k h1 h2
    apply applyBatch_fixes
    apply ofWrites_fixes
    intro p hp e
    simp [marker] at hp
    rcases hp with rfl | rfl
    · exact h1 e.symm
    · exact h2 e.symm
  have hcur : cur = n.height := by
    have := hr.cb; rw [hd1 _ (by simp) (by simp), ← hv, hn.cb] at this; simp at this; exact this.symm
  subst hcur
  refine ⟨b2, d2, hsb, ?_⟩
  intro j hj
  have hblk : ∀ i, t < i → i ≤ n.height → ∃ y, (applyBatch (ofWrites [(Key.syncPoint, some (Val.ptr t)), marker stJumpStarted]) n.db) (Key.exec i) = some (Val.blk y) := by
    intro i _ h2; rw [hd1 _ (by simp) (by simp), ← hv]; exact hb i h2
  -- the prefix database is partially removed
  have hpr : PartRemoved H t n.height (applyBatch (ofWrites [(Key.syncPoint, some (Val.ptr t)), marker stJumpStarted]) n.db) (foldBatches (b2.take j) (applyBatch (ofWrites [(Key.syncPoint, some (Val.ptr t)), marker stJumpStarted]) n.db)) := by
    unfold stageBlocks at hsb
    split at hsb
    · simp at hsb
    · rename_i bsi v' rest hrm
      simp at hsb
      obtain ⟨rfl, _⟩ := hsb
      have hj' : j ≤ bsi.length := by simp at hj; omega
      rw [List.take_append_of_le_length hj']
      exact removeBlocks_prefixes hblk (n.height - t) (t + 1) (applyBatch (ofWrites [(Key.syncPoint, some (Val.ptr t)), marker stJumpStarted]) n.db) [] 0 bsi v' rest (applyBatch (ofWrites [(Key.syncPoint, some (Val.ptr t)), marker stJumpStarted]) n.db) hrm rfl
        (partRemoved_refl H t n.height (applyBatch (ofWrites [(Key.syncPoint, some (Val.ptr t)), marker stJumpStarted]) n.db)) (partRemoved_refl H t n.height (applyBatch (ofWrites [(Key.syncPoint, some (Val.ptr t)), marker stJumpStarted]) n.db)) (by omega) (by omega) j hj'
  generalize hdd : foldBatches (b2.take j) (applyBatch (ofWrites [(Key.syncPoint, some (Val.ptr t)), marker stJumpStarted]) n.db) = d at hpr ⊢
  have hout : ∀ k, (∀ i, k ≠ Key.exec i) → (∀ i j, k ≠ Key.tx i j) → d k = (applyBatch (ofWrites [(Key.syncPoint, some (Val.ptr t)), marker stJumpStarted]) n.db) k := by
    intro k h1 h2
    apply hpr.1
    rintro ⟨y, _, _, e | ⟨j, _, e⟩⟩
    · exact h1 y e
    · exact h2 y j e
  have hexle : ∀ i, i ≤ t → d (Key.exec i) = (applyBatch (ofWrites [(Key.syncPoint, some (Val.ptr t)), marker stJumpStarted]) n.db) (Key.exec i) := by
    intro i hi
    apply hpr.1
    rintro ⟨y, h1, _, e | ⟨j, _, e⟩⟩ <;> simp at e; omega
  -- reads, marker, sync point
  have hrd : Reads t n.height x r p0 d := ⟨by rw [hout _ (by simp) (by simp)]; exact hr.cb, by rw [hexle t (Nat.le_refl _)]; exact hr.ex,
    by rw [hout _ (by simp) (by simp)]; exact hr.rt, by rw [hout _ (by simp) (by simp)]; exact hr.ver⟩
  have hst : d Key.stage = some (Val.stagev true stJumpStarted) := by
    rw [hout _ (by simp) (by simp)]; simp [applyBatch_ofWrites, applyWrites, marker]
  have hsp : d Key.syncPoint = some (Val.ptr t) := by
    rw [hout _ (by simp) (by simp)]; simp [applyBatch_ofWrites, applyWrites, marker, Db.set]
  -- the header index
  have hch := hn.ch; have hex := hn.ex; have hpg := hn.pg
  rw [hv] at hch hex hpg
  have hih : initHeaders B d = .ok n.hdrHeight := by
    apply initHeaders_of_inv
    · rw [hout _ (by simp) (by simp), hd1 _ (by simp) (by simp)]; exact hch
    · intro i hi
      by_cases c : t < i ∧ i ≤ n.height
      · rcases hpr.2 i c.1 c.2 with ⟨e, _⟩ | ⟨e, _⟩
        · rw [e]; obtain ⟨y, hy⟩ := hblk i c.1 c.2; rw [hy]; rfl
        · rw [e]; rfl
      · have : d (Key.exec i) = (applyBatch (ofWrites [(Key.syncPoint, some (Val.ptr t)), marker stJumpStarted]) n.db) (Key.exec i) := by
          apply hpr.1
          rintro ⟨y, h1, h2, e | ⟨j, _, e⟩⟩ <;> simp at e
          subst e; exact c ⟨h1, h2⟩
        rw [this, hd1 _ (by simp) (by simp)]; exact hex i hi
    · intro q hq hle'
      rw [hout _ (by simp) (by simp), hd1 _ (by simp) (by simp)]; exact hpg q hq hle'
  -- the removal stage restarted on d ends in the same database d2
  obtain ⟨b2', d2', hsb', hst2', hx'⟩ := stageBlocks_total (H := H) (S := S) (t := t) (cur := n.height) (db := d)
    (fun i h1 h2 => partRemoved_removable hpr hblk i h1 h2)
  obtain ⟨_, hst2, _⟩ := stageBlocks_spec hsb
  have hx := fun k hk => stageBlocks_exact hsb hblk k hk
  have hd2eq : d2' = d2 := by
    funext k
    by_cases hk : k = Key.stage
    · subst hk; rw [hst2', hst2]
    · rw [hx' k hk, hx k hk]
      by_cases c : ∃ y, t < y ∧ y ≤ n.height ∧ (k = Key.exec y ∨ ∃ j, j < H.ntx y ∧ k = Key.tx y j)
      · rw [if_pos c, if_pos c]
      · rw [if_neg c, if_neg c]; exact hpr.1 k c
  subst hd2eq
  have hrf2 : resetFrom H B S t stJumpStarted n.hdrHeight d =
      .ok (b2' ++ [stageCopy t p0 d2', stageHeaders B t n.hdrHeight p0, stageMpt t r, stageGc p0, stageDone], D, true) := by
    rw [resetFrom_reads (by decide) hrd]
    simp [stJumpStarted, stBlocksRemoved, stNewItems, stTransfersReset, hsb', foldBatches, hD]
  rw [recover_resume hrd.ver hih hst hsp hrf2]
  exact hnar


/-- the completed reset: its final database reopens (ordinary start-up, no marker) to the same node. -/
theorem reset_complete_recover (H : Hist) {B S : Nat} (n n' : Node) (t : Nat) (bs : List Batch)
    (hreset : reset H B S n t = .ok (bs, n')) (hbs : bs ≠ []) : recover H B S n'.db = .ok n' := by
  obtain ⟨bs', D, rdy, _, hrf, hnar, _⟩ := reset_unfold hreset hbs
  obtain ⟨b2, d2, cur, x, r, p0, _, _, _, hD, hrdy, _⟩ := reset_stage_idempotent (Or.inl rfl) hrf
  subst hrdy
  have hdb := nodeAfterReset_db hnar
  have hcur : D Key.curBlock = some (Val.ptr t) := by
    rw [hD]; simp [stageDone, stageGc, stageMpt, stageHeaders, applyBatch, W.apply, Db.set, dropStor, resetMptXfer]
  have hstage : D Key.stage = none := by rw [hD]; simp [stageDone, applyBatch, W.apply, Db.set]
  have hroot : D (Key.root t) = some (Val.rootv r) := by
    rw [hD]; simp [stageDone, stageGc, stageMpt, applyBatch, W.apply, Db.set, dropStor, resetMptXfer]
  rw [hdb]
  unfold nodeAfterReset at hnar
  split at hnar
  · simp at hnar
  · rename_i hh hih
    split at hnar
    · rename_i y p it h1 h2 h3
      simp at hnar; subst hnar
      simp [recover, h2, hih, hstage, hcur, hroot, h3]
    · simp at hnar

end NeoModel.Persist
