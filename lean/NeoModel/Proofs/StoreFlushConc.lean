/-
C09 helper lemmas: Persist / PersistSync / writers / readers as concurrent multi-step goroutines with explicit
`plock` and `mut` (Model/Store/Flush.lean). Invariant of every reachable state: the goroutine inside a flush is
the holder of plock (flushes are mutually exclusive), `s.ps` is the backend unless exactly that flush has its
tempstore interposed, whose lower store is the backend; every batch reported as flushed is in the backend;
every write ever made is in the cache's maps, in the tempstore of the flush in flight, or in the backend.
-/
import NeoModel.Model.Store.Flush
set_option linter.unusedSimpArgs false
namespace NeoModel.Store.Flush

structure Inv (s : St) : Prop where
  held : ∀ t, s.plock = some t → 1 ≤ (s.th t).pc ∧ (s.th t).pc ≤ 3
  idle : ∀ t, s.plock ≠ some t → (s.th t).pc = 0
  psIdle : (∀ t, (s.th t).pc ≤ 1) → s.ps = .backend
  psFlight : ∀ t, (s.th t).pc = 2 ∨ (s.th t).pc = 3 → s.ps = .temp t ∧ (s.th t).tgt = .backend
  rep : ∀ b ∈ s.reported, ∀ id ∈ b, id ∈ s.backend
  wrote : ∀ t, (s.th t).pc = 3 → (s.th t).ok = true → ∀ id ∈ (s.th t).batch, id ∈ s.backend
  same : ∀ t, (s.th t).pc = 2 ∨ (s.th t).pc = 3 → (s.th t).batch = (s.th t).tmp
  kept : ∀ id ∈ s.written, id ∈ s.mem ∨ id ∈ s.backend ∨ ∃ t, ((s.th t).pc = 2 ∨ (s.th t).pc = 3) ∧ id ∈ (s.th t).tmp

theorem inv_init : Inv init := by
  constructor <;> simp [init]

theorem setTh_same (s : St) (t : Nat) (v : Th) : (s.setTh t v).th t = v := by simp [St.setTh]
theorem setTh_other (s : St) (t u : Nat) (v : Th) (h : u ≠ t) : (s.setTh t v).th u = s.th u := by simp [St.setTh, h]

theorem inv_step {s s' : St} (h : Inv s) (a : Act) (hs : step false s a = some s') : Inv s' := by
  cases a with
  | lockP t sync =>
    simp only [step] at hs
    split at hs
    · rename_i hc
      obtain ⟨hpc, hpl⟩ := hc
      cases hs
      have hall : ∀ u, (s.th u).pc = 0 := fun u => h.idle u (by rw [hpl]; simp)
      constructor
      · intro u hu
        simp only [St.setTh] at hu ⊢
        have : u = t := by simpa using hu.symm
        subst this; simp
      · intro u hu
        simp only [St.setTh] at hu ⊢
        have : u ≠ t := by intro e; apply hu; rw [e]
        simp [this, hall u]
      · intro _; exact h.psIdle (fun u => by rw [hall u]; omega)
      · intro u hu
        simp only [St.setTh] at hu
        by_cases e : u = t
        · subst e; simp at hu
        · simp [e, hall u] at hu
      · exact h.rep
      · intro u hu
        simp only [St.setTh] at hu
        by_cases e : u = t
        · subst e; simp at hu
        · simp [e, hall u] at hu
      · intro u hu
        simp only [St.setTh] at hu
        by_cases e : u = t
        · subst e; simp at hu
        · simp [e, hall u] at hu
      · intro id hid
        rcases h.kept id hid with h1 | h1 | ⟨u, hu, _⟩
        · exact Or.inl h1
        · exact Or.inr (Or.inl h1)
        · rw [hall u] at hu; omega
    · cases hs
  | «begin» t =>
    simp only [step] at hs
    split at hs
    · rename_i hc
      obtain ⟨hpc, _⟩ := hc
      have hpl : s.plock = some t := by
        apply Classical.byContradiction; intro hne
        have := h.idle t hne; omega
      have hoth : ∀ u, u ≠ t → (s.th u).pc = 0 := fun u hu => h.idle u (by rw [hpl]; intro e; exact hu (Option.some.inj e).symm)
      have hback : s.ps = .backend := h.psIdle (fun u => by
        by_cases e : u = t
        · rw [e, hpc]; omega
        · rw [hoth u e]; omega)
      have hnofl : ∀ u, ¬ ((s.th u).pc = 2 ∨ (s.th u).pc = 3) := fun u => by
        by_cases e : u = t
        · rw [e, hpc]; omega
        · rw [hoth u e]; omega
      split at hs
      · cases hs
        have hall : ∀ u, ((St.setTh { s with plock := none } t { s.th t with pc := 0 }).th u).pc = 0 := fun u => by
          simp only [St.setTh]
          by_cases e : u = t
          · simp [e]
          · simp [e, hoth u e]
        constructor
        · intro u hu; simp [St.setTh] at hu
        · intro u _; exact hall u
        · intro _; simpa [St.setTh] using hback
        · intro u hu; rw [hall u] at hu; omega
        · simpa [St.setTh] using h.rep
        · intro u hu; rw [hall u] at hu; omega
        · intro u hu; rw [hall u] at hu; omega
        · intro i hi
          have hi' : i ∈ s.written := by simpa [St.setTh] using hi
          rcases h.kept i hi' with h1 | h1 | ⟨u, hu, _⟩
          · left; simpa [St.setTh] using h1
          · right; left; simpa [St.setTh] using h1
          · exact absurd hu (hnofl u)
      · cases hs
        constructor
        · intro u hu
          have : u = t := by simp [St.setTh, hpl] at hu; exact hu.symm
          subst this; simp [St.setTh]
        · intro u hu
          have : u ≠ t := by intro e; apply hu; simp [St.setTh, hpl, e]
          simp [St.setTh, this, hoth u this]
        · intro hle
          have := hle t; simp [St.setTh] at this
        · intro u hu
          by_cases e : u = t
          · subst e; simp [St.setTh, hback]
          · simp [St.setTh, e, hoth u e] at hu
        · simpa [St.setTh] using h.rep
        · intro u hu
          by_cases e : u = t
          · subst e; simp [St.setTh] at hu
          · simp [St.setTh, e, hoth u e] at hu
        · intro u hu
          by_cases e : u = t
          · subst e; simp [St.setTh]
          · simp [St.setTh, e, hoth u e] at hu
        · intro i hi
          have hi' : i ∈ s.written := by simpa [St.setTh] using hi
          rcases h.kept i hi' with h1 | h1 | ⟨u, hu, _⟩
          · right; right; exact ⟨t, by simp [St.setTh], by simpa [St.setTh] using h1⟩
          · right; left; simpa [St.setTh] using h1
          · exact absurd hu (hnofl u)
    · cases hs
  | lower t ok =>
    simp only [step] at hs
    split at hs
    · rename_i hpc
      have hpl : s.plock = some t := by
        apply Classical.byContradiction; intro hne
        have := h.idle t hne; omega
      have hoth : ∀ u, u ≠ t → (s.th u).pc = 0 := fun u hu => h.idle u (by rw [hpl]; intro e; exact hu (Option.some.inj e).symm)
      obtain ⟨hps, htg⟩ := h.psFlight t (Or.inl hpc)
      cases hs
      cases ok with
      | false =>
        simp only [Bool.false_eq_true, if_false]
        constructor
        · intro u hu
          have : u = t := by simp [St.setTh, hpl] at hu; exact hu.symm
          subst this; simp [St.setTh]
        · intro u hu
          have : u ≠ t := by intro e; apply hu; simp [St.setTh, hpl, e]
          simp [St.setTh, this, hoth u this]
        · intro hle; have := hle t; simp [St.setTh] at this
        · intro u hu
          by_cases e : u = t
          · subst e; simp [St.setTh, hps, htg]
          · simp [St.setTh, e, hoth u e] at hu
        · simpa [St.setTh] using h.rep
        · intro u hu hok
          by_cases e : u = t
          · subst e; simp [St.setTh] at hok
          · simp [St.setTh, e, hoth u e] at hu
        · intro u hu
          by_cases e : u = t
          · subst e; simpa [St.setTh] using h.same u (Or.inl hpc)
          · simp [St.setTh, e, hoth u e] at hu
        · intro i hi
          have hi' : i ∈ s.written := by simpa [St.setTh] using hi
          rcases h.kept i hi' with h1 | h1 | ⟨u, hu, hm⟩
          · left; simpa [St.setTh] using h1
          · right; left; simpa [St.setTh] using h1
          · have e : u = t := by
              apply Classical.byContradiction; intro e; rw [hoth u e] at hu; omega
            subst e
            right; right; exact ⟨u, by simp [St.setTh], by simpa [St.setTh] using hm⟩
      | true =>
        simp only [if_true, St.putTo, htg]
        constructor
        · intro u hu
          have : u = t := by simp [St.setTh, hpl] at hu; exact hu.symm
          subst this; simp [St.setTh]
        · intro u hu
          have : u ≠ t := by intro e; apply hu; simp [St.setTh, hpl, e]
          simp [St.setTh, this, hoth u this]
        · intro hle; have := hle t; simp [St.setTh] at this
        · intro u hu
          by_cases e : u = t
          · subst e; simp [St.setTh, hps, htg]
          · simp [St.setTh, e, hoth u e] at hu
        · intro b hb i hi
          have := h.rep b (by simpa [St.setTh] using hb) i hi
          simp [St.setTh, this]
        · intro u hu hok i hi
          by_cases e : u = t
          · subst e; simp only [St.setTh, if_true] at hi ⊢
            rw [h.same u (Or.inl hpc)] at hi
            simp [hi]
          · simp [St.setTh, e, hoth u e] at hu
        · intro u hu
          by_cases e : u = t
          · subst e; simpa [St.setTh] using h.same u (Or.inl hpc)
          · simp [St.setTh, e, hoth u e] at hu
        · intro i hi
          have hi' : i ∈ s.written := by simpa [St.setTh] using hi
          rcases h.kept i hi' with h1 | h1 | ⟨u, hu, hm⟩
          · left; simpa [St.setTh] using h1
          · right; left; simp [St.setTh, h1]
          · have e : u = t := by
              apply Classical.byContradiction; intro e; rw [hoth u e] at hu; omega
            subst e
            right; left; simp [St.setTh, hm]
    · cases hs
  | finish t =>
    simp only [step] at hs
    split at hs
    · rename_i hc
      obtain ⟨hpc, _⟩ := hc
      have hpl : s.plock = some t := by
        apply Classical.byContradiction; intro hne
        have := h.idle t hne; omega
      have hoth : ∀ u, u ≠ t → (s.th u).pc = 0 := fun u hu => h.idle u (by rw [hpl]; intro e; exact hu (Option.some.inj e).symm)
      obtain ⟨_, htg⟩ := h.psFlight t (Or.inr hpc)
      cases hs
      have hz : ∀ u, (if u = t then ({ s.th t with pc := 0, tmp := [] } : Th) else s.th u).pc = 0 := fun u => by
        by_cases e : u = t
        · simp [e]
        · simp [e, hoth u e]
      constructor
      · intro u hu; simp [St.setTh] at hu
      · intro u _; simp only [St.setTh]; exact hz u
      · intro _; simp [St.setTh, htg]
      · intro u hu; simp only [St.setTh] at hu; rw [hz u] at hu; omega
      · intro b hb i hi
        simp only [St.setTh] at hb ⊢
        cases hok : (s.th t).ok with
        | false => rw [hok] at hb; simp at hb; exact h.rep b hb i hi
        | true =>
          rw [hok] at hb; simp only [if_true, List.mem_cons] at hb
          rcases hb with rfl | hb
          · exact h.wrote t hpc hok i hi
          · exact h.rep b hb i hi
      · intro u hu; simp only [St.setTh] at hu; rw [hz u] at hu; omega
      · intro u hu; simp only [St.setTh] at hu; rw [hz u] at hu; omega
      · intro i hi
        have hi' : i ∈ s.written := by simpa [St.setTh] using hi
        rcases h.kept i hi' with h1 | h1 | ⟨u, hu, hm⟩
        · left; simp only [St.setTh]; split <;> simp [h1]
        · right; left; simpa [St.setTh] using h1
        · have e : u = t := by
            apply Classical.byContradiction; intro e; rw [hoth u e] at hu; omega
          subst e
          cases hok : (s.th u).ok with
          | false => left; simp [St.setTh, hok, hm]
          | true => right; left; simpa [St.setTh] using h.wrote u hpc hok i (by rw [h.same u (Or.inr hpc)]; exact hm)
    · cases hs
  | write t id =>
    simp only [step] at hs
    split at hs
    · cases hs
      refine ⟨h.held, h.idle, h.psIdle, h.psFlight, h.rep, h.wrote, h.same, ?_⟩
      intro i hi
      simp only [List.mem_append, List.mem_singleton] at hi ⊢
      rcases hi with hi | hi
      · rcases h.kept i hi with h1 | h1 | h1
        · exact Or.inl (Or.inl h1)
        · exact Or.inr (Or.inl h1)
        · exact Or.inr (Or.inr h1)
      · exact Or.inl (Or.inr hi)
    · cases hs
  | read t =>
    simp only [step] at hs
    split at hs
    · cases hs; exact h
    · cases hs
  | direct t => simp [step] at hs


theorem run_inv {s : St} (h : Inv s) (as : List Act) : Inv (run false s as) := by
  induction as generalizing s with
  | nil => exact h
  | cons a as ih =>
    simp only [run]
    cases hs : step false s a with
    | none => exact ih h
    | some s' => exact ih (inv_step h a hs)

/-- a goroutine is inside a flush: it has passed `s.plock.Lock()` and not yet returned. -/
def inFlush (s : St) (t : Nat) : Prop := 1 ≤ (s.th t).pc

theorem flushes_exclusive {s : St} (h : Inv s) (t u : Nat) (ht : inFlush s t) (hu : inFlush s u) : t = u := by
  unfold inFlush at ht hu
  have h1 : s.plock = some t := by
    apply Classical.byContradiction; intro hne; have := h.idle t hne; omega
  have h2 : s.plock = some u := by
    apply Classical.byContradiction; intro hne; have := h.idle u hne; omega
  rw [h1] at h2; exact Option.some.inj h2

/-- regression example (the rule of seeded change C09-m6, `direct = true`): write 1; Persist by goroutine 0
swaps the maps and writes them to the backend; write 2; PersistSync by goroutine 1 bypasses plock, copies {2}
into goroutine 0's tempstore and reports it flushed; goroutine 0's finish drops the tempstore: batch {2} was reported as
flushed, is in no map of the cache and not in the backend. Under the code's rule the same schedule keeps it. -/
theorem direct_sync_loses_batch :
    let sched := [Act.write 2 1, .lockP 0 false, .begin 0, .lower 0 true, .write 2 2, .direct 1, .finish 0]
    let bad := run true init sched
    let good := run false init (sched ++ [.lockP 1 true, .begin 1, .lower 1 true, .finish 1])
    bad.reported = [[1], [2]] ∧ bad.backend = [1] ∧ bad.mem = [] ∧ bad.ps = .backend ∧
    good.reported = [[2], [1]] ∧ good.backend = [1, 2] := by decide

theorem overlap_blocked_values :
    overlapBlocked true 1 = true ∧ overlapBlocked false 1 = true ∧ overlapBlocked true 2 = true ∧ overlapBlocked false 2 = true := by decide

end NeoModel.Store.Flush
