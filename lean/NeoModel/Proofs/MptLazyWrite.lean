/-
Put and Delete on the in-memory representation refine `put` / `delete` of the expanded trie.
-/
import NeoModel.Proofs.MptLazy
import NeoModel.Proofs.MptWF
namespace NeoModel.Mpt

variable {H : Bytes → Bytes} {S : LStore}

theorem rep_lnewSub (p : Path) {l : LNode} {n : Node} (h : LRep H S l n) : LRep H S (lnewSub p l) (newSub p n) := by
  cases p with
  | nil => simpa [lnewSub, newSub] using h
  | cons a p => exact ⟨n, rfl, h⟩

theorem rep_lmkExt (p : Path) {l : LNode} {n : Node} (h : LRep H S l n) : LRep H S (lmkExt p l) (mkExt p n) := by
  cases p with
  | nil => simpa [lmkExt, mkExt] using h
  | cons a p => exact ⟨n, rfl, h⟩

theorem rep_lupd {ls : Nib → LNode} {cs : Nib → Node} (hc : ∀ j, LRep H S (ls j) (cs j)) (i : Nib)
    {c : LNode} {n : Node} (h : LRep H S c n) : ∀ j, LRep H S (lupd ls i c j) (upd cs i n j) := by
  intro j
  unfold lupd upd
  split
  · exact h
  · exact hc j

theorem rep_noKids : ∀ j, LRep H S (lnoKids j) (noKids j) := by intro j; simp [lnoKids, noKids, LRep]

theorem rep_leaf (v : Val) : LRep H S (.leaf v) (.leaf v) := by simp [LRep]

theorem rep_empty : LRep H S .empty .empty := by simp [LRep]

theorem put_slot (w : Option Val) (v : Val) : put (slotNode w) [] v = .leaf v := by
  cases w <;> simp [slotNode, put, newSub]

/-- Put on the in-memory trie: no error, and the result represents `put t p v`. -/
theorem lput_rep : ∀ (f : Nat) (l : LNode) (t : Node) (p : Path) (v : Val), LRep H S l t → need l t ≤ f →
    ∃ l', lput S f l p v = (l', false) ∧ LRep H S l' (put t p v) := by
  intro f
  induction f with
  | zero => intro l t _ _ _ hf; have := need_pos l t; omega
  | succ f ih =>
    intro l t p v hr hf
    cases l with
    | empty =>
      simp [LRep] at hr; subst hr
      exact ⟨_, rfl, by simpa [put] using rep_lnewSub p (rep_leaf v)⟩
    | hash h =>
      obtain ⟨hres, hr'⟩ := rep_hash hr
      obtain ⟨l', hl', hrep⟩ := ih _ t p v hr' (need_hash hf)
      exact ⟨l', by simp [lput, hres, hl'], hrep⟩
    | leaf w =>
      simp [LRep] at hr; subst hr
      cases p with
      | nil => exact ⟨_, rfl, by simp [put, LRep]⟩
      | cons i r =>
        refine ⟨_, rfl, ?_⟩
        simp only [put]
        exact ⟨_, some w, rfl, rep_lupd rep_noKids i (rep_lnewSub r (rep_leaf v)), rep_leaf w⟩
    | ext k n =>
      obtain ⟨m, rfl, hm⟩ := hr
      simp only [lput, put]
      rcases hsp : lcpSplit k p with ⟨c, kr, pr⟩
      cases kr with
      | nil =>
        obtain ⟨n', hn', hrep⟩ := ih n m pr v hm (need_ext hf)
        exact ⟨.ext k n', by simp [hn'], ⟨_, rfl, hrep⟩⟩
      | cons kh kt =>
        cases pr with
        | nil =>
          refine ⟨_, rfl, rep_lmkExt c ?_⟩
          exact ⟨_, some v, rfl, rep_lupd rep_noKids kh (rep_lnewSub kt hm), rep_leaf v⟩
        | cons ph pt =>
          refine ⟨_, rfl, rep_lmkExt c ?_⟩
          exact ⟨_, none, rfl, rep_lupd (rep_lupd rep_noKids kh (rep_lnewSub kt hm)) ph (rep_lnewSub pt (rep_leaf v)), rep_empty⟩
    | branch ls lv =>
      obtain ⟨cs, w, rfl, hc, hv⟩ := hr
      cases p with
      | nil =>
        obtain ⟨lv', hlv', hrep⟩ := ih lv (slotNode w) [] v hv (need_slot hf)
        rw [put_slot] at hrep
        exact ⟨.branch ls lv', by simp [lput, hlv'], ⟨cs, some v, by simp [put], hc, hrep⟩⟩
      | cons i r =>
        obtain ⟨c', hc', hrep⟩ := ih (ls i) (cs i) r v (hc i) (need_kid hf i)
        exact ⟨.branch (lupd ls i c') lv, by simp [lput, hc'], ⟨_, w, by simp [put], rep_lupd hc i hrep, hv⟩⟩

/-- an error of Put leaves the trie as it was. -/
theorem lput_err (S : LStore) : ∀ (f : Nat) (l : LNode) (p : Path) (v : Val), (lput S f l p v).2 = true → (lput S f l p v).1 = l := by
  intro f
  induction f with
  | zero => intro l p v _; rfl
  | succ f ih =>
    intro l p v he
    cases l with
    | empty => simp [lput] at he
    | hash h =>
      simp only [lput] at he ⊢
      cases hres : resolve S h with
      | none => rfl
      | some l' =>
        simp only [hres] at he ⊢
        split
        · rfl
        · next hn => simp [hn] at he
    | leaf w => cases p <;> simp [lput] at he
    | ext k n =>
      simp only [lput] at he ⊢
      rcases hsp : lcpSplit k p with ⟨c, kr, pr⟩
      cases kr with
      | nil =>
        simp only [hsp] at he ⊢
        simp [ih n pr v he]
      | cons kh kt => cases pr <;> simp [hsp] at he
    | branch ls lv =>
      cases p with
      | nil =>
        simp only [lput] at he ⊢
        simp [ih lv [] v he]
      | cons i r =>
        simp only [lput] at he ⊢
        rw [ih (ls i) r v he]
        congr 1
        funext j; unfold lupd; split
        · next e => rw [e]
        · rfl



theorem lkids_rep {ls : Nib → LNode} {cs : Nib → Node} (hc : ∀ j, LRep H S (ls j) (cs j)) : lkids ls = kids cs := by
  unfold lkids kids
  congr 1; funext i; rw [rep_isEmpty (hc i)]

theorem rep_of_empty {l : LNode} (h : LRep H S l .empty) : l = .empty := by
  cases l with
  | empty => rfl
  | hash x => simp [LRep, Node.isEmpty] at h
  | leaf v => simp [LRep] at h
  | ext k n => obtain ⟨_, h, _⟩ := h; cases h
  | branch ls lv => obtain ⟨_, _, h, _⟩ := h; cases h

/-- trie.go:330-340 on expanded nodes. -/
def single (i : Nib) : Node → Node
  | .ext k n => .ext (i :: k) n
  | c => .ext [i] c

theorem collapseBranch_single {cs : Nib → Node} {i : Nib} (h : kids cs = [i]) :
    collapseBranch cs none = single i (cs i) := by
  unfold collapseBranch single
  rw [h]
  rfl

theorem rep_lsingle (i : Nib) {c : LNode} {n : Node} (h : LRep H S c n) (hh : c.isHash = false) :
    LRep H S (lsingle i c) (single i n) := by
  cases c with
  | hash x => simp [LNode.isHash] at hh
  | empty => simp [LRep] at h; subst h; exact ⟨_, rfl, rep_empty⟩
  | leaf v => simp [LRep] at h; subst h; exact ⟨_, rfl, rep_leaf v⟩
  | ext k l => obtain ⟨m, rfl, hm⟩ := h; exact ⟨m, rfl, hm⟩
  | branch ls lv => obtain ⟨cs, v, rfl, hc, hv⟩ := h; exact ⟨_, rfl, ⟨cs, v, rfl, hc, hv⟩⟩

theorem lsingle_isHash (i : Nib) (c : LNode) : (lsingle i c).isHash = false := by
  cases c <;> rfl

/-- the restructuring after a deletion in a branch, with the remaining sibling loaded when needed. -/
theorem lstripDel_rep {ls : Nib → LNode} {lv : LNode} {cs : Nib → Node} {v : Option Val}
    (hc : ∀ j, LRep H S (ls j) (cs j)) (hv : LRep H S lv (slotNode v)) :
    ∃ l', lstripDel S ls lv = (l', false) ∧ LRep H S l' (collapseBranch cs v) ∧
      (l'.isHash = true → (collapseBranch cs v).isExt = false) := by
  have hk := lkids_rep hc
  have he : lv.isEmpty = v.isNone := by rw [rep_isEmpty hv, slotNode_isEmpty]
  unfold lstripDel
  rw [hk, he]
  cases hkc : kids cs with
  | nil =>
    cases v with
    | none => exact ⟨_, rfl, by simp [collapseBranch, hkc]; exact ⟨_, rfl, rep_empty⟩, by simp [LNode.isHash]⟩
    | some w => exact ⟨lv, rfl, by simpa [collapseBranch, hkc, slotNode] using hv, by simp [collapseBranch, hkc, Node.isExt]⟩
  | cons i rest =>
    cases rest with
    | nil =>
      cases v with
      | some w => exact ⟨_, rfl, by simp [collapseBranch, hkc]; exact ⟨cs, some w, rfl, hc, hv⟩, by simp [LNode.isHash]⟩
      | none =>
        rw [collapseBranch_single hkc]
        simp only [Option.isNone_none]
        cases hl : ls i with
        | hash x =>
          have hi := hc i; rw [hl] at hi
          obtain ⟨hres, hr'⟩ := rep_hash hi
          simp only [hres]
          exact ⟨_, rfl, rep_lsingle i hr' (lshallow_isHash _), by simp [lsingle_isHash]⟩
        | empty =>
          have hi := hc i; rw [hl] at hi
          exact ⟨_, rfl, rep_lsingle i hi rfl, by simp [lsingle_isHash]⟩
        | leaf x =>
          have hi := hc i; rw [hl] at hi
          exact ⟨_, rfl, rep_lsingle i hi rfl, by simp [lsingle_isHash]⟩
        | ext k n =>
          have hi := hc i; rw [hl] at hi
          exact ⟨_, rfl, rep_lsingle i hi rfl, by simp [lsingle_isHash]⟩
        | branch a b =>
          have hi := hc i; rw [hl] at hi
          exact ⟨_, rfl, rep_lsingle i hi rfl, by simp [lsingle_isHash]⟩
    | cons j rest =>
      refine ⟨.branch ls lv, ?_, ?_, by simp [LNode.isHash]⟩
      · cases v <;> rfl
      · have : collapseBranch cs v = .branch cs v := by
          unfold collapseBranch; rw [hkc]
        rw [this]; exact ⟨cs, v, rfl, hc, hv⟩

theorem delete_slot (v : Option Val) : delete (slotNode v) [] = .empty := by cases v <;> rfl

theorem rep_isExt_of_not_hash {l : LNode} {t : Node} (h : LRep H S l t) (hh : l.isHash = false) :
    (match l with | .ext _ _ => true | _ => false) = t.isExt := by
  cases l with
  | hash x => simp [LNode.isHash] at hh
  | empty => simp [LRep] at h; subst h; rfl
  | leaf v => simp [LRep] at h; subst h; rfl
  | ext k n => obtain ⟨m, rfl, _⟩ := h; rfl
  | branch ls lv => obtain ⟨_, _, rfl, _⟩ := h; rfl

/-- Delete on the in-memory trie: no error, the result represents `delete t p`, and a HashNode is
returned only for something that is not an extension (so `deleteFromExtension` may keep it as
`next` without loading it, trie.go:361-362). -/
theorem ldel_rep : ∀ (f : Nat) (l : LNode) (t : Node) (p : Path), LRep H S l t → need l t ≤ f →
    ∃ l', ldel S f l p = (l', false) ∧ LRep H S l' (delete t p) ∧
      (l'.isHash = true → (delete t p).isExt = false) := by
  intro f
  induction f with
  | zero => intro l t _ _ hf; have := need_pos l t; omega
  | succ f ih =>
    intro l t p hr hf
    cases l with
    | empty =>
      simp [LRep] at hr; subst hr
      exact ⟨_, rfl, by simp [delete, LRep], by simp [LNode.isHash]⟩
    | hash h =>
      obtain ⟨hres, hr'⟩ := rep_hash hr
      obtain ⟨l', hl', hrep⟩ := ih _ t p hr' (need_hash hf)
      exact ⟨l', by simp [ldel, hres, hl'], hrep⟩
    | leaf w =>
      simp [LRep] at hr; subst hr
      cases p with
      | nil => exact ⟨_, rfl, by simp [delete, LRep], by simp [LNode.isHash]⟩
      | cons i r => exact ⟨_, rfl, by simp [delete, LRep], by simp [LNode.isHash]⟩
    | ext k n =>
      obtain ⟨m, rfl, hm⟩ := hr
      simp only [ldel, delete]
      cases hs : stripPre k p with
      | none => exact ⟨_, rfl, ⟨m, rfl, hm⟩, by simp [LNode.isHash]⟩
      | some rp =>
        obtain ⟨n', hn', hrep, hx⟩ := ih n m rp hm (need_ext hf)
        simp only [hn']
        cases n' with
        | hash x =>
          have hne : (delete m rp).isEmpty = false := hrep.1
          have hnx := hx rfl
          refine ⟨.ext k (.hash x), by simp, ?_, by simp [LNode.isHash]⟩
          cases hd : delete m rp with
          | empty => rw [hd] at hne; simp [Node.isEmpty] at hne
          | ext a b => rw [hd] at hnx; simp [Node.isExt] at hnx
          | leaf a => rw [hd] at hrep; exact ⟨_, rfl, hrep⟩
          | branch a b => rw [hd] at hrep; exact ⟨_, rfl, hrep⟩
        | empty =>
          simp [LRep] at hrep
          rw [hrep]
          exact ⟨.empty, by simp, by simp [LRep], by simp [LNode.isHash]⟩
        | leaf x =>
          simp [LRep] at hrep
          rw [hrep]
          exact ⟨.ext k (.leaf x), by simp, ⟨_, rfl, rep_leaf x⟩, by simp [LNode.isHash]⟩
        | ext k2 n2 =>
          obtain ⟨m2, hm2, hr2⟩ := hrep
          rw [hm2]
          exact ⟨.ext (k ++ k2) n2, by simp, ⟨m2, rfl, hr2⟩, by simp [LNode.isHash]⟩
        | branch a b =>
          obtain ⟨cs, v, hcv, hc, hv⟩ := hrep
          rw [hcv]
          exact ⟨.ext k (.branch a b), by simp, ⟨_, rfl, ⟨cs, v, rfl, hc, hv⟩⟩, by simp [LNode.isHash]⟩
    | branch ls lv =>
      obtain ⟨cs, w, rfl, hc, hv⟩ := hr
      cases p with
      | nil =>
        obtain ⟨lv', hlv', hrep, _⟩ := ih lv (slotNode w) [] hv (need_slot hf)
        rw [delete_slot] at hrep
        have := rep_of_empty hrep; subst this
        simp only [ldel, hlv', delete]
        exact lstripDel_rep (v := none) hc (by simp [slotNode, LRep])
      | cons i r =>
        obtain ⟨c', hc', hrep, _⟩ := ih (ls i) (cs i) r (hc i) (need_kid hf i)
        simp only [ldel, hc', delete]
        exact lstripDel_rep (rep_lupd hc i hrep) hv

end NeoModel.Mpt
