/-
C20 (b) helper lemmas: after every AddMPTNodes item (enough fuel for the depth of the trie) no pending
position has its node in the store already.
-/
import NeoModel.Proofs.StateSyncRestore
namespace NeoModel.StateSync

variable (db : Hash → Option SNode) (root : Hash)

/-- The hash DAG is acyclic: a rank that strictly decreases from a node to its children (with a
collision-free hash a node cannot contain the hash of one of its ancestors). -/
def Ranked (rk : Hash → Nat) : Prop :=
  ∀ h n k, db h = some n → k ∈ n.kids → rk k.2 < rk h

/-- `c` is asked for although it is already in the store. -/
def Dirty (s : MS) (c : Hash) : Prop := (∃ p, (c, p) ∈ s.pool) ∧ 0 < s.refs c

/-- No pending position whose node is already in the store (module.go:678-686 takes care of it). -/
def Clean (s : MS) : Prop := ∀ x ∈ s.pool, s.refs x.1 = 0

theorem clean_iff (s : MS) : Clean s ↔ ∀ c, ¬ Dirty s c := by
  constructor
  · intro h c ⟨⟨p, hp⟩, hr⟩; have := h _ hp; simp at this; omega
  · intro h x hx
    cases hr : s.refs x.1 with
    | zero => rfl
    | succ k => exact absurd ⟨⟨x.2, hx⟩, by omega⟩ (h x.1)

theorem stored_in_db (wf : WF db root) (s : MS) (hi : Inv db root s) (c : Hash) (hr : 0 < s.refs c) :
    ∃ n, db c = some n := by
  rw [hi.refsEq] at hr
  obtain ⟨x, hx⟩ := List.exists_mem_of_length_pos hr
  simp only [List.mem_filter, beq_iff_eq] at hx
  have := wf.closed _ _ (hi.donePos _ hx.1)
  rw [hx.2] at this; exact this

theorem restoreStep_pool (s : MS) (h : Hash) (n : SNode) (y : Hash × Path) :
    y ∈ (restoreStep s h n).pool ↔
      (y ∈ s.pool ∧ y.1 ≠ h) ∨ ∃ q, (h, q) ∈ s.pool ∧ ∃ k ∈ n.kids, y = (k.2, q ++ k.1) := by
  simp only [restoreStep, restoreAll, mem_addAll, mem_removeHash, mem_kids, mem_pathsOf]

theorem restoreStep_refs (s : MS) (h : Hash) (n : SNode) (c : Hash) (hc : c ≠ h) :
    (restoreStep s h n).refs c = s.refs c := by
  simp [restoreStep, restoreAll, hc]

/-- After `restoreNode` (enough fuel) nothing new is dirty and `h` itself is not. -/
theorem restoreNode_dirty (wf : WF db root) (rk : Hash → Nat) (hrk : Ranked db rk) (fuel : Nat) (s : MS)
    (h : Hash) (n : SNode) (hi : Inv db root s) (hn : db h = some n) (hf : rk h < fuel) (c : Hash)
    (hd : Dirty (restoreNode db fuel s h n) c) : Dirty s c ∧ c ≠ h := by
  induction fuel generalizing s h n c with
  | zero => omega
  | succ f ih =>
    rw [restoreNode_succ] at hd
    split at hd
    · rename_i he
      refine ⟨hd, ?_⟩
      rintro rfl
      obtain ⟨⟨p, hp⟩, _⟩ := hd
      have : p ∈ pathsOf s.pool c := (mem_pathsOf _ _ _).2 hp
      cases hpp : pathsOf s.pool c with
      | nil => rw [hpp] at this; cases this
      | cons a r => simp [hpp] at he
    · -- the step, then the stored children
      have hstep := inv_restoreStep db root wf s h n hi hn
      have hkidrk : ∀ k ∈ (pathsOf s.pool h).flatMap (fun p => childrenPaths p n), rk k.1 < f := by
        intro k hk
        obtain ⟨q, _, kk, hkk, rfl⟩ := (mem_kids _ _ _).1 hk
        have := hrk h n kk hn hkk
        simp only; omega
      have hkids2 : ∀ c, Dirty (restoreStep s h n) c →
          (Dirty s c ∧ c ≠ h) ∨ c ∈ ((pathsOf s.pool h).flatMap (fun p => childrenPaths p n)).map (·.1) := by
        intro c ⟨⟨p, hp⟩, hr⟩
        rcases (restoreStep_pool s h n (c, p)).1 hp with ⟨h1, h2⟩ | ⟨q, hq, kk, hkk, he⟩
        · left
          simp only at h2
          rw [restoreStep_refs s h n c h2] at hr
          exact ⟨⟨⟨p, h1⟩, hr⟩, h2⟩
        · right
          simp only [List.mem_map]
          refine ⟨(kk.2, q ++ kk.1), (mem_kids _ _ _).2 ⟨q, (mem_pathsOf _ _ _).2 hq, kk, hkk, rfl⟩, ?_⟩
          simp only [Prod.mk.injEq] at he; exact he.1.symm
      -- fold over the children
      have fold : ∀ (kids : List (Hash × Path)) (s2 : MS), Inv db root s2 → (∀ k ∈ kids, rk k.1 < f) →
          Inv db root (kids.foldl (fun s k => restoreStored db (restoreNode db f) s k.1) s2) ∧
          ∀ c, Dirty (kids.foldl (fun s k => restoreStored db (restoreNode db f) s k.1) s2) c →
            Dirty s2 c ∧ c ∉ kids.map (·.1) := by
        intro kids
        induction kids with
        | nil => intro s2 hi2 _; exact ⟨hi2, fun c hc => ⟨hc, by simp⟩⟩
        | cons k r ihr =>
          intro s2 hi2 hk
          simp only [List.foldl_cons]
          have hone : Inv db root (restoreStored db (restoreNode db f) s2 k.1) ∧
              ∀ c, Dirty (restoreStored db (restoreNode db f) s2 k.1) c → Dirty s2 c ∧ c ≠ k.1 := by
            unfold restoreStored
            split
            · rename_i hpos
              split
              · rename_i cn hcn
                exact ⟨inv_restoreNode db root wf f s2 k.1 cn hi2 (fun m hm => by rw [hcn] at hm; cases hm; rfl),
                  fun c hc => ih s2 k.1 cn hi2 hcn (hk k (by simp)) c hc⟩
              · rename_i hnone
                obtain ⟨m, hm⟩ := stored_in_db db root wf s2 hi2 k.1 hpos
                rw [hm] at hnone; cases hnone
            · rename_i hz
              refine ⟨hi2, fun c hc => ⟨hc, ?_⟩⟩
              rintro rfl; exact hz hc.2
          obtain ⟨hi3, hd3⟩ := ihr _ hone.1 (fun k' hk' => hk k' (by simp [hk']))
          refine ⟨hi3, fun c hc => ?_⟩
          obtain ⟨h1, h2⟩ := hd3 c hc
          obtain ⟨h3, h4⟩ := hone.2 c h1
          refine ⟨h3, ?_⟩
          simp only [List.map_cons, List.mem_cons, not_or]
          exact ⟨h4, h2⟩
      obtain ⟨_, hfin⟩ := fold _ _ hstep hkidrk
      obtain ⟨h1, h2⟩ := hfin c hd
      rcases hkids2 c h1 with h3 | h3
      · exact h3
      · exact absurd h3 h2

theorem clean_restoreNode (wf : WF db root) (rk : Hash → Nat) (hrk : Ranked db rk) (fuel : Nat) (s : MS)
    (h : Hash) (n : SNode) (hi : Inv db root s) (hc : ∀ m, db h = some m → n = m)
    (hf : ∀ h m, db h = some m → rk h < fuel) (hcl : Clean s) : Clean (restoreNode db fuel s h n) := by
  by_cases hreq : ∃ q, (h, q) ∈ s.pool
  · obtain ⟨q, hq⟩ := hreq
    obtain ⟨m, hm⟩ := wf.closed h q (hi.poolPos _ hq)
    have hn : db h = some n := by rw [hc m hm]; exact hm
    rw [clean_iff] at hcl ⊢
    intro c hd
    exact hcl c (restoreNode_dirty db root wf rk hrk fuel s h n hi hn (hf h n hn) c hd).1
  · rw [restoreNode_unrequested db fuel s h n (fun q hq => hreq ⟨q, hq⟩)]; exact hcl

theorem clean_deliver (wf : WF db root) (rk : Hash → Nat) (hrk : Ranked db rk) (fuel : Nat) (s : MS)
    (items : List Item) (hi : Inv db root s) (hok : ∀ it ∈ items, ItemOk db it)
    (hf : ∀ h m, db h = some m → rk h < fuel) (hcl : Clean s) : Clean (deliver db fuel s items).1 := by
  induction items generalizing s with
  | nil => exact hcl
  | cons it r ih =>
    cases it with
    | garbage => exact hcl
    | node h n =>
      simp only [deliver]
      have hk := hok (.node h n) (by simp)
      exact ih _ (inv_restoreNode db root wf fuel s h n hi hk) (fun it hit => hok it (by simp [hit]))
        (clean_restoreNode db root wf rk hrk fuel s h n hi hk hf hcl)

theorem clean_init : Clean (MS.init root) := by
  intro x hx; simp [MS.init]

end NeoModel.StateSync
