/-
C12 proofs, part 5f: KEYS, CONVERT, UNPACK (hand-adjusted counts: `popNoRef`, `refs--`, direct
`DecRC`, `pushItemCounted`).
-/
import NeoModel.Proofs.VmAcctExecC
namespace NeoModel.VmAcct

variable {rest : Nat → Nat} {n : Nat}

theorem cnt_of_prims (j : Nat) (xs : List Item) (h : ∀ x ∈ xs, x.cid = none) : cnt j xs = 0 := by
  induction xs with
  | nil => rfl
  | cons a t ih =>
    simp only [cnt_cons, h a (List.mem_cons_self ..)]
    have := ih (fun x hx => h x (List.mem_cons_of_mem _ hx))
    simp [this]

/-- `refs--; t.DecRC()` on a reference in hand (UNPACK, vm.go:1362-1371): like Remove, but when the
own count reaches 0 the children are not discounted — they are still counted references (the
caller moves them to the stack). -/
theorem inv_decRC_direct {c : Ctr} {f : Nat → Nat} {m : Nat} (e : Item) (id : Nat) (he : e.cid = some id)
    (inv : InvC c (fun j => f j + cnt j [e]) (m + 1)) :
    let c' : Ctr := { heap := decRC c.heap id, refs := c.refs - 1 }
    (rcOf c'.heap id ≠ 0 → InvC c' f m) ∧
    (rcOf c'.heap id = 0 → InvC c' (fun j => f j + cnt j (chOf c.heap id)) (m + (chOf c.heap id).length)) := by
  intro c'
  have hl : id < c.heap.length := inv.valid (d := id) (by simp [cnt_cons, he])
  have hrc := inv.rc id
  simp only [cnt_cons, cnt_nil, he, if_true] at hrc
  have hpos : rcOf c.heap id ≠ 0 := by omega
  have hrc' : rcOf c'.heap id = rcOf c.heap id - 1 := by simp [c', rcOf_decRC, hl]
  constructor
  · intro hne
    have h2 : 2 ≤ rcOf c.heap id := by omega
    refine ⟨HeapWf_decRC id inv.wf, fun j => ?_, ?_⟩
    · have := inv.rc j
      have hh := held_decRC_many (cnt j) c.heap id h2
      simp only [c', rcOf_decRC, heldCnt, cnt_cons, cnt_nil, he] at this ⊢
      by_cases hj : j = id
      · subst hj; simp [hl] at this ⊢; omega
      · have : ¬ (some id = some j) := by simpa using fun e => hj e.symm
        simp [hj, this] at *; omega
    · have := inv.refs
      have hh := held_decRC_many (List.length) c.heap id h2
      simp only [c', heldLen] at this ⊢
      push_cast at this ⊢; omega
  · intro hz
    have h1 : rcOf c.heap id = 1 := by omega
    refine ⟨HeapWf_decRC id inv.wf, fun j => ?_, ?_⟩
    · have := inv.rc j
      have hh := held_decRC_one (cnt j) c.heap id h1
      simp only [c', rcOf_decRC, heldCnt, cnt_cons, cnt_nil, he] at this ⊢
      by_cases hj : j = id
      · subst hj; simp [hl] at this ⊢; omega
      · have : ¬ (some id = some j) := by simpa using fun e => hj e.symm
        simp [hj, this] at *; omega
    · have := inv.refs
      have hh := held_decRC_one (List.length) c.heap id h1
      simp only [c', heldLen] at this ⊢
      push_cast at this ⊢; omega

theorem unpack_inv {w w' : W} (inv : InvW w rest n) (h : execS .unpack w = some (.ok w')) : InvW w' rest n := by
  simp only [execS] at h
  cases hp : w.popNoRef with
  | none => simp [hp] at h
  | some r =>
    obtain ⟨e, w1⟩ := r
    simp only [hp] at h
    obtain ⟨i1, hc1, hst1⟩ := popNoRef_inv inv hp
    cases he : e.cid with
    | none => simp [he] at h
    | some id =>
      simp only [he, W.addRefs, W.setHeap, okW, Option.some.injEq, Outcome.ok.injEq] at h
      rw [← h]
      have hd := inv_decRC_direct (c := w1.c) (f := fun j => cnt j w1.st + rest j) (m := w1.st.length + n) e id he
        (i1.congr (by intro j; simp only []; omega) (by omega))
      have hch : chOf (decRC w1.c.heap id) id = chOf w1.c.heap id := chOf_decRC _ _ _
      have hvalid : ∀ x ∈ chOf w1.c.heap id, WfItem (decRC w1.c.heap id) x := by
        intro x hx d hd'
        simpa using i1.wf id x d hx hd'
      have hsub : w1.c.refs + -1 = w1.c.refs - 1 := by omega
      simp only [hsub, hch]
      by_cases hr : rcOf (decRC w1.c.heap id) id = 0
      · simp only [hr, ne_eq, not_true_eq_false, if_false]
        have i2 := hd.2 hr
        let c2 : Ctr := { heap := decRC w1.c.heap id, refs := w1.c.refs - 1 }
        let w2 : W := { c := c2, st := chOf w1.c.heap id ++ w1.st }
        have i2' : InvW w2 rest n :=
          i2.congr (by intro j; simp only [w2, cnt_append]; omega) (by simp only [w2, List.length_append]; omega)
        exact (push_inv i2' (wfItem_prim _)).1
      · simp only [ne_eq, hr, not_false_eq_true, if_true]
        have i2 := hd.1 hr
        obtain ⟨i3, _⟩ := inv_addAll (chOf w1.c.heap id).reverse (fun x hx => hvalid x (List.mem_reverse.1 hx)) i2
        let c2 : Ctr := { heap := decRC w1.c.heap id, refs := w1.c.refs - 1 }
        let w2 : W := { c := c2.addAll (chOf w1.c.heap id).reverse, st := chOf w1.c.heap id ++ w1.st }
        have i3' : InvW w2 rest n :=
          i3.congr (by intro j; simp only [w2, cnt_append, cnt_reverse]; omega)
            (by simp only [w2, List.length_append, List.length_reverse]; omega)
        exact (push_inv i3' (wfItem_prim _)).1

theorem evens_mem : ∀ (xs : List Item) (x : Item), x ∈ evens xs → x ∈ xs := by
  intro xs
  induction xs using evens.induct with
  | case1 => intro x hx; cases hx
  | case2 k => intro x hx; exact hx
  | case3 k v r ih =>
    intro x hx
    simp only [evens, List.mem_cons] at hx
    rcases hx with rfl | hx
    · simp
    · have := ih x hx; simp [this]

/-- KEYS (vm.go:1729-1746); the keys of a map are primitives (validateMapKey) -/
theorem keys_inv {w w' : W} (inv : InvW w rest n)
    (hkeys : ∀ id r, w.st = .map id :: r → ∀ x ∈ evens (chOf w.c.heap id), x.cid = none)
    (h : execS .keys w = some (.ok w')) : InvW w' rest n := by
  simp only [execS] at h
  cases hp : w.pop with
  | none => simp [hp] at h
  | some r =>
    obtain ⟨m, w1⟩ := r
    simp only [hp] at h
    obtain ⟨i1, ss, _, hst⟩ := pop_inv inv hp
    cases m with
    | prim => simp at h
    | arr _ => simp at h
    | str _ => simp at h
    | map id =>
      simp only [W.alloc, W.setHeap, W.pushNoRef, W.addRefs, okW, Option.some.injEq, Outcome.ok.injEq] at h
      rw [← h]
      have hk : ∀ x ∈ evens (chOf w1.c.heap id), x.cid = none := by
        rw [ss.2 id]; exact hkeys id w1.st hst
      have i2 : InvC { w1.c with refs := w1.c.refs + (evens (chOf w1.c.heap id)).length }
          (fun j => (cnt j w1.st + rest j) + cnt j (evens (chOf w1.c.heap id)))
          ((w1.st.length + n) + (evens (chOf w1.c.heap id)).length) := by
        refine ⟨i1.wf, fun j => ?_, ?_⟩
        · have := i1.rc j; simp only [cnt_of_prims j _ hk]; omega
        · have := i1.refs; push_cast at this ⊢; omega
      have i3 := inv_alloc1 (evens (chOf w1.c.heap id)) i2
      refine ⟨i3.wf, fun j => ?_, ?_⟩
      · have := i3.rc j
        have hm := cnt_mk Kind.arr w1.c.heap.length j
        simp only [cnt_cons, cnt_nil, Kind.mk] at hm ⊢
        dsimp only at this ⊢
        rw [this]; omega
      · have := i3.refs
        simp only [List.length_cons] at this ⊢
        push_cast at this ⊢; omega

theorem convert_inv {w w' : W} (t : Nat) (inv : InvW w rest n) (h : execS (.convert t) w = some (.ok w')) : InvW w' rest n := by
  simp only [execS] at h
  cases hp : w.pop with
  | none => simp [hp] at h
  | some r =>
    obtain ⟨item, w1⟩ := r
    simp only [hp] at h
    obtain ⟨i1, ss, hv, hst⟩ := pop_inv inv hp
    have prim : InvW (w1.push .prim) rest n := (push_inv i1 (wfItem_prim _)).1
    have same : InvW (w1.push item) rest n := (push_inv i1 hv).1
    have copy : ∀ id (k : Kind), InvW ((w1.setHeap (w1.c.heap ++ [{ rc := 0, ch := chOf w1.c.heap id }])).push (k.mk w1.c.heap.length)) rest n := by
      intro id k
      have h0 : InvW (w1.setHeap (w1.c.heap ++ [{ rc := 0, ch := chOf w1.c.heap id }])) rest n :=
        inv_alloc0 (c := w1.c) (chOf w1.c.heap id) (chOf_valid i1 id) i1
      refine (push_inv h0 ?_).1
      intro d hd
      cases k <;> simp only [Kind.mk, Item.cid, Option.some.injEq] at hd <;> subst hd <;> simp [W.setHeap]
    cases item with
    | prim => simp only [okW, Option.some.injEq, Outcome.ok.injEq] at h; rw [← h]; exact prim
    | arr id =>
      simp only at h
      split at h
      · simp only [okW, Option.some.injEq, Outcome.ok.injEq] at h; rw [← h]; exact same
      · split at h
        · simp only [W.alloc, okW, Option.some.injEq, Outcome.ok.injEq] at h; rw [← h]; exact copy id .str
        · split at h
          · simp only [okW, Option.some.injEq, Outcome.ok.injEq] at h; rw [← h]; exact prim
          · cases h
    | str id =>
      simp only at h
      split at h
      · simp only [okW, Option.some.injEq, Outcome.ok.injEq] at h; rw [← h]; exact same
      · split at h
        · simp only [W.alloc, okW, Option.some.injEq, Outcome.ok.injEq] at h; rw [← h]; exact copy id .arr
        · split at h
          · simp only [okW, Option.some.injEq, Outcome.ok.injEq] at h; rw [← h]; exact prim
          · cases h
    | map id =>
      simp only at h
      split at h
      · simp only [okW, Option.some.injEq, Outcome.ok.injEq] at h; rw [← h]; exact same
      · split at h
        · simp only [okW, Option.some.injEq, Outcome.ok.injEq] at h; rw [← h]; exact prim
        · cases h

end NeoModel.VmAcct
