/-
C06 helper lemmas: GAS.OnPersist fee burn (burnOK) follows from the transaction loop.
-/
import NeoModel.Proofs.AddBlockTx
import NeoModel.Model.AddBlock.TxVerify
namespace NeoModel.AddBlock
variable {L : Type}

/-- C06: with VerifyTransactions on, a block that passes the transaction loop can always pay: the fee
burn of GAS.OnPersist cannot fail (so the harness-supplied "fees are burnable" fact is a consequence of the
loop for such blocks; it matters only with VerifyTransactions off or SkipBlockVerification). -/
theorem txLoop_burnOK (env : Env L) (s : Node L) (hv : s.cfg.verifyTx = true) (ts : List Tx)
    (h : txLoop env s [] ts = true) : burnOK (env.balance s.ledger) ts = true := by
  obtain ⟨_, _, h3⟩ := txLoop_compatible env s hv [] ts h
  unfold burnOK
  rw [List.all_eq_true]
  intro t ht
  have := h3 t.sender ⟨t, ht, rfl⟩
  simp only [sumFee, sumBy, List.filter_nil, List.map_nil, List.sum_nil, Nat.zero_add] at this
  exact decide_eq_true this

/-- burnOK says exactly: every sender's balance covers the fees of all of its transactions in the block. -/
theorem burnOK_iff (bal : Nat → Nat) (ts : List Tx) :
    burnOK bal ts = true ↔ ∀ a, (∃ t ∈ ts, t.sender = a) → sumFee ts a ≤ bal a := by
  unfold burnOK
  rw [List.all_eq_true]
  constructor
  · intro h a ⟨t, ht, hta⟩
    have := of_decide_eq_true (h t ht)
    subst hta
    exact this
  · intro h t ht
    exact decide_eq_true (h t.sender ⟨t, ht, rfl⟩)

end NeoModel.AddBlock
