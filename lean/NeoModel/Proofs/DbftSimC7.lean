/- C19 simulation, part C7: initializeConsensus — reset, replay of cached payloads, timer. -/
import NeoModel.Proofs.DbftSimC6
namespace NeoModel.Dbft.Mach
open NeoModel.Dbft

theorem slot_blanks {α : Type} (n j : Nat) : slot (blanks n : List (Option α)) j = none := by
  unfold slot blanks
  by_cases h : j < n
  · simp [h]
  · have : (List.replicate n (none : Option α))[j]? = none := by
      apply List.getElem?_eq_none; simp; omega
    rw [this]; rfl

theorem choose_spec (g : List (Nat × Pl)) (hints : List Nat) (m : Pl) (rest : List (Nat × Pl))
    (h : choose g hints = some (m, rest)) : (∃ k, (k, m) ∈ g) ∧ (∀ x ∈ rest, x ∈ g) ∧ rest.length < g.length := by
  unfold choose at h
  cases g with
  | nil => simp at h
  | cons a t =>
    obtain ⟨k0, m0⟩ := a
    simp only at h
    have hfilt : ∀ (kk : Nat) (mm : Pl) (l : List (Nat × Pl)), (kk, mm) ∈ l →
        (l.filter fun x => x.1 != kk).length < l.length := by
      intro kk mm l hm
      exact List.length_filter_lt_length_iff_exists.mpr ⟨(kk, mm), hm, by simp⟩
    have base : (m0, t.filter fun x => x.1 != k0) = (m, rest) →
        (∃ k, (k, m) ∈ (k0, m0) :: t) ∧ (∀ x ∈ rest, x ∈ (k0, m0) :: t) ∧ rest.length < ((k0, m0) :: t).length := by
      intro he
      simp only [Prod.mk.injEq] at he
      obtain ⟨rfl, rfl⟩ := he
      refine ⟨⟨k0, by simp⟩, fun x hx => List.mem_cons_of_mem _ (List.mem_filter.mp hx).1, ?_⟩
      have := List.length_filter_le (fun x : Nat × Pl => x.1 != k0) t
      simp only [List.length_cons]; omega
    cases hints with
    | nil => simp only [Option.some.injEq] at h; exact base h
    | cons hnt _ =>
      simp only at h
      cases hf : ((k0, m0) :: t).find? (fun x => x.1 == hnt) with
      | none => rw [hf] at h; simp only [Option.some.injEq] at h; exact base h
      | some km =>
        rw [hf] at h
        obtain ⟨k, mm⟩ := km
        simp only [Option.some.injEq, Prod.mk.injEq] at h
        obtain ⟨rfl, rfl⟩ := h
        have hmem := List.mem_of_find?_eq_some hf
        exact ⟨⟨k, hmem⟩, fun x hx => (List.mem_filter.mp hx).1, hfilt k mm _ hmem⟩

/-- dbft.go:119-135: replaying cached payloads -/
theorem prog_replay {e : Env} {i : Nat} {k : W → Pl → W} (hk : KOK e i k) (fuel : Nat) :
    ∀ (g : List (Nat × Pl)) (as : State) (w : W), Good e as i w → (∀ km ∈ g, Claims e as km.2) →
      Prog e i as (replay k fuel w g) := by
  induction fuel with
  | zero => intro g as w h _; exact Prog.of_good h
  | succ f ih =>
    intro g as w h hc
    unfold replay
    cases hch : choose g w.hints with
    | none => exact Prog.of_good h
    | some mr =>
      obtain ⟨m, rest⟩ := mr
      simp only
      obtain ⟨⟨kk, hm⟩, hsub, _⟩ := choose_spec g w.hints m rest hch
      obtain ⟨as1, x1, g1⟩ := hk as w m h (hc _ hm)
      obtain ⟨as2, x2, g2⟩ := ih rest as1 (k w m) g1 (fun km hkm => (hc km (hsub km hkm)).ext x1)
      exact ⟨as2, x1.trans x2, g2⟩

/-- dbft.go:111-160: `initializeConsensus` after `reset` -/
def initTail (k : W → Pl → W) (e : Env) (w : W) (view : Nat) : W :=
  let w := stopTx w
  let box := (w.nd.cache.find? (fun x => x.1 == w.nd.bi)).map (·.2)
  let w := w.upd fun nd => { nd with cache := nd.cache.filter (fun x => x.1 != nd.bi) }
  let w := match box with
    | none => w
    | some b =>
      let w := replay k b.prepare.length w b.prepare
      let w := replay k b.chViews.length w b.chViews
      replay k b.commit.length w b.commit
  let nd := w.nd
  let elapsed : Option (Option Nat) :=
    if nd.lbIndex + 1 == nd.bi then some (nd.lbTime.map fun t => w.now - t) else none
  changeTimer w (roundTimeout e.tpb (nd.isPrimary && !nd.recovering) view nd.view elapsed)

theorem initConsensus_eq (k : W → Pl → W) (e : Env) (w : W) (view ts : Nat) :
    initConsensus k e w view ts = initTail k e (w.upd fun nd => reset e nd view ts) view := rfl

theorem prog_initTail {e : Env} {as : State} {i : Nat} {k : W → Pl → W} {w : W} (hk : KOK e i k)
    (h : Good e as i w) (view : Nat) : Prog e i as (initTail k e w view) := by
  unfold initTail
  simp only
  have h1 := good_stopTx h
  -- what is cached for this height is made of true claims
  have hbox : ∀ b, ((stopTx w).nd.cache.find? (fun x => x.1 == (stopTx w).nd.bi)).map (·.2) = some b →
      ∀ km, (km ∈ b.prepare ∨ km ∈ b.chViews ∨ km ∈ b.commit) → Claims e as km.2 := by
    intro b hb km hkm
    cases hf : (stopTx w).nd.cache.find? (fun x => x.1 == (stopTx w).nd.bi) with
    | none => rw [hf] at hb; cases hb
    | some hb' =>
      rw [hf] at hb
      simp only [Option.map_some, Option.some.injEq] at hb
      have hmem := List.mem_of_find?_eq_some hf
      obtain ⟨hh, bx⟩ := hb'
      simp only at hb
      subst hb
      exact h1.rn.cache hh bx hmem km hkm
  -- dropping the inbox keeps the relation
  have h2 : Good e as i ((stopTx w).upd fun nd => { nd with cache := nd.cache.filter (fun x => x.1 != nd.bi) }) := by
    have rn := h1.rn
    refine ⟨h1.g, ⟨rn.my, rn.lens, rn.chain, rn.height, rn.phase, rn.pidx, rn.prep, rn.commit, rn.cv, rn.lastCv, ?_, rn.own⟩,
      h1.outs, h1.blk, h1.st, h1.lt⟩
    intro hh box hb km hkm
    exact rn.cache hh box (List.mem_filter.mp hb).1 km hkm
  cases hb : ((stopTx w).nd.cache.find? (fun x => x.1 == (stopTx w).nd.bi)).map (·.2) with
  | none => exact Prog.of_good (good_changeTimer h2 _)
  | some b =>
    simp only
    have c := hbox b hb
    obtain ⟨as1, x1, g1⟩ := prog_replay hk b.prepare.length b.prepare as _ h2 (fun km hkm => c km (Or.inl hkm))
    obtain ⟨as2, x2, g2⟩ := prog_replay hk b.chViews.length b.chViews as1 _ g1
      (fun km hkm => (c km (Or.inr (Or.inl hkm))).ext x1)
    obtain ⟨as3, x3, g3⟩ := prog_replay hk b.commit.length b.commit as2 _ g2
      (fun km hkm => ((c km (Or.inr (Or.inr hkm))).ext x1).ext x2)
    exact ⟨as3, (x1.trans x2).trans x3, good_changeTimer g3 _⟩

end NeoModel.Dbft.Mach
