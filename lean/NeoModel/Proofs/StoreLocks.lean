/-
C09 helper lemmas: the locking discipline of persist at the level of map objects. Without a failing
flush no critical section ever writes a map object that was lent to a tempstore (so iterating tempstore
maps without the store's lock is safe, for every schedule); the error branch breaks exactly this.
-/
import NeoModel.Model.Store.Locks
namespace NeoModel.Store.Locks

/-- fresh identities are above everything in use; the store's own maps were never lent. -/
def Good (s : PState) (lent : List Nat) : Prop :=
  s.mem < s.next ∧ s.stor < s.next ∧ s.mem ≠ s.stor ∧ (∀ m ∈ lent, m < s.next) ∧ s.mem ∉ lent ∧ s.stor ∉ lent

theorem good_step {s : PState} {lent : List Nat} (h : Good s lent) (e : Ev) :
    Good (stepG false s e).1 (handedOut s e ++ lent) ∧
      (stepG false s e).2.any (fun m => (handedOut s e ++ lent).contains m) = false := by
  obtain ⟨h1, h2, h3, h4, h5, h6⟩ := h
  cases e with
  | «begin» =>
    cases ht : s.temp with
    | some t => simp [stepG, handedOut, ht, Good]; exact ⟨h1, h2, h3, h4, h5, h6⟩
    | none =>
      simp only [stepG, handedOut, ht, List.any_nil, and_true, Good]
      refine ⟨by omega, by omega, by omega, ?_, ?_, ?_⟩
      · intro m hm
        simp only [List.cons_append, List.nil_append, List.mem_cons] at hm
        rcases hm with rfl | rfl | hm
        · omega
        · omega
        · have := h4 m hm; omega
      · intro hm
        simp only [List.cons_append, List.nil_append, List.mem_cons] at hm
        rcases hm with e | e | hm
        · omega
        · omega
        · have := h4 _ hm; omega
      · intro hm
        simp only [List.cons_append, List.nil_append, List.mem_cons] at hm
        rcases hm with e | e | hm
        · omega
        · omega
        · have := h4 _ hm; omega
  | finishOk => simp [stepG, handedOut, Good]; exact ⟨h1, h2, h3, h4, h5, h6⟩
  | finishFail =>
    cases ht : s.temp with
    | none => simp [stepG, handedOut, ht, Good]; exact ⟨h1, h2, h3, h4, h5, h6⟩
    | some t =>
      obtain ⟨tm, ts⟩ := t
      simp only [stepG, handedOut, ht, Bool.false_eq_true, if_false, List.nil_append, List.any_cons, List.any_nil,
        Bool.or_false, Good]
      exact ⟨⟨h1, h2, h3, h4, h5, h6⟩, by simp [h5, h6]⟩
  | write b =>
    simp only [stepG, handedOut, List.nil_append, List.any_cons, List.any_nil, Bool.or_false]
    refine ⟨⟨h1, h2, h3, h4, h5, h6⟩, ?_⟩
    cases b <;> simp [h5, h6]

/-- for EVERY schedule of client writes and flushes — successful or failing — no critical section ever
writes a map object that was handed to a tempstore: the unprotected iteration of tempstore maps is safe. -/
theorem no_race (s : PState) (lent : List Nat) (h : Good s lent) (es : List Ev) : raceIn s lent es = false := by
  unfold raceIn
  induction es generalizing s lent with
  | nil => rfl
  | cons e es ih =>
    obtain ⟨hg, hw⟩ := good_step h e
    simp only [raceInG, hw, Bool.false_or]
    exact ih _ _ hg

theorem init_good : Good init [] := by simp [Good, init]

/-- regression example, the error branch as it was before 3a75687: the failing flush writes the two map
objects lent to the tempstore, they become the store's maps again and every later client write goes to a
lent map object. -/
theorem race_on_failure_old :
    raceInG true init [] [.begin, .finishFail] = true ∧
    (stepG true (stepG true init .begin).1 .finishFail).1.mem = 0 ∧
    raceInG true (stepG true (stepG true init .begin).1 .finishFail).1 [0, 1] [.write false] = true ∧
    raceIn init [] [.begin, .finishFail, .write false, .write true] = false := by decide

theorem aliased_values :
    aliasedAfter .finishOk = false ∧ aliasedAfter .finishFail = false ∧ aliasedAfterG true .finishFail = true := by decide

end NeoModel.Store.Locks
