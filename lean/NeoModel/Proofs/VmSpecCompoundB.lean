/-
C13 — compound-type instructions, part B: the Map instructions of `execPure` are the functional
ordered map of part A (`lookup`, `keysOf`, `mapSet`, filter), for every key and value.
-/
import NeoModel.Proofs.VmSpecCompound
open NeoModel NeoModel.Vm
namespace NeoModel.Vm.Spec

theorem cloneIfStruct_nonstruct (h : Heap) (v : Item) (hv : ∀ s, v ≠ .struct s) : cloneIfStruct h v = some (h, v) := by
  cases v <;> first | rfl | exact absurd rfl (hv _)

theorem cloneAll_nonstruct (h : Heap) (xs : List Item) (hx : ∀ x ∈ xs, ∀ s, x ≠ .struct s) :
    cloneAll h xs = some (h, xs) := by
  induction xs with
  | nil => rfl
  | cons x rest ih =>
    simp only [cloneAll, cloneIfStruct_nonstruct h x (hx x (List.mem_cons_self))]
    rw [ih (fun y hy => hx y (List.mem_cons_of_mem _ hy))]

def keyNotFound : Item := .bytes (asciiBytes "Key not found in Map")

/-- **map_ops_spec.** On a Map holding the entries `kv`, with a valid key (Boolean, Integer, ByteString of at
most 64 bytes): SETITEM stores `mapSet kv key v` (update in place or insert at the end), PICKITEM pushes
`lookup kv key` or raises the catchable exception "Key not found in Map", HASKEY pushes whether the key is
present, REMOVE filters the entry out, KEYS / VALUES allocate a new Array of the keys / values in insertion
order, SIZE pushes the number of entries, CLEARITEMS empties the map. -/
theorem map_ops_spec (id : Nat) (kv : List (Item × Item)) (key v : Item) (st : List Item) (h : Heap)
    (hkv : h.getEntries id = some kv) (hk : key.validKey = true) (hv : ∀ s, v ≠ .struct s) :
    execPure .setItem [] (v :: key :: .map id :: st) h =
      .ok (.next st (Heap.put h id (.entries (mapSet kv key v)))) ∧
    execPure .pickItem [] (key :: .map id :: st) h =
      (match lookup kv key with
       | some x => .ok (.next (x :: st) h)
       | none => .ok (.throw keyNotFound st h)) ∧
    execPure .hasKey [] (key :: .map id :: st) h = .ok (.next (.bool (lookup kv key).isSome :: st) h) ∧
    execPure .remove [] (key :: .map id :: st) h =
      .ok (.next st (Heap.put h id (.entries (kv.filter (fun e => !(e.1 == key)))))) ∧
    execPure .keys [] (.map id :: st) h = .ok (.next (.array h.size :: st) (h.push (.items (keysOf kv)))) ∧
    execPure .clearItems [] (.map id :: st) h = .ok (.next st (Heap.put h id (.entries []))) := by
  have hnk : (!key.validKey) = false := by simp [hk]
  refine ⟨?_, ?_, ?_, ?_, ?_, ?_⟩
  · simp [execPure, popE, optE, cloneIfStruct_nonstruct h v hv, hnk, hkv, bind, Except.bind]
  · simp only [execPure, popE, optE, hnk, hkv, bind, Except.bind, lookup, Bool.false_eq_true,
      if_false]
    cases hf : List.find? (fun x => x.1 == key) kv with
    | none => simp [keyNotFound]
    | some e => obtain ⟨k0, v0⟩ := e; simp [next1]
  · simp [execPure, popE, optE, hnk, hkv, bind, Except.bind, any_key_eq, next1]
  · simp [execPure, popE, optE, hnk, hkv, bind, Except.bind]
  · simp [execPure, popE, optE, hkv, bind, Except.bind, Heap.alloc, keysOf]
  · simp [execPure, popE, hkv, bind, Except.bind]

theorem map_size_values (id : Nat) (kv : List (Item × Item)) (st : List Item) (h : Heap)
    (hkv : h.getEntries id = some kv) (hv : ∀ e ∈ kv, ∀ s, e.2 ≠ .struct s) :
    execPure .size [] (.map id :: st) h = intResult kv.length st h ∧
    execPure .values [] (.map id :: st) h =
      .ok (.next (.array h.size :: st) (h.push (.items (kv.map (·.2))))) := by
  constructor
  · simp [execPure, popE, optE, hkv, bind, Except.bind, pushIntE_eq]
  · have hc := cloneAll_nonstruct h (kv.map (·.2)) (by
      intro x hx s
      obtain ⟨e, he, rfl⟩ := List.mem_map.mp hx
      exact hv e he s)
    simp [execPure, popE, optE, hkv, bind, Except.bind, Except.map, hc, Heap.alloc]

/-- an invalid key (Null, Buffer, Array, Struct, Map, Pointer, InteropInterface, or a ByteString longer than
64 bytes) FAULTs PICKITEM, SETITEM, REMOVE, HASKEY — uncatchably, whatever the collection is. -/
theorem invalid_key_fault (key obj v : Item) (st : List Item) (h : Heap) (hk : key.validKey = false) :
    isFault (execPure .pickItem [] (key :: obj :: st) h) ∧ isFault (execPure .remove [] (key :: obj :: st) h) ∧
    isFault (execPure .hasKey [] (key :: obj :: st) h) ∧
    ((∀ s, v ≠ .struct s) → isFault (execPure .setItem [] (v :: key :: obj :: st) h)) := by
  have hnk : (!key.validKey) = true := by simp [hk]
  refine ⟨?_, ?_, ?_, ?_⟩
  · simp [execPure, popE, hnk, bind, Except.bind, throw, throwThe, MonadExceptOf.throw, isFault]
  · simp [execPure, popE, hnk, bind, Except.bind, throw, throwThe, MonadExceptOf.throw, isFault]
  · simp [execPure, popE, hnk, bind, Except.bind, throw, throwThe, MonadExceptOf.throw, isFault]
  · intro hv
    simp [execPure, popE, optE, cloneIfStruct_nonstruct h v hv, hnk, bind, Except.bind, throw, throwThe,
      MonadExceptOf.throw, isFault]

example : isFault (execPure .pickItem [] [.null, .map 0] #[.entries []]) :=
  (invalid_key_fault _ _ .null _ _ rfl).1

/-- **packmap_unpack.** UNPACK of a Map pushes its entries (first entry on top, key above value) and their
number; PACKMAP on that stack rebuilds exactly the same entries in the same order, provided the keys are
valid and pairwise different (which every Map built by the VM satisfies: `mapSet_nodup`). -/
theorem packMapLoop_spec : ∀ (kv m : List (Item × Item)) (st : List Item),
    (∀ e ∈ kv, e.1.validKey = true) → NoDupKeys (m ++ kv) →
    packMapLoop kv.length (flattenKV kv ++ st) m = .ok (m ++ kv, st) := by
  intro kv
  induction kv with
  | nil => intro m st _ _; simp [packMapLoop, flattenKV]
  | cons e rest ih =>
    intro m st hvalid hnd
    obtain ⟨k, v⟩ := e
    have hk : k.validKey = true := hvalid (k, v) (List.mem_cons_self)
    have hnew : k ∉ keysOf m := by
      unfold NoDupKeys keysOf at hnd
      simp only [List.map_append, List.map_cons] at hnd
      have := (List.nodup_append.mp hnd).2.2
      intro hin
      exact this k hin k (List.mem_cons_self) rfl
    simp only [List.length_cons, flattenKV, List.cons_append, packMapLoop, hk, if_true]
    rw [mapSet_new m k v hnew, ih (m ++ [(k, v)]) st (fun e he => hvalid e (List.mem_cons_of_mem _ he))
      (by simpa [List.append_assoc] using hnd)]
    simp [List.append_assoc]

theorem packmap_unpack (id : Nat) (kv : List (Item × Item)) (n : Int256) (st : List Item) (h : Heap)
    (hkv : h.getEntries id = some kv) (hvalid : ∀ e ∈ kv, e.1.validKey = true) (hnd : NoDupKeys kv)
    (hn : n.val = kv.length) (hl : kv.length < 2^31) :
    execPure .unpack [] (.map id :: st) h = .ok (.next (.int n :: (flattenKV kv ++ st)) h) ∧
    execPure .packMap [] (.int n :: (flattenKV kv ++ st)) h =
      .ok (.next (.map h.size :: st) (h.push (.entries kv))) := by
  have hlen : ∀ kv : List (Item × Item), (flattenKV kv).length = 2 * kv.length := by
    intro kv; induction kv with
    | nil => rfl
    | cons e r ih => obtain ⟨a, b⟩ := e; simp [flattenKV, ih]; omega
  constructor
  · have hr : inRange (kv.length : Int) = true := by rw [inRange_iff]; omega
    have : (⟨(kv.length : Int), hr⟩ : Int256) = n := Subtype.ext hn.symm
    simp [execPure, popE, optE, hkv, bind, Except.bind, pushIntE_eq, intResult_inRange _ hr, this]
  · have h32 : -(2:Int)^31 ≤ n.val ∧ n.val < (2:Int)^31 := by constructor <;> omega
    have hidx := popIdx_cons (.int n) (flattenKV kv ++ st) n.val rfl h32
    have hloop := packMapLoop_spec kv [] st hvalid (by simpa using hnd)
    have htn : n.val.toNat = kv.length := by omega
    simp only [execPure, hidx, bind, Except.bind, htn, hloop, Heap.alloc]
    simp
    rw [hlen]; omega

example : (execPure .unpack [] [.map 0] #[.entries [(.bool true, .null), (.bytes [], .bool false)]]) =
    .ok (.next [.int ⟨2, by decide⟩, .bool true, .null, .bytes [], .bool false]
      #[.entries [(.bool true, .null), (.bytes [], .bool false)]]) := by decide +kernel

end NeoModel.Vm.Spec
