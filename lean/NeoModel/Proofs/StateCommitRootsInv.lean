/-
C03 helper lemmas: the invariant of stateroot.Module's per-height records and its preservation by
block storage, failed blocks, ResetState and restart.
-/
import NeoModel.Proofs.StateCommitRootsKV
namespace NeoModel.StateCommit.Roots
open NeoModel.Store (lexLt lexLe)

variable {T : Type}

/-- what the records hold: for every height of the surviving chain the root of the trie after that
many change sets; nothing above; the module's own fields agree with the top. -/
structure Inv (O : TrieOps T) (s : St T) : Prop where
  nodup : KeysNodup s.m.store
  len : s.chain.length ≤ 2 ^ 32
  mpt : s.m.mpt = trieAt O.M s.chain
  cur : s.chain ≠ [] → s.m.currentLocal = O.rootOf (trieAt O.M s.chain) ∧ s.m.localHeight = s.chain.length - 1
  recs : ∀ h, h < s.chain.length → ∃ w, kvGet s.m.store (rootKey h) =
    some (encRec { index := h, root := O.rootOf (trieAt O.M (s.chain.take (h + 1))), wit := w })
  above : ∀ h, s.chain.length ≤ h → h < 2 ^ 32 → kvGet s.m.store (rootKey h) = none
  cur0 : s.chain = [] → s.m.currentLocal = List.replicate 32 0

theorem trieAt_snoc (M : AuthMap T) (bs : List (List Change)) (b : List Change) :
    trieAt M (bs ++ [b]) = M.putBatch (trieAt M bs) b := by
  simp [trieAt, List.foldl_append]

theorem kvGet_addLocal (s : KVs) (sr : Rec) (q : Bytes) :
    kvGet (addLocalStateRoot s sr) q =
      if q = localKey then some (le32 sr.index)
      else if q = rootKey sr.index then some (encRec sr) else kvGet s q := by
  unfold addLocalStateRoot
  rw [kvGet_kvPut, kvGet_kvPut]

theorem inv_genesis (O : TrieOps T) : Inv O (genesis O) where
  nodup := by simp [genesis, KeysNodup]
  len := by simp [genesis]
  mpt := rfl
  cur := by simp [genesis]
  recs := by intro h hh; simp [genesis] at hh
  above := by intro h _ _; rfl
  cur0 := fun _ => rfl

theorem inv_block (O : TrieOps T) (s : St T) (hi : Inv O s) (b : List Change) (hlt : s.chain.length < 2 ^ 32) :
    Inv O { m := storeBlock O s.m s.chain.length b, chain := s.chain ++ [b] } := by
  have hmpt : O.M.putBatch s.m.mpt b = trieAt O.M (s.chain ++ [b]) := by rw [trieAt_snoc, hi.mpt]
  refine ⟨?_, ?_, ?_, ?_, ?_, ?_, fun h0 => by simp at h0⟩
  · exact keysNodup_kvPut _ _ _ (keysNodup_kvPut _ _ _ hi.nodup)
  · simp only [List.length_append, List.length_singleton]; omega
  · simp only [storeBlock, addMPTBatch, hmpt]
  · intro _
    simp only [storeBlock, addMPTBatch, hmpt, List.length_append, List.length_singleton]
    constructor
    · first | rfl | trivial
    · omega
  · intro h hh
    simp only [List.length_append, List.length_singleton] at hh
    simp only [storeBlock, addMPTBatch, kvGet_addLocal, rootKey_ne_local, if_false]
    by_cases he : h = s.chain.length
    · subst he
      refine ⟨[0], ?_⟩
      simp only [if_true, hmpt]
      rw [List.take_of_length_le (by simp)]
    · have hlt' : h < s.chain.length := by omega
      rw [if_neg (rootKey_ne h s.chain.length (by omega) hlt he)]
      obtain ⟨w, hw⟩ := hi.recs h hlt'
      refine ⟨w, ?_⟩
      rw [hw, List.take_append_of_le_length (by omega)]
  · intro h hh h32
    simp only [List.length_append, List.length_singleton] at hh
    simp only [storeBlock, addMPTBatch, kvGet_addLocal, rootKey_ne_local, if_false]
    rw [if_neg (rootKey_ne h s.chain.length h32 hlt (by omega))]
    exact hi.above h (by omega) h32

/-- reading a record back. -/
theorem getStateRoot_of_inv (O : TrieOps T) (h32 : ∀ t, (O.rootOf t).length = 32) (s : St T) (hi : Inv O s)
    (h : Nat) (hh : h < s.chain.length) :
    ∃ w, getStateRoot s.m h = some { index := h, root := O.rootOf (trieAt O.M (s.chain.take (h + 1))), wit := w } := by
  obtain ⟨w, hw⟩ := hi.recs h hh
  refine ⟨w, ?_⟩
  unfold getStateRoot
  rw [hw]
  simp only [Option.bind_some]
  exact decRec_encRec _ (by have := hi.len; simp only; omega) (h32 _)

theorem inv_restart (O : TrieOps T) (hre : ∀ t, O.reopen (O.rootOf t) = t) (h32 : ∀ t, (O.rootOf t).length = 32)
    (s : St T) (hi : Inv O s) (m' : Module T) (hm : init O s.m (s.chain.length - 1) = some m') :
    Inv O { s with m := m' } := by
  unfold init at hm
  by_cases hne : s.chain = []
  · have hg : getStateRoot s.m 0 = none := by
      unfold getStateRoot
      rw [hi.above 0 (by simp [hne]) (by decide)]; rfl
    simp only [hne, List.length_nil, Nat.zero_sub, hg, if_true, Option.some.injEq] at hm
    subst hm
    exact ⟨hi.nodup, hi.len, hi.mpt, fun h => absurd hne h, hi.recs, hi.above, fun _ => rfl⟩
  · have hpos : 0 < s.chain.length := List.length_pos_iff.mpr hne
    obtain ⟨w, hw⟩ := getStateRoot_of_inv O h32 s hi (s.chain.length - 1) (by omega)
    have ht : s.chain.take (s.chain.length - 1 + 1) = s.chain := by
      rw [List.take_of_length_le (by omega)]
    rw [hw, ht] at hm
    simp only [Option.some.injEq] at hm
    subst hm
    refine ⟨hi.nodup, hi.len, ?_, ?_, hi.recs, hi.above, fun h0 => absurd h0 hne⟩
    · exact hre _
    · intro _; exact ⟨rfl, rfl⟩

theorem inv_reset (O : TrieOps T) (hre : ∀ t, O.reopen (O.rootOf t) = t) (h32 : ∀ t, (O.rootOf t).length = 32)
    (s : St T) (hi : Inv O s) (h : Nat) (hh : h < s.chain.length)
    (m' : Module T) (hm : resetState O s.m h = some m') :
    Inv O { m := m', chain := s.chain.take (h + 1) } := by
  have hlen32 : h < 2 ^ 32 := by have := hi.len; omega
  obtain ⟨w, hw⟩ := getStateRoot_of_inv O h32 s hi h hh
  unfold resetState at hm
  rw [hw] at hm
  simp only [Option.some.injEq] at hm
  -- names
  generalize hsr : ({ index := h, root := O.rootOf (trieAt O.M (s.chain.take (h + 1))), wit := w } : Rec) = sr at hm
  have hsri : sr.index = h := by rw [← hsr]
  generalize hc1 : addLocalStateRoot s.m.store sr = c1 at hm
  have hn1 : KeysNodup c1 := by
    rw [← hc1]; exact keysNodup_kvPut _ _ _ (keysNodup_kvPut _ _ _ hi.nodup)
  have hg1 : ∀ q, kvGet c1 q = if q = localKey then some (le32 h)
      else if q = rootKey h then some (encRec sr) else kvGet s.m.store q := by
    intro q; rw [← hc1, kvGet_addLocal, hsri]
  -- the seek result starts with the record of h
  generalize hL : seekFwd c1 [dataMPTAux] (be32 h) = L at hm
  have hmemL : ∀ e, e ∈ L ↔ e ∈ c1 ∧ ([dataMPTAux].isPrefixOf e.1 && lexLe (rootKey h) e.1) = true := by
    intro e
    rw [← hL]; unfold seekFwd
    rw [mem_sortK, List.mem_filter]; rfl
  have hLs : SortedK L := by
    rw [← hL]; unfold seekFwd
    apply sorted_sortK
    unfold KeysNodup at *
    exact hn1.sublist (List.Sublist.map _ List.filter_sublist)
  have hsrIn : (rootKey h, encRec sr) ∈ L := by
    rw [hmemL]
    refine ⟨mem_of_kvGet _ _ _ (by rw [hg1, if_neg (rootKey_ne_local h), if_pos rfl]), ?_⟩
    simp [rootKey, Store.lexLe_refl]
  obtain ⟨rest, hLeq, hrest⟩ := head_of_sorted L (rootKey h) (encRec sr) hLs
    (fun e he => by have := ((hmemL e).mp he).2; simp only [Bool.and_eq_true] at this; exact this.2) hsrIn
  have hloop : (L.foldl (resetStep (rootKey h)) (false, c1)).2 = delAll c1 rest := by
    rw [hLeq, List.foldl_cons]
    have : resetStep (rootKey h) (false, c1) (rootKey h, encRec sr) = (true, c1) := by
      simp [resetStep, rootKey_length]
    rw [this, loop_seen]
  rw [hloop] at hm
  generalize hc2 : delAll c1 rest = c2 at hm
  have hn2 : KeysNodup c2 := by rw [← hc2]; exact keysNodup_delAll _ _ hn1
  -- reads of c2 at record keys
  have hg2_low : ∀ h', h' ≤ h → kvGet c2 (rootKey h') = kvGet c1 (rootKey h') := by
    intro h' hle
    rw [← hc2, kvGet_delAll]
    have : ¬ ((rootKey h').length = 5 ∧ rootKey h' ∈ rest.map (·.1)) := by
      rintro ⟨_, hin⟩
      obtain ⟨e, he, hek⟩ := List.mem_map.mp hin
      have h1 := hrest e he
      rw [hek, lexLt_rootKey h h' hlen32 (by omega)] at h1
      simp at h1; omega
    rw [if_neg this]
  have hg2_high : ∀ h', h < h' → h' < 2 ^ 32 → kvGet c2 (rootKey h') = none := by
    intro h' hlt h32'
    rw [← hc2, kvGet_delAll]
    by_cases hin : rootKey h' ∈ rest.map (·.1)
    · rw [if_pos ⟨rootKey_length h', hin⟩]
    · rw [if_neg (fun hc => hin hc.2)]
      cases hget : kvGet c1 (rootKey h') with
      | none => rfl
      | some val =>
        exfalso
        have hmem := mem_of_kvGet _ _ _ hget
        have hlt' : lexLt (rootKey h) (rootKey h') = true := by
          rw [lexLt_rootKey h h' hlen32 h32']; simpa using hlt
        have hinL : (rootKey h', val) ∈ L := by
          rw [hmemL]
          refine ⟨hmem, ?_⟩
          have : lexLe (rootKey h) (rootKey h') = true := (Store.lexLe_iff _ _).mpr (Or.inl hlt')
          simpa [rootKey] using this
        rw [hLeq] at hinL
        rcases List.mem_cons.mp hinL with he | he
        · simp only [Prod.mk.injEq] at he
          exact rootKey_ne h' h h32' hlen32 (by omega) he.1
        · exact hin (List.mem_map.mpr ⟨_, he, rfl⟩)
  have hlen' : (s.chain.take (h + 1)).length = h + 1 := by
    rw [List.length_take]; omega
  -- whatever happens to the validated key does not touch the records
  have fin : ∀ c3 : KVs, (∀ h', kvGet c3 (rootKey h') = kvGet c2 (rootKey h')) → KeysNodup c3 →
      Inv O { m := { store := c3, mpt := O.reopen sr.root, currentLocal := sr.root, localHeight := sr.index },
              chain := s.chain.take (h + 1) } := by
    intro c3 hg3 hn3
    refine ⟨hn3, ?_, ?_, ?_, ?_, ?_, fun h0 => by have := congrArg List.length h0; rw [hlen'] at this; simp at this⟩
    · rw [hlen']; omega
    · simp only [← hsr]; exact hre _
    · intro _
      simp only [← hsr, hlen']
      constructor
      · first | rfl | trivial
      · omega
    · intro h' hh'
      rw [hlen'] at hh'
      show ∃ w, kvGet c3 (rootKey h') = _
      rw [hg3, hg2_low h' (by omega), hg1, if_neg (rootKey_ne_local h')]
      simp only [List.take_take]
      by_cases he : h' = h
      · subst he
        refine ⟨w, ?_⟩
        rw [if_pos rfl, ← hsr]
        simp
      · rw [if_neg (rootKey_ne h' h (by omega) hlen32 he)]
        obtain ⟨w', hw'⟩ := hi.recs h' (by omega)
        refine ⟨w', ?_⟩
        rw [hw']
        have : min (h' + 1) (h + 1) = h' + 1 := by omega
        rw [this]
    · intro h' hh' h32'
      rw [hlen'] at hh'
      show kvGet c3 (rootKey h') = none
      rw [hg3]
      exact hg2_high h' (by omega) h32'
  subst hm
  subst hsr
  cases findValidated c2 h with
  | some x =>
    exact fin (kvPut c2 validatedKey (le32 x))
      (fun h' => by simp only [kvGet_kvPut, rootKey_ne_validated, if_false]) (keysNodup_kvPut _ _ _ hn2)
  | none =>
    exact fin (kvDel c2 validatedKey)
      (fun h' => by simp only [kvGet_kvDel, rootKey_ne_validated, if_false]) (keysNodup_kvDel _ _ hn2)

/-- a block whose batch was applied and that is then not stored: `DropMPTBatch` reloads the trie of the
current local root — the trie of the chain again. -/
theorem inv_failed (O : TrieOps T) (hre : ∀ t, O.reopen (O.rootOf t) = t) (s : St T) (hi : Inv O s) :
    Inv O { s with m := dropMPTBatch O s.m } := by
  refine ⟨hi.nodup, hi.len, ?_, hi.cur, hi.recs, hi.above, hi.cur0⟩
  show (if s.m.currentLocal = List.replicate 32 0 then O.M.empty else O.reopen s.m.currentLocal) = trieAt O.M s.chain
  by_cases hne : s.chain = []
  · rw [if_pos (hi.cur0 hne), hne]; rfl
  · obtain ⟨hc, _⟩ := hi.cur hne
    split
    · rename_i hz
      -- the chain's root is the zero hash = the root of the empty trie: the tries coincide
      have : O.rootOf (trieAt O.M s.chain) = O.rootOf O.M.empty := by rw [← hc, hz, O.rootOf_empty]
      have h2 := congrArg O.reopen this
      rw [hre, hre] at h2
      exact h2.symm
    · rw [hc]; exact hre _

theorem inv_validated (O : TrieOps T) (h32 : ∀ t, (O.rootOf t).length = 32) (s : St T) (hi : Inv O s)
    (sr : Rec) (v : Bool) (hidx : sr.index < 2 ^ 32) :
    Inv O { s with m := addStateRoot s.m sr v } := by
  unfold addStateRoot
  cases v with
  | false => exact hi
  | true =>
    simp only [Bool.not_true, Bool.false_eq_true, if_false]
    cases hg : getStateRoot s.m sr.index with
    | none => exact hi
    | some loc =>
      simp only
      split
      · exact hi
      · rename_i hroot
        split
        · exact hi
        · -- the record of sr.index exists, so sr.index is a height of the chain
          have hlt : sr.index < s.chain.length := by
            by_cases hlt : sr.index < s.chain.length
            · exact hlt
            · exfalso
              have := hi.above sr.index (by omega) hidx
              unfold getStateRoot at hg
              rw [this] at hg; cases hg
          obtain ⟨w, hw⟩ := getStateRoot_of_inv O h32 s hi sr.index hlt
          rw [hw] at hg
          simp only [Option.some.injEq] at hg
          have hsr : sr.root = O.rootOf (trieAt O.M (s.chain.take (sr.index + 1))) := by
            have : loc.root = sr.root := by simpa using hroot
            rw [← this, ← hg]
          refine ⟨keysNodup_kvPut _ _ _ (keysNodup_kvPut _ _ _ hi.nodup), hi.len, hi.mpt, hi.cur, ?_, ?_, hi.cur0⟩
          · intro h hh
            have hh' : h < s.chain.length := hh
            show ∃ w, kvGet (kvPut (kvPut s.m.store (rootKey sr.index) (encRec sr)) validatedKey (le32 sr.index)) (rootKey h) = _
            rw [kvGet_kvPut, if_neg (rootKey_ne_validated h), kvGet_kvPut]
            by_cases he : h = sr.index
            · subst he
              refine ⟨sr.wit, ?_⟩
              rw [if_pos rfl, ← hsr]
            · rw [if_neg (rootKey_ne h sr.index (by have := hi.len; omega) hidx he)]
              exact hi.recs h hh'
          · intro h hh h32'
            have hh' : s.chain.length ≤ h := hh
            show kvGet (kvPut (kvPut s.m.store (rootKey sr.index) (encRec sr)) validatedKey (le32 sr.index)) (rootKey h) = none
            rw [kvGet_kvPut, if_neg (rootKey_ne_validated h), kvGet_kvPut,
              if_neg (rootKey_ne h sr.index h32' hidx (by omega))]
            exact hi.above h hh' h32'

end NeoModel.StateCommit.Roots
