/-
C06 — tie by translation: the hand-written model of verifyAndPoolTx (Model/AddBlock/TxVerify.verifyTx,
followed by pool.Add's answer) makes the decisions of `NeoModel.Generated.GoFuncs.verifyAndPoolTx`, the
definition re-translated from pkg/core/blockchain.go on every check run (harness/cmd/extract/gofuncs.go),
in the same order and with the same error class — for every chain state and transaction. A reordering
or removal of a check in the Go function changes the generated definition and this proof stops checking.
-/
import NeoModel.Generated.GoFuncs
import NeoModel.Model.AddBlock.TxVerify
namespace NeoModel.AddBlock
open NeoModel.Generated

/-- the outcome labels of the translated `verifyAndPoolTx` (harness/cmd/extract/gofuncs.go): "ok", the
sentinel error named in the `return`, or the name of the error-valued leaf that decided. -/
def txLabel : Option TxErr → String
  | none => "ok"
  | some .invalidScript => "ErrInvalidScript"
  | some .expired => "ErrTxExpired"
  | some .notYetValid => "ErrTxNotYetValid"
  | some .policy => "ErrPolicy"
  | some .tooBig => "ErrTxTooBig"
  | some .smallNetFee => "ErrTxSmallNetworkFee"
  | some .alreadyExists => "ErrAlreadyExists"
  | some .hasConflicts => "ErrHasConflicts"
  | some .witness => "bc_verifyTxWitnesses_t_nil_isPartialTx_netFee_err"
  | some .invalidAttr => "bc_verifyTxAttributes_bc_dao_t_isPartialTx_err"
  | some .poolDup => "ErrAlreadyInPool"
  | some .poolConflictsAttr => "ErrHasConflicts"
  | some .insufficientFunds => "ErrInsufficientFunds"
  | some .poolConflict => "ErrMemPoolConflict"
  | some _ => "?"

/-- an error of pool.Add as the scratch pool of AddBlock can give it -/
def isPoolErr : Option TxErr → Bool
  | none | some .poolDup | some .poolConflictsAttr | some .insufficientFunds | some .poolConflict => true
  | _ => false

/-- verifyAndPoolTx as a whole: the checks before pool.Add, then pool.Add's answer `pe`. -/
def verifyAndPool (c : Chain) (t : VTx) (pe : Option TxErr) : Option TxErr :=
  match verifyTx c t with
  | some e => some e
  | none => pe

theorem verifyTx_eq_translated (c : Chain) (t : VTx) (pe : Option TxErr) (hp : isPoolErr pe = true)
    (hw : c.height + c.maxVUBInc < 2 ^ 32) :
    GoFuncs.verifyAndPoolTx (!t.scriptOk) (c.height : Int) false (t.vub : Int) (c.maxVUBInc : Int)
      (t.accounts.any c.blocked) (t.size : Int) (c.feePerByte : Int) (attrsFee c t.signers.length t.attrs : Int) (t.netFee : Int)
      ((c.lookup t.id == .tx) || stubHits (c.lookup t.id) t.accounts c.height c.mtb)
      (c.lookup t.id == .tx) (stubHits (c.lookup t.id) t.accounts c.height c.mtb)
      (verifyWitnesses c (t.netFee - needFee c t) t.wits).isNone (!verifyAttrs c t)
      pe.isSome (pe == some .poolConflict) (pe == some .poolDup) (pe == some .insufficientFunds) false
      (pe == some .poolConflictsAttr)
    = txLabel (verifyAndPool c t pe) := by
  have hwrap : (((c.height : Int) + (c.maxVUBInc : Int)) % 4294967296) = (c.height : Int) + (c.maxVUBInc : Int) := by omega
  have hn : (t.size : Int) * (c.feePerByte : Int) + (attrsFee c t.signers.length t.attrs : Int) = (needFee c t : Int) := by
    unfold needFee; rw [Int.natCast_add, Int.natCast_mul]
  unfold GoFuncs.verifyAndPoolTx verifyAndPool verifyTx
  simp only [hwrap, hn]
  cases h1 : t.scriptOk
  · simp [txLabel]
  by_cases h2 : t.vub ≤ c.height
  · have : (t.vub : Int) ≤ (c.height : Int) := by omega
    simp [h2, this, txLabel]
  have h2' : ¬ ((t.vub : Int) ≤ (c.height : Int)) := by omega
  by_cases h3 : t.vub > c.height + c.maxVUBInc
  · have : (t.vub : Int) > (c.height : Int) + (c.maxVUBInc : Int) := by omega
    simp [h2, h2', h3, this, txLabel]
  have h3' : ¬ ((t.vub : Int) > (c.height : Int) + (c.maxVUBInc : Int)) := by omega
  cases h4 : t.accounts.any c.blocked
  case true => simp [h2, h2', h3, h3', txLabel]
  by_cases h5 : t.size > maxTransactionSize
  · have : (t.size : Int) > 102400 := by unfold maxTransactionSize at h5; omega
    simp [h2, h2', h3, h3', h5, this, txLabel]
  have h5' : ¬ ((t.size : Int) > 102400) := by unfold maxTransactionSize at h5; omega
  by_cases h6 : t.netFee < needFee c t
  · have : (t.netFee : Int) - (needFee c t : Int) < 0 := by omega
    simp [h2, h2', h3, h3', h5, h5', h6, this, txLabel]
  have h6' : ¬ ((t.netFee : Int) - (needFee c t : Int) < 0) := by omega
  simp only [h2, h2', h3, h3', h5, h5', h6, h6', if_false, Bool.not_true, Bool.false_eq_true, decide_false,
    if_true, not_false_eq_true]
  generalize verifyWitnesses c (t.netFee - needFee c t) t.wits = w
  generalize verifyAttrs c t = av
  have hpe : pe = none ∨ pe = some .poolDup ∨ pe = some .poolConflictsAttr ∨ pe = some .insufficientFunds ∨ pe = some .poolConflict := by
    cases pe with
    | none => exact Or.inl rfl
    | some e => cases e <;> simp [isPoolErr] at hp <;> simp
  cases h7 : c.lookup t.id with
  | tx => simp [txLabel]
  | none =>
    simp only [stubHits]
    rcases hpe with rfl | rfl | rfl | rfl | rfl <;> cases w <;> cases av <;> simp [txLabel]
  | block =>
    simp only [stubHits]
    rcases hpe with rfl | rfl | rfl | rfl | rfl <;> cases w <;> cases av <;> simp [txLabel]
  | stub i sg =>
    simp only []
    generalize stubHits (Rec.stub i sg) t.accounts c.height c.mtb = sh
    rcases hpe with rfl | rfl | rfl | rfl | rfl <;> cases sh <;> cases w <;> cases av <;> simp [txLabel]

/-- `isTraceableBlock` (pkg/core/dao/dao.go), translated, is the model's `isTraceable` (indices far below
2^32: no wrap of `index + MaxTraceableBlocks`). -/
theorem isTraceable_eq_translated (index height mtb : Nat) (hw : index + mtb < 2 ^ 32) :
    GoFuncs.isTraceableBlock (height : Int) (mtb : Int) (index : Int) = isTraceable index height mtb := by
  have hwrap : (((index : Int) + (mtb : Int)) % 4294967296) = (index : Int) + (mtb : Int) := by omega
  unfold GoFuncs.isTraceableBlock isTraceable
  simp only [hwrap]
  by_cases h1 : index ≤ height <;> by_cases h2 : index + mtb > height <;> simp [h1, h2] <;> omega

-- non-vacuity, at the boundary: a record made at height 3 with a window of 5 counts at 7, not at 8
example : GoFuncs.isTraceableBlock 7 5 3 = true ∧ GoFuncs.isTraceableBlock 8 5 3 = false ∧
    GoFuncs.isTraceableBlock 2 5 3 = false := by decide

/-- the label of the off-chain entry's own check -/
def offLabel : Option TxErr → String
  | none => "ok"
  | some .sysFeeLimit => "ErrPolicy"
  | some _ => "bc_verifyAndPoolTx_t_pool_feer_data_err"

/-- `verifyAndPoolOffChainTx` (VerifyTx / PoolTx), translated, is the model's `verifyOffChain`: the
MaxBlockSystemFee test comes first and only then verifyAndPoolTx (here with an empty pool: the balance test). -/
theorem verifyOffChain_eq_translated (c : Chain) (bal : Nat) (t : VTx)
    (hne : verifyTx c t ≠ some .sysFeeLimit) :
    GoFuncs.verifyAndPoolOffChainTx (t.sysFee : Int) (c.maxBlockSysFee : Int)
      (verifyAndPool c t (if bal < t.sysFee + t.netFee then some .insufficientFunds else none)).isSome
    = offLabel (verifyOffChain c bal t) := by
  unfold GoFuncs.verifyAndPoolOffChainTx verifyOffChain verifyAndPool
  by_cases h1 : t.sysFee > c.maxBlockSysFee
  · have : (t.sysFee : Int) > (c.maxBlockSysFee : Int) := by omega
    simp [h1, this, offLabel]
  · have : ¬ ((t.sysFee : Int) > (c.maxBlockSysFee : Int)) := by omega
    simp only [h1, this, if_false]
    cases hv : verifyTx c t with
    | some e =>
      cases e <;> first | exact absurd hv hne | simp [offLabel]
    | none =>
      by_cases h2 : bal < t.sysFee + t.netFee <;> simp [h2, offLabel]

/-- the result of `uint256.Int.Cmp` -/
def cmpNat (a b : Nat) : Int := if a < b then -1 else if a = b then 0 else 1

theorem cmpNat_neg (a b : Nat) : cmpNat a b < 0 ↔ a < b := by
  unfold cmpNat
  by_cases h1 : a < b
  · simp [h1]
  · by_cases h2 : a = b <;> simp [h1, h2]

/-- `mempool.checkBalance` (mem_pool.go:218-230), translated, makes the two balance decisions of the
model's scratch pool (`poolAddE`: ErrInsufficientFunds when the balance does not cover this transaction's
fees, ErrConflict when it does not cover them on top of the sender's pooled fees), in this order. -/
theorem checkBalance_eq_translated (bal fee pooled : Nat) :
    (GoFuncs.mempoolCheckBalance (cmpNat bal fee) (cmpNat bal (fee + pooled))).2.1 =
      (if bal < fee then "ErrInsufficientFunds" else if bal < fee + pooled then "ErrConflict" else "ok") := by
  unfold GoFuncs.mempoolCheckBalance
  simp only [cmpNat_neg]
  by_cases h1 : bal < fee
  · simp [h1]
  · by_cases h2 : bal < fee + pooled <;> simp [h1, h2]

example : (GoFuncs.mempoolCheckBalance (cmpNat 10 11) (cmpNat 10 20)).2.1 = "ErrInsufficientFunds" ∧
    (GoFuncs.mempoolCheckBalance (cmpNat 10 10) (cmpNat 10 11)).2.1 = "ErrConflict" ∧
    (GoFuncs.mempoolCheckBalance (cmpNat 10 4) (cmpNat 10 10)).2.1 = "ok" := by decide

-- non-vacuity (the leaves of a transaction that is expired AND underpays; of a valid one)
example : GoFuncs.verifyAndPoolTx false 10 false 10 100 false 250 1000 0 5 false false false false false false false false false false false
    = txLabel (some .expired) := by decide
example : GoFuncs.verifyAndPoolTx false 10 false 20 100 false 250 1000 0 250000 false false false false false false false false false false false
    = txLabel none := by decide

end NeoModel.AddBlock
