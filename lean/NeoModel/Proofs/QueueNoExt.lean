/-
C20 (a): without an external writer of the chain (every block goes through `Put`) the queue never gets stuck:
`Run` sleeps without a pending signal only when the slot of the next block is empty. This pins down the
schedule class of the finding `stuck-ext`: being stuck needs an external addition.
-/
import NeoModel.Proofs.QueueReach
namespace NeoModel.Queue

/-- No external addition and no Discard in the trace. -/
def NoExt : List Act → Prop
  | [] => True
  | a :: r => a ≠ .adv ∧ a ≠ .disc ∧ NoExt r

theorem calm_of_noExt (s : State) (as : List Act) (h : NoExt as) : Calm s as := by
  induction as generalizing s with
  | nil => trivial
  | cons a r ih =>
    refine ⟨?_, h.2.1, ih _ h.2.2⟩
    cases a with
    | adv => exact absurd rfl h.1
    | put e hr => rfl
    | run => rfl
    | disc => rfl
    | notify => rfl

/-- While `Run` is not active the slot of the next block is empty (and before `Run` started without a signal
nothing was queued at all). -/
structure Sleepy (s : State) : Prop where
  nd : s.discarded = false
  ini : s.pc = .init → s.signal = false → ∀ p, s.ring p = none
  wait : s.pc = .wait → s.signal = false → s.ring (posOf s.cap (s.height + 1)) = none
  notDone : s.pc ≠ .done

theorem sleepy_init (cap h0 : Nat) : Sleepy (init cap h0) :=
  ⟨rfl, fun _ _ _ => rfl, fun h => by simp [init] at h, by simp [init]⟩

theorem sleepy_apply (s : State) (a : Act) (hf : Fresh s) (hk : Sleepy s) (h1 : a ≠ .adv) (h2 : a ≠ .disc) :
    Sleepy (apply s a) := by
  cases a with
  | adv => exact absurd rfl h1
  | disc => exact absurd rfl h2
  | notify =>
    simp only [apply, notify, hk.nd, Bool.false_eq_true, if_false]
    exact ⟨rfl, fun _ hs => by simp at hs, fun _ hs => by simp at hs, hk.notDone⟩
  | put e hr =>
    simp only [apply]
    rcases put_cases s e (min hr s.height) with h | h | ⟨_, _, _, h4, h5⟩
    · rw [h]; exact hk
    · rw [h]
      exact ⟨hk.nd, fun _ hs => by simp at hs, fun _ hs => by simp at hs, hk.notDone⟩
    · rw [h5]
      exact ⟨hk.nd, fun _ hs => by simp [insert] at hs, fun _ hs => by simp [insert] at hs, by simpa [insert] using hk.notDone⟩
  | run =>
    simp only [apply, runStep]
    cases hpc : s.pc with
    | init =>
      simp only [start]
      refine ⟨hk.nd, fun h => by simp at h, ?_, by simp⟩
      intro _ hs
      exact hk.ini hpc hs _
    | wait =>
      simp only [wake]
      split
      · exact ⟨hk.nd, fun h => by simp at h, fun h => by simp at h, by simp⟩
      · rename_i hs
        simp only [hk.nd, Bool.false_eq_true, if_false]
        exact hk
    | top =>
      simp only [readH]
      exact ⟨hk.nd, fun h => by simp at h, fun h => by simp at h, by simp⟩
    | haveH h =>
      have hh : h = s.height := hf.haveH h hpc
      subst hh
      simp only [lockSection]
      refine ⟨hk.nd, ?_, ?_, ?_⟩
      · intro h; split at h
        · simp at h
        · split at h <;> simp at h
      · intro hw _
        cases hr : s.ring (posOf s.cap (s.height + 1)) with
        | some b => rw [hr] at hw; simp only at hw; split at hw <;> simp at hw
        | none =>
          simp only
          cases hc : (cleanup s.cap (s.height - s.lastHeight) s.lastHeight s.ring s.len).1 (posOf s.cap (s.height + 1)) with
          | none => rfl
          | some x => rw [cleanup_sub _ _ _ _ _ _ _ hc] at hr; cases hr
      · split
        · simp
        · split <;> simp
    | holding b pos =>
      simp only [addItem]
      exact ⟨hk.nd, fun h => by simp at h, fun h => by simp at h, by simp⟩
    | added b pos =>
      simp only [finish]
      exact ⟨hk.nd, fun h => by simp at h, fun h => by simp at h, by simp⟩
    | done => exact absurd hpc hk.notDone

theorem sleepy_exec (s : State) (as : List Act) (hi : Inv s) (hf : Fresh s) (hk : Sleepy s) (hn : NoExt as) :
    Sleepy (exec s as) ∧ Fresh (exec s as) ∧ Inv (exec s as) := by
  induction as generalizing s with
  | nil => exact ⟨hk, hf, hi⟩
  | cons a r ih =>
    have hc : racy s a = false := (calm_of_noExt s (a :: r) hn).1
    exact ih _ (inv_apply s a hi) (fresh_apply s a hi hf hc) (sleepy_apply s a hf hk hn.1 hn.2.1) hn.2.2

/-- With the next block in its slot `Run` is active. -/
theorem active_of_sleepy (s : State) (hk : Sleepy s) (x : Elem)
    (hx : s.ring (posOf s.cap (s.height + 1)) = some x) : Active s := by
  cases hpc : s.pc with
  | init =>
    cases hs : s.signal with
    | true => exact .inl ⟨hs, by simp [hpc]⟩
    | false => rw [hk.ini hpc hs] at hx; cases hx
  | wait =>
    cases hs : s.signal with
    | true => exact .inl ⟨hs, by simp [hpc]⟩
    | false => rw [hk.wait hpc hs] at hx; cases hx
  | top => exact .inr (.inl hpc)
  | haveH h => exact .inr (.inr (.inl ⟨h, hpc⟩))
  | holding b p => exact .inr (.inr (.inr (.inl ⟨b, p, hpc⟩)))
  | added b p => exact .inr (.inr (.inr (.inr ⟨b, p, hpc⟩)))
  | done => exact absurd hpc hk.notDone

end NeoModel.Queue
