/-
C12 proofs, part 8c: every stack/heap instruction preserves the Map shape invariant (`GoodW`),
possibly extending the kind assignment to the cells it allocates.
-/
import NeoModel.Proofs.VmAcctKindsClone
namespace NeoModel.VmAcct

/-- the outcome of an instruction run from a state with `n` cells and kinds `km` -/
def GoodOut (km : Nat → Bool) (n : Nat) (out : Outcome) : Prop :=
  ∃ km', (∀ j, j < n → km' j = km j) ∧ GoodW km' out.w ∧ n ≤ out.w.c.heap.length

theorem goodOut_same {km : Nat → Bool} {n : Nat} {w' : W} (g : GoodW km w') (hn : n ≤ w'.c.heap.length) :
    GoodOut km n (.ok w') := ⟨km, fun _ _ => rfl, g, hn⟩

theorem goodOut_ext {km : Nat → Bool} {n : Nat} {w' : W} (b : Bool) (g : GoodW (extK km n b) w') (hn : n ≤ w'.c.heap.length) :
    GoodOut km n (.ok w') := ⟨_, fun j hj => extK_lt _ _ _ _ hj, g, hn⟩

theorem GoodW.ext {km : Nat → Bool} {w : W} (g : GoodW km w) (b : Bool) : GoodW (extK km w.c.heap.length b) w :=
  ⟨g.h.ext b, g.st.ext b _ (Nat.le_refl _)⟩

theorem GoodW.setSt {km : Nat → Bool} {w : W} (g : GoodW km w) {st : List Item} (gs : GoodL km w.c.heap.length st) :
    GoodW km { w with st := st } := ⟨g.h, gs⟩

theorem evens_append_pair : ∀ (xs : List Item) (k v : Item), xs.length % 2 = 0 → evens (xs ++ [k, v]) = evens xs ++ [k] := by
  intro xs
  induction xs using evens.induct with
  | case1 => intro k v _; rfl
  | case2 a => intro k v h; simp at h
  | case3 a b r ih =>
    intro k v h
    have : r.length % 2 = 0 := by simp only [List.length_cons] at h; omega
    simp [evens, ih k v this]

theorem pairsOk_snoc {ch : List Item} (p : PairsOk ch) {k : Item} (v : Item) (hk : k.cid = none) : PairsOk (ch ++ [k, v]) := by
  refine ⟨by simp only [List.length_append, List.length_cons, List.length_nil]; have := p.1; omega, ?_⟩
  rw [evens_append_pair ch k v p.1]
  intro x hx
  rcases List.mem_append.1 hx with h | h
  · exact p.2 x h
  · simp only [List.mem_singleton] at h; rw [h]; exact hk

theorem evens_set_odd : ∀ (xs : List Item) (i : Nat) (v : Item), evens (xs.set (2 * i + 1) v) = evens xs := by
  intro xs
  induction xs using evens.induct with
  | case1 => intro i v; rfl
  | case2 a => intro i v; rfl
  | case3 a b r ih =>
    intro i v
    cases i with
    | zero => simp [evens]
    | succ i =>
      have : 2 * (i + 1) + 1 = (2 * i + 1) + 1 + 1 := by omega
      rw [this]
      simp [evens, ih i v]

theorem pairsOk_set_odd {ch : List Item} (p : PairsOk ch) (i : Nat) (v : Item) : PairsOk (ch.set (2 * i + 1) v) :=
  ⟨by simpa using p.1, by rw [evens_set_odd]; exact p.2⟩

theorem evens_erase_pair : ∀ (xs : List Item) (i : Nat), ∀ x ∈ evens ((xs.eraseIdx (2 * i + 1)).eraseIdx (2 * i)), x ∈ evens xs := by
  intro xs
  induction xs using evens.induct with
  | case1 => intro i x hx; simpa using hx
  | case2 a =>
    intro i x hx
    cases i with
    | zero => simp [evens] at hx
    | succ i =>
      have e1 : 2 * (i + 1) + 1 = (2 * i + 1) + 1 + 1 := by omega
      have e2 : 2 * (i + 1) = (2 * i) + 1 + 1 := by omega
      rw [e1, e2] at hx
      simpa [evens] using hx
  | case3 a b r ih =>
    intro i x hx
    cases i with
    | zero => simp only [Nat.mul_zero, Nat.zero_add, List.eraseIdx_cons_succ, List.eraseIdx_cons_zero] at hx; simp [evens, hx]
    | succ i =>
      have e1 : 2 * (i + 1) + 1 = (2 * i + 1) + 1 + 1 := by omega
      have e2 : 2 * (i + 1) = (2 * i) + 1 + 1 := by omega
      rw [e1, e2] at hx
      simp only [List.eraseIdx_cons_succ, evens, List.mem_cons] at hx ⊢
      rcases hx with h | h
      · exact Or.inl h
      · exact Or.inr (ih i x h)

theorem pairsOk_erase_pair {ch : List Item} (p : PairsOk ch) (i : Nat) (h1 : 2 * i + 1 < ch.length) :
    PairsOk ((ch.eraseIdx (2 * i + 1)).eraseIdx (2 * i)) := by
  refine ⟨?_, fun x hx => p.2 x (evens_erase_pair ch i x hx)⟩
  have l1 : (ch.eraseIdx (2 * i + 1)).length = ch.length - 1 := List.length_eraseIdx_of_lt h1
  have l2 : ((ch.eraseIdx (2 * i + 1)).eraseIdx (2 * i)).length = (ch.eraseIdx (2 * i + 1)).length - 1 :=
    List.length_eraseIdx_of_lt (by rw [l1]; omega)
  rw [l2, l1]; have := p.1; omega

variable {km : Nat → Bool}

theorem generic_good {w : W} (k j : Nat) (g : GoodW km w) : ∀ out, execS (.generic k j) w = some out → GoodOut km w.c.heap.length out := by
  intro out h
  simp only [execS, Option.map_eq_some_iff] at h
  obtain ⟨w1, h1, rfl⟩ := h
  obtain ⟨g1, l1⟩ := g.popN k h1
  exact goodOut_same (g1.pushPrims j) (by rw [pushPrims_len, l1]; exact Nat.le_refl _)

theorem stackops_good {w : W} (op : SOp) (g : GoodW km w)
    (hop : op = .dup ∨ op = .over ∨ op = .tuck ∨ op = .swap ∨ op = .rot ∨ op = .nip ∨ op = .clear) :
    ∀ out, execS op w = some out → GoodOut km w.c.heap.length out := by
  intro out h
  have gs := g.st
  rcases hop with rfl | rfl | rfl | rfl | rfl | rfl | rfl
  · simp only [execS] at h
    split at h <;> simp only [okW, Option.some.injEq, reduceCtorEq] at h
    rename_i x r hst
    subst h
    exact goodOut_same (g.push (gs x (by simp [hst]))) (by simp)
  · simp only [execS] at h
    split at h <;> simp only [okW, Option.some.injEq, reduceCtorEq] at h
    rename_i a x r hst
    subst h
    exact goodOut_same (g.push (gs x (by simp [hst]))) (by simp)
  · simp only [execS] at h
    split at h <;> simp only [okW, Option.some.injEq, reduceCtorEq] at h
    rename_i a b r hst
    subst h
    rw [hst] at gs
    exact goodOut_same ⟨by simpa using g.h, by simpa using gs.sub (by intro y hy; grind)⟩ (by simp)
  · simp only [execS] at h
    split at h <;> simp only [okW, Option.some.injEq, reduceCtorEq] at h
    rename_i a b r hst
    subst h
    rw [hst] at gs
    exact goodOut_same ⟨g.h, gs.sub (by intro y hy; grind)⟩ (Nat.le_refl _)
  · simp only [execS] at h
    split at h <;> simp only [okW, Option.some.injEq, reduceCtorEq] at h
    rename_i a b c r hst
    subst h
    rw [hst] at gs
    exact goodOut_same ⟨g.h, gs.sub (by intro y hy; grind)⟩ (Nat.le_refl _)
  · simp only [execS] at h
    split at h <;> simp only [okW, Option.some.injEq, reduceCtorEq] at h
    rename_i a b r hst
    subst h
    rw [hst] at gs
    exact goodOut_same ⟨by simpa using g.h, by simpa using gs.sub (by intro y hy; grind)⟩ (by simp)
  · simp only [execS, okW, Option.some.injEq] at h
    subst h
    exact goodOut_same ⟨by simpa using g.h, GoodL.nil _ _⟩ (by simp)

theorem pick_good {w : W} (k : Nat) (g : GoodW km w) : ∀ out, execS (.pick k) w = some out → GoodOut km w.c.heap.length out := by
  intro out h
  simp only [execS] at h
  cases hp : w.pop with
  | none => simp [hp] at h
  | some r =>
    obtain ⟨y, w1⟩ := r
    simp only [hp] at h
    obtain ⟨g1, _, l1, _⟩ := g.pop hp
    split at h <;> simp only [okW, Option.some.injEq, reduceCtorEq] at h
    rename_i x hx
    subst h
    exact goodOut_same (g1.push (g1.st.get hx)) (by simp [l1])

theorem roll_good {w : W} (k : Nat) (g : GoodW km w) : ∀ out, execS (.roll k) w = some out → GoodOut km w.c.heap.length out := by
  intro out h
  simp only [execS] at h
  cases hp : w.pop with
  | none => simp [hp] at h
  | some r =>
    obtain ⟨y, w1⟩ := r
    simp only [hp] at h
    obtain ⟨g1, _, l1, _⟩ := g.pop hp
    split at h <;> simp only [okW, Option.some.injEq, reduceCtorEq] at h
    rename_i x hx
    subst h
    exact goodOut_same ⟨g1.h, GoodL.cons (g1.st.get hx) (g1.st.eraseIdx k)⟩ (by simp [l1])

theorem xdrop_good {w : W} (k : Nat) (g : GoodW km w) : ∀ out, execS (.xdrop k) w = some out → GoodOut km w.c.heap.length out := by
  intro out h
  simp only [execS] at h
  cases hp : w.pop with
  | none => simp [hp] at h
  | some r =>
    obtain ⟨y, w1⟩ := r
    simp only [hp] at h
    obtain ⟨g1, _, l1, _⟩ := g.pop hp
    split at h <;> simp only [okW, Option.some.injEq, reduceCtorEq] at h
    rename_i x hx
    subst h
    exact goodOut_same ⟨by simpa using g1.h, by simpa using g1.st.eraseIdx k⟩ (by simp [l1])

theorem reverse_good {w : W} (k : Nat) (pf : Bool) (g : GoodW km w) :
    ∀ out, execS (.reverse k pf) w = some out → GoodOut km w.c.heap.length out := by
  intro out h
  simp only [execS] at h
  cases pf with
  | false =>
    simp only [Bool.false_eq_true, if_false] at h
    split at h <;> simp only [okW, Option.some.injEq, reduceCtorEq] at h
    subst h
    exact goodOut_same ⟨g.h, (g.st.take k).reverse.append (g.st.drop k)⟩ (Nat.le_refl _)
  | true =>
    simp only [if_true] at h
    cases hp : w.pop with
    | none => simp [hp] at h
    | some r =>
      obtain ⟨y, w1⟩ := r
      simp only [hp, Option.map_some] at h
      obtain ⟨g1, _, l1, _⟩ := g.pop hp
      split at h <;> simp only [okW, Option.some.injEq, reduceCtorEq] at h
      subst h
      exact goodOut_same ⟨g1.h, (g1.st.take k).reverse.append (g1.st.drop k)⟩ (by simp [l1])

/-- pushing a reference to a freshly allocated cell of kind `k` with children `ch` -/
theorem alloc_push_good {w : W} (g : GoodW km w) (k : Kind) (rc : Nat) (ch : List Item) (d : Int)
    (gch : GoodL km w.c.heap.length ch) (hp : k = .map → PairsOk ch) :
    GoodW (extK km w.c.heap.length (k == .map))
      { c := { heap := w.c.heap ++ [{ rc := rc, ch := ch }], refs := d }, st := k.mk w.c.heap.length :: w.st } := by
  refine ⟨goodH_alloc g.h _ rc (gch.ext _ _ (Nat.le_succ _)) (by intro hb; exact hp (by simpa using hb)), ?_⟩
  simp only [List.length_append, List.length_singleton]
  refine GoodL.cons ?_ (g.st.ext _ _ (Nat.le_succ _))
  cases k
  · exact good_new_arr _ _
  · exact good_new_str _ _
  · exact good_new_map _ _

theorem newEmpty_good {w : W} (k : Kind) (g : GoodW km w) : ∀ out, execS (.newEmpty k) w = some out → GoodOut km w.c.heap.length out := by
  intro out h
  simp only [execS, okW, W.alloc, W.setHeap, Option.some.injEq] at h
  subst h
  have := alloc_push_good g k 0 [] w.c.refs (GoodL.nil _ _) (fun _ => pairsOk_nil)
  refine goodOut_ext (k == .map) ?_ (by simp [W.push])
  refine ⟨by simpa [W.push] using this.h, ?_⟩
  simpa [W.push] using this.st

theorem mkarray_good {w : W} (g : GoodW km w) : ∀ out, execS .mkarray w = some out → GoodOut km w.c.heap.length out := by
  intro out h
  simp only [execS, okW, W.alloc, W.setHeap, Option.some.injEq] at h
  subst h
  have := alloc_push_good g .arr 0 [.prim, .prim] w.c.refs (by intro x hx; simp at hx; rw [hx]; trivial) (by intro h; cases h)
  have e : (Kind.arr == Kind.map) = false := by decide
  rw [e] at this
  refine goodOut_ext false ?_ (by simp [W.push])
  refine ⟨by simpa [W.push] using this.h, ?_⟩
  simpa [W.push, Kind.mk] using this.st

theorem newSized_good {w : W} (k : Kind) (m : Nat) (g : GoodW km w) :
    ∀ out, execS (.newSized k m) w = some out → GoodOut km w.c.heap.length out := by
  intro out h
  simp only [execS] at h
  cases hp : w.pop with
  | none => simp [hp] at h
  | some r =>
    obtain ⟨y, w1⟩ := r
    simp only [hp] at h
    by_cases hkm : k = .map
    · simp [hkm] at h
    rw [if_neg hkm] at h
    simp only [okW, W.alloc, W.setHeap, W.pushNoRef, W.addRefs, Option.some.injEq] at h
    obtain ⟨g1, _, l1, _⟩ := g.pop hp
    subst h
    have := alloc_push_good g1 k 1 (List.replicate m .prim) (w1.c.refs + (↑m + 1)) (GoodL.replicate_prim _ _ _) (fun e => absurd e hkm)
    rw [← l1]
    exact goodOut_ext (k == .map) this (by simp)

theorem pack_good {w : W} (k : Kind) (m : Nat) (g : GoodW km w) :
    ∀ out, execS (.pack k m) w = some out → GoodOut km w.c.heap.length out := by
  intro out h
  simp only [execS] at h
  cases hp : w.pop with
  | none => simp [hp] at h
  | some r =>
    obtain ⟨y, w1⟩ := r
    simp only [hp] at h
    by_cases hkm : k = .map
    · simp [hkm] at h
    rw [if_neg hkm] at h
    obtain ⟨g1, _, l1, _⟩ := g.pop hp
    split at h <;> simp only [okW, W.alloc, W.setHeap, W.pushNoRef, W.addRefs, Option.some.injEq, reduceCtorEq] at h
    subst h
    have := alloc_push_good (g1.setSt (g1.st.drop m)) k 1 (w1.st.take m) (w1.c.refs + 1) (g1.st.take m) (fun e => absurd e hkm)
    rw [← l1]
    exact goodOut_ext (k == .map) this (by simp)

end NeoModel.VmAcct
