/- C07 helper lemmas: sizes of var-uints. -/
import NeoModel.Model.Admission
namespace NeoModel.Admission
open NeoModel.Wire (varUintSize)

theorem varUintSize_mono {a b : Nat} (h : a ≤ b) : varUintSize a ≤ varUintSize b := by
  unfold varUintSize
  repeat' split
  all_goals omega

end NeoModel.Admission
