/- C07 helper lemmas: block packing. -/
import NeoModel.Model.Admission
namespace NeoModel.Admission
open NeoModel.Wire (varUintSize)

def sizes (l : List (Nat × Nat)) : Nat := (l.map (·.1)).sum
def fees (l : List (Nat × Nat)) : Nat := (l.map (·.2)).sum

theorem packLoop_prefix (cfg : PackCfg) : ∀ (txs : List (Nat × Nat)) (s f : Nat), packLoop cfg s f txs <+: txs := by
  intro txs
  induction txs with
  | nil => intro s f; simp [packLoop]
  | cons t ts ih =>
    intro s f
    simp only [packLoop]
    split
    · exact List.nil_prefix
    · exact (List.prefix_cons_inj t).mpr (ih _ _)

theorem packLoop_bounds (cfg : PackCfg) : ∀ (txs : List (Nat × Nat)) (s f : Nat),
    packLoop cfg s f txs = [] ∨
      (s + sizes (packLoop cfg s f txs) ≤ cfg.maxBlockSize ∧ f + fees (packLoop cfg s f txs) ≤ cfg.maxBlockSysFee) := by
  intro txs
  induction txs with
  | nil => intro s f; left; rfl
  | cons t ts ih =>
    intro s f
    simp only [packLoop]
    split
    · left; rfl
    · rename_i h
      right
      rcases ih (s + t.1) (f + t.2) with h0 | ⟨h1, h2⟩
      · rw [h0]; simp [sizes, fees]; omega
      · simp only [sizes, fees, List.map_cons, List.sum_cons] at h1 h2 ⊢
        omega

theorem varUintSize_mono {a b : Nat} (h : a ≤ b) : varUintSize a ≤ varUintSize b := by
  unfold varUintSize
  repeat' split
  all_goals omega

/-- the transactions `applyPolicy` looks at. -/
def capped (cfg : PackCfg) (txs : List (Nat × Nat)) : List (Nat × Nat) :=
  if cfg.maxTx ≠ 0 ∧ txs.length > cfg.maxTx then txs.take cfg.maxTx else txs

theorem applyPolicy_eq (cfg : PackCfg) (txs : List (Nat × Nat)) :
    applyPolicy cfg txs = packLoop cfg (cfg.overhead + varUintSize (capped cfg txs).length) 0 (capped cfg txs) := rfl

theorem capped_prefix (cfg : PackCfg) (txs : List (Nat × Nat)) : capped cfg txs <+: txs := by
  unfold capped; split
  · exact List.take_prefix _ _
  · exact List.prefix_refl _

theorem capped_length (cfg : PackCfg) (txs : List (Nat × Nat)) (h : cfg.maxTx ≠ 0) : (capped cfg txs).length ≤ cfg.maxTx := by
  unfold capped; split
  · simp; omega
  · rename_i h'; simp only [not_and, Nat.not_lt] at h'; exact h' h

end NeoModel.Admission
