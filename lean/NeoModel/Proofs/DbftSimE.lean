/- C19: networks of validator machines are simulated by the guarded-command model; agreement for machines. -/
import NeoModel.Proofs.DbftSimD
namespace NeoModel.Dbft.Mach
open NeoModel.Dbft

/-- every reachable network of machines is related to a reachable state of the guarded-command model -/
theorem netinv_reachable (e : Env) (ms : MNet) (hr : MReachable e ms) : ∃ as, NetInv e ms as := by
  induction hr with
  | init => exact ⟨init, netinv_init e⟩
  | step ev inp _ hen ih =>
    obtain ⟨as, inv⟩ := ih
    obtain ⟨as', inv', _⟩ := netinv_step inv ev inp hen
    exact ⟨as', inv'⟩

/-- C19 (refinement): every reachable network of validator machines — any interleaving of deliveries (of
PrepareRequests, PrepareResponses, Commits, ChangeViews, RecoveryRequests and RecoveryMessages with
everything they carry), losses, duplications, timer ticks, transaction arrivals, block relays and mempool
changes, with any clock, any proposal names and any iteration order of the cached payloads — is simulated by
a reachable state of the guarded-command model with the same ledgers; the abstract node of a started machine
that has not just handed a block to its ledger is at the machine's height and view. -/
theorem mach_refines (e : Env) (ms : MNet) (hr : MReachable e ms) :
    ∃ as : State, Reachable (cfgOf e) as ∧ ∀ i, i < e.n →
      (as.nodes i).chain = (ms.nodes i).chain ∧ (as.nodes i).height = (ms.nodes i).chain.length + 1 ∧
      ((ms.nodes i).bi ≠ 0 → (ms.nodes i).blockProcessed = false →
        (ms.nodes i).bi = (as.nodes i).height ∧ (ms.nodes i).view = (as.nodes i).view) := by
  obtain ⟨as, inv⟩ := netinv_reachable e ms hr
  refine ⟨as, inv.g.1, fun i hi => ⟨(inv.rn i hi).chain, (inv.rn i hi).height, ?_⟩⟩
  intro hst hbp
  rcases (inv.rn i hi).phase with p1 | p2 | p3
  · exact ⟨p1.1, p1.2.1⟩
  · rw [hbp] at p2; cases p2.1
  · exact absurd p3.1 hst

/-- C19 (agreement for the machines): in every reachable network of validator machines, two blocks of the same
height on any two validators' ledgers are equal. -/
theorem mach_agreement (e : Env) (hn : 0 < e.n) (ms : MNet) (hr : MReachable e ms) (i j : Nat)
    (hi : i < e.n) (hj : j < e.n) (b b' : Block)
    (hb : b ∈ (ms.nodes i).chain) (hb' : b' ∈ (ms.nodes j).chain) (hh : b.h = b'.h) : b = b' := by
  obtain ⟨as, hra, hc⟩ := mach_refines e ms hr
  have inv := inv_reachable (cfgOf e) as hra
  rw [← (hc i hi).1] at hb
  rw [← (hc j hj).1] at hb'
  have q1 := inv.chainQuorum i b hb
  have q2 := inv.chainQuorum j b' hb'
  have := two_m_gt_n (cfgOf e) hn
  obtain ⟨k, _, h1, h2⟩ := quorum_inter (cfgOf e).n (signed as b) (signed as b') (by omega)
  simp only [signed, decide_eq_true_eq] at h1 h2
  exact inv.commitUniq k b b' h1 h2 hh

/-- C19 (the witness of the block handed to the ledger, full statement): in every reachable network of validator
machines, whatever event happens next, every block the machine concerned hands to its ledger (`Out.block b sigs`:
consensus.go:646-697 processBlock / getBlockWitness) carries only signatures OF THAT BLOCK. -/
theorem mach_block_witness_valid (e : Env) (ms : MNet) (hr : MReachable e ms) (ev : NEv) (inp : Inp)
    (hen : NEnabled e ms inp ev) (b : Block) (sigs : List (Nat × Bool)) (hb : Out.block b sigs ∈ evOuts e ms inp ev) :
    ∀ t ∈ sigs, t.2 = true := by
  obtain ⟨as, inv⟩ := netinv_reachable e ms hr
  obtain ⟨_, _, hblk⟩ := netinv_step inv ev inp hen
  exact (hblk b sigs hb).1

/-- … and it carries EXACTLY M of them, in validator order: whatever the order in which the Commits reached the machine
(a validator that is last within its view holds N > M when it builds the block), on the whole network of machines. -/
theorem mach_block_witness_exact (e : Env) (ms : MNet) (hr : MReachable e ms) (ev : NEv) (inp : Inp)
    (hen : NEnabled e ms inp ev) (b : Block) (sigs : List (Nat × Bool)) (hb : Out.block b sigs ∈ evOuts e ms inp ev) :
    sigs.length = e.m ∧ sigs.Pairwise (fun s t => s.1 < t.1) := by
  obtain ⟨as, inv⟩ := netinv_reachable e ms hr
  obtain ⟨_, _, hblk⟩ := netinv_step inv ev inp hen
  exact (hblk b sigs hb).2

/-- a machine signs (holds its own Commit for) only what its abstract node signed: the Commit a machine
broadcast at its height is a block M validators prepared (commits_carry_prepared of the guarded-command model
applies to it) -/
theorem mach_own_commit (e : Env) (ms : MNet) (hr : MReachable e ms) (i : Nat) (hi : i < e.n) (x : Hd) (sb : Block)
    (hs : slot (ms.nodes i).commit i = some (.commit x sb)) :
    ∃ as : State, Reachable (cfgOf e) as ∧ sb ∈ (as.nodes i).myCommits ∧
      (cfgOf e).m ≤ countP (cfgOf e).n (preparedBy as sb) := by
  obtain ⟨as, inv⟩ := netinv_reachable e ms hr
  obtain ⟨y, sb', he, _, _, hm, _⟩ := (inv.rn i hi).commit i _ hs
  simp only [Pl.commit.injEq] at he
  obtain ⟨_, rfl⟩ := he
  exact ⟨as, inv.g.1, hm, (inv_reachable (cfgOf e) as inv.g.1).commitPrepared i sb hm⟩

end NeoModel.Dbft.Mach
