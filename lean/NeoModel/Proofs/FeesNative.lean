/- C07 helper lemmas: native `verify` witnesses, NotaryAssisted / OracleResponse rules. -/
import NeoModel.Model.Fees.Native
import NeoModel.Proofs.FeesAdmit
namespace NeoModel.Native
open NeoModel NeoModel.Fees NeoModel.Admission NeoModel.Pack
open NeoModel.Generated.FeeConsts

/-- a native `verify` that returns true has a definite price. -/
theorem nativeWit_cost (c : Chain) (k : Nat) : WitCost c (nativeWit k true) k := by
  intro gas
  simp [verifyOne, nativeWit]

/-- it never reports more gas than it was given. -/
theorem nativeWit_le (k : Nat) (res : Bool) (lim used : Nat)
    (h : (fun lim => if k ≤ lim then (if res then WRes.ok k else WRes.invalidSig k) else WRes.fail) lim = .ok used) : used ≤ lim := by
  simp only at h
  split at h
  · split at h
    · simp at h; omega
    · simp at h
  · simp at h

/-- if it verified, it returned true and consumed its price. -/
theorem nativeWit_ok (c : Chain) (k : Nat) (res : Bool) (lim g : Nat) (h : verifyOne c lim (nativeWit k res) = .ok g) :
    res = true ∧ g = k := by
  simp only [verifyOne, nativeWit] at h
  split at h
  · split at h
    · rename_i hr; simp at h; exact ⟨hr, h.symm⟩
    · simp at h
  · simp at h

theorem allVerify_mem (c : Chain) : ∀ (ws : List Wit) (gs : List Nat), AllVerify c ws gs →
    ∀ w ∈ ws, ∃ lim g, verifyOne c lim w = .ok g ∧ g ≤ gs.sum := by
  intro ws
  induction ws with
  | nil => intro gs _ w hw; simp at hw
  | cons w0 ws ih =>
    intro gs h w hw
    cases gs with
    | nil => simp [AllVerify] at h
    | cons g0 gs =>
      obtain ⟨⟨lim, h0⟩, hr⟩ := h
      simp only [List.mem_cons] at hw
      rcases hw with rfl | hw
      · exact ⟨lim, g0, h0, by simp⟩
      · obtain ⟨l, g, h1, h2⟩ := ih gs hr w hw
        exact ⟨l, g, h1, by simp; omega⟩

/-- `CalculateAttributesFee` on a NotaryAssisted attribute: `(NKeys + 1) ·` the attribute's fee, if P2PSigExtensions. -/
theorem attrsFee_notary (c : Chain) (n nk : Nat) (pre post : List Attr) :
    attrsFee c n (pre ++ .notaryAssisted nk :: post)
      = attrsFee c n pre + (if c.p2pSigExt then c.attrFee attrNotaryAssisted * (nk + 1) else 0) + attrsFee c n post := by
  induction pre with
  | nil => simp [attrsFee, Attr.typ]
  | cons a as ih => simp only [List.cons_append, attrsFee, ih]; omega

/-- `CalculateAttributesFee` on an OracleResponse attribute: the attribute's fee. -/
theorem attrsFee_oracle (c : Chain) (n : Nat) (f : OracleFacts) (pre post : List Attr) :
    attrsFee c n (pre ++ .oracleResponse f :: post)
      = attrsFee c n pre + c.attrFee attrOracleResponse + attrsFee c n post := by
  induction pre with
  | nil => simp [attrsFee, Attr.typ]
  | cons a as ih => simp only [List.cons_append, attrsFee, ih]; omega

end NeoModel.Native
