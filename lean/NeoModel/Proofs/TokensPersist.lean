/-
OnPersist cannot stop the node when the block's transactions are covered: what transaction verification and the
memory pool guarantee (every sender's GAS covers the fees of all its transactions of the block, every payer's
notary deposit covers the fees of the notary-assisted transactions it pays for, the network fee covers the
NotaryAssisted attribute fee) is stated as a hypothesis on the ledger, and GAS.OnPersist + Notary.OnPersist are
proved to complete under it.
-/
import NeoModel.Proofs.TokensReward
import NeoModel.Proofs.TokensBlock
namespace NeoModel.Tokens

theorem owedBy_nonneg (a : Nat) (txs : List TxFee) (h : ∀ t ∈ txs, 0 ≤ t.sys + t.net) : 0 ≤ owedBy a txs := by
  induction txs with
  | nil => simp [owedBy]
  | cons t ts ih =>
    simp only [owedBy]
    have := h t (by simp)
    have := ih (fun t' ht' => h t' (by simp [ht']))
    split <;> omega

theorem chargedTo_nonneg (nt p : Nat) (txs : List TxFee) (h : ∀ t ∈ txs, 0 ≤ t.sys + t.net) : 0 ≤ chargedTo nt p txs := by
  induction txs with
  | nil => simp [chargedTo]
  | cons t ts ih =>
    simp only [chargedTo]
    have := h t (by simp)
    have := ih (fun t' ht' => h t' (by simp [ht']))
    split <;> omega

theorem gasAddTokens_isSome (l : Ledger) (h : Nat) (amt : Int) (hp : ∀ p ∈ l.gas, 0 < p.2) (hb : 0 ≤ at0 id l.gas h + amt) :
    (gasAddTokens l h amt).isSome = true := by
  have hb0 : 0 ≤ at0 id l.gas h := at0_nonneg id l.gas h (fun p hp' => by have := hp p hp'; simp; omega)
  rw [at0_id] at hb hb0
  have hok : (gasInc l (get l.gas h) amt none).ok = true := by
    unfold gasInc
    simp only []
    by_cases h0 : amt = 0
    · simp [h0, belowOpt]
    · rw [if_neg h0, if_neg (fun hh => by omega)]
  unfold gasAddTokens
  simp only [hok, if_true]
  rfl

theorem burnGas_isSome (l : Ledger) (h : Nat) (amt : Int) (hp : ∀ p ∈ l.gas, 0 < p.2) (hb : amt ≤ at0 id l.gas h) :
    (burnGas l h amt).isSome = true := by
  unfold burnGas
  split
  · rfl
  · have := gasAddTokens_isSome l h (-amt) hp (by omega)
    cases hg : gasAddTokens l h (-amt) with
    | none => rw [hg] at this; cases this
    | some l1 => rfl

/-- the balances after a burn. -/
theorem burnGas_at (l l' : Ledger) (h : Nat) (amt : Int) (hp : ∀ p ∈ l.gas, 0 < p.2) (hn : (keys l.gas).Nodup)
    (hr : burnGas l h amt = some l') :
    (∀ p ∈ l'.gas, 0 < p.2) ∧ (keys l'.gas).Nodup ∧ at0 id l'.gas h = at0 id l.gas h - amt ∧
    (∀ k, k ≠ h → at0 id l'.gas k = at0 id l.gas k) ∧ l'.deps = l.deps := by
  unfold burnGas at hr
  split at hr
  · rename_i h0; injection hr with hr; subst hr; subst h0
    exact ⟨hp, hn, by omega, fun _ _ => rfl, rfl⟩
  · cases hg : gasAddTokens l h (-amt) with
    | none => simp [hg] at hr
    | some l1 =>
      simp [hg] at hr; subst hr
      obtain ⟨_, _, _, _, e7, _, _, u⟩ := gasAddTokens_some l l1 h (-amt) hp hg
      refine ⟨u.pos hp, u.nodup hn, ?_, u.atne, e7⟩
      show at0 id l1.gas h = _
      rw [u.ath hn]; omega

/-- GAS.OnPersist burns all fees when every sender is covered. -/
theorem burnFees_isSome (l : Ledger) (txs : List TxFee) (hp : ∀ p ∈ l.gas, 0 < p.2) (hn : (keys l.gas).Nodup)
    (hf : ∀ t ∈ txs, 0 ≤ t.sys + t.net) (hc : ∀ a, owedBy a txs ≤ at0 id l.gas a) :
    ∃ l', burnFees l txs = some l' ∧ (∀ p ∈ l'.gas, 0 < p.2) ∧ (keys l'.gas).Nodup ∧ l'.deps = l.deps := by
  induction txs generalizing l with
  | nil => exact ⟨l, rfl, hp, hn, rfl⟩
  | cons t ts ih =>
    have hts : ∀ t' ∈ ts, 0 ≤ t'.sys + t'.net := fun t' ht' => hf t' (by simp [ht'])
    have hcs := hc t.sender
    simp only [owedBy, if_true] at hcs
    have hrest := owedBy_nonneg t.sender ts hts
    have hb := burnGas_isSome l t.sender (t.sys + t.net) hp (by omega)
    cases hbg : burnGas l t.sender (t.sys + t.net) with
    | none => rw [hbg] at hb; cases hb
    | some l1 =>
      obtain ⟨p1, n1, a1, a2, d1⟩ := burnGas_at l l1 t.sender _ hp hn hbg
      obtain ⟨l', h1, h2, h3, h4⟩ := ih l1 p1 n1 hts (fun a => by
        have := hc a
        simp only [owedBy] at this
        by_cases ha : a = t.sender
        · subst ha; rw [a1]; simp at this; omega
        · rw [a2 a ha]
          have hne : ¬ t.sender = a := fun e => ha e.symm
          simp [hne] at this; exact this)
      exact ⟨l', by simp only [burnFees, hbg]; exact h1, h2, h3, h4.trans d1⟩

theorem mintGas_some_of_nonneg (l : Ledger) (h : Nat) (amt : Int) (hp : ∀ p ∈ l.gas, 0 < p.2) (hn : (keys l.gas).Nodup)
    (ha : 0 ≤ amt) :
    ∃ l', mintGas l h amt = some l' ∧ (∀ p ∈ l'.gas, 0 < p.2) ∧ (keys l'.gas).Nodup ∧ l'.deps = l.deps := by
  unfold mintGas
  split
  · exact ⟨l, rfl, hp, hn, rfl⟩
  · have hb0 : 0 ≤ at0 id l.gas h := at0_nonneg id l.gas h (fun p hp' => by have := hp p hp'; simp; omega)
    have := gasAddTokens_isSome l h amt hp (by omega)
    cases hg : gasAddTokens l h amt with
    | none => rw [hg] at this; cases this
    | some l1 =>
      obtain ⟨_, _, _, _, e7, _, _, u⟩ := gasAddTokens_some l l1 h amt hp hg
      exact ⟨_, rfl, u.pos hp, u.nodup hn, e7⟩

/-- `gasOnPersist_total`: GAS.OnPersist completes when every sender's balance covers its fees of the block and the
network fees cover the notary service fees (so that the primary's reward is not negative). -/
theorem gasOnPersist_isSome (e : Env) (l : Ledger) (primary : Nat) (txs : List TxFee) (hp : ∀ p ∈ l.gas, 0 < p.2)
    (hn : (keys l.gas).Nodup) (hf : ∀ t ∈ txs, 0 ≤ t.sys + t.net) (hc : ∀ a, owedBy a txs ≤ at0 id l.gas a)
    (hprim : 0 ≤ primaryFee e txs) :
    ∃ l', gasOnPersist e l primary txs = some l' ∧ (∀ p ∈ l'.gas, 0 < p.2) ∧ (keys l'.gas).Nodup ∧ l'.deps = l.deps := by
  unfold gasOnPersist
  split
  · exact ⟨l, rfl, hp, hn, rfl⟩
  · obtain ⟨l1, h1, p1, n1, d1⟩ := burnFees_isSome l txs hp hn hf hc
    obtain ⟨l2, h2, p2, n2, d2⟩ := mintGas_some_of_nonneg l1 primary _ p1 n1 hprim
    exact ⟨l2, by simp only [h1]; exact h2, p2, n2, d2.trans d1⟩

/-- the deposit part of Notary.OnPersist completes when every payer's deposit covers what is charged to it
(fees are positive, so a payer with a transaction in the block has a deposit record). -/
theorem notaryCharge_isSome (e : Env) (l : Ledger) (txs : List TxFee) (hn : (keys l.deps).Nodup)
    (hf : ∀ t ∈ txs, 0 < t.sys + t.net)
    (hA2 : ∀ t ∈ txs, t.sender = e.notary → t.nkeys.isSome = true → t.payer.isSome = true)
    (hc : ∀ p, chargedTo e.notary p txs ≤ at0 (·.amount) l.deps p) :
    ∃ l' n, notaryCharge e l txs = some (l', n) ∧ l'.gas = l.gas := by
  induction txs generalizing l with
  | nil => exact ⟨l, 0, rfl, rfl⟩
  | cons t ts ih =>
    have hts : ∀ t' ∈ ts, 0 < t'.sys + t'.net := fun t' ht' => hf t' (by simp [ht'])
    have hts0 : ∀ t' ∈ ts, 0 ≤ t'.sys + t'.net := fun t' ht' => by have := hts t' ht'; omega
    have hA2' : ∀ t' ∈ ts, t'.sender = e.notary → t'.nkeys.isSome = true → t'.payer.isSome = true :=
      fun t' ht' => hA2 t' (by simp [ht'])
    simp only [notaryCharge]
    cases hk : t.nkeys with
    | none =>
      simp only []
      refine ih l hn hts hA2' (fun p => ?_)
      have := hc p; simp only [chargedTo, hk] at this; simpa using this
    | some k =>
      simp only []
      by_cases hs : t.sender = e.notary
      · rw [if_pos hs]
        have hpay := hA2 t (by simp) hs (by simp [hk])
        cases hpp : t.payer with
        | none => rw [hpp] at hpay; cases hpay
        | some p =>
          simp only []
          have hcp := hc p
          simp only [chargedTo, hs, hk, hpp, Option.isSome_some, and_self, if_true] at hcp
          have hrest := chargedTo_nonneg e.notary p ts hts0
          have hft := hf t (by simp)
          cases hg : get l.deps p with
          | none => simp [at0, hg] at hcp; omega
          | some d =>
            simp only []
            have hat : at0 (·.amount) l.deps p = d.amount := by simp [at0, hg]
            rw [hat] at hcp
            rw [if_neg (by omega)]
            have cont : ∀ l1 : Ledger, l1.gas = l.gas → (keys l1.deps).Nodup →
                at0 (·.amount) l1.deps p = d.amount - (t.sys + t.net) →
                (∀ q, q ≠ p → at0 (·.amount) l1.deps q = at0 (·.amount) l.deps q) →
                ∃ l' n, (match notaryCharge e l1 ts with
                  | none => none
                  | some (l2, n) => some (l2, n + (k : Int) + 1)) = some (l', n) ∧ l'.gas = l.gas := by
              intro l1 hg1 hn1 hp1 hq1
              obtain ⟨l', n, h1, h2⟩ := ih l1 hn1 hts hA2' (fun q => by
                have := hc q
                simp only [chargedTo, hs, hk, hpp, Option.isSome_some, true_and] at this
                by_cases hq : q = p
                · subst hq; rw [hp1]; simp at this; omega
                · rw [hq1 q hq]
                  have hq' : ¬ p = q := fun e' => hq e'.symm
                  simp [hq'] at this; exact this)
              exact ⟨l', n + (k : Int) + 1, by simp only [h1], h2.trans hg1⟩
            by_cases hz : d.amount - (t.sys + t.net) = 0
            · rw [if_pos hz]
              refine cont { l with deps := del l.deps p } rfl (nodup_del _ _ hn) ?_ (fun q hq => ?_)
              · simp [at0, get_del_eq _ _ hn]; omega
              · simp [at0, get_del_ne _ _ _ hq]
            · rw [if_neg hz]
              refine cont { l with deps := put l.deps p { d with amount := d.amount - (t.sys + t.net) } } rfl
                (nodup_put _ _ _ hn) ?_ (fun q hq => ?_)
              · simp [at0, get_put_eq]
              · simp [at0, get_put_ne _ _ _ _ hq]
      · rw [if_neg hs]
        obtain ⟨l', n, h1, h2⟩ := ih l hn hts hA2' (fun p => by
            have := hc p; simp only [chargedTo, hs, false_and, if_false] at this; simpa using this)
        exact ⟨l', n + (k : Int) + 1, by simp only [h1], h2⟩

theorem mintAll_isSome (l : Ledger) (hs : List Nat) (g : Int) (hp : ∀ p ∈ l.gas, 0 < p.2) (hn : (keys l.gas).Nodup)
    (hg : 0 ≤ g) : (mintAll l hs g).isSome = true := by
  induction hs generalizing l with
  | nil => rfl
  | cons x xs ih =>
    simp only [mintAll]
    obtain ⟨l1, h1, p1, n1, _⟩ := mintGas_some_of_nonneg l x g hp hn hg
    rw [h1]; exact ih l1 p1 n1

/-- `onpersist_total`: OnPersist of GAS and of Notary completes on every ledger satisfying the accounting invariant
when the block is covered: every sender's GAS balance covers the fees of all its transactions in the block, every
payer's deposit covers the notary-assisted transactions charged to it, fees are positive, the network fees cover the
notary service fees, and a transaction sent by the Notary contract names its payer (assumption A2). -/
theorem onPersist_isSome {nt : Nat} (e : Env) (l : Ledger) (primary : Nat) (notaries : List Nat) (txs : List TxFee)
    (hi : Inv nt l) (hfee : 0 ≤ e.attrFee)
    (hf : ∀ t ∈ txs, 0 < t.sys + t.net)
    (hA2 : ∀ t ∈ txs, t.sender = e.notary → t.nkeys.isSome = true → t.payer.isSome = true)
    (hcg : ∀ a, owedBy a txs ≤ at0 id l.gas a)
    (hcd : ∀ p, chargedTo e.notary p txs ≤ at0 (·.amount) l.deps p)
    (hprim : 0 ≤ primaryFee e txs) :
    ∃ l1 l2, gasOnPersist e l primary txs = some l1 ∧ notaryOnPersist e l1 notaries txs = some l2 := by
  obtain ⟨l1, h1, p1, n1, d1⟩ := gasOnPersist_isSome e l primary txs hi.gas.pos hi.gas.nodup
    (fun t ht => by have := hf t ht; omega) hcg hprim
  refine ⟨l1, ?_⟩
  obtain ⟨lc, n, hc, hgc⟩ := notaryCharge_isSome e l1 txs (by rw [d1]; exact hi.notary.nodup) hf hA2
    (fun p => by rw [d1]; exact hcd p)
  unfold notaryOnPersist
  simp only [hc]
  split
  · exact ⟨lc, h1, rfl⟩
  · split
    · exact ⟨lc, h1, rfl⟩
    · have hn0 : n = feeUnits txs := (notaryCharge_supply e l1 lc txs n hc).2
      have hg0 : 0 ≤ Int.tdiv (n * e.attrFee) (notaries.length : Int) := by
        apply Int.tdiv_nonneg
        · rw [hn0]; exact Int.mul_nonneg (feeUnits_nonneg txs) hfee
        · omega
      have := mintAll_isSome lc notaries _ (by rw [hgc]; exact p1) (by rw [hgc]; exact n1) hg0
      cases hm : mintAll lc notaries (Int.tdiv (n * e.attrFee) (notaries.length : Int)) with
      | none => rw [hm] at this; cases this
      | some l2 => exact ⟨l2, h1, rfl⟩

end NeoModel.Tokens
