/-
C13 / known finding refcount-cyclic-garbage, stated precisely.

The implementation's item counter (`VM.refs`, modelled by C12: `NeoModel.VmAcct`, counter invariant
`InvC`) and the specification's count of reachable references (`reachFrom`, what `NeoModel.Vm.reach`
computes, see `VmReachWalk.lean`) are related as follows, for EVERY state satisfying the counter invariant:

  * `refs_eq_reach_add_garbage`   refs = reach + Σ over the counted-but-unreachable compounds ("garbage": own
                                  count ≠ 0, not reachable from any root) of their number of children;
  * `garbage_has_counted_parent`  every garbage compound is a child of another garbage compound;
  * `garbage_is_cyclic`           hence garbage can exist only if the "is a child of" relation among the
                                  unreachable compounds has a cycle (no rank function decreases along it);
  * `refs_eq_reach_of_acyclic_garbage`  so: if the unreachable part of the heap is acyclic then
                                  refs = reach EXACTLY — reachable cycles are harmless (this strengthens
                                  C12's `refs_eq_reach`, which needs the whole heap acyclic);
  * `refs_ne_reach_iff`           refs ≠ reach iff some garbage compound has a child.
So a difference between the real VM's counter and the specification's count without cyclic garbage in the
heap is a violation, not the known finding.
-/
import NeoModel.Proofs.VmAcctWalk
namespace NeoModel.VmAcct

/-- `i` is counted (own count ≠ 0) but not reachable from the roots `R`. -/
def Garbage (c : Ctr) (R : List Item) (i : Nat) : Prop :=
  i < c.heap.length ∧ rcOf c.heap i ≠ 0 ∧ i ∉ walk c.heap R []

/-- what the garbage holds: Σ over unreachable counted compounds of their number of children. -/
def garbageLen (c : Ctr) (R : List Item) : Nat :=
  ((List.range c.heap.length).map fun i => if i ∈ walk c.heap R [] then 0 else heldAt c.heap i).sum

theorem sum_map_add (l : List Nat) (a b : Nat → Nat) :
    (l.map fun i => a i + b i).sum = (l.map a).sum + (l.map b).sum := by
  induction l with
  | nil => rfl
  | cons x t ih => simp only [List.map_cons, List.sum_cons, ih]; omega

/-- **refs_eq_reach_add_garbage.** The exact difference between the counter and the reachable count. -/
theorem refs_eq_reach_add_garbage (c : Ctr) (R : List Item) (inv : InvC c (fun id => cnt id R) R.length) :
    c.refs = (reachFrom c.heap R : Int) + (garbageLen c R : Int) := by
  let V := walk c.heap R []
  have hnodup : V.Nodup := walk_nodup _ _ _ List.nodup_nil
  have hcounted : ∀ v ∈ V, rcOf c.heap v ≠ 0 := walk_counted c _ _ inv R (fun _ => Nat.le_refl _)
  have hlt : ∀ v ∈ V, v < c.heap.length := by
    intro v hvm
    rcases Nat.lt_or_ge v c.heap.length with hl | hl
    · exact hl
    · exact absurd (rcOf_eq_zero_of_ge _ v hl) (hcounted v hvm)
  -- split the sum over all cells into the visited and the unvisited part
  have hsplit : heldLen c.heap =
      ((List.range c.heap.length).map fun i => if i ∈ V then heldAt c.heap i else 0).sum + garbageLen c R := by
    rw [heldLen_eq, garbageLen, ← sum_map_add]
    apply congrArg
    apply List.map_congr_left
    intro i _
    show heldAt c.heap i = (if i ∈ V then heldAt c.heap i else 0) + (if i ∈ V then 0 else heldAt c.heap i)
    split <;> simp
  have hvis : childSum c.heap V =
      ((List.range c.heap.length).map fun i => if i ∈ V then heldAt c.heap i else 0).sum := by
    have h1 : childSum c.heap V = (V.map fun i => if i ∈ V then heldAt c.heap i else 0).sum := by
      simp only [childSum]
      apply congrArg
      apply List.map_congr_left
      intro v hvm
      simp [heldAt, hcounted v hvm, hvm]
    rw [h1]
    apply sum_eq_range _ _ V hnodup hlt
    intro i _ hg
    apply Classical.byContradiction
    intro hn
    simp [hn] at hg
  have := inv.refs
  simp only [reachFrom]
  show c.refs = ((R.length + childSum c.heap V : Nat) : Int) + _
  rw [hvis]
  rw [hsplit] at this
  push_cast at this ⊢
  omega

/-- **garbage_has_counted_parent.** A counted compound that no root reaches is held by another counted
compound that no root reaches. -/
theorem garbage_has_counted_parent (c : Ctr) (R : List Item) (inv : InvC c (fun id => cnt id R) R.length)
    (i : Nat) (hg : Garbage c R i) :
    ∃ j, Garbage c R j ∧ ∃ x ∈ chOf c.heap j, x.cid = some i := by
  obtain ⟨hi, hrc, hnot⟩ := hg
  have hroots : ∀ x ∈ R, ∀ d, x.cid = some d → d ∈ walk c.heap R [] := walk_roots c.heap R []
  have hclosed : ∀ v ∈ walk c.heap R [], ∀ x ∈ chOf c.heap v, ∀ d, x.cid = some d → d ∈ walk c.heap R [] :=
    walk_closed c.heap R [] (by intro v hv; cases hv)
  have hrci := inv.rc i
  have hz : cnt i R = 0 := by
    rcases Nat.eq_zero_or_pos (cnt i R) with h0 | hp
    · exact h0
    · obtain ⟨x, hx, hxc⟩ := mem_of_cnt_pos hp
      exact absurd (hroots x hx i hxc) hnot
  have hp : 0 < heldCnt c.heap i := by simp only [hz] at hrci; omega
  obtain ⟨j, hj, hrcj, hcj⟩ := heldCnt_pos_witness c.heap i hp
  obtain ⟨x, hx, hxc⟩ := mem_of_cnt_pos hcj
  exact ⟨j, ⟨hj, hrcj, fun hjV => hnot (hclosed j hjV x hx i hxc)⟩, x, hx, hxc⟩

/-- the unreachable part of the heap is acyclic: some rank strictly decreases along "is a child of" between
compounds that no root reaches. (Weaker than `Acyclic`: cycles among reachable compounds are allowed.) -/
def GarbageAcyclic (c : Ctr) (R : List Item) : Prop :=
  ∃ rank : Nat → Nat, ∀ j, Garbage c R j → ∀ x ∈ chOf c.heap j, ∀ d, x.cid = some d → Garbage c R d →
    rank d < rank j

/-- **garbage_is_cyclic.** Counted garbage exists only if the unreachable part of the heap has a cycle. -/
theorem garbage_is_cyclic (c : Ctr) (R : List Item) (inv : InvC c (fun id => cnt id R) R.length)
    (i : Nat) (hg : Garbage c R i) : ¬ GarbageAcyclic c R := by
  rintro ⟨rank, hrank⟩
  obtain ⟨M, hM⟩ := exists_bound rank c.heap.length
  -- ranks of garbage compounds are unbounded below M: contradiction by induction on M - rank
  have hall : ∀ k i, Garbage c R i → M - rank i ≤ k → False := by
    intro k
    induction k with
    | zero =>
      intro i hg hk
      have := hM i hg.1; omega
    | succ k ih =>
      intro i hg hk
      obtain ⟨j, hgj, x, hx, hxc⟩ := garbage_has_counted_parent c R inv i hg
      have hr := hrank j hgj x hx i hxc hg
      have := hM j hgj.1
      exact ih j hgj (by omega)
  exact hall (M - rank i) i hg (Nat.le_refl _)

theorem acyclic_garbageAcyclic (c : Ctr) (R : List Item) (hac : Acyclic c.heap) : GarbageAcyclic c R := by
  obtain ⟨rank, hr⟩ := hac
  exact ⟨rank, fun j _ x hx d hd _ => hr j x hx d hd⟩

theorem sum_zero_of_all_zero (l : List Nat) (h : ∀ y ∈ l, y = 0) : l.sum = 0 := by
  induction l with
  | nil => rfl
  | cons x t ih =>
    simp only [List.sum_cons]
    rw [h x (List.mem_cons_self), ih (fun y hy => h y (List.mem_cons_of_mem _ hy))]

theorem garbageLen_eq_zero (c : Ctr) (R : List Item) (hno : ∀ i, ¬ Garbage c R i) : garbageLen c R = 0 := by
  unfold garbageLen
  apply sum_zero_of_all_zero
  intro y hy
  obtain ⟨i, hi, rfl⟩ := List.mem_map.mp hy
  split
  · rfl
  · rename_i hnv
    by_cases hrc : rcOf c.heap i = 0
    · simp [heldAt, hrc]
    · exact absurd ⟨List.mem_range.mp hi, hrc, hnv⟩ (hno i)

/-- **refs_eq_reach_of_acyclic_garbage.** If the unreachable part of the heap is acyclic, the VM's counter
equals the specification's reachable count exactly. -/
theorem refs_eq_reach_of_acyclic_garbage (c : Ctr) (R : List Item) (inv : InvC c (fun id => cnt id R) R.length)
    (hga : GarbageAcyclic c R) : c.refs = (reachFrom c.heap R : Int) := by
  have := refs_eq_reach_add_garbage c R inv
  rw [garbageLen_eq_zero c R (fun i hg => garbage_is_cyclic c R inv i hg hga)] at this
  simpa using this

/-- **refs_ne_reach_iff.** The two counts differ iff some counted unreachable compound has a child — and then
(`garbage_is_cyclic`) the unreachable part of the heap contains a cycle. -/
theorem refs_ne_reach_iff (c : Ctr) (R : List Item) (inv : InvC c (fun id => cnt id R) R.length) :
    c.refs ≠ (reachFrom c.heap R : Int) ↔ ∃ i, Garbage c R i ∧ chOf c.heap i ≠ [] := by
  have hd := refs_eq_reach_add_garbage c R inv
  constructor
  · intro hne
    have hpos : 0 < garbageLen c R := by
      rcases Nat.eq_zero_or_pos (garbageLen c R) with h0 | hp
      · rw [h0] at hd; exact absurd (by simpa using hd) hne
      · exact hp
    obtain ⟨y, hy, hypos⟩ := exists_pos_of_sum_pos hpos
    obtain ⟨i, hi, rfl⟩ := List.mem_map.mp hy
    by_cases hv : i ∈ walk c.heap R []
    · simp [hv] at hypos
    · simp only [hv, if_false, heldAt] at hypos
      by_cases hrc : rcOf c.heap i = 0
      · simp [hrc] at hypos
      · simp only [hrc, if_false] at hypos
        exact ⟨i, ⟨List.mem_range.mp hi, hrc, hv⟩, by intro h0; simp [h0] at hypos⟩
  · rintro ⟨i, hg, hch⟩
    have hle : heldAt c.heap i ≤ garbageLen c R := by
      unfold garbageLen
      apply le_sum_of_mem
      apply List.mem_map.mpr
      exact ⟨i, List.mem_range.mpr hg.1, by simp [hg.2.2]⟩
    have hpos : 0 < heldAt c.heap i := by
      simp only [heldAt, hg.2.1, if_false]
      exact List.length_pos_iff.mpr hch
    intro heq
    rw [heq] at hd
    omega

-- non-vacuity (the shape of the known finding): one array that contains itself and is referenced from
-- nowhere else: own count 1, one child, no roots. The invariant holds, refs = 1, reach = 0.
example : let c : Ctr := { heap := [{ rc := 1, ch := [.arr 0] }], refs := 1 }
    Garbage c [] 0 ∧ reachFrom c.heap [] = 0 ∧ garbageLen c [] = 1 := by
  refine ⟨⟨by decide, by decide, by simp [walk]⟩, by simp [reachFrom, walk, childSum], ?_⟩
  simp [garbageLen, walk, heldAt, rcOf, chOf]

end NeoModel.VmAcct
