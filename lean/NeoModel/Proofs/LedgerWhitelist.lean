/-
C01 — lemmas about the whitelisted-fee component (Model/Ledger/Whitelist.lean): coherence of cache and storage
is preserved by every operation.
-/
import NeoModel.Model.Ledger.Whitelist
namespace NeoModel.Ledger.Whitelist

theorem get_put_same (l : List (WKey × Int)) (k : WKey) (v : Int) : get (put l k v) k = some v := by
  simp [get, put]

theorem get_filter_ne (l : List (WKey × Int)) (k k' : WKey) (h : k' ≠ k) :
    get (l.filter (·.1 != k)) k' = get l k' := by
  induction l with
  | nil => rfl
  | cons x xs ih =>
    by_cases hx : x.1 = k
    · have h1 : (x.1 != k) = false := by simp [hx]
      have h2 : (x.1 == k') = false := by simp [hx]; exact fun e => h e.symm
      simp only [List.filter, h1, get, List.find?, h2] at *
      exact ih
    · have h1 : (x.1 != k) = true := by simp [hx]
      simp only [List.filter, h1, get, List.find?] at *
      by_cases hk : (x.1 == k') = true
      · simp [hk]
      · simp only [hk]; exact ih

theorem get_put_other (l : List (WKey × Int)) (k k' : WKey) (v : Int) (h : k' ≠ k) : get (put l k v) k' = get l k' := by
  have h2 : (k == k') = false := by simp; exact fun e => h e.symm
  simp only [put, get, List.find?, h2]
  exact get_filter_ne l k k' h

theorem get_filter_same (l : List (WKey × Int)) (k : WKey) : get (l.filter (·.1 != k)) k = none := by
  induction l with
  | nil => rfl
  | cons x xs ih =>
    by_cases hx : x.1 = k
    · have h1 : (x.1 != k) = false := by simp [hx]
      simp only [List.filter, h1]; exact ih
    · have h1 : (x.1 != k) = true := by simp [hx]
      have h2 : (x.1 == k) = false := by simp [hx]
      simp only [List.filter, h1, get, List.find?, h2] at *
      exact ih

theorem get_clean (l : List (WKey × Int)) (c : Nat) (k : WKey) :
    get (l.filter (·.1.1 != c)) k = if k.1 = c then none else get l k := by
  induction l with
  | nil => simp [get]
  | cons x xs ih =>
    by_cases hx : x.1.1 = c
    · have h1 : (x.1.1 != c) = false := by simp [hx]
      simp only [List.filter, h1]
      rw [ih]
      by_cases hk : k.1 = c
      · simp [hk]
      · have h2 : (x.1 == k) = false := by
          simp; intro e; exact hk (by rw [← e]; exact hx)
        simp [hk, get, List.find?, h2]
    · have h1 : (x.1.1 != c) = true := by simp [hx]
      simp only [List.filter, h1, get, List.find?] at *
      by_cases hk : (x.1 == k) = true
      · have : x.1 = k := by simpa using hk
        have hkc : ¬ k.1 = c := by rw [← this]; exact hx
        simp [hk, hkc]
      · simp only [hk]; exact ih


theorem step_coherent (s s' : State) (o : Op) (h : Coherent s) (hs : step s o = some s') : Coherent s' := by
  cases o with
  | set k fee =>
    simp only [step] at hs
    split at hs; · simp at hs
    simp only [Option.some.injEq] at hs
    subst hs
    intro k'
    by_cases e : k' = k
    · subst e; simp [get_put_same]
    · simp only [get_put_other _ _ _ _ e]; exact h k'
  | remove k =>
    simp only [step] at hs
    split at hs; · simp at hs
    simp only [Option.some.injEq] at hs
    subst hs
    intro k'
    by_cases e : k' = k
    · subst e; simp [erase, get_filter_same]
    · simp only [erase, get_filter_ne _ _ _ e]; exact h k'
  | clean c =>
    simp only [step, Option.some.injEq] at hs
    subst hs
    intro k'
    simp only [get_clean, h k']
  | restart =>
    simp only [step, Option.some.injEq] at hs
    subst hs
    intro k'; rfl

theorem run_coherent (ops : List Op) : ∀ (s : State), Coherent s → Coherent (run s ops) := by
  induction ops with
  | nil => intro s h; exact h
  | cons o os ih =>
    intro s h
    simp only [run]
    cases hs : step s o with
    | none => simp only [Option.getD]; exact ih s h
    | some s' => simp only [Option.getD]; exact ih s' (step_coherent s s' o h hs)

/-- a restart changes no answer of a coherent state -/
theorem restart_invisible (s : State) (h : Coherent s) (k : WKey) :
    get ((step s .restart).getD s).cache k = get s.cache k := by
  simp only [step, Option.getD]; exact (h k).symm

theorem empty_coherent : Coherent empty := fun _ => rfl

end NeoModel.Ledger.Whitelist

