/-
Helper lemmas for C02, state jump (jumpToStateInternal): stage idempotence, recover-level resumability,
what HeaderHashes.init reads of the jump batches. Core Lean only.
-/
import NeoModel.Proofs.PersistEqSync
namespace NeoModel.Persist

theorem jumpFrom_version {H : Hist} {P st hh : Nat} {db : Db} {res} (h : jumpFrom H P st hh db = .ok res) :
    ∃ v, db Key.version = some (Val.ver v) := by
  unfold jumpFrom at h
  split at h
  · simp at h
  · split at h
    · simp at h
    · split at h
      · rename_i v hv; exact ⟨v, hv⟩
      · simp at h

/-- every stage of the state jump is idempotent from its own marker. -/
theorem jump_stage_idempotent {H : Hist} {P hh : Nat} {d D : Db} {bs : List Batch} {p : Bool}
    (hv : d Key.version = some (Val.ver p)) (h : jumpFrom H P stNone hh d = .ok (bs, D)) :
    bs = [jumpA, jumpB p, jumpC H P p, jumpD H P] ∧
    D = applyBatch (jumpD H P) (applyBatch (jumpC H P p) (applyBatch (jumpB p) (applyBatch jumpA d))) ∧
    jumpFrom H P stJumpStarted hh (applyBatch jumpA d) = .ok ([jumpB p, jumpC H P p, jumpD H P], D) ∧
    jumpFrom H P stNewItems hh (applyBatch (jumpB p) (applyBatch jumpA d)) = .ok ([jumpC H P p, jumpD H P], D) ∧
    jumpFrom H P stBlocksRemoved hh (applyBatch (jumpC H P p) (applyBatch (jumpB p) (applyBatch jumpA d))) = .ok ([jumpD H P], D) := by
  have hvA : applyBatch jumpA d Key.version = some (Val.ver p) := by
    simp [jumpA, jmarker, applyBatch, W.apply, Db.set, hv]
  have hvB : applyBatch (jumpB p) (applyBatch jumpA d) Key.version = some (Val.ver (!p)) := by
    simp [jumpB, jmarker, applyBatch, W.apply, Db.set]
  have hvC : applyBatch (jumpC H P p) (applyBatch (jumpB p) (applyBatch jumpA d)) Key.version = some (Val.ver (!p)) := by
    rw [← hvB]
    apply applyBatch_fixes
    intro w hw
    simp only [jumpC, List.mem_append, List.mem_cons, List.not_mem_nil, or_false] at hw
    rcases hw with (rfl | hw) | rfl | rfl
    · intro db; simp [dropStor]
    · split at hw
      · rcases List.mem_append.mp hw with hw | hw
        · exact ofWrites_fixes _ _ (by
            intro q hq e
            simp only [List.mem_cons, List.mem_append, List.mem_map, List.not_mem_nil, or_false] at hq
            rcases hq with (rfl | ⟨j, _, rfl⟩) | rfl <;> simp at e) w hw
        · simp at hw; subst hw; intro db; simp [dropXfers]
      · simp at hw
    · simp [W.fixes]
    · simp [W.fixes, jmarker]
  unfold jumpFrom at h ⊢
  simp only [hv, hvA, hvB, hvC] at h ⊢
  simp [stNone, stJumpStarted, stNewItems, stBlocksRemoved, foldBatches] at h ⊢
  split at h
  · simp at h
  · rename_i hP
    split at h
    · simp at h
    · rename_i hc1
      split at h
      · simp at h
      · rename_i hc2
        simp at h
        obtain ⟨rfl, rfl⟩ := h
        simp [hP, hc1, hc2, foldBatches]


theorem recover_resume_jump {H : Hist} {B S : Nat} {db D : Db} {p : Bool} {hh st P : Nat} {rest : List Batch}
    (hver : db Key.version = some (Val.ver p)) (hih : initHeaders B db = .ok hh)
    (hst : db Key.stage = some (Val.stagev false st)) (hsp : db Key.syncPoint = some (Val.ptr P))
    (hjf : jumpFrom H P st hh db = .ok (rest, D)) :
    recover H B S db = nodeAfterJump P hh D := by
  simp [recover, hver, hih, hst, hsp, hjf]

theorem jump_unfold {H : Hist} {n n' : Node} {P : Nat} {bs : List Batch} (h : jump H n P = .ok (bs, n')) :
    ∃ D, jumpFrom H P stNone n.hdrHeight n.db = .ok (bs, D) ∧ nodeAfterJump P n.hdrHeight D = .ok n' := by
  unfold jump at h
  split at h
  · simp at h
  · rename_i bs' D hjf
    split at h
    · simp at h
    · rename_i n'' hn
      simp at h
      obtain ⟨rfl, rfl⟩ := h
      exact ⟨D, hjf, hn⟩

theorem nodeAfterJump_db {P hh : Nat} {D : Db} {n' : Node} (h : nodeAfterJump P hh D = .ok n') : n'.db = D := by
  unfold nodeAfterJump at h
  split at h
  · simp at h; subst h; rfl
  · simp at h

/-- the jump batches leave the sync point and everything HeaderHashes.init reads alone, except that stage
newStorageItemsAdded deletes the genesis record when the sync point is beyond MaxTraceableBlocks. -/
theorem jump_batches_fix (H : Hist) (P : Nat) (p : Bool) (k : Key)
    (hk : k = Key.syncPoint ∨ k = Key.curHeader ∨ (∃ q, k = Key.page q) ∨ (∃ i, 0 < i ∧ k = Key.exec i)) :
    (∀ w ∈ jumpA, w.fixes k) ∧ (∀ w ∈ jumpB p, w.fixes k) ∧ (∀ w ∈ jumpC H P p, w.fixes k) := by
  refine ⟨?_, ?_, ?_⟩
  · intro w hw
    simp [jumpA, jmarker] at hw; subst hw
    rcases hk with rfl | rfl | ⟨q, rfl⟩ | ⟨i, _, rfl⟩ <;> simp [W.fixes]
  · intro w hw
    simp [jumpB, jmarker] at hw
    rcases hw with rfl | rfl <;> rcases hk with rfl | rfl | ⟨q, rfl⟩ | ⟨i, _, rfl⟩ <;> simp [W.fixes]
  · intro w hw
    simp only [jumpC, List.mem_append, List.mem_cons, List.not_mem_nil, or_false] at hw
    rcases hw with (rfl | hw) | rfl | rfl
    · intro db; rcases hk with rfl | rfl | ⟨q, rfl⟩ | ⟨i, _, rfl⟩ <;> simp [dropStor]
    · split at hw
      · rcases List.mem_append.mp hw with hw | hw
        · apply ofWrites_fixes _ _ _ w hw
          intro q hq e
          simp only [List.mem_cons, List.mem_append, List.mem_map, List.not_mem_nil, or_false] at hq
          rcases hq with (rfl | ⟨j, _, rfl⟩) | rfl <;> rcases hk with rfl | rfl | ⟨q', rfl⟩ | ⟨i, hi, rfl⟩ <;> simp at e
          all_goals omega
        · simp at hw; subst hw; intro db
          rcases hk with rfl | rfl | ⟨q, rfl⟩ | ⟨i, _, rfl⟩ <;> simp [dropXfers]
      · simp at hw
    · rcases hk with rfl | rfl | ⟨q, rfl⟩ | ⟨i, _, rfl⟩ <;> simp [W.fixes]
    · rcases hk with rfl | rfl | ⟨q, rfl⟩ | ⟨i, _, rfl⟩ <;> simp [W.fixes, jmarker]

theorem stage_after_jumpA (d : Db) : applyBatch jumpA d Key.stage = some (Val.stagev false stJumpStarted) := by
  simp [jumpA, jmarker, applyBatch, W.apply]
theorem stage_after_jumpB (p : Bool) (d : Db) : applyBatch (jumpB p) d Key.stage = some (Val.stagev false stNewItems) := by
  simp [jumpB, jmarker, applyBatch, W.apply]
theorem stage_after_jumpC (H : Hist) (P : Nat) (p : Bool) (d : Db) :
    applyBatch (jumpC H P p) d Key.stage = some (Val.stagev false stBlocksRemoved) := by
  simp only [jumpC, applyBatch_append]
  simp [jmarker, applyBatch, W.apply]

/-- **jump_resumable_partial.** If `jump n P` succeeds with batches `bs` and node `n'` (the sync point is
recorded in the database), then `bs = [jumpA, jumpB p, jumpC, jumpD]`, `n'.db` is their fold, and for the
database after each of the first three batches: if HeaderHashes.init succeeds on it, reopening resumes the
jump and returns exactly `n'`. -/
theorem jump_resumable_aux (H : Hist) {B S : Nat} (n n' : Node) (P : Nat) (bs : List Batch)
    (hjump : jump H n P = .ok (bs, n')) (hsp : n.db Key.syncPoint = some (Val.ptr P)) :
    ∃ p : Bool, n.db Key.version = some (Val.ver p) ∧
      bs = [jumpA, jumpB p, jumpC H P p, jumpD H P] ∧
      n'.db = applyBatch (jumpD H P) (applyBatch (jumpC H P p) (applyBatch (jumpB p) (applyBatch jumpA n.db))) ∧
      (initHeaders B (applyBatch jumpA n.db) = .ok n.hdrHeight → recover H B S (applyBatch jumpA n.db) = .ok n') ∧
      (initHeaders B (applyBatch (jumpB p) (applyBatch jumpA n.db)) = .ok n.hdrHeight →
        recover H B S (applyBatch (jumpB p) (applyBatch jumpA n.db)) = .ok n') ∧
      (initHeaders B (applyBatch (jumpC H P p) (applyBatch (jumpB p) (applyBatch jumpA n.db))) = .ok n.hdrHeight →
        recover H B S (applyBatch (jumpC H P p) (applyBatch (jumpB p) (applyBatch jumpA n.db))) = .ok n') := by
  obtain ⟨D, hjf, hnode⟩ := jump_unfold hjump
  obtain ⟨p, hv⟩ := jumpFrom_version hjf
  obtain ⟨hbs, hD, g2, g4, g8⟩ := jump_stage_idempotent hv hjf
  obtain ⟨fA, fB, fC⟩ := jump_batches_fix H P p Key.syncPoint (Or.inl rfl)
  have spA : applyBatch jumpA n.db Key.syncPoint = some (Val.ptr P) := by rw [applyBatch_fixes _ _ _ fA]; exact hsp
  have spB : applyBatch (jumpB p) (applyBatch jumpA n.db) Key.syncPoint = some (Val.ptr P) := by rw [applyBatch_fixes _ _ _ fB]; exact spA
  have spC : applyBatch (jumpC H P p) (applyBatch (jumpB p) (applyBatch jumpA n.db)) Key.syncPoint = some (Val.ptr P) := by
    rw [applyBatch_fixes _ _ _ fC]; exact spB
  refine ⟨p, hv, hbs, by rw [nodeAfterJump_db hnode, hD], ?_, ?_, ?_⟩
  · intro hih
    obtain ⟨v, hv'⟩ := jumpFrom_version g2
    rw [recover_resume_jump hv' hih (stage_after_jumpA _) spA g2]; exact hnode
  · intro hih
    obtain ⟨v, hv'⟩ := jumpFrom_version g4
    rw [recover_resume_jump hv' hih (stage_after_jumpB _ _) spB g4]; exact hnode
  · intro hih
    obtain ⟨v, hv'⟩ := jumpFrom_version g8
    rw [recover_resume_jump hv' hih (stage_after_jumpC _ _ _ _) spC g8]; exact hnode


theorem firstMissing_congr_from (db db' : Db) (lo n : Nat) (h : ∀ i, lo ≤ i → db' (Key.exec i) = db (Key.exec i)) :
    firstMissing db' lo n = firstMissing db lo n := by
  induction n with
  | zero => rfl
  | succ n ih => simp only [firstMissing, ih, h (lo + n) (by omega)]

/-- HeaderHashes.init does not look below the last stored page. -/
theorem initHeaders_congr_from (B : Nat) (db db' : Db) (hh : Nat) (hc : db Key.curHeader = some (Val.ptr hh))
    (h1 : db' Key.curHeader = db Key.curHeader) (h2 : ∀ q, db' (Key.page q) = db (Key.page q))
    (h3 : ∀ i, (hh + 1) / B * B ≤ i → db' (Key.exec i) = db (Key.exec i)) :
    initHeaders B db' = initHeaders B db := by
  simp only [initHeaders, h1, hc, h2, firstMissing_congr_from db db' _ _ h3]

/-- **jump_resumable_when_header_page_stored**: when the genesis record is not needed by HeaderHashes.init —
the sync point is within MaxTraceableBlocks (nothing is deleted), or at least one header-hash page is stored
(more than B headers, as on any real network) — every prefix of the jump batches reopens to the jumped node. -/
theorem jump_resumable_of_page (H : Hist) {B S : Nat} (hB : 0 < B) (n n' : Node) (P : Nat) (bs : List Batch)
    (hjump : jump H n P = .ok (bs, n')) (hsp : n.db Key.syncPoint = some (Val.ptr P))
    (hih : initHeaders B n.db = .ok n.hdrHeight) (hlong : P ≤ H.mtb ∨ B ≤ n.hdrHeight + 1) :
    ∃ p : Bool, bs = [jumpA, jumpB p, jumpC H P p, jumpD H P] ∧
      recover H B S (applyBatch jumpA n.db) = .ok n' ∧
      recover H B S (applyBatch (jumpB p) (applyBatch jumpA n.db)) = .ok n' ∧
      recover H B S (applyBatch (jumpC H P p) (applyBatch (jumpB p) (applyBatch jumpA n.db))) = .ok n' := by
  obtain ⟨p, _, hbs, _, rA, rB, rC⟩ := jump_resumable_aux (B := B) (S := S) H n n' P bs hjump hsp
  have hch := initHeaders_ptr hih
  have fix : ∀ k, (k = Key.curHeader ∨ (∃ q, k = Key.page q) ∨ (∃ i, 0 < i ∧ k = Key.exec i)) →
      applyBatch jumpA n.db k = n.db k ∧ applyBatch (jumpB p) (applyBatch jumpA n.db) k = n.db k ∧
      applyBatch (jumpC H P p) (applyBatch (jumpB p) (applyBatch jumpA n.db)) k = n.db k := by
    intro k hk
    obtain ⟨fA, fB, fC⟩ := jump_batches_fix H P p k (Or.inr hk)
    have e1 := applyBatch_fixes jumpA n.db k fA
    have e2 := applyBatch_fixes (jumpB p) (applyBatch jumpA n.db) k fB
    have e3 := applyBatch_fixes (jumpC H P p) (applyBatch (jumpB p) (applyBatch jumpA n.db)) k fC
    exact ⟨e1, e2.trans e1, e3.trans (e2.trans e1)⟩
  -- genesis is the only record that may differ, and only in the last database
  have exA : ∀ i, applyBatch jumpA n.db (Key.exec i) = n.db (Key.exec i) := by
    intro i; simp [jumpA, jmarker, applyBatch, W.apply, Db.set]
  have exB : ∀ i, applyBatch (jumpB p) (applyBatch jumpA n.db) (Key.exec i) = n.db (Key.exec i) := by
    intro i; rw [← exA i]; simp [jumpB, jmarker, applyBatch, W.apply, Db.set]
  have iA : initHeaders B (applyBatch jumpA n.db) = .ok n.hdrHeight := by
    rw [initHeaders_congr B n.db _ (fix _ (Or.inl rfl)).1 (fun q => (fix _ (Or.inr (Or.inl ⟨q, rfl⟩))).1) exA]; exact hih
  have iB : initHeaders B (applyBatch (jumpB p) (applyBatch jumpA n.db)) = .ok n.hdrHeight := by
    rw [initHeaders_congr B n.db _ (fix _ (Or.inl rfl)).2.1 (fun q => (fix _ (Or.inr (Or.inl ⟨q, rfl⟩))).2.1) exB]; exact hih
  have iC : initHeaders B (applyBatch (jumpC H P p) (applyBatch (jumpB p) (applyBatch jumpA n.db))) = .ok n.hdrHeight := by
    rcases hlong with hP | hL
    · -- nothing is deleted: jumpC only drops old storage, sets the block pointer and the marker
      have exC : ∀ i, applyBatch (jumpC H P p) (applyBatch (jumpB p) (applyBatch jumpA n.db)) (Key.exec i) = n.db (Key.exec i) := by
        intro i
        rw [← exB i]
        have : ¬ P > H.mtb := by omega
        simp [jumpC, this, jmarker, applyBatch, W.apply, Db.set, dropStor]
      rw [initHeaders_congr B n.db _ (fix _ (Or.inl rfl)).2.2 (fun q => (fix _ (Or.inr (Or.inl ⟨q, rfl⟩))).2.2) exC]; exact hih
    · rw [initHeaders_congr_from B n.db _ n.hdrHeight hch (fix _ (Or.inl rfl)).2.2 (fun q => (fix _ (Or.inr (Or.inl ⟨q, rfl⟩))).2.2)]
      · exact hih
      · intro i hi
        have hpos : 0 < (n.hdrHeight + 1) / B * B := by
          have : 1 ≤ (n.hdrHeight + 1) / B := (Nat.le_div_iff_mul_le hB).mpr (by omega)
          exact Nat.mul_pos (by omega) hB
        exact (fix _ (Or.inr (Or.inr ⟨i, by omega, rfl⟩))).2.2
  exact ⟨p, hbs, rA iA, rB iB, rC iC⟩


/-- the completed jump: the final database reopens (ordinary start-up, no marker) to the jumped node. -/
theorem jump_complete_recover (H : Hist) {B S : Nat} (hB : 0 < B) (n n' : Node) (P : Nat) (bs : List Batch)
    (hjump : jump H n P = .ok (bs, n')) (hsp : n.db Key.syncPoint = some (Val.ptr P))
    (hih : initHeaders B n.db = .ok n.hdrHeight) (hlong : P ≤ H.mtb ∨ B ≤ n.hdrHeight + 1) :
    recover H B S n'.db = .ok n' := by
  obtain ⟨D, hjf, hnode⟩ := jump_unfold hjump
  obtain ⟨p, hv⟩ := jumpFrom_version hjf
  obtain ⟨_, hD, _, _, _⟩ := jump_stage_idempotent hv hjf
  have hdb := nodeAfterJump_db hnode
  have hch := initHeaders_ptr hih
  -- what the final database holds
  have hcur : D Key.curBlock = some (Val.ptr P) := by
    rw [hD]; simp only [jumpD, applyBatch, W.apply]
    rw [Db.set_other _ _ (by simp), Db.set_other _ _ (by simp), Db.set_other _ _ (by simp)]
    simp only [jumpC, applyBatch_append]; simp [jmarker, applyBatch, W.apply, Db.set]
  have hstage : D Key.stage = none := by rw [hD]; simp [jumpD, applyBatch, W.apply]
  have hroot : D (Key.root P) = some (Val.rootv (H.hashOf (itemsAt H P))) := by rw [hD]; simp [jumpD, applyBatch, W.apply, Db.set]
  have fixD : ∀ k, (k = Key.curHeader ∨ (∃ q, k = Key.page q) ∨ (∃ i, 0 < i ∧ k = Key.exec i)) →
      D k = applyBatch (jumpC H P p) (applyBatch (jumpB p) (applyBatch jumpA n.db)) k := by
    intro k hk
    rw [hD]; simp only [jumpD, applyBatch, W.apply]
    rcases hk with rfl | ⟨q, rfl⟩ | ⟨i, _, rfl⟩ <;> simp [Db.set]
  have fix : ∀ k, (k = Key.curHeader ∨ (∃ q, k = Key.page q) ∨ (∃ i, 0 < i ∧ k = Key.exec i)) → D k = n.db k := by
    intro k hk
    obtain ⟨fA, fB, fC⟩ := jump_batches_fix H P p k (Or.inr hk)
    rw [fixD k hk, applyBatch_fixes _ _ _ fC, applyBatch_fixes _ _ _ fB, applyBatch_fixes _ _ _ fA]
  have iD : initHeaders B D = .ok n.hdrHeight := by
    rcases hlong with hP | hL
    · have ex0 : ∀ i, D (Key.exec i) = n.db (Key.exec i) := by
        intro i
        rw [hD]
        have : ¬ P > H.mtb := by omega
        simp [jumpD, jumpC, jumpB, jumpA, this, jmarker, applyBatch, W.apply, Db.set, dropStor]
      rw [initHeaders_congr B n.db D (fix _ (Or.inl rfl)) (fun q => fix _ (Or.inr (Or.inl ⟨q, rfl⟩))) ex0]; exact hih
    · rw [initHeaders_congr_from B n.db D n.hdrHeight hch (fix _ (Or.inl rfl)) (fun q => fix _ (Or.inr (Or.inl ⟨q, rfl⟩)))]
      · exact hih
      · intro i hi
        have hpos : 0 < (n.hdrHeight + 1) / B * B := by
          have : 1 ≤ (n.hdrHeight + 1) / B := (Nat.le_div_iff_mul_le hB).mpr (by omega)
          exact Nat.mul_pos (by omega) hB
        exact fix _ (Or.inr (Or.inr ⟨i, by omega, rfl⟩))
  rw [hdb]
  unfold nodeAfterJump at hnode
  split at hnode
  · rename_i x q it h1 h2 h3
    simp at hnode; subst hnode
    simp [recover, h2, iD, hstage, hcur, hroot, h3]
  · simp at hnode


theorem firstMissing_congr_isSome (db db' : Db) (lo n : Nat) (h : ∀ i, (db' (Key.exec i)).isSome = (db (Key.exec i)).isSome) :
    firstMissing db' lo n = firstMissing db lo n := by
  induction n with
  | zero => rfl
  | succ n ih => simp only [firstMissing, ih, h]

/-- HeaderHashes.init only asks whether a record exists. -/
theorem initHeaders_congr_isSome (B : Nat) (db db' : Db) (h1 : db' Key.curHeader = db Key.curHeader)
    (h2 : ∀ q, db' (Key.page q) = db (Key.page q)) (h3 : ∀ i, (db' (Key.exec i)).isSome = (db (Key.exec i)).isSome) :
    initHeaders B db' = initHeaders B db := by
  simp only [initHeaders, h1, h2, firstMissing_congr_isSome db db' _ _ h3]

theorem jumpFrom_genesis {H : Hist} {P hh : Nat} {d : Db} {res} (h : jumpFrom H P stNone hh d = .ok res) (hP : P > H.mtb) :
    (d (Key.exec 0)).isSome = true := by
  obtain ⟨p, hv⟩ := jumpFrom_version h
  unfold jumpFrom at h
  simp only [hv] at h
  simp [stNone, stJumpStarted, stNewItems, stBlocksRemoved, foldBatches] at h
  split at h
  · simp at h
  · split at h
    · simp at h
    · rename_i hc
      have hc' := hc
      simp only [not_or, not_and] at hc'
      have := hc'.1 hP
      have h0 : ¬ d (Key.exec 0) = none := by simpa [jumpA, jumpB, jmarker, applyBatch, W.apply, Db.set] using this
      cases hd : d (Key.exec 0) with
      | none => exact absurd hd h0
      | some _ => rfl

/-- **jump_resumable**: every non-empty prefix of the jump batches, and the completed jump, reopen to the node of
the uninterrupted jump — whatever the length of the chain: the genesis header is kept. -/
theorem jump_resumable_all (H : Hist) {B S : Nat} (n n' : Node) (P : Nat) (bs : List Batch)
    (hjump : jump H n P = .ok (bs, n')) (hsp : n.db Key.syncPoint = some (Val.ptr P))
    (hih : initHeaders B n.db = .ok n.hdrHeight) :
    ∃ p : Bool, bs = [jumpA, jumpB p, jumpC H P p, jumpD H P] ∧
      recover H B S (applyBatch jumpA n.db) = .ok n' ∧
      recover H B S (applyBatch (jumpB p) (applyBatch jumpA n.db)) = .ok n' ∧
      recover H B S (applyBatch (jumpC H P p) (applyBatch (jumpB p) (applyBatch jumpA n.db))) = .ok n' ∧
      recover H B S n'.db = .ok n' := by
  obtain ⟨p, hv, hbs, hdb, rA, rB, rC⟩ := jump_resumable_aux (B := B) (S := S) H n n' P bs hjump hsp
  obtain ⟨D, hjf, hnode⟩ := jump_unfold hjump
  have fix : ∀ k, (k = Key.curHeader ∨ (∃ q, k = Key.page q) ∨ (∃ i, 0 < i ∧ k = Key.exec i)) →
      applyBatch jumpA n.db k = n.db k ∧ applyBatch (jumpB p) (applyBatch jumpA n.db) k = n.db k ∧
      applyBatch (jumpC H P p) (applyBatch (jumpB p) (applyBatch jumpA n.db)) k = n.db k := by
    intro k hk
    obtain ⟨fA, fB, fC⟩ := jump_batches_fix H P p k (Or.inr hk)
    have e1 := applyBatch_fixes jumpA n.db k fA
    have e2 := applyBatch_fixes (jumpB p) (applyBatch jumpA n.db) k fB
    have e3 := applyBatch_fixes (jumpC H P p) (applyBatch (jumpB p) (applyBatch jumpA n.db)) k fC
    exact ⟨e1, e2.trans e1, e3.trans (e2.trans e1)⟩
  have exA : ∀ i, applyBatch jumpA n.db (Key.exec i) = n.db (Key.exec i) := by
    intro i; simp [jumpA, jmarker, applyBatch, W.apply, Db.set]
  have exB : ∀ i, applyBatch (jumpB p) (applyBatch jumpA n.db) (Key.exec i) = n.db (Key.exec i) := by
    intro i; rw [← exA i]; simp [jumpB, jmarker, applyBatch, W.apply, Db.set]
  have exC : ∀ i, (applyBatch (jumpC H P p) (applyBatch (jumpB p) (applyBatch jumpA n.db)) (Key.exec i)).isSome = (n.db (Key.exec i)).isSome := by
    intro i
    by_cases hi : 0 < i
    · rw [(fix _ (Or.inr (Or.inr ⟨i, hi, rfl⟩))).2.2]
    · have : i = 0 := by omega
      subst this
      by_cases hP : P > H.mtb
      · rw [jumpFrom_genesis hjf hP]
        simp only [jumpC, if_pos hP, applyBatch_append]
        simp [jmarker, applyBatch, W.apply, Db.set, dropXfers, applyBatch_ofWrites, applyWrites_append, applyWrites]
      · rw [← exB 0]
        simp [jumpC, hP, jmarker, applyBatch, W.apply, Db.set, dropStor]
  have iA : initHeaders B (applyBatch jumpA n.db) = .ok n.hdrHeight := by
    rw [initHeaders_congr B n.db _ (fix _ (Or.inl rfl)).1 (fun q => (fix _ (Or.inr (Or.inl ⟨q, rfl⟩))).1) exA]; exact hih
  have iB : initHeaders B (applyBatch (jumpB p) (applyBatch jumpA n.db)) = .ok n.hdrHeight := by
    rw [initHeaders_congr B n.db _ (fix _ (Or.inl rfl)).2.1 (fun q => (fix _ (Or.inr (Or.inl ⟨q, rfl⟩))).2.1) exB]; exact hih
  have iC : initHeaders B (applyBatch (jumpC H P p) (applyBatch (jumpB p) (applyBatch jumpA n.db))) = .ok n.hdrHeight := by
    rw [initHeaders_congr_isSome B n.db _ (fix _ (Or.inl rfl)).2.2 (fun q => (fix _ (Or.inr (Or.inl ⟨q, rfl⟩))).2.2) exC]; exact hih
  refine ⟨p, hbs, rA iA, rB iB, rC iC, ?_⟩
  -- the completed jump
  have hD : n'.db = applyBatch (jumpD H P) (applyBatch (jumpC H P p) (applyBatch (jumpB p) (applyBatch jumpA n.db))) := hdb
  have hDn := nodeAfterJump_db hnode
  have fixD : ∀ k, (k = Key.curHeader ∨ (∃ q, k = Key.page q) ∨ (∃ i, k = Key.exec i)) →
      n'.db k = applyBatch (jumpC H P p) (applyBatch (jumpB p) (applyBatch jumpA n.db)) k := by
    intro k hk
    rw [hD]; simp only [jumpD, applyBatch, W.apply]
    rcases hk with rfl | ⟨q, rfl⟩ | ⟨i, rfl⟩ <;> simp [Db.set]
  have iD : initHeaders B n'.db = .ok n.hdrHeight := by
    rw [initHeaders_congr B _ n'.db (fixD _ (Or.inl rfl)) (fun q => fixD _ (Or.inr (Or.inl ⟨q, rfl⟩))) (fun i => fixD _ (Or.inr (Or.inr ⟨i, rfl⟩)))]
    exact iC
  have hcur : n'.db Key.curBlock = some (Val.ptr P) := by
    rw [hD]; simp only [jumpD, applyBatch, W.apply]
    rw [Db.set_other _ _ (by simp), Db.set_other _ _ (by simp), Db.set_other _ _ (by simp), Db.set_other _ _ (by simp)]
    simp only [jumpC, applyBatch_append]; simp [jmarker, applyBatch, W.apply, Db.set]
  have hstage : n'.db Key.stage = none := by rw [hD]; simp [jumpD, applyBatch, W.apply]
  have hroot : n'.db (Key.root P) = some (Val.rootv (H.hashOf (itemsAt H P))) := by rw [hD]; simp [jumpD, applyBatch, W.apply, Db.set]
  unfold nodeAfterJump at hnode
  split at hnode
  · rename_i x q it h1 h2 h3
    simp at hnode; subst hnode
    simp only at hcur hstage hroot iD
    simp [recover, h2, iD, hstage, hcur, hroot, h3]
  · simp at hnode

end NeoModel.Persist
