/-
C20 (a): with `Queue.Notify` (aea938c) the queue is never stuck once every external addition has been followed by
its notification — for every interleaving without Discard, external additions at any moment included.
-/
import NeoModel.Proofs.QueueWake
namespace NeoModel.Queue

/-- Is an external addition still waiting for its notification? (`adv` raises the flag, `notify` clears it: the
server reports the ledger's blocks in order, one notification after the last addition covers all of them.) -/
def pendAfter : Bool → List Act → Bool
  | b, [] => b
  | _, .adv :: r => pendAfter true r
  | _, .notify :: r => pendAfter false r
  | b, _ :: r => pendAfter b r

/-- While `Run` is not active and nothing is pending, the slot of the next block is empty; a stale height in
`Run`'s hands means a notification is pending or a signal is. -/
structure Sleepy2 (s : State) (pend : Bool) : Prop where
  nd : s.discarded = false
  ini : s.pc = .init → s.signal = false → ∀ p, s.ring p = none
  wait : s.pc = .wait → s.signal = false → pend = false → s.ring (posOf s.cap (s.height + 1)) = none
  stale : ∀ h, s.pc = .haveH h → h ≠ s.height → pend = true ∨ s.signal = true
  notDone : s.pc ≠ .done

theorem sleepy2_init (cap h0 : Nat) : Sleepy2 (init cap h0) false :=
  ⟨rfl, fun _ _ _ => rfl, fun h => by simp [init] at h, fun h e => by simp [init] at e, by simp [init]⟩

def pendStep (b : Bool) : Act → Bool
  | .adv => true
  | .notify => false
  | _ => b

theorem sleepy2_apply (s : State) (pend : Bool) (a : Act) (hi : Inv s) (hk : Sleepy2 s pend) (h2 : a ≠ .disc) :
    Sleepy2 (apply s a) (pendStep pend a) := by
  cases a with
  | disc => exact absurd rfl h2
  | adv =>
    simp only [apply, chainAdvance, pendStep]
    exact ⟨hk.nd, hk.ini, fun _ _ h => (by cases h), fun h e _ => .inl rfl, hk.notDone⟩
  | notify =>
    simp only [apply, notify, hk.nd, Bool.false_eq_true, if_false, pendStep]
    exact ⟨rfl, fun _ hs => by simp at hs, fun _ hs => by simp at hs, fun h e _ => .inr rfl, hk.notDone⟩
  | put e hr =>
    simp only [apply, pendStep]
    rcases put_cases s e (min hr s.height) with h | h | ⟨_, _, _, h4, h5⟩
    · rw [h]; exact hk
    · rw [h]
      exact ⟨hk.nd, fun _ hs => by simp at hs, fun _ hs => by simp at hs, fun h e _ => .inr rfl, hk.notDone⟩
    · rw [h5]
      exact ⟨hk.nd, fun _ hs => by simp [insert] at hs, fun _ hs => by simp [insert] at hs,
        fun h e _ => .inr (by simp [insert]), by simpa [insert] using hk.notDone⟩
  | run =>
    simp only [apply, runStep, pendStep]
    cases hpc : s.pc with
    | init =>
      simp only [start]
      refine ⟨hk.nd, fun h => by simp at h, ?_, fun h e => by simp at e, by simp⟩
      intro _ hs _
      exact hk.ini hpc hs _
    | wait =>
      simp only [wake]
      split
      · exact ⟨hk.nd, fun h => by simp at h, fun h => by simp at h, fun h e => by simp at e, by simp⟩
      · simp only [hk.nd, Bool.false_eq_true, if_false]
        exact hk
    | top =>
      simp only [readH]
      exact ⟨hk.nd, fun h => by simp at h, fun h => by simp at h,
        fun h e hne => by simp only [Pc.haveH.injEq] at e; exact absurd e.symm hne, by simp⟩
    | haveH h =>
      simp only [lockSection]
      refine ⟨hk.nd, ?_, ?_, ?_, ?_⟩
      · intro e; split at e
        · simp at e
        · split at e <;> simp at e
      · intro hw hs hp
        by_cases hh : h = s.height
        · subst hh
          cases hr : s.ring (posOf s.cap (s.height + 1)) with
          | some b => rw [hr] at hw; simp only at hw; split at hw <;> simp at hw
          | none =>
            simp only
            cases hc : (cleanup s.cap (s.height - s.lastHeight) s.lastHeight s.ring s.len).1 (posOf s.cap (s.height + 1)) with
            | none => rfl
            | some x => rw [cleanup_sub _ _ _ _ _ _ _ hc] at hr; cases hr
        · rcases hk.stale h hpc hh with e | e
          · rw [hp] at e; cases e
          · simp only at hs; rw [hs] at e; cases e
      · intro h' e
        split at e
        · cases e
        · split at e <;> cases e
      · split
        · simp
        · split <;> simp
    | holding b pos =>
      simp only [addItem]
      exact ⟨hk.nd, fun h => by simp at h, fun h => by simp at h, fun h e => by simp at e, by simp⟩
    | added b pos =>
      simp only [finish]
      exact ⟨hk.nd, fun h => by simp at h, fun h => by simp at h, fun h e => by simp at e, by simp⟩
    | done => exact absurd hpc hk.notDone

theorem pendAfter_cons (b : Bool) (a : Act) (r : List Act) : pendAfter b (a :: r) = pendAfter (pendStep b a) r := by
  cases a <;> rfl

theorem sleepy2_exec (s : State) (pend : Bool) (as : List Act) (hi : Inv s) (hk : Sleepy2 s pend)
    (hn : ∀ a ∈ as, a ≠ .disc) : Sleepy2 (exec s as) (pendAfter pend as) := by
  induction as generalizing s pend with
  | nil => exact hk
  | cons a r ih =>
    rw [pendAfter_cons]
    exact ih _ _ (inv_apply s a hi) (sleepy2_apply s pend a hi hk (hn a (by simp))) (fun b hb => hn b (by simp [hb]))

/-- Nothing pending, the next blocks queued: `Run` alone reaches `m`. -/
theorem reaches_of_sleepy2 (s : State) (m : Nat) (hi : Inv s) (ho : Offer s) (hk : Sleepy2 s false)
    (hfill : Filled s m) : ∃ n, m ≤ (runN n s).height := by
  by_cases hlt : s.height < m
  · obtain ⟨x, hx, _, _⟩ := hfill (s.height + 1) (by omega) (by omega)
    by_cases hsig : s.signal = true
    · exact reaches_of_signal s m hi ho hk.nd hfill hsig hk.notDone
    · have hsig' : s.signal = false := by simpa using hsig
      -- no signal: `Run` is in its loop with a fresh height
      have hfresh : Fresh s :=
        ⟨fun h e => (by
          by_cases e' : h = s.height
          · exact e'
          · rcases hk.stale h e e' with p | p
            · cases p
            · rw [hsig'] at p; cases p), ho.holding, ho.added⟩
      have hact : Active s := by
        cases hpc : s.pc with
        | init => rw [hk.ini hpc hsig'] at hx; cases hx
        | wait => rw [hk.wait hpc hsig' rfl] at hx; cases hx
        | top => exact .inr (.inl hpc)
        | haveH h => exact .inr (.inr (.inl ⟨h, hpc⟩))
        | holding b p => exact .inr (.inr (.inr (.inl ⟨b, p, hpc⟩)))
        | added b p => exact .inr (.inr (.inr (.inr ⟨b, p, hpc⟩)))
        | done => exact absurd hpc hk.notDone
      exact reaches s m ⟨hi, hfresh, hk.nd, fun _ => ⟨hfill, hact⟩⟩
  · exact ⟨0, by simp only [runN]; omega⟩

end NeoModel.Queue
