/-
C15 — definitions and helper lemmas for stating the witness theorems over executions of the frame machine
(reachable states, the loader's hash, the steps of InitVerificationContext). Core Lean only.
-/
import NeoModel.Proofs.WitnessFrames
import NeoModel.Model.Witness.Arg
import NeoModel.Generated.Interops
namespace NeoModel.Witness

/-- the states the frame machine reaches from the empty VM (any steps at all). -/
abbrev Reachable : VM → Prop := Reach (fun _ _ => True)

/-- ... by honest steps: explicit callers are the executing script's hash (`Op.honest`). -/
abbrev Honest : VM → Prop := Reach (fun v op => op.honest v)

/-- ... by honest steps of a node: an entry point on the empty stack, then only what the interop layer does. -/
abbrev Exec : VM → Prop := Reach (fun v op => op.honest v ∧ op.entryOrInterop v)

theorem Exec.honest {v : VM} (h : Exec v) : Honest v := by
  induction h with
  | empty => exact Reach.empty
  | step _ hp hs ih => exact Reach.step ih hp.1 hs

/-- hash of the script context that loaded the executing one — the next live load below it — and zero in
the entry script. -/
def VM.loaderHash (v : VM) : Hash :=
  match live v.istack with
  | _ :: p :: _ => p.frame.hash
  | _ => 0

/-- number of script loads that have not returned (the entry script counts). -/
def VM.liveLoads (v : VM) : Nat := (live v.istack).length

theorem chainList_head : ∀ s : SC, ∃ t, s.chainList = s :: t
  | .root _ => ⟨[], rfl⟩
  | .child _ p => ⟨p.chainList, rfl⟩

/-- the frames of an environment as plain data (executing context first). -/
def Env.view (e : Env) : List (Hash × Hash × Bool) :=
  (e.cur :: e.parents).map fun f => (f.hash, f.caller, f.readStates)

/-- C15-frames-6. The entry script hash is constant: as long as the run never resets the VM and never
empties the invocation stack, `GetEntryScriptHash` returns the same hash. -/
theorem bottom_constant {v v' : VM} (ops : List Op) (hne : v.istack ≠ [])
    (hs : StaysAbove 1 v ops) (hr : v.run ops = .ok v') : v'.istack.getLast? = v.istack.getLast? := by
  obtain ⟨t, b, hb⟩ : ∃ t b, v.istack = t ++ [b] := by
    refine ⟨v.istack.dropLast, v.istack.getLast hne, ?_⟩
    exact (List.dropLast_concat_getLast hne).symm
  have hsuf : [b] <:+ v.istack := by rw [hb]; exact List.suffix_append _ _
  obtain ⟨t', ht'⟩ := run_suffix ops hsuf (by simpa using hs) hr
  simp [hb, ← ht']

/-- `CheckHashedWitness` in machine state `v` returned `r`. -/
def cwIs (k : Hash → Option (List Key)) (ic : IC) (v : VM) (h : Hash) (r : Res) : Prop :=
  checkWitnessVM k ic v h = some r

/-- The scope of signer `s` covers the executing context of machine state `v`, in terms of the execution:
the executing script's hash, the number of live loads, the loader's hash, manifests. -/
def allowedX (k : Hash → Option (List Key)) (v : VM) (s : Signer) : Prop :=
  ∃ e, v.env k = some e ∧ allowed e s

/-- `P` holds at every step of the run. -/
def AllAlong (P : VM → Op → Prop) : VM → List Op → Prop
  | _, [] => True
  | v, op :: ops => P v op ∧ match v.step op with
    | .ok v' => AllAlong P v' ops
    | .error _ => True

theorem AllAlong.mono {P Q : VM → Op → Prop} (hPQ : ∀ v op, P v op → Q v op) : ∀ (ops : List Op) {v : VM},
    AllAlong P v ops → AllAlong Q v ops
  | [], _, _ => trivial
  | op :: ops, v, h => by
    obtain ⟨hp, hrest⟩ := h
    refine ⟨hPQ _ _ hp, ?_⟩
    cases hs : v.step op with
    | error x => trivial
    | ok v1 => rw [hs] at hrest; exact AllAlong.mono hPQ ops hrest

theorem Reach.run {P : VM → Op → Prop} : ∀ (ops : List Op) {v v' : VM}, Reach P v → AllAlong P v ops →
    v.run ops = .ok v' → Reach P v'
  | [], v, v', hr, _, h => by simp [VM.run] at h; cases h; exact hr
  | op :: ops, v, v', hr, ha, h => by
    simp only [VM.run] at h
    obtain ⟨hp, ha⟩ := ha
    split at h
    · cases h
    · rename_i v1 h1
      rw [h1] at ha
      exact Reach.run ops (Reach.step hr hp h1) ha h

/-- the loads of `InitVerificationContext` (blockchain.go:3428-3468) for the witness of account `acct`:
the verification script (`contract = none`) or the `verify` method of the deployed contract `acct`
(`contract = some hasInitialize`), then the invocation script if there is one. -/
def initVerification (acct : Hash) (contract : Option Bool) (inv : Option Hash) : List Op :=
  (match contract with
    | none => [Op.verifyScript acct]
    | some init => [Op.verifyContract acct init]) ++
  (match inv with
    | none => []
    | some h => [Op.invocationScript h])

/-- the script context of the verification script / `verify` method: hash = the signer's account, no calling
hash, ReadOnly. -/
def verifRoot (acct : Hash) : SC := .root ⟨acct, 0, fReadOnly⟩

theorem resolveHash_zero (h : Hash) : resolveHash 0 h = h := by
  unfold resolveHash; split <;> simp_all

/-- the call flags a syscall requires, from the regenerated table of the node's syscalls. -/
def syscallFlags (name : String) : Option Nat :=
  (Generated.Interops.table.find? (fun e => e.name == name)).map (·.flags)


theorem sigContract_injective {k1 k2 : Bytes} (h : sigContract k1 = sigContract k2) (hl : k1.length = k2.length) :
    k1 = k2 := by
  unfold sigContract at h
  simp only [List.append_assoc, List.cons_append, List.nil_append, List.cons.injEq, true_and] at h
  exact List.append_inj_left h hl



mutual
/-- the meaning of a rule condition in machine state `v`, in terms of the execution: the executing script's
hash, the hash of the script that loaded it, their manifests' groups, the number of live loads. -/
def holdsX (k : Hash → Option (List Key)) (v : VM) : Cond → Prop
  | .boolean b => b = true
  | .not c => ¬ holdsX k v c
  | .and cs => holdsAllX k v cs
  | .or cs => holdsAnyX k v cs
  | .scriptHash h => h = v.currentHash
  | .group g => ∃ gs, k v.currentHash = some gs ∧ g ∈ gs
  | .calledByEntry => v.liveLoads ≤ 2
  | .calledByContract h => h = v.loaderHash
  | .calledByGroup g => ∃ gs, k v.loaderHash = some gs ∧ g ∈ gs
def holdsAllX (k : Hash → Option (List Key)) (v : VM) : List Cond → Prop
  | [] => True
  | c :: cs => holdsX k v c ∧ holdsAllX k v cs
def holdsAnyX (k : Hash → Option (List Key)) (v : VM) : List Cond → Prop
  | [] => False
  | c :: cs => holdsX k v c ∨ holdsAnyX k v cs
end

/-- `r` is the first rule whose condition holds in machine state `v`. -/
def firstMatchX (k : Hash → Option (List Key)) (v : VM) (rules : List Rule) (r : Rule) : Prop :=
  ∃ pre post, rules = pre ++ r :: post ∧ (∀ x ∈ pre, ¬ holdsX k v x.cond) ∧ holdsX k v r.cond

/-- the scope of signer `s` covers the executing context of machine state `v` — the property's clauses. -/
def allowedExec (k : Hash → Option (List Key)) (v : VM) (s : Signer) : Prop :=
  s.scopes = scGlobal
  ∨ (hasScope s.scopes scCalledByEntry = true ∧ v.liveLoads ≤ 2)
  ∨ (hasScope s.scopes scCustomContracts = true ∧ v.currentHash ∈ s.allowedContracts)
  ∨ (hasScope s.scopes scCustomGroups = true ∧ ∃ g ∈ s.allowedGroups, ∃ gs, k v.currentHash = some gs ∧ g ∈ gs)
  ∨ (hasScope s.scopes scRules = true ∧ ∃ r, firstMatchX k v s.rules r ∧ r.action = actAllow)

mutual
theorem holds_iff_holdsX (k : Hash → Option (List Key)) (v : VM) (e : Env) (hk : e.contracts = k)
    (hcur : e.current = v.currentHash) (hcal : e.calling = v.loaderHash)
    (hdir : e.directFromEntry ↔ v.liveLoads ≤ 2) : ∀ c : Cond, holds e c ↔ holdsX k v c
  | .boolean b => by simp [holds, holdsX]
  | .not c => by simp only [holds, holdsX, holds_iff_holdsX k v e hk hcur hcal hdir c]
  | .and cs => by simp only [holds, holdsX]; exact holdsAll_iff_X k v e hk hcur hcal hdir cs
  | .or cs => by simp only [holds, holdsX]; exact holdsAny_iff_X k v e hk hcur hcal hdir cs
  | .scriptHash h => by simp [holds, holdsX, hcur]
  | .group g => by simp [holds, holdsX, Env.hasGroup, hcur, hk]
  | .calledByEntry => by simp only [holds, holdsX]; exact hdir
  | .calledByContract h => by simp [holds, holdsX, hcal]
  | .calledByGroup g => by simp [holds, holdsX, Env.hasGroup, hcal, hk]
theorem holdsAll_iff_X (k : Hash → Option (List Key)) (v : VM) (e : Env) (hk : e.contracts = k)
    (hcur : e.current = v.currentHash) (hcal : e.calling = v.loaderHash)
    (hdir : e.directFromEntry ↔ v.liveLoads ≤ 2) : ∀ cs : List Cond, holdsAll e cs ↔ holdsAllX k v cs
  | [] => by simp [holdsAll, holdsAllX]
  | c :: cs => by
    simp only [holdsAll, holdsAllX, holds_iff_holdsX k v e hk hcur hcal hdir c,
      holdsAll_iff_X k v e hk hcur hcal hdir cs]
theorem holdsAny_iff_X (k : Hash → Option (List Key)) (v : VM) (e : Env) (hk : e.contracts = k)
    (hcur : e.current = v.currentHash) (hcal : e.calling = v.loaderHash)
    (hdir : e.directFromEntry ↔ v.liveLoads ≤ 2) : ∀ cs : List Cond, holdsAny e cs ↔ holdsAnyX k v cs
  | [] => by simp [holdsAny, holdsAnyX]
  | c :: cs => by
    simp only [holdsAny, holdsAnyX, holds_iff_holdsX k v e hk hcur hcal hdir c,
      holdsAny_iff_X k v e hk hcur hcal hdir cs]
end



theorem pushSC_top (st : List SC) (fr : FrameRec) : ∃ s rest, pushSC st fr = s :: rest ∧ s.frame = fr := by
  cases st with
  | nil => exact ⟨_, _, rfl, rfl⟩
  | cons p r => exact ⟨_, _, rfl, rfl⟩

theorem dupTop_top {s : SC} {rest : List SC} : dupTop (s :: rest) = s :: s :: rest := rfl


deriving instance DecidableEq for VM
deriving instance DecidableEq for Except

/-- the invocation stack is within `MaxInvocationStackSize`. -/

def Bounded (v : VM) : Prop := v.istack.length ≤ maxInvocationStackSize

theorem load_bd {v v' : VM} {h160 caller hash : Hash} {f : Flags} (h : v.load h160 caller hash f = .ok v') :
    Bounded v' := by
  have := load_ok h
  unfold Bounded
  rcases this.2 with ⟨h1, h2⟩ | ⟨p, rest, h1, h2⟩
  · rw [h2]; simp [maxInvocationStackSize]
  · rw [h2]; have := this.1; rw [h1] at this; simp at this ⊢; omega

theorem call_bd {v v' : VM} (h : v.call = .ok v') : Bounded v' := by
  unfold VM.call at h
  split at h
  · cases h
  · rename_i s rest he
    split at h
    · cases h
    · rename_i hl
      cases h
      unfold Bounded; rw [he] at hl; simp at hl ⊢; omega

theorem pop_bd {v v' : VM} (hb : Bounded v) (h : v.pop = .ok v') : Bounded v' := by
  obtain ⟨s, hs⟩ := pop_ok h
  unfold Bounded at *; rw [hs] at hb; simp at hb; omega

theorem popN_bd : ∀ (n : Nat) {v v' : VM}, Bounded v → v.popN n = .ok v' → Bounded v'
  | 0, v, v', hb, h => by simp [VM.popN] at h; cases h; exact hb
  | n+1, v, v', hb, h => by
    simp only [VM.popN] at h
    split at h
    · cases h
    · rename_i v1 h1; exact popN_bd n (pop_bd hb h1) h

theorem loadNEF_bd {v v' : VM} {h160 caller hash : Hash} {f : Flags} {init : Bool}
    (h : v.loadNEF h160 caller hash f init = .ok v') : Bounded v' := by
  unfold VM.loadNEF at h
  split at h
  · cases h
  · rename_i v1 h1
    split at h
    · exact call_bd h
    · cases h; exact load_bd h1

theorem callEx_bd {v v' : VM} {caller target : Hash} {f : Flags} {init : Bool}
    (h : v.callEx caller target f init = .ok v') : Bounded v' := by
  unfold VM.callEx at h
  split at h
  · cases h
  · exact loadNEF_bd h

theorem step_bd {v v' : VM} (op : Op) (hb : Bounded v) (h : v.step op = .ok v') : Bounded v' := by
  cases op with
  | loadWithFlags h160 f => exact load_bd (v := VM.empty) h
  | loadScriptWithFlags h160 f => exact load_bd h
  | loadDynamicScript h160 f => exact load_bd h
  | loadScriptWithHash h160 hash f => exact load_bd h
  | loadNEFMethod h160 caller hash f init => exact loadNEF_bd h
  | call => exact call_bd h
  | ret => exact pop_bd hb h
  | unwind n => exact popN_bd n hb h
  | contractCall target fs safe init =>
    simp only [VM.step] at h
    split at h
    · cases h
    · split at h
      · cases h
      · split at h
        · cases h
        · exact callEx_bd h
  | callT target fs safe init =>
    simp only [VM.step] at h
    split at h
    · cases h
    · split at h
      · cases h
      · exact callEx_bd h
  | runtimeLoadScript h160 fs =>
    simp only [VM.step] at h
    split at h
    · cases h
    · split at h
      · cases h
      · split at h
        · cases h
        · exact load_bd h
  | nativeCall caller target init => exact callEx_bd h
  | verifyScript hash => exact load_bd h
  | verifyContract hash init => exact loadNEF_bd h
  | invocationScript h160 => exact load_bd h

theorem reach_bounded {P : VM → Op → Prop} {v : VM} (h : Reach P v) : Bounded v := by
  induction h with
  | empty => simp [Bounded, VM.empty]
  | step _ _ hs ih => exact step_bd _ ih hs


end NeoModel.Witness
