import NeoModel.Model.Exec
/-
Helper lemmas for C04: the simulation between the implementation model `im` (lazy DAO layering,
contract/call.go + vm.go) and the transactional specification `sp` of Model/Exec.lean.

  * `ro`  : under call flags without WriteStates and AllowNotify an execution changes neither the
            layers nor the notification list (this is why call.go may skip the layer for them);
  * `sim` : for every tree whose finally blocks make no calls, every context and every pair of
            related states, `im` and `sp` produce related results; a `thrown` implementation
            state may be dirty only when no TRY of the executing contract instance is active,
            in which case nothing of that instance runs before the layer that holds the dirt is
            dropped.
-/
namespace NeoModel.Exec

/-- abstraction relation: the layered implementation state shows exactly the specification state. -/
def R (s : ISt) (S : St) : Prop := s.view = S.σ ∧ s.ev = S.ev ∧ s.exc = S.exc

/-- how an implementation result corresponds to a specification result (`s` = the implementation
    state the run started from, `exact` = the state of a `thrown` result is guaranteed exact). -/
def Rel (x : Ctx) (exact : Bool) (s : ISt) (ri : Res ISt) (rs : Res St) : Prop :=
  match ri with
  | .norm s' => ∃ S', rs = .norm S' ∧ R s' S' ∧ s'.below = s.below ∧ s.ev <+: s'.ev ∧ (s.exc = false → s'.exc = false)
  | .thrown s' => x.h = true ∧ ∃ S', rs = .thrown S' ∧ s'.below = s.below ∧ s.ev <+: s'.ev ∧ s'.exc = true ∧
      S'.exc = true ∧ (exact = true → R s' S')
  | .fault _ => (∃ S', rs = .fault S') ∨ (x.h = false ∧ ∃ S', rs = .thrown S')

theorem rel_trans {x e s s1 ri rs} (hb : s1.below = s.below) (hp : s.ev <+: s1.ev) (he : s.exc = false → s1.exc = false)
    (h : Rel x e s1 ri rs) : Rel x e s ri rs := by
  unfold Rel at *
  cases ri with
  | norm s' =>
    obtain ⟨S', h1, h2, h3, h4, h5⟩ := h
    exact ⟨S', h1, h2, h3.trans hb, hp.trans h4, fun h => h5 (he h)⟩
  | thrown s' =>
    obtain ⟨hh, S', h1, h3, h4, h5⟩ := h
    exact ⟨hh, S', h1, h3.trans hb, hp.trans h4, h5⟩
  | fault s' => exact h

theorem rel_weaken {x e s ri rs} (h : Rel x true s ri rs) : Rel x e s ri rs := by
  unfold Rel at *
  cases ri with
  | norm s' => exact h
  | thrown s' =>
    obtain ⟨hh, S', h1, h3, h4, h5, h6, h7⟩ := h
    exact ⟨hh, S', h1, h3, h4, h5, h6, fun _ => h7 rfl⟩
  | fault s' => exact h

end NeoModel.Exec

namespace NeoModel.Exec

def Same (s s' : ISt) : Prop := s'.top = s.top ∧ s'.below = s.below ∧ s'.ev = s.ev

def RO (s : ISt) (r : Res ISt) : Prop :=
  match r with
  | .norm s' => Same s s'
  | .thrown s' => Same s s'
  | .fault _ => True

theorem same_refl (s : ISt) : Same s s := ⟨rfl, rfl, rfl⟩
theorem same_trans {a b c : ISt} (h1 : Same a b) (h2 : Same b c) : Same a c :=
  ⟨h2.1.trans h1.1, h2.2.1.trans h1.2.1, h2.2.2.trans h1.2.2⟩

theorem ro_trans {s s1 : ISt} {r} (h1 : Same s s1) (h : RO s1 r) : RO s r := by
  cases r <;> simp only [RO] at * <;> first | exact same_trans h1 h | trivial

theorem and_mut_false {f : Flags} (fl : Flags) (h : f.mut = false) : (f.and fl).mut = false := by
  cases f; cases fl; simp_all [Flags.mut, Flags.and]

theorem ro_raise (h : Bool) (s : ISt) : RO s (raise h s) := by
  unfold raise; split <;> simp [RO, Same]

theorem ro_end (h hasF : Bool) (rf : ISt → Res ISt) (s : ISt) (hf : ∀ s, RO s (rf s)) : RO s (imEnd h hasF rf s) := by
  unfold imEnd
  split
  · have := hf s
    split
    · rename_i s3 heq
      rw [heq] at this
      split
      · exact ro_trans this (ro_raise h s3)
      · exact this
    · rename_i r hne
      exact this
  · exact same_refl s

theorem ro_finExc (h : Bool) (rf : ISt → Res ISt) (s : ISt) (hf : ∀ s, RO s (rf s)) : RO s (imFinExc h rf s) := by
  unfold imFinExc
  have := hf s
  split
  · rename_i s3 heq
    rw [heq] at this
    split
    · exact ro_trans this (ro_raise h s3)
    · trivial
  · exact this

theorem ro (t : Tree) : ∀ (x : Ctx) (s : ISt), x.f.mut = false → RO s (im t x s) := by
  induction t with
  | skip => intro x s _; simp [im, RO, Same]
  | seq a b iha ihb =>
    intro x s hm
    simp only [im]
    have ha := iha x s hm
    split
    · rename_i s1 heq
      rw [heq] at ha
      exact ro_trans ha (ihb x s1 hm)
    · rename_i r hne
      exact ha
  | put k v =>
    intro x s hm
    have : x.f.w = false := by cases hx : x.f; simp_all [Flags.mut]
    simp [im, this, RO]
  | del k =>
    intro x s hm
    have : x.f.w = false := by cases hx : x.f; simp_all [Flags.mut]
    simp [im, this, RO]
  | notify e =>
    intro x s hm
    have : x.f.n = false := by cases hx : x.f; simp_all [Flags.mut]
    simp [im, this, RO]
  | ifp k body ih =>
    intro x s hm
    simp only [im]
    split
    · split
      · exact ih x s hm
      · exact same_refl s
    · trivial
  | call c' fl body ih =>
    intro x s hm
    simp only [im]
    split
    · have hm' := and_mut_false fl hm
      simp only [hm', Bool.and_false, Bool.false_eq_true, if_false]
      have := ih ⟨c', x.f.and fl, false, x.h⟩ s hm'
      split
      · rename_i s1 heq; rw [heq] at this; simpa [ISt.unload, RO] using this
      · rename_i s1 heq; rw [heq] at this; simpa [ISt.unload, RO] using this
      · trivial
    · trivial
  | loc body ih => intro x s hm; simp only [im]; exact ih x s hm
  | try_ body hasC cat hasF fin ihb ihc ihf =>
    intro x s hm
    simp only [im]
    split
    · trivial
    · have hb := ihb { x with inTry := true, h := true } s hm
      split
      · rename_i s1 heq
        rw [heq] at hb
        exact ro_trans hb (ro_end _ _ _ _ (fun s => ihf x s hm))
      · rename_i s1 heq
        rw [heq] at hb
        split
        · have hc := ihc { x with inTry := x.inTry || hasF, h := x.h || hasF } { s1 with exc := false } hm
          have hs1 : Same s { s1 with exc := false } := hb
          split
          · rename_i s2 heq2
            rw [heq2] at hc
            exact ro_trans hs1 (ro_trans hc (ro_end _ _ _ _ (fun s => ihf x s hm)))
          · rename_i s2 heq2
            rw [heq2] at hc
            split
            · exact ro_trans hs1 (ro_trans hc (ro_finExc _ _ _ (fun s => ihf x s hm)))
            · exact same_trans hs1 hc
          · trivial
        · exact ro_trans hb (ro_finExc _ _ _ (fun s => ihf x s hm))
      · trivial
  | throw => intro x s _; simp only [im]; exact ro_raise _ _
  | abort => intro x s _; simp [im, RO]
  | native inner o fl cb k ih ihk =>
    intro x s hm
    simp only [im]
    split
    · have hw : (if inner = true then x.f else x.f.and fl).w = false := by
        have h1 : x.f.w = false := by cases hx : x.f; simp_all [Flags.mut]
        have h2 : (x.f.and fl).w = false := by
          have := and_mut_false fl hm
          cases hx : (x.f.and fl); simp_all [Flags.mut]
        cases inner <;> simp [h1, h2]
      have hn : ∀ v, natStep o x.c (if inner = true then x.f else x.f.and fl) v = none := by
        intro v; cases o <;> simp [natStep, hw]
      simp only [hn]
      trivial
    · trivial

end NeoModel.Exec

namespace NeoModel.Exec

theorem R_push {s : ISt} {S : St} (h : R s S) : R s.push S := by
  obtain ⟨h1, h2, h3⟩ := h
  exact ⟨by simpa [ISt.view, ISt.push, flatten] using h1, h2, h3⟩

theorem R_exc {s : ISt} {S : St} (b : Bool) (h : R s S) : R { s with exc := b } { S with exc := b } := by
  obtain ⟨h1, h2, _⟩ := h
  exact ⟨h1, h2, rfl⟩

theorem R_exc_self {s : ISt} {S : St} (h : R s S) (he : s.exc = true) : R { s with exc := true } S := by
  obtain ⟨h1, h2, h3⟩ := h
  exact ⟨h1, h2, by simp [← h3, he]⟩

/-- ENDFINALLY with a pending exception (both semantics). -/
theorem rel_raise {x : Ctx} {s3 : ISt} {S3 : St} (h : R s3 S3) (he : s3.exc = true) :
    Rel x true s3 (raise x.h s3) (.thrown S3) := by
  unfold raise
  split
  · rename_i hh
    refine ⟨hh, S3, rfl, rfl, List.prefix_refl _, rfl, ?_, fun _ => R_exc_self h he⟩
    rw [← h.2.2]; exact he
  · rename_i hh
    exact Or.inr ⟨by simpa using hh, S3, rfl⟩

/-- what the induction hypothesis says about a finally block (it makes no calls). -/
def FinOK (x : Ctx) (rf : ISt → Res ISt) (Rf : St → Res St) : Prop :=
  ∀ s S, R s S → Rel x true s (rf s) (Rf S)

theorem rel_end {x : Ctx} {hasF : Bool} {rf Rf} (hf : hasF = true → FinOK x rf Rf) {s1 : ISt} {S1 : St} (h : R s1 S1) :
    Rel x true s1 (imEnd x.h hasF rf s1) (spEnd hasF Rf S1) := by
  unfold imEnd spEnd
  split
  · rename_i hF
    have := hf hF s1 S1 h
    cases hr : rf s1 with
    | norm s3 =>
      rw [hr] at this
      obtain ⟨S3, e1, e2, e3, e4, e5⟩ := this
      rw [e1]
      simp only
      have hexc : S3.exc = s3.exc := e2.2.2.symm
      rw [hexc]
      split
      · rename_i he
        exact rel_trans e3 e4 (fun h => by rw [e5 h] at he; exact absurd he (by simp)) (rel_raise e2 he)
      · exact ⟨S3, rfl, e2, e3, e4, e5⟩
    | thrown s3 =>
      rw [hr] at this
      obtain ⟨hh, S3, e1, rest⟩ := this
      rw [e1]; exact ⟨hh, S3, rfl, rest⟩
    | fault s3 =>
      rw [hr] at this
      rcases this with ⟨S3, e1⟩ | ⟨hh, S3, e1⟩
      · rw [e1]; exact Or.inl ⟨S3, rfl⟩
      · rw [e1]; exact Or.inr ⟨hh, S3, rfl⟩
  · exact ⟨S1, rfl, h, rfl, List.prefix_refl _, fun h => h⟩

theorem rel_finExc {x : Ctx} {rf Rf} (hf : FinOK x rf Rf) {s1 : ISt} {S1 : St} (h : R s1 S1) :
    Rel x true s1 (imFinExc x.h rf s1) (spFinExc Rf S1) := by
  unfold imFinExc spFinExc
  have := hf s1 S1 h
  cases hr : rf s1 with
  | norm s3 =>
    rw [hr] at this
    obtain ⟨S3, e1, e2, e3, e4, e5⟩ := this
    rw [e1]
    simp only
    have hexc : S3.exc = s3.exc := e2.2.2.symm
    rw [hexc]
    split
    · rename_i he
      exact rel_trans e3 e4 (fun h => by rw [e5 h] at he; exact absurd he (by simp)) (rel_raise e2 he)
    · exact Or.inl ⟨S3, rfl⟩
  | thrown s3 =>
    rw [hr] at this
    obtain ⟨hh, S3, e1, rest⟩ := this
    rw [e1]; exact ⟨hh, S3, rfl, rest⟩
  | fault s3 =>
    rw [hr] at this
    rcases this with ⟨S3, e1⟩ | ⟨hh, S3, e1⟩
    · rw [e1]; exact Or.inl ⟨S3, rfl⟩
    · rw [e1]; exact Or.inr ⟨hh, S3, rfl⟩

end NeoModel.Exec

namespace NeoModel.Exec

theorem rel_mono {x : Ctx} {e e' : Bool} {s ri rs} (hm : e' = true → e = true) (h : Rel x e s ri rs) : Rel x e' s ri rs := by
  cases ri with
  | norm s' => exact h
  | thrown s' =>
    obtain ⟨hh, S', h1, h3, h4, h5, h6, h7⟩ := h
    exact ⟨hh, S', h1, h3, h4, h5, h6, fun h => h7 (hm h)⟩
  | fault s' => exact h

theorem R_merge {s s1 : ISt} {S1 : St} (h : R s1 S1) (hb : s1.below = s.top :: s.below) :
    R s1.merge S1 ∧ s1.merge.below = s.below ∧ s1.merge.ev = s1.ev ∧ s1.merge.exc = s1.exc := by
  obtain ⟨h1, h2, h3⟩ := h
  have hm : s1.merge = { s1 with top := s1.top ++ s.top, below := s.below } := by simp [ISt.merge, hb]
  rw [hm]
  refine ⟨⟨?_, h2, h3⟩, rfl, rfl, rfl⟩
  simp only [ISt.view, hb, flatten] at h1 ⊢
  rw [← h1]; simp [List.append_assoc]

theorem take_prefix {α} {a b : List α} (h : a <+: b) : b.take a.length = a := by
  obtain ⟨t, rfl⟩ := h
  simp

theorem rel_trans_nn {x e s s1 ri rs} (hb : s1.below = s.below) (hp : s.ev <+: s1.ev) (hn : ∀ s', ri ≠ .norm s')
    (h : Rel x e s1 ri rs) : Rel x e s ri rs := by
  cases ri with
  | norm s' => exact absurd rfl (hn s')
  | thrown s' =>
    obtain ⟨hh, S', h1, h3, h4, h5⟩ := h
    exact ⟨hh, S', h1, h3.trans hb, hp.trans h4, h5⟩
  | fault s' => exact h

theorem finExc_ne_norm (h : Bool) (rf : ISt → Res ISt) (s : ISt) : ∀ s', imFinExc h rf s ≠ .norm s' := by
  intro s'
  unfold imFinExc raise
  cases rf s <;> simp only <;> (repeat' split) <;> simp

theorem unload_norm {s s1 : ISt} {S1 : St} {wrapped : Bool} (base : Nat) (e2 : R s1 S1)
    (e3 : s1.below = (if wrapped = true then s.top :: s.below else s.below)) (he1 : s1.exc = false) :
    R (s1.unload wrapped base) S1 ∧ (s1.unload wrapped base).below = s.below ∧
      (s1.unload wrapped base).ev = s1.ev ∧ (s1.unload wrapped base).exc = false := by
  cases wrapped with
  | true =>
    simp only [if_true] at e3
    obtain ⟨m1, m2, m3, m4⟩ := R_merge (s := s) e2 e3
    simp only [ISt.unload, he1, if_true, Bool.false_eq_true, if_false]
    exact ⟨m1, m2, m3, by rw [m4]; exact he1⟩
  | false =>
    simp only [Bool.false_eq_true, if_false] at e3
    have hu : s1.unload false base = s1 := by simp [ISt.unload]
    rw [hu]
    exact ⟨e2, e3, rfl, he1⟩

theorem sim (t : Tree) : ∀ (x : Ctx) (s : ISt) (S : St), safe t = true → R s S →
    (s.exc = false ∨ callFree t = true) → Rel x (x.inTry || callFree t) s (im t x s) (sp t x.c x.f S) := by
  induction t with
  | skip =>
    intro x s S _ hR _
    simp only [im, sp]
    exact ⟨S, rfl, hR, rfl, List.prefix_refl _, id⟩
  | seq a b iha ihb =>
    intro x s S hs hR hp
    simp only [safe, Bool.and_eq_true] at hs
    simp only [im, sp]
    have hpa : s.exc = false ∨ callFree a = true := by
      rcases hp with h | h
      · exact Or.inl h
      · simp only [callFree, Bool.and_eq_true] at h; exact Or.inr h.1
    have ha := iha x s S hs.1 hR hpa
    cases hr : im a x s with
    | norm s1 =>
      rw [hr] at ha
      obtain ⟨S1, e1, e2, e3, e4, e5⟩ := ha
      rw [e1]
      have hpb : s1.exc = false ∨ callFree b = true := by
        rcases hp with h | h
        · exact Or.inl (e5 h)
        · simp only [callFree, Bool.and_eq_true] at h; exact Or.inr h.2
      refine rel_trans e3 e4 e5 (rel_mono ?_ (ihb x s1 S1 hs.2 e2 hpb))
      simp only [callFree, Bool.or_eq_true, Bool.and_eq_true]
      rintro (h | h)
      · exact Or.inl h
      · exact Or.inr h.2
    | thrown s1 =>
      rw [hr] at ha
      obtain ⟨hh, S1, e1, rest⟩ := ha
      rw [e1]
      refine rel_mono (e := x.inTry || callFree a) ?_ ⟨hh, S1, rfl, rest⟩
      simp only [callFree, Bool.or_eq_true, Bool.and_eq_true]
      rintro (h | h)
      · exact Or.inl h
      · exact Or.inr h.1
    | fault s1 =>
      rw [hr] at ha
      rcases ha with ⟨S1, e1⟩ | ⟨hh, S1, e1⟩
      · rw [e1]; exact Or.inl ⟨S1, rfl⟩
      · rw [e1]; exact Or.inr ⟨hh, S1, rfl⟩
  | put k v =>
    intro x s S _ hR _
    simp only [im, sp]
    rw [hR.1]
    split
    · refine ⟨_, rfl, ⟨?_, hR.2.1, hR.2.2⟩, rfl, List.prefix_refl _, id⟩
      simp only [ISt.view] at *
      rw [← hR.1]; rfl
    · exact Or.inl ⟨S, rfl⟩
  | del k =>
    intro x s S _ hR _
    simp only [im, sp]
    rw [hR.1]
    split
    · refine ⟨_, rfl, ⟨?_, hR.2.1, hR.2.2⟩, rfl, List.prefix_refl _, id⟩
      simp only [ISt.view] at *
      rw [← hR.1]; rfl
    · exact Or.inl ⟨S, rfl⟩
  | notify e =>
    intro x s S _ hR _
    simp only [im, sp]
    split
    · have hl : s.ev.length = S.ev.length := by rw [hR.2.1]
      rw [hl]
      split
      · refine ⟨_, rfl, ⟨hR.1, ?_, hR.2.2⟩, rfl, List.prefix_append _ _, id⟩
        simp only [hR.2.1]
      · exact Or.inl ⟨S, rfl⟩
    · exact Or.inl ⟨S, rfl⟩
  | ifp k body ih =>
    intro x s S hs hR hp
    simp only [safe] at hs
    simp only [im, sp]
    rw [hR.1]
    split
    · split
      · exact ih x s S hs hR (by simpa [callFree] using hp)
      · exact ⟨S, rfl, hR, rfl, List.prefix_refl _, id⟩
    · exact Or.inl ⟨S, rfl⟩
  | loc body ih =>
    intro x s S hs hR hp
    simp only [safe] at hs
    simp only [im, sp]
    exact ih x s S hs hR (by simpa [callFree] using hp)
  | throw =>
    intro x s S _ hR _
    simp only [im, sp, raise]
    split
    · rename_i hh
      exact ⟨hh, _, rfl, rfl, List.prefix_refl _, rfl, rfl, fun _ => R_exc true hR⟩
    · rename_i hh
      exact Or.inr ⟨by simpa using hh, _, rfl⟩
  | abort =>
    intro x s S _ _ _
    simp only [im, sp]
    exact Or.inl ⟨S, rfl⟩
  | call c' fl body ih =>
    intro x s S hs hR hp
    simp only [safe] at hs
    have hexc : s.exc = false := by
      rcases hp with h | h
      · exact h
      · simp [callFree] at h
    simp only [im, sp]
    rw [hR.1]
    split
    · -- flags allow the call
      generalize hw : (x.inTry && (x.f.and fl).mut) = wrapped
      have hR0 : R (if wrapped = true then s.push else s) S := by
        split
        · exact R_push hR
        · exact hR
      have hexc0 : (if wrapped = true then s.push else s).exc = false := by
        split <;> simp [ISt.push, hexc]
      have hev0 : (if wrapped = true then s.push else s).ev = s.ev := by
        split <;> simp [ISt.push]
      have hb := ih ⟨c', x.f.and fl, false, x.h⟩ (if wrapped = true then s.push else s) S hs hR0 (Or.inl hexc0)
      simp only at hb
      cases hr : im body ⟨c', x.f.and fl, false, x.h⟩ (if wrapped = true then s.push else s) with
      | norm s1 =>
        rw [hr] at hb
        obtain ⟨S1, e1, e2, e3, e4, e5⟩ := hb
        rw [e1]
        have he1 : s1.exc = false := e5 hexc0
        rw [hev0] at e4
        cases wrapped with
        | true =>
          simp only [if_true, ISt.push] at e3
          obtain ⟨m1, m2, m3, m4⟩ := R_merge (s := s) e2 e3
          simp only [ISt.unload, he1, if_true, Bool.false_eq_true, if_false]
          exact ⟨S1, rfl, m1, m2, by rw [m3]; exact e4, fun _ => by rw [m4]; exact he1⟩
        | false =>
          simp only [Bool.false_eq_true, if_false] at e3
          simp only [ISt.unload, Bool.false_eq_true, if_false]
          exact ⟨S1, rfl, e2, e3, e4, fun _ => he1⟩
      | thrown s1 =>
        rw [hr] at hb
        obtain ⟨hh, S1, e1, e3, e4, e5, e6, e7⟩ := hb
        rw [e1]
        rw [hev0] at e4
        cases wrapped with
        | true =>
          simp only [if_true, ISt.push] at e3
          simp only [ISt.unload, e5, if_true, ISt.drop, e3]
          refine ⟨hh, _, rfl, rfl, ?_, rfl, rfl, fun _ => ?_⟩
          · simp only [take_prefix e4]; exact List.prefix_refl _
          · refine ⟨?_, ?_, rfl⟩
            · simpa [ISt.view] using hR.1
            · simpa [take_prefix e4] using hR.2.1
        | false =>
          simp only [Bool.false_eq_true, if_false] at e3 hr
          simp only [ISt.unload, Bool.false_eq_true, if_false]
          refine ⟨hh, _, rfl, e3, e4, e5, rfl, fun hex => ?_⟩
          -- exactness is only claimed when the caller is in a TRY: then the callee was read-only
          simp only [callFree, Bool.or_false] at hex
          have hm : (x.f.and fl).mut = false := by
            simpa [hex] using hw
          have hro := ro body ⟨c', x.f.and fl, false, x.h⟩ s hm
          rw [hr] at hro
          obtain ⟨r1, r2, r3⟩ := hro
          refine ⟨?_, ?_, ?_⟩
          · simp only [ISt.view, r1, r2]; exact hR.1
          · rw [r3]; exact hR.2.1
          · exact e5
      | fault s1 =>
        rw [hr] at hb
        rcases hb with ⟨S1, e1⟩ | ⟨hh, S1, e1⟩
        · rw [e1]; exact Or.inl ⟨S1, rfl⟩
        · rw [e1]; exact Or.inr ⟨hh, _, rfl⟩
    · exact Or.inl ⟨S, rfl⟩
  | try_ body hasC cat hasF fin ihb ihc ihf =>
    intro x s S hs hR hp
    simp only [safe, Bool.and_eq_true, Bool.or_eq_true, Bool.not_eq_true'] at hs
    obtain ⟨⟨⟨hsb, hsc⟩, hsf⟩, hff⟩ := hs
    simp only [im, sp]
    split
    · exact Or.inl ⟨S, rfl⟩
    · rename_i hcf
      have hfin : hasF = true → FinOK x (im fin x) (sp fin x.c x.f) := by
        intro hF s1 S1 h1
        have hcff : callFree fin = true := by
          rcases hff with h | h
          · rw [hF] at h; exact absurd h (by simp)
          · exact h
        exact rel_mono (e := x.inTry || callFree fin) (by simp [hcff]) (ihf x s1 S1 hsf h1 (Or.inr hcff))
      have hpb : s.exc = false ∨ callFree body = true := by
        rcases hp with h | h
        · exact Or.inl h
        · simp only [callFree, Bool.and_eq_true] at h; exact Or.inr h.1.1
      have hb := ihb { x with inTry := true, h := true } s S hsb hR hpb
      simp only at hb
      cases hr : im body { x with inTry := true, h := true } s with
      | norm s1 =>
        rw [hr] at hb
        obtain ⟨S1, e1, e2, e3, e4, e5⟩ := hb
        rw [e1]
        exact rel_trans e3 e4 e5 (rel_weaken (rel_end hfin e2))
      | thrown s1 =>
        rw [hr] at hb
        obtain ⟨_, S1, e1, e3, e4, e5, e6, e7⟩ := hb
        have hR1 : R s1 S1 := e7 (by simp)
        rw [e1]
        simp only
        split
        · -- a catch block
          have hRc : R { s1 with exc := false } { S1 with exc := false } := R_exc false hR1
          have hc := ihc { x with inTry := x.inTry || hasF, h := x.h || hasF } { s1 with exc := false }
            { S1 with exc := false } hsc hRc (Or.inl rfl)
          simp only at hc
          cases hrc : im cat { x with inTry := x.inTry || hasF, h := x.h || hasF } { s1 with exc := false } with
          | norm s2 =>
            rw [hrc] at hc
            obtain ⟨S2, c1, c2, c3, c4, c5⟩ := hc
            rw [c1]
            exact rel_trans (c3.trans e3) (e4.trans c4) (fun _ => c5 rfl) (rel_weaken (rel_end hfin c2))
          | thrown s2 =>
            rw [hrc] at hc
            obtain ⟨hhc, S2, c1, c3, c4, c5, c6, c7⟩ := hc
            rw [c1]
            simp only
            split
            · rename_i hF
              have hR2 : R s2 S2 := c7 (by simp [hF])
              exact rel_trans_nn (c3.trans e3) (e4.trans c4) (finExc_ne_norm _ _ _) (rel_weaken (rel_finExc (hfin hF) hR2))
            · rename_i hF
              have hF' : hasF = false := by simpa using hF
              refine ⟨by simpa [hF'] using hhc, S2, rfl, c3.trans e3, e4.trans c4, c5, c6, fun hex => c7 ?_⟩
              simp only [callFree, Bool.or_eq_true, Bool.and_eq_true] at hex ⊢
              rcases hex with h | h
              · exact Or.inl (Or.inl h)
              · exact Or.inr h.1.2
          | fault s2 =>
            rw [hrc] at hc
            rcases hc with ⟨S2, c1⟩ | ⟨hh, S2, c1⟩
            · rw [c1]; exact Or.inl ⟨S2, rfl⟩
            · rw [c1]
              simp only [Bool.or_eq_false_iff] at hh
              simp only [hh.2, Bool.false_eq_true, if_false]
              exact Or.inr ⟨hh.1, S2, rfl⟩
        · -- no catch block: the finally block runs with the exception pending
          rename_i hC
          have hF : hasF = true := by
            cases hasC <;> cases hasF <;> simp_all
          exact rel_trans_nn e3 e4 (finExc_ne_norm _ _ _) (rel_weaken (rel_finExc (hfin hF) hR1))
      | fault s1 =>
        rw [hr] at hb
        rcases hb with ⟨S1, e1⟩ | ⟨hh, S1, e1⟩
        · rw [e1]; exact Or.inl ⟨S1, rfl⟩
        · exact absurd hh (by simp)
  | native inner o fl cb k ih ihk =>
    intro x s S hs hR hp
    simp only [safe, Bool.and_eq_true] at hs
    have hexc : s.exc = false := by
      rcases hp with h | h
      · exact h
      · simp [callFree] at h
    simp only [im, sp]
    split
    · generalize (if inner = true then x.f else x.f.and fl) = f'
      generalize hw : (!inner && x.inTry && f'.mut) = wrapped
      have hR0 : R (if wrapped = true then s.push else s) S := by
        split
        · exact R_push hR
        · exact hR
      have hexc0 : (if wrapped = true then s.push else s).exc = false := by
        split <;> simp [ISt.push, hexc]
      have hev0 : (if wrapped = true then s.push else s).ev = s.ev := by
        split <;> simp [ISt.push]
      generalize hs0 : (if wrapped = true then s.push else s) = s0 at *
      have hbel : s0.below = (if wrapped = true then s.top :: s.below else s.below) := by
        rw [← hs0]; split <;> simp [ISt.push]
      rw [hR0.1]
      cases hn : natStep o x.c f' S.σ.get with
      | none => exact Or.inl ⟨S, rfl⟩
      | some out =>
        simp only
        -- the rest of the native method inside the frame, then the unload callback
        have tail : ∀ (s2 : ISt) (S2 : St), R s2 S2 → s2.below = s0.below → s.ev <+: s2.ev → s2.exc = false →
            Rel x (x.inTry || callFree (.native inner o fl cb k)) s
              (match im k ⟨x.c, f', false, x.h⟩ s2 with
                | .norm s3 => .norm (s3.unload wrapped s.ev.length)
                | .thrown s3 => .fault s3
                | .fault s3 => .fault s3)
              (match sp k x.c f' S2 with
                | .norm s3 => .norm s3
                | .thrown s3 => .fault s3
                | .fault s3 => .fault s3) := by
          intro s2 S2 r2 b2 p2 e2
          have hk := ihk ⟨x.c, f', false, x.h⟩ s2 S2 hs.2 r2 (Or.inl e2)
          simp only at hk
          cases hrk : im k ⟨x.c, f', false, x.h⟩ s2 with
          | norm s3 =>
            rw [hrk] at hk
            obtain ⟨S3, k1, k2, k3, k4, k5⟩ := hk
            rw [k1]
            have he3 : s3.exc = false := k5 e2
            obtain ⟨u1, u2, u3, u4⟩ := unload_norm (s := s) (wrapped := wrapped) s.ev.length k2 ((k3.trans b2).trans hbel) he3
            exact ⟨S3, rfl, u1, u2, by rw [u3]; exact p2.trans k4, fun _ => u4⟩
          | thrown s3 =>
            rw [hrk] at hk
            obtain ⟨_, S3, k1, _⟩ := hk
            rw [k1]; exact Or.inl ⟨S3, rfl⟩
          | fault s3 =>
            rw [hrk] at hk
            rcases hk with ⟨S3, k1⟩ | ⟨_, S3, k1⟩
            · rw [k1]; exact Or.inl ⟨S3, rfl⟩
            · rw [k1]; exact Or.inl ⟨S3, rfl⟩
        have hR1 : R { s0 with top := out.ws ++ s0.top, ev := s0.ev ++ out.evs }
            { S with σ := out.ws ++ S.σ, ev := S.ev ++ out.evs } := by
          refine ⟨?_, ?_, hR0.2.2⟩
          · simp only [ISt.view, List.append_assoc]; rw [← hR0.1]; rfl
          · simp only [hR0.2.1]
        have hp1 : s.ev <+: s0.ev ++ out.evs := by rw [hev0]; exact List.prefix_append _ _
        simp only [imPhase, spPhase]
        have hlen : (s0.ev ++ out.evs).length = (S.ev ++ out.evs).length := by rw [hR0.2.1]
        rw [hlen]
        by_cases hlim : maxNotifications < (S.ev ++ out.evs).length
        · simp only [hlim, if_true]; exact Or.inl ⟨_, rfl⟩
        simp only [hlim, if_false]
        cases hcb : out.cb with
        | none =>
          simp only
          exact tail _ _ hR1 rfl hp1 hexc0
        | some to =>
          simp only
          by_cases hab : out.cbAbort = true
          · simp only [hab, if_true]; exact Or.inl ⟨_, rfl⟩
          simp only [hab, if_false, Bool.false_eq_true]
          have hb := ih ⟨to, f', false, x.h⟩ { s0 with top := out.ws ++ s0.top, ev := s0.ev ++ out.evs }
            { S with σ := out.ws ++ S.σ, ev := S.ev ++ out.evs } hs.1 hR1 (Or.inl hexc0)
          simp only at hb
          cases hr : im cb ⟨to, f', false, x.h⟩ { s0 with top := out.ws ++ s0.top, ev := s0.ev ++ out.evs } with
          | norm s2 =>
            rw [hr] at hb
            obtain ⟨S2, e1, e2, e3, e4, e5⟩ := hb
            rw [e1]
            have he2 : s2.exc = false := e5 hexc0
            simp only [he2, Bool.false_eq_true, if_false]
            exact tail s2 S2 e2 e3 (hp1.trans e4) he2
          | thrown s2 =>
            rw [hr] at hb
            obtain ⟨_, S2, e1, _⟩ := hb
            rw [e1]; exact Or.inl ⟨S2, rfl⟩
          | fault s2 =>
            rw [hr] at hb
            rcases hb with ⟨S2, e1⟩ | ⟨_, S2, e1⟩
            · rw [e1]; exact Or.inl ⟨S2, rfl⟩
            · rw [e1]; exact Or.inl ⟨S2, rfl⟩
    · exact Or.inl ⟨S, rfl⟩

end NeoModel.Exec
