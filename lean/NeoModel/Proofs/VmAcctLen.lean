/-
C12 proofs, part 6a: the heap never shrinks (ids stay valid).
-/
import NeoModel.Proofs.VmAcctExecS
namespace NeoModel.VmAcct

@[simp] theorem length_addW (w : List Item) (c : Ctr) : (addW w c).heap.length = c.heap.length := by
  fun_induction addW w c with
  | case1 c => rfl
  | case2 x w c hx ih => simpa using ih
  | case3 x w c id hx hz hl ih => simpa using ih
  | case4 x w c id hx hz hl ih => simpa using ih
  | case5 x w c id hx hnz ih => simpa using ih

@[simp] theorem length_remW (w : List Item) (c : Ctr) : (remW w c).heap.length = c.heap.length := by
  fun_induction remW w c with
  | case1 c => rfl
  | case2 x w c hx ih => simpa using ih
  | case3 x w c id hx hz ih => simpa using ih
  | case4 x w c id hx hnz h1 ih => simpa using ih
  | case5 x w c id hx hnz h1 ih => simpa using ih

@[simp] theorem length_rem (c : Ctr) (x : Item) : (c.rem x).heap.length = c.heap.length := length_remW _ _
@[simp] theorem length_add (c : Ctr) (x : Item) : (c.add x).heap.length = c.heap.length := length_addW _ _
@[simp] theorem length_remAll (c : Ctr) (xs : List Item) : (c.remAll xs).heap.length = c.heap.length := length_remW _ _
@[simp] theorem length_addAll (c : Ctr) (xs : List Item) : (c.addAll xs).heap.length = c.heap.length := length_addW _ _

theorem pop_len {w w' : W} {x : Item} (h : w.pop = some (x, w')) : w'.c.heap.length = w.c.heap.length := by
  unfold W.pop at h
  split at h
  · cases h
  · simp only [Option.some.injEq, Prod.mk.injEq] at h
    rw [← h.2]; simp

theorem popNoRef_len {w w' : W} {x : Item} (h : w.popNoRef = some (x, w')) : w'.c.heap.length = w.c.heap.length := by
  unfold W.popNoRef at h
  split at h
  · cases h
  · simp only [Option.some.injEq, Prod.mk.injEq] at h
    rw [← h.2]

theorem popN_len : ∀ (k : Nat) {w w' : W}, W.popN k w = some w' → w'.c.heap.length = w.c.heap.length := by
  intro k
  induction k with
  | zero => intro w w' h; simp [W.popN] at h; rw [h]
  | succ k ih =>
    intro w w' h
    simp only [W.popN] at h
    split at h
    · cases h
    · rename_i x w1 hp
      rw [ih h, pop_len hp]

@[simp] theorem push_len (w : W) (x : Item) : (w.push x).c.heap.length = w.c.heap.length := by simp [W.push]

theorem pushPrims_len : ∀ (k : Nat) (w : W), (W.pushPrims k w).c.heap.length = w.c.heap.length := by
  intro k
  induction k with
  | zero => intro w; rfl
  | succ k ih => intro w; simp [W.pushPrims, ih]

end NeoModel.VmAcct

namespace NeoModel.VmAcct

theorem ite_len (p : Prop) [Decidable p] (a b : W) (n : Nat) (ha : n ≤ a.c.heap.length) (hb : n ≤ b.c.heap.length) :
    n ≤ (if p then a else b).c.heap.length := by
  split <;> assumption

def Outcome.w : Outcome → W
  | .ok w => w
  | .throw w => w

theorem execS_len (op : SOp) (hc : op.core = true) (w : W) (hok : op.okFor w) :
    ∀ out, execS op w = some out → w.c.heap.length ≤ out.w.c.heap.length := by
  intro out h
  cases op with
  | packmap _ _ => cases hc
  | unpack => cases hc
  | keys => cases hc
  | values => cases hc
  | convert _ => cases hc
  | generic k j =>
    simp only [execS, Option.map_eq_some_iff] at h
    obtain ⟨w1, h1, rfl⟩ := h
    simp [Outcome.w, pushPrims_len, popN_len k h1]
  | append =>
    simp only [execS] at h
    cases hp : w.pop with
    | none => simp [hp] at h
    | some r =>
      obtain ⟨item, w1⟩ := r
      simp only [hp] at h
      cases hp2 : w1.pop with
      | none => simp [hp2] at h
      | some r2 =>
        obtain ⟨arr, w2⟩ := r2
        simp only [hp2] at h
        have hns : ∀ id, item ≠ .str id := by
          intro id e
          have : w.st = item :: w1.st := by
            unfold W.pop at hp; split at hp
            · cases hp
            · rename_i x r hst; simp only [Option.some.injEq, Prod.mk.injEq] at hp; rw [hst, hp.1, ← hp.2]
          apply hok id; rw [this, e]; rfl
        rw [cloneIfStruct_of_not_str w2 item hns] at h
        have l1 := pop_len hp
        have l2 := pop_len hp2
        cases arr <;> simp only [okW, Option.some.injEq, reduceCtorEq] at h <;> subst h <;>
          (simp only [Outcome.w, W.setHeap]; split <;> simp <;> omega)
  | dup =>
    simp only [execS] at h
    split at h <;> simp only [okW, Option.some.injEq, reduceCtorEq] at h
    subst h; simp [Outcome.w]
  | over =>
    simp only [execS] at h
    split at h <;> simp only [okW, Option.some.injEq, reduceCtorEq] at h
    subst h; simp [Outcome.w]
  | tuck =>
    simp only [execS] at h
    split at h <;> simp only [okW, Option.some.injEq, reduceCtorEq] at h
    subst h; simp [Outcome.w]
  | swap =>
    simp only [execS] at h
    split at h <;> simp only [okW, Option.some.injEq, reduceCtorEq] at h
    subst h; simp [Outcome.w]
  | rot =>
    simp only [execS] at h
    split at h <;> simp only [okW, Option.some.injEq, reduceCtorEq] at h
    subst h; simp [Outcome.w]
  | nip =>
    simp only [execS] at h
    split at h <;> simp only [okW, Option.some.injEq, reduceCtorEq] at h
    subst h; simp [Outcome.w]
  | clear =>
    simp only [execS, okW, Option.some.injEq] at h
    subst h; simp [Outcome.w]
  | mkarray =>
    simp only [execS, okW, W.alloc, W.setHeap, Option.some.injEq] at h
    subst h; simp [Outcome.w]
  | newEmpty k =>
    simp only [execS, okW, W.alloc, W.setHeap, Option.some.injEq] at h
    subst h; simp [Outcome.w]
  | pick k =>
    simp only [execS] at h
    cases hp : w.pop with
    | none => simp [hp] at h
    | some r =>
      obtain ⟨y, w1⟩ := r
      simp only [hp] at h
      have l1 := pop_len hp
      split at h <;> simp only [okW, Option.some.injEq, reduceCtorEq] at h
      subst h; simp [Outcome.w, l1]
  | roll k =>
    simp only [execS] at h
    cases hp : w.pop with
    | none => simp [hp] at h
    | some r =>
      obtain ⟨y, w1⟩ := r
      simp only [hp] at h
      have l1 := pop_len hp
      split at h <;> simp only [okW, Option.some.injEq, reduceCtorEq] at h
      subst h; simp [Outcome.w, l1]
  | xdrop k =>
    simp only [execS] at h
    cases hp : w.pop with
    | none => simp [hp] at h
    | some r =>
      obtain ⟨y, w1⟩ := r
      simp only [hp] at h
      have l1 := pop_len hp
      split at h <;> simp only [okW, Option.some.injEq, reduceCtorEq] at h
      subst h; simp [Outcome.w, l1]
  | reverse k pf =>
    simp only [execS] at h
    cases pf with
    | false =>
      simp only [Bool.false_eq_true, if_false] at h
      split at h <;> simp only [okW, Option.some.injEq, reduceCtorEq] at h
      subst h; simp [Outcome.w]
    | true =>
      simp only [if_true] at h
      cases hp : w.pop with
      | none => simp [hp] at h
      | some r =>
        obtain ⟨y, w1⟩ := r
        simp only [hp, Option.map_some] at h
        have l1 := pop_len hp
        split at h <;> simp only [okW, Option.some.injEq, reduceCtorEq] at h
        subst h; simp [Outcome.w, l1]
  | newSized k m =>
    simp only [execS] at h
    cases hp : w.pop with
    | none => simp [hp] at h
    | some r =>
      obtain ⟨y, w1⟩ := r
      simp only [hp, okW, W.alloc, W.setHeap, W.pushNoRef, W.addRefs, Option.some.injEq] at h
      have l1 := pop_len hp
      subst h; simp [Outcome.w, l1]
  | pack k m =>
    simp only [execS] at h
    cases hp : w.pop with
    | none => simp [hp] at h
    | some r =>
      obtain ⟨y, w1⟩ := r
      simp only [hp] at h
      have l1 := pop_len hp
      split at h <;> simp only [okW, W.alloc, W.setHeap, W.pushNoRef, W.addRefs, Option.some.injEq, reduceCtorEq] at h
      subst h; simp [Outcome.w, l1]
  | clearitems =>
    simp only [execS] at h
    cases hp : w.pop with
    | none => simp [hp] at h
    | some r =>
      obtain ⟨y, w1⟩ := r
      simp only [hp] at h
      have l1 := pop_len hp
      split at h <;> simp only [okW, W.setHeap, Option.some.injEq, reduceCtorEq] at h
      subst h
      simp only [Outcome.w, length_setCh]; apply ite_len <;> simp [l1]
  | reverseitems =>
    simp only [execS] at h
    cases hp : w.pop with
    | none => simp [hp] at h
    | some r =>
      obtain ⟨y, w1⟩ := r
      simp only [hp] at h
      have l1 := pop_len hp
      split at h <;> simp only [okW, W.setHeap, Option.some.injEq, reduceCtorEq] at h <;> subst h <;> simp [Outcome.w, l1]
  | popitem =>
    simp only [execS] at h
    cases hp : w.pop with
    | none => simp [hp] at h
    | some r =>
      obtain ⟨y, w1⟩ := r
      simp only [hp] at h
      have l1 := pop_len hp
      split at h
      · split at h <;> simp only [okW, W.setHeap, Option.some.injEq, reduceCtorEq] at h
        subst h
        simp only [Outcome.w, length_setCh]; apply ite_len <;> simp [l1]
      · split at h <;> simp only [okW, W.setHeap, Option.some.injEq, reduceCtorEq] at h
        subst h
        simp only [Outcome.w, length_setCh]; apply ite_len <;> simp [l1]
      · cases h
  | pickitem i =>
    simp only [execS] at h
    cases hp : w.pop with
    | none => simp [hp] at h
    | some r =>
      obtain ⟨y, w1⟩ := r
      simp only [hp] at h
      have l1 := pop_len hp
      cases hp2 : w1.pop with
      | none => simp [hp2] at h
      | some r2 =>
        obtain ⟨obj, w2⟩ := r2
        simp only [hp2] at h
        have l2 := pop_len hp2
        split at h
        · simp only [Option.some.injEq] at h; subst h; simp [Outcome.w, l1, l2]
        · split at h
          · split at h <;> simp only [okW, Option.some.injEq, reduceCtorEq] at h
            subst h; simp [Outcome.w, l1, l2]
          · split at h <;> simp only [okW, Option.some.injEq, reduceCtorEq] at h
            subst h; simp [Outcome.w, l1, l2]
          · split at h <;> simp only [okW, Option.some.injEq, reduceCtorEq] at h
            subst h; simp [Outcome.w, l1, l2]
          · simp only [okW, Option.some.injEq] at h; subst h; simp [Outcome.w, l1, l2]
  | remove i =>
    simp only [execS] at h
    cases hp : w.pop with
    | none => simp [hp] at h
    | some r =>
      obtain ⟨y, w1⟩ := r
      simp only [hp] at h
      have l1 := pop_len hp
      cases hp2 : w1.pop with
      | none => simp [hp2] at h
      | some r2 =>
        obtain ⟨elem, w2⟩ := r2
        simp only [hp2] at h
        have l2 := pop_len hp2
        cases elem with
        | prim => simp at h
        | map id =>
          simp only at h
          split at h
          · simp only [okW, Option.some.injEq] at h
            subst h; simp [Outcome.w, l1, l2]
          · split at h
            · simp only [okW, W.setHeap, Option.some.injEq] at h
              subst h
              simp only [Outcome.w]; apply ite_len <;> simp [l1, l2]
            · cases h
        | arr id =>
          simp only at h
          split at h
          · cases h
          · split at h <;> simp only [okW, W.setHeap, Option.some.injEq, reduceCtorEq] at h
            subst h
            simp only [Outcome.w, length_setCh]; apply ite_len <;> simp [l1, l2]
        | str id =>
          simp only at h
          split at h
          · cases h
          · split at h <;> simp only [okW, W.setHeap, Option.some.injEq, reduceCtorEq] at h
            subst h
            simp only [Outcome.w, length_setCh]; apply ite_len <;> simp [l1, l2]
  | setitem i =>
    simp only [execS] at h
    cases hp0 : w.popNoRef with
    | none => simp [hp0] at h
    | some r0 =>
      obtain ⟨item, w0⟩ := r0
      simp only [hp0] at h
      have l0 := popNoRef_len hp0
      have hns : ∀ id, item ≠ .str id := by
        intro id e
        have : w.st = item :: w0.st := by
          unfold W.popNoRef at hp0; split at hp0
          · cases hp0
          · rename_i x r hst; simp only [Option.some.injEq, Prod.mk.injEq] at hp0; rw [hst, hp0.1, ← hp0.2]
        apply hok.1 id; rw [this, e]; rfl
      rw [cloneIfStruct_of_not_str w0 item hns] at h
      simp only [Bool.false_eq_true, if_false] at h
      cases hp1 : w0.pop with
      | none => simp [hp1] at h
      | some r1 =>
        obtain ⟨key, w1⟩ := r1
        simp only [hp1] at h
        have l1 := pop_len hp1
        cases hp2 : w1.pop with
        | none => simp [hp2] at h
        | some r2 =>
          obtain ⟨obj, w2⟩ := r2
          simp only [hp2] at h
          have l2 := pop_len hp2
          cases obj with
          | prim =>
            simp only at h
            split at h <;> simp only [okW, Option.some.injEq] at h <;> subst h <;> simp [Outcome.w, l0, l1, l2]
          | arr id =>
            simp only at h
            split at h
            · simp only [Option.some.injEq] at h; subst h; simp [Outcome.w, l0, l1, l2]
            · split at h <;> simp only [okW, W.setHeap, Option.some.injEq, reduceCtorEq] at h
              subst h
              simp only [Outcome.w, length_setCh]; apply ite_len <;> simp [l0, l1, l2]
          | str id =>
            simp only at h
            split at h
            · simp only [Option.some.injEq] at h; subst h; simp [Outcome.w, l0, l1, l2]
            · split at h <;> simp only [okW, W.setHeap, Option.some.injEq, reduceCtorEq] at h
              subst h
              simp only [Outcome.w, length_setCh]; apply ite_len <;> simp [l0, l1, l2]
          | map id =>
            simp only at h
            split at h
            · simp only [okW, W.setHeap, Option.some.injEq] at h
              subst h
              simp only [Outcome.w, length_setCh]; apply ite_len <;> simp [l0, l1, l2]
            · split at h <;> simp only [okW, W.setHeap, Option.some.injEq, reduceCtorEq] at h
              subst h
              simp only [Outcome.w, length_setCh]; apply ite_len <;> simp [l0, l1, l2]

end NeoModel.VmAcct
