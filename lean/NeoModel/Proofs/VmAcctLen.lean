/-
C12 proofs, part 6a: the heap never shrinks (ids stay valid).
-/
import NeoModel.Proofs.VmAcctExecS
namespace NeoModel.VmAcct

@[simp] theorem length_addW (w : List Item) (c : Ctr) : (addW w c).heap.length = c.heap.length := by
  fun_induction addW w c with
  | case1 c => rfl
  | case2 x w c hx ih => simpa using ih
  | case3 x w c id hx hz hl ih => simpa using ih
  | case4 x w c id hx hz hl ih => simpa using ih
  | case5 x w c id hx hnz ih => simpa using ih

@[simp] theorem length_remW (w : List Item) (c : Ctr) : (remW w c).heap.length = c.heap.length := by
  fun_induction remW w c with
  | case1 c => rfl
  | case2 x w c hx ih => simpa using ih
  | case3 x w c id hx hz ih => simpa using ih
  | case4 x w c id hx hnz h1 ih => simpa using ih
  | case5 x w c id hx hnz h1 ih => simpa using ih

@[simp] theorem length_rem (c : Ctr) (x : Item) : (c.rem x).heap.length = c.heap.length := length_remW _ _
@[simp] theorem length_add (c : Ctr) (x : Item) : (c.add x).heap.length = c.heap.length := length_addW _ _
@[simp] theorem length_remAll (c : Ctr) (xs : List Item) : (c.remAll xs).heap.length = c.heap.length := length_remW _ _
@[simp] theorem length_addAll (c : Ctr) (xs : List Item) : (c.addAll xs).heap.length = c.heap.length := length_addW _ _

theorem pop_len {w w' : W} {x : Item} (h : w.pop = some (x, w')) : w'.c.heap.length = w.c.heap.length := by
  unfold W.pop at h
  split at h
  · cases h
  · simp only [Option.some.injEq, Prod.mk.injEq] at h
    rw [← h.2]; simp

theorem popNoRef_len {w w' : W} {x : Item} (h : w.popNoRef = some (x, w')) : w'.c.heap.length = w.c.heap.length := by
  unfold W.popNoRef at h
  split at h
  · cases h
  · simp only [Option.some.injEq, Prod.mk.injEq] at h
    rw [← h.2]

theorem popN_len : ∀ (k : Nat) {w w' : W}, W.popN k w = some w' → w'.c.heap.length = w.c.heap.length := by
  intro k
  induction k with
  | zero => intro w w' h; simp [W.popN] at h; rw [h]
  | succ k ih =>
    intro w w' h
    simp only [W.popN] at h
    split at h
    · cases h
    · rename_i x w1 hp
      rw [ih h, pop_len hp]

@[simp] theorem push_len (w : W) (x : Item) : (w.push x).c.heap.length = w.c.heap.length := by simp [W.push]

theorem pushPrims_len : ∀ (k : Nat) (w : W), (W.pushPrims k w).c.heap.length = w.c.heap.length := by
  intro k
  induction k with
  | zero => intro w; rfl
  | succ k ih => intro w; simp [W.pushPrims, ih]

end NeoModel.VmAcct

namespace NeoModel.VmAcct

theorem clone_len : ∀ (f : Nat),
    (∀ h id h' id', cloneStruct f h id = some (h', id') → h.length ≤ h'.length) ∧
    (∀ h xs h' xs', cloneList f h xs = some (h', xs') → h.length ≤ h'.length) := by
  intro f
  induction f with
  | zero => exact ⟨fun h id h' id' hc => by simp [cloneStruct] at hc, fun h xs h' xs' hc => by simp [cloneList] at hc⟩
  | succ f ih =>
    obtain ⟨ihS, ihL⟩ := ih
    constructor
    · intro h id h' id' hc
      simp only [cloneStruct] at hc
      cases hl : cloneList f h (chOf h id) with
      | none => simp [hl] at hc
      | some p =>
        obtain ⟨h1, ch'⟩ := p
        simp only [hl, Option.some.injEq, Prod.mk.injEq] at hc
        obtain ⟨rfl, rfl⟩ := hc
        have := ihL h _ h1 ch' hl
        simp; omega
    · intro h xs h' xs' hc
      cases xs with
      | nil => simp only [cloneList, Option.some.injEq, Prod.mk.injEq] at hc; rw [← hc.1]; exact Nat.le_refl _
      | cons x t =>
        have plain : (match cloneList f h t with
            | none => none
            | some (h2, xs') => some (h2, x :: xs')) = some (h', xs') → h.length ≤ h'.length := by
          intro hc
          cases hl : cloneList f h t with
          | none => simp [hl] at hc
          | some p =>
            obtain ⟨h2, t'⟩ := p
            simp only [hl, Option.some.injEq, Prod.mk.injEq] at hc
            rw [← hc.1]; exact ihL h t h2 t' hl
        cases x with
        | prim => simp only [cloneList] at hc; exact plain hc
        | arr a => simp only [cloneList] at hc; exact plain hc
        | map a => simp only [cloneList] at hc; exact plain hc
        | str d =>
          simp only [cloneList] at hc
          cases hs : cloneStruct f h d with
          | none => simp [hs] at hc
          | some p =>
            obtain ⟨h1, d'⟩ := p
            simp only [hs] at hc
            cases hl : cloneList f h1 t with
            | none => simp [hl] at hc
            | some q =>
              obtain ⟨h2, t'⟩ := q
              simp only [hl, Option.some.injEq, Prod.mk.injEq] at hc
              rw [← hc.1]
              exact Nat.le_trans (ihS h d h1 d' hs) (ihL h1 t h2 t' hl)

theorem cloneIfStruct_len (w : W) (x x' : Item) (isS : Bool) (w' : W) (h : w.cloneIfStruct x = some (x', isS, w')) :
    w.c.heap.length ≤ w'.c.heap.length := by
  unfold W.cloneIfStruct at h
  cases x with
  | str id =>
    simp only at h
    cases hc : cloneStruct cloneFuel w.c.heap id with
    | none => simp [hc] at h
    | some p =>
      obtain ⟨h1, id'⟩ := p
      simp only [hc, Option.some.injEq, Prod.mk.injEq] at h
      obtain ⟨_, _, rfl⟩ := h
      exact (clone_len cloneFuel).1 _ _ _ _ hc
  | prim => simp only [Option.some.injEq, Prod.mk.injEq] at h; rw [← h.2.2]; exact Nat.le_refl _
  | arr a => simp only [Option.some.injEq, Prod.mk.injEq] at h; rw [← h.2.2]; exact Nat.le_refl _
  | map a => simp only [Option.some.injEq, Prod.mk.injEq] at h; rw [← h.2.2]; exact Nat.le_refl _

theorem ite_len (p : Prop) [Decidable p] (a b : W) (n : Nat) (ha : n ≤ a.c.heap.length) (hb : n ≤ b.c.heap.length) :
    n ≤ (if p then a else b).c.heap.length := by
  split <;> assumption

def Outcome.w : Outcome → W
  | .ok w => w
  | .throw w => w

theorem execS_len (op : SOp) (hc : op.core = true) (w : W) (hok : op.okFor w) :
    ∀ out, execS op w = some out → w.c.heap.length ≤ out.w.c.heap.length := by
  intro out h
  cases op with
  | packmap k dups =>
    have loopLen : ∀ (ds : List Int) (ents : List Item) (w0 : W) (e' : List Item) (w0' : W),
        packMapLoop ds ents w0 = some (e', w0') → w0'.c.heap.length = w0.c.heap.length := by
      intro ds
      induction ds with
      | nil => intro ents w0 e' w0' h; simp only [packMapLoop, Option.some.injEq, Prod.mk.injEq] at h; rw [← h.2]
      | cons d ds ih =>
        intro ents w0 e' w0' h
        simp only [packMapLoop] at h
        split at h
        · split at h
          · cases h
          · split at h
            · rw [ih _ _ _ _ h]
            · split at h
              · cases h
              · rw [ih _ _ _ _ h]; simp [W.addRefs]
        · cases h
    simp only [execS] at h
    cases hp : w.pop with
    | none => simp [hp] at h
    | some r =>
      obtain ⟨y, w1⟩ := r
      simp only [hp] at h
      have l1 := pop_len hp
      split at h
      · cases h
      · split at h
        · cases h
        · rename_i ents w2 hl
          simp only [okW, W.alloc, W.setHeap, W.pushNoRef, W.addRefs, Option.some.injEq] at h
          subst h
          have := loopLen _ _ _ _ _ hl
          simp [Outcome.w, this, l1]
  | values =>
    have cpLen : ∀ (xs : List Item) (b : Bool) (w0 : W) (arr : List Item) (w0' : W),
        cpValues xs b w0 = some (arr, w0') → w0.c.heap.length ≤ w0'.c.heap.length := by
      intro xs
      induction xs with
      | nil => intro b w0 arr w0' h; cases b <;> (simp only [cpValues, Option.some.injEq, Prod.mk.injEq] at h; rw [← h.2]; exact Nat.le_refl _)
      | cons x t ih =>
        intro b w0 arr w0' h
        cases b with
        | true =>
          simp only [cpValues] at h
          cases hc : w0.cloneIfStruct x with
          | none => simp [hc] at h
          | some p =>
            obtain ⟨cl, isS, w1⟩ := p
            simp only [hc] at h
            have l1 := cloneIfStruct_len w0 x cl isS w1 hc
            cases hr : cpValues t true { w1 with c := w1.c.add cl } with
            | none => simp [hr] at h
            | some q =>
              obtain ⟨r, w2⟩ := q
              simp only [hr, Option.some.injEq, Prod.mk.injEq] at h
              have := ih true _ r w2 hr
              rw [← h.2]; simp only [length_add] at this; omega
        | false =>
          simp only [cpValues] at h
          cases hc : w0.cloneIfStruct x with
          | none => simp [hc] at h
          | some p =>
            obtain ⟨cl, isS, w1⟩ := p
            simp only [hc] at h
            have l1 := cloneIfStruct_len w0 x cl isS w1 hc
            cases hr : cpValues t false (if isS = true then ({ w1 with c := (w1.c.rem x).add cl } : W) else w1) with
            | none => simp [hr] at h
            | some q =>
              obtain ⟨r, w2⟩ := q
              simp only [hr, Option.some.injEq, Prod.mk.injEq] at h
              have := ih false _ r w2 hr
              rw [← h.2]
              cases isS with
              | false => simp only [Bool.false_eq_true, if_false] at this; omega
              | true => simp only [if_true, length_add, length_rem] at this; omega
    simp only [execS] at h
    cases hp : w.popNoRef with
    | none => simp [hp] at h
    | some r =>
      obtain ⟨item, w1⟩ := r
      simp only [hp] at h
      have l1 := popNoRef_len hp
      cases item with
      | prim => simp at h
      | arr id =>
        simp only at h
        split at h
        · cases h
        · rename_i arr w3 hcp
          simp only [okW, W.alloc, W.setHeap, W.pushNoRef, Option.some.injEq] at h
          subst h
          have := cpLen _ _ _ _ _ hcp
          simp only [W.setHeap, length_decRC] at this
          simp [Outcome.w]; omega
      | str id =>
        simp only at h
        split at h
        · cases h
        · rename_i arr w3 hcp
          simp only [okW, W.alloc, W.setHeap, W.pushNoRef, Option.some.injEq] at h
          subst h
          have := cpLen _ _ _ _ _ hcp
          simp only [W.setHeap, length_decRC] at this
          simp [Outcome.w]; omega
      | map id =>
        simp only at h
        split at h
        · cases h
        · rename_i arr w3 hcp
          simp only [okW, W.alloc, W.setHeap, W.pushNoRef, Option.some.injEq] at h
          subst h
          have := cpLen _ _ _ _ _ hcp
          have e : (if decide (rcOf (w1.setHeap (decRC w1.c.heap id)).c.heap id ≠ 0) = true then w1.setHeap (decRC w1.c.heap id)
              else (w1.setHeap (decRC w1.c.heap id)).addRefs (-Int.ofNat ((chOf (w1.setHeap (decRC w1.c.heap id)).c.heap id).length / 2))).c.heap.length
              = w1.c.heap.length := by
            split <;> simp [W.setHeap, W.addRefs]
          rw [e] at this
          simp [Outcome.w]; omega
  | unpack =>
    simp only [execS] at h
    cases hp : w.popNoRef with
    | none => simp [hp] at h
    | some r =>
      obtain ⟨e, w1⟩ := r
      simp only [hp] at h
      have l1 := popNoRef_len hp
      split at h
      · cases h
      · simp only [W.addRefs, W.setHeap, okW, Option.some.injEq] at h
        subst h
        simp only [Outcome.w, push_len]; apply ite_len <;> simp [l1]
  | keys =>
    simp only [execS] at h
    cases hp : w.pop with
    | none => simp [hp] at h
    | some r =>
      obtain ⟨y, w1⟩ := r
      simp only [hp] at h
      have l1 := pop_len hp
      split at h
      · cases h
      · simp only [okW, W.alloc, W.setHeap, W.pushNoRef, W.addRefs, Option.some.injEq, reduceCtorEq] at h
        rename_i heq
        simp only [Option.some.injEq, Prod.mk.injEq] at heq
        obtain ⟨_, rfl⟩ := heq
        subst h; simp [Outcome.w, l1]
      · cases h
  | convert t =>
    simp only [execS] at h
    cases hp : w.pop with
    | none => simp [hp] at h
    | some r =>
      obtain ⟨item, w1⟩ := r
      simp only [hp] at h
      have l1 := pop_len hp
      cases item with
      | prim => simp only [okW, Option.some.injEq] at h; subst h; simp [Outcome.w, l1]
      | arr id =>
        simp only at h
        repeat' split at h
        all_goals first
          | (simp only [okW, Option.some.injEq] at h; subst h; simp [Outcome.w, W.alloc, W.setHeap, l1]; done)
          | cases h
      | str id =>
        simp only at h
        repeat' split at h
        all_goals first
          | (simp only [okW, Option.some.injEq] at h; subst h; simp [Outcome.w, W.alloc, W.setHeap, l1]; done)
          | cases h
      | map id =>
        simp only at h
        repeat' split at h
        all_goals first
          | (simp only [okW, Option.some.injEq] at h; subst h; simp [Outcome.w, W.alloc, W.setHeap, l1]; done)
          | cases h
  | generic k j =>
    simp only [execS, Option.map_eq_some_iff] at h
    obtain ⟨w1, h1, rfl⟩ := h
    simp [Outcome.w, pushPrims_len, popN_len k h1]
  | append =>
    simp only [execS] at h
    cases hp : w.pop with
    | none => simp [hp] at h
    | some r =>
      obtain ⟨item, w1⟩ := r
      simp only [hp] at h
      cases hp2 : w1.pop with
      | none => simp [hp2] at h
      | some r2 =>
        obtain ⟨arr, w2⟩ := r2
        simp only [hp2] at h
        have l1 := pop_len hp
        have l2 := pop_len hp2
        cases hcl : w2.cloneIfStruct item with
        | none => simp [hcl] at h
        | some p =>
          obtain ⟨val, isS, w3⟩ := p
          simp only [hcl] at h
          have l3 := cloneIfStruct_len w2 item val isS w3 hcl
          cases arr <;> simp only [okW, Option.some.injEq, reduceCtorEq] at h <;> subst h <;>
            (simp only [Outcome.w, W.setHeap]; apply ite_len <;> simp <;> omega)
  | dup =>
    simp only [execS] at h
    split at h <;> simp only [okW, Option.some.injEq, reduceCtorEq] at h
    subst h; simp [Outcome.w]
  | over =>
    simp only [execS] at h
    split at h <;> simp only [okW, Option.some.injEq, reduceCtorEq] at h
    subst h; simp [Outcome.w]
  | tuck =>
    simp only [execS] at h
    split at h <;> simp only [okW, Option.some.injEq, reduceCtorEq] at h
    subst h; simp [Outcome.w]
  | swap =>
    simp only [execS] at h
    split at h <;> simp only [okW, Option.some.injEq, reduceCtorEq] at h
    subst h; simp [Outcome.w]
  | rot =>
    simp only [execS] at h
    split at h <;> simp only [okW, Option.some.injEq, reduceCtorEq] at h
    subst h; simp [Outcome.w]
  | nip =>
    simp only [execS] at h
    split at h <;> simp only [okW, Option.some.injEq, reduceCtorEq] at h
    subst h; simp [Outcome.w]
  | clear =>
    simp only [execS, okW, Option.some.injEq] at h
    subst h; simp [Outcome.w]
  | mkarray =>
    simp only [execS, okW, W.alloc, W.setHeap, Option.some.injEq] at h
    subst h; simp [Outcome.w]
  | newEmpty k =>
    simp only [execS, okW, W.alloc, W.setHeap, Option.some.injEq] at h
    subst h; simp [Outcome.w]
  | pick k =>
    simp only [execS] at h
    cases hp : w.pop with
    | none => simp [hp] at h
    | some r =>
      obtain ⟨y, w1⟩ := r
      simp only [hp] at h
      have l1 := pop_len hp
      split at h <;> simp only [okW, Option.some.injEq, reduceCtorEq] at h
      subst h; simp [Outcome.w, l1]
  | roll k =>
    simp only [execS] at h
    cases hp : w.pop with
    | none => simp [hp] at h
    | some r =>
      obtain ⟨y, w1⟩ := r
      simp only [hp] at h
      have l1 := pop_len hp
      split at h <;> simp only [okW, Option.some.injEq, reduceCtorEq] at h
      subst h; simp [Outcome.w, l1]
  | xdrop k =>
    simp only [execS] at h
    cases hp : w.pop with
    | none => simp [hp] at h
    | some r =>
      obtain ⟨y, w1⟩ := r
      simp only [hp] at h
      have l1 := pop_len hp
      split at h <;> simp only [okW, Option.some.injEq, reduceCtorEq] at h
      subst h; simp [Outcome.w, l1]
  | reverse k pf =>
    simp only [execS] at h
    cases pf with
    | false =>
      simp only [Bool.false_eq_true, if_false] at h
      split at h <;> simp only [okW, Option.some.injEq, reduceCtorEq] at h
      subst h; simp [Outcome.w]
    | true =>
      simp only [if_true] at h
      cases hp : w.pop with
      | none => simp [hp] at h
      | some r =>
        obtain ⟨y, w1⟩ := r
        simp only [hp, Option.map_some] at h
        have l1 := pop_len hp
        split at h <;> simp only [okW, Option.some.injEq, reduceCtorEq] at h
        subst h; simp [Outcome.w, l1]
  | newSized k m =>
    simp only [execS] at h
    cases hp : w.pop with
    | none => simp [hp] at h
    | some r =>
      obtain ⟨y, w1⟩ := r
      simp only [hp] at h
      by_cases hkm : k = .map
      · simp [hkm] at h
      rw [if_neg hkm] at h
      simp only [okW, W.alloc, W.setHeap, W.pushNoRef, W.addRefs, Option.some.injEq] at h
      have l1 := pop_len hp
      subst h; simp [Outcome.w, l1]
  | pack k m =>
    simp only [execS] at h
    cases hp : w.pop with
    | none => simp [hp] at h
    | some r =>
      obtain ⟨y, w1⟩ := r
      simp only [hp] at h
      by_cases hkm : k = .map
      · simp [hkm] at h
      rw [if_neg hkm] at h
      have l1 := pop_len hp
      split at h <;> simp only [okW, W.alloc, W.setHeap, W.pushNoRef, W.addRefs, Option.some.injEq, reduceCtorEq] at h
      subst h; simp [Outcome.w, l1]
  | clearitems =>
    simp only [execS] at h
    cases hp : w.pop with
    | none => simp [hp] at h
    | some r =>
      obtain ⟨y, w1⟩ := r
      simp only [hp] at h
      have l1 := pop_len hp
      split at h <;> simp only [okW, W.setHeap, Option.some.injEq, reduceCtorEq] at h
      subst h
      simp only [Outcome.w, length_setCh]; apply ite_len <;> simp [l1]
  | reverseitems =>
    simp only [execS] at h
    cases hp : w.pop with
    | none => simp [hp] at h
    | some r =>
      obtain ⟨y, w1⟩ := r
      simp only [hp] at h
      have l1 := pop_len hp
      split at h <;> simp only [okW, W.setHeap, Option.some.injEq, reduceCtorEq] at h <;> subst h <;> simp [Outcome.w, l1]
  | popitem =>
    simp only [execS] at h
    cases hp : w.pop with
    | none => simp [hp] at h
    | some r =>
      obtain ⟨y, w1⟩ := r
      simp only [hp] at h
      have l1 := pop_len hp
      split at h
      · split at h <;> simp only [okW, W.setHeap, Option.some.injEq, reduceCtorEq] at h
        subst h
        simp only [Outcome.w, length_setCh]; apply ite_len <;> simp [l1]
      · split at h <;> simp only [okW, W.setHeap, Option.some.injEq, reduceCtorEq] at h
        subst h
        simp only [Outcome.w, length_setCh]; apply ite_len <;> simp [l1]
      · cases h
  | pickitem i =>
    simp only [execS] at h
    cases hp : w.pop with
    | none => simp [hp] at h
    | some r =>
      obtain ⟨y, w1⟩ := r
      simp only [hp] at h
      have l1 := pop_len hp
      cases hp2 : w1.pop with
      | none => simp [hp2] at h
      | some r2 =>
        obtain ⟨obj, w2⟩ := r2
        simp only [hp2] at h
        have l2 := pop_len hp2
        split at h
        · simp only [Option.some.injEq] at h; subst h; simp [Outcome.w, l1, l2]
        · split at h
          · split at h <;> simp only [okW, Option.some.injEq, reduceCtorEq] at h
            subst h; simp [Outcome.w, l1, l2]
          · split at h <;> simp only [okW, Option.some.injEq, reduceCtorEq] at h
            subst h; simp [Outcome.w, l1, l2]
          · split at h <;> simp only [okW, Option.some.injEq, reduceCtorEq] at h
            subst h; simp [Outcome.w, l1, l2]
          · simp only [okW, Option.some.injEq] at h; subst h; simp [Outcome.w, l1, l2]
  | remove i =>
    simp only [execS] at h
    cases hp : w.pop with
    | none => simp [hp] at h
    | some r =>
      obtain ⟨y, w1⟩ := r
      simp only [hp] at h
      have l1 := pop_len hp
      cases hp2 : w1.pop with
      | none => simp [hp2] at h
      | some r2 =>
        obtain ⟨elem, w2⟩ := r2
        simp only [hp2] at h
        have l2 := pop_len hp2
        cases elem with
        | prim => simp at h
        | map id =>
          simp only at h
          split at h
          · simp only [okW, Option.some.injEq] at h
            subst h; simp [Outcome.w, l1, l2]
          · split at h
            · simp only [okW, W.setHeap, Option.some.injEq] at h
              subst h
              simp only [Outcome.w]; apply ite_len <;> simp [l1, l2]
            · cases h
        | arr id =>
          simp only at h
          split at h
          · cases h
          · split at h <;> simp only [okW, W.setHeap, Option.some.injEq, reduceCtorEq] at h
            subst h
            simp only [Outcome.w, length_setCh]; apply ite_len <;> simp [l1, l2]
        | str id =>
          simp only at h
          split at h
          · cases h
          · split at h <;> simp only [okW, W.setHeap, Option.some.injEq, reduceCtorEq] at h
            subst h
            simp only [Outcome.w, length_setCh]; apply ite_len <;> simp [l1, l2]
  | setitem i =>
    simp only [execS] at h
    cases hp0 : w.popNoRef with
    | none => simp [hp0] at h
    | some r0 =>
      obtain ⟨item, w0⟩ := r0
      simp only [hp0] at h
      have l0 := popNoRef_len hp0
      cases hcl : w0.cloneIfStruct item with
      | none => simp [hcl] at h
      | some p =>
        obtain ⟨cloned, isS, w0c⟩ := p
        simp only [hcl] at h
        have lc := cloneIfStruct_len w0 item cloned isS w0c hcl
        -- the tail never shrinks the heap
        have tail : ∀ (wt : W) out, setitemTail i cloned wt = some out → wt.c.heap.length ≤ out.w.c.heap.length := by
          intro wt out h
          simp only [setitemTail] at h
          cases hp1 : wt.pop with
          | none => simp [hp1] at h
          | some r1 =>
            obtain ⟨key, w1⟩ := r1
            simp only [hp1] at h
            by_cases hkc : key.cid.isSome = true
            · simp [hkc] at h
            rw [if_neg hkc] at h
            have l1 := pop_len hp1
            cases hp2 : w1.pop with
            | none => simp [hp2] at h
            | some r2 =>
              obtain ⟨obj, w2⟩ := r2
              simp only [hp2] at h
              have l2 := pop_len hp2
              cases obj with
              | prim =>
                simp only at h
                split at h <;> simp only [okW, Option.some.injEq] at h <;> subst h <;> simp [Outcome.w, l1, l2]
              | arr id =>
                simp only at h
                split at h
                · simp only [Option.some.injEq] at h; subst h; simp [Outcome.w, l1, l2]
                · split at h <;> simp only [okW, W.setHeap, Option.some.injEq, reduceCtorEq] at h
                  subst h
                  simp only [Outcome.w, length_setCh]; apply ite_len <;> simp [l1, l2]
              | str id =>
                simp only at h
                split at h
                · simp only [Option.some.injEq] at h; subst h; simp [Outcome.w, l1, l2]
                · split at h <;> simp only [okW, W.setHeap, Option.some.injEq, reduceCtorEq] at h
                  subst h
                  simp only [Outcome.w, length_setCh]; apply ite_len <;> simp [l1, l2]
              | map id =>
                simp only at h
                split at h
                · simp only [okW, W.setHeap, Option.some.injEq] at h
                  subst h
                  simp only [Outcome.w, length_setCh]; apply ite_len <;> simp [l1, l2]
                · split at h <;> simp only [okW, W.setHeap, Option.some.injEq, reduceCtorEq] at h
                  subst h
                  simp only [Outcome.w, length_setCh]; apply ite_len <;> simp [l1, l2]
        have := tail _ out h
        cases isS with
        | false => simp only [Bool.false_eq_true, if_false] at this; omega
        | true => simp only [if_true, length_add, length_rem] at this; omega

end NeoModel.VmAcct
