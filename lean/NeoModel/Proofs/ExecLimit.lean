/-
C04: the limit of 512 notifications per execution (interop/context.go AddNotification, HFEchidna) counts
what is in the list — notifications of rolled-back callees free their room — and is an invariant of
every execution of the implementation model.
-/
import NeoModel.Model.Exec
import NeoModel.Proofs.ExecNoDev
namespace NeoModel.Exec

def EvBound (r : Res ISt) : Prop := r.st.ev.length ≤ maxNotifications

theorem unload_ev_le (s : ISt) (w : Bool) (b : Nat) : (s.unload w b).ev.length ≤ s.ev.length := by
  unfold ISt.unload
  split
  · split
    · unfold ISt.drop; split <;> simp [List.length_take, Nat.min_le_right]
    · unfold ISt.merge; split <;> simp
  · exact Nat.le_refl _

theorem evbound_raise (h : Bool) (s : ISt) (hs : s.ev.length ≤ maxNotifications) : EvBound (raise h s) := by
  unfold raise; split <;> exact hs

theorem evbound_end (h hasF : Bool) (rf : ISt → Res ISt) (s : ISt) (hs : s.ev.length ≤ maxNotifications)
    (hf : ∀ s, s.ev.length ≤ maxNotifications → EvBound (rf s)) : EvBound (imEnd h hasF rf s) := by
  unfold imEnd
  split
  · have := hf s hs
    cases hr : rf s with
    | norm s3 =>
      rw [hr] at this
      simp only
      split
      · exact evbound_raise h s3 this
      · exact this
    | thrown s3 => rw [hr] at this; exact this
    | fault s3 => rw [hr] at this; exact this
  · exact hs

theorem evbound_finExc (h : Bool) (rf : ISt → Res ISt) (s : ISt) (hs : s.ev.length ≤ maxNotifications)
    (hf : ∀ s, s.ev.length ≤ maxNotifications → EvBound (rf s)) : EvBound (imFinExc h rf s) := by
  unfold imFinExc
  have := hf s hs
  cases hr : rf s with
  | norm s3 =>
    rw [hr] at this
    simp only
    split
    · exact evbound_raise h s3 this
    · exact this
  | thrown s3 => rw [hr] at this; exact this
  | fault s3 => rw [hr] at this; exact this

/-- whatever a tree does (any nesting of calls, rollbacks, natives, callbacks): the notification list
    never holds more than 512 entries, at a normal end, at an exception and at a FAULT (raw list). -/
theorem im_ev_bound (t : Tree) : ∀ (x : Ctx) (s : ISt), s.ev.length ≤ maxNotifications → EvBound (im t x s) := by
  induction t with
  | skip => intro x s hs; exact hs
  | seq a b iha ihb =>
    intro x s hs
    simp only [im]
    have ha := iha x s hs
    cases hr : im a x s with
    | norm s1 => rw [hr] at ha; exact ihb x s1 ha
    | thrown s1 => rw [hr] at ha; exact ha
    | fault s1 => rw [hr] at ha; exact ha
  | put k v => intro x s hs; simp only [im]; split <;> exact hs
  | del k => intro x s hs; simp only [im]; split <;> exact hs
  | notify e =>
    intro x s hs; simp only [im]
    split
    · split
      · rename_i hl
        simp only [EvBound, Res.st, List.length_append, List.length_singleton]
        exact hl
      · exact hs
    · exact hs
  | ifp k body ih =>
    intro x s hs
    simp only [im]
    split
    · split
      · exact ih x s hs
      · exact hs
    · exact hs
  | loc body ih => intro x s hs; simp only [im]; exact ih x s hs
  | throw => intro x s hs; simp only [im]; exact evbound_raise _ _ hs
  | abort => intro x s hs; exact hs
  | call c' fl body ih =>
    intro x s hs
    simp only [im]
    split
    · generalize (x.inTry && (x.f.and fl).mut) = wrapped
      have hev0 : (if wrapped = true then s.push else s).ev = s.ev := by split <;> simp [ISt.push]
      have hb := ih ⟨c', x.f.and fl, false, x.h⟩ (if wrapped = true then s.push else s) (by rw [hev0]; exact hs)
      cases hr : im body ⟨c', x.f.and fl, false, x.h⟩ (if wrapped = true then s.push else s) with
      | norm s1 => rw [hr] at hb; exact Nat.le_trans (unload_ev_le _ _ _) hb
      | thrown s1 => rw [hr] at hb; exact Nat.le_trans (unload_ev_le _ _ _) hb
      | fault s1 => rw [hr] at hb; exact hb
    · exact hs
  | try_ body hasC cat hasF fin ihb ihc ihf =>
    intro x s hs
    simp only [im]
    split
    · exact hs
    · have hb := ihb { x with inTry := true, h := true } s hs
      cases hr : im body { x with inTry := true, h := true } s with
      | norm s1 => rw [hr] at hb; exact evbound_end _ _ _ _ hb (fun s h => ihf x s h)
      | thrown s1 =>
        rw [hr] at hb
        simp only
        split
        · have hc := ihc { x with inTry := x.inTry || hasF, h := x.h || hasF } { s1 with exc := false } hb
          cases hrc : im cat { x with inTry := x.inTry || hasF, h := x.h || hasF } { s1 with exc := false } with
          | norm s2 => rw [hrc] at hc; exact evbound_end _ _ _ _ hc (fun s h => ihf x s h)
          | thrown s2 =>
            rw [hrc] at hc
            simp only
            split
            · exact evbound_finExc _ _ _ hc (fun s h => ihf x s h)
            · exact hc
          | fault s2 => rw [hrc] at hc; exact hc
        · exact evbound_finExc _ _ _ hb (fun s h => ihf x s h)
      | fault s1 => rw [hr] at hb; exact hb
  | native inner o fl cb k ih ihk =>
    intro x s hs
    simp only [im]
    split
    · generalize (if inner = true then x.f else x.f.and fl) = f'
      generalize (!inner && x.inTry && f'.mut) = wrapped
      have hev0 : (if wrapped = true then s.push else s).ev = s.ev := by split <;> simp [ISt.push]
      generalize (if wrapped = true then s.push else s) = s0 at *
      cases natStep o x.c f' s0.view.get with
      | none => simp only [EvBound, Res.st]; rw [hev0]; exact hs
      | some out =>
        simp only
        have tail : ∀ (s2 : ISt), s2.ev.length ≤ maxNotifications →
            EvBound (match im k ⟨x.c, f', false, x.h⟩ s2 with
              | .norm s3 => .norm (s3.unload wrapped s.ev.length)
              | .thrown s3 => .fault s3
              | .fault s3 => .fault s3) := by
          intro s2 h2
          have hk := ihk ⟨x.c, f', false, x.h⟩ s2 h2
          cases hrk : im k ⟨x.c, f', false, x.h⟩ s2 with
          | norm s3 => rw [hrk] at hk; exact Nat.le_trans (unload_ev_le _ _ _) hk
          | thrown s3 => rw [hrk] at hk; exact hk
          | fault s3 => rw [hrk] at hk; exact hk
        simp only [imPhase]
        by_cases hlim : maxNotifications < (s0.ev ++ out.evs).length
        · simp only [hlim, if_true, EvBound, Res.st, List.length_take]
          exact Nat.min_le_left _ _
        simp only [hlim, if_false]
        have hle : (s0.ev ++ out.evs).length ≤ maxNotifications := Nat.le_of_not_lt hlim
        cases out.cb with
        | none => simp only; exact tail _ hle
        | some to =>
          simp only
          by_cases hab : out.cbAbort = true
          · simp only [hab, if_true]; exact hle
          simp only [hab, if_false, Bool.false_eq_true]
          have hb := ih ⟨to, f', false, x.h⟩ { s0 with top := out.ws ++ s0.top, ev := s0.ev ++ out.evs } hle
          cases hr : im cb ⟨to, f', false, x.h⟩ { s0 with top := out.ws ++ s0.top, ev := s0.ev ++ out.evs } with
          | norm s2 =>
            rw [hr] at hb
            simp only
            by_cases he : s2.exc = true
            · simp only [he, if_true]; exact hb
            · simp only [he, if_false, Bool.false_eq_true]; exact tail s2 hb
          | thrown s2 => rw [hr] at hb; exact hb
          | fault s2 => rw [hr] at hb; exact hb
    · exact hs

end NeoModel.Exec
