/-
Coherence of the new-epoch cache: the committee that NEO.OnPersist installs at the first block of an epoch is the
result of the election over the state at the end of the previous block — although PostPersist recomputes it only
when `votesChanged` is set.  Every operation that can change an input of the election (candidate records, voters
count, total supply, Policy's blocked list) sets the flag.
-/
import NeoModel.Proofs.TokensGov
namespace NeoModel.Tokens

/-- the inputs of computeCommitteeMembers and the flag are untouched. -/
def sameIn (l l' : Ledger) : Prop :=
  l'.cands = l.cands ∧ l'.voters = l.voters ∧ l'.neoSupply = l.neoSupply ∧ l'.blocked = l.blocked ∧
  l'.votesChanged = l.votesChanged

/-- an operation either leaves the election inputs and the flag alone or leaves the flag set. -/
def EF (l l' : Ledger) : Prop := l'.votesChanged = true ∨ sameIn l l'

theorem EF.refl (l : Ledger) : EF l l := Or.inr ⟨rfl, rfl, rfl, rfl, rfl⟩

theorem EF.trans {a b c : Ledger} (h1 : EF a b) (h2 : EF b c) : EF a c := by
  rcases h2 with h2 | ⟨c1, c2, c3, c4, c5⟩
  · exact Or.inl h2
  · rcases h1 with h1 | ⟨b1, b2, b3, b4, b5⟩
    · exact Or.inl (by rw [c5]; exact h1)
    · exact Or.inr ⟨c1.trans b1, c2.trans b2, c3.trans b3, c4.trans b4, c5.trans b5⟩

theorem EF.of_eq {l l' : Ledger} (h1 : l'.cands = l.cands) (h2 : l'.voters = l.voters) (h3 : l'.neoSupply = l.neoSupply)
    (h4 : l'.blocked = l.blocked) (h5 : l'.votesChanged = l.votesChanged) : EF l l' := Or.inr ⟨h1, h2, h3, h4, h5⟩

theorem put_same {α : Type} (m : AL α) (k : Nat) (v : α) (h : get m k = some v) : put m k v = m := by
  induction m with
  | nil => simp [get] at h
  | cons p r ih =>
    obtain ⟨k', v'⟩ := p
    simp only [get] at h
    simp only [put]
    split
    · rename_i hk
      rw [if_pos hk] at h
      injection h with h; subst h; subst hk; rfl
    · rename_i hk
      rw [if_neg hk] at h
      rw [ih h]

theorem dropIfZero_flag (l l' : Ledger) (c : Nat) (cd : Cand) (h : dropIfZero l c cd = some l') :
    l'.votesChanged = l.votesChanged := by
  unfold dropIfZero at h
  split at h
  · simp at h
  · injection h with h; subst h; rfl

theorem modVotes_flag (l : Ledger) (acc : NeoAcc) (v : Int) (isNew : Bool) : (modVotes l acc v isNew).1.votesChanged = true := by
  unfold modVotes
  simp only []
  split
  · rfl
  · split
    · rfl
    · split
      · rfl
      · split
        · rename_i l' hd; rw [dropIfZero_flag _ _ _ _ hd]
        · rfl

theorem neoInc_ef (e : Env) (l : Ledger) (si : Option NeoAcc) (amt : Int) (cb : Option Int) :
    EF l (neoInc e l si amt cb).l := by
  unfold neoInc
  simp only []
  split
  · exact EF.refl _
  · split
    · exact EF.refl _
    · rename_i acc1 newGas _
      split
      · exact EF.refl _
      · have hf := modVotes_flag l acc1 amt false
        split
        · rename_i l1 hm; rw [hm] at hf; exact Or.inl hf
        · rename_i l1 hm; rw [hm] at hf
          left
          split
          · exact hf
          · exact hf

theorem updNeo_ef (e : Env) (l : Ledger) (a : Nat) (amt : Int) (req : Option Int) : EF l (updNeo e l a amt req).1 := by
  have run : ∀ si, EF l (if (neoInc e l si amt req).ok = true then
      ({ (neoInc e l si amt req).l with neo := store (neoInc e l si amt req).l.neo a (neoInc e l si amt req).si }, true, (neoInc e l si amt req).dist)
      else ((neoInc e l si amt req).l, false, none)).1 := by
    intro si
    split
    · exact (neoInc_ef e l si amt req).trans (EF.of_eq rfl rfl rfl rfl rfl)
    · exact neoInc_ef e l si amt req
  unfold updNeo
  simp only []
  split
  · split
    · exact EF.refl _
    · split
      · exact EF.refl _
      · split
        · exact EF.refl _
        · exact run none
  · exact run _

theorem updGas_ef (l : Ledger) (a : Nat) (amt : Int) (req : Option Int) : EF l (updGas l a amt req).1 := by
  have run : ∀ si, EF l (if (gasInc l si amt req).ok = true then
      ({ (gasInc l si amt req).l with gas := store (gasInc l si amt req).l.gas a (gasInc l si amt req).si }, true, (none : Option Int))
      else ((gasInc l si amt req).l, false, none)).1 := by
    intro si
    split
    · simp only [gasInc_l]; exact EF.of_eq rfl rfl rfl rfl rfl
    · simp only [gasInc_l]; exact EF.refl _
  unfold updGas
  simp only []
  split
  · split
    · exact EF.refl _
    · split
      · exact EF.refl _
      · split
        · exact EF.refl _
        · exact run none
  · exact run _

theorem upd_ef (t : Tok) (e : Env) (l : Ledger) (a : Nat) (amt : Int) (req : Option Int) : EF l (upd t e l a amt req).1 := by
  cases t with
  | neo => exact updNeo_ef e l a amt req
  | gas => exact updGas_ef l a amt req

theorem addEvent_ef (l : Ledger) (ev : Event) : EF l (addEvent l ev) := EF.of_eq rfl rfl rfl rfl rfl

theorem transferPre_ef (t : Tok) (e : Env) (l : Ledger) (src dst : Nat) (amt : Int) (wit : Bool) (r : TPre)
    (h : transferPre t e l src dst amt wit = r) :
    (∀ l' b, r = .ret l' b → EF l l') ∧ (∀ l' d1 d2, r = .posted l' d1 d2 → EF l l') := by
  unfold transferPre at h
  simp only [] at h
  split at h
  · subst h; exact ⟨fun _ _ h => (by cases h), fun _ _ _ h => (by cases h)⟩
  · split at h
    · subst h
      refine ⟨fun l' b h => ?_, fun _ _ _ h => (by cases h)⟩
      injection h with h1 _; subst h1; exact EF.refl _
    · have h1 := upd_ef t e l src (if src = dst ∨ amt = 0 then 0 else -amt) (some amt)
      cases hu : upd t e l src (if src = dst ∨ amt = 0 then 0 else -amt) (some amt) with
      | mk l1 r1 =>
        obtain ⟨b, d1⟩ := r1
        rw [hu] at h1 h
        cases b with
        | false =>
          simp only [] at h
          subst h
          refine ⟨fun l' b h => ?_, fun _ _ _ h => (by cases h)⟩
          injection h with h1' _; subst h1'; exact h1
        | true =>
          simp only [] at h
          split at h
          · subst h
            refine ⟨fun _ _ h => (by cases h), fun l' d1 d2 h => ?_⟩
            injection h with h1' _ _; subst h1'
            exact h1.trans (addEvent_ef _ _)
          · have h2 := upd_ef t e l1 dst amt none
            cases hu2 : upd t e l1 dst amt none with
            | mk l2 r2 =>
              obtain ⟨b2, d2⟩ := r2
              rw [hu2] at h2 h
              cases b2 with
              | false =>
                simp only [] at h
                subst h
                refine ⟨fun l' b h => ?_, fun _ _ _ h => (by cases h)⟩
                injection h with h1' _; subst h1'; exact h1.trans h2
              | true =>
                simp only [] at h
                subst h
                refine ⟨fun _ _ h => (by cases h), fun l' d1 d2 h => ?_⟩
                injection h with h1' _ _; subst h1'
                exact (h1.trans h2).trans (addEvent_ef _ _)

theorem gasAddTokens_ef (l l' : Ledger) (h : Nat) (amt : Int) (hr : gasAddTokens l h amt = some l') : EF l l' := by
  unfold gasAddTokens at hr
  simp only [] at hr
  split at hr
  · injection hr with hr; subst hr
    refine EF.of_eq ?_ ?_ ?_ ?_ ?_ <;> simp [gasInc_l]
  · simp at hr

theorem mintGas_ef (l l' : Ledger) (h : Nat) (amt : Int) (hr : mintGas l h amt = some l') : EF l l' := by
  unfold mintGas at hr
  split at hr
  · injection hr with hr; subst hr; exact EF.refl _
  · cases hg : gasAddTokens l h amt with
    | none => simp [hg] at hr
    | some l1 => simp [hg] at hr; subst hr; exact (gasAddTokens_ef _ _ _ _ hg).trans (addEvent_ef _ _)

theorem burnGas_ef (l l' : Ledger) (h : Nat) (amt : Int) (hr : burnGas l h amt = some l') : EF l l' := by
  unfold burnGas at hr
  split at hr
  · injection hr with hr; subst hr; exact EF.refl _
  · cases hg : gasAddTokens l h (-amt) with
    | none => simp [hg] at hr
    | some l1 => simp [hg] at hr; subst hr; exact (gasAddTokens_ef _ _ _ _ hg).trans (addEvent_ef _ _)

theorem mintGasCb_ef (e : Env) (l l' : Ledger) (h : Nat) (amt : Int) (hr : mintGasCb e l h amt = some l') : EF l l' := by
  unfold mintGasCb at hr
  split at hr
  · simp at hr
  · exact mintGas_ef l l' h amt hr

theorem mintDists_ef (e : Env) (l l' : Ledger) (d1 d2 : Option (Nat × Int)) (hr : mintDists e l d1 d2 = some l') : EF l l' := by
  unfold mintDists at hr
  simp only [] at hr
  cases d1 with
  | none =>
    simp only [] at hr
    cases d2 with
    | none => simp at hr; subst hr; exact EF.refl _
    | some p => obtain ⟨h2, g2⟩ := p; exact mintGasCb_ef e l l' h2 g2 hr
  | some p =>
    obtain ⟨h1, g1⟩ := p
    simp only [] at hr
    cases hm : mintGasCb e l h1 g1 with
    | none => simp [hm] at hr
    | some l1 =>
      simp only [hm] at hr
      have f1 := mintGasCb_ef e l l1 h1 g1 hm
      cases d2 with
      | none => simp at hr; subst hr; exact f1
      | some p => obtain ⟨h2, g2⟩ := p; exact f1.trans (mintGasCb_ef e l1 l' h2 g2 hr)

theorem registerInternal_ef (l : Ledger) (pub : Nat) : EF l (registerInternal l pub) := by
  unfold registerInternal
  split
  · exact Or.inl rfl
  · rename_i c hg
    simp only []
    split
    · rename_i hr
      refine EF.of_eq ?_ rfl rfl rfl rfl
      show put l.cands pub { c with reg := true } = l.cands
      have : ({ c with reg := true } : Cand) = c := by cases c; simp at hr; simp [hr]
      rw [this]; exact put_same _ _ _ hg
    · exact Or.inl rfl

theorem unregister_ef (l : Ledger) (pub : Nat) (wit : Bool) : EF l (unregister l pub wit).1 := by
  unfold unregister
  split
  · exact EF.refl _
  · split
    · exact EF.refl _
    · simp only []
      split
      · rename_i l' hd; left; rw [dropIfZero_flag _ _ _ _ hd]
      · exact Or.inl rfl

theorem votePre_ef (e : Env) (l : Ledger) (h : Nat) (pub : Option Nat) (wit : Bool) (hpos : ∀ p ∈ l.neo, 0 < p.2.bal) :
    EF l (votePre e l h pub wit).1 := by
  unfold votePre
  split
  · exact EF.refl _
  · cases hg : get l.neo h with
    | none => exact EF.refl _
    | some acc =>
      simp only []
      split
      · exact EF.refl _
      · generalize hl1 : (if (acc.vote.isNone != pub.isNone) = true then
            { l with voters := l.voters + (if pub.isNone = true then -acc.bal else acc.bal) } else l) = l1
        have hb : 0 ≤ acc.bal := by have := hpos _ (get_mem _ _ _ hg); simp at this; omega
        have hds := distributeGas_isSome e l1 acc hb
        obtain ⟨r, hd⟩ := Option.isSome_iff_exists.mp hds
        obtain ⟨acc1, g⟩ := r
        simp only [hd]
        have f2 := modVotes_flag l1 acc1 (-acc1.bal) false
        split
        · rename_i l2 hm; rw [hm] at f2; exact Or.inl f2
        · rename_i l2 hm
          have f3 := modVotes_flag l2 (voteNewAcc l2 acc1 pub) (voteNewAcc l2 acc1 pub).bal true
          split
          · rename_i l3 hm3; rw [hm3] at f3; exact Or.inl f3
          · rename_i l3 hm3; rw [hm3] at f3; exact Or.inl f3

theorem notaryOnPayment_ef (e : Env) (l l' : Ledger) (src : Nat) (amt : Int) (dto : Option Nat) (till : Nat)
    (h : notaryOnPayment e l src amt dto till = some l') : EF l l' := by
  unfold notaryOnPayment at h
  simp only [] at h
  cases hg : get l.deps (dto.getD src) with
  | none =>
    simp only [hg] at h
    split at h
    · simp at h
    · split at h
      · simp at h
      · split at h
        · simp at h
        · injection h with h; subst h; exact EF.of_eq rfl rfl rfl rfl rfl
  | some d =>
    simp only [hg] at h
    split at h
    · simp at h
    · split at h
      · simp at h
      · injection h with h; subst h; exact EF.of_eq rfl rfl rfl rfl rfl

theorem lockDeposit_ef (e : Env) (l : Ledger) (a till : Nat) (wit : Bool) : EF l (lockDeposit e l a till wit).1 := by
  unfold lockDeposit
  split
  · exact EF.refl _
  · split
    · exact EF.refl _
    · split
      · exact EF.refl _
      · split
        · exact EF.refl _
        · exact EF.of_eq rfl rfl rfl rfl rfl

theorem withdrawPre_ef (e : Env) (l l' : Ledger) (src : Nat) (wit : Bool) (amt : Int)
    (h : withdrawPre e l src wit = some (l', amt)) : EF l l' := by
  unfold withdrawPre at h
  split at h
  · simp at h
  · split at h
    · simp at h
    · split at h
      · simp at h
      · injection h with h; injection h with h1 _; subst h1; exact EF.of_eq rfl rfl rfl rfl rfl

theorem neoOnPayment_ef (e : Env) (l l' : Ledger) (amt : Int) (p : Nat) (w : Bool)
    (h : neoOnPayment e l amt p w = some l') : EF l l' := by
  unfold neoOnPayment at h
  split at h
  · simp at h
  · split at h
    · simp at h
    · exact (registerInternal_ef l p).trans (burnGas_ef _ _ _ _ h)

theorem setGasPerBlock_ef (e : Env) (l l' : Ledger) (g : Int) (w : Bool) (h : setGasPerBlock e l g w = some l') : EF l l' := by
  unfold setGasPerBlock at h
  split at h
  · simp at h
  · split at h
    · simp at h
    · injection h with h; subst h; exact EF.of_eq rfl rfl rfl rfl rfl

theorem setRegisterPrice_ef (l l' : Ledger) (p : Int) (w : Bool) (h : setRegisterPrice l p w = some l') : EF l l' := by
  unfold setRegisterPrice at h
  split at h
  · simp at h
  · split at h
    · simp at h
    · injection h with h; subst h; exact EF.of_eq rfl rfl rfl rfl rfl

theorem blockAccount_ef (e : Env) (l l' : Ledger) (acc : Nat) (b : Bool) (h : blockAccount e l acc = some (l', b)) : EF l l' := by
  unfold blockAccount at h
  split at h
  · injection h with h; injection h with h1 _; subst h1; exact EF.refl _
  · simp only [] at h
    split at h
    · injection h with h; injection h with h1 _; subst h1; exact Or.inl rfl
    · injection h with h; injection h with h1 _; subst h1; exact Or.inl rfl
    · rename_i l1 g hvp
      cases hm : mintGasCb e l1 acc g with
      | none => simp [hm] at h
      | some l2 =>
        simp only [hm] at h
        injection h with h; injection h with h1 _; subst h1; exact Or.inl rfl

theorem designateNotary_ef (e : Env) (l l' : Ledger) (ns : List Nat) (w : Bool) (h : designateNotary e l ns w = some l') : EF l l' := by
  unfold designateNotary at h
  split at h
  · simp at h
  · split at h
    · simp at h
    · split at h
      · simp at h
      · split at h
        · simp at h
        · split at h
          · simp at h
          · injection h with h; subst h; exact EF.of_eq rfl rfl rfl rfl rfl

theorem unblockAccount_ef (l : Ledger) (acc : Nat) : EF l (unblockAccount l acc).1 := by
  unfold unblockAccount
  split
  · exact Or.inl rfl
  · exact EF.refl _

theorem burnFees_ef (l l' : Ledger) (txs : List TxFee) (h : burnFees l txs = some l') : EF l l' := by
  induction txs generalizing l with
  | nil => simp [burnFees] at h; subst h; exact EF.refl _
  | cons t ts ih =>
    simp only [burnFees] at h
    cases hb : burnGas l t.sender (t.sys + t.net) with
    | none => simp [hb] at h
    | some l1 => simp only [hb] at h; exact (burnGas_ef _ _ _ _ hb).trans (ih l1 h)

theorem gasOnPersist_ef (e : Env) (l l' : Ledger) (primary : Nat) (txs : List TxFee)
    (h : gasOnPersist e l primary txs = some l') : EF l l' := by
  unfold gasOnPersist at h
  split at h
  · injection h with h; subst h; exact EF.refl _
  · cases hb : burnFees l txs with
    | none => simp [hb] at h
    | some l1 => simp only [hb] at h; exact (burnFees_ef _ _ _ hb).trans (mintGas_ef _ _ _ _ h)

theorem notaryCharge_ef (e : Env) (l l' : Ledger) (txs : List TxFee) (n : Int)
    (h : notaryCharge e l txs = some (l', n)) : EF l l' := by
  induction txs generalizing l n with
  | nil => simp [notaryCharge] at h; obtain ⟨h, _⟩ := h; subst h; exact EF.refl _
  | cons t ts ih =>
    simp only [notaryCharge] at h
    cases hk : t.nkeys with
    | none => simp only [hk] at h; exact ih l n h
    | some kk =>
      simp only [hk] at h
      split at h
      · simp at h
      · rename_i l1 heq
        have f1 : EF l l1 := by
          split at heq
          · split at heq
            · simp at heq
            · split at heq
              · simp at heq
              · split at heq
                · simp at heq
                · split at heq
                  · injection heq with heq; subst heq; exact EF.of_eq rfl rfl rfl rfl rfl
                  · injection heq with heq; subst heq; exact EF.of_eq rfl rfl rfl rfl rfl
          · injection heq with heq; subst heq; exact EF.refl _
        cases hr : notaryCharge e l1 ts with
        | none => simp [hr] at h
        | some r =>
          obtain ⟨l2, n2⟩ := r
          simp only [hr] at h
          injection h with h; injection h with h1 _; subst h1
          exact f1.trans (ih l1 n2 hr)

theorem mintAll_ef (l l' : Ledger) (hs : List Nat) (g : Int) (h : mintAll l hs g = some l') : EF l l' := by
  induction hs generalizing l with
  | nil => simp [mintAll] at h; subst h; exact EF.refl _
  | cons x xs ih =>
    simp only [mintAll] at h
    cases hm : mintGas l x g with
    | none => simp [hm] at h
    | some l1 => simp only [hm] at h; exact (mintGas_ef _ _ _ _ hm).trans (ih l1 h)

theorem notaryOnPersist_ef (e : Env) (l l' : Ledger) (notaries : List Nat) (txs : List TxFee)
    (h : notaryOnPersist e l notaries txs = some l') : EF l l' := by
  unfold notaryOnPersist at h
  cases hc : notaryCharge e l txs with
  | none => simp [hc] at h
  | some r =>
    obtain ⟨l1, n⟩ := r
    simp only [hc] at h
    have f1 := notaryCharge_ef e l l1 txs n hc
    split at h
    · injection h with h; subst h; exact f1
    · split at h
      · injection h with h; subst h; exact f1
      · exact f1.trans (mintAll_ef _ _ _ _ h)

theorem voterRewards_ef (e : Env) (vr : Int) (l : Ledger) (cs : List (Nat × Int)) (i : Nat) :
    EF l (voterRewards e vr l cs i) := by
  induction cs generalizing l i with
  | nil => exact EF.refl _
  | cons c rest ih =>
    obtain ⟨pub, cached⟩ := c
    simp only [voterRewards]
    refine EF.trans ?_ (ih _ _)
    split <;> split <;> first | exact EF.of_eq rfl rfl rfl rfl rfl | exact EF.refl _

theorem neoPostPersist_ef (e : Env) (l l' : Ledger) (committee : List (Nat × Nat × Int))
    (h : neoPostPersist e l committee = some l') : EF l l' := by
  unfold neoPostPersist at h
  cases hg : gasPerBlockAt l.gpb.reverse (e.index + 1) with
  | none => simp [hg] at h
  | some gas =>
    simp only [hg] at h
    split at h
    · simp at h
    · cases hm : committee[e.index % e.csize]? with
      | none => simp [hm] at h
      | some m =>
        obtain ⟨p, acc, v⟩ := m
        simp only [hm] at h
        cases hmint : mintGas l acc (gas * 10 / 100) with
        | none => simp [hmint] at h
        | some l1 =>
          simp only [hmint] at h
          have f1 := mintGas_ef _ _ _ _ hmint
          split at h
          · injection h with h; subst h; exact f1.trans (voterRewards_ef _ _ _ _ _)
          · injection h with h; subst h; exact f1

/-! ### freshness of the new-epoch cache -/

/-- the cached new-epoch committee and validators are what the election over `l` yields. -/
def Fresh (e : Env) (l : Ledger) : Prop :=
  computeCommittee e l = some l.neCommittee ∧ valsOf e l.neCommittee = some l.neVals

/-- the cache may lag behind only while the flag is set. -/
def Coh (e : Env) (l : Ledger) : Prop := l.votesChanged = false → Fresh e l

theorem computeCommittee_congr (e : Env) (l l' : Ledger) (h1 : l'.cands = l.cands) (h2 : l'.voters = l.voters)
    (h3 : l'.neoSupply = l.neoSupply) (h4 : l'.blocked = l.blocked) : computeCommittee e l' = computeCommittee e l :=
  computeCommittee_perm_indep e l l' (by rw [h1]) h4 h2 h3

theorem Fresh.transport {e : Env} {l l' : Ledger} (h : Fresh e l) (hi : sameIn l l') (hg : sameGov l l') : Fresh e l' := by
  obtain ⟨i1, i2, i3, i4, _⟩ := hi
  obtain ⟨_, _, g3, g4⟩ := hg
  unfold Fresh
  rw [computeCommittee_congr e l l' i1 i2 i3 i4, g3, g4]; exact h

theorem Coh.step {e : Env} {l l' : Ledger} (h : Coh e l) (f : EF l l') (g : Frame l l') : Coh e l' := by
  intro hf
  rcases f with f | f
  · rw [f] at hf; cases hf
  · exact (h (by rw [← f.2.2.2.2]; exact hf)).transport f g.1

/-- the static part of the environment the election reads. -/
def sameCfg (e e' : Env) : Prop :=
  e'.standby = e.standby ∧ e'.csize = e.csize ∧ e'.vcount = e.vcount ∧ e'.keyAcc = e.keyAcc ∧ e'.notary = e.notary

theorem computeCommittee_cfg (e e' : Env) (l : Ledger) (h : sameCfg e e') : computeCommittee e' l = computeCommittee e l := by
  obtain ⟨h1, h2, _, h4, _⟩ := h
  unfold computeCommittee candsByVotes candList eligible acctOf
  rw [h1, h2, h4]

theorem valsOf_cfg (e e' : Env) (cvs : List (Nat × Int)) (h : sameCfg e e') : valsOf e' cvs = valsOf e cvs := by
  unfold valsOf; rw [h.2.2.1]

theorem Fresh.cfg {e e' : Env} {l : Ledger} (h : Fresh e l) (hc : sameCfg e e') : Fresh e' l := by
  unfold Fresh; rw [computeCommittee_cfg e e' l hc, valsOf_cfg e e' _ hc]; exact h

theorem Coh.cfg {e e' : Env} {l : Ledger} (h : Coh e l) (hc : sameCfg e e') : Coh e' l := fun hf => (h hf).cfg hc

/-- updateCachedNewEpochValues makes the cache fresh. -/
theorem updateNewEpoch_fresh (e : Env) (l l' : Ledger) (h : updateNewEpoch e l = some l') : Fresh e l' := by
  unfold updateNewEpoch at h
  cases hc : computeCommittee e l with
  | none => simp [hc] at h
  | some cvs =>
    simp only [hc] at h
    cases hv : valsOf e cvs with
    | none => simp [hv] at h
    | some vs =>
      simp only [hv] at h
      injection h with h; subst h
      exact ⟨(computeCommittee_congr e l { l with neCommittee := cvs, neVals := vs } rfl rfl rfl rfl).trans hc, hv⟩

/-! ### the machine: everything but the epoch switch and PostPersist -/

/-- operations other than the block start and PostPersist. -/
def Op.inner : Op → Bool
  | .block _ | .postPersist => false
  | _ => true

section pres
variable (P : Ledger → Prop) (hP : ∀ l l', P l → Frame l l' → EF l l' → P l')
include hP

theorem pres_done (s : St) (l : Ledger) (r : Res) (h : P s.cur ∧ P s.snap) (f : Frame s.cur l) (g : EF s.cur l) :
    P (s.done l r).cur ∧ P (s.done l r).snap := by
  unfold St.done
  split
  · exact ⟨hP _ _ h.1 f g, h.2⟩
  · exact ⟨hP _ _ h.1 f g, h.2⟩

theorem pres_fin (s : St) (l : Ledger) (d1 d2 : Option (Nat × Int)) (h : P s.cur ∧ P s.snap) (f : Frame s.cur l) (g : EF s.cur l) :
    P (match mintDists s.env l d1 d2 with
        | none => s.throw
        | some l'' => s.done l'' .t).cur ∧
    P (match mintDists s.env l d1 d2 with
        | none => s.throw
        | some l'' => s.done l'' .t).snap := by
  cases hm : mintDists s.env l d1 d2 with
  | none => exact ⟨h.2, h.2⟩
  | some l'' =>
    exact pres_done P hP s l'' .t h (f.trans (mintDists_frame _ _ _ _ _ hm)) (g.trans (mintDists_ef _ _ _ _ _ hm))

theorem pres_afterPosted (s : St) (t : Tok) (l : Ledger) (src dst : Nat) (amt : Int) (recv : Recv) (data : Data)
    (d1 d2 : Option (Nat × Int)) (h : P s.cur ∧ P s.snap) (f : Frame s.cur l) (g : EF s.cur l) :
    P (afterPosted s t l src dst amt recv data d1 d2).cur ∧ P (afterPosted s t l src dst amt recv data d1 d2).snap := by
  unfold afterPosted
  simp only []
  split
  · split
    · rename_i dto till
      cases hn : notaryOnPayment s.env l src amt dto till with
      | none => exact ⟨h.2, h.2⟩
      | some l' =>
        exact pres_fin P hP s l' d1 d2 h (f.trans (notaryOnPayment_frame _ _ _ _ _ _ _ hn)) (g.trans (notaryOnPayment_ef _ _ _ _ _ _ _ hn))
    · exact ⟨h.2, h.2⟩
  · split
    · split
      · rename_i p
        cases hn : neoOnPayment s.env l amt p (witOf s.env (acctOf s.env p) (some s.env.gasC) s.env.neoC) with
        | none => exact ⟨h.2, h.2⟩
        | some l' =>
          exact pres_fin P hP s l' d1 d2 h (f.trans (neoOnPayment_frame _ _ _ _ _ _ hn)) (g.trans (neoOnPayment_ef _ _ _ _ _ _ hn))
      · exact ⟨h.2, h.2⟩
    · split
      · exact ⟨h.2, h.2⟩
      · cases recv with
        | none => exact pres_fin P hP s l d1 d2 h f g
        | accept => exact pres_fin P hP s l d1 d2 h f g
        | throws => exact ⟨h.2, h.2⟩
        | cb => exact ⟨hP _ _ h.1 f g, h.2⟩

theorem exec_pres {nt : Nat} (s : St) (op : Op) (hm : MInv nt s) (hop : op.inner = true) (h : P s.cur ∧ P s.snap) :
    P (exec s op).cur ∧ P (exec s op).snap := by
  cases op with
  | block idx => simp [Op.inner] at hop
  | postPersist => simp [Op.inner] at hop
  | onPersist pidx notaries txs =>
    simp only [exec]
    split
    · exact h
    · split
      · exact h
      · split
        · exact h
        · cases h1 : gasOnPersist s.env s.cur (acctOf s.env ((s.cur.nextVals[pidx]?).getD 0)) txs with
          | none => exact h
          | some l1 =>
            simp only []
            cases h2 : notaryOnPersist s.env l1 notaries txs with
            | none => exact h
            | some l2 =>
              have := hP _ _ h.1 ((gasOnPersist_frame _ _ _ _ _ h1).trans (notaryOnPersist_frame _ _ _ _ _ h2))
                ((gasOnPersist_ef _ _ _ _ _ h1).trans (notaryOnPersist_ef _ _ _ _ _ h2))
              exact ⟨this, this⟩
  | txBegin sender signers => simp only [exec]; exact ⟨h.1, h.1⟩
  | txEnd abort =>
    simp only [exec]
    split
    · exact ⟨h.2, h.2⟩
    · exact ⟨h.1, h.1⟩
  | endCb =>
    simp only [exec]
    split
    · exact h
    · cases hcb : s.cbs with
      | nil => exact h
      | cons f rest =>
        simp only []
        exact pres_fin P hP { s with cbs := rest } s.cur f.d1 f.d2 h (Frame.refl _) (EF.refl _)
  | transfer t src dst amt caller dk data =>
    simp only [exec]
    split
    · exact h
    · obtain ⟨fr, fp⟩ := transferPre_frame t s.env s.cur src dst amt
        (witOf s.env src caller (tokC s.env t) && src != s.env.notary) _ rfl
      obtain ⟨er, ep⟩ := transferPre_ef t s.env s.cur src dst amt
        (witOf s.env src caller (tokC s.env t) && src != s.env.notary) _ rfl
      cases hp : transferPre t s.env s.cur src dst amt (witOf s.env src caller (tokC s.env t) && src != s.env.notary) with
      | thr => exact ⟨h.2, h.2⟩
      | ret l b =>
        simp only []
        have := pres_done P hP s l (resOf b) h (fr l b hp) (er l b hp)
        split
        · exact this
        · exact this
      | posted l d1 d2 => exact pres_afterPosted P hP s t l src dst amt (recvOf s.env dst dk) data d1 d2 h (fp l d1 d2 hp) (ep l d1 d2 hp)
  | vote acc pub caller cb =>
    simp only [exec]
    split
    · exact h
    · have fv := votePre_frame s.env s.cur acc pub (witOf s.env acc caller s.env.neoC)
      have ev := votePre_ef s.env s.cur acc pub (witOf s.env acc caller s.env.neoC) hm.cur.votes.neoPos
      cases hvp : votePre s.env s.cur acc pub (witOf s.env acc caller s.env.neoC) with
      | mk l r =>
        obtain ⟨b, g⟩ := r
        rw [hvp] at fv ev
        have noCb : ∀ s' : St, P s'.cur ∧ P s'.snap →
            P (if cb = true then { s' with skip := 1 } else s').cur ∧ P (if cb = true then { s' with skip := 1 } else s').snap := by
          intro s' h'; split <;> exact h'
        cases b with
        | false => exact noCb _ (pres_done P hP s l .f h fv ev)
        | true =>
          simp only []
          cases g with
          | none => exact noCb _ (pres_done P hP s l .t h fv ev)
          | some g =>
            simp only []
            cases hmg : mintGasCb s.env l acc g with
            | none => exact ⟨h.2, h.2⟩
            | some l' =>
              simp only []
              split
              · exact ⟨hP _ _ h.1 (fv.trans (mintGasCb_frame _ _ _ _ _ hmg)) (ev.trans (mintGasCb_ef _ _ _ _ _ hmg)), h.2⟩
              · exact noCb _ (pres_done P hP s l' .t h (fv.trans (mintGasCb_frame _ _ _ _ _ hmg)) (ev.trans (mintGasCb_ef _ _ _ _ _ hmg)))
  | register pub caller =>
    simp only [exec]
    split
    · exact h
    · exact pres_done P hP s _ .t h (registerInternal_frame _ _) (registerInternal_ef _ _)
  | unregister pub caller =>
    simp only [exec]
    split
    · exact h
    · exact pres_done P hP s _ _ h (unregister_frame _ _ _) (unregister_ef _ _ _)
  | lock acc till caller =>
    simp only [exec]
    split
    · exact h
    · exact pres_done P hP s _ _ h (lockDeposit_frame _ _ _ _ _) (lockDeposit_ef _ _ _ _ _)
  | withdraw src dst caller =>
    simp only [exec]
    split
    · exact h
    · cases hw : withdrawPre s.env s.cur src (witOf s.env src caller s.env.notary) with
      | none => exact pres_done P hP s s.cur .f h (Frame.refl _) (EF.refl _)
      | some r =>
        obtain ⟨l, amt⟩ := r
        simp only []
        have f1 := withdrawPre_frame _ _ _ _ _ _ hw
        have e1 := withdrawPre_ef _ _ _ _ _ _ hw
        obtain ⟨_, fp⟩ := transferPre_frame .gas s.env l s.env.notary (dst.getD src) amt true _ rfl
        obtain ⟨_, ep⟩ := transferPre_ef .gas s.env l s.env.notary (dst.getD src) amt true _ rfl
        cases hp : transferPre .gas s.env l s.env.notary (dst.getD src) amt true with
        | thr => exact ⟨h.2, h.2⟩
        | ret l' b => exact ⟨h.2, h.2⟩
        | posted l' d1 d2 =>
          exact pres_afterPosted P hP s .gas l' s.env.notary (dst.getD src) amt (recvOf s.env (dst.getD src) .null) .other d1 d2 h
            (f1.trans (fp l' d1 d2 hp)) (e1.trans (ep l' d1 d2 hp))
  | setGpb gas caller =>
    simp only [exec]
    split
    · exact h
    · cases hs : setGasPerBlock s.env s.cur gas (witCommittee s.env s.cur caller s.env.neoC) with
      | none => exact ⟨h.2, h.2⟩
      | some l => exact pres_done P hP s l .null h (setGasPerBlock_frame _ _ _ _ _ hs) (setGasPerBlock_ef _ _ _ _ _ hs)
  | setRegPrice price caller =>
    simp only [exec]
    split
    · exact h
    · cases hs : setRegisterPrice s.cur price (witCommittee s.env s.cur caller s.env.neoC) with
      | none => exact ⟨h.2, h.2⟩
      | some l => exact pres_done P hP s l .null h (setRegisterPrice_frame _ _ _ _ hs) (setRegisterPrice_ef _ _ _ _ hs)
  | blockAcc acc caller =>
    simp only [exec]
    split
    · exact h
    · split
      · exact ⟨h.2, h.2⟩
      · split
        · exact ⟨h.2, h.2⟩
        · cases hb : blockAccount s.env s.cur acc with
          | none => exact ⟨h.2, h.2⟩
          | some r =>
            obtain ⟨l, b⟩ := r
            exact pres_done P hP s l _ h (blockAccount_frame _ _ _ _ _ hb) (blockAccount_ef _ _ _ _ _ hb)
  | unblockAcc acc caller =>
    simp only [exec]
    split
    · exact h
    · split
      · exact ⟨h.2, h.2⟩
      · exact pres_done P hP s _ _ h (unblockAccount_frame _ _) (unblockAccount_ef _ _)
  | designate nodes caller =>
    simp only [exec]
    split
    · exact h
    · cases hs : designateNotary s.env s.cur nodes (witCommittee s.env s.cur caller s.env.desigC) with
      | none => exact ⟨h.2, h.2⟩
      | some l => exact pres_done P hP s l .null h (designateNotary_frame _ _ _ _ _ hs) (designateNotary_ef _ _ _ _ _ hs)

theorem step_pres {nt : Nat} (s : St) (op : Op) (hm : MInv nt s) (hop : op.inner = true) (h : P s.cur ∧ P s.snap) :
    P (step s op).cur ∧ P (step s op).snap := by
  unfold step
  split
  · (repeat' split) <;> exact h
  · split
    · exact ⟨h.2, h.2⟩
    · exact exec_pres P hP s op hm hop h

theorem run_pres {nt : Nat} (s : St) (ops : List Op) (hm : MInv nt s) (hop : ∀ op ∈ ops, op.inner = true)
    (h : P s.cur ∧ P s.snap) : P (run s ops).cur ∧ P (run s ops).snap := by
  induction ops generalizing s with
  | nil => exact h
  | cons op rest ih =>
    exact ih (step s op) (step_inv s op hm) (fun o ho => hop o (List.mem_cons_of_mem _ ho))
      (step_pres P hP s op hm (hop op (List.mem_cons_self ..)) h)

end pres

/-! ### whole blocks -/

/-- a block as the node processes it: OnPersist, the operations of its transactions, PostPersist. -/
structure Blk where
  pidx : Nat
  notaries : List Nat
  txs : List TxFee
  body : List Op

def Blk.ops (b : Blk) (idx : Nat) : List Op :=
  [.block idx, .onPersist b.pidx b.notaries b.txs] ++ b.body ++ [.postPersist]

/-- the body holds transaction-level operations only. -/
def Blk.ok (b : Blk) : Prop := ∀ op ∈ b.body, op.inner = true

/-- consecutive blocks on top of the state `s`. -/
def runChain (s : St) : List Blk → St
  | [] => s
  | b :: bs => runChain (run s (b.ops (s.env.index + 1))) bs

/-- the state between two blocks (after a PostPersist): the cache is coherent, and at the end of an epoch it is fresh
whatever the flag says. -/
structure Bnd (e0 : Env) (s : St) : Prop where
  cfg : sameCfg e0 s.env
  coh : Coh e0 s.cur
  snapEq : s.snap = s.cur
  epochEnd : e0.csize ≠ 0 → (s.env.index + 1) % e0.csize = 0 → Fresh e0 s.cur

theorem step_panicked (s : St) (op : Op) (h : s.panicked = true) : (step s op).panicked = true := by
  unfold step
  split
  · (repeat' split) <;> exact h
  · split
    · exact h
    · cases op <;> simp only [exec, St.throw, St.done, afterPosted] <;> (repeat' split) <;> first | exact h | rfl

theorem run_panicked (s : St) (ops : List Op) (h : s.panicked = true) : (run s ops).panicked = true := by
  induction ops generalizing s with
  | nil => exact h
  | cons op rest ih => exact ih (step s op) (step_panicked s op h)

theorem step_cfg (e0 : Env) (s : St) (op : Op) (h : sameCfg e0 s.env) : sameCfg e0 (step s op).env := by
  unfold step
  split
  · (repeat' split) <;> exact h
  · split
    · exact h
    · cases op <;> simp only [exec, St.throw, St.done, afterPosted] <;> (repeat' split) <;> exact h

theorem run_cfg (e0 : Env) (s : St) (ops : List Op) (h : sameCfg e0 s.env) : sameCfg e0 (run s ops).env := by
  induction ops generalizing s with
  | nil => exact h
  | cons op rest ih => exact ih (step s op) (step_cfg e0 s op h)

theorem step_index (s : St) (op : Op) (hop : op.inner = true) : (step s op).env.index = s.env.index := by
  unfold step
  split
  · (repeat' split) <;> rfl
  · split
    · rfl
    · cases op <;> simp only [exec, St.throw, St.done, afterPosted] <;> (repeat' split) <;> first | rfl | (simp [Op.inner] at hop)

theorem run_index (s : St) (ops : List Op) (hop : ∀ op ∈ ops, op.inner = true) : (run s ops).env.index = s.env.index := by
  induction ops generalizing s with
  | nil => rfl
  | cons op rest ih =>
    exact (ih (step s op) (fun o ho => hop o (List.mem_cons_of_mem _ ho))).trans (step_index s op (hop op (List.mem_cons_self ..)))

/-- the epoch switch: the committee that takes office is the cached one, which is the election result. -/
theorem block_bnd (e0 : Env) (s : St) (hb : Bnd e0 s) :
    let s' := step s (.block (s.env.index + 1))
    sameCfg e0 s'.env ∧ s'.env.index = s.env.index + 1 ∧ Coh e0 s'.cur ∧ Coh e0 s'.snap ∧ s'.panicked = s.panicked ∧
    (e0.csize ≠ 0 → (s.env.index + 1) % e0.csize = 0 →
      s'.cur.committee = s.cur.neCommittee ∧ s'.cur.nextVals = s.cur.neVals ∧
      computeCommittee e0 s.cur = some s'.cur.committee ∧ valsOf e0 s'.cur.committee = some s'.cur.nextVals) := by
  have hstep : step s (.block (s.env.index + 1)) = exec s (.block (s.env.index + 1)) := step_eq_exec _ _ rfl
  simp only [hstep, exec]
  obtain ⟨c1, c2, c3, c4, c5⟩ := hb.cfg
  refine ⟨⟨c1, c2, c3, c4, c5⟩, trivial, ?_⟩
  have key : Coh e0 (neoOnPersist { s.env with index := s.env.index + 1 } { s.cur with events := [] }) ∧
      (e0.csize ≠ 0 → (s.env.index + 1) % e0.csize = 0 →
        (neoOnPersist { s.env with index := s.env.index + 1 } { s.cur with events := [] }).committee = s.cur.neCommittee ∧
        (neoOnPersist { s.env with index := s.env.index + 1 } { s.cur with events := [] }).nextVals = s.cur.neVals ∧
        computeCommittee e0 s.cur = some (neoOnPersist { s.env with index := s.env.index + 1 } { s.cur with events := [] }).committee ∧
        valsOf e0 (neoOnPersist { s.env with index := s.env.index + 1 } { s.cur with events := [] }).committee =
          some (neoOnPersist { s.env with index := s.env.index + 1 } { s.cur with events := [] }).nextVals) := by
    unfold neoOnPersist
    simp only [c2]
    split
    · rename_i hc
      have hf := hb.epochEnd hc.1 hc.2
      refine ⟨fun _ => ?_, fun _ _ => ⟨rfl, rfl, hf.1, hf.2⟩⟩
      exact ⟨(computeCommittee_congr e0 s.cur _ rfl rfl rfl rfl).trans hf.1, hf.2⟩
    · rename_i hc
      refine ⟨fun hfl => ?_, fun h1 h2 => absurd ⟨h1, h2⟩ hc⟩
      have hf := hb.coh hfl
      exact ⟨(computeCommittee_congr e0 s.cur _ rfl rfl rfl rfl).trans hf.1, hf.2⟩
  exact ⟨key.1, key.1, trivial, key.2⟩

/-- PostPersist (not skipped by assumption A1, not panicking) leaves a boundary state. -/
theorem postPersist_bnd (e0 : Env) (s : St) (hcfg : sameCfg e0 s.env) (hcoh : Coh e0 s.cur)
    (hA : ∀ k, acctOf e0 k ≠ e0.notary) (hnp : (step s .postPersist).panicked = false) :
    Bnd e0 (step s .postPersist) := by
  have hstep : step s .postPersist = exec s .postPersist := step_eq_exec _ _ rfl
  rw [hstep] at hnp ⊢
  obtain ⟨c1, c2, c3, c4, c5⟩ := hcfg
  have hacct : ∀ k, acctOf s.env k = acctOf e0 k := fun k => by unfold acctOf; rw [c4]
  simp only [exec] at hnp ⊢
  rw [if_neg] at hnp ⊢
  rotate_left
  · simp only [List.any_eq_true, not_exists, not_and, decide_eq_true_eq]
    intro c _; rw [hacct, c5]; exact hA c.1
  · simp only [List.any_eq_true, not_exists, not_and, decide_eq_true_eq]
    intro c _; rw [hacct, c5]; exact hA c.1
  cases hpp : neoPostPersistAll s.env s.cur with
  | none => simp [hpp] at hnp
  | some l =>
    simp only []
    refine ⟨⟨c1, c2, c3, c4, c5⟩, ?_, rfl, ?_⟩
    all_goals
      unfold neoPostPersistAll at hpp
      cases hq : neoPostPersist s.env s.cur (s.cur.committee.map (fun c => (c.1, acctOf s.env c.1, c.2))) with
      | none => simp [hq] at hpp
      | some l1 =>
        simp only [hq] at hpp
        have hc1 : Coh e0 l1 := hcoh.step (neoPostPersist_ef _ _ _ _ hq) (neoPostPersist_frame _ _ _ _ hq)
        have hfresh : ∀ l', updateNewEpoch s.env l1 = some l' → Fresh e0 l' := fun l' hu =>
          (updateNewEpoch_fresh s.env l1 l' hu).cfg ⟨c1.symm, c2.symm, c3.symm, c4.symm, c5.symm⟩
        first
        | (-- Coh
           split at hpp
           · split at hpp
             · exact fun _ => hfresh l hpp
             · injection hpp with hpp; subst hpp; exact hc1
           · injection hpp with hpp; subst hpp; exact hc1)
        | (-- epoch end
           intro h0 hend
           rw [← c2] at hend h0
           rw [if_pos ⟨h0, hend⟩] at hpp
           split at hpp
           · exact hfresh l hpp
           · rename_i hno
             injection hpp with hpp; subst hpp
             exact hc1 (by
               cases hfl : l1.votesChanged with
               | false => rfl
               | true => exact absurd (Or.inl hfl) hno))

theorem run_append (s : St) (a b : List Op) : run s (a ++ b) = run (run s a) b := by
  unfold run; rw [List.foldl_append]

theorem postPersist_index (s : St) : (step s .postPersist).env.index = s.env.index := by
  have hstep : step s .postPersist = exec s .postPersist := step_eq_exec _ _ rfl
  rw [hstep]; simp only [exec]; (repeat' split) <;> rfl

/-- one whole block takes a boundary state to a boundary state. -/
theorem blk_bnd {nt : Nat} (e0 : Env) (s : St) (b : Blk) (hm : MInv nt s) (hb : Bnd e0 s) (hok : b.ok)
    (hA : ∀ k, acctOf e0 k ≠ e0.notary) (hnp : (run s (b.ops (s.env.index + 1))).panicked = false) :
    Bnd e0 (run s (b.ops (s.env.index + 1))) ∧ MInv nt (run s (b.ops (s.env.index + 1))) ∧
    (run s (b.ops (s.env.index + 1))).env.index = s.env.index + 1 := by
  have hops : b.ops (s.env.index + 1) =
      [.block (s.env.index + 1)] ++ ((.onPersist b.pidx b.notaries b.txs :: b.body) ++ [.postPersist]) := by
    simp [Blk.ops]
  rw [hops, run_append, run_append] at hnp ⊢
  have h1 : run s [.block (s.env.index + 1)] = step s (.block (s.env.index + 1)) := rfl
  rw [h1] at hnp ⊢
  obtain ⟨b1, b2, b3, b4, _, _⟩ := block_bnd e0 s hb
  have hm1 := step_inv s (.block (s.env.index + 1)) hm
  have hin : ∀ op ∈ (.onPersist b.pidx b.notaries b.txs :: b.body : List Op), op.inner = true := by
    intro op hop
    rcases List.mem_cons.mp hop with e | hop'
    · subst e; rfl
    · exact hok op hop'
  generalize hs1 : step s (.block (s.env.index + 1)) = s1 at *
  have hc2 := run_pres (Coh e0) (fun l l' h f g => h.step g f) s1 _ hm1 hin ⟨b3, b4⟩
  have hcfg2 := run_cfg e0 s1 (.onPersist b.pidx b.notaries b.txs :: b.body) b1
  have hidx2 := run_index s1 _ hin
  have hm2 := run_inv s1 (.onPersist b.pidx b.notaries b.txs :: b.body) hm1
  generalize hs2 : run s1 (.onPersist b.pidx b.notaries b.txs :: b.body) = s2 at *
  have h3 : run s2 [.postPersist] = step s2 .postPersist := rfl
  rw [h3] at hnp ⊢
  refine ⟨postPersist_bnd e0 s2 hcfg2 hc2.1 hA hnp, step_inv s2 _ hm2, ?_⟩
  rw [postPersist_index, hidx2, b2]

theorem runChain_panicked (t : St) (bs : List Blk) (hp : t.panicked = true) : (runChain t bs).panicked = true := by
  induction bs generalizing t with
  | nil => exact hp
  | cons b r ih => simp only [runChain]; exact ih _ (run_panicked t _ hp)

/-- `chain_coherent`: along any chain of well-formed blocks that does not stop the node, every state between two
blocks is a boundary state. -/
theorem chain_bnd {nt : Nat} (e0 : Env) (s : St) (bs : List Blk) (hm : MInv nt s) (hb : Bnd e0 s)
    (hok : ∀ b ∈ bs, b.ok) (hA : ∀ k, acctOf e0 k ≠ e0.notary) (hnp : (runChain s bs).panicked = false) :
    Bnd e0 (runChain s bs) ∧ MInv nt (runChain s bs) := by
  induction bs generalizing s with
  | nil => exact ⟨hb, hm⟩
  | cons b rest ih =>
    simp only [runChain] at hnp ⊢
    have hnp1 : (run s (b.ops (s.env.index + 1))).panicked = false := by
      cases hp : (run s (b.ops (s.env.index + 1))).panicked with
      | false => rfl
      | true =>
        have := runChain_panicked _ rest hp
        rw [this] at hnp; cases hnp
    obtain ⟨hb1, hm1, _⟩ := blk_bnd e0 s b hm hb (hok b (List.mem_cons_self ..)) hA hnp1
    exact ih _ hm1 hb1 (fun b' hb' => hok b' (List.mem_cons_of_mem _ hb')) hnp

/-! ### genesis -/

theorem mintGas_sameIn (l l' : Ledger) (h : Nat) (amt : Int) (hr : mintGas l h amt = some l') : sameIn l l' := by
  unfold mintGas at hr
  split at hr
  · injection hr with hr; subst hr; exact ⟨rfl, rfl, rfl, rfl, rfl⟩
  · cases hg : gasAddTokens l h amt with
    | none => simp [hg] at hr
    | some l1 =>
      simp [hg] at hr; subst hr
      unfold gasAddTokens at hg
      simp only [] at hg
      split at hg
      · injection hg with hg; subst hg
        refine ⟨?_, ?_, ?_, ?_, ?_⟩ <;> simp [addEvent, gasInc_l]
      · simp at hg

theorem genesis_fresh (e : Env) (h : Nat) (gasInit : Int) (l : Ledger) (hg : genesis e h gasInit = some l) : Fresh e l := by
  unfold genesis at hg
  simp only [] at hg
  split at hg
  · simp at hg
  · unfold genesisFrom at hg
    split at hg
    · simp at hg
    · rename_i l1 _
      split at hg
      · simp at hg
      · rename_i l2 hu
        have f2 : Fresh e l2 := (updateNewEpoch_fresh _ l1 l2 hu).cfg ⟨rfl, rfl, rfl, rfl, rfl⟩
        have f3 : Fresh e (neoOnPersist { e with index := 0 } l2) := by
          unfold neoOnPersist
          split
          · exact ⟨(computeCommittee_congr e l2 _ rfl rfl rfl rfl).trans f2.1, f2.2⟩
          · exact f2
        exact f3.transport (mintGas_sameIn _ _ _ _ hg) (mintGas_frame _ _ _ _ hg).1

/-- the state after block 0 is a boundary state. -/
theorem genesis_bnd (e : Env) (h : Nat) (gasInit : Int) (l : Ledger) (hg : genesis e h gasInit = some l)
    (hA : ∀ k, acctOf e k ≠ e.notary) (hnp : (step (initSt e l) .postPersist).panicked = false) :
    Bnd e (step (initSt e l) .postPersist) :=
  postPersist_bnd e (initSt e l) ⟨rfl, rfl, rfl, rfl, rfl⟩ (fun _ => genesis_fresh e h gasInit l hg) hA hnp

end NeoModel.Tokens
