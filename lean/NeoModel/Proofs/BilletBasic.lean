/-
C20 (b) helper lemmas for the billet model (Model/Billet.lean): what a billet represents (`Rep`), positions
below a position, the walk of `putIntoNode` as a relation (`Reach`).
-/
import NeoModel.Model.Billet
import NeoModel.Proofs.StateSyncClean
namespace NeoModel.StateSync

variable (db : Hash → Option SNode) (root : Hash)

/-- Local shape of the nodes of the table (what every MPT node looks like in this representation): a leaf
has no children, another node has some; an extension has one child under a non-empty key (`kindOf`); the
children of a branch sit under pairwise different relative paths `[]` (the value child, a leaf) or `[i]`. -/
structure Shaped : Prop where
  leaf : ∀ h n, db h = some n → n.val.isSome = true → n.kids = []
  inner : ∀ h n, db h = some n → n.val = none → n.kids ≠ []
  rels : ∀ h n, db h = some n → kindOf n = .branch → (n.kids.map (·.1)).Nodup ∧ ∀ k ∈ n.kids, k.1.length ≤ 1
  valueKid : ∀ h n k m, db h = some n → kindOf n = .branch → k ∈ n.kids → k.1 = [] → db k.2 = some m → m.kids = []

/-- `y` is `x` or lies below it in the trie. -/
inductive Below : (Hash × Path) → (Hash × Path) → Prop
  | refl (x) : Below x x
  | step {x y z} : Below x y → IsKidOf db z y → Below x z

theorem Below.head {x k d : Hash × Path} (hk : IsKidOf db k x) (h : Below db k d) : Below db x d := by
  induction h with
  | refl => exact .step (.refl _) hk
  | step _ hz ih => exact .step ih hz

theorem Below.trans {x y z : Hash × Path} (a : Below db x y) (b : Below db y z) : Below db x z := by
  induction b with
  | refl => exact a
  | step _ hz ih => exact .step ih hz

theorem Below.pos {x y : Hash × Path} (h : Below db x y) (hx : Pos db root x.1 x.2) : Pos db root y.1 y.2 := by
  induction h with
  | refl => exact hx
  | step _ hz ih =>
    obtain ⟨n, k, hn, hk, rfl⟩ := hz
    exact Pos.kid ih hn hk

theorem Below.rank (rk : Hash → Nat) (hrk : Ranked db rk) {x y : Hash × Path} (h : Below db x y) :
    y = x ∨ rk y.1 < rk x.1 := by
  induction h with
  | refl => exact .inl rfl
  | step _ hz ih =>
    obtain ⟨n, k, hn, hk, rfl⟩ := hz
    have := hrk _ n k hn hk
    rcases ih with rfl | ih
    · exact .inr this
    · right; simp only; omega

/-- Either `y` is `x` or it lies below a child of `x`. -/
theorem Below.cases_head {x y : Hash × Path} (h : Below db x y) :
    y = x ∨ ∃ k, IsKidOf db k x ∧ Below db k y := by
  induction h with
  | refl => exact .inl rfl
  | @step y' z _ hz ih =>
    rcases ih with rfl | ⟨k, hk, hb⟩
    · exact .inr ⟨z, hz, .refl _⟩
    · exact .inr ⟨k, hk, .step hb hz⟩

theorem Below.cases_tail {x z : Hash × Path} (h : Below db x z) :
    z = x ∨ ∃ y, Below db x y ∧ IsKidOf db z y := by
  cases h with
  | refl => exact .inl rfl
  | step hy hz => exact .inr ⟨_, hy, hz⟩

/-- The ancestors of a position form a chain. -/
theorem Below.chain (wf : WF db root) {a b x : Hash × Path} (ha : Pos db root a.1 a.2) (hb : Pos db root b.1 b.2)
    (h1 : Below db a x) (h2 : Below db b x) : Below db a b ∨ Below db b a := by
  induction h1 generalizing b with
  | refl => exact .inr h2
  | @step y z h1' hz ih =>
    rcases Below.cases_tail db h2 with rfl | ⟨y', h2', hz'⟩
    · exact .inl (.step h1' hz)
    ·
      obtain ⟨n, k, hn, hk, he⟩ := hz
      obtain ⟨n', k', hn', hk', he'⟩ := hz'
      have := wf.uniqueParent y.1 y.2 n k y'.1 y'.2 n' k' (h1'.pos db root ha) (h2'.pos db root hb) hn hn' hk hk'
        (by rw [← he, ← he'])
      have hy : y = y' := Prod.ext this.1 this.2
      subst hy
      exact ih hb h2'

/-- Two different children of one node have disjoint subtrees. -/
theorem siblings_disjoint (wf : WF db root) (rk : Hash → Nat) (hrk : Ranked db rk) {h : Hash} {p : Path}
    {n : SNode} (hp : Pos db root h p) (hn : db h = some n) {k k' : Path × Hash} (hk : k ∈ n.kids)
    (hk' : k' ∈ n.kids) (hne : (k.2, p ++ k.1) ≠ (k'.2, p ++ k'.1)) {x : Hash × Path}
    (h1 : Below db (k.2, p ++ k.1) x) (h2 : Below db (k'.2, p ++ k'.1) x) : False := by
  have pk : Pos db root (k.2, p ++ k.1).1 (k.2, p ++ k.1).2 := Pos.kid hp hn hk
  have pk' : Pos db root (k'.2, p ++ k'.1).1 (k'.2, p ++ k'.1).2 := Pos.kid hp hn hk'
  -- if one sibling lies below the other, the common parent lies below the upper sibling
  have key : ∀ (a b : Path × Hash), a ∈ n.kids → b ∈ n.kids → (a.2, p ++ a.1) ≠ (b.2, p ++ b.1) →
      Below db (a.2, p ++ a.1) (b.2, p ++ b.1) → False := by
    intro a b ha hb hab hbel
    rcases Below.cases_tail db hbel with e | ⟨y, hy, hz⟩
    · exact hab e.symm
    · obtain ⟨n2, k2, hn2, hk2, he⟩ := hz
      have py : Pos db root y.1 y.2 := hy.pos db root (Pos.kid hp hn ha)
      have := wf.uniqueParent h p n b y.1 y.2 n2 k2 hp py hn hn2 hb hk2 he
      have hyp : y = (h, p) := Prod.ext this.1.symm this.2.symm
      subst hyp
      rcases hy.rank db rk hrk with e | e
      · have := hrk h n a hn ha
        have e1 : h = a.2 := congrArg Prod.fst e
        have e2 : rk h = rk a.2 := congrArg rk e1
        omega
      · have := hrk h n a hn ha
        have e' : rk h < rk a.2 := e
        omega
  rcases Below.chain db root wf pk pk' h1 h2 with hb | hb
  · exact key k k' hk hk' hne hb
  · exact key k' k hk' hk (fun e => hne e.symm) hb

/-- The walk of `putIntoNode`: starting at a position and consuming `path` through restored nodes one
arrives at the position `x`. -/
inductive Reach (D : List (Hash × Path)) : (Hash × Path) → Path → (Hash × Path) → Prop
  | here (x) : Reach D x [] x
  | down {h p n k rest x} : (h, p) ∈ D → db h = some n → k ∈ n.kids →
      Reach D (k.2, p ++ k.1) rest x → Reach D (h, p) (k.1 ++ rest) x

theorem Reach.toBelow {D : List (Hash × Path)} {a : Hash × Path} {path : Path} {x : Hash × Path}
    (h : Reach db D a path x) : Below db a x := by
  induction h with
  | here => exact .refl _
  | down _ hn hk _ ih => exact Below.head db ⟨_, _, hn, hk, rfl⟩ ih

theorem Reach.target {D : List (Hash × Path)} {a : Hash × Path} {path : Path} {x : Hash × Path}
    (h : Reach db D a path x) : x.2 = a.2 ++ path := by
  induction h with
  | here => simp
  | down _ _ _ _ ih => rw [ih]; simp

theorem Reach.mono {D D' : List (Hash × Path)} (hs : ∀ y ∈ D, y ∈ D') {a : Hash × Path} {path : Path}
    {x : Hash × Path} (h : Reach db D a path x) : Reach db D' a path x := by
  induction h with
  | here => exact .here _
  | down hd hn hk _ ih => exact .down (hs _ hd) hn hk ih

theorem Reach.snoc {D : List (Hash × Path)} {a : Hash × Path} {path : Path} {y : Hash × Path}
    (h : Reach db D a path y) (hy : y ∈ D) {n : SNode} {k : Path × Hash} (hn : db y.1 = some n) (hk : k ∈ n.kids) :
    Reach db D a (path ++ k.1) (k.2, y.2 ++ k.1) := by
  induction h with
  | here x =>
    have := Reach.down (D := D) (db := db) (h := x.1) (p := x.2) (rest := []) (x := (k.2, x.2 ++ k.1)) hy hn hk (.here _)
    simpa using this
  | down hd hn' hk' _ ih =>
    have := Reach.down hd hn' hk' (ih hy hn)
    simpa [List.append_assoc] using this

/-- What a set of restored positions looks like: positions of the trie, closed towards the root. -/
structure DOK (D : List (Hash × Path)) : Prop where
  pos : ∀ x ∈ D, Pos db root x.1 x.2
  par : ∀ x ∈ D, x = (root, []) ∨ ∃ y ∈ D, IsKidOf db x y

/-- `x` can be restored next: a position that is not restored whose parent is (or the root). -/
structure Pending (D : List (Hash × Path)) (x : Hash × Path) : Prop where
  pos : Pos db root x.1 x.2
  fresh : x ∉ D
  par : x = (root, []) ∨ ∃ y ∈ D, IsKidOf db x y

theorem reach_of_done (wf : WF db root) {D : List (Hash × Path)} (hd : DOK db root D) :
    ∀ h p, Pos db root h p → (h, p) ∈ D → Reach db D (root, []) p (h, p) := by
  intro h p hp
  induction hp with
  | root => intro _; exact .here _
  | kid hpar hn hk ih =>
    rename_i h' p' n' k'
    intro hin
    have hparent : (h', p') ∈ D := by
      rcases hd.par _ hin with hr | ⟨y, hy, n2, k2, hn2, hk2, he⟩
      · exact absurd hr (wf.rootNotKid h' p' n' k' hpar hn hk)
      · have := wf.uniqueParent h' p' n' k' y.1 y.2 n2 k2 hpar (hd.pos _ hy) hn hn2 hk hk2 he
        have : y = (h', p') := Prod.ext this.1.symm this.2.symm
        rw [← this]; exact hy
    exact (ih hparent).snoc db hparent hn hk

theorem reach_of_pending (wf : WF db root) {D : List (Hash × Path)} (hd : DOK db root D) {x : Hash × Path}
    (hx : Pending db root D x) : Reach db D (root, []) x.2 x := by
  rcases hx.par with rfl | ⟨y, hy, n, k, hn, hk, rfl⟩
  · exact .here _
  · exact (reach_of_done db root wf hd y.1 y.2 (hd.pos _ hy) hy).snoc db hy hn hk

theorem dok_snoc {D : List (Hash × Path)} (hd : DOK db root D) {x : Hash × Path} (hx : Pending db root D x) :
    DOK db root (D ++ [x]) := by
  constructor
  · intro y hy
    rcases List.mem_append.1 hy with h | h
    · exact hd.pos _ h
    · simp at h; subst h; exact hx.pos
  · intro y hy
    rcases List.mem_append.1 hy with h | h
    · rcases hd.par _ h with h1 | ⟨z, hz, hk⟩
      · exact .inl h1
      · exact .inr ⟨z, List.mem_append.2 (.inl hz), hk⟩
    · simp at h; subst h
      rcases hx.par with h1 | ⟨z, hz, hk⟩
      · exact .inl h1
      · exact .inr ⟨z, List.mem_append.2 (.inl hz), hk⟩

/-- A child of a position that is not restored is not restored. -/
theorem kid_fresh (wf : WF db root) {D : List (Hash × Path)} (hd : DOK db root D) {h : Hash} {p : Path}
    {n : SNode} (hp : Pos db root h p) (hn : db h = some n) {k : Path × Hash} (hk : k ∈ n.kids)
    (hf : (h, p) ∉ D) : (k.2, p ++ k.1) ∉ D := by
  intro hin
  rcases hd.par _ hin with hr | ⟨y, hy, n2, k2, hn2, hk2, he⟩
  · exact wf.rootNotKid h p n k hp hn hk hr
  · have := wf.uniqueParent h p n k y.1 y.2 n2 k2 hp (hd.pos _ hy) hn hn2 hk hk2 he
    have : y = (h, p) := Prod.ext this.1.symm this.2.symm
    exact hf (this ▸ hy)

end NeoModel.StateSync
