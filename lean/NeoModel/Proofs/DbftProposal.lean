/-
C19 helper proofs: a proposal a backup answered is a block AddBlock accepts (Model/DbftProposal.lean over
Model/AddBlock.lean), and the one exception.
-/
import NeoModel.Model.DbftProposal
namespace NeoModel.Dbft.Proposal
open NeoModel.AddBlock

variable {L : Type}

/-- `u` and `t` do not name each other in a Conflicts attribute -/
def NoRef2 (u t : Tx) : Prop := t.id ∉ u.conflicts ∧ u.id ∉ t.conflicts

/-- an addition that conflicts with nothing pooled appends the transaction -/
theorem poolAdd_append (bal : Nat → Nat) (p p' : List Tx) (t : Tx)
    (h : poolAdd bal p t = some p') (hn : ∀ u ∈ p, NoRef2 u t) : p' = p ++ [t] := by
  have hc1 : namedBy p t = [] := by
    unfold namedBy
    rw [List.filter_eq_nil_iff]
    intro q hq hc
    exact (hn q hq).1 (by simpa using hc)
  have hc2 : namesOf p t = [] := by
    unfold namesOf
    rw [List.filter_eq_nil_iff]
    intro q hq hc
    exact (hn q hq).2 (by simpa using hc)
  unfold poolAdd at h
  split at h; · cases h
  split at h; · cases h
  split at h; · cases h
  split at h; · cases h
  split at h; · cases h
  simp only [Option.some.injEq] at h
  subst h
  congr 1
  rw [List.filter_eq_self]
  intro q _
  simp [evicted, hc1, hc2]

/-- the sequence of scratch-pool additions both loops perform -/
def seqAdd (bal : Nat → Nat) : List Tx → List Tx → Option (List Tx)
  | p, [] => some p
  | p, t :: rest =>
    match poolAdd bal p t with
    | some p' => seqAdd bal p' rest
    | none => none

/-- what `verifyBlock`'s loop establishes -/
theorem vbLoop_spec (env : Env L) (s : Node L) (p ts : List Tx) (h : vbLoop env s p ts = true) :
    (seqAdd (env.balance s.ledger) p ts).isSome ∧
    ∀ t ∈ ts, s.pool.any (fun q => q.id == t.id) = true ∨ env.txValid s.ledger s.blockHeight t = true := by
  induction ts generalizing p with
  | nil => simp [seqAdd]
  | cons t rest ih =>
    unfold vbLoop at h
    simp only at h
    split at h
    · rename_i p' hr
      have hadd : poolAdd (env.balance s.ledger) p t = some p' ∧
          (s.pool.any (fun q => q.id == t.id) = true ∨ env.txValid s.ledger s.blockHeight t = true) := by
        split at hr
        · exact ⟨hr, Or.inl (by assumption)⟩
        · split at hr
          · exact ⟨hr, Or.inr (by assumption)⟩
          · cases hr
      obtain ⟨h1, h2⟩ := ih p' h
      refine ⟨?_, ?_⟩
      · unfold seqAdd; rw [hadd.1]; exact h1
      · intro u hu
        rcases List.mem_cons.mp hu with rfl | hu
        · exact hadd.2
        · exact h2 u hu
    · cases h

/-- AddBlock's loop on ANY node with this ledger accepts a list whose additions all succeed, whose
members do not conflict with one another, and each of which is either pooled there with the same witnesses
or passes stand-alone verification -/
theorem txLoop_of_seqAdd (env : Env L) (t' : Node L) (p ts : List Tx)
    (hs : (seqAdd (env.balance t'.ledger) p ts).isSome)
    (hv : ∀ t ∈ ts, pooledSame t' t = true ∨ env.txValid t'.ledger t'.blockHeight t = true)
    (hn : ∀ t ∈ ts, (∀ u ∈ p, NoRef2 u t) ∧ ∀ u ∈ ts, NoRef2 u t) :
    txLoop env t' p ts = true := by
  induction ts generalizing p with
  | nil => simp [txLoop]
  | cons t rest ih =>
    unfold seqAdd at hs
    cases hadd : poolAdd (env.balance t'.ledger) p t with
    | none => rw [hadd] at hs; cases hs
    | some p' =>
      rw [hadd] at hs
      have happ : p' = p ++ [t] := poolAdd_append _ p p' t hadd (hn t (List.mem_cons_self)).1
      have hr : (if pooledSame t' t then poolAdd (env.balance t'.ledger) p t
          else if env.txValid t'.ledger t'.blockHeight t then poolAdd (env.balance t'.ledger) p t else none) = some p' := by
        rcases hv t (List.mem_cons_self) with h | h
        · simp [h, hadd]
        · by_cases hp : pooledSame t' t = true
          · simp [hp, hadd]
          · simp [hp, h, hadd]
      unfold txLoop
      simp only [hr]
      have hl : p'.length = p.length + 1 := by rw [happ]; simp
      simp only [hl, beq_self_eq_true, if_true]
      apply ih p' hs
      · intro u hu; exact hv u (List.mem_cons_of_mem _ hu)
      · intro u hu
        refine ⟨?_, ?_⟩
        · intro w hw
          rw [happ] at hw
          rcases List.mem_append.mp hw with hw | hw
          · exact (hn u (List.mem_cons_of_mem _ hu)).1 w hw
          · simp only [List.mem_singleton] at hw
            subst hw
            exact (hn u (List.mem_cons_of_mem _ hu)).2 _ (List.mem_cons_self)
        · intro w hw
          exact (hn u (List.mem_cons_of_mem _ hu)).2 w (List.mem_cons_of_mem _ hw)

theorem conflictFree_noref (txs : List Tx) (hf : ConflictFree txs) :
    ∀ t ∈ txs, (∀ u ∈ ([] : List Tx), NoRef2 u t) ∧ ∀ u ∈ txs, NoRef2 u t := by
  intro t ht
  constructor
  · intro u hu; cases hu
  · intro u hu
    exact ⟨hf t ht u hu, hf u hu t ht⟩

/-- C19 core lemma: the transactions of a proposal a backup answered pass AddBlock's transaction loop on
every node `t'` that has the backup's ledger, provided they do not conflict with one another and the
backup's mempool shortcut is sound. -/
theorem backup_txs_pass (env : Env L) (s t' : Node L) (txs : List Tx)
    (hvb : vbLoop env s [] txs = true) (hf : ConflictFree txs) (hpv : PoolValid env s)
    (hown : ∀ t ∈ txs, ∀ q ∈ s.pool, q.id = t.id → q = t)
    (hl : t'.ledger = s.ledger) (hb : t'.blockHeight = s.blockHeight) :
    txLoop env t' [] txs = true := by
  obtain ⟨h1, h2⟩ := vbLoop_spec env s [] txs hvb
  apply txLoop_of_seqAdd env t' [] txs
  · rw [hl]; exact h1
  · intro t ht
    right
    rw [hl, hb]
    rcases h2 t ht with h | h
    · rw [List.any_eq_true] at h
      obtain ⟨q, hq, hid⟩ := h
      have : q = t := hown t ht q hq (by simpa using hid)
      subst this
      exact hpv q hq
    · exact h
  · exact conflictFree_noref txs hf

/-- the transaction loop does not look at the header list -/
theorem txLoop_headers (env : Env L) (t' : Node L) (hs : List Header) (p ts : List Tx) :
    txLoop env { t' with headers := hs } p ts = txLoop env t' p ts := by
  induction ts generalizing p with
  | nil => simp [txLoop]
  | cons t rest ih =>
    unfold txLoop
    simp only [pooledSame, ih]
    rfl

/-- AddBlock accepts a block that extends the tip, whose header passes `verifyHeader` against the tip,
whose Merkle root is right, that has no duplicate transaction, whose transactions pass the loop and whose
execution succeeds (nothing is known ahead of the tip). -/
theorem addBlock_ok (env : Env L) (t' : Node L) (b : Block) (top : Header)
    (hidx : b.hdr.index = t'.blockHeight + 1) (hsre : t'.cfg.sr = b.hdr.sre)
    (hne : t'.headers ≠ []) (hhh : t'.headerHeight = t'.blockHeight)
    (hlook : t'.lookup b.hdr.prevHash = some top) (hvh : verifyHeader env t' b.hdr top = none)
    (hm : b.hdr.merkleRoot = env.merkle (b.txs.map (·.id))) (hnd : hasDup (b.txs.map (·.id)) = false)
    (htx : txLoop env t' [] b.txs = true) (hprim : b.hdr.primary < env.nvals)
    (happly : (env.apply t'.ledger b).isSome) :
    (addBlock env t' b).2 = none := by
  have hlen : t'.headers.length = t'.blockHeight + 1 := by
    unfold Node.headerHeight at hhh
    cases hx : t'.headers with
    | nil => exact absurd hx hne
    | cons a l => rw [hx] at hhh; simp at hhh ⊢; omega
  obtain ⟨l', hl'⟩ := Option.isSome_iff_exists.mp happly
  have hidx' : (b.hdr.index == t'.headerHeight + 1) = true := by simp [hhh, hidx]
  have hnle : ¬ (b.hdr.index ≤ t'.headerHeight) := by omega
  have hdw : List.dropWhile (fun h : Header => decide (h.index ≤ t'.headerHeight)) [b.hdr] = [b.hdr] := by
    simp [List.dropWhile, hnle]
  have happ : appendHeaders t'.headers [b.hdr] = t'.headers ++ [b.hdr] := by
    simp [appendHeaders, hidx, hlen]
  have hah : addHeaders env t' (!t'.cfg.skip) [b.hdr] = ({ t' with headers := t'.headers ++ [b.hdr] }, none) := by
    unfold addHeaders
    simp only [hdw, hlook, happ]
    cases t'.cfg.skip <;> simp [verifyChain, hvh]
  have hno : nextHeaderOK env { t' with headers := t'.headers ++ [b.hdr] } b.hdr.index l' = true := by
    unfold nextHeaderOK Node.headerHeight
    simp [hlen, hidx]
  unfold addBlock
  have h1 : (t'.blockHeight + 1 != b.hdr.index) = false := by simp [hidx]
  have h2 : (t'.cfg.sr != b.hdr.sre) = false := by simp [hsre]
  simp only [h1, h2, Bool.false_eq_true, if_false]
  unfold headerStep
  simp only [hidx', if_true, hah]
  unfold bodyStep
  simp only [txLoop_headers, htx, hnd, hm, bne_self_eq_false, Bool.and_false, Bool.not_true, Bool.false_eq_true, if_false]
  unfold storeBlock
  have hpo : primaryOK env b = true := by simp [primaryOK, hprim]
  simp only [hpo, Bool.not_true, Bool.false_eq_true, if_false, hl', hno, if_true]

/-- C19 (committed_block_valid, the ledger's side): a proposal a backup answered, assembled into a block
with the header `newBlockFromContext` builds and a witness signed for the consensus address of the previous
block, is ACCEPTED by `AddBlock` on every node `t'` with the same ledger, headers and configuration —
whatever its own mempool holds — provided the proposal's transactions do not conflict with one another
(see `conflicting_proposal_accepted_by_backup` for why this is needed), the backup's mempool shortcut is
sound (a pooled transaction would pass verification now; C06 `stale_pooled_tx_accepted` is the known
exception), nothing is known ahead of the tip, and execution of the block does not fail. -/
theorem answered_proposal_accepted (env : Env L) (s t' : Node L) (lim : Limits) (top : Header) (lastTs : Nat)
    (r : Req) (hash nc wit primary : Nat) (hprim : primary < env.nvals)
    (hacc : backupAccepts env s lim top lastTs r = true)
    (hf : ConflictFree r.txs) (hpv : PoolValid env s)
    (hown : ∀ t ∈ r.txs, ∀ q ∈ s.pool, q.id = t.id → q = t)
    -- the ledger's tip
    (hne : s.headers ≠ []) (hhh : s.headerHeight = s.blockHeight)
    (hlook : s.lookup top.hash = some top) (htopi : top.index = s.blockHeight) (hlast : top.ts ≤ lastTs)
    -- the witness assembled from the Commits verifies for the consensus address the tip designates
    (hsig : env.signedBy wit hash top.nextConsensus = true)
    (happly : (env.apply s.ledger (blockOf env s top r hash nc wit primary)).isSome)
    -- the other node
    (hc : t'.cfg = s.cfg) (hl : t'.ledger = s.ledger) (hb : t'.blockHeight = s.blockHeight)
    (hh : t'.headers = s.headers) :
    (addBlock env t' (blockOf env s top r hash nc wit primary)).2 = none := by
  unfold backupAccepts at hacc
  simp only [Bool.and_eq_true] at hacc
  obtain ⟨⟨hvr, hat⟩, hvb⟩ := hacc
  unfold verifyRequest at hvr
  split at hvr; · cases hvr
  split at hvr; · cases hvr
  split at hvr; · cases hvr
  unfold verifyBlock at hvb
  split at hvb; · cases hvb
  split at hvb; · cases hvb
  split at hvb; · cases hvb
  split at hvb; · cases hvb
  rename_i _ hts _ hloop
  have hloop : vbLoop env s [] r.txs = true := by simpa using hloop
  have hts : lastTs < r.ts := by omega
  have htx := backup_txs_pass env s t' r.txs hloop hf hpv hown hl hb
  have hnd : hasDup (r.txs.map (·.id)) = false := by
    unfold hasAllTransactions at hat; simpa using hat
  apply addBlock_ok env t' _ top
  · simp [blockOf, hb]
  · simp [blockOf, hc]
  · rw [hh]; exact hne
  · unfold Node.headerHeight; rw [hh, hb]; exact hhh
  · unfold Node.lookup; rw [hh]; exact hlook
  · unfold verifyHeader
    have : ¬ (top.ts ≥ r.ts) := by omega
    simp [blockOf, hl, htopi, hsig, this]
  · simp [blockOf]
  · exact hnd
  · exact htx
  · simpa [blockOf] using hprim
  · rw [hl]; exact happly

/-- "validator-side facts about block `blk` as seen from node `t'`": some backup `s` with the ledger, headers
and configuration of `t'` ran every check of `backupAccepts` on the request `blk` was assembled from, and the
side conditions of `answered_proposal_accepted` hold. -/
def Answered (env : Env L) (t' : Node L) (blk : Block) : Prop :=
  ∃ (s : Node L) (lim : Limits) (top : Header) (lastTs : Nat) (r : Req) (hash nc wit primary : Nat),
    blk = blockOf env s top r hash nc wit primary ∧ primary < env.nvals ∧
    backupAccepts env s lim top lastTs r = true ∧ ConflictFree r.txs ∧ PoolValid env s ∧
    (∀ t ∈ r.txs, ∀ q ∈ s.pool, q.id = t.id → q = t) ∧
    s.headers ≠ [] ∧ s.headerHeight = s.blockHeight ∧ s.lookup top.hash = some top ∧ top.index = s.blockHeight ∧
    top.ts ≤ lastTs ∧ env.signedBy wit hash top.nextConsensus = true ∧ (env.apply s.ledger blk).isSome ∧
    t'.cfg = s.cfg ∧ t'.ledger = s.ledger ∧ t'.blockHeight = s.blockHeight ∧ t'.headers = s.headers

theorem Answered.accepted (env : Env L) (t' : Node L) (blk : Block) (h : Answered env t' blk) :
    (addBlock env t' blk).2 = none := by
  obtain ⟨s, lim, top, lastTs, r, hash, nc, wit, primary, rfl, hp, hacc, hf, hpv, hown, hne, hhh, hlook, htopi, hlast,
    hsig, happly, hc, hl, hb, hh⟩ := h
  exact answered_proposal_accepted env s t' lim top lastTs r hash nc wit primary hp hacc hf hpv hown hne hhh hlook htopi
    hlast hsig happly hc hl hb hh

/-! ### concrete objects: non-vacuity and the exception -/

/-- a small environment in the style of Props/C06.lean: witness `w` signs hash `h` for address `a` iff
`w = h + a`; Merkle = sum of ids; a transaction verifies iff its witness equals its id; everybody owns 100 -/
def exEnv : Env Nat :=
  { signedBy := fun w h a => w == h + a, merkle := fun ids => ids.sum, txValid := fun _ _ t => t.wit == t.id,
    balance := fun _ _ => 100, apply := fun l b => some (l + b.hdr.index), rootOf := fun l => l,
    keep := fun _ _ => true, spoil := fun l _ => l }

def exTip : Header := { index := 0, hash := 10, prevHash := 0, merkleRoot := 0, ts := 5, nextConsensus := 7,
                        sre := true, prevStateRoot := 0, wit := 0 }
def exBackup : Node Nat := { cfg := { sr := true, verifyTx := true, skip := false }, blockHeight := 0,
                             headers := [exTip], ledger := 3, pool := [] }
/-- another validator's node: same ledger, another mempool -/
def exOther : Node Nat := { exBackup with pool := [{ id := 9, wit := 9, sender := 2, fee := 1, netFee := 1, conflicts := [] }] }
def exLim : Limits := { maxTx := 3, maxSize := 1000, maxSysFee := 50, base := 100, size := fun _ => 200, sysFee := fun t => t.fee - t.netFee }
def txA : Tx := { id := 1, wit := 1, sender := 1, fee := 5, netFee := 2, conflicts := [] }
/-- conflicts with `txA`, same sender, pays more -/
def txB : Tx := { id := 2, wit := 2, sender := 1, fee := 8, netFee := 5, conflicts := [1] }
def txC : Tx := { id := 3, wit := 3, sender := 1, fee := 4, netFee := 1, conflicts := [] }
def reqOK : Req := { version := 0, prevHash := 10, ts := 6, stateRoot := 3, txs := [txA, txC] }
def reqConflict : Req := { reqOK with txs := [txA, txB] }

-- non-vacuity of `answered_proposal_accepted`: the backup answers `reqOK`, the other node's ledger takes the block
example : backupAccepts exEnv exBackup exLim exTip 5 reqOK = true ∧
    (addBlock exEnv exOther (blockOf exEnv exBackup exTip reqOK 77 7 84 1)).2 = none := by decide

/-- every single violation makes the backup refuse: previous hash, version, state root, too many
transactions, a transaction named twice, a timestamp not above the last block's, size, system fee, an invalid
transaction -/
theorem backup_refuses_each_violation :
    backupAccepts exEnv exBackup exLim exTip 5 { reqOK with prevHash := 11 } = false ∧
    backupAccepts exEnv exBackup exLim exTip 5 { reqOK with version := 1 } = false ∧
    backupAccepts exEnv exBackup exLim exTip 5 { reqOK with stateRoot := 4 } = false ∧
    backupAccepts exEnv exBackup { exLim with maxTx := 1 } exTip 5 reqOK = false ∧
    backupAccepts exEnv exBackup exLim exTip 5 { reqOK with txs := [txA, txA] } = false ∧
    backupAccepts exEnv exBackup exLim exTip 5 { reqOK with ts := 5 } = false ∧
    backupAccepts exEnv exBackup { exLim with maxSize := 499 } exTip 5 reqOK = false ∧
    backupAccepts exEnv exBackup { exLim with maxSysFee := 5 } exTip 5 reqOK = false ∧
    backupAccepts exEnv exBackup exLim exTip 5 { reqOK with txs := [txA, { txC with wit := 4 }] } = false := by decide

/-- C19, the exception (NEGATION witness for `answered_proposal_accepted` without `ConflictFree`): a proposal
with two transactions of which the second names the first in a Conflicts attribute and pays more passes every
check of the backup — in `verifyBlock`'s scratch pool the second EVICTS the first and nobody counts
(consensus.go:571-588) — but the block is rejected by AddBlock (`mp.Count() != added`, error class `tx`).
Only a primary that does not take its proposal from its own mempool builds such a request. -/
theorem conflicting_proposal_accepted_by_backup :
    backupAccepts exEnv exBackup exLim exTip 5 reqConflict = true ∧
    (addBlock exEnv exBackup (blockOf exEnv exBackup exTip reqConflict 77 7 84 1)).2 = some Err.tx := by decide

end NeoModel.Dbft.Proposal
