/-
Helper lemmas for C13: the integer definitions of `Model/Vm/Num.lean` equal their mathematical
characterisations (fuel is sufficient, loops keep their invariants).
-/
import NeoModel.Model.Vm
import Mathlib.Tactic.Ring
import Mathlib.Tactic.LinearCombination
import Mathlib.Algebra.Ring.Parity
open NeoModel NeoModel.Vm
namespace NeoModel.Vm


theorem divT_spec (a b q : Int) (h : divT a b = some q) :
    b ≠ 0 ∧ (a - b * q).natAbs < b.natAbs ∧ (a - b * q = 0 ∨ (a - b * q).sign = a.sign) := by
  unfold divT at h
  split at h
  · simp at h
  · rename_i hb
    simp at h
    subst h
    refine ⟨hb, ?_, ?_⟩
    · have h1 : a - b * a.tdiv b = a.tmod b := by rw [Int.tmod_def]
      rw [h1, Int.natAbs_tmod]
      exact Nat.mod_lt _ (by omega)
    · have h1 : a - b * a.tdiv b = a.tmod b := by rw [Int.tmod_def]
      rw [h1, Int.sign_tmod]
      by_cases hd : b ∣ a
      · left; exact Int.tmod_eq_zero_of_dvd hd
      · right; simp [hd]

theorem modT_spec (a b r : Int) (h : modT a b = some r) :
    b ≠ 0 ∧ r.natAbs < b.natAbs ∧ (r = 0 ∨ r.sign = a.sign) ∧ b ∣ a - r := by
  unfold modT at h
  split at h
  · simp at h
  · rename_i hb
    simp at h
    subst h
    refine ⟨hb, ?_, ?_, Int.dvd_self_sub_tmod⟩
    · rw [Int.natAbs_tmod]; exact Nat.mod_lt _ (by omega)
    · rw [Int.sign_tmod]
      by_cases hd : b ∣ a
      · left; exact Int.tmod_eq_zero_of_dvd hd
      · right; simp [hd]

theorem shr_spec (a : Int) (n : Nat) :
    shr a n * (2:Int)^n ≤ a ∧ a < (shr a n + 1) * (2:Int)^n := by
  have hp : (0:Int) < (2:Int)^n := Int.pow_pos (by decide)
  exact ⟨Int.ediv_mul_le a (by omega), Int.lt_ediv_add_one_mul_self a hp⟩



theorem sqrtLoop_spec (n : Nat) : ∀ (f lo hi : Nat), hi ≤ lo + f → lo * lo ≤ n → n < hi * hi →
    sqrtLoop n f lo hi * sqrtLoop n f lo hi ≤ n ∧ n < (sqrtLoop n f lo hi + 1) * (sqrtLoop n f lo hi + 1) := by
  intro f
  induction f with
  | zero =>
    intro lo hi h1 h2 h3
    simp only [sqrtLoop]
    have : hi ≤ lo := by omega
    have : hi * hi ≤ lo * lo := Nat.mul_le_mul this this
    omega
  | succ f ih =>
    intro lo hi h1 h2 h3
    simp only [sqrtLoop]
    split
    · rename_i h
      refine ⟨h2, ?_⟩
      have : hi * hi ≤ (lo + 1) * (lo + 1) := Nat.mul_le_mul h h
      omega
    · rename_i h
      split
      · rename_i hm
        exact ih _ _ (by omega) hm h3
      · rename_i hm
        exact ih _ _ (by omega) h2 (by omega)

theorem natSqrt_spec (n : Nat) : natSqrt n * natSqrt n ≤ n ∧ n < (natSqrt n + 1) * (natSqrt n + 1) := by
  unfold natSqrt
  apply sqrtLoop_spec
  · omega
  · omega
  · have : n + 1 ≤ (n + 1) * (n + 1) := Nat.le_mul_of_pos_left _ (by omega)
    omega

theorem sqrtI_spec (a r : Int) (h : sqrtI a = some r) : 0 ≤ a ∧ 0 ≤ r ∧ r * r ≤ a ∧ a < (r + 1) * (r + 1) := by
  unfold sqrtI at h
  split at h
  · simp at h
  · rename_i ha
    simp at h
    subst h
    have ha' : 0 ≤ a := by omega
    obtain ⟨k, rfl⟩ := Int.eq_ofNat_of_zero_le ha'
    have := natSqrt_spec k
    simp only [Int.toNat_natCast]
    refine ⟨ha', by omega, ?_, ?_⟩
    · exact_mod_cast this.1
    · exact_mod_cast this.2



theorem byteOf_toNat (n : Int) : ((byteOf n).toNat : Int) = n % 256 := by
  unfold byteOf
  have h0 : 0 ≤ n % 256 := Int.emod_nonneg n (by decide)
  have h1 : n % 256 < 256 := Int.emod_lt_of_pos n (by decide)
  have : (n % 256).toNat < 256 := by omega
  simp [UInt8.toNat_ofNat', Nat.mod_eq_of_lt this]
  omega

theorem fromBytes_cons (b : UInt8) (rest : Bytes) (h : rest ≠ []) :
    fromBytes (b :: rest) = (b.toNat : Int) + 256 * fromBytes rest := by
  cases rest with
  | nil => exact absurd rfl h
  | cons x xs => rfl

theorem sbytesAux_ne_nil (f : Nat) (n : Int) (hf : 0 < f) : sbytesAux f n ≠ [] := by
  cases f with
  | zero => omega
  | succ f => simp only [sbytesAux]; split <;> simp

theorem fromBytes_sbytesAux : ∀ (f : Nat) (n : Int), n.natAbs < f → fromBytes (sbytesAux f n) = n := by
  intro f
  induction f with
  | zero => intro n h; omega
  | succ f ih =>
    intro n h
    simp only [sbytesAux]
    split
    · rename_i hr
      have hb := byteOf_toNat n
      simp only [fromBytes]
      split <;> omega
    · rename_i hr
      have hlt : (n / 256).natAbs < f := by omega
      have hne := sbytesAux_ne_nil f (n / 256) (by omega)
      rw [fromBytes_cons _ _ hne, ih _ hlt, byteOf_toNat]
      omega

/-- Integer → ByteString → Integer is the identity (for every integer). -/
theorem fromBytes_toBytes (n : Int) : fromBytes (toBytes n) = n := by
  unfold toBytes
  split
  · rename_i h; subst h; rfl
  · unfold sbytes; exact fromBytes_sbytesAux _ _ (by omega)



theorem pow2_mono {a b : Nat} (h : a ≤ b) : (2:Int)^a ≤ (2:Int)^b := by
  exact_mod_cast Nat.pow_le_pow_right (by decide : 2 > 0) h

theorem pow8 (k : Nat) : (2:Int)^(8*(k+1)+7) = 256 * (2:Int)^(8*k+7) := by
  rw [show 8*(k+1)+7 = 8*k+7+8 from by omega, Int.pow_add]; omega

theorem sbytesAux_length : ∀ (k f : Nat) (n : Int), -(2:Int)^(8*k+7) ≤ n → n < (2:Int)^(8*k+7) →
    (sbytesAux f n).length ≤ k + 1 := by
  intro k
  induction k with
  | zero =>
    intro f n h1 h2
    cases f with
    | zero => simp [sbytesAux]
    | succ f =>
      simp only [sbytesAux]
      have : -128 ≤ n ∧ n < 128 := by omega
      simp [this]
  | succ k ih =>
    intro f n h1 h2
    cases f with
    | zero => simp [sbytesAux]
    | succ f =>
      simp only [sbytesAux]
      split
      · simp
      · rw [pow8] at h1 h2
        have := ih f (n / 256) (by omega) (by omega)
        simp only [List.length_cons]
        omega

/-- an integer in the 256-bit range is encoded in at most 32 bytes. -/
theorem toBytes_length (n : Int) (h : inRange n = true) : (toBytes n).length ≤ 32 := by
  unfold inRange at h
  simp only [Bool.and_eq_true, decide_eq_true_eq] at h
  unfold toBytes
  split
  · simp
  · unfold sbytes
    exact sbytesAux_length 31 _ n (by omega) (by omega)

theorem fromBytes_bound : ∀ (bs : Bytes), bs ≠ [] →
    -(2:Int)^(8*(bs.length-1)+7) ≤ fromBytes bs ∧ fromBytes bs < (2:Int)^(8*(bs.length-1)+7) := by
  intro bs
  induction bs with
  | nil => intro h; exact absurd rfl h
  | cons b rest ih =>
    intro _
    have hb : b.toNat < 256 := UInt8.toNat_lt b
    cases rest with
    | nil =>
      simp only [fromBytes, List.length_singleton]
      split <;> omega
    | cons x xs =>
      have := ih (by simp)
      rw [fromBytes_cons _ _ (by simp)]
      simp only [List.length_cons] at this ⊢
      rw [show xs.length + 1 + 1 - 1 = (xs.length + 1 - 1) + 1 from by omega, pow8]
      omega

/-- a byte string of at most 32 bytes converts to an integer of the 256-bit range. -/
theorem fromBytes_inRange (bs : Bytes) (h : bs.length ≤ 32) : inRange (fromBytes bs) = true := by
  unfold inRange
  simp only [Bool.and_eq_true, decide_eq_true_eq]
  cases bs with
  | nil => simp [fromBytes]
  | cons b rest =>
    have := fromBytes_bound (b :: rest) (by simp)
    have hle : (2:Int)^(8*((b :: rest).length-1)+7) ≤ (2:Int)^255 :=
      pow2_mono (by simp at h ⊢; omega)
    omega



theorem powModAux_spec (m b : Nat) : ∀ (f e : Nat), e < f → powModAux m f b e = b ^ e % m := by
  intro f
  induction f with
  | zero => intro e h; omega
  | succ f ih =>
    intro e h
    simp only [powModAux]
    split
    · rename_i he; subst he; simp
    · rename_i he
      have hq := ih (e / 2) (by omega)
      rw [hq]
      have hsq : b ^ (e / 2) % m * (b ^ (e / 2) % m) % m = b ^ (e / 2 + e / 2) % m := by
        rw [← Nat.mul_mod, ← Nat.pow_add]
      rw [hsq]
      split
      · rename_i hodd
        have : e = e / 2 + e / 2 + 1 := by omega
        conv => rhs; rw [this, Nat.pow_succ]
        rw [Nat.mul_mod, Nat.mod_mod, ← Nat.mul_mod]
      · rename_i heven
        have : e = e / 2 + e / 2 := by omega
        conv => rhs; rw [this]

theorem powModNat_spec (b e m : Nat) : powModNat b e m = b ^ e % m :=
  powModAux_spec m b (e + 1) e (by omega)

theorem int_pow_natAbs (b : Int) (e : Nat) :
    b ^ e = if b < 0 ∧ e % 2 = 1 then -((b.natAbs ^ e : Nat) : Int) else ((b.natAbs ^ e : Nat) : Int) := by
  rcases Int.natAbs_eq b with hb | hb
  · have hnn : ¬ b < 0 := by omega
    simp only [hnn, false_and, if_false]
    conv => lhs; rw [hb]
    push_cast; rfl
  · by_cases hz : b = 0
    · subst hz; simp
    · have hneg : b < 0 := by omega
      rcases Nat.even_or_odd' e with ⟨k, hk | hk⟩
      · have : ¬ (e % 2 = 1) := by omega
        simp only [this, and_false, if_false]
        conv => lhs; rw [hb, hk, Even.neg_pow (even_two_mul k)]
        push_cast; rw [hk]
      · have : e % 2 = 1 := by omega
        simp only [hneg, this, and_self, if_true]
        conv => lhs; rw [hb, hk, Odd.neg_pow (odd_two_mul_add_one k)]
        push_cast; rw [hk]

/-- MODPOW with a non-negative exponent is `(b^e) tmod m`: truncated remainder of the true power. -/
theorem modPowNonneg_spec (b : Int) (e : Nat) (m : Int) : modPowNonneg b e m = Int.tmod (b ^ e) m := by
  unfold modPowNonneg
  rw [powModNat_spec, int_pow_natAbs]
  have hm : Int.tmod ((b.natAbs ^ e : Nat) : Int) m = ((b.natAbs ^ e % m.natAbs : Nat) : Int) := by
    rcases Int.natAbs_eq m with h | h
    · conv => lhs; rw [h]
      rw [Int.ofNat_tmod]
    · conv => lhs; rw [h, Int.tmod_neg]
      rw [Int.ofNat_tmod]
  split
  · rw [Int.neg_tmod, hm]
  · rw [hm]



/-- Bezout invariant of the extended Euclid loop: the returned `s` satisfies `s·a ≡ g (mod m)`. -/
theorem xgcdAux_bezout (a m : Int) : ∀ (f : Nat) (r0 r1 s0 s1 : Int),
    m ∣ s0 * a - r0 → m ∣ s1 * a - r1 →
    m ∣ (xgcdAux f r0 r1 s0 s1).2 * a - (xgcdAux f r0 r1 s0 s1).1 := by
  intro f
  induction f with
  | zero => intro r0 r1 s0 s1 h0 _; simpa [xgcdAux] using h0
  | succ f ih =>
    intro r0 r1 s0 s1 h0 h1
    simp only [xgcdAux]
    split
    · exact h0
    · apply ih _ _ _ _ h1
      obtain ⟨k0, hk0⟩ := h0
      obtain ⟨k1, hk1⟩ := h1
      refine ⟨k0 - (r0 / r1) * k1, ?_⟩
      have hmod : r0 % r1 = r0 - r1 * (r0 / r1) := Int.emod_def r0 r1
      rw [hmod]
      linear_combination hk0 - (r0 / r1) * hk1

/-- the value returned as gcd divides both inputs, provided the fuel suffices. -/
theorem xgcdAux_dvd (a m : Int) : ∀ (f : Nat) (r0 r1 s0 s1 : Int),
    0 ≤ r1 → r1.toNat < f →
    (∀ d : Int, d ∣ r0 → d ∣ r1 → d ∣ a ∧ d ∣ m) →
    (xgcdAux f r0 r1 s0 s1).1 ∣ a ∧ (xgcdAux f r0 r1 s0 s1).1 ∣ m := by
  intro f
  induction f with
  | zero => intro r0 r1 s0 s1 _ h; omega
  | succ f ih =>
    intro r0 r1 s0 s1 hnn hf hd
    simp only [xgcdAux]
    split
    · rename_i hz
      exact hd r0 (Int.dvd_refl _) (by rw [hz]; exact Int.dvd_zero _)
    · rename_i hz
      have hpos : 0 < r1 := by omega
      have h1 : 0 ≤ r0 % r1 := Int.emod_nonneg _ hz
      have h2 : r0 % r1 < r1 := Int.emod_lt_of_pos _ hpos
      apply ih _ _ _ _ h1 (by omega)
      intro d hd1 hd2
      apply hd d _ hd1
      have : r0 = r1 * (r0 / r1) + r0 % r1 := by rw [Int.emod_def]; ring
      rw [this]
      exact Int.dvd_add (Dvd.dvd.mul_right hd1 _) hd2

/-- soundness of the modular inverse (MODPOW with exponent −1). -/
theorem modInv_sound (a m r : Int) (hm : 2 ≤ m) (h : modInv a m = some r) :
    0 ≤ r ∧ r < m ∧ (r * a) % m = 1 := by
  unfold modInv at h
  simp only at h
  split at h
  · rename_i hg
    simp at h
    have hb := xgcdAux_bezout a m (m.toNat + 2) a m 1 0 (by simp) (by simp)
    rw [hg] at hb
    subst h
    refine ⟨Int.emod_nonneg _ (by omega), Int.emod_lt_of_pos _ (by omega), ?_⟩
    have h1 : ((xgcdAux (m.toNat + 2) a m 1 0).2 * a) % m = 1 % m :=
      Int.emod_eq_emod_iff_emod_sub_eq_zero.mpr (Int.emod_eq_zero_of_dvd hb)
    rw [Int.mul_emod, Int.emod_emod, ← Int.mul_emod, h1]
    exact Int.emod_eq_of_lt (by omega) (by omega)
  · simp at h


theorem xgcdAux_nonneg : ∀ (f : Nat) (r0 r1 s0 s1 : Int), 0 ≤ r0 → 0 ≤ r1 → 0 ≤ (xgcdAux f r0 r1 s0 s1).1 := by
  intro f
  induction f with
  | zero => intro r0 r1 s0 s1 h0 _; simpa [xgcdAux] using h0
  | succ f ih =>
    intro r0 r1 s0 s1 h0 h1
    simp only [xgcdAux]
    split
    · exact h0
    · rename_i hz
      exact ih _ _ _ _ h1 (Int.emod_nonneg _ hz)

/-- completeness: the inverse is refused only when none exists. -/
theorem modInv_complete (a m : Int) (ha : 0 < a) (hm : 2 ≤ m) (h : modInv a m = none) :
    ¬ ∃ r : Int, (r * a) % m = 1 := by
  unfold modInv at h
  simp only at h
  split at h
  · simp at h
  · rename_i hg
    intro ⟨r, hr⟩
    apply hg
    have hd := xgcdAux_dvd a m (m.toNat + 2) a m 1 0 (by omega) (by omega) (fun d h1 h2 => ⟨h1, h2⟩)
    have hnn := xgcdAux_nonneg (m.toNat + 2) a m 1 0 (by omega) (by omega)
    generalize (xgcdAux (m.toNat + 2) a m 1 0).1 = g at hd hnn
    -- g ∣ r*a and g ∣ m ∣ r*a - 1
    have h1 : m ∣ r * a - 1 := by
      have : (r * a - 1) % m = 0 := by
        rw [Int.sub_emod, hr]; simp
      exact Int.dvd_of_emod_eq_zero this
    have h2 : g ∣ r * a - 1 := Int.dvd_trans hd.2 h1
    have h3 : g ∣ r * a := Dvd.dvd.mul_left hd.1 r
    have h4 : g ∣ 1 := by
      have := Int.dvd_sub h3 h2
      simpa using this
    have h5 : g ≤ 1 := Int.le_of_dvd (by decide) h4
    have h6 : g ≠ 0 := by
      intro hz; rw [hz] at h4; simp at h4
    omega

/-! ### bitwise: 256-bit two's complement -/

theorem toU256_lt (n : Int) : toU256 n < 2^256 := by
  unfold toU256
  have h0 : 0 ≤ n % (2:Int)^256 := Int.emod_nonneg n (by decide)
  have h1 : n % (2:Int)^256 < (2:Int)^256 := Int.emod_lt_of_pos n (by decide)
  omega

theorem ofU256_inRange (x : Nat) (h : x < 2^256) : inRange (ofU256 x) = true := by
  unfold ofU256 inRange
  simp only [Bool.and_eq_true, decide_eq_true_eq]
  split <;> omega

theorem toU256_ofU256 (x : Nat) (h : x < 2^256) : toU256 (ofU256 x) = x := by
  unfold ofU256 toU256
  split
  · rename_i hx
    rw [Int.emod_eq_of_lt (by omega) (by omega)]; omega
  · rename_i hx
    have : ((x : Int) - (2:Int)^256) % (2:Int)^256 = (x : Int) := by
      rw [Int.sub_emod_right]
      exact Int.emod_eq_of_lt (by omega) (by omega)
    rw [this]; omega

/-- two's complement image: `toU256 n ≡ n (mod 2^256)`, and it is the identity on `[0, 2^255)`. -/
theorem toU256_mod (n : Int) : ((toU256 n : Nat) : Int) = n % (2:Int)^256 := by
  unfold toU256
  have h0 : 0 ≤ n % (2:Int)^256 := Int.emod_nonneg n (by decide)
  omega

theorem andI_spec (a b : Int) : inRange (andI a b) = true ∧ toU256 (andI a b) = toU256 a &&& toU256 b := by
  have hlt : toU256 a &&& toU256 b < 2^256 := Nat.and_lt_two_pow _ (toU256_lt b)
  exact ⟨ofU256_inRange _ hlt, toU256_ofU256 _ hlt⟩

theorem orI_spec (a b : Int) : inRange (orI a b) = true ∧ toU256 (orI a b) = toU256 a ||| toU256 b := by
  have hlt : toU256 a ||| toU256 b < 2^256 := Nat.or_lt_two_pow (toU256_lt a) (toU256_lt b)
  exact ⟨ofU256_inRange _ hlt, toU256_ofU256 _ hlt⟩

theorem xorI_spec (a b : Int) : inRange (xorI a b) = true ∧ toU256 (xorI a b) = toU256 a ^^^ toU256 b := by
  have hlt : toU256 a ^^^ toU256 b < 2^256 := Nat.xor_lt_two_pow (toU256_lt a) (toU256_lt b)
  exact ⟨ofU256_inRange _ hlt, toU256_ofU256 _ hlt⟩

/-- INVERT = bitwise complement in 256-bit two's complement. -/
theorem notI_spec (a : Int) (h : inRange a = true) :
    inRange (notI a) = true ∧ toU256 (notI a) = 2^256 - 1 - toU256 a := by
  unfold inRange at h
  simp only [Bool.and_eq_true, decide_eq_true_eq] at h
  constructor
  · unfold notI inRange; simp only [Bool.and_eq_true, decide_eq_true_eq]; omega
  · have h1 := toU256_mod (notI a)
    have h2 := toU256_mod a
    have h3 := toU256_lt (notI a)
    have h4 := toU256_lt a
    unfold notI at *
    omega


end NeoModel.Vm
