/-
C01 — helper lemmas for the abstract node (Model/Ledger.lean): flatten invariance of the write cache,
the simulation between a node under an arbitrary local schedule and the reference run of its blocks.
-/
import NeoModel.Model.Ledger
namespace NeoModel.Ledger

variable {K V C B R T TX : Type} [DecidableEq K]

/-- flatten_persist: a flush changes no read. -/
theorem flush_read (n : Node K V C R TX) : (flushNode n).read = n.read := by
  simp [flushNode, Node.read, readLayers]

theorem readLayers_congr (mem : List (Changes K V)) (f g : K → Option V) (k : K) (h : f k = g k) :
    readLayers mem f k = readLayers mem g k := by
  induction mem with
  | nil => simpa [readLayers] using h
  | cons l ls ih => simp [readLayers, overlay, ih]

theorem stateView_overlay (S : Sys K V C B R T) (cs : Changes K V) (rd : K → Option V) :
    stateView S (overlay cs rd) = stateView S (overlay cs (stateView S rd)) := by
  funext k
  simp only [stateView, overlay]
  by_cases hk : S.stateKey k = true
  · simp [hk]
  · simp [hk]

omit [DecidableEq K] in
theorem stateView_idem (S : Sys K V C B R T) (rd : K → Option V) :
    stateView S (stateView S rd) = stateView S rd := by
  funext k; simp only [stateView]; split <;> simp_all

/-- What the natives must satisfy for restart transparency. `Good sv c h`: caches `c` are adequate for the
    contract storage `sv` at height `h`. -/
structure Adequate (S : Sys K V C B R T) (Good : (K → Option V) → C → Nat → Prop) : Prop where
  /-- block execution reads contract storage only (never the auxiliary data GC removes) -/
  apply_state : ∀ rd c h b, S.apply rd c h b = S.apply (stateView S rd) c h b
  init_state : ∀ rd h, S.initCache rd h = S.initCache (stateView S rd) h
  /-- a restart (InitializeCache from storage) yields adequate caches -/
  good_restart : ∀ sv c h, Good sv c h → Good sv (S.initCache sv h) h
  /-- adequate caches stay adequate over a block -/
  good_step : ∀ sv c h b, Good sv c h →
    Good (stateView S (overlay (S.apply sv c (h + 1) b).1 sv)) (S.apply sv c (h + 1) b).2.1 (h + 1)
  /-- any two adequate caches give the same change set, results and getter answers -/
  good_det : ∀ sv c₁ c₂ h, Good sv c₁ h → Good sv c₂ h →
    S.getters c₁ h = S.getters c₂ h ∧
    ∀ b, (S.apply sv c₁ (h + 1) b).1 = (S.apply sv c₂ (h + 1) b).1 ∧
         (S.apply sv c₁ (h + 1) b).2.2 = (S.apply sv c₂ (h + 1) b).2.2

/-- two nodes that may differ in backend contents below the state keys, layer structure, mempool and even
    in the caches, as long as both caches are adequate. -/
structure Sim (S : Sys K V C B R T) (Good : (K → Option V) → C → Nat → Prop) (n m : Node K V C R TX) : Prop where
  height : n.height = m.height
  view : stateView S n.read = stateView S m.read
  last : n.last = m.last
  goodL : Good (stateView S n.read) n.cache n.height
  goodR : Good (stateView S m.read) m.cache m.height

def isBlock : Step K B TX → Bool
  | .addBlock _ => true
  | _ => false

theorem sim_local (S : Sys K V C B R T) {Good} (hA : Adequate S Good) (n m : Node K V C R TX)
    (s : Step K B TX) (hs : isBlock s = false) (h : Sim S Good n m) : Sim S Good (step S n s) m := by
  cases s with
  | addBlock b => simp [isBlock] at hs
  | flush =>
    have hr : (step S n (Step.flush : Step K B TX)).read = n.read := flush_read n
    exact ⟨h.height, by rw [hr]; exact h.view, h.last, by rw [hr]; exact h.goodL, h.goodR⟩
  | restart =>
    have hr : (step S n (Step.restart : Step K B TX)).read = n.read := by
      simp [step, flushNode, Node.read, readLayers]
    refine ⟨h.height, by rw [hr]; exact h.view, h.last, ?_, h.goodR⟩
    rw [hr]
    have : (step S n (Step.restart : Step K B TX)).cache = S.initCache (stateView S n.read) n.height := by
      simp only [step, flushNode]
      rw [hA.init_state]
      simp [Node.read, readLayers]
    rw [this]
    exact hA.good_restart _ _ _ h.goodL
  | gc ks =>
    have hr : stateView S (step S n (Step.gc ks : Step K B TX)).read = stateView S n.read := by
      funext k
      simp only [stateView]
      by_cases hk : S.stateKey k = true
      · simp only [hk, if_true, step, Node.read]
        apply readLayers_congr
        simp only [removeKeys]
        have : (List.filter (fun k => !S.stateKey k) ks).contains k = false := by
          simp [List.mem_filter, hk]
        rw [this]; simp
      · simp [hk]
    exact ⟨h.height, by rw [hr]; exact h.view, h.last, by rw [hr]; exact h.goodL, h.goodR⟩
  | poolTx t =>
    exact ⟨h.height, h.view, h.last, h.goodL, h.goodR⟩

theorem sim_symm (S : Sys K V C B R T) {Good} {n m : Node K V C R TX} (h : Sim S Good n m) : Sim S Good m n :=
  ⟨h.height.symm, h.view.symm, h.last.symm, h.goodR, h.goodL⟩

theorem step_block_read (S : Sys K V C B R T) (n : Node K V C R TX) (b : B) :
    (step S n (Step.addBlock b : Step K B TX)).read = overlay (S.apply n.read n.cache (n.height + 1) b).1 n.read := by
  simp [step, Node.read, readLayers]

theorem sim_block (S : Sys K V C B R T) {Good} (hA : Adequate S Good) (n m : Node K V C R TX) (b : B)
    (h : Sim S Good n m) : Sim S Good (step S n (.addBlock b)) (step S m (.addBlock b)) := by
  have hn := hA.apply_state n.read n.cache (n.height + 1) b
  have hm := hA.apply_state m.read m.cache (m.height + 1) b
  have hgm : Good (stateView S n.read) m.cache n.height := by rw [h.view, h.height]; exact h.goodR
  have hdet := (hA.good_det _ _ _ _ h.goodL hgm).2 b
  have hview : stateView S (step S n (Step.addBlock b : Step K B TX)).read = stateView S (step S m (Step.addBlock b : Step K B TX)).read := by
    rw [step_block_read, step_block_read, stateView_overlay S _ n.read, stateView_overlay S _ m.read, hn, hm, ← h.view, ← h.height, hdet.1]
  have hlast : ∀ x : Node K V C R TX, (step S x (Step.addBlock b : Step K B TX)).last = (S.apply x.read x.cache (x.height + 1) b).2.2 := fun _ => rfl
  have hcache : ∀ x : Node K V C R TX, (step S x (Step.addBlock b : Step K B TX)).cache = (S.apply x.read x.cache (x.height + 1) b).2.1 := fun _ => rfl
  have hheight : ∀ x : Node K V C R TX, (step S x (Step.addBlock b : Step K B TX)).height = x.height + 1 := fun _ => rfl
  refine ⟨?_, hview, ?_, ?_, ?_⟩
  · rw [hheight, hheight, h.height]
  · rw [hlast, hlast, hn, hm, ← h.view, ← h.height]
    exact hdet.2
  · have := hA.good_step _ _ _ b h.goodL
    rw [step_block_read, stateView_overlay, hn, hcache, hheight, hn]
    exact this
  · have := hA.good_step _ _ _ b h.goodR
    rw [step_block_read, stateView_overlay, hm, hcache, hheight, hm]
    exact this

/-- the reference schedule of a block list: nothing but addBlock. -/
def blocksOnly (bs : List B) : List (Step K B TX) := bs.map Step.addBlock

theorem sim_run_ref (S : Sys K V C B R T) {Good} (hA : Adequate S Good) (σ : List (Step K B TX)) :
    ∀ (n m : Node K V C R TX), Sim S Good n m → Sim S Good (run S n σ) (run S m (blocksOnly (blocksOf σ))) := by
  induction σ with
  | nil => intro n m h; simpa [run, blocksOf, blocksOnly] using h
  | cons s ss ih =>
    intro n m h
    cases s with
    | addBlock b =>
      simp only [run, blocksOf, blocksOnly, List.map]
      exact ih _ _ (sim_block S hA n m b h)
    | flush => simp only [run, blocksOf]; exact ih _ _ (sim_local S hA n m _ rfl h)
    | restart => simp only [run, blocksOf]; exact ih _ _ (sim_local S hA n m _ rfl h)
    | gc ks => simp only [run, blocksOf]; exact ih _ _ (sim_local S hA n m _ rfl h)
    | poolTx t => simp only [run, blocksOf]; exact ih _ _ (sim_local S hA n m _ rfl h)

theorem sim_observe (S : Sys K V C B R T) {Good} (hA : Adequate S Good) (n m : Node K V C R TX)
    (h : Sim S Good n m) : observe S n = observe S m := by
  have hgm : Good (stateView S n.read) m.cache n.height := by rw [h.view, h.height]; exact h.goodR
  have hg := (hA.good_det _ _ _ _ h.goodL hgm).1
  simp only [observe, h.height, h.view, h.last]
  rw [← h.height, hg]

end NeoModel.Ledger

-- ---------------------------------------------------------------------------------------------
-- schedules without restart: no assumption on the natives at all
namespace NeoModel.Ledger

variable {K V C B R T TX : Type} [DecidableEq K]

/-- agreement of two nodes including the caches (no restart involved). -/
structure SimEq (S : Sys K V C B R T) (n m : Node K V C R TX) : Prop where
  height : n.height = m.height
  view : stateView S n.read = stateView S m.read
  last : n.last = m.last
  cache : n.cache = m.cache

def noRestart : List (Step K B TX) → Bool
  | [] => true
  | .restart :: _ => false
  | _ :: ss => noRestart ss

theorem simEq_local (S : Sys K V C B R T) (n m : Node K V C R TX) (s : Step K B TX)
    (hs : isBlock s = false) (hr : s ≠ Step.restart) (h : SimEq S n m) : SimEq S (step S n s) m := by
  cases s with
  | addBlock b => simp [isBlock] at hs
  | restart => exact absurd rfl hr
  | flush =>
    have hrd : (step S n (Step.flush : Step K B TX)).read = n.read := flush_read n
    exact ⟨h.height, by rw [hrd]; exact h.view, h.last, h.cache⟩
  | gc ks =>
    have hrd : stateView S (step S n (Step.gc ks : Step K B TX)).read = stateView S n.read := by
      funext k
      simp only [stateView]
      by_cases hk : S.stateKey k = true
      · simp only [hk, if_true, step, Node.read]
        apply readLayers_congr
        simp only [removeKeys]
        have : (List.filter (fun k => !S.stateKey k) ks).contains k = false := by
          simp [List.mem_filter, hk]
        rw [this]; simp
      · simp [hk]
    exact ⟨h.height, by rw [hrd]; exact h.view, h.last, h.cache⟩
  | poolTx t => exact ⟨h.height, h.view, h.last, h.cache⟩

theorem simEq_block (S : Sys K V C B R T)
    (hst : ∀ rd c h b, S.apply rd c h b = S.apply (stateView S rd) c h b)
    (n m : Node K V C R TX) (b : B) (h : SimEq S n m) :
    SimEq S (step S n (.addBlock b)) (step S m (.addBlock b)) := by
  have hn := hst n.read n.cache (n.height + 1) b
  have hm := hst m.read m.cache (m.height + 1) b
  have e : S.apply n.read n.cache (n.height + 1) b = S.apply m.read m.cache (m.height + 1) b := by
    rw [hn, hm, h.view, h.cache, h.height]
  have hlast : ∀ x : Node K V C R TX, (step S x (Step.addBlock b : Step K B TX)).last = (S.apply x.read x.cache (x.height + 1) b).2.2 := fun _ => rfl
  have hcache : ∀ x : Node K V C R TX, (step S x (Step.addBlock b : Step K B TX)).cache = (S.apply x.read x.cache (x.height + 1) b).2.1 := fun _ => rfl
  have hheight : ∀ x : Node K V C R TX, (step S x (Step.addBlock b : Step K B TX)).height = x.height + 1 := fun _ => rfl
  refine ⟨by rw [hheight, hheight, h.height], ?_, by rw [hlast, hlast, e], by rw [hcache, hcache, e]⟩
  rw [step_block_read, step_block_read, stateView_overlay S _ n.read, stateView_overlay S _ m.read, e, h.view]

theorem simEq_run_ref (S : Sys K V C B R T)
    (hst : ∀ rd c h b, S.apply rd c h b = S.apply (stateView S rd) c h b) (σ : List (Step K B TX)) :
    ∀ (n m : Node K V C R TX), noRestart σ = true → SimEq S n m →
      SimEq S (run S n σ) (run S m (blocksOnly (blocksOf σ))) := by
  induction σ with
  | nil => intro n m _ h; simpa [run, blocksOf, blocksOnly] using h
  | cons s ss ih =>
    intro n m hn h
    cases s with
    | addBlock b =>
      simp only [run, blocksOf, blocksOnly, List.map]
      exact ih _ _ (by simpa [noRestart] using hn) (simEq_block S hst n m b h)
    | restart => simp [noRestart] at hn
    | flush => simp only [run, blocksOf]; exact ih _ _ (by simpa [noRestart] using hn) (simEq_local S n m _ rfl (by simp) h)
    | gc ks => simp only [run, blocksOf]; exact ih _ _ (by simpa [noRestart] using hn) (simEq_local S n m _ rfl (by simp) h)
    | poolTx t => simp only [run, blocksOf]; exact ih _ _ (by simpa [noRestart] using hn) (simEq_local S n m _ rfl (by simp) h)

theorem simEq_observe (S : Sys K V C B R T) (n m : Node K V C R TX) (h : SimEq S n m) : observe S n = observe S m := by
  simp only [observe, h.height, h.view, h.last, h.cache]

end NeoModel.Ledger
