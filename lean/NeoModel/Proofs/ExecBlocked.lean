import NeoModel.Model.ExecBlocked
namespace NeoModel.Exec.Blocked

theorem insertAt_eq (l : List Nat) : ∀ (i x : Nat), i ≤ l.length → insertAt l i x = l.take i ++ x :: l.drop i := by
  induction l with
  | nil => intro i x h; simp at h; subst h; simp [insertAt]
  | cons a t ih =>
    intro i x h
    cases i with
    | zero => simp [insertAt]
    | succ i =>
      have h' : i ≤ t.length := by simpa using h
      have := ih i x h'
      unfold insertAt at this ⊢
      by_cases e : t.length = i
      · subst e; simp
      · have e2 : ¬ (a :: t).length = i + 1 := by simpa using e
        simp only [e, if_false] at this
        simp only [e2, if_false, List.take_succ_cons, List.drop_succ_cons, List.cons_append, List.set_cons_succ, this]

theorem getD_eq {l : List Nat} {k : Nat} (h : k < l.length) : l.getD k 0 = l[k] := by
  simp [List.getD, List.getElem?_eq_getElem h]

theorem sorted_lt {l : List Nat} (hs : Sorted l) {a b : Nat} (hab : a < b) (hb : b < l.length) :
    l.getD a 0 < l.getD b 0 := by
  rw [getD_eq (Nat.lt_trans hab hb), getD_eq hb]
  exact (List.pairwise_iff_getElem.mp hs) a b (Nat.lt_trans hab hb) hb hab

theorem bsLoop_spec (l : List Nat) (x : Nat) (hs : Sorted l) : ∀ (fuel i j : Nat), i ≤ j → j ≤ l.length → j - i < fuel →
    (∀ k, k < i → l.getD k 0 < x) → (∀ k, j ≤ k → k < l.length → x ≤ l.getD k 0) →
    i ≤ bsLoop l x fuel i j ∧ bsLoop l x fuel i j ≤ j ∧ (∀ k, k < bsLoop l x fuel i j → l.getD k 0 < x) ∧
    (∀ k, bsLoop l x fuel i j ≤ k → k < l.length → x ≤ l.getD k 0) := by
  intro fuel
  induction fuel with
  | zero => intro i j _ _ h; omega
  | succ fuel ih =>
    intro i j hij hj hf hlo hhi
    unfold bsLoop
    by_cases c : i < j
    · simp only [c, if_true]
      have hh1 : i ≤ (i + j) / 2 := by omega
      have hh2 : (i + j) / 2 < j := by omega
      by_cases d : l.getD ((i + j) / 2) 0 < x
      · simp only [d, if_true]
        have r := ih ((i + j) / 2 + 1) j (by omega) hj (by omega)
          (by
            intro k hk
            by_cases e : k = (i + j) / 2
            · rw [e]; exact d
            · exact Nat.lt_trans (sorted_lt hs (by omega) (by omega)) d)
          hhi
        exact ⟨by omega, r.2.1, r.2.2.1, r.2.2.2⟩
      · simp only [d, if_false]
        have r := ih i ((i + j) / 2) hh1 (by omega) (by omega) hlo
          (by
            intro k hk hkn
            by_cases e : k = (i + j) / 2
            · rw [e]; omega
            · have := sorted_lt hs (a := (i + j) / 2) (b := k) (by omega) hkn
              omega)
        exact ⟨r.1, by omega, r.2.2.1, r.2.2.2⟩
    · simp only [c, if_false]
      have : i = j := by omega
      subst this
      exact ⟨Nat.le_refl _, Nat.le_refl _, hlo, hhi⟩

/-- on a sorted list the search returns the insertion position and finds exactly the members. -/
theorem bsearch_spec (l : List Nat) (x : Nat) (hs : Sorted l) :
    (bsearch l x).1 ≤ l.length ∧ (∀ k, k < (bsearch l x).1 → l.getD k 0 < x) ∧
    (∀ k, (bsearch l x).1 ≤ k → k < l.length → x ≤ l.getD k 0) ∧ ((bsearch l x).2 = true ↔ x ∈ l) := by
  have r := bsLoop_spec l x hs (l.length + 1) 0 l.length (Nat.zero_le _) (Nat.le_refl _) (by omega)
    (fun k hk => by omega) (fun k hk hkn => by omega)
  simp only [bsearch]
  generalize bsLoop l x (l.length + 1) 0 l.length = p at r
  obtain ⟨_, r2, r3, r4⟩ := r
  refine ⟨r2, r3, r4, ?_⟩
  constructor
  · intro h
    simp only [Bool.and_eq_true, decide_eq_true_eq, beq_iff_eq] at h
    rw [getD_eq h.1] at h
    rw [← h.2]; exact List.getElem_mem h.1
  · intro h
    obtain ⟨k, hk, e⟩ := List.mem_iff_getElem.mp h
    have hk1 : p ≤ k := by
      by_cases c : k < p
      · have := r3 k c; rw [getD_eq hk, e] at this; omega
      · omega
    have hk2 : k = p := by
      by_cases c : p < k
      · have h1 := sorted_lt hs c hk
        have h2 := r4 p (Nat.le_refl _) (by omega)
        rw [getD_eq hk, e] at h1
        omega
      · omega
    subst hk2
    simp only [Bool.and_eq_true, decide_eq_true_eq, beq_iff_eq]
    exact ⟨hk, by rw [getD_eq hk, e]⟩

theorem isBlocked_iff_mem (l : List Nat) (x : Nat) (hs : Sorted l) : isBlocked l x = true ↔ x ∈ l :=
  (bsearch_spec l x hs).2.2.2

/-- insertion at the position the search returned for THIS list keeps it sorted. -/
theorem insert_sorted (l : List Nat) (x : Nat) (hs : Sorted l) (hx : x ∉ l) :
    Sorted (l.take (bsearch l x).1 ++ x :: l.drop (bsearch l x).1) := by
  obtain ⟨b1, b2, b3, _⟩ := bsearch_spec l x hs
  generalize (bsearch l x).1 = p at b1 b2 b3
  unfold Sorted
  rw [List.pairwise_append]
  refine ⟨List.Pairwise.sublist (List.take_sublist _ _) hs, ?_, ?_⟩
  · rw [List.pairwise_cons]
    refine ⟨?_, List.Pairwise.sublist (List.drop_sublist _ _) hs⟩
    intro b hb
    obtain ⟨k, hk, e⟩ := List.mem_iff_getElem.mp hb
    rw [List.getElem_drop] at e
    have hk' : p + k < l.length := by simp at hk; omega
    have := b3 (p + k) (by omega) hk'
    rw [getD_eq hk', e] at this
    have hne : x ≠ b := by
      intro h; apply hx; rw [h, ← e]; exact List.getElem_mem _
    omega
  · intro a ha b hb
    obtain ⟨k, hk, e⟩ := List.mem_iff_getElem.mp ha
    rw [List.getElem_take] at e
    have hk' : k < p ∧ k < l.length := by simp at hk; omega
    have hax : a < x := by have := b2 k hk'.1; rw [getD_eq hk'.2, e] at this; exact this
    rcases List.mem_cons.mp hb with h | h
    · rw [h]; exact hax
    · obtain ⟨k2, hk2, e2⟩ := List.mem_iff_getElem.mp h
      rw [List.getElem_drop] at e2
      have hk2' : p + k2 < l.length := by simp at hk2; omega
      have := b3 (p + k2) (by omega) hk2'
      rw [getD_eq hk2', e2] at this
      omega

theorem mem_insert (l : List Nat) (p x y : Nat) : y ∈ l.take p ++ x :: l.drop p ↔ (y = x ∨ y ∈ l) := by
  constructor
  · intro h
    rcases List.mem_append.mp h with h | h
    · exact Or.inr (List.mem_of_mem_take h)
    · rcases List.mem_cons.mp h with h | h
      · exact Or.inl h
      · exact Or.inr (List.mem_of_mem_drop h)
  · rintro (h | h)
    · rw [h]; exact List.mem_append.mpr (Or.inr (List.mem_cons_self))
    · have : y ∈ l.take p ++ l.drop p := by rw [List.take_append_drop]; exact h
      rcases List.mem_append.mp this with h | h
      · exact List.mem_append.mpr (Or.inl h)
      · exact List.mem_append.mpr (Or.inr (List.mem_cons_of_mem _ h))

/-- FULL statement (code since cf4871f): for every sorted cache, every account and EVERY reward callback that
    leaves the cache sorted (whatever it blocks or unblocks), blocking keeps the cache sorted and makes isBlocked
    answer exactly what storage says. -/
theorem blockCoded_ok (cb : List Nat → List Nat) (l : List Nat) (x : Nat) (hs : Sorted l) (hcb : Sorted (cb l)) :
    Sorted (blockCoded cb l x) ∧ ∀ y, isBlocked (blockCoded cb l x) y = true ↔ y ∈ blockStore cb l x := by
  unfold blockCoded blockStore
  cases hf : (bsearch l x).2 with
  | true =>
    have hx : x ∈ l := (bsearch_spec l x hs).2.2.2.mp hf
    simp only [if_true, hx]
    exact ⟨hs, fun y => isBlocked_iff_mem l y hs⟩
  | false =>
    have hx : x ∉ l := fun h => by have := (bsearch_spec l x hs).2.2.2.mpr h; rw [hf] at this; cases this
    simp only [Bool.false_eq_true, if_false, hx]
    have hb := bsearch_spec (cb l) x hcb
    cases hf2 : (bsearch (cb l) x).2 with
    | true =>
      have hx2 : x ∈ cb l := hb.2.2.2.mp hf2
      have e : bsearch (cb l) x = ((bsearch (cb l) x).1, true) := by rw [← hf2]
      rw [e]
      simp only [if_true]
      refine ⟨hcb, fun y => ?_⟩
      rw [isBlocked_iff_mem _ y hcb]
      constructor
      · exact fun h => List.mem_cons_of_mem _ h
      · intro h
        rcases List.mem_cons.mp h with h | h
        · rw [h]; exact hx2
        · exact h
    | false =>
      have hx2 : x ∉ cb l := fun h => by have := hb.2.2.2.mpr h; rw [hf2] at this; cases this
      have e : bsearch (cb l) x = ((bsearch (cb l) x).1, false) := by rw [← hf2]
      rw [e]
      simp only [Bool.false_eq_true, if_false]
      rw [insertAt_eq (cb l) _ x hb.1]
      have hs' := insert_sorted (cb l) x hcb hx2
      refine ⟨hs', fun y => ?_⟩
      rw [isBlocked_iff_mem _ y hs', mem_insert, List.mem_cons]

/-- the hypothesis of `blockCoded_ok` is met by everything a callback can do to the list: blocking (with any
    nested callback that keeps it sorted) and unblocking keep the cache sorted. -/
theorem unblockCoded_sorted (l : List Nat) (x : Nat) (hs : Sorted l) : Sorted (unblockCoded l x) := by
  unfold unblockCoded
  cases hf : (bsearch l x).2 with
  | true =>
    have e : bsearch l x = ((bsearch l x).1, true) := by rw [← hf]
    rw [e]
    simp only [if_true]
    rw [← List.eraseIdx_eq_take_drop_succ]
    exact List.Pairwise.sublist (List.eraseIdx_sublist _ _) hs
  | false =>
    have e : bsearch l x = ((bsearch l x).1, false) := by rw [← hf]
    rw [e]
    simpa using hs

/-- Regression example about the rule BEFORE cf4871f (known finding blocked-list-stale-index): the cache is
    empty, account 7 (contract c1) is being blocked, its reward callback blocks account 3 (contract c0
    destroys itself; 3 < 7 like the hashes). With the position computed before the callback the cache ends as
    [7, 3]: not sorted, and isBlocked answers false for BOTH accounts although storage has both; as coded now
    it is [3, 7]. -/
theorem blockStale_witness :
    let cb : List Nat → List Nat := fun l => blockCoded id l 3
    blockStale cb [] 7 = [7, 3] ∧ isBlocked (blockStale cb [] 7) 7 = false ∧ isBlocked (blockStale cb [] 7) 3 = false ∧
    (7 ∈ blockStore cb [] 7 ∧ 3 ∈ blockStore cb [] 7) ∧
    blockCoded cb [] 7 = [3, 7] ∧ isBlocked (blockCoded cb [] 7) 7 = true ∧ isBlocked (blockCoded cb [] 7) 3 = true := by
  decide

end NeoModel.Exec.Blocked
