/-
C06 helper lemmas: the header checks as an ordered list (first failing check), what each rejection
class of AddBlock says about the block (`Reason`), and the exact condition under which a rejected
block can leave a trace in the ledger.
-/
import NeoModel.Proofs.AddBlockPool
namespace NeoModel.AddBlock
variable {L : Type}

/-- the checks of verifyHeader in the order written: (error class, passes) -/
def hdrChecks (env : Env L) (s : Node L) (cur prev : Header) : List (Err × Bool) :=
  [ (.stateRoot, !(s.cfg.sr && s.blockHeight == prev.index && cur.prevStateRoot != env.rootOf s.ledger)),
    (.prevHash, !(prev.hash != cur.prevHash)),
    (.hdrIndex, !(prev.index + 1 != cur.index)),
    (.timestamp, !(prev.ts >= cur.ts)),
    (.witness, env.signedBy cur.wit cur.hash prev.nextConsensus) ]

def firstFailingH (l : List (Err × Bool)) : Option Err := (l.find? (fun p => !p.2)).map (·.1)

theorem verifyHeader_eq_firstFailing (env : Env L) (s : Node L) (cur prev : Header) :
    verifyHeader env s cur prev = firstFailingH (hdrChecks env s cur prev) := by
  unfold verifyHeader firstFailingH hdrChecks
  generalize (s.cfg.sr && s.blockHeight == prev.index && cur.prevStateRoot != env.rootOf s.ledger) = b1
  generalize (prev.hash != cur.prevHash) = b2
  generalize (prev.index + 1 != cur.index) = b3
  generalize env.signedBy cur.wit cur.hash prev.nextConsensus = b5
  by_cases h4 : prev.ts ≥ cur.ts <;> simp only [h4, decide_true, decide_false, if_true, if_false] <;>
    cases b1 <;> cases b2 <;> cases b3 <;> cases b5 <;> rfl

theorem verifyHeader_none_iff (env : Env L) (s : Node L) (cur prev : Header) :
    verifyHeader env s cur prev = none ↔
      LinkOK env prev cur ∧
        (s.cfg.sr = true → s.blockHeight = prev.index → cur.prevStateRoot = env.rootOf s.ledger) := by
  constructor
  · exact verifyHeader_none env s cur prev
  · intro ⟨⟨h1, h2, h3, h4⟩, h5⟩
    unfold verifyHeader
    have e1 : (s.cfg.sr && s.blockHeight == prev.index && cur.prevStateRoot != env.rootOf s.ledger) = false := by
      cases hsr : s.cfg.sr
      · simp
      · by_cases hb : s.blockHeight = prev.index
        · simp [hb, h5 hsr hb]
        · simp [hb]
    simp [e1, h1, h2, h4]
    omega

/-- what a rejection with class `e` says about the block and the node -/
def Reason (env : Env L) (s : Node L) (b : Block) : Err → Prop
  | .indexFuture => b.hdr.index > s.blockHeight + 1
  | .indexOld => b.hdr.index < s.blockHeight + 1
  | .srFlag => b.hdr.sre ≠ s.cfg.sr
  | .prevUnknown => s.cfg.skip = false ∧ s.lookup b.hdr.prevHash = none
  | .stateRoot => s.cfg.skip = false ∧ s.cfg.sr = true ∧
      ∃ prev, s.lookup b.hdr.prevHash = some prev ∧ s.blockHeight = prev.index ∧ b.hdr.prevStateRoot ≠ env.rootOf s.ledger
  | .prevHash => False
  | .hdrIndex => s.cfg.skip = false ∧ ∃ prev, s.lookup b.hdr.prevHash = some prev ∧ prev.index + 1 ≠ b.hdr.index
  | .timestamp => s.cfg.skip = false ∧ ∃ prev, s.lookup b.hdr.prevHash = some prev ∧ prev.index + 1 = b.hdr.index ∧ b.hdr.ts ≤ prev.ts
  | .witness => s.cfg.skip = false ∧ ∃ prev, s.lookup b.hdr.prevHash = some prev ∧
      env.signedBy b.hdr.wit b.hdr.hash prev.nextConsensus = false
  | .hashMismatch => b.hdr.index ≠ s.headerHeight + 1 ∧ ∀ kh, s.headers[b.hdr.index]? = some kh → kh.hash ≠ b.hdr.hash
  | .merkle => s.cfg.skip = false ∧ b.hdr.merkleRoot ≠ env.merkle (b.txs.map (·.id))
  | .dup => s.cfg.skip = false ∧ ¬ (b.txs.map (·.id)).Nodup
  | .tx => s.cfg.skip = false ∧ s.cfg.verifyTx = true ∧ txLoop env s [] b.txs = false
  | .store => primaryOK env b = false ∨ env.apply s.ledger b = none ∨
      ∃ l', env.apply s.ledger b = some l' ∧ nextHeaderOK env (headerStep env s b).1 b.hdr.index l' = false

theorem verifyHeader_some (env : Env L) (s : Node L) (cur prev : Header) (e : Err)
    (h : verifyHeader env s cur prev = some e) :
    (e = .stateRoot ∧ s.cfg.sr = true ∧ s.blockHeight = prev.index ∧ cur.prevStateRoot ≠ env.rootOf s.ledger) ∨
    (e = .prevHash ∧ prev.hash ≠ cur.prevHash) ∨
    (e = .hdrIndex ∧ prev.index + 1 ≠ cur.index) ∨
    (e = .timestamp ∧ prev.index + 1 = cur.index ∧ cur.ts ≤ prev.ts) ∨
    (e = .witness ∧ env.signedBy cur.wit cur.hash prev.nextConsensus = false) := by
  unfold verifyHeader at h
  split at h
  · rename_i h1; cases h; left
    simp only [Bool.and_eq_true, beq_iff_eq, bne_iff_ne] at h1
    exact ⟨rfl, h1.1.1, h1.1.2, h1.2⟩
  split at h
  · rename_i h2; cases h; right; left; exact ⟨rfl, by simpa using h2⟩
  split at h
  · rename_i h3; cases h; right; right; left; exact ⟨rfl, by simpa using h3⟩
  split at h
  · rename_i h3 h4; cases h; right; right; right; left
    refine ⟨rfl, ?_, by simpa using h4⟩
    simpa using h3
  split at h
  · rename_i h5; cases h; right; right; right; right; exact ⟨rfl, by simpa using h5⟩
  · cases h

theorem nodup_hasDup_false (l : List Nat) (h : l.Nodup) : hasDup l = false := by
  induction l with
  | nil => rfl
  | cons x rest ih =>
    rw [List.nodup_cons] at h
    simp only [hasDup, Bool.or_eq_false_iff]
    exact ⟨by simpa using h.1, ih h.2⟩

theorem txLoop_noVerify (env : Env L) (s : Node L) (hv : s.cfg.verifyTx = false) (p ts : List Tx) :
    txLoop env s p ts = true := by
  induction ts generalizing p with
  | nil => rfl
  | cons t rest ih =>
    simp only [txLoop, hv]
    split
    · split
      · exact ih _
      · simp [ih]
    · simp [ih]

/-- C06, every rejection class is sound: if AddBlock refuses a block with class `e`, the conjunct that
`e` names is indeed false for this block at this node (`Reason`): a later timestamp is never reported
as a timestamp error, a well-signed header never as a witness error, and so on. In particular
ErrHdrHashMismatch (`prevHash`) cannot come out of AddBlock: the previous header is looked up by the hash
the block names. Together with `accept_only_valid` (acceptance implies every conjunct) this makes the
verdict a decision of the conjuncts. -/
theorem reject_reason_sound (env : Env L) (s s' : Node L) (b : Block) (e : Err)
    (h : addBlock env s b = (s', some e)) : Reason env s b e := by
  unfold addBlock at h
  split at h
  · rename_i hi
    split at h
    · rename_i hgt; cases h; exact hgt
    · rename_i hgt; cases h
      show b.hdr.index < s.blockHeight + 1
      have : s.blockHeight + 1 ≠ b.hdr.index := by simpa using hi
      omega
  split at h
  · rename_i hsr; cases h
    show b.hdr.sre ≠ s.cfg.sr
    intro hc; simp [hc] at hsr
  split at h
  · -- the header step failed
    rename_i s1 e1 hs
    cases h
    unfold headerStep at hs
    split at hs
    · -- next header: addHeaders with one header
      rename_i hnext
      unfold addHeaders at hs
      have hdw : List.dropWhile (fun x : Header => decide (x.index ≤ s.headerHeight)) [b.hdr] = [b.hdr] := by
        have hidx : b.hdr.index = s.headerHeight + 1 := by simpa using hnext
        simp [List.dropWhile, hidx]
        have : ¬ (s.headerHeight + 1 ≤ s.headerHeight) := by omega
        simp [this]
      simp only [hdw] at hs
      cases hsk : s.cfg.skip
      · simp only [hsk, Bool.not_false, if_true] at hs
        cases hl : s.lookup b.hdr.prevHash with
        | none =>
          simp only [hl] at hs
          cases hs
          exact ⟨hsk, hl⟩
        | some prev =>
          simp only [hl, verifyChain] at hs
          cases hv : verifyHeader env s b.hdr prev with
          | none => simp [hv] at hs
          | some e2 =>
            simp only [hv] at hs
            cases hs
            have hph := (lookup_mem s _ prev hl).2
            rcases verifyHeader_some env s b.hdr prev e hv with ⟨rfl, a, b', c⟩ | ⟨rfl, a⟩ | ⟨rfl, a⟩ | ⟨rfl, a, b'⟩ | ⟨rfl, a⟩
            · exact ⟨hsk, a, prev, hl, b', c⟩
            · exact absurd hph a
            · exact ⟨hsk, prev, hl, a⟩
            · exact ⟨hsk, prev, hl, a, b'⟩
            · exact ⟨hsk, prev, hl, a⟩
      · simp [hsk] at hs
    · rename_i hnext
      have hnext' : b.hdr.index ≠ s.headerHeight + 1 := by simpa using hnext
      split at hs
      · rename_i hk; cases hs
        exact ⟨hnext', fun kh hkh => by rw [hk] at hkh; cases hkh⟩
      · rename_i kh hk
        split at hs
        · rename_i hh; cases hs
          refine ⟨hnext', fun kh' hkh' => ?_⟩
          rw [hk] at hkh'; cases hkh'
          simpa using hh
        · split at hs
          · cases hs
          · rename_i hsw
            have hsk : s.cfg.skip = false := by
              cases hc : s.cfg.skip
              · rfl
              · simp [hc] at hsw
            split at hs
            · rename_i hl; cases hs; exact ⟨hsk, hl⟩
            · rename_i prev hl
              split at hs
              · cases hs
              · rename_i hsg; cases hs
                exact ⟨hsk, prev, hl, by simpa using hsg⟩
  · -- the body step failed
    rename_i s1 hs
    obtain ⟨hl, hx⟩ := headerStep_onlyHeaders env s b
    rw [hs] at hx
    simp only at hx
    subst hx
    unfold bodyStep at h
    split at h
    · rename_i hc; cases h
      simp only [Bool.and_eq_true, Bool.not_eq_true', bne_iff_ne] at hc
      exact ⟨hc.1, hc.2⟩
    split at h
    · rename_i hc; cases h
      simp only [Bool.and_eq_true, Bool.not_eq_true'] at hc
      refine ⟨hc.1, fun hn => ?_⟩
      rw [nodup_hasDup_false _ hn] at hc
      exact absurd hc.2 (by simp)
    split at h
    · rename_i hc; cases h
      simp only [Bool.and_eq_true, Bool.not_eq_true'] at hc
      have hloop : txLoop env s [] b.txs = false := by
        rw [← hc.2]
        exact txLoop_congr env s { s with headers := hl } rfl rfl rfl rfl [] b.txs
      refine ⟨hc.1, ?_, hloop⟩
      cases hv : s.cfg.verifyTx
      · rw [txLoop_noVerify env s hv] at hloop; cases hloop
      · rfl
    · unfold storeBlock at h
      split at h
      · rename_i hp; cases h; left; simpa using hp
      split at h
      · rename_i ha; cases h; right; left; exact ha
      · rename_i l' ha
        split at h
        · cases h
        · rename_i hn; cases h; right; right
          refine ⟨l', ha, ?_⟩
          rw [hs]
          simpa using hn

/-- the only rejection that leaves a trace in the ledger needs state roots in headers AND the header
after this block already recorded (headers announced ahead of the blocks): storeBlock's check of that
header's PrevStateRoot comes after the block was executed on the live trie. -/
theorem ledger_touched_only_with_header_ahead (env : Env L) (s s' : Node L) (b : Block) (e : Err)
    (hne : s.headers ≠ []) (hix : Indexed s.headers)
    (h : addBlock env s b = (s', some e)) (hl : s'.ledger ≠ s.ledger) :
    e = .store ∧ s.cfg.sr = true ∧ b.hdr.index < s.headerHeight ∧ ∃ l', env.apply s.ledger b = some l' := by
  obtain ⟨_, _, hled, _, _⟩ := reject_changes_nothing_aux env s s' b e hne hix h
  rcases hled with hsame | ⟨he, ⟨l', hap⟩, _⟩
  · exact absurd hsame hl
  subst he
  have hr := reject_reason_sound env s s' b .store h
  have hnext : ∃ l'', nextHeaderOK env (headerStep env s b).1 b.hdr.index l'' = false := by
    rcases hr with hp | hn | ⟨l'', _, hno⟩
    · -- primaryOK false: storeBlock returns before execution, the node is untouched
      exfalso
      unfold addBlock at h
      split at h; · split at h <;> cases h
      split at h; · cases h
      split at h
      · rename_i s1 e1 hs
        have := headerStep_onlyHeaders env s b
        rw [hs] at this
        obtain ⟨hh, hx⟩ := this
        cases h
        simp only at hx
        rw [hx] at hl; exact hl rfl
      · rename_i s1 hs
        obtain ⟨hh, hx⟩ := headerStep_onlyHeaders env s b
        rw [hs] at hx; simp only at hx; subst hx
        unfold bodyStep at h
        split at h; · cases h
        split at h; · cases h
        split at h; · cases h
        unfold storeBlock at h
        simp only [hp, Bool.not_false, if_true] at h
        cases h; exact hl rfl
    · rw [hap] at hn; cases hn
    · exact ⟨l'', hno⟩
  obtain ⟨l'', hno⟩ := hnext
  unfold nextHeaderOK at hno
  split at hno
  · rename_i hc
    simp only [Bool.and_eq_true, decide_eq_true_eq] at hc
    obtain ⟨hh, hx⟩ := headerStep_onlyHeaders env s b
    have hsr : s.cfg.sr = true := by rw [hx] at hc; exact hc.1
    refine ⟨rfl, hsr, ?_, l', hap⟩
    -- the header step either appended this header (then nothing is ahead) or left the list alone
    cases hst : headerStep env s b with
    | mk s1 r1 =>
      rcases headerStep_spec env s s1 b r1 hne hst with ⟨_, _, hs1⟩ | ⟨_, hi, hs1, _⟩ | ⟨_, _, hs1, _⟩
      · rw [hst, hs1] at hc; exact hc.2
      · rw [hst, hs1] at hc
        have h2 := hc.2
        have hlen := headers_length s hne
        unfold Node.headerHeight at h2 hi
        simp only [List.length_append, List.length_cons, List.length_nil] at h2
        omega
      · rw [hst, hs1] at hc; exact hc.2
  · cases hno

/-- C06 (2), FULL statement on a node that has no header recorded beyond this block, or does not carry
state roots in headers: a rejected block changes neither configuration, height, ledger nor mempool, and
the header chain only by its own validly linked and signed header. -/
theorem reject_changes_nothing_no_header_ahead (env : Env L) (s s' : Node L) (b : Block) (e : Err)
    (hne : s.headers ≠ []) (hix : Indexed s.headers)
    (hcond : s.cfg.sr = false ∨ s.headerHeight ≤ b.hdr.index)
    (h : addBlock env s b = (s', some e)) :
    s'.cfg = s.cfg ∧ s'.blockHeight = s.blockHeight ∧ s'.ledger = s.ledger ∧ s'.pool = s.pool ∧
    (s'.headers = s.headers ∨
      (s'.headers = s.headers ++ [b.hdr] ∧ b.hdr.index = s.headerHeight + 1 ∧
        (s.cfg.skip = false → ∃ last, s.headers.getLast? = some last ∧ LinkOK env last b.hdr))) := by
  obtain ⟨h1, h2, _, h4, h5⟩ := reject_changes_nothing_aux env s s' b e hne hix h
  refine ⟨h1, h2, ?_, h4, h5⟩
  apply Classical.byContradiction
  intro hl
  obtain ⟨_, hsr, hlt, _⟩ := ledger_touched_only_with_header_ahead env s s' b e hne hix h hl
  rcases hcond with hc | hc
  · rw [hc] at hsr; cases hsr
  · omega

/-- C06 (3), FULL statement under the same condition: after any rejected block (that did not leave the
header of a different block behind), the block the node would accept is still accepted and gives the
same node. -/
theorem correct_still_accepted_no_header_ahead (env : Env L) (s s' t : Node L) (b' b : Block) (e : Err)
    (hne : s.headers ≠ []) (hix : Indexed s.headers)
    (hcond : s.cfg.sr = false ∨ s.headerHeight ≤ b'.hdr.index)
    (hrej : addBlock env s b' = (s', some e))
    (hacc : addBlock env s b = (t, none))
    (hsame : s'.headers = s.headers ∨ b'.hdr.hash = b.hdr.hash) :
    addBlock env s' b = (t, none) :=
  correct_still_accepted_aux env s s' t b' b e hne hix hrej hacc hsame
    (reject_changes_nothing_no_header_ahead env s s' b' e hne hix hcond hrej).2.2.1

/-- a rejected block leaves the ledger as it was (storeBlock drops the MPT batch on every error path) -/
theorem reject_ledger_same (env : Env L) (s s' : Node L) (b : Block) (e : Err)
    (h : addBlock env s b = (s', some e)) : s'.ledger = s.ledger := by
  unfold addBlock at h
  split at h
  · cases h; rfl
  split at h
  · cases h; rfl
  obtain ⟨hl, hx⟩ := headerStep_onlyHeaders env s b
  split at h
  · rename_i s1 e1 hs
    rw [hs] at hx; simp only at hx
    cases h; rw [hx]
  · rename_i s1 hs
    rw [hs] at hx; simp only at hx
    have := bodyStep_err_same env s1 s' b e h
    rw [this, hx]

end NeoModel.AddBlock
