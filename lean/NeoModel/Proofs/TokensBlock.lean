/-
Block-level operations (OnPersist fee burning and rewards, PostPersist rewards, genesis) preserve the invariant.
-/
import NeoModel.Proofs.TokensVote
namespace NeoModel.Tokens

/-- fees burnt from the Notary contract's own balance: the fees of the transactions it sent. -/
def owed (nt : Nat) : List TxFee → Int
  | [] => 0
  | t :: ts => (if t.sender = nt then t.sys + t.net else 0) + owed nt ts

theorem InvG.burnFees {nt : Nat} {dn dg k : Int} {l l' : Ledger} {txs : List TxFee}
    (hi : InvG nt dn dg k l) (h : burnFees l txs = some l') : InvG nt dn dg (k - owed nt txs) l' := by
  induction txs generalizing l k with
  | nil => simp [Tokens.burnFees] at h; subst h; simpa [owed] using hi
  | cons t ts ih =>
    simp only [Tokens.burnFees] at h
    cases hb : Tokens.burnGas l t.sender (t.sys + t.net) with
    | none => simp [hb] at h
    | some l1 =>
      simp only [hb] at h
      have h1 := hi.burnGas hb
      have h2 := ih h1 h
      have e : k - (if t.sender = nt then t.sys + t.net else 0) - owed nt ts = k - owed nt (t :: ts) := by
        simp only [owed]; omega
      rw [← e]; exact h2

/-- assumption A2 on the transactions of a block. -/
def txsOK (nt : Nat) (txs : List TxFee) : Prop :=
  ∀ t ∈ txs, t.sender = nt → t.nkeys.isSome = true ∧ t.payer.isSome = true

theorem InvG.notaryCharge {nt : Nat} {dn dg k : Int} {e : Env} {l l' : Ledger} {txs : List TxFee} {n : Int}
    (hi : InvG nt dn dg k l) (hnt : e.notary = nt) (hok : txsOK nt txs)
    (h : notaryCharge e l txs = some (l', n)) : InvG nt dn dg (k + owed nt txs) l' := by
  induction txs generalizing l k n with
  | nil => simp [Tokens.notaryCharge] at h; obtain ⟨h, _⟩ := h; subst h; simpa [owed] using hi
  | cons t ts ih =>
    have hok' : txsOK nt ts := fun t' ht' => hok t' (List.mem_cons_of_mem _ ht')
    have hA := hok t (by simp)
    simp only [Tokens.notaryCharge] at h
    cases hk : t.nkeys with
    | none =>
      simp only [hk] at h
      have hs : t.sender ≠ nt := by
        intro hs; have := (hA hs).1; rw [hk] at this; simp at this
      have := ih hi hok' h
      simpa [owed, hs] using this
    | some kk =>
      simp only [hk] at h
      by_cases hs : t.sender = e.notary
      · rw [if_pos hs] at h
        cases hp : t.payer with
        | none => simp [hp] at h
        | some p =>
          simp only [hp] at h
          cases hg : get l.deps p with
          | none => simp [hg] at h
          | some d =>
            simp only [hg] at h
            have hd := hi.notary.nonneg _ (get_mem _ _ _ hg)
            have hsn : t.sender = nt := by rw [hs, hnt]
            by_cases ha : d.amount - (t.sys + t.net) < 0
            · simp [ha] at h
            · rw [if_neg ha] at h
              by_cases hz : d.amount - (t.sys + t.net) = 0
              · rw [if_pos hz] at h
                have hn := hi.notary.del p
                simp [at0, hg] at hn
                have hi1 : InvG nt dn dg (k + d.amount) { l with deps := del l.deps p } :=
                  ⟨hi.votes, hi.neoSupply, hi.neoSum, hi.gas, hn⟩
                cases hr : Tokens.notaryCharge e { l with deps := del l.deps p } ts with
                | none => simp [hr] at h
                | some r =>
                  obtain ⟨l2, n2⟩ := r
                  simp only [hr] at h
                  injection h with h; injection h with h1 _; subst h1
                  have := ih hi1 hok' hr
                  have e1 : k + d.amount + owed nt ts = k + owed nt (t :: ts) := by simp [owed, hsn]; omega
                  rw [← e1]; exact this
              · rw [if_neg hz] at h
                have hn := hi.notary.put p { d with amount := d.amount - (t.sys + t.net) } (by simp; omega)
                simp [at0, hg] at hn
                have hi1 : InvG nt dn dg (k - (d.amount - (t.sys + t.net) - d.amount))
                    { l with deps := put l.deps p { d with amount := d.amount - (t.sys + t.net) } } :=
                  ⟨hi.votes, hi.neoSupply, hi.neoSum, hi.gas, hn⟩
                cases hr : Tokens.notaryCharge e { l with deps := put l.deps p { d with amount := d.amount - (t.sys + t.net) } } ts with
                | none => simp [hr] at h
                | some r =>
                  obtain ⟨l2, n2⟩ := r
                  simp only [hr] at h
                  injection h with h; injection h with h1 _; subst h1
                  have := ih hi1 hok' hr
                  have e1 : k - (d.amount - (t.sys + t.net) - d.amount) + owed nt ts = k + owed nt (t :: ts) := by
                    simp [owed, hsn]; omega
                  rw [← e1]; exact this
      · rw [if_neg hs] at h
        have hsn : t.sender ≠ nt := by rw [← hnt]; exact hs
        cases hr : Tokens.notaryCharge e l ts with
        | none => simp [hr] at h
        | some r =>
          obtain ⟨l2, n2⟩ := r
          simp only [hr] at h
          injection h with h; injection h with h1 _; subst h1
          have := ih hi hok' hr
          simpa [owed, hsn] using this

theorem InvG.mintAll {nt : Nat} {dn dg k : Int} {l l' : Ledger} {hs : List Nat} {g : Int}
    (hi : InvG nt dn dg k l) (hn : ¬ hs.contains nt = true) (h : mintAll l hs g = some l') : InvG nt dn dg k l' := by
  induction hs generalizing l with
  | nil => simp [Tokens.mintAll] at h; subst h; exact hi
  | cons x xs ih =>
    simp only [Tokens.mintAll] at h
    cases hm : Tokens.mintGas l x g with
    | none => simp [hm] at h
    | some l1 =>
      simp only [hm] at h
      have hx : x ≠ nt := by intro hx; apply hn; simp [hx]
      have h1 := hi.mintGas hm
      simp [hx] at h1
      exact ih h1 (by intro hc; apply hn; simp at hc ⊢; exact Or.inr hc) h

theorem InvG.onPersist {nt : Nat} {e : Env} {l l1 l2 : Ledger} {primary : Nat} {notaries : List Nat} {txs : List TxFee}
    (hi : Inv nt l) (hnt : e.notary = nt) (hp : primary ≠ nt) (hn : ¬ notaries.contains nt = true) (hok : txsOK nt txs)
    (h1 : gasOnPersist e l primary txs = some l1) (h2 : notaryOnPersist e l1 notaries txs = some l2) : Inv nt l2 := by
  -- GAS.OnPersist
  have hg : InvG nt 0 0 (0 - owed nt txs) l1 := by
    unfold Tokens.gasOnPersist at h1
    split at h1
    · rename_i hemp
      injection h1 with h1; subst h1
      have : txs = [] := by simpa using hemp
      subst this; simpa [owed] using hi
    · cases hb : Tokens.burnFees l txs with
      | none => simp [hb] at h1
      | some lb =>
        simp only [hb] at h1
        have := (hi.burnFees hb).mintGas h1
        simpa [hp] using this
  -- Notary.OnPersist
  unfold Tokens.notaryOnPersist at h2
  cases hc : Tokens.notaryCharge e l1 txs with
  | none => simp [hc] at h2
  | some r =>
    obtain ⟨lc, n⟩ := r
    simp only [hc] at h2
    have hi2 : Inv nt lc := by
      have := hg.notaryCharge hnt hok hc
      have e0 : (0 : Int) - owed nt txs + owed nt txs = 0 := by omega
      rw [e0] at this; exact this
    split at h2
    · injection h2 with h2; subst h2; exact hi2
    · split at h2
      · injection h2 with h2; subst h2; exact hi2
      · exact hi2.mintAll hn h2

/-! ### PostPersist -/

theorem sameCore_voterRewards (e : Env) (vr : Int) (l : Ledger) (cs : List (Nat × Int)) (i : Nat) :
    sameCore l (voterRewards e vr l cs i) := by
  induction cs generalizing l i with
  | nil => exact sameCore.rfl' _
  | cons c rest ih =>
    obtain ⟨pub, cached⟩ := c
    simp only [voterRewards]
    refine sameCore.trans ?_ (ih _ _)
    split <;> split <;> first | exact ⟨rfl, rfl, rfl, rfl, rfl, rfl, rfl⟩ | exact sameCore.rfl' _

theorem InvG.neoPostPersist {nt : Nat} {dn dg k : Int} {e : Env} {l l' : Ledger} {committee : List (Nat × Nat × Int)}
    (hi : InvG nt dn dg k l) (hc : ¬ committee.any (fun c => c.2.1 = nt) = true)
    (h : neoPostPersist e l committee = some l') : InvG nt dn dg k l' := by
  unfold Tokens.neoPostPersist at h
  cases hg : gasPerBlockAt l.gpb.reverse (e.index + 1) with
  | none => simp [hg] at h
  | some gas =>
    simp only [hg] at h
    split at h
    · simp at h
    · cases hm : committee[e.index % e.csize]? with
      | none => simp [hm] at h
      | some m =>
        obtain ⟨p, acc, v⟩ := m
        simp only [hm] at h
        have hacc : acc ≠ nt := by
          intro hh; apply hc
          have := List.mem_of_getElem? hm
          simp only [List.any_eq_true]
          exact ⟨_, this, by simp [hh]⟩
        cases hmint : Tokens.mintGas l acc (gas * 10 / 100) with
        | none => simp [hmint] at h
        | some l1 =>
          simp only [hmint] at h
          have h1 := hi.mintGas hmint
          simp [hacc] at h1
          split at h
          · injection h with h; subst h
            exact h1.congr (sameCore_voterRewards _ _ _ _ _)
          · injection h with h; subst h; exact h1

theorem sameCore_neoOnPersist (e : Env) (l : Ledger) : sameCore l (neoOnPersist e l) := by
  unfold neoOnPersist; split
  · exact ⟨rfl, rfl, rfl, rfl, rfl, rfl, rfl⟩
  · exact sameCore.rfl' _

theorem sameCore_setGasPerBlock (e : Env) (l l' : Ledger) (g : Int) (w : Bool) (h : setGasPerBlock e l g w = some l') :
    sameCore l l' := by
  unfold setGasPerBlock at h
  split at h
  · simp at h
  · split at h
    · simp at h
    · injection h with h; subst h; exact ⟨rfl, rfl, rfl, rfl, rfl, rfl, rfl⟩

theorem sameCore_setRegisterPrice (l l' : Ledger) (p : Int) (w : Bool) (h : setRegisterPrice l p w = some l') :
    sameCore l l' := by
  unfold setRegisterPrice at h
  split at h
  · simp at h
  · split at h
    · simp at h
    · injection h with h; subst h; exact ⟨rfl, rfl, rfl, rfl, rfl, rfl, rfl⟩

theorem sameCore_designateNotary (e : Env) (l l' : Ledger) (ns : List Nat) (w : Bool) (h : designateNotary e l ns w = some l') :
    sameCore l l' ∧ l'.events = l.events := by
  unfold designateNotary at h
  split at h
  · simp at h
  · split at h
    · simp at h
    · split at h
      · simp at h
      · split at h
        · simp at h
        · split at h
          · simp at h
          · injection h with h; subst h; exact ⟨⟨rfl, rfl, rfl, rfl, rfl, rfl, rfl⟩, rfl⟩

/-! ### genesis -/

theorem empty_inv (nt : Nat) (l0 : Ledger) (h1 : l0.neo = []) (h2 : l0.gas = []) (h3 : l0.cands = []) (h4 : l0.deps = [])
    (h5 : l0.voters = 0) (_h6 : l0.neoSupply = 0) (h7 : l0.gasSupply = 0) :
    VotesOK l0.neo l0.cands l0.voters ∧ GasOK l0.gas l0.gasSupply 0 ∧ NotaryOK nt l0.gas l0.deps 0 := by
  rw [h1, h2, h3, h4, h5, h7]
  refine ⟨⟨by simp [keys], by simp [keys], by simp, fun c => by simp [at0, get, sumBy], by simp [sumBy], by simp⟩,
    ⟨by simp [keys], by simp, by simp [sumBy]⟩, ⟨by simp [keys], by simp, by simp [at0, get, sumBy]⟩⟩

theorem mintNeo_spec (e : Env) (l l' : Ledger) (h : Nat) (amt : Int) (hv : VotesOK l.neo l.cands l.voters)
    (hm : mintNeo e l h amt = some l') :
    VotesOK l'.neo l'.cands l'.voters ∧ l'.neoSupply = l.neoSupply + amt ∧
    sumBy (·.bal) l'.neo = sumBy (·.bal) l.neo + amt ∧ l'.gas = l.gas ∧ l'.gasSupply = l.gasSupply ∧ l'.deps = l.deps := by
  unfold mintNeo at hm
  simp only [] at hm
  split at hm
  · rename_i h0
    injection hm with hm; subst hm; subst h0
    exact ⟨hv, by simp, by simp, rfl, rfl, rfl⟩
  · rename_i h0
    split at hm
    · rename_i hok
      injection hm with hm; subst hm
      have u := neoInc_store e l h amt none hv (fun hc => absurd hc h0) hok
      have u1 := u.votes; have u2 := u.neoSupply; have u3 := u.sum; have u4 := u.gas; have u5 := u.gasSupply; have u6 := u.deps
      simp only [] at u1 u2 u3 u4 u5 u6
      refine ⟨u1, ?_, u3, u4, u5, u6⟩
      show _ + amt = _
      rw [u2]
    · simp at hm

theorem sameCore_updateNewEpoch (e : Env) (l l' : Ledger) (h : updateNewEpoch e l = some l') : sameCore l l' := by
  unfold updateNewEpoch at h
  split at h
  · simp at h
  · split at h
    · simp at h
    · injection h with h; subst h; exact ⟨rfl, rfl, rfl, rfl, rfl, rfl, rfl⟩

theorem updateNewEpoch_events (e : Env) (l l' : Ledger) (h : updateNewEpoch e l = some l') : l'.events = l.events := by
  unfold updateNewEpoch at h
  split at h
  · simp at h
  · split at h
    · simp at h
    · injection h with h; subst h; rfl

theorem genesis_from (nt : Nat) (e : Env) (h : Nat) (gasInit : Int) (l0 l : Ledger) (hh : h ≠ nt)
    (e0 : l0.neo = [] ∧ l0.gas = [] ∧ l0.cands = [] ∧ l0.deps = [] ∧ l0.voters = 0 ∧ l0.neoSupply = 0 ∧ l0.gasSupply = 0)
    (hg : genesisFrom e l0 h gasInit = some l) : Inv nt l := by
  unfold genesisFrom at hg
  obtain ⟨z1, z2, z3, z4, z5, z6, z7⟩ := e0
  obtain ⟨hv0, hg0, hn0⟩ := empty_inv nt l0 z1 z2 z3 z4 z5 z6 z7
  cases hm : mintNeo e l0 h 100000000 with
  | none => simp [hm] at hg
  | some l1 =>
    simp only [hm] at hg
    obtain ⟨s1, s2, s3, s4, s5, s6⟩ := mintNeo_spec _ l0 l1 h 100000000 hv0 hm
    have hi1 : Inv nt l1 := by
      refine ⟨s1, by rw [s2, z6]; rfl, ?_, by rw [s4, s5]; exact hg0, by rw [s4, s6]; exact hn0⟩
      rw [s3, s2, z1, z6]; simp [sumBy]
    cases hu : updateNewEpoch e l1 with
    | none => simp [hu] at hg
    | some l2 =>
      simp only [hu] at hg
      have hi2 : Inv nt (neoOnPersist e l2) :=
        (hi1.congr (sameCore_updateNewEpoch _ _ _ hu)).congr (sameCore_neoOnPersist _ _)
      have := hi2.mintGas hg
      simpa [hh] using this

theorem genesis_inv (nt : Nat) (e : Env) (h : Nat) (gasInit : Int) (l : Ledger) (hh : h ≠ nt) (hg : genesis e h gasInit = some l) :
    Inv nt l := by
  unfold genesis at hg
  simp only [] at hg
  split at hg
  · simp at hg
  · exact genesis_from nt _ h gasInit _ l hh ⟨rfl, rfl, rfl, rfl, rfl, rfl, rfl⟩ hg

end NeoModel.Tokens
