/-
Helper definitions for the regenerated-facts obligations of C04 (Generated/ExecFacts.lean is
rewritten from /repo's source by harness/cmd/extract/execfacts.go on every check run).
-/
import NeoModel.Model.Exec
import NeoModel.Generated.ExecFacts
namespace NeoModel.Exec
open NeoModel.Generated

def Flags.toNat (f : Flags) : Nat :=
  (if f.r then 1 else 0) + (if f.w then 2 else 0) + (if f.c then 4 else 0) + (if f.n then 8 else 0)
/-- `callflag.Has`. -/
def Flags.has (f : Flags) (m : Nat) : Bool := f.toNat &&& m == m

/-- required flags of a system call / native method, from the regenerated table. -/
def need (name : String) : Nat := ((ExecFacts.syscallFlags ++ ExecFacts.nativeFlags).lookup name).getD 0

end NeoModel.Exec
