/-
C12 proofs, part 5e: all covered stack/heap instructions together.
-/
import NeoModel.Proofs.VmAcctExecC
namespace NeoModel.VmAcct

/-- the stack/heap instructions covered by the invariant proofs (PACKMAP, UNPACK, KEYS, VALUES,
CONVERT are modelled and tied, not proved) -/
def SOp.core : SOp → Bool
  | .packmap _ _ | .unpack | .keys | .values | .convert _ => false
  | _ => true

/-- side conditions of APPEND / SETITEM: no struct is cloned, map keys are primitives -/
def SOp.okFor (op : SOp) (w : W) : Prop :=
  match op with
  | .append => ∀ id, w.st.head? ≠ some (.str id)
  | .setitem _ => (∀ id, w.st.head? ≠ some (.str id)) ∧ (∀ a k id r, w.st = a :: k :: .map id :: r → k = .prim)
  | _ => True

theorem execS_throw (op : SOp) (w w' : W) (h : execS op w = some (.throw w')) :
    (∃ i, op = .setitem i) ∨ (∃ i, op = .pickitem i) := by
  cases op <;> first
    | exact Or.inl ⟨_, rfl⟩
    | exact Or.inr ⟨_, rfl⟩
    | (exfalso
       simp only [execS, okW, Option.map_eq_some_iff] at h
       repeat' split at h
       all_goals first | simp at h | skip)

end NeoModel.VmAcct

namespace NeoModel.VmAcct

theorem execS_inv {rest : Nat → Nat} {n : Nat} (op : SOp) (hc : op.core = true) (w : W) (inv : InvW w rest n)
    (hok : op.okFor w) : ∀ out, execS op w = some out → PostOut w.c.heap rest n out := by
  intro out h
  cases out with
  | throw w' =>
    rcases execS_throw op w w' h with ⟨i, rfl⟩ | ⟨i, rfl⟩
    · exact setitem_inv i inv hok.1 hok.2 _ h
    · exact post_of_inv (pickitem_inv i inv _ h)
  | ok w' =>
    cases op with
    | generic k j => exact post_of_inv (generic_inv k j inv h)
    | dup => exact post_of_inv (dup_inv inv h)
    | over => exact post_of_inv (over_inv inv h)
    | pick k => exact post_of_inv (pick_inv k inv h)
    | tuck => exact post_of_inv (tuck_inv inv h)
    | swap => exact post_of_inv (swap_inv inv h)
    | rot => exact post_of_inv (rot_inv inv h)
    | roll k => exact post_of_inv (roll_inv k inv h)
    | reverse k pf => exact post_of_inv (reverse_inv k pf inv h)
    | nip => exact post_of_inv (nip_inv inv h)
    | xdrop k => exact post_of_inv (xdrop_inv k inv h)
    | clear => exact post_of_inv (clear_inv inv h)
    | newEmpty k => exact post_of_inv (newEmpty_inv k inv h)
    | newSized k m => exact post_of_inv (newSized_inv k m inv h)
    | pack k m => exact post_of_inv (pack_inv k m inv h)
    | packmap _ _ => cases hc
    | unpack => cases hc
    | append => exact post_of_inv (append_inv inv hok h)
    | setitem i => exact setitem_inv i inv hok.1 hok.2 _ h
    | remove i => exact post_of_inv (remove_inv i inv h)
    | clearitems => exact post_of_inv (clearitems_inv inv h)
    | popitem => exact post_of_inv (popitem_inv inv h)
    | pickitem i => exact post_of_inv (pickitem_inv i inv _ h)
    | keys => cases hc
    | values => cases hc
    | convert _ => cases hc
    | reverseitems => exact post_of_inv (reverseitems_inv inv h)
    | mkarray => exact post_of_inv (mkarray_inv inv h)

end NeoModel.VmAcct
