/-
C12 proofs, part 5e: all covered stack/heap instructions together.
-/
import NeoModel.Proofs.VmAcctExecH
namespace NeoModel.VmAcct

/-- the stack/heap instructions covered by the invariant proofs: all of them (kept as a predicate so
that an instruction added to the model is not silently claimed) -/
def SOp.core : SOp → Bool
  | _ => true

/-- side conditions: map keys are primitives and a map's children come in pairs (the real VM faults
on any other key: validateMapKey) -/
def SOp.okFor (op : SOp) (w : W) : Prop :=
  match op with
  | .setitem _ => ∀ a k id r, w.st = a :: k :: .map id :: r → k = .prim
  | .keys => ∀ id r, w.st = .map id :: r → ∀ x ∈ evens (chOf w.c.heap id), x.cid = none
  | .packmap k _ => ∀ x ∈ pairKeys k (w.st.drop 1), x.cid = none
  | .values => ∀ id r, w.st = .map id :: r → (chOf w.c.heap id).length % 2 = 0 ∧ ∀ x ∈ evens (chOf w.c.heap id), x.cid = none
  | _ => True

theorem execS_throw (op : SOp) (w w' : W) (h : execS op w = some (.throw w')) :
    (∃ i, op = .setitem i) ∨ (∃ i, op = .pickitem i) := by
  cases op <;> first
    | exact Or.inl ⟨_, rfl⟩
    | exact Or.inr ⟨_, rfl⟩
    | (exfalso
       simp only [execS, okW, Option.map_eq_some_iff] at h
       repeat' split at h
       all_goals first | simp at h | skip)

end NeoModel.VmAcct

namespace NeoModel.VmAcct

theorem execS_inv {rest : Nat → Nat} {n : Nat} (op : SOp) (hc : op.core = true) (w : W) (inv : InvW w rest n)
    (hok : op.okFor w) : ∀ out, execS op w = some out → PostOut w.c.heap rest n out := by
  intro out h
  cases out with
  | throw w' =>
    rcases execS_throw op w w' h with ⟨i, rfl⟩ | ⟨i, rfl⟩
    · exact setitem_inv' i inv hok _ h
    · exact post_of_inv (pickitem_inv i inv _ h)
  | ok w' =>
    cases op with
    | generic k j => exact post_of_inv (generic_inv k j inv h)
    | dup => exact post_of_inv (dup_inv inv h)
    | over => exact post_of_inv (over_inv inv h)
    | pick k => exact post_of_inv (pick_inv k inv h)
    | tuck => exact post_of_inv (tuck_inv inv h)
    | swap => exact post_of_inv (swap_inv inv h)
    | rot => exact post_of_inv (rot_inv inv h)
    | roll k => exact post_of_inv (roll_inv k inv h)
    | reverse k pf => exact post_of_inv (reverse_inv k pf inv h)
    | nip => exact post_of_inv (nip_inv inv h)
    | xdrop k => exact post_of_inv (xdrop_inv k inv h)
    | clear => exact post_of_inv (clear_inv inv h)
    | newEmpty k => exact post_of_inv (newEmpty_inv k inv h)
    | newSized k m => exact post_of_inv (newSized_inv k m inv h)
    | pack k m => exact post_of_inv (pack_inv k m inv h)
    | packmap k dups => exact post_of_inv (packmap_inv k dups inv hok h)
    | unpack => exact post_of_inv (unpack_inv inv h)
    | append => exact post_of_inv (append_inv' inv h)
    | setitem i => exact setitem_inv' i inv hok _ h
    | remove i => exact post_of_inv (remove_inv i inv h)
    | clearitems => exact post_of_inv (clearitems_inv inv h)
    | popitem => exact post_of_inv (popitem_inv inv h)
    | pickitem i => exact post_of_inv (pickitem_inv i inv _ h)
    | keys => exact post_of_inv (keys_inv inv hok h)
    | values => exact post_of_inv (values_inv' inv hok h)
    | convert t => exact post_of_inv (convert_inv t inv h)
    | reverseitems => exact post_of_inv (reverseitems_inv inv h)
    | mkarray => exact post_of_inv (mkarray_inv inv h)

end NeoModel.VmAcct
