/-
C06 helper lemmas: the stages of addBlock, congruence of the body step, and the proof that a correct block is still accepted after a rejected one.
-/
import NeoModel.Proofs.AddBlockBasic
namespace NeoModel.AddBlock
variable {L : Type}

theorem headers_length (s : Node L) (hne : s.headers ≠ []) : s.headers.length = s.headerHeight + 1 := by
  unfold Node.headerHeight
  cases hh : s.headers with
  | nil => exact absurd hh hne
  | cons a l => simp

/-- the stages of addBlock -/
theorem addBlock_spec (env : Env L) (s s' : Node L) (b : Block) (r : Option Err)
    (h : addBlock env s b = (s', r)) :
    (b.hdr.index ≠ s.blockHeight + 1 ∧ s' = s ∧ ∃ e, r = some e) ∨
    (b.hdr.index = s.blockHeight + 1 ∧ b.hdr.sre ≠ s.cfg.sr ∧ s' = s ∧ r = some .srFlag) ∨
    (b.hdr.index = s.blockHeight + 1 ∧ b.hdr.sre = s.cfg.sr ∧
      ∃ s1 r1, headerStep env s b = (s1, r1) ∧
        ((∃ e, r1 = some e ∧ s' = s1 ∧ r = some e) ∨ (r1 = none ∧ bodyStep env s1 b = (s', r)))) := by
  unfold addBlock at h
  split at h
  · rename_i hi
    cases h
    left
    refine ⟨?_, rfl, _, rfl⟩
    intro hc; simp [hc] at hi
  rename_i hi
  have hi' : b.hdr.index = s.blockHeight + 1 := by
    simp at hi; exact hi.symm
  split at h
  · rename_i hsr
    cases h
    right; left
    refine ⟨hi', ?_, rfl, rfl⟩
    intro hc; simp [hc] at hsr
  rename_i hsr
  have hsr' : b.hdr.sre = s.cfg.sr := by
    simp at hsr; exact hsr.symm
  right; right
  refine ⟨hi', hsr', ?_⟩
  split at h
  · rename_i s1 e hs
    cases h
    exact ⟨s', some e, hs, Or.inl ⟨e, rfl, rfl, rfl⟩⟩
  · rename_i s1 hs
    exact ⟨s1, none, hs, Or.inr ⟨rfl, h⟩⟩

theorem txLoop_congr (env : Env L) (s1 s2 : Node L) (hp : s1.pool = s2.pool) (hl : s1.ledger = s2.ledger)
    (hb : s1.blockHeight = s2.blockHeight) (hc : s1.cfg = s2.cfg) (p : List Tx) (ts : List Tx) :
    txLoop env s1 p ts = txLoop env s2 p ts := by
  induction ts generalizing p with
  | nil => rfl
  | cons t rest ih =>
    simp only [txLoop, pooledSame, hp, hl, hb, hc, ih]
    rfl

theorem node_ext (a b : Node L) (h1 : a.cfg = b.cfg) (h2 : a.blockHeight = b.blockHeight)
    (h3 : a.headers = b.headers) (h4 : a.ledger = b.ledger) (h5 : a.pool = b.pool) : a = b := by
  cases a; cases b; simp_all

theorem set_append_last (hs : List Header) (x y : Header) :
    (hs ++ [x]).set hs.length y = hs ++ [y] := by
  induction hs with
  | nil => rfl
  | cons a l ih => simp [ih]

theorem bodyStep_congr (env : Env L) (a c t : Node L) (b : Block)
    (hc : a.cfg = c.cfg) (hb : a.blockHeight = c.blockHeight) (hl : a.ledger = c.ledger) (hp : a.pool = c.pool)
    (hn : ∀ l', nextHeaderOK env a b.hdr.index l' = nextHeaderOK env c b.hdr.index l')
    (hs : a.headers.set b.hdr.index b.hdr = c.headers.set b.hdr.index b.hdr)
    (h : bodyStep env c b = (t, none)) : bodyStep env a b = (t, none) := by
  unfold bodyStep at h ⊢
  rw [txLoop_congr env a c hp hl hb hc, hc]
  split at h
  · cases h
  · split at h
    · cases h
    · split at h
      · cases h
      · rename_i h1 h2 h3
        rw [if_neg h1, if_neg h2, if_neg h3]
        obtain ⟨l', ha, hn', ht⟩ := storeBlock_ok env c t b h
        have hprim := storeBlock_ok_primary env c t b h
        unfold storeBlock
        rw [hl, ha]
        simp only [hprim, Bool.not_true, Bool.false_eq_true, if_false]
        simp only [hn l', hn', if_true]
        rw [ht]
        congr 1
        unfold commit
        apply node_ext <;> simp [hc, hp, hs]

theorem lookup_append (s : Node L) (x : Nat) (last h : Header) (hl : s.lookup x = some last) :
    ({ s with headers := s.headers ++ [h] } : Node L).lookup x = some last := by
  unfold Node.lookup at hl ⊢
  simp only [List.find?_append, hl]
  rfl

/-- C06 (3): after any rejected block `b'`, a block `b` that the node would have accepted is still
accepted and leads to exactly the same node, provided the rejected block did not leave the header
of a *different* block behind (it left the header chain untouched, or its header has `b`'s hash).
The excluded case needs validators signing two different headers for one height; then the recorded
header's hash decides (the model answers `hashMismatch`, as the node does). -/
theorem correct_still_accepted_aux (env : Env L) (s s' t : Node L) (b' b : Block) (e : Err)
    (hne : s.headers ≠ []) (hix : Indexed s.headers)
    (hrej : addBlock env s b' = (s', some e))
    (hacc : addBlock env s b = (t, none))
    (hsame : s'.headers = s.headers ∨ b'.hdr.hash = b.hdr.hash)
    (c3 : s'.ledger = s.ledger) :
    addBlock env s' b = (t, none) := by
  obtain ⟨c1, c2, _, c4, c5⟩ := reject_changes_nothing_aux env s s' b' e hne hix hrej
  rcases c5 with c5 | ⟨c5, c6, _⟩
  · have : s' = s := node_ext _ _ c1 c2 c5 c3 c4
    rw [this]; exact hacc
  · have hh : b'.hdr.hash = b.hdr.hash := by
      rcases hsame with hs | hs
      · rw [c5] at hs
        have := congrArg List.length hs
        simp at this
      · exact hs
    have hlen := headers_length s hne
    rcases addBlock_spec env s t b none hacc with ⟨_, _, e', he⟩ | ⟨_, _, _, he⟩ | ⟨hbi, hbsr, s1, r1, hs1, hrest⟩
    · cases he
    · cases he
    rcases addBlock_spec env s s' b' (some e) hrej with ⟨hn, hs', _⟩ | ⟨_, _, hs', _⟩ | ⟨hbi', _, _⟩
    · rw [hs'] at c5; have := congrArg List.length c5; simp at this
    · rw [hs'] at c5; have := congrArg List.length c5; simp at this
    have hidx : b.hdr.index = s.headerHeight + 1 := by omega
    rcases hrest with ⟨_, hr, _, hn⟩ | ⟨hr1, hbody⟩
    · cases hn
    subst hr1
    rcases headerStep_spec env s s1 b none hne hs1 with ⟨_, hr, _⟩ | ⟨_, _, hs1eq, hver⟩ | ⟨_, hni, _⟩
    · cases hr
    · have hhh' : s'.headerHeight = s.headerHeight + 1 := by
        unfold Node.headerHeight; rw [c5]; simp; omega
      have hh1 : s1.headerHeight = s.headerHeight + 1 := by
        unfold Node.headerHeight; rw [hs1eq]; simp; omega
      have hstep' : headerStep env s' b = (s', none) := by
        unfold headerStep
        have : (b.hdr.index == s'.headerHeight + 1) = false := by
          simp; omega
        simp only [this]
        have hget : s'.headers[b.hdr.index]? = some b'.hdr := by
          rw [c5, hidx, ← hlen]; simp
        have hne' : (b'.hdr.hash != b.hdr.hash) = false := by simp [hh]
        simp only [hget, hne']
        cases hsk : s.cfg.skip with
        | true => simp [c1, hsk]
        | false =>
          obtain ⟨last, hl, hv⟩ := hver hsk
          have hsg := (verifyHeader_none env s b.hdr last hv).1.2.2.2
          have hl' : s'.lookup b.hdr.prevHash = some last := by
            have := lookup_append s b.hdr.prevHash last b'.hdr hl
            have hs'eq : s' = { s with headers := s.headers ++ [b'.hdr] } :=
              node_ext _ _ c1 c2 c5 c3 c4
            rw [hs'eq]; exact this
          by_cases hw : (b'.hdr.wit == b.hdr.wit) = true
          · simp [hw]
          · simp [c1, hsk, hw, hl', hsg]
      unfold addBlock
      have e1 : (s'.blockHeight + 1 != b.hdr.index) = false := by simp [c2, hbi]
      have e2 : (s'.cfg.sr != b.hdr.sre) = false := by simp [c1, hbsr]
      simp only [e1, e2, hstep']
      apply bodyStep_congr env s' s1 t b (by rw [c1, hs1eq]) (by rw [c2, hs1eq]) (by rw [c3, hs1eq]) (by rw [c4, hs1eq]) ?_ ?_ hbody
      · intro l'
        unfold nextHeaderOK
        have n1 : decide (s'.headerHeight > b.hdr.index) = false := by simp; omega
        have n2 : decide (s1.headerHeight > b.hdr.index) = false := by simp; omega
        simp [n1, n2]
      · rw [c5, hs1eq, hidx, ← hlen]
        simp
    · exact absurd hidx hni

end NeoModel.AddBlock
