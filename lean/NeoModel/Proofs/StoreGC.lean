/-
C09 helper lemmas: SeekGC on every store kind is one step that visits the own-level ordered scan and
removes exactly the visited keys the callback does not keep.
-/
import NeoModel.Proofs.StoreSeekSpec
set_option linter.unusedSimpArgs false
namespace NeoModel.Store

/-- the keys `SeekGC` deletes: visited and `keep = false`. -/
def deadKeys (vis : List KV) (keep : Key → Bool) : List Key := (vis.filter (fun e => !keep e.1)).map Prod.fst

theorem mem_deadKeys (vis : List KV) (keep : Key → Bool) (q : Key) :
    q ∈ deadKeys vis keep ↔ (∃ v, (q, v) ∈ vis) ∧ keep q = false := by
  unfold deadKeys
  simp only [List.mem_map, List.mem_filter, Bool.not_eq_true']
  constructor
  · rintro ⟨⟨k, v⟩, ⟨h1, h2⟩, rfl⟩; exact ⟨⟨v, h1⟩, h2⟩
  · rintro ⟨⟨v, h1⟩, h2⟩; exact ⟨(q, v), ⟨h1, h2⟩, rfl⟩

theorem mapGet_foldl_delMem (dead : List Key) (m : GoMap) (q : Key) :
    mapGet (dead.foldl (fun a k => if isStor k then a else mapDel a k) m) q =
      if q ∈ dead ∧ isStor q = false then none else mapGet m q := by
  induction dead generalizing m with
  | nil => simp
  | cons d ds ih =>
    rw [List.foldl_cons, ih]
    by_cases hs : isStor d = true
    · simp only [hs, if_true, List.mem_cons]
      by_cases hq : q = d
      · subst hq; simp [hs]
      · simp [hq]
    · have hs' : isStor d = false := by simpa using hs
      simp only [hs', Bool.false_eq_true, if_false, List.mem_cons, mapGet_del]
      by_cases hq : q = d
      · subst hq; simp [hs']
      · simp [hq]

theorem mapGet_foldl_delStor (dead : List Key) (m : GoMap) (q : Key) :
    mapGet (dead.foldl (fun a k => if isStor k then mapDel a k else a) m) q =
      if q ∈ dead ∧ isStor q = true then none else mapGet m q := by
  induction dead generalizing m with
  | nil => simp
  | cons d ds ih =>
    rw [List.foldl_cons, ih]
    by_cases hs : isStor d = true
    · simp only [hs, if_true, List.mem_cons, mapGet_del]
      by_cases hq : q = d
      · subst hq; simp [hs]
      · simp [hq]
    · have hs' : isStor d = false := by simpa using hs
      simp only [hs', Bool.false_eq_true, if_false, List.mem_cons]
      by_cases hq : q = d
      · subst hq; simp [hs']
      · simp [hq]

theorem MapWF_foldl_delMem (dead : List Key) (m : GoMap) (h : MapWF m) :
    MapWF (dead.foldl (fun a k => if isStor k then a else mapDel a k) m) := by
  induction dead generalizing m with
  | nil => exact h
  | cons d ds ih =>
    rw [List.foldl_cons]; apply ih
    split
    · exact h
    · exact MapWF_del m d h

theorem MapWF_foldl_delStor (dead : List Key) (m : GoMap) (h : MapWF m) :
    MapWF (dead.foldl (fun a k => if isStor k then mapDel a k else a) m) := by
  induction dead generalizing m with
  | nil => exact h
  | cons d ds ih =>
    rw [List.foldl_cons]; apply ih
    split
    · exact MapWF_del m d h
    · exact h

theorem mem_foldl_delMem {dead : List Key} {m : GoMap} {e : Key × Option Val}
    (h : e ∈ dead.foldl (fun a k => if isStor k then a else mapDel a k) m) : e ∈ m := by
  induction dead generalizing m with
  | nil => exact h
  | cons d ds ih =>
    rw [List.foldl_cons] at h
    have := ih h
    split at this
    · exact this
    · exact (List.mem_filter.mp this).1

theorem mem_foldl_delStor {dead : List Key} {m : GoMap} {e : Key × Option Val}
    (h : e ∈ dead.foldl (fun a k => if isStor k then mapDel a k else a) m) : e ∈ m := by
  induction dead generalizing m with
  | nil => exact h
  | cons d ds ih =>
    rw [List.foldl_cons] at h
    have := ih h
    split at this
    · exact (List.mem_filter.mp this).1
    · exact this

/-- the two maps of a MemoryStore / cache layer after the deletions of `SeekGC`. -/
def gcLayer (L : Layer) (dead : List Key) : Layer :=
  { L with mem := dead.foldl (fun a k => if isStor k then a else mapDel a k) L.mem,
           stor := dead.foldl (fun a k => if isStor k then mapDel a k else a) L.stor }

theorem layerSays_gcLayer (L : Layer) (dead : List Key) (q : Key) :
    layerSays (gcLayer L dead) q = if q ∈ dead then none else layerSays L q := by
  unfold layerSays Layer.choose gcLayer
  by_cases hs : isStor q = true
  · simp only [hs, if_true, mapGet_foldl_delStor, and_true]
  · have hs' : isStor q = false := by simpa using hs
    simp only [hs', Bool.false_eq_true, if_false, mapGet_foldl_delMem, and_true]

theorem gcLayer_WF (L : Layer) (dead : List Key) (h : L.WF) : (gcLayer L dead).WF := by
  refine ⟨MapWF_foldl_delMem dead _ h.1, MapWF_foldl_delStor dead _ h.2.1, ?_, ?_⟩
  · intro e he; exact h.2.2.1 e (mem_foldl_delMem he)
  · intro e he; exact h.2.2.2 e (mem_foldl_delStor he)

theorem lookup_foldl_dbDel (dead : List KV) (db : List KV) (q : Key) :
    List.lookup q (dead.foldl (fun d e => dbDel d e.1) db) =
      if q ∈ dead.map Prod.fst then none else List.lookup q db := by
  induction dead generalizing db with
  | nil => simp
  | cons d ds ih =>
    rw [List.foldl_cons, ih, lookup_dbDel]
    by_cases hm : q ∈ ds.map Prod.fst
    · rw [if_pos hm, if_pos (by simp only [List.map_cons, List.mem_cons]; exact Or.inr hm)]
    · rw [if_neg hm]
      by_cases hq : q = d.1
      · rw [if_pos hq, if_pos (by simp only [List.map_cons, List.mem_cons]; exact Or.inl hq)]
      · rw [if_neg hq, if_neg (by simp only [List.map_cons, List.mem_cons]; exact fun h => h.elim hq hm)]

theorem DbWF_foldl_dbDel (dead : List KV) (db : List KV) (h : DbWF db) :
    DbWF (dead.foldl (fun d e => dbDel d e.1) db) := by
  induction dead generalizing db with
  | nil => exact h
  | cons d ds ih => rw [List.foldl_cons]; exact ih _ (DbWF_filter db _ h)

theorem overlay_gcLayer (L : Layer) (dead : List Key) (f : SpecMap) :
    overlay (gcLayer L dead) f = fun q => if q ∈ dead then f q else overlay L f q := by
  funext q
  unfold overlay
  rw [layerSays_gcLayer]
  by_cases h : q ∈ dead <;> simp [h]

/-- the full own-level scan `SeekGC` walks over. -/
def Store.ownSeek (s : Store) (rng : SeekRange) : List KV :=
  match s with
  | .cached L _ => memorySeek L.mem L.stor rng
  | b => b.seek rng

theorem flattenD_one_cached (L : Layer) (ps : Store) :
    (Store.cached L ps).flattenD 1 = (Store.memB L.mem L.stor).flatten := by
  show overlay L SpecMap.empty = overlay { priv := false, mem := L.mem, stor := L.stor } SpecMap.empty
  exact overlay_congr_says _ _ _ (fun q => rfl)

theorem ownSeek_spec (s : Store) (hw : s.WF) (rng : SeekRange) (hp : rng.pfx ≠ []) :
    IsSpecSeek (s.flattenD 1) rng (s.ownSeek rng) := by
  cases s with
  | cached L ps =>
    rw [flattenD_one_cached]
    exact memorySeek_spec L.mem L.stor hw.1.1 hw.1.2.1 rng hp
  | memB m st => exact seek_spec_all (.memB m st) hw { rng with depth := 1 } hp
  | level db => exact seek_spec_all (.level db) hw { rng with depth := 1 } hp
  | bolt db => exact seek_spec_all (.bolt db) hw { rng with depth := 1 } hp

/-- C09 (SeekGC): on every store kind `SeekGC` is ONE step that
(1) visits the first `lim` items (all if 0) of the store's own-level ordered scan,
(2) leaves the own level equal to the old one with exactly the visited-and-not-kept keys removed
    (so with `lim = 0`: the range filtered by the predicate, everything outside the range untouched),
(3) for a cache layer: leaves the lower store alone, and a removed key shows the lower store's value again. -/
theorem seekGC_spec (s : Store) (hw : s.WF) (rng : SeekRange) (keep : Key → Bool) (lim : Nat) :
    (s.seekGC rng keep lim).1 = capped lim (s.ownSeek rng) ∧
    (s.seekGC rng keep lim).2.WF ∧
    (s.seekGC rng keep lim).2.flattenD 1 =
      (fun q => if q ∈ deadKeys (s.seekGC rng keep lim).1 keep then none else s.flattenD 1 q) ∧
    (∀ L ps, s = .cached L ps →
      (s.seekGC rng keep lim).2 = .cached (gcLayer L (deadKeys (s.seekGC rng keep lim).1 keep)) ps) := by
  cases s with
  | memB m st =>
    refine ⟨rfl, ⟨MapWF_foldl_delMem _ _ hw.1, MapWF_foldl_delStor _ _ hw.2⟩, ?_, by intro L ps h; cases h⟩
    rw [flattenD_backend_memB]
    show Store.flattenD 1 (Store.memB _ _) = _
    rw [flattenD_backend_memB]
    exact overlay_gcLayer { priv := false, mem := m, stor := st } _ SpecMap.empty
  | level db =>
    refine ⟨rfl, DbWF_foldl_dbDel _ _ hw, ?_, by intro L ps h; cases h⟩
    rw [flattenD_backend_level]
    show Store.flattenD 1 (Store.level _) = _
    rw [flattenD_backend_level]
    funext q
    exact lookup_foldl_dbDel _ db q
  | bolt db =>
    refine ⟨rfl, DbWF_foldl_dbDel _ _ hw, ?_, by intro L ps h; cases h⟩
    rw [flattenD_backend_bolt]
    show Store.flattenD 1 (Store.bolt _) = _
    rw [flattenD_backend_bolt]
    funext q
    exact lookup_foldl_dbDel _ db q
  | cached L ps =>
    refine ⟨rfl, ⟨gcLayer_WF L _ hw.1, hw.2⟩, ?_, by intro L' ps' h; cases h; rfl⟩
    exact overlay_gcLayer L _ SpecMap.empty

/-- the effect of a cache layer's SeekGC on the map of the whole stack: a removed key shows the lower
store's value again, every other key is unchanged. -/
theorem seekGC_flatten_cached (L : Layer) (ps : Store) (rng : SeekRange) (keep : Key → Bool) (lim : Nat) :
    ((Store.cached L ps).seekGC rng keep lim).2.flatten =
      fun q => if q ∈ deadKeys ((Store.cached L ps).seekGC rng keep lim).1 keep then ps.flatten q
               else (Store.cached L ps).flatten q :=
  overlay_gcLayer L _ ps.flatten

/-- with no early stop the own level is filtered by the predicate on the range, atomically: a key in
range that the callback does not keep is gone, every other key (kept, or outside the range) is as before. -/
theorem seekGC_filter (s : Store) (hw : s.WF) (rng : SeekRange) (hp : rng.pfx ≠ []) (keep : Key → Bool) (q : Key) :
    (inRange rng q ∧ keep q = false → (s.seekGC rng keep 0).2.flattenD 1 q = none) ∧
    (¬ (inRange rng q ∧ keep q = false) → (s.seekGC rng keep 0).2.flattenD 1 q = s.flattenD 1 q) := by
  obtain ⟨h1, _, h3, _⟩ := seekGC_spec s hw rng keep 0
  rw [h3, h1, capped_zero]
  have hs := ownSeek_spec s hw rng hp
  by_cases hd : q ∈ deadKeys (s.ownSeek rng) keep
  · obtain ⟨⟨v, hv⟩, hk⟩ := (mem_deadKeys _ _ _).mp hd
    have := (hs.2 q v).mp hv
    simp only [hd, if_true]
    exact ⟨fun _ => trivial, fun hc => absurd ⟨this.2, hk⟩ hc⟩
  · simp only [hd, if_false]
    refine ⟨fun hc => ?_, fun _ => trivial⟩
    -- in range, not kept, yet not visited: the own level has no value for it
    cases hv : s.flattenD 1 q with
    | none => rfl
    | some v => exact absurd ((mem_deadKeys _ _ _).mpr ⟨⟨v, (hs.2 q v).mpr ⟨hv, hc.1⟩⟩, hc.2⟩) hd

end NeoModel.Store
