/-
C12 proofs, part 8: the VM's first stack object stays empty while the VM runs (the entry context
owns its evaluation stack and is the last one to be unloaded), so `refs_exact` needs no hypothesis
about it.
-/
import NeoModel.Proofs.VmAcctRun
namespace NeoModel.VmAcct

/-- the bottom context owns an evaluation stack -/
def LastOwns (fs : List Frame) : Prop := ∃ l, fs.getLast? = some l ∧ l.own.isSome = true

structure BaseOk (s : St) : Prop where
  base : s.base = []
  last : LastOwns s.frames

theorem lastOwns_cons {f : Frame} {fs : List Frame} (h : LastOwns fs) : LastOwns (f :: fs) := by
  obtain ⟨l, hl, ho⟩ := h
  cases fs with
  | nil => simp at hl
  | cons a t => exact ⟨l, by simpa [List.getLast?_cons_cons] using hl, ho⟩

theorem lastOwns_tail {f : Frame} {fs : List Frame} (h : LastOwns (f :: fs)) (hne : fs ≠ []) : LastOwns fs := by
  obtain ⟨l, hl, ho⟩ := h
  cases fs with
  | nil => exact absurd rfl hne
  | cons a t => exact ⟨l, by simpa [List.getLast?_cons_cons] using hl, ho⟩

theorem setCurOf_base : ∀ (fs : List Frame) (b st : List Item), LastOwns fs →
    (setCurOf fs b st).2 = b ∧ LastOwns (setCurOf fs b st).1 := by
  intro fs
  induction fs with
  | nil => intro b st ⟨l, hl, _⟩; simp at hl
  | cons f t ih =>
    intro b st h
    simp only [setCurOf]
    cases ho : f.own with
    | some o =>
      refine ⟨rfl, ?_⟩
      obtain ⟨l, hl, hlo⟩ := h
      cases t with
      | nil =>
        exact ⟨{ f with own := some st }, by simp, by simp⟩
      | cons a t' =>
        exact ⟨l, by simpa [List.getLast?_cons_cons] using hl, hlo⟩
    | none =>
      have ht : t ≠ [] := by
        intro e; subst e
        obtain ⟨l, hl, hlo⟩ := h
        simp only [List.getLast?_singleton, Option.some.injEq] at hl
        subst hl; simp [ho] at hlo
      obtain ⟨h1, h2⟩ := ih b st (lastOwns_tail h ht)
      exact ⟨h1, lastOwns_cons h2⟩

theorem baseOk_setCur {s : St} (h : BaseOk s) (st : List Item) : BaseOk (s.setCur st) := by
  obtain ⟨h1, h2⟩ := setCurOf_base s.frames s.base st h.last
  exact ⟨by simp only [St.setCur]; rw [h1]; exact h.base, by simpa [St.setCur] using h2⟩

theorem baseOk_setW {s : St} (h : BaseOk s) (w : W) : BaseOk (s.setW w) :=
  baseOk_setCur (s := { s with c := w.c }) ⟨h.base, h.last⟩ w.st

theorem setStatic_own : ∀ (fs : List Frame) (v : List Item), LastOwns fs → LastOwns (setStatic fs v) := by
  intro fs
  induction fs with
  | nil => intro v h; exact h
  | cons f t ih =>
    intro v h
    simp only [setStatic]
    split
    · obtain ⟨l, hl, hlo⟩ := h
      cases t with
      | nil =>
        simp only [List.getLast?_singleton, Option.some.injEq] at hl
        subst hl
        exact ⟨{ f with static := some v }, by simp, hlo⟩
      | cons a t' => exact ⟨l, by simpa [List.getLast?_cons_cons] using hl, hlo⟩
    · cases t with
      | nil => simpa [setStatic] using h
      | cons a t' => exact lastOwns_cons (ih v (lastOwns_tail h (by simp)))

theorem baseOk_slotSet {s : St} (h : BaseOk s) (k : SlotKind) (v : List Item) : BaseOk (slotSet s k v) := by
  cases k with
  | sfld =>
    have e : slotSet s .sfld v = { s with frames := setStatic s.frames v } := by
      cases hf : s.frames <;> simp [slotSet, hf]
    rw [e]; exact ⟨h.base, setStatic_own _ _ h.last⟩
  | loc =>
    cases hf : s.frames with
    | nil => simpa [slotSet, hf] using h
    | cons f fs =>
      simp only [slotSet, hf]
      refine ⟨h.base, ?_⟩
      have hl := h.last
      rw [hf] at hl
      obtain ⟨l, hl1, hlo⟩ := hl
      cases fs with
      | nil =>
        simp only [List.getLast?_singleton, Option.some.injEq] at hl1
        subst hl1
        exact ⟨{ f with locals := some v }, by simp, hlo⟩
      | cons a t => exact ⟨l, by simpa [List.getLast?_cons_cons] using hl1, hlo⟩
  | arg =>
    cases hf : s.frames with
    | nil => simpa [slotSet, hf] using h
    | cons f fs =>
      simp only [slotSet, hf]
      refine ⟨h.base, ?_⟩
      have hl := h.last
      rw [hf] at hl
      obtain ⟨l, hl1, hlo⟩ := hl
      cases fs with
      | nil =>
        simp only [List.getLast?_singleton, Option.some.injEq] at hl1
        subst hl1
        exact ⟨{ f with args := some v }, by simp, hlo⟩
      | cons a t => exact ⟨l, by simpa [List.getLast?_cons_cons] using hl1, hlo⟩

theorem unwindFrames_last : ∀ (k : Nat) (fs fs' : List Frame) (c c' : Ctr), unwindFrames k fs c = some (fs', c') →
    fs' ≠ [] → LastOwns fs → LastOwns fs' := by
  intro k
  induction k with
  | zero => intro fs fs' c c' h _ hl; simp only [unwindFrames, Option.some.injEq, Prod.mk.injEq] at h; rw [← h.1]; exact hl
  | succ k ih =>
    intro fs fs' c c' h hne hl
    cases fs with
    | nil => simp [unwindFrames] at h
    | cons f t =>
      simp only [unwindFrames] at h
      have ht : t ≠ [] := by
        intro e; subst e
        cases k with
        | zero => simp only [unwindFrames, Option.some.injEq, Prod.mk.injEq] at h; exact hne h.1.symm
        | succ k => simp [unwindFrames] at h
      exact ih t fs' _ c' h hne (lastOwns_tail hl ht)

/-- while the machine has not halted, its first stack object is empty -/
theorem exec_baseOk {s : St} (op : Op) (h : BaseOk s) (r : Res) (he : exec op s = some r) :
    (r.s.halted = true ∧ r.raised = none) ∨ BaseOk r.s := by
  cases op with
  | nop => simp only [exec, ok, Option.some.injEq] at he; subst he; exact Or.inr h
  | s sop =>
    simp only [exec] at he
    cases hx : execS sop s.w with
    | none => simp [hx] at he
    | some out =>
      cases out with
      | ok w => simp only [hx, ok, Option.some.injEq] at he; subst he; exact Or.inr (baseOk_setW h w)
      | throw w => simp only [hx, Option.some.injEq] at he; subst he; exact Or.inr (baseOk_setW h w)
  | initsslot n =>
    simp only [exec] at he
    split at he
    · cases he
    · split at he
      · cases he
      · split at he
        · simp only [ok, Option.some.injEq] at he; subst he
          have := baseOk_slotSet h .sfld (List.replicate n Item.prim)
          exact Or.inr ⟨this.base, this.last⟩
        · cases he
  | initslot l a =>
    simp only [exec] at he
    split at he
    · cases he
    · split at he
      · cases he
      · have key : ∀ s1 : St, BaseOk s1 →
            (if a = 0 then ok s1 else if a ≤ s1.cur.length then ok ((slotSet s1 .arg (s1.cur.take a)).setCur (s1.cur.drop a)) else none) = some r →
            (r.s.halted = true ∧ r.raised = none) ∨ BaseOk r.s := by
          intro s1 h1 he
          split at he
          · simp only [ok, Option.some.injEq] at he; subst he; exact Or.inr h1
          · split at he
            · simp only [ok, Option.some.injEq] at he; subst he
              exact Or.inr (baseOk_setCur (baseOk_slotSet h1 _ _) _)
            · cases he
        by_cases hl : l > 0
        · simp only [hl, if_true] at he
          refine key _ ?_ he
          have := baseOk_slotSet h .loc (List.replicate l Item.prim)
          exact ⟨this.base, this.last⟩
        · simp only [hl, if_false] at he
          exact key s h he
  | ld k i =>
    simp only [exec] at he
    split at he
    · cases he
    · split at he
      · cases he
      · simp only [ok, Option.some.injEq] at he; subst he; exact Or.inr (baseOk_setW h _)
  | st k i =>
    simp only [exec] at he
    split at he
    · cases he
    · split at he
      · simp only [ok, Option.some.injEq] at he; subst he
        exact Or.inr (baseOk_slotSet (baseOk_setW h _) _ _)
      · cases he
  | call p =>
    simp only [exec] at he
    split at he
    · cases he
    · split at he
      · cases he
      · simp only [ok, Option.some.injEq] at he; subst he
        have := baseOk_setW h ‹W›
        exact Or.inr ⟨this.base, lastOwns_cons this.last⟩
  | load m a =>
    simp only [exec] at he
    split at he
    · cases he
    · split at he
      · cases he
      · split at he
        · cases he
        · simp only [ok, Option.some.injEq] at he; subst he
          have h1 := baseOk_setW h ‹W›
          exact Or.inr (baseOk_setW (s := { (s.setW ‹W›) with frames := _ :: (s.setW ‹W›).frames }) ⟨h1.base, lastOwns_cons h1.last⟩ _)
  | throw_ =>
    simp only [exec] at he
    split at he
    · cases he
    · simp only [Option.some.injEq] at he; subst he; exact Or.inr (baseOk_setW h _)
  | endfinally =>
    simp only [exec] at he
    split at he
    · simp only [Option.some.injEq] at he; subst he; exact Or.inr h
    · simp only [ok, Option.some.injEq] at he; subst he; exact Or.inr h
  | ret =>
    simp only [exec] at he
    cases hf : s.frames with
    | nil => simp [hf] at he
    | cons f rest =>
      simp only [hf] at he
      have hl : LastOwns (f :: rest) := by rw [← hf]; exact h.last
      by_cases hre : rest.isEmpty = true
      · simp only [hre, if_true, ok, Option.some.injEq] at he; subst he; exact Or.inl ⟨rfl, rfl⟩
      · simp only [hre, Bool.false_eq_true, if_false] at he
        have hne : rest ≠ [] := by intro e; subst e; simp at hre
        have hlr : LastOwns rest := lastOwns_tail hl hne
        have push : ∀ s1 : St, BaseOk s1 → BaseOk (s1.setW (s1.w.push .prim)) := fun s1 h1 => baseOk_setW h1 _
        cases ho : f.own with
        | some st =>
          simp only [ho] at he
          have b1 : BaseOk ({ ({ s with frames := rest } : St).setCur (st ++ ({ s with frames := rest } : St).cur) with
              c := unloadSlots f (({ s with frames := rest } : St).setCur (st ++ ({ s with frames := rest } : St).cur)).c }) := by
            have := baseOk_setCur (s := { s with frames := rest }) ⟨h.base, hlr⟩ (st ++ ({ s with frames := rest } : St).cur)
            exact ⟨this.base, this.last⟩
          split at he
          · cases he
          · split at he
            · split at he
              · simp only [ok, Option.some.injEq] at he; subst he; exact Or.inr (push _ b1)
              · split at he
                · cases he
                · simp only [ok, Option.some.injEq] at he; subst he; exact Or.inr b1
            · simp only [ok, Option.some.injEq] at he; subst he; exact Or.inr b1
        | none =>
          simp only [ho] at he
          have b1 : BaseOk ({ s with frames := rest, c := unloadSlots f s.c } : St) := ⟨h.base, hlr⟩
          split at he
          · split at he
            · simp only [ok, Option.some.injEq] at he; subst he; exact Or.inr (push _ b1)
            · split at he
              · cases he
              · simp only [ok, Option.some.injEq] at he; subst he; exact Or.inr b1
          · simp only [ok, Option.some.injEq] at he; subst he; exact Or.inr b1

end NeoModel.VmAcct

namespace NeoModel.VmAcct

theorem unwind_baseOk {s s' : St} (x : Item) (k : Nat) (c : Bool) (h : BaseOk s) (hu : unwind s x k c = some s') : BaseOk s' := by
  simp only [unwind] at hu
  cases hw : unwindFrames k s.frames s.c with
  | none => simp [hw] at hu
  | some p =>
    obtain ⟨fs, c1⟩ := p
    simp only [hw] at hu
    split at hu
    · cases hu
    · rename_i hne
      have hne' : fs ≠ [] := by intro e; subst e; simp at hne
      have hl := unwindFrames_last k s.frames fs s.c c1 hw hne' h.last
      have b1 : BaseOk ({ s with frames := fs, c := c1 } : St) := ⟨h.base, hl⟩
      cases c with
      | false =>
        simp only [Bool.false_eq_true, if_false, Option.some.injEq] at hu
        subst hu; exact ⟨b1.base, b1.last⟩
      | true =>
        simp only [if_true, Option.some.injEq] at hu
        subst hu
        have := baseOk_setW b1 (({ s with frames := fs, c := c1 } : St).w.push x)
        exact ⟨this.base, this.last⟩

theorem step_baseOk {s s' : St} (op : Op) (unw : Option (Nat × Bool)) (ext : Bool) (h : BaseOk s)
    (hs : step s op unw ext = some s') : s'.halted = true ∨ BaseOk s' := by
  simp only [step] at hs
  split at hs
  · cases hs
  · cases he : exec op s with
    | none => simp [he] at hs
    | some r =>
      simp only [he] at hs
      have hb := exec_baseOk op h r he
      cases hr : r.raised with
      | none =>
        simp only [hr] at hs
        split at hs
        · cases hs
        · simp only [Option.some.injEq] at hs; subst hs
          rcases hb with ⟨hh, _⟩ | hb
          · exact Or.inl hh
          · exact Or.inr hb
      | some x =>
        cases hu : unw with
        | none => simp [hr, hu] at hs
        | some p =>
          obtain ⟨k, c⟩ := p
          simp only [hr, hu] at hs
          cases hw : unwind r.s x k c with
          | none => simp [hw] at hs
          | some s2 =>
            simp only [hw] at hs
            split at hs
            · cases hs
            · simp only [Option.some.injEq] at hs
              subst hs
              rcases hb with ⟨_, hn⟩ | hb
              · rw [hn] at hr; cases hr
              · exact Or.inr (unwind_baseOk x k c hb hw)

theorem init_baseOk : BaseOk St.init := ⟨rfl, ⟨_, rfl, rfl⟩⟩

theorem step_not_halted {s s' : St} {op : Op} {unw : Option (Nat × Bool)} {ext : Bool} (hs : step s op unw ext = some s') :
    s.halted = false := by
  simp only [step] at hs
  split at hs
  · cases hs
  · rename_i h
    simp only [Bool.or_eq_true, not_or, Bool.not_eq_true] at h
    exact h.2

theorem runExact_inv {s : St} (h : RunExact s) : InvS s [] ∧ (s.halted = true ∨ BaseOk s) := by
  induction h with
  | init => exact ⟨init_inv, Or.inr init_baseOk⟩
  | @step s0 s1 op unw ext h0 ha hs ih =>
    obtain ⟨i, hb⟩ := ih
    have hok := okFor_of_step op unw ext (run_mapInv h0.run) hs
    have hnh := step_not_halted hs
    have hbase : BaseOk s0 := by
      rcases hb with hh | hb
      · rw [hnh] at hh; cases hh
      · exact hb
    obtain ⟨lk', i', hl⟩ := step_inv op unw ext hok i hs
    rw [hl ha hbase.base] at i'
    exact ⟨i', step_baseOk op unw ext hbase hs⟩

/-- **refs_exact**: as long as no cyclic structure was built, the implementation's counter equals what
is reachable by walking — also after exception unwinding across evaluation stacks (repair 65b0965). -/
theorem refs_exact {s : St} (h : RunExact s) (ha : Acyclic s.c.heap) : s.c.refs = (s.reach : Int) := by
  have i := (runExact_inv h).1
  exact refs_eq_reach s.c s.roots (i.ctr.congr (by intro id; simp) (by simp)) ha

end NeoModel.VmAcct
