/-
C20 (b) helper lemmas: the storage-item mode over the C10 trie model (NeoModel.Mpt): invariant of
AddContractStorageItems, restarts are the identity, the stage flag is exact; the fetcher's ordered stream
with resume after the last stored key.
-/
import NeoModel.Model.StateSync
import NeoModel.Proofs.MptBatch
import NeoModel.Proofs.MptCanonical
import Mathlib.Data.List.Nodup
namespace NeoModel.StateSync

open NeoModel

/-- The storage-item mode over the C10 trie model: MapToMPTBatch + PutBatch, StateRoot. -/
def mptOps (H : Bytes → Bytes) : TrieOps Mpt.Node Mpt.Path Mpt.Val Bytes :=
  { putBatch := fun t m => Mpt.putBatch t (Mpt.mapToBatch (m.map (fun e => (e.1, some e.2)))),
    root := Mpt.rootHash H }

abbrev MItemSt := ItemSt Mpt.Node Mpt.Path Mpt.Val Bytes

theorem goMap_keys_nodup {K V : Type} [BEq K] [LawfulBEq K] (l : List (K × V)) : ((goMap l).map (·.1)).Nodup := by
  induction l with
  | nil => simp [goMap]
  | cons e r ih =>
    simp only [goMap]
    split
    · exact ih
    · rename_i hn
      simp only [List.map_cons, List.nodup_cons]
      refine ⟨?_, ih⟩
      intro hm
      apply hn
      simp only [List.mem_map] at hm
      obtain ⟨x, hx, he⟩ := hm
      -- members of goMap r are members of r
      have sub : ∀ (l : List (K × V)) x, x ∈ goMap l → x ∈ l := by
        intro l; induction l with
        | nil => intro x hx; simp [goMap] at hx
        | cons a t iht =>
          intro x hx; simp only [goMap] at hx
          split at hx
          · exact List.mem_cons_of_mem _ (iht x hx)
          · simp only [List.mem_cons] at hx ⊢
            rcases hx with h | h
            · exact .inl h
            · exact .inr (iht x h)
      exact List.any_eq_true.2 ⟨x, sub r x hx, by simp [he]⟩

structure ItemInv (H : Bytes → Bytes) (root : Bytes) (s : MItemSt) : Prop where
  wf : Mpt.WF s.trie
  same : ∀ q, Mpt.lookup s.trie q = s.temp q
  ckpt : s.ckpt = none ∨ s.ckpt = some (Mpt.rootHash H s.trie, root)
  stage : s.synced = true ↔ (s.ckpt ≠ none ∧ Mpt.rootHash H s.trie = root)

theorem itemInv_init (H : Bytes → Bytes) (root : Bytes) : ItemInv H root (ItemSt.init Mpt.Node.empty) :=
  ⟨by simp [ItemSt.init, Mpt.WF], by intro q; simp [ItemSt.init, Mpt.lookup], .inl rfl, by simp [ItemSt.init]⟩

theorem lookup_map_some (m : List (Mpt.Path × Mpt.Val)) (q : Mpt.Path) :
    (m.map (fun e => (e.1, some e.2))).lookup q = (m.lookup q).map some := by
  induction m with
  | nil => rfl
  | cons e r ih =>
    obtain ⟨k, v⟩ := e
    simp only [List.map_cons, List.lookup_cons]
    cases hq : q == k with
    | true => simp
    | false => simpa using ih

theorem itemInv_addItems (H : Bytes → Bytes) (root : Bytes) (s : MItemSt) (kvs : List (Mpt.Path × Mpt.Val))
    (hi : ItemInv H root s) : ItemInv H root (addItems (mptOps H) root s kvs).1 := by
  unfold addItems
  split
  · exact hi
  · split
    · exact hi
    · have hd : Mpt.DistinctKeys ((goMap kvs).map (fun e => (e.1, some e.2))) := by
        simp only [Mpt.DistinctKeys, List.map_map, Function.comp_def]
        exact goMap_keys_nodup kvs
      dsimp only
      refine ⟨Mpt.wf_putBatch _ _ hi.wf, ?_, .inr rfl, ?_⟩
      · intro q
        dsimp only [mptOps]
        rw [Mpt.lookup_putBatch_map _ _ hd, Mpt.applyBatch, lookup_map_some, hi.same q]
        cases (goMap kvs).lookup q <;> rfl
      · dsimp only [mptOps]
        simp only [ne_eq, reduceCtorEq, not_false_eq_true, true_and]
        exact decide_eq_true_iff

/-- A restart in the storage-item mode changes nothing: the stage recomputed from the checkpoint is the stage. -/
theorem restartItems_id (H : Bytes → Bytes) (root : Bytes) (s : MItemSt) (hi : ItemInv H root s) :
    restartItems s = s := by
  have key : (restartItems s).synced = s.synced := by
    unfold restartItems
    rcases hi.ckpt with h | h
    · simp only [h]
      cases hs : s.synced with
      | false => rfl
      | true => exact absurd h (hi.stage.1 hs).1
    · simp only [h]
      cases hs : s.synced with
      | false =>
        simp only [decide_eq_false_iff_not]
        intro e
        have := hi.stage.2 ⟨by rw [h]; simp, e⟩
        rw [hs] at this; cases this
      | true => simp only [decide_eq_true_eq]; exact (hi.stage.1 hs).2
  obtain ⟨trie, temp, lastKey, ckpt, synced⟩ := s
  simp only [restartItems, ItemSt.mk.injEq, true_and] at key ⊢
  exact key

inductive ItemEv
  | batch (kvs : List (Mpt.Path × Mpt.Val))
  | restart

def runItemEv (H : Bytes → Bytes) (root : Bytes) (s : MItemSt) : ItemEv → MItemSt
  | .batch kvs => (addItems (mptOps H) root s kvs).1
  | .restart => restartItems s

def runItemEvs (H : Bytes → Bytes) (root : Bytes) (s : MItemSt) (evs : List ItemEv) : MItemSt :=
  evs.foldl (runItemEv H root) s

theorem itemInv_run (H : Bytes → Bytes) (root : Bytes) (s : MItemSt) (evs : List ItemEv)
    (hi : ItemInv H root s) : ItemInv H root (runItemEvs H root s evs) := by
  unfold runItemEvs
  induction evs generalizing s with
  | nil => exact hi
  | cons e r ih =>
    simp only [List.foldl_cons]
    apply ih
    cases e with
    | batch kvs => exact itemInv_addItems H root s kvs hi
    | restart => simp only [runItemEv]; rw [restartItems_id H root s hi]; exact hi

/-- Exactness of the stage flag: once at least one batch was stored, the module is "in sync" iff the
temporary storage is exactly the content of the source trie. -/
theorem synced_iff (H : Bytes → Bytes) (t0 : Mpt.Node) (hw : Mpt.WF t0)
    (hcommit : ∀ a b, Mpt.WF a → Mpt.WF b → Mpt.rootHash H a = Mpt.rootHash H b → a = b)
    (s : MItemSt) (hi : ItemInv H (Mpt.rootHash H t0) s) (hc : s.ckpt ≠ none) :
    s.synced = true ↔ ∀ q, s.temp q = Mpt.lookup t0 q := by
  rw [hi.stage]
  constructor
  · rintro ⟨_, hr⟩ q
    rw [← hi.same q, hcommit _ _ hi.wf hw hr]
  · intro h
    refine ⟨hc, ?_⟩
    rw [Mpt.canonical s.trie t0 hi.wf hw (fun p => by rw [hi.same p, h p])]



section generic
variable {K V : Type} [BEq K] [LawfulBEq K]

theorem goMap_of_nodup (l : List (K × V)) (h : (l.map (·.1)).Nodup) : goMap l = l := by
  induction l with
  | nil => rfl
  | cons e r ih =>
    simp only [List.map_cons, List.nodup_cons] at h
    simp only [goMap]
    split
    · rename_i ha
      obtain ⟨x, hx, he⟩ := List.any_eq_true.1 ha
      exact absurd (List.mem_map.2 ⟨x, hx, by simpa using he⟩) h.1
    · rw [ih h.2]

omit [LawfulBEq K] in
theorem lookup_append' (a b : List (K × V)) (q : K) :
    (a ++ b).lookup q = (a.lookup q).or (b.lookup q) := by
  induction a with
  | nil => rfl
  | cons e r ih =>
    obtain ⟨k, v⟩ := e
    simp only [List.cons_append, List.lookup_cons]
    cases q == k <;> simp [ih]

theorem lookup_none_of_not_mem (a : List (K × V)) (q : K) (h : q ∉ a.map (·.1)) : a.lookup q = none := by
  induction a with
  | nil => rfl
  | cons e r ih =>
    obtain ⟨k, v⟩ := e
    simp only [List.map_cons, List.mem_cons, not_or] at h
    simp only [List.lookup_cons]
    have : (q == k) = false := by simpa using h.1
    simp [this, ih h.2]

theorem mem_keys_of_lookup (a : List (K × V)) (q : K) (v : V) (h : a.lookup q = some v) : q ∈ a.map (·.1) := by
  by_contra hn
  rw [lookup_none_of_not_mem a q hn] at h; cases h

/-- With distinct keys it does not matter which part of the stream is looked up first. -/
theorem lookup_append_comm (a b : List (K × V)) (q : K) (hnd : ((a ++ b).map (·.1)).Nodup) :
    (a ++ b).lookup q = (b.lookup q).or (a.lookup q) := by
  rw [lookup_append']
  simp only [List.map_append] at hnd
  have hdis := (List.nodup_append.1 hnd).2.2
  cases ha : a.lookup q with
  | none => cases b.lookup q <;> rfl
  | some v =>
    have hq := mem_keys_of_lookup a q v ha
    have : b.lookup q = none := lookup_none_of_not_mem b q (fun hb => hdis q hq q hb rfl)
    simp [this]

/-- The fetcher's resume rule finds exactly the not yet stored rest of the stream. -/
theorem resumeFrom_correct (pre post : List (K × V)) (hnd : ((pre ++ post).map (·.1)).Nodup) :
    resumeFrom (pre.getLast?.map (·.1)) (pre ++ post) = post := by
  induction pre with
  | nil => rfl
  | cons e r ih =>
    cases r with
    | nil =>
      simp [resumeFrom]
    | cons e2 r2 =>
      have hlast : (e :: e2 :: r2).getLast? = (e2 :: r2).getLast? := by simp [List.getLast?_cons_cons]
      rw [hlast]
      have hnd2 : (((e2 :: r2) ++ post).map (·.1)).Nodup := by
        simp only [List.cons_append, List.map_cons, List.nodup_cons] at hnd ⊢
        exact hnd.2
      have ih' := ih hnd2
      obtain ⟨l, hl⟩ : ∃ l, (e2 :: r2).getLast? = some l := by
        cases h : (e2 :: r2).getLast? with
        | none => simp at h
        | some l => exact ⟨l, rfl⟩
      rw [hl] at ih' ⊢
      simp only [Option.map_some, resumeFrom] at ih' ⊢
      -- the first key differs from the last one
      have hne : (e.1 != l.1) = true := by
        have hmem : l ∈ (e2 :: r2) := List.mem_of_getLast? hl
        simp only [List.cons_append, List.map_cons, List.nodup_cons] at hnd
        have : e.1 ∉ List.map (·.1) ((e2 :: r2) ++ post) := by simpa using hnd.1
        have hl1 : l.1 ∈ List.map (·.1) ((e2 :: r2) ++ post) :=
          List.mem_map.2 ⟨l, List.mem_append_left _ hmem, rfl⟩
        simp only [bne_iff_ne, ne_eq]
        intro e'; rw [e'] at this; exact this hl1
      show (List.dropWhile (fun x => x.1 != l.1) (e :: ((e2 :: r2) ++ post))).drop 1 = post
      simp only [List.dropWhile_cons, hne, if_true]
      exact ih'

end generic



/-- The NeoFS state fetcher feeding the module: `take n` = the next `n` items of the stream as one batch,
`restart` = node restart (module re-created, stream resumed after the last stored key). -/
inductive StreamEv
  | take (n : Nat)
  | restart

structure Fetch where
  s : MItemSt
  pending : List (Mpt.Path × Mpt.Val)

def streamStep (H : Bytes → Bytes) (root : Bytes) (items : List (Mpt.Path × Mpt.Val)) (f : Fetch) : StreamEv → Fetch
  | .take n => { s := (addItems (mptOps H) root f.s (f.pending.take n)).1, pending := f.pending.drop n }
  | .restart => { s := restartItems f.s, pending := resumeFrom (restartItems f.s).lastKey items }

def streamRun (H : Bytes → Bytes) (root : Bytes) (items : List (Mpt.Path × Mpt.Val)) (evs : List StreamEv) : Fetch :=
  evs.foldl (streamStep H root items) { s := ItemSt.init Mpt.Node.empty, pending := items }

structure StreamInv (H : Bytes → Bytes) (root : Bytes) (items : List (Mpt.Path × Mpt.Val)) (f : Fetch) : Prop where
  inv : ItemInv H root f.s
  pos : f.s.synced = false → ∃ pos, f.pending = items.drop pos ∧
    f.s.lastKey = (items.take pos).getLast?.map (·.1) ∧ (∀ q, f.s.temp q = (items.take pos).lookup q) ∧
    (items.take pos ≠ [] → f.s.ckpt ≠ none)

theorem addItems_unsynced (H : Bytes → Bytes) (root : Bytes) (s : MItemSt) (kvs : List (Mpt.Path × Mpt.Val))
    (hs : s.synced = false) (hne : kvs ≠ []) :
    let s' := (addItems (mptOps H) root s kvs).1
    s'.lastKey = kvs.getLast?.map (·.1) ∧ s'.ckpt ≠ none ∧
    ∀ q, s'.temp q = ((goMap kvs).lookup q).or (s.temp q) := by
  intro s'
  have : kvs.isEmpty = false := by cases kvs <;> simp_all
  simp only [s', addItems, hs, this, Bool.false_eq_true, if_false]
  exact ⟨trivial, by simp, by intro q; trivial⟩

theorem streamInv_step (H : Bytes → Bytes) (root : Bytes) (items : List (Mpt.Path × Mpt.Val))
    (hnd : (items.map (·.1)).Nodup) (f : Fetch) (e : StreamEv) (hi : StreamInv H root items f) :
    StreamInv H root items (streamStep H root items f e) := by
  cases e with
  | restart =>
    have hid := restartItems_id H root f.s hi.inv
    simp only [streamStep, hid]
    refine ⟨hi.inv, fun hs => ?_⟩
    obtain ⟨pos, _, h2, h3, h4⟩ := hi.pos hs
    refine ⟨pos, ?_, h2, h3, h4⟩
    rw [h2]
    have hsplit : items = items.take pos ++ items.drop pos := (List.take_append_drop pos items).symm
    have := resumeFrom_correct (items.take pos) (items.drop pos) (by rw [← hsplit]; exact hnd)
    rw [← hsplit] at this
    exact this
  | take n =>
    simp only [streamStep]
    refine ⟨itemInv_addItems H root f.s _ hi.inv, fun hs' => ?_⟩
    -- the module was not in sync before either (a synced module refuses items)
    have hs : f.s.synced = false := by
      cases h : f.s.synced with
      | false => rfl
      | true =>
        have : (addItems (mptOps H) root f.s (f.pending.take n)).1 = f.s := by simp [addItems, h]
        rw [this, h] at hs'; cases hs'
    obtain ⟨pos, h1, h2, h3, h4⟩ := hi.pos hs
    by_cases hemp : f.pending.take n = []
    · -- nothing to send: an error, nothing changes
      have hsame : (addItems (mptOps H) root f.s (f.pending.take n)).1 = f.s := by simp [addItems, hemp]
      rw [hsame]
      have hdrop : f.pending.drop n = f.pending := by
        rcases List.take_eq_nil_iff.1 hemp with h | h
        · subst h; rfl
        · rw [h]; simp
      exact ⟨pos, by rw [hdrop]; exact h1, h2, h3, h4⟩
    · obtain ⟨hl, hc, ht⟩ := addItems_unsynced H root f.s _ hs hemp
      have htake : items.take (pos + n) = items.take pos ++ f.pending.take n := by
        rw [h1, List.take_add]
      have hndp : ((items.take pos ++ f.pending.take n).map (·.1)).Nodup := by
        rw [← htake]
        exact (List.Nodup.sublist ((List.take_sublist _ _).map _) hnd)
      have hndb : ((f.pending.take n).map (·.1)).Nodup := by
        simp only [List.map_append] at hndp
        exact (List.nodup_append.1 hndp).2.1
      refine ⟨pos + n, ?_, ?_, ?_, fun _ => hc⟩
      · rw [h1, List.drop_drop]
      · rw [hl, htake, List.getLast?_append]
        cases hg : (f.pending.take n).getLast? with
        | none => exact absurd (List.getLast?_eq_none_iff.1 hg) hemp
        | some l => simp
      · intro q
        rw [ht q, goMap_of_nodup _ hndb, htake, lookup_append_comm _ _ q hndp, h3 q]

theorem streamInv_run (H : Bytes → Bytes) (root : Bytes) (items : List (Mpt.Path × Mpt.Val))
    (hnd : (items.map (·.1)).Nodup) (evs : List StreamEv) :
    StreamInv H root items (streamRun H root items evs) := by
  unfold streamRun
  have h0 : StreamInv H root items { s := ItemSt.init Mpt.Node.empty, pending := items } :=
    ⟨itemInv_init H root, fun _ => ⟨0, by simp, by simp [ItemSt.init], by intro q; simp [ItemSt.init], by simp⟩⟩
  generalize ({ s := ItemSt.init Mpt.Node.empty, pending := items } : Fetch) = f at h0
  induction evs generalizing f with
  | nil => exact h0
  | cons e r ih => exact ih _ (streamInv_step H root items hnd f e h0)

end NeoModel.StateSync
