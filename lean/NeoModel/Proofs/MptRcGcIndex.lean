/-
C11 helper lemmas: the index the hand-written reading `tryRunGCSpec` of blockchain.go tryRunGC hands to the collector never exceeds
persisted height − MaxTraceableBlocks.
-/
import NeoModel.Model.MptRc.GcIndex
namespace NeoModel.MptRc

theorem u32_le (x : Int) (h : 0 ≤ x) : (u32 x : Int) ≤ x := by
  unfold u32
  omega

theorem u32_id (x : Int) (h : 0 ≤ x) (h2 : x < 4294967296) : (u32 x : Int) = x := by
  unfold u32
  omega

theorem tdiv_mul_le (a : Int) (b : Nat) (h : 0 ≤ a) : Int.tdiv a b * b ≤ a := by
  rw [Int.tdiv_eq_ediv_of_nonneg h]
  by_cases hb : (b : Int) = 0
  · rw [hb]; simpa using h
  · exact Int.ediv_mul_le a hb

theorem tdiv_mul_nonpos (a : Int) (b : Nat) (h : a ≤ 0) : Int.tdiv a b * b ≤ 0 := by
  have h1 : Int.tdiv a b ≤ 0 := by
    have h3 : Int.tdiv a b = - Int.tdiv (-a) b := by simp [Int.neg_tdiv]
    have h4 : 0 ≤ Int.tdiv (-a) b := Int.tdiv_nonneg (by omega) (Int.natCast_nonneg b)
    omega
  exact Int.mul_nonpos_of_nonpos_of_nonneg h1 (Int.natCast_nonneg b)

/-- with or without the P2P extensions (whatever the uint32 arithmetic wraps to) the target is at
most persisted height − MaxTraceableBlocks. -/
theorem gcTarget_le (c : GcCfg) (mtb newH : Nat) : gcTarget c mtb newH ≤ (newH : Int) - mtb := by
  unfold gcTarget
  simp only
  split
  · exact Int.min_le_left _ _
  · exact Int.le_refl _

/-- the rounded target of a run that happens: positive, a multiple of the period, not above the
unrounded target and less than one period below it. -/
theorem roundGcp_spec (c : GcCfg) (t : Int) (h : (c.gcp : Int) < roundGcp c t) :
    0 < t ∧ roundGcp c t ≤ t ∧ t < roundGcp c t + c.gcp ∧ roundGcp c t % (c.gcp : Int) = 0 := by
  unfold roundGcp at *
  have hpos : 0 < t := by
    apply Classical.byContradiction; intro hn
    have := tdiv_mul_nonpos t c.gcp (by omega)
    omega
  have hg : (c.gcp : Int) ≠ 0 := by
    intro h0; rw [h0] at h; simp at h
  refine ⟨hpos, tdiv_mul_le t c.gcp (by omega), ?_, Int.mul_emod_left _ _⟩
  rw [Int.tdiv_eq_ediv_of_nonneg (by omega)]
  have := Int.lt_ediv_add_one_mul_self t (by omega : (0 : Int) < c.gcp)
  rw [Int.add_mul] at this
  omega

/-- C11 / tryRunGCSpec: whenever the node collects, the index `g` satisfies
`g + MaxTraceableBlocks ≤ persisted height` — for every configuration, every old/new persisted
height, with or without the P2P extensions. -/
theorem tryRunGCSpec_bound (c : GcCfg) (mtb oldH newH g : Nat) (h : tryRunGCSpec c mtb oldH newH = some g) :
    g + mtb ≤ newH := by
  unfold tryRunGCSpec at h
  simp only at h
  by_cases hc : (c.gcp : Int) < roundGcp c (gcTarget c mtb newH) ∧ newH / c.gcp ≠ oldH / c.gcp
  · rw [if_pos hc] at h
    injection h with h
    have hle := gcTarget_le c mtb newH
    obtain ⟨hpos, h1, _, _⟩ := roundGcp_spec c _ hc.1
    have h2 := u32_le (roundGcp c (gcTarget c mtb newH)) (by omega)
    omega
  · rw [if_neg hc] at h; cases h

/-- without the P2P extensions and with heights that fit 32 bits, the index is exactly
persisted height − MaxTraceableBlocks rounded down to the period, and the collection runs iff that is
above one period and the persisted height entered a new period. -/
theorem tryRunGCSpec_plain (c : GcCfg) (hp : c.p2p = false) (mtb oldH newH : Nat) (h32 : newH < 4294967296) :
    tryRunGCSpec c mtb oldH newH =
      if c.gcp < (newH - mtb) / c.gcp * c.gcp ∧ newH / c.gcp ≠ oldH / c.gcp
      then some ((newH - mtb) / c.gcp * c.gcp) else none := by
  unfold tryRunGCSpec gcTarget
  simp only [hp]
  by_cases hm : mtb ≤ newH
  · have e1 : ((newH : Int) - (mtb : Int)) = ((newH - mtb : Nat) : Int) := by omega
    have e2 : roundGcp c ((newH : Int) - mtb) = (((newH - mtb) / c.gcp * c.gcp : Nat) : Int) := by
      unfold roundGcp
      rw [e1, Int.tdiv_eq_ediv_of_nonneg (Int.natCast_nonneg _)]
      simp
    simp only [Bool.false_eq_true, if_false, e2]
    have hle : (newH - mtb) / c.gcp * c.gcp ≤ newH - mtb := Nat.div_mul_le_self _ _
    have e3 : u32 (((newH - mtb) / c.gcp * c.gcp : Nat) : Int) = (newH - mtb) / c.gcp * c.gcp := by
      have := u32_id (((newH - mtb) / c.gcp * c.gcp : Nat) : Int) (Int.natCast_nonneg _) (by omega)
      omega
    rw [e3]
    by_cases hc : c.gcp < (newH - mtb) / c.gcp * c.gcp ∧ newH / c.gcp ≠ oldH / c.gcp
    · rw [if_pos hc, if_pos ⟨by omega, hc.2⟩]
    · rw [if_neg hc, if_neg (fun h => hc ⟨by omega, h.2⟩)]
  · have hz : newH - mtb = 0 := by omega
    have hneg := tdiv_mul_nonpos ((newH : Int) - mtb) c.gcp (by omega)
    simp only [Bool.false_eq_true, if_false, hz, Nat.zero_div, Nat.zero_mul]
    have : ¬ ((c.gcp : Int) < roundGcp c ((newH : Int) - mtb) ∧ newH / c.gcp ≠ oldH / c.gcp) := by
      unfold roundGcp; intro h; omega
    rw [if_neg this, if_neg (by omega)]

end NeoModel.MptRc
