/- C07 helper lemmas: what the pool's filter after a block (IsTxStillRelevant) re-establishes. -/
import NeoModel.Proofs.FeesPick
namespace NeoModel.Pack
open NeoModel NeoModel.Fees NeoModel.Admission
open NeoModel.Generated.FeeConsts

/-- witnesses with definite prices that sum to at most the gas all verify. -/
theorem verifyWitnesses_of_standardCost (c : Chain) : ∀ (ws : List Wit) (total gas : Nat),
    standardCost c ws = some total →
    (∀ w ∈ ws, ∀ k, Wit.stdCost c w = some k → WitCost c w k ∧ k ≤ c.maxVerGas) →
    total ≤ gas → (verifyWitnesses c gas ws).isSome = true := by
  intro ws
  induction ws with
  | nil => intro total gas _ _ _; rfl
  | cons w ws ih =>
    intro total gas hsc hw hle
    simp only [standardCost] at hsc
    cases hk : Wit.stdCost c w with
    | none => simp [hk] at hsc
    | some k =>
      simp only [hk] at hsc
      cases hr : standardCost c ws with
      | none => simp [hr] at hsc
      | some rest =>
        simp only [hr, Option.map_some, Option.some.injEq] at hsc
        obtain ⟨hcost, hmvg⟩ := hw w (by simp) k hk
        have h1 : k ≤ min gas c.maxVerGas := by omega
        simp only [verifyWitnesses, hcost gas, h1, if_true]
        exact ih rest (gas - k) hr (fun x hx => hw x (by simp [hx])) (by omega)

/-- **what the filter re-establishes.** A transaction that passed the state-independent checks once (system fee
within the configured block limit, script, size) and whose standard witnesses have the price `fee.Calculate`
gives them: if `IsTxStillRelevant` keeps it, the chain part of the admission accepts it on that same state. -/
theorem stillRelevant_sound_costs (c : Chain) (t : Tx)
    (h1 : t.sysFee ≤ c.maxBlockSysFee) (h2 : t.scriptOk = true) (h3 : t.size ≤ maxTransactionSize)
    (hw : ∀ w ∈ t.signers.map (·.wit), ∀ k, Wit.stdCost c w = some k → WitCost c w k ∧ k ≤ c.maxVerGas)
    (h : stillRelevant c t = true) : admit c (freePool t) t = none := by
  unfold stillRelevant at h
  split at h; · contradiction
  split at h; · contradiction
  split at h; · contradiction
  split at h; · contradiction
  split at h; · contradiction
  split at h; · contradiction
  rename_i g1 g2 g3 g4 g5 g6
  simp only at h
  have hpre : PreOk c t := ⟨h1, h2, by omega, by omega, by simpa using g4, h3, by
    cases hh : hasTransaction (c.lookup t.hash) (t.signers.map (·.account)) c.height c.mtb with
    | none => rfl
    | some e => simp [hh] at g3⟩
  rw [admit_of_preOk c _ t hpre]
  have hn : ¬ t.netFee < need c t := by simpa [need] using g5
  have hattr : verifyAttrs c t = true := by simpa using g6
  simp only [hn, if_false, hattr, Bool.not_true, Bool.false_eq_true, poolAdd_freePool]
  have hsome : (verifyWitnesses c (t.netFee - need c t) (t.signers.map (·.wit))).isSome = true := by
    split at h
    · exact h
    · rename_i total hsc
      exact verifyWitnesses_of_standardCost c _ total _ hsc hw (by simpa [need] using h)
  cases hv : verifyWitnesses c (t.netFee - need c t) (t.signers.map (·.wit)) with
  | none => simp [hv] at hsome
  | some r => rfl

end NeoModel.Pack
