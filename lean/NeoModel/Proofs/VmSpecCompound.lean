/-
C13 — the compound-type instructions of the specification against a functional specification:
a Map is an association list in insertion order with at most one entry per key (`lookup`, `keysOf`,
`mapSet`, removal = filter), an Array / Struct is a list. Part A: the functional laws and the heap.
-/
import NeoModel.Proofs.VmSpecArithB
open NeoModel NeoModel.Vm
namespace NeoModel.Vm.Spec

/-! ### the heap: objects are addressed by allocation order; `put` replaces one object -/

theorem heap_get_put_same (h : Heap) (id : Nat) (o : HeapObj) (hid : id < h.size) :
    (Heap.put h id o)[id]? = some o := by
  simp [Heap.put, hid]

theorem heap_get_put_other (h : Heap) (id id' : Nat) (o : HeapObj) (hne : id' ≠ id) :
    (Heap.put h id o)[id']? = h[id']? := by
  simp [Heap.put, Ne.symm hne]

theorem heap_put_put (h : Heap) (id : Nat) (o o' : HeapObj) :
    Heap.put (Heap.put h id o) id o' = Heap.put h id o' := by
  simp [Heap.put]

theorem heap_put_self (h : Heap) (id : Nat) (o : HeapObj) (ho : h[id]? = some o) : Heap.put h id o = h := by
  have hid : id < h.size := by
    rcases Nat.lt_or_ge id h.size with hl | hl
    · exact hl
    · simp [Array.getElem?_eq_none hl] at ho
  apply Array.ext_getElem?
  intro i
  by_cases hi : i = id
  · subst hi; rw [heap_get_put_same h i o hid, ho]
  · exact heap_get_put_other h id i o hi

theorem heap_get_push_new (h : Heap) (o : HeapObj) : (h.push o)[h.size]? = some o := by simp

theorem heap_get_push_old (h : Heap) (o : HeapObj) (id : Nat) (hid : id < h.size) : (h.push o)[id]? = h[id]? := by
  simp [Array.getElem?_push, Nat.ne_of_lt hid]

theorem getItems_lt (h : Heap) (id : Nat) (xs : List Item) (hx : h.getItems id = some xs) : id < h.size := by
  unfold Heap.getItems at hx
  rcases Nat.lt_or_ge id h.size with hl | hl
  · exact hl
  · simp [Array.getElem?_eq_none hl] at hx

theorem getEntries_lt (h : Heap) (id : Nat) (kv : List (Item × Item)) (hx : h.getEntries id = some kv) : id < h.size := by
  unfold Heap.getEntries at hx
  rcases Nat.lt_or_ge id h.size with hl | hl
  · exact hl
  · simp [Array.getElem?_eq_none hl] at hx

theorem getItems_get (h : Heap) (id : Nat) (xs : List Item) (hx : h.getItems id = some xs) : h[id]? = some (.items xs) := by
  unfold Heap.getItems at hx
  split at hx <;> simp_all

theorem getEntries_get (h : Heap) (id : Nat) (kv : List (Item × Item)) (hx : h.getEntries id = some kv) :
    h[id]? = some (.entries kv) := by
  unfold Heap.getEntries at hx
  split at hx <;> simp_all

/-- **aliasing.** A mutation through one reference (`put id`) is seen through every reference to the same
object and through no other: all other objects of the heap are unchanged. -/
theorem put_aliasing (h : Heap) (id id' : Nat) (o : HeapObj) (hid : id < h.size) :
    (Heap.put h id o)[id]? = some o ∧ (id' ≠ id → (Heap.put h id o)[id']? = h[id']?) ∧
    (Heap.put h id o).size = h.size :=
  ⟨heap_get_put_same h id o hid, heap_get_put_other h id id' o, by simp [Heap.put]⟩

/-! ### the functional ordered map -/

/-- value stored under key `k` (first entry with that key). -/
def lookup (kv : List (Item × Item)) (k : Item) : Option Item := (kv.find? (·.1 == k)).map (·.2)
/-- the keys in insertion order. -/
def keysOf (kv : List (Item × Item)) : List Item := kv.map (·.1)
/-- at most one entry per key. -/
def NoDupKeys (kv : List (Item × Item)) : Prop := (keysOf kv).Nodup

theorem lookup_none_iff (kv : List (Item × Item)) (k : Item) : lookup kv k = none ↔ k ∉ keysOf kv := by
  induction kv with
  | nil => simp [lookup, keysOf]
  | cons e rest ih =>
    simp only [lookup, keysOf, List.find?_cons, List.map_cons, List.mem_cons, not_or] at ih ⊢
    by_cases he : e.1 = k
    · simp [he]
    · have : (e.1 == k) = false := by simpa using he
      simp only [this]
      rw [ih]
      exact ⟨fun h => ⟨fun h2 => he h2.symm, h⟩, fun h => h.2⟩

/-- **mapSet_lookup.** After SETITEM `k := v` the map holds `v` under `k` and every other key is unchanged. -/
theorem mapSet_lookup (kv : List (Item × Item)) (k v : Item) :
    lookup (mapSet kv k v) k = some v ∧ ∀ k', k' ≠ k → lookup (mapSet kv k v) k' = lookup kv k' := by
  induction kv with
  | nil =>
    constructor
    · simp [mapSet, lookup]
    · intro k' hk
      have : (k == k') = false := by simpa using (Ne.symm hk)
      simp [mapSet, lookup, this]
  | cons e rest ih =>
    obtain ⟨k0, v0⟩ := e
    by_cases he : k0 = k
    · subst he
      constructor
      · simp [mapSet, lookup]
      · intro k' hk
        have : (k0 == k') = false := by simpa using (Ne.symm hk)
        simp [mapSet, lookup, this]
    · have hb : (k0 == k) = false := by simpa using he
      have hm : mapSet ((k0, v0) :: rest) k v = (k0, v0) :: mapSet rest k v := by simp [mapSet, hb]
      rw [hm]
      constructor
      · have := ih.1
        unfold lookup at this ⊢
        rw [List.find?_cons]
        simp only [hb]
        exact this
      · intro k' hk
        have := ih.2 k' hk
        unfold lookup at this ⊢
        rw [List.find?_cons, List.find?_cons]
        cases (k0 == k')
        · exact this
        · rfl

/-- **mapSet_keys (insertion order).** Updating an existing key keeps every key at its position; a new
key goes to the END. -/
theorem mapSet_keys (kv : List (Item × Item)) (k v : Item) :
    keysOf (mapSet kv k v) = if k ∈ keysOf kv then keysOf kv else keysOf kv ++ [k] := by
  induction kv with
  | nil => simp [mapSet, keysOf]
  | cons e rest ih =>
    obtain ⟨k0, v0⟩ := e
    by_cases he : k0 = k
    · subst he; simp [mapSet, keysOf]
    · have hb : (k0 == k) = false := by simpa using he
      have hm : mapSet ((k0, v0) :: rest) k v = (k0, v0) :: mapSet rest k v := by simp [mapSet, hb]
      rw [hm]
      have hne : ¬ k = k0 := fun h => he h.symm
      simp only [keysOf, List.map_cons, List.mem_cons, hne, false_or] at ih ⊢
      rw [ih]
      split <;> rename_i hin <;> simp [hin]

theorem mapSet_nodup (kv : List (Item × Item)) (k v : Item) (hn : NoDupKeys kv) : NoDupKeys (mapSet kv k v) := by
  unfold NoDupKeys at *
  rw [mapSet_keys]
  split
  · exact hn
  · rename_i hk
    exact List.nodup_append.mpr ⟨hn, by simp, by intro a ha b hb; simp at hb; subst hb; exact fun h => hk (h ▸ ha)⟩

theorem mapSet_new (kv : List (Item × Item)) (k v : Item) (hk : k ∉ keysOf kv) : mapSet kv k v = kv ++ [(k, v)] := by
  induction kv with
  | nil => rfl
  | cons e rest ih =>
    obtain ⟨k0, v0⟩ := e
    simp only [keysOf, List.map_cons, List.mem_cons, not_or] at hk
    have hb : (k0 == k) = false := by simpa using (Ne.symm hk.1)
    simp only [mapSet, hb, List.cons_append]
    rw [ih hk.2]; rfl

/-- **remove laws.** REMOVE `k` = filtering the entry out: `k` is gone, every other key keeps its value, and
the remaining keys keep their relative order. -/
theorem mapRemove_laws (kv : List (Item × Item)) (k : Item) :
    lookup (kv.filter (fun e => !(e.1 == k))) k = none ∧
    (∀ k', k' ≠ k → lookup (kv.filter (fun e => !(e.1 == k))) k' = lookup kv k') ∧
    keysOf (kv.filter (fun e => !(e.1 == k))) = (keysOf kv).filter (fun x => !(x == k)) := by
  refine ⟨?_, ?_, ?_⟩
  · rw [lookup_none_iff]
    simp [keysOf]
  · intro k' hk
    induction kv with
    | nil => rfl
    | cons e rest ih =>
      by_cases he : e.1 = k
      · have h1 : (e.1 == k') = false := by rw [he]; simpa using (Ne.symm hk)
        simp only [List.filter_cons, he, beq_self_eq_true, Bool.not_true]
        simp only [lookup, List.find?_cons, h1] at ih ⊢
        exact ih
      · have hb : (e.1 == k) = false := by simpa using he
        simp only [List.filter_cons, hb, Bool.not_false, if_true, lookup, List.find?_cons] at ih ⊢
        split
        · rfl
        · exact ih
  · simp [keysOf, List.filter_map, Function.comp_def]

theorem mapRemove_nodup (kv : List (Item × Item)) (k : Item) (hn : NoDupKeys kv) :
    NoDupKeys (kv.filter (fun e => !(e.1 == k))) := by
  unfold NoDupKeys at *
  rw [(mapRemove_laws kv k).2.2]
  exact hn.filter _

theorem any_key_eq (kv : List (Item × Item)) (k : Item) : kv.any (·.1 == k) = (lookup kv k).isSome := by
  induction kv with
  | nil => rfl
  | cons e rest ih =>
    simp only [List.any_cons, lookup, List.find?_cons] at ih ⊢
    cases h : e.1 == k <;> simp [ih]

example : let kv := mapSet (mapSet (mapSet [] (.bool true) (.null)) (.bytes [1]) (.bool false)) (.bool true) (.bytes [9])
    keysOf kv = [.bool true, .bytes [1]] ∧ lookup kv (.bool true) = some (.bytes [9]) := by decide

end NeoModel.Vm.Spec
