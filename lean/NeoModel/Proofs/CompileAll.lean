/-
CompileAll — function entry (INITSLOT), CALL … RET, and the induction on the fuel that ties expressions, statements,
loops, switch statements and calls together (`allOK`).
-/
import NeoModel.Proofs.CompileSwitch
set_option linter.unusedSimpArgs false
namespace NeoModel.CompileProofs
open NeoModel.MiniVm NeoModel.MiniVm.Asm NeoModel.MiniGo NeoModel.Compile

/-- INITSLOT (or the NOP of a removed INITSLOT 0,0) at the entry of a called function. -/
theorem initSlot_stepF {C : Code} {σ : State} {N np : Nat} {vs rest : List Val} (hnp : np = vs.length)
    (hf : C[σ.pc]? = some (initSlotItem N np)) (hs : σ.stack = vs ++ rest) (hl : σ.locals = []) (ha : σ.args = [])
    (hi : σ.inited = false) :
    ∃ b, Reach C σ { σ with pc := σ.pc + 1, stack := rest, locals := List.replicate N .null, args := vs, inited := b } := by
  by_cases hz : (N == 0 && np == 0) = true
  · have hN : N = 0 := by simp at hz; exact hz.1
    have hA : vs = [] := by
      have : np = 0 := by simp at hz; exact hz.2
      rw [this] at hnp
      exact List.length_eq_zero_iff.mp hnp.symm
    simp only [initSlotItem, hz, if_true] at hf
    subst hN; subst hA
    refine ⟨false, Reach.step ?_⟩
    have h := step_data (C := C) (s := σ) (op := .nop) (stk := σ.stack) (loc := σ.locals) (ar := σ.args) hf rfl (by simp [stepData])
    rw [h]
    congr 1
    cases σ
    simp_all
  · have hz' : (N == 0 && np == 0) = false := by simpa using hz
    simp only [initSlotItem, hz', Bool.false_eq_true, if_false] at hf
    refine ⟨true, Reach.step ?_⟩
    simp [Asm.step, hf, stepOp, hnp, hs, hi]
    intro h0 hv
    subst h0; subst hv
    simp at hnp
    subst hnp
    simp at hz

/-- a statement list whose last statement is a return (possibly inside blocks) does not complete normally. -/
theorem lastIsRet_aux : ∀ (s : Stmt),
    (lastIsRet s = true → ∀ (fuel : Nat) (P : Prog) (env e : Env), exec fuel P env s ≠ .ok (.norm e)) ∧
    (∀ b, s = .block b → lastIsRet b = true → ∀ (fuel : Nat) (P : Prog) (env e : Env), exec fuel P env s ≠ .ok (.norm e)) := by
  intro s
  induction s with
  | seq a b iha ihb =>
    refine ⟨?_, fun b' h => by cases h⟩
    intro hl fuel P env e
    cases fuel with
    | zero => simp [exec]
    | succ n =>
      simp only [exec]
      cases hb : b with
      | skip =>
        subst hb
        cases ha : exec n P env a with
        | ok oa =>
          cases oa with
          | norm e1 =>
            exfalso
            cases a with
            | block bb =>
              exact iha.2 bb rfl (by simpa [lastIsRet] using hl) n P env e1 ha
            | ret r =>
              cases n with
              | zero => simp [exec] at ha
              | succ m =>
                cases r with
                | none => simp [exec] at ha
                | some ex =>
                  simp only [exec] at ha
                  cases hv : evalE m P env ex <;> rw [hv] at ha <;> simp at ha
            | ret2 x1 x2 =>
              cases n with
              | zero => simp [exec] at ha
              | succ m =>
                simp only [exec] at ha
                cases hv : evalE m P env x1 <;> rw [hv] at ha <;> simp at ha
                cases hw : evalE m P env x2 <;> rw [hw] at ha <;> simp at ha
            | _ => simp [lastIsRet] at hl
          | ret v => simp
          | brk e1 => simp
          | cont e1 => simp
        | panic => simp
        | overflow => simp
        | stuck => simp
        | timeout => simp
      | _ =>
        rw [← hb]
        have hlb : lastIsRet b = true := by
          rw [hb] at hl ⊢
          simpa [lastIsRet] using hl
        cases ha : exec n P env a with
        | ok oa =>
          cases oa with
          | norm e1 => simp only; exact ihb.1 hlb n P e1 e
          | ret v => simp
          | brk e1 => simp
          | cont e1 => simp
        | panic => simp
        | overflow => simp
        | stuck => simp
        | timeout => simp
  | block b ih =>
    refine ⟨fun hl => by simp [lastIsRet] at hl, ?_⟩
    intro b' hb' hl fuel P env e
    cases hb'
    cases fuel with
    | zero => simp [exec]
    | succ n =>
      simp only [exec]
      cases hx : exec n P env.push b with
      | ok ob =>
        cases ob with
        | norm e1 => exact absurd hx (ih.1 hl n P env.push e1)
        | ret v => simp
        | brk e1 => simp
        | cont e1 => simp
      | panic => simp
      | overflow => simp
      | stuck => simp
      | timeout => simp
  | _ => exact ⟨fun hl => by simp [lastIsRet] at hl, fun b h => by cases h⟩

end NeoModel.CompileProofs

namespace NeoModel.CompileProofs
open NeoModel.MiniVm NeoModel.MiniVm.Asm NeoModel.MiniGo NeoModel.Compile

/-- what a CALL of a function achieves, by the outcome of its body. -/
def CallPost (C : Code) (σ : State) (rest : List Val) : SOut → Prop
  | .ret v => Reach C σ { σ with pc := σ.pc + 1, stack := v ++ rest }
  | .norm _ => Reach C σ { σ with pc := σ.pc + 1, stack := rest }
  | .brk _ _ => False
  | .cont _ _ => False

theorem fnLabel_of_find {P : Prog} {f : String} {d : FuncDecl} (h : P.find f = some d) :
    ∃ i, P[i]? = some d ∧ fnLabel P f = i ∧ fnRes P f = d.nres := by
  obtain ⟨i, hi, hl⟩ := find_table h
  exact ⟨i, hi, by simp [fnLabel, hl], by simp [fnRes, hl]⟩

/-- CALL … RET: the callee's frame is pushed, its body runs under the statement theorem, RET restores the caller. -/
theorem call_run {P : Prog} {C : Code} {fuel : Nat} (hpc : ProgCode C P)
    (ihS : ∀ cx : Ctx, cx.funcs = funcTable P → StmtFOK P C cx fuel) (hall : ∀ d ∈ P, Allowed [] d.body)
    {f : String} {d : FuncDecl} {vs rest : List Val} {σ : State} {out : SOut}
    (hfind : P.find f = some d) (hlen : d.params.length = vs.length)
    (hex : exec fuel P { frames := [[]], args := d.params.zip vs } (.block d.body) = .ok out)
    (hs : σ.stack = vs ++ rest) (hf : C[σ.pc]? = some (.ins (.call (fnLabel P f))))
    (hdep : σ.frames.length + (fuel + 1) < 1024) : CallPost C σ rest out := by
  obtain ⟨i, hi, hlab, _⟩ := fnLabel_of_find hfind
  obtain ⟨pc0, nl, hp⟩ := hpc.funcs i d hi
  have hmem : d ∈ P := List.mem_of_getElem? hi
  have hcode : (compFunc (funcTable P) d i nl).1 =
      [Item.lbl i, initSlotItem (compS { funcs := funcTable P, args := d.params } [] (.block d.body) { nl := nl, cnt := 0, scopes := [[]] }).2.cnt d.params.length] ++
        (compS { funcs := funcTable P, args := d.params } [] (.block d.body) { nl := nl, cnt := 0, scopes := [[]] }).1 ++
        (if lastIsRet d.body then [] else [Item.ins .ret]) := rfl
  rw [hcode] at hp
  generalize hN : (compS { funcs := funcTable P, args := d.params } [] (.block d.body) { nl := nl, cnt := 0, scopes := [[]] }).2.cnt = N at hp
  have hlbl : findLabel C i = some pc0 := hp.left.left.label hpc.nodup
  rw [hlab] at hf
  have hcall := step_call (s := σ) hf hlbl (by omega)
  -- the callee's frame
  have h1 := skip_lbl (σ := State.mk pc0 σ.stack [] [] (MiniVm.Frame.mk (σ.pc + 1) σ.locals σ.args σ.inited :: σ.frames) false) hp.left.left
  obtain ⟨b, h2⟩ := initSlot_stepF (C := C)
    (σ := State.mk (pc0 + 1) σ.stack [] [] (MiniVm.Frame.mk (σ.pc + 1) σ.locals σ.args σ.inited :: σ.frames) false)
    (N := N) (vs := vs) (rest := rest) hlen hp.left.left.tail.head hs rfl rfl rfl
  have hrel : VarsRel { funcs := funcTable P, args := d.params } [[]] { frames := [[]], args := d.params.zip vs } (List.replicate N .null) vs :=
    ⟨by simp [FramesRel, FrameRel], zip_fst _ _ hlen, zip_snd _ _ hlen⟩
  have hwf : Wf { nl := nl, cnt := 0, scopes := [[]] } := ⟨by simp [slotsOf], by simp [slotsOf], by simp⟩
  have hbody := ihS { funcs := funcTable P, args := d.params } rfl (.block d.body) [] [] { nl := nl, cnt := 0, scopes := [[]] } _
    (State.mk (pc0 + 1 + 1) rest (List.replicate N .null) vs (MiniVm.Frame.mk (σ.pc + 1) σ.locals σ.args σ.inited :: σ.frames) b) out
    (by simpa [Allowed] using hall d hmem) ⟨rfl, rfl, by simp [totalSz], by simp [totalSz]⟩
    (Or.inr ⟨⟨_, rfl⟩, fun e he => by cases he⟩) hex
    (hp.left.right.cast (by simp)) hrel hwf (by simp [hN]) (by simp; omega)
  have hpre := (Reach.step hcall).trans (h1.trans h2)
  cases out with
  | ret v =>
    obtain ⟨σ3, hr3, hret, hst3, hfr3⟩ := hbody
    have hr := step_ret (s := σ3) hret hfr3
    refine (hpre.trans (hr3.trans (Reach.step hr))).trans ?_
    simp only at hst3
    rw [hst3]
    exact Reach.refl _ _
  | norm e =>
    obtain ⟨σ3, hr3, hpc3, hs3, _⟩ := hbody
    -- the body fell off its end: the function's closing RET follows
    have hnl : lastIsRet d.body = false := by
      cases hl : lastIsRet d.body with
      | false => rfl
      | true => exact absurd hex ((lastIsRet_aux (.block d.body)).2 d.body rfl hl fuel P _ e)
    rw [hnl] at hp
    have hret : C[σ3.pc]? = some (.ins .ret) := by
      rw [hpc3]
      exact (hp.right.cast (by simp [Nat.add_assoc]; omega)).head
    have hr := step_ret (s := σ3) hret hs3.frames
    refine (hpre.trans (hr3.trans (Reach.step hr))).trans ?_
    rw [hs3.stack]
    exact Reach.refl _ _
  | brk l e => obtain ⟨dr, en, hh, _⟩ := hbody; simp [findBrk] at hh
  | cont l e => obtain ⟨dr, en, hh, _⟩ := hbody; simp [findCont] at hh

end NeoModel.CompileProofs

namespace NeoModel.CompileProofs
open NeoModel.MiniVm NeoModel.MiniVm.Asm NeoModel.MiniGo NeoModel.Compile

/-- everything that is proved together by induction on the fuel. -/
structure AllOK (P : Prog) (C : Code) (fuel : Nat) : Prop where
  expr : ∀ (cx : Ctx) (sc : Scopes) (env : Env), cx.funcs = funcTable P → ExprFOK P C cx sc env fuel
  stmt : ∀ cx : Ctx, cx.funcs = funcTable P → StmtFOK P C cx fuel
  iter : ∀ cx : Ctx, cx.funcs = funcTable P → IterOK P C cx fuel
  loop : ∀ cx : Ctx, cx.funcs = funcTable P → LoopOK P C cx fuel
  body : ∀ cx : Ctx, cx.funcs = funcTable P → BodyOK P C cx fuel
  cases : ∀ cx : Ctx, cx.funcs = funcTable P → CasesOK P C cx fuel
  switch : ∀ cx : Ctx, cx.funcs = funcTable P → SwitchOK P C cx fuel
  call : CallOK P C fuel
  callS : CallSOK P C fuel
  call2 : Call2OK P C fuel

theorem callOK_succ {P : Prog} {C : Code} {fuel : Nat} (hpc : ProgCode C P)
    (ihS : ∀ cx : Ctx, cx.funcs = funcTable P → StmtFOK P C cx fuel) (hall : ∀ d ∈ P, Allowed [] d.body) :
    CallOK P C (fuel + 1) := by
  intro f vs v σ rest hc hs hf hdep
  simp only [callF] at hc
  cases hfind : P.find f with
  | none => rw [hfind] at hc; simp at hc
  | some d =>
    rw [hfind] at hc
    simp only at hc
    by_cases hlen : d.params.length = vs.length
    · have hne : (d.params.length != vs.length) = false := by simp [hlen]
      simp only [hne, Bool.false_eq_true, if_false] at hc
      cases hex : exec fuel P { frames := [[]], args := d.params.zip vs } (.block d.body) with
      | ok out =>
        rw [hex] at hc
        have hrun := call_run hpc ihS hall hfind hlen hex hs hf hdep
        cases out with
        | ret r =>
          match r, hc, hrun with
          | [v'], hc, hrun =>
            simp only at hc
            split at hc
            · cases hc
              simpa [CallPost] using hrun
            · cases hc
          | [], hc, _ => simp at hc
          | _ :: _ :: _, hc, _ => simp at hc
        | norm e => simp at hc
        | brk l e => simp at hc
        | cont l e => simp at hc
      | panic => rw [hex] at hc; simp at hc
      | overflow => rw [hex] at hc; simp at hc
      | stuck => rw [hex] at hc; simp at hc
      | timeout => rw [hex] at hc; simp at hc
    · have hne : (d.params.length != vs.length) = true := by simpa using hlen
      simp [hne] at hc

theorem callSOK_succ {P : Prog} {C : Code} {fuel : Nat} (hpc : ProgCode C P)
    (ihS : ∀ cx : Ctx, cx.funcs = funcTable P → StmtFOK P C cx fuel) (hall : ∀ d ∈ P, Allowed [] d.body) :
    CallSOK P C (fuel + 1) := by
  intro f vs σ rest hc hs hf hdep
  simp only [callS] at hc
  cases hfind : P.find f with
  | none => rw [hfind] at hc; simp at hc
  | some d =>
    rw [hfind] at hc
    simp only at hc
    obtain ⟨i, _, _, hres⟩ := fnLabel_of_find hfind
    by_cases hlen : d.params.length = vs.length
    · have hne : (d.params.length != vs.length) = false := by simp [hlen]
      simp only [hne, Bool.false_eq_true, if_false] at hc
      cases hex : exec fuel P { frames := [[]], args := d.params.zip vs } (.block d.body) with
      | ok out =>
        rw [hex] at hc
        have hrun := call_run hpc ihS hall hfind hlen hex hs hf hdep
        cases out with
        | ret r =>
          simp only at hc
          split at hc
          · rename_i hh
            exact ⟨r, by rw [hres]; simpa using hh, by simpa [CallPost] using hrun⟩
          · cases hc
        | norm e =>
          simp only at hc
          split at hc
          · rename_i hh
            exact ⟨[], by rw [hres]; simp at hh; simp [hh], by simpa [CallPost] using hrun⟩
          · cases hc
        | brk l e => simp at hc
        | cont l e => simp at hc
      | panic => rw [hex] at hc; simp at hc
      | overflow => rw [hex] at hc; simp at hc
      | stuck => rw [hex] at hc; simp at hc
      | timeout => rw [hex] at hc; simp at hc
    · have hne : (d.params.length != vs.length) = true := by simpa using hlen
      simp [hne] at hc

theorem call2OK_succ {P : Prog} {C : Code} {fuel : Nat} (hpc : ProgCode C P)
    (ihS : ∀ cx : Ctx, cx.funcs = funcTable P → StmtFOK P C cx fuel) (hall : ∀ d ∈ P, Allowed [] d.body) :
    Call2OK P C (fuel + 1) := by
  intro f vs v w σ rest hc hs hf hdep
  simp only [callF2] at hc
  cases hfind : P.find f with
  | none => rw [hfind] at hc; simp at hc
  | some d =>
    rw [hfind] at hc
    simp only at hc
    by_cases hlen : d.params.length = vs.length
    · have hne : (d.params.length != vs.length) = false := by simp [hlen]
      simp only [hne, Bool.false_eq_true, if_false] at hc
      cases hex : exec fuel P { frames := [[]], args := d.params.zip vs } (.block d.body) with
      | ok out =>
        rw [hex] at hc
        have hrun := call_run hpc ihS hall hfind hlen hex hs hf hdep
        cases out with
        | ret r =>
          match r, hc, hrun with
          | [v', w'], hc, hrun =>
            simp only at hc
            split at hc
            · cases hc
              simpa [CallPost] using hrun
            · cases hc
          | [], hc, _ => simp at hc
          | [_], hc, _ => simp at hc
          | _ :: _ :: _ :: _, hc, _ => simp at hc
        | norm e => simp at hc
        | brk l e => simp at hc
        | cont l e => simp at hc
      | panic => rw [hex] at hc; simp at hc
      | overflow => rw [hex] at hc; simp at hc
      | stuck => rw [hex] at hc; simp at hc
      | timeout => rw [hex] at hc; simp at hc
    · have hne : (d.params.length != vs.length) = true := by simpa using hlen
      simp [hne] at hc

theorem allOK {P : Prog} {C : Code} (hpc : ProgCode C P) (hall : ∀ d ∈ P, Allowed [] d.body) :
    ∀ fuel, AllOK P C fuel := by
  intro fuel
  induction fuel with
  | zero =>
    refine ⟨fun cx sc env _ => exprFOK_zero P C cx sc env, fun cx _ => stmtFOK_zero P C cx, fun cx _ => iterOK_zero P C cx,
      fun cx _ => loopOK_zero P C cx, fun cx _ => bodyOK_zero P C cx, fun cx _ => casesOK_zero P C cx,
      fun cx _ => switchOK_zero P C cx, ?_, ?_, ?_⟩
    · intro f vs v σ rest hc; simp [callF] at hc
    · intro f vs σ rest hc; simp [callS] at hc
    · intro f vs v w σ rest hc; simp [callF2] at hc
  | succ n ih =>
    refine ⟨?_, ?_, ?_, ?_, ?_, ?_, ?_, callOK_succ hpc ih.stmt hall, callSOK_succ hpc ih.stmt hall, call2OK_succ hpc ih.stmt hall⟩
    · intro cx sc env htab
      exact exprFOK_succ P C cx sc env n hpc.nodup htab (ih.expr cx sc env htab) ih.call
    · intro cx htab
      exact stmtFOK_succ P C cx n hpc.nodup htab (fun sc env => ih.expr cx sc env htab) (ih.stmt cx htab) (ih.loop cx htab)
        (ih.switch cx htab) ih.callS ih.call2
    · intro cx htab
      exact iterOK_succ P C cx n hpc.nodup (fun sc env => ih.expr cx sc env htab) (ih.stmt cx htab) (ih.iter cx htab)
    · intro cx htab
      exact loopOK_succ P C cx n (ih.stmt cx htab) (ih.iter cx htab)
    · intro cx htab
      exact bodyOK_succ P C cx n hpc.nodup (ih.stmt cx htab) (ih.body cx htab)
    · intro cx htab
      exact casesOK_succ P C cx n hpc.nodup (fun sc env => ih.expr cx sc env htab) (ih.body cx htab) (ih.cases cx htab)
    · intro cx htab
      exact switchOK_succ P C cx n hpc.nodup (fun sc env => ih.expr cx sc env htab) (ih.cases cx htab)

end NeoModel.CompileProofs


