/-
C17 — manifest in its stack-item form: `FromStackItem (ToStackItem m) = m` for every well-formed manifest, whatever
`FromStackItem` accepts is well-formed (Proofs for Model/Wire/Manifest.lean).
-/
import NeoModel.Proofs.WireInt
import NeoModel.Proofs.WireTx
import NeoModel.Model.Wire.Manifest
namespace NeoModel.Wire
open NeoModel.Generated
open Codec

/-! ### numbers -/

def inInt64 (n : Int) : Prop := -((2 ^ 63 : Nat) : Int) ≤ n ∧ n < ((2 ^ 63 : Nat) : Int)

theorem intFromLE_intBytes (n : Int) (h : inInt64 n) : Item.intFromLE (intBytes n) = n := by
  unfold intBytes
  rw [Item.intFromLE_canonInt]
  have e1 : ((2 ^ 63 : Nat) : Int) = 9223372036854775808 := by decide
  have e2 : ((256 ^ 8 * 128 : Nat) : Int) = 2361183241434822606848 := by decide
  have h1 := h.1
  have h2 := h.2
  rw [e1] at h1 h2
  exact intFromLE_leBytes 8 n (by rw [e2]; omega) (by rw [e2]; omega)

theorem int64Of_eq (n : Int) (h : inInt64 n) : int64Of n = n := by
  obtain ⟨h1, h2⟩ := h
  unfold int64Of
  simp only
  have hm : n.natAbs % 2 ^ 64 = n.natAbs := Nat.mod_eq_of_lt (by omega)
  rw [hm]
  split <;> split <;> split <;> omega

theorem int64Of_range (x : Int) : inInt64 (int64Of x) := by
  unfold int64Of inInt64
  simp only
  have : x.natAbs % 2 ^ 64 < 2 ^ 64 := Nat.mod_lt _ (by decide)
  split <;> split <;> split <;> omega

theorem intBytes_canon (n : Int) : Item.canonInt (intBytes n) = intBytes n := Item.canonInt_idem _

theorem intBytes_length (n : Int) : (intBytes n).length ≤ 9 := by
  unfold intBytes
  have := Item.canonInt_length (leBytes 9 (n % ((256 ^ 9 : Nat) : Int)).toNat)
  rw [leBytes_length] at this
  exact this

theorem tryInteger_intBytes (n : Int) (h : inInt64 n) : Item.tryInteger (.int (intBytes n)) = some n := by
  simp [Item.tryInteger, intFromLE_intBytes n h]

/-! ### lists -/

theorem allM_map {α β : Type} (f : Item → Option α) (g : β → Item) (k : β → α) (l : List β)
    (h : ∀ x ∈ l, f (g x) = some (k x)) : allM f (l.map g) = some (l.map k) := by
  induction l with
  | nil => rfl
  | cons x xs ih =>
    have hx := h x (List.mem_cons_self ..)
    have hxs := ih (fun y hy => h y (List.mem_cons_of_mem _ hy))
    simp [allM, hx, hxs]

theorem allM_map_id {α : Type} (f : Item → Option α) (g : α → Item) (l : List α)
    (h : ∀ x ∈ l, f (g x) = some x) : allM f (l.map g) = some l := by
  have := allM_map f g id l (by simpa using h)
  simpa using this

theorem allM_all {α : Type} (f : Item → Option α) (P : α → Prop) (hf : ∀ x a, f x = some a → P a) :
    ∀ (l : List Item) (r : List α), allM f l = some r → ∀ a ∈ r, P a := by
  intro l
  induction l with
  | nil => intro r h; simp [allM] at h; subst h; simp
  | cons x xs ih =>
    intro r h
    simp only [allM] at h
    split at h
    · simp at h
    · rename_i a ha
      split at h
      · simp at h
      · rename_i as has
        simp at h; subst h
        intro b hb
        rcases List.mem_cons.mp hb with rfl | hb
        · exact hf _ _ ha
        · exact ih _ has _ hb

/-! ### well-formed values (= what the decoders can produce) -/

def validType (t : Int) : Prop := t ∈ WireManifest.validParamTypes

/-- every entry of the regenerated table of parameter types fits 64 bits (re-checked against the source). -/
theorem validParamTypes_int64 :
    WireManifest.validParamTypes.all (fun t => decide (-9223372036854775808 ≤ t ∧ t < 9223372036854775808)) = true := by
  decide

theorem validType_int64 (t : Int) (h : validType t) : inInt64 t := by
  have := List.all_eq_true.mp validParamTypes_int64 t h
  simp only [decide_eq_true_eq] at this
  have e63 : ((2 ^ 63 : Nat) : Int) = 9223372036854775808 := by decide
  unfold inInt64; rw [e63]; exact this

def MParam.wf (p : MParam) : Prop := utf8Valid p.name = true ∧ validType p.typ

def MMethod.wf (m : MMethod) : Prop :=
  utf8Valid m.name = true ∧ (∀ p ∈ m.params, p.wf) ∧ validType m.ret ∧ inInt64 m.offset

def MEvent.wf (e : MEvent) : Prop := utf8Valid e.name = true ∧ ∀ p ∈ e.params, p.wf

def PermDesc.wf (cv : Curve) : PermDesc → Prop
  | .wildcard => True
  | .hash h => h.length = WireManifest.uint160Size
  | .group k => (pubKeyC cv).wf k

def MPerm.wf (cv : Curve) (p : MPerm) : Prop :=
  p.contract.wf cv ∧ match p.methods with
    | none => True
    | some l => ∀ s ∈ l, utf8Valid s = true

def MGroup.wf (cv : Curve) (g : MGroup) : Prop := (pubKeyC cv).wf g.key ∧ g.sig.length = WireManifest.signatureLen

def Manifest.wf (cv : Curve) (m : Manifest) : Prop :=
  utf8Valid m.name = true ∧ (∀ g ∈ m.groups, g.wf cv) ∧ (∀ s ∈ m.standards, utf8Valid s = true)
    ∧ (∀ x ∈ m.methods, x.wf) ∧ (∀ e ∈ m.events, e.wf) ∧ (∀ p ∈ m.perms, p.wf cv)
    ∧ match m.trusts with
      | none => True
      | some l => ∀ d ∈ l, d.wf cv

/-! ### round trips -/

theorem toStr_byteArray (b : Bytes) (h : utf8Valid b = true) : Item.toStr (.byteArray b) = some b := by
  simp [Item.toStr, Item.tryBytes, h]

theorem convParamType_valid (t : Int) (h : validType t) : convParamType t = some t := by
  unfold convParamType; unfold validType at h; rw [if_pos h]

theorem MParam.roundtrip (p : MParam) (h : p.wf) : MParam.fromItem p.toItem = some p := by
  obtain ⟨h1, h2⟩ := h
  have hr := validType_int64 _ h2
  simp [MParam.toItem, MParam.fromItem, toStr_byteArray _ h1, tryInteger_intBytes _ hr, int64Of_eq _ hr,
    convParamType_valid _ h2]

theorem params_roundtrip (l : List MParam) (h : ∀ p ∈ l, p.wf) :
    arrayOf MParam.fromItem (.array (l.map MParam.toItem)) = some l := by
  simp only [arrayOf]
  exact allM_map_id _ _ _ (fun p hp => MParam.roundtrip p (h p hp))

theorem MMethod.roundtrip (m : MMethod) (h : m.wf) : MMethod.fromItem m.toItem = some m := by
  obtain ⟨h1, h2, h3, h4⟩ := h
  have hr := validType_int64 _ h3
  simp [MMethod.toItem, MMethod.fromItem, toStr_byteArray _ h1, params_roundtrip _ h2, tryInteger_intBytes _ hr,
    int64Of_eq _ hr, convParamType_valid _ h3, tryInteger_intBytes _ h4, int64Of_eq _ h4, Item.tryBool]

theorem MEvent.roundtrip (e : MEvent) (h : e.wf) : MEvent.fromItem e.toItem = some e := by
  obtain ⟨h1, h2⟩ := h
  simp [MEvent.toItem, MEvent.fromItem, toStr_byteArray _ h1, params_roundtrip _ h2]

theorem keyFromBytes_wf (cv : Curve) (hs : cv.Sound) (k : Bytes) (h : (pubKeyC cv).wf k) :
    keyFromBytes cv k = some k ∧ k.length = 33 := by
  have hr := (pubKeyC_lawful cv hs).roundtrip k [] h
  have he : (pubKeyC cv).enc k = k := rfl
  rw [he, List.append_nil] at hr
  refine ⟨by simp [keyFromBytes, hr], ?_⟩
  obtain ⟨p, x, rfl, _, hx, _⟩ := h
  simp [hx]

theorem PermDesc.roundtrip (cv : Curve) (hs : cv.Sound) (d : PermDesc) (h : d.wf cv) :
    PermDesc.fromItem cv d.toItem = some d := by
  cases d with
  | wildcard => rfl
  | hash x => simp [PermDesc.wf] at h; simp [PermDesc.toItem, PermDesc.fromItem, h]
  | group k =>
    simp only [PermDesc.wf] at h
    obtain ⟨hk, hl⟩ := keyFromBytes_wf cv hs k h
    have hne : ¬ 33 = WireManifest.uint160Size := by decide
    simp [PermDesc.toItem, PermDesc.fromItem, hk, hl, hne]

theorem strs_roundtrip (l : List Bytes) (h : ∀ s ∈ l, utf8Valid s = true) :
    arrayOf Item.toStr (.array (l.map Item.byteArray)) = some l := by
  simp only [arrayOf]
  exact allM_map_id _ _ _ (fun s hs => toStr_byteArray s (h s hs))

theorem MPerm.roundtrip (cv : Curve) (hs : cv.Sound) (p : MPerm) (h : p.wf cv) :
    MPerm.fromItem cv p.toItem = some p := by
  obtain ⟨h1, h2⟩ := h
  obtain ⟨c, ms⟩ := p
  cases ms with
  | none => simp [MPerm.toItem, MPerm.fromItem, PermDesc.roundtrip cv hs c h1]
  | some l =>
    simp only at h2
    simp [MPerm.toItem, MPerm.fromItem, PermDesc.roundtrip cv hs c h1, strs_roundtrip l h2]

theorem MGroup.roundtrip (cv : Curve) (hs : cv.Sound) (g : MGroup) (h : g.wf cv) :
    MGroup.fromItem cv g.toItem = some g := by
  obtain ⟨h1, h2⟩ := h
  obtain ⟨hk, _⟩ := keyFromBytes_wf cv hs g.key h1
  simp [MGroup.toItem, MGroup.fromItem, Item.tryBytes, hk, h2]

/-- the manifest with its Extra replaced by what `extraToStackItem` writes. -/
def Manifest.normExtra (norm : Bytes → Bytes) (m : Manifest) : Manifest := { m with extra := norm m.extra }

theorem Manifest.roundtrip (norm : Bytes → Bytes) (cv : Curve) (hs : cv.Sound) (m : Manifest) (h : m.wf cv) :
    Manifest.fromItem cv (m.toItem norm) = some (m.normExtra norm) := by
  obtain ⟨h1, h2, h3, h4, h5, h6, h7⟩ := h
  have eg : arrayOf (MGroup.fromItem cv) (.array (m.groups.map MGroup.toItem)) = some m.groups := by
    simp only [arrayOf]; exact allM_map_id _ _ _ (fun g hg => MGroup.roundtrip cv hs g (h2 g hg))
  have em : arrayOf MMethod.fromItem (.array (m.methods.map MMethod.toItem)) = some m.methods := by
    simp only [arrayOf]; exact allM_map_id _ _ _ (fun g hg => MMethod.roundtrip g (h4 g hg))
  have ee : arrayOf MEvent.fromItem (.array (m.events.map MEvent.toItem)) = some m.events := by
    simp only [arrayOf]; exact allM_map_id _ _ _ (fun g hg => MEvent.roundtrip g (h5 g hg))
  have ep : arrayOf (MPerm.fromItem cv) (.array (m.perms.map MPerm.toItem)) = some m.perms := by
    simp only [arrayOf]; exact allM_map_id _ _ _ (fun g hg => MPerm.roundtrip cv hs g (h6 g hg))
  obtain ⟨name, groups, standards, methods, events, perms, trusts, extra⟩ := m
  cases trusts with
  | none =>
    simp at eg em ee ep
    simp [Manifest.toItem, Manifest.fromItem, Manifest.normExtra, toStr_byteArray _ h1, eg, strs_roundtrip _ h3,
      abiFromItem, em, ee, ep, Item.tryBytes]
  | some l =>
    simp only at h7
    have et : arrayOf (PermDesc.fromItem cv) (.array (l.map PermDesc.toItem)) = some l := by
      simp only [arrayOf]; exact allM_map_id _ _ _ (fun g hg => PermDesc.roundtrip cv hs g (h7 g hg))
    simp at eg em ee ep
    simp [Manifest.toItem, Manifest.fromItem, Manifest.normExtra, toStr_byteArray _ h1, eg, strs_roundtrip _ h3,
      abiFromItem, em, ee, ep, et, Item.tryBytes]

end NeoModel.Wire

namespace NeoModel.Wire
open NeoModel.Generated
open Codec

/-! ### whatever the decoders accept is well-formed -/

theorem toStr_valid (x : Item) (b : Bytes) (h : Item.toStr x = some b) : utf8Valid b = true := by
  unfold Item.toStr at h
  split at h
  · simp at h
  · split at h
    · rename_i hv; simp at h; subst h; exact hv
    · simp at h

theorem convParamType_some (v t : Int) (h : convParamType v = some t) : validType t := by
  unfold convParamType at h
  split at h
  · rename_i hv; simp at h; subst h; exact hv
  · simp at h

theorem keyFromBytes_some (cv : Curve) (hs : cv.Sound) (b k : Bytes) (h : keyFromBytes cv b = some k) :
    (pubKeyC cv).wf k := by
  unfold keyFromBytes at h
  split at h
  · rename_i k' hd
    simp at h; subst h
    exact (pubKeyC_lawful cv hs).dec_wf _ _ _ hd
  · simp at h

theorem MParam.fromItem_wf (x : Item) (p : MParam) (h : MParam.fromItem x = some p) : p.wf := by
  unfold MParam.fromItem at h
  split at h
  · split at h
    · simp at h
    · rename_i name hn
      split at h
      · simp at h
      · split at h
        · simp at h
        · rename_i ty ht
          simp at h; subst h
          exact ⟨toStr_valid _ _ hn, convParamType_some _ _ ht⟩
  · simp at h

theorem arrayOf_all {α : Type} (f : Item → Option α) (P : α → Prop) (hf : ∀ x a, f x = some a → P a)
    (x : Item) (r : List α) (h : arrayOf f x = some r) : ∀ a ∈ r, P a := by
  unfold arrayOf at h
  split at h
  · exact allM_all f P hf _ _ h
  · simp at h

theorem MMethod.fromItem_wf (x : Item) (m : MMethod) (h : MMethod.fromItem x = some m) : m.wf := by
  unfold MMethod.fromItem at h
  split at h
  · split at h
    · simp at h
    · rename_i name hn
      split at h
      · simp at h
      · rename_i params hp
        split at h
        · simp at h
        · split at h
          · simp at h
          · rename_i ret hr
            split at h
            · simp at h
            · split at h
              · simp at h
              · simp at h; subst h
                exact ⟨toStr_valid _ _ hn, arrayOf_all _ _ MParam.fromItem_wf _ _ hp, convParamType_some _ _ hr,
                  int64Of_range _⟩
  · simp at h

theorem MEvent.fromItem_wf (x : Item) (e : MEvent) (h : MEvent.fromItem x = some e) : e.wf := by
  unfold MEvent.fromItem at h
  split at h
  · split at h
    · simp at h
    · rename_i name hn
      split at h
      · simp at h
      · rename_i params hp
        simp at h; subst h
        exact ⟨toStr_valid _ _ hn, arrayOf_all _ _ MParam.fromItem_wf _ _ hp⟩
  · simp at h

theorem PermDesc.fromItem_wf (cv : Curve) (hs : cv.Sound) (x : Item) (d : PermDesc)
    (h : PermDesc.fromItem cv x = some d) : d.wf cv := by
  unfold PermDesc.fromItem at h
  split at h
  · simp at h; subst h; trivial
  · split at h
    · rename_i hl; simp at h; subst h; exact hl
    · split at h
      · split at h
        · simp at h
        · rename_i k hk; simp at h; subst h; exact keyFromBytes_some cv hs _ _ hk
      · simp at h
  · simp at h

theorem MPerm.fromItem_wf (cv : Curve) (hs : cv.Sound) (x : Item) (p : MPerm)
    (h : MPerm.fromItem cv x = some p) : p.wf cv := by
  unfold MPerm.fromItem at h
  split at h
  · split at h
    · simp at h
    · rename_i d hd
      have hdw := PermDesc.fromItem_wf cv hs _ _ hd
      split at h
      · simp at h; subst h; exact ⟨hdw, trivial⟩
      · split at h
        · simp at h
        · rename_i l hl
          simp at h; subst h
          exact ⟨hdw, arrayOf_all _ _ toStr_valid _ _ hl⟩
  · simp at h

theorem MGroup.fromItem_wf (cv : Curve) (hs : cv.Sound) (x : Item) (g : MGroup)
    (h : MGroup.fromItem cv x = some g) : g.wf cv := by
  unfold MGroup.fromItem at h
  split at h
  · split at h
    · simp at h
    · split at h
      · simp at h
      · rename_i key hk
        split at h
        · simp at h
        · split at h
          · rename_i hl; simp at h; subst h; exact ⟨keyFromBytes_some cv hs _ _ hk, hl⟩
          · simp at h
  · simp at h

theorem Manifest.fromItem_wf (cv : Curve) (hs : cv.Sound) (x : Item) (m : Manifest)
    (h : Manifest.fromItem cv x = some m) : m.wf cv := by
  unfold Manifest.fromItem at h
  split at h
  · split at h
    · simp at h
    · rename_i name hn
      split at h
      · simp at h
      · rename_i groups hg
        split at h
        · split at h
          · simp at h
          · rename_i standards hst
            split at h
            · simp at h
            · rename_i methods events habi
              split at h
              · simp at h
              · rename_i perms hp
                split at h
                · simp at h
                · rename_i trusts ht
                  split at h
                  · simp at h
                  · simp at h; subst h
                    refine ⟨toStr_valid _ _ hn, arrayOf_all _ _ (MGroup.fromItem_wf cv hs) _ _ hg,
                      arrayOf_all _ _ toStr_valid _ _ hst, ?_, ?_, arrayOf_all _ _ (MPerm.fromItem_wf cv hs) _ _ hp, ?_⟩
                    · unfold abiFromItem at habi
                      split at habi
                      · split at habi
                        · simp at habi
                        · rename_i ms hms
                          split at habi
                          · simp at habi
                          · simp at habi
                            obtain ⟨e1, _⟩ := habi
                            subst e1
                            exact arrayOf_all _ _ MMethod.fromItem_wf _ _ hms
                      · simp at habi
                    · unfold abiFromItem at habi
                      split at habi
                      · split at habi
                        · simp at habi
                        · split at habi
                          · simp at habi
                          · rename_i es hes
                            simp at habi
                            obtain ⟨_, e2⟩ := habi
                            subst e2
                            exact arrayOf_all _ _ MEvent.fromItem_wf _ _ hes
                      · simp at habi
                    · split at ht
                      · simp at ht; subst ht; trivial
                      · cases hq : arrayOf (PermDesc.fromItem cv) _ with
                        | none => rw [hq] at ht; simp at ht
                        | some l =>
                          rw [hq] at ht; simp at ht; subst ht
                          exact arrayOf_all _ _ (PermDesc.fromItem_wf cv hs) _ _ hq
        · simp at h
  · simp at h

/-- C17 (manifest, stack-item form) re-encoding stability: whatever `FromStackItem` accepts is well-formed, and
the item `ToStackItem` builds from it is read back to the same manifest (with Extra as `extraToStackItem` writes it). -/
theorem Manifest.reencode_stable (norm : Bytes → Bytes) (cv : Curve) (hs : cv.Sound) (x : Item) (m : Manifest)
    (h : Manifest.fromItem cv x = some m) :
    m.wf cv ∧ Manifest.fromItem cv (m.toItem norm) = some (m.normExtra norm) :=
  ⟨Manifest.fromItem_wf cv hs x m h, Manifest.roundtrip norm cv hs m (Manifest.fromItem_wf cv hs x m h)⟩

end NeoModel.Wire
