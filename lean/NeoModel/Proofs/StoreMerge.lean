/-
C09 helper lemmas: the control flow of performSeek (kvMem/haveMem/iMem, done, early stop, cutPrefix)
computes a pure merge of the sorted cached items with the lower store's enumeration.
-/
import NeoModel.Proofs.StoreFlush
set_option linter.unusedSimpArgs false
set_option linter.unusedVariables false
namespace NeoModel.Store

/-! ### the control flow of performSeek = a pure merge, cut, capped -/

def emitOf (m : KVE) : List KV := match m.2 with | some v => [(m.1, v)] | none => []

/-- what one call of `mergeFunc` hands to `cont` (never stopped). -/
def stepItems (bw : Bool) (k : Key) (v : Val) : List KVE → List KV
  | [] => [(k, v)]
  | m :: rest =>
    if ltDir bw m.1 k then emitOf m ++ stepItems bw k v rest
    else if m.1 != k then [(k, v)] else []

/-- the cached items still pending after it. -/
def stepRest (bw : Bool) (k : Key) : List KVE → List KVE
  | [] => []
  | m :: rest => if ltDir bw m.1 k then stepRest bw k rest else m :: rest

/-- the merge of the pending cached items with the lower store's enumeration. -/
def mergeP (bw : Bool) : List KVE → List KV → List KV
  | pend, [] => pend.flatMap emitOf
  | pend, kv :: ps => stepItems bw kv.1 kv.2 pend ++ mergeP bw (stepRest bw kv.1 pend) ps

def capped (lim : Nat) (l : List KV) : List KV := if lim == 0 then l else l.take lim

def cutAll (cut : Bool) (lP : Nat) (l : List KV) : List KV := l.map (fun e => (cutKey cut lP e.1, e.2))

/-- state invariant: `done` says exactly that the callback has returned false. -/
def MInv (lim : Nat) (st : MState) : Prop := st.done = !contOK lim st.out

theorem capped_of_not_done {lim : Nat} {out : List KV} (h : contOK lim out = true) : capped lim out = out := by
  unfold capped contOK at *
  by_cases h0 : (lim == 0) = true
  · simp [h0]
  · simp only [h0, Bool.false_or, decide_eq_true_eq, if_false, Bool.false_eq_true] at h ⊢
    exact List.take_of_length_le (Nat.le_of_lt h)

theorem capped_of_done {lim : Nat} {out : List KV} (h : contOK lim out = false) (hle : lim ≠ 0 → out.length ≤ lim) (more : List KV) :
    capped lim (out ++ more) = out := by
  unfold capped contOK at *
  by_cases h0 : (lim == 0) = true
  · simp [h0] at h
  · simp only [h0, Bool.false_or, decide_eq_false_iff_not, Nat.not_lt, if_false, Bool.false_eq_true] at h ⊢
    have hl : out.length = lim := Nat.le_antisymm (hle (by simpa using h0)) h
    rw [List.take_append_of_le_length (by omega), List.take_of_length_le (by omega)]

/-- the shape every reachable state has: the output so far is a capped list, and `done` is exact. -/
structure Good (lim : Nat) (st : MState) : Prop where
  inv : st.done = !contOK lim st.out
  len : lim ≠ 0 → st.out.length ≤ lim

theorem emit_out (lim : Nat) (st : MState) (kv : KV) : (emit lim st kv).out = st.out ++ [kv] := rfl
theorem emit_done (lim : Nat) (st : MState) (kv : KV) : (emit lim st kv).done = !contOK lim (st.out ++ [kv]) := rfl
theorem emit_pend (lim : Nat) (st : MState) (kv : KV) : (emit lim st kv).pend = st.pend := rfl

theorem good_emit {lim : Nat} {st : MState} (g : Good lim st) (hnd : st.done = false) (kv : KV) :
    Good lim (emit lim st kv) := by
  refine ⟨rfl, ?_⟩
  intro h0
  have := g.inv; rw [hnd] at this
  have hc : contOK lim st.out = true := by simpa using this.symm
  unfold contOK at hc
  have : (lim == 0) = false := by simpa using h0
  simp [this] at hc
  simp [emit_out]; omega

/-- pushing a list of items one by one through `emit`, stopping when done. -/
theorem out_after (lim : Nat) (out more : List KV) (h : contOK lim out = true) :
    (lim ≠ 0 → (capped lim (out ++ more)).length ≤ lim) := by
  intro h0; unfold capped; simp [h0]; omega

/-- main lemma for `mergeLoop`. -/
theorem mergeLoop_spec (bw cut : Bool) (lP lim : Nat) (k : Key) (v : Val) (pend : List KVE) (st : MState)
    (g : Good lim st) (hnd : st.done = false) :
    let st' := mergeLoop bw cut lP lim k v pend st
    Good lim st' ∧ st'.out = capped lim (st.out ++ cutAll cut lP (stepItems bw k v pend)) ∧
      (st'.done = false → st'.pend = stepRest bw k pend) := by
  induction pend generalizing st with
  | nil =>
    simp only [mergeLoop, stepItems, stepRest, cutAll, List.map_cons, List.map_nil]
    have g' : Good lim ({ st with pend := [] } : MState) := ⟨g.inv, g.len⟩
    have ge := good_emit g' hnd (cutKey cut lP k, v)
    refine ⟨ge, ?_, fun _ => rfl⟩
    rw [emit_out]
    by_cases hc : contOK lim (st.out ++ [(cutKey cut lP k, v)]) = true
    · exact (capped_of_not_done hc).symm
    · have hc' : contOK lim (st.out ++ [(cutKey cut lP k, v)]) = false := by simpa using hc
      have := capped_of_done hc' (ge.len) []
      simpa using this.symm
  | cons m rest ih =>
    simp only [mergeLoop, stepItems, stepRest]
    by_cases hlt : ltDir bw m.1 k = true
    · simp only [hlt, if_true]
      cases hm : m.2 with
      | none =>
        have g' : Good lim ({ st with pend := rest } : MState) := ⟨g.inv, g.len⟩
        have := ih { st with pend := rest } g' hnd
        simpa [emitOf, hm] using this
      | some mv =>
        simp only [emitOf, hm]
        have g0 : Good lim ({ st with pend := m :: rest } : MState) := ⟨g.inv, g.len⟩
        have ge := good_emit g0 hnd (cutKey cut lP m.1, mv)
        have ho : (emit lim { st with pend := m :: rest } (cutKey cut lP m.1, mv)).out = st.out ++ [(cutKey cut lP m.1, mv)] := rfl
        have hdn : (emit lim { st with pend := m :: rest } (cutKey cut lP m.1, mv)).done = !contOK lim (st.out ++ [(cutKey cut lP m.1, mv)]) := rfl
        generalize emit lim { st with pend := m :: rest } (cutKey cut lP m.1, mv) = st1 at ge ho hdn ⊢
        by_cases hd : st1.done = true
        · simp only [hd, if_true]
          refine ⟨ge, ?_, fun h => absurd h (by decide)⟩
          rw [hd] at hdn
          have hc : contOK lim (st.out ++ [(cutKey cut lP m.1, mv)]) = false := by simpa using hdn.symm
          have hl := ge.len; rw [ho] at hl
          have := capped_of_done hc hl (cutAll cut lP (stepItems bw k v rest))
          rw [ho]
          simp only [cutAll, List.map_append, List.map_cons, List.map_nil] at this ⊢
          simpa [List.append_assoc] using this.symm
        · have hd' : st1.done = false := by simpa using hd
          simp only [hd', Bool.false_eq_true, if_false]
          have g1 : Good lim ({ st1 with pend := rest } : MState) := ⟨ge.inv, ge.len⟩
          have := ih { st1 with pend := rest } g1 hd'
          simp only [ho, hd', cutAll, List.map_append, List.map_cons, List.map_nil, List.append_assoc, List.singleton_append] at this ⊢
          exact this
    · have hlt' : ltDir bw m.1 k = false := by simpa using hlt
      simp only [hlt', Bool.false_eq_true, if_false]
      by_cases hne : (m.1 != k) = true
      · simp only [hne, if_true]
        have g0 : Good lim ({ st with pend := m :: rest } : MState) := ⟨g.inv, g.len⟩
        have ge := good_emit g0 hnd (cutKey cut lP k, v)
        refine ⟨ge, ?_, fun _ => rfl⟩
        rw [emit_out]
        simp only [cutAll, List.map_cons, List.map_nil]
        by_cases hc : contOK lim (st.out ++ [(cutKey cut lP k, v)]) = true
        · exact (capped_of_not_done hc).symm
        · have hc' : contOK lim (st.out ++ [(cutKey cut lP k, v)]) = false := by simpa using hc
          have := capped_of_done hc' (ge.len) []
          simpa using this.symm
      · have hne' : (m.1 != k) = false := by simpa using hne
        simp only [hne', Bool.false_eq_true, if_false]
        refine ⟨⟨g.inv, g.len⟩, ?_, fun _ => trivial⟩
        simp only [cutAll, List.map_nil, List.append_nil]
        have := g.inv; rw [hnd] at this
        exact (capped_of_not_done (by simpa using this.symm)).symm


theorem cutAll_append (cut : Bool) (lP : Nat) (a b : List KV) :
    cutAll cut lP (a ++ b) = cutAll cut lP a ++ cutAll cut lP b := by simp [cutAll]

def itemsOf (bw : Bool) : List KVE → List KV → List KV
  | _, [] => []
  | pend, kv :: ps => stepItems bw kv.1 kv.2 pend ++ itemsOf bw (stepRest bw kv.1 pend) ps

def restOf (bw : Bool) : List KVE → List KV → List KVE
  | pend, [] => pend
  | pend, kv :: ps => restOf bw (stepRest bw kv.1 pend) ps

theorem mergeP_eq (bw : Bool) (pend : List KVE) (ps : List KV) :
    mergeP bw pend ps = itemsOf bw pend ps ++ (restOf bw pend ps).flatMap emitOf := by
  induction ps generalizing pend with
  | nil => simp [mergeP, itemsOf, restOf]
  | cons kv ps ih => simp [mergeP, itemsOf, restOf, ih, List.append_assoc]

theorem capped_full (lim : Nat) (X Y : List KV) (h0 : lim ≠ 0) (h : lim ≤ (capped lim X).length) :
    capped lim (X ++ Y) = capped lim X := by
  unfold capped at *
  have : (lim == 0) = false := by simpa using h0
  simp only [this, Bool.false_eq_true, if_false] at h ⊢
  rw [List.length_take] at h
  exact List.take_append_of_le_length (by omega)

theorem capped_not_full (lim : Nat) (X : List KV) (h : contOK lim (capped lim X) = true) : capped lim X = X := by
  unfold capped contOK at *
  by_cases h0 : (lim == 0) = true
  · simp [h0]
  · simp only [h0, Bool.false_eq_true, if_false, Bool.false_or, decide_eq_true_eq, List.length_take] at h ⊢
    exact List.take_of_length_le (by omega)

theorem contOK_false {lim : Nat} {out : List KV} (h : contOK lim out = false) : lim ≠ 0 ∧ lim ≤ out.length := by
  unfold contOK at h
  by_cases h0 : (lim == 0) = true
  · simp [h0] at h
  · simp only [h0, Bool.false_or, decide_eq_false_iff_not, Nat.not_lt] at h
    exact ⟨by simpa using h0, h⟩

theorem mergeFunc_done (bw cut : Bool) (lP lim : Nat) (st : MState) (kv : KV) (h : st.done = true) :
    mergeFunc bw cut lP lim st kv = st := by simp [mergeFunc, h]

theorem foldl_done (bw cut : Bool) (lP lim : Nat) (st : MState) (ps : List KV) (h : st.done = true) :
    ps.foldl (mergeFunc bw cut lP lim) st = st := by
  induction ps with
  | nil => rfl
  | cons kv ps ih => rw [List.foldl_cons, mergeFunc_done _ _ _ _ _ _ h, ih]

theorem foldl_spec (bw cut : Bool) (lP lim : Nat) (ps : List KV) (st : MState)
    (g : Good lim st) (hnd : st.done = false) :
    let st' := ps.foldl (mergeFunc bw cut lP lim) st
    Good lim st' ∧ st'.out = capped lim (st.out ++ cutAll cut lP (itemsOf bw st.pend ps)) ∧
      (st'.done = false → st'.pend = restOf bw st.pend ps) := by
  induction ps generalizing st with
  | nil =>
    simp only [List.foldl_nil, itemsOf, restOf, cutAll, List.map_nil, List.append_nil]
    refine ⟨g, ?_, fun _ => trivial⟩
    have := g.inv; rw [hnd] at this
    exact (capped_of_not_done (by simpa using this.symm)).symm
  | cons kv ps ih =>
    rw [List.foldl_cons]
    have hm : mergeFunc bw cut lP lim st kv = mergeLoop bw cut lP lim kv.1 kv.2 st.pend st := by
      simp [mergeFunc, hnd]
    rw [hm]
    obtain ⟨g1, ho1, hp1⟩ := mergeLoop_spec bw cut lP lim kv.1 kv.2 st.pend st g hnd
    generalize mergeLoop bw cut lP lim kv.1 kv.2 st.pend st = st1 at g1 ho1 hp1 ⊢
    simp only [itemsOf, restOf, cutAll_append]
    by_cases hd : st1.done = true
    · rw [foldl_done _ _ _ _ _ _ hd]
      refine ⟨g1, ?_, fun h => by rw [hd] at h; cases h⟩
      have hc := g1.inv; rw [hd] at hc
      have hc' : contOK lim st1.out = false := by simpa using hc.symm
      obtain ⟨h0, hl⟩ := contOK_false hc'
      rw [ho1] at hl
      rw [← List.append_assoc, capped_full lim _ _ h0 hl]
      exact ho1
    · have hd' : st1.done = false := by simpa using hd
      obtain ⟨g2, ho2, hp2⟩ := ih st1 g1 hd'
      refine ⟨g2, ?_, ?_⟩
      · rw [ho2, hp1 hd']
        have hc := g1.inv; rw [hd'] at hc
        have hc' : contOK lim st1.out = true := by simpa using hc.symm
        rw [ho1] at hc'
        have := capped_not_full lim _ hc'
        rw [ho1, this]
        simp [cutAll, List.append_assoc]
      · intro h; rw [hp2 h, hp1 hd']

theorem flushLoop_spec (cut : Bool) (lP lim : Nat) (pend : List KVE) (st : MState)
    (g : Good lim st) (hnd : st.done = false) :
    let st' := flushLoop cut lP lim pend st
    Good lim st' ∧ st'.out = capped lim (st.out ++ cutAll cut lP (pend.flatMap emitOf)) := by
  induction pend generalizing st with
  | nil =>
    simp only [flushLoop, List.flatMap_nil, cutAll, List.map_nil, List.append_nil]
    refine ⟨g, ?_⟩
    have := g.inv; rw [hnd] at this
    exact (capped_of_not_done (by simpa using this.symm)).symm
  | cons m rest ih =>
    simp only [flushLoop, List.flatMap_cons]
    cases hm : m.2 with
    | none =>
      have := ih st g hnd
      simpa [emitOf, hm] using this
    | some mv =>
      simp only [emitOf, hm]
      have ge := good_emit g hnd (cutKey cut lP m.1, mv)
      have ho : (emit lim st (cutKey cut lP m.1, mv)).out = st.out ++ [(cutKey cut lP m.1, mv)] := rfl
      generalize emit lim st (cutKey cut lP m.1, mv) = st1 at ge ho ⊢
      by_cases hd : st1.done = true
      · simp only [hd, if_true]
        refine ⟨ge, ?_⟩
        have hc := ge.inv; rw [hd] at hc
        have hc' : contOK lim st1.out = false := by simpa using hc.symm
        have hl := ge.len
        rw [ho] at hc' hl
        have := capped_of_done hc' hl (cutAll cut lP (rest.flatMap emitOf))
        rw [ho]
        simp only [cutAll, List.map_append, List.map_cons, List.map_nil] at this ⊢
        simpa [List.append_assoc] using this.symm
      · have hd' : st1.done = false := by simpa using hd
        simp only [hd', Bool.false_eq_true, if_false]
        have := ih st1 ge hd'
        simp only [ho, cutAll, List.map_append, List.map_cons, List.map_nil, List.append_assoc, List.singleton_append] at this ⊢
        exact this

/-- `performSeek` is the pure merge, prefix cut, stopped at the `lim`-th item. -/
theorem performSeek_eq (psRes : List KV) (memRes : List KVE) (rng : SeekRange) (cut : Bool) (lim : Nat) :
    performSeek psRes memRes rng cut lim =
      capped lim (cutAll cut rng.pfx.length
        (mergeP rng.bw (sortKVE rng.bw memRes) (if rng.depth == 0 || rng.depth > 1 then psRes else []))) := by
  unfold performSeek
  have g0 : Good lim { out := [], done := false, pend := sortKVE rng.bw memRes } := by
    refine ⟨?_, fun _ => Nat.zero_le _⟩
    simp [contOK]; omega
  by_cases hdep : (rng.depth == 0 || decide (rng.depth > 1)) = true
  · simp only [hdep, if_true]
    obtain ⟨g1, ho1, hp1⟩ := foldl_spec rng.bw cut rng.pfx.length lim psRes _ g0 rfl
    generalize List.foldl (mergeFunc rng.bw cut rng.pfx.length lim) { out := [], done := false, pend := sortKVE rng.bw memRes } psRes = st1 at g1 ho1 hp1 ⊢
    simp only [List.nil_append] at ho1
    rw [mergeP_eq]
    by_cases hd : st1.done = true
    · simp only [hd, Bool.not_true, Bool.false_and, Bool.false_eq_true, if_false]
      have hc := g1.inv; rw [hd] at hc
      have hc' : contOK lim st1.out = false := by simpa using hc.symm
      obtain ⟨h0, hl⟩ := contOK_false hc'
      rw [ho1] at hl
      rw [cutAll_append, capped_full lim _ _ h0 hl]; exact ho1
    · have hd' : st1.done = false := by simpa using hd
      have hc := g1.inv; rw [hd'] at hc
      have hc' : contOK lim st1.out = true := by simpa using hc.symm
      have hfull : st1.out = cutAll cut rng.pfx.length (itemsOf rng.bw (sortKVE rng.bw memRes) psRes) := by
        rw [ho1] at hc' ⊢; exact capped_not_full lim _ hc'
      by_cases hpe : st1.pend.isEmpty = true
      · simp only [hd', hpe, Bool.not_false, Bool.not_true, Bool.and_false, Bool.false_eq_true, if_false]
        have : restOf rng.bw (sortKVE rng.bw memRes) psRes = [] := by
          rw [← hp1 hd']; simpa using hpe
        rw [this, ho1]; simp
      · simp only [hd', hpe, Bool.not_false, Bool.and_self, if_true]
        obtain ⟨_, ho2⟩ := flushLoop_spec cut rng.pfx.length lim st1.pend st1 g1 hd'
        rw [ho2, hfull, hp1 hd']
        simp [cutAll]
  · simp only [hdep, Bool.false_eq_true, if_false]
    simp only [Bool.not_false, Bool.true_and]
    by_cases hpe : (sortKVE rng.bw memRes).isEmpty = true
    · simp only [hpe, Bool.not_true, Bool.false_eq_true, if_false]
      have : sortKVE rng.bw memRes = [] := by simpa using hpe
      simp [this, mergeP, cutAll, capped]
    · simp only [hpe, Bool.not_false, if_true]
      obtain ⟨_, ho2⟩ := flushLoop_spec cut rng.pfx.length lim (sortKVE rng.bw memRes) _ g0 rfl
      rw [ho2]; simp [mergeP]

end NeoModel.Store
