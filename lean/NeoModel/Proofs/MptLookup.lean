/-
Helper lemmas for C10: prefix stripping, longest common prefix, `lookup` after `put`.
-/
import NeoModel.Model.Mpt
set_option linter.unusedSimpArgs false
namespace NeoModel.Mpt

theorem stripPre_eq_some {k p r : Path} : stripPre k p = some r ↔ p = k ++ r := by
  induction k generalizing p with
  | nil => simp [stripPre, eq_comm]
  | cons a k ih =>
    cases p with
    | nil => simp [stripPre]
    | cons b p =>
      simp only [stripPre]
      by_cases h : a = b
      · subst h; simp [ih]
      · simp [h]; intro h'; exact absurd h'.symm h

theorem stripPre_append (k r : Path) : stripPre k (k ++ r) = some r := stripPre_eq_some.mpr rfl

theorem stripPre_self (k : Path) : stripPre k k = some [] := stripPre_eq_some.mpr (by simp)

theorem stripPre_eq_none {k p : Path} : stripPre k p = none ↔ ∀ r, p ≠ k ++ r := by
  constructor
  · intro h r hr
    rw [stripPre_eq_some.mpr hr] at h; cases h
  · intro h
    cases hs : stripPre k p with
    | none => rfl
    | some r => exact absurd (stripPre_eq_some.mp hs) (h r)

theorem stripPre_append_left (c a b : Path) : stripPre (c ++ a) (c ++ b) = stripPre a b := by
  induction c with
  | nil => rfl
  | cons x c ih => simp [stripPre, ih]

/-- what `lcpSplit` computes. -/
theorem lcpSplit_spec (k p : Path) :
    k = (lcpSplit k p).1 ++ (lcpSplit k p).2.1 ∧ p = (lcpSplit k p).1 ++ (lcpSplit k p).2.2 ∧
    (∀ a b x y, (lcpSplit k p).2.1 = a :: x → (lcpSplit k p).2.2 = b :: y → a ≠ b) := by
  induction k generalizing p with
  | nil => simp [lcpSplit]
  | cons a k ih =>
    cases p with
    | nil => simp [lcpSplit]
    | cons b p =>
      simp only [lcpSplit]
      by_cases h : a = b
      · subst h
        obtain ⟨h1, h2, h3⟩ := ih p
        simp only [if_true, List.cons_append, List.cons.injEq, true_and]
        exact ⟨h1, h2, h3⟩
      · simp only [h, if_false, List.nil_append, true_and]
        intro a' b' x y h1 h2
        cases h1; cases h2; exact h

/-- `lookup` through an extension, in `Option.bind` form. -/
theorem lookup_ext (k : Path) (n : Node) (p : Path) :
    lookup (.ext k n) p = (stripPre k p).bind (lookup n) := by
  simp only [lookup]; cases stripPre k p <;> rfl

theorem lookup_newSub (p : Path) (n : Node) (q : Path) :
    lookup (newSub p n) q = (stripPre p q).bind (lookup n) := by
  cases p with
  | nil => simp [newSub, stripPre]
  | cons a p => simp only [newSub]; exact lookup_ext _ _ _

theorem lookup_mkExt (p : Path) (n : Node) (q : Path) :
    lookup (mkExt p n) q = (stripPre p q).bind (lookup n) := by
  cases p with
  | nil => simp [mkExt, stripPre]
  | cons a p => simp only [mkExt]; exact lookup_ext _ _ _

theorem lookup_noKids (i : Nib) (q : Path) : lookup (noKids i) q = none := by simp [noKids, lookup]

theorem upd_same (cs : Nib → Node) (i : Nib) (n : Node) : upd cs i n i = n := by simp [upd]
theorem upd_other (cs : Nib → Node) (i j : Nib) (n : Node) (h : j ≠ i) : upd cs i n j = cs j := by simp [upd, h]

/-- the value reached through `stripPre p ·` at a leaf is `some v` exactly at `p`. -/
theorem bind_leaf (p q : Path) (v : Val) :
    (stripPre p q).bind (lookup (.leaf v)) = if q = p then some v else none := by
  cases hs : stripPre p q with
  | none =>
    have := stripPre_eq_none.mp hs
    have hne : q ≠ p := by intro e; exact this [] (by simp [e])
    simp [hne]
  | some r =>
    have := stripPre_eq_some.mp hs
    subst this
    cases r <;> simp [lookup]

theorem lookup_ext_append (c k : Path) (n : Node) (q : Path) :
    lookup (.ext (c ++ k) n) q = (stripPre c q).bind (lookup (.ext k n)) := by
  cases hs : stripPre c q with
  | none =>
    have h := stripPre_eq_none.mp hs
    have : stripPre (c ++ k) q = none := by
      apply stripPre_eq_none.mpr
      intro r hr; exact h (k ++ r) (by simp [hr])
    simp [lookup_ext, this]
  | some r =>
    have := stripPre_eq_some.mp hs
    subst this
    simp [lookup_ext, stripPre_append_left]

theorem lookup_ext_cons (kh : Nib) (kt : Path) (n : Node) (j : Nib) (r : Path) :
    lookup (.ext (kh :: kt) n) (j :: r) = if j = kh then lookup (newSub kt n) r else none := by
  rw [lookup_ext, lookup_newSub]
  simp only [stripPre]
  by_cases h : kh = j
  · subst h; simp
  · have : ¬ j = kh := fun e => h e.symm
    simp [h, this]

theorem lookup_ext_nil (kh : Nib) (kt : Path) (n : Node) : lookup (.ext (kh :: kt) n) [] = none := by
  simp [lookup_ext, stripPre]

theorem lookup_splitA (kh : Nib) (kt : Path) (n : Node) (v : Val) (r : Path) :
    lookup (.branch (upd noKids kh (newSub kt n)) (some v)) r =
      if r = [] then some v else lookup (.ext (kh :: kt) n) r := by
  cases r with
  | nil => simp [lookup]
  | cons j r =>
    rw [lookup_ext_cons]
    simp only [lookup]
    by_cases h : j = kh
    · subst h; simp [upd_same]
    · simp [upd_other _ _ _ _ h, lookup_noKids, h]

theorem lookup_splitB (kh ph : Nib) (kt pt : Path) (n : Node) (v : Val) (hne : kh ≠ ph) (r : Path) :
    lookup (.branch (upd (upd noKids kh (newSub kt n)) ph (newSub pt (.leaf v))) none) r =
      if r = ph :: pt then some v else lookup (.ext (kh :: kt) n) r := by
  cases r with
  | nil => rw [lookup_ext_nil]; simp [lookup]
  | cons j r =>
    rw [lookup_ext_cons]
    simp only [lookup]
    by_cases h : j = ph
    · subst h
      have h2 : ¬ j = kh := fun e => hne e.symm
      simp only [upd_same, lookup_newSub, bind_leaf, h2, if_false, List.cons.injEq, true_and]
    · have h3 : ¬ (j :: r = ph :: pt) := by intro e; cases e; exact h rfl
      simp only [upd_other _ _ _ _ h, h3, if_false]
      by_cases h2 : j = kh
      · subst h2; simp [upd_same]
      · simp [upd_other _ _ _ _ h2, lookup_noKids, h2]

/-- C10.1: `put` changes exactly the key put. -/
theorem lookup_put (t : Node) (p : Path) (v : Val) (q : Path) :
    lookup (put t p v) q = if q = p then some v else lookup t q := by
  induction t generalizing p q with
  | empty => simp [put, lookup_newSub, bind_leaf, lookup]
  | leaf w =>
    cases p with
    | nil => cases q <;> simp [put, lookup]
    | cons i p =>
      cases q with
      | nil => simp [put, lookup]
      | cons j q =>
        simp only [put, lookup]
        by_cases hj : j = i
        · subst hj; simp [upd_same, lookup_newSub, bind_leaf]
        · have : (j :: q) ≠ (i :: p) := by intro e; cases e; exact hj rfl
          simp [upd_other _ _ _ _ hj, lookup_noKids, this]
  | branch cs w ih =>
    cases p with
    | nil => cases q <;> simp [put, lookup]
    | cons i p =>
      cases q with
      | nil => simp [put, lookup]
      | cons j q =>
        simp only [put, lookup]
        by_cases hj : j = i
        · subst hj; simp [upd_same, ih]
        · have : (j :: q) ≠ (i :: p) := by intro e; cases e; exact hj rfl
          simp [upd_other _ _ _ _ hj, this]
  | ext k n ih =>
    simp only [put]
    obtain ⟨h1, h2, h3⟩ := lcpSplit_spec k p
    rcases hsp : lcpSplit k p with ⟨c, rk, rp⟩
    rw [hsp] at h1 h2 h3
    simp only at h1 h2 h3
    cases rk with
    | nil =>
      simp only [List.append_nil] at h1
      subst h1
      simp only [lookup_ext]
      cases hs : stripPre k q with
      | none =>
        have := stripPre_eq_none.mp hs
        have hne : q ≠ p := by intro e; subst e; exact this rp h2
        simp [hne]
      | some r =>
        have := stripPre_eq_some.mp hs
        subst this; subst h2
        simp [ih]
    | cons kh kt =>
      cases rp with
      | nil =>
        simp only [List.append_nil] at h2
        subst h2; subst h1
        simp only [lookup_mkExt, lookup_ext_append]
        cases hs : stripPre p q with
        | none =>
          have := stripPre_eq_none.mp hs
          have : q ≠ p := by intro e; exact this [] (by simp [e])
          simp [this]
        | some r =>
          have := stripPre_eq_some.mp hs
          subst this
          simp [lookup_splitA]
      | cons ph pt =>
        subst h1; subst h2
        have hne : kh ≠ ph := h3 kh ph kt pt rfl rfl
        simp only [lookup_mkExt, lookup_ext_append]
        cases hs : stripPre c q with
        | none =>
          have := stripPre_eq_none.mp hs
          have : q ≠ c ++ ph :: pt := by intro e; exact this _ e
          simp [this]
        | some r =>
          have := stripPre_eq_some.mp hs
          subst this
          simp [lookup_splitB _ _ _ _ _ _ hne]


theorem mem_kids {cs : Nib → Node} {i : Nib} : i ∈ kids cs ↔ (cs i).isEmpty = false := by
  simp [kids, List.mem_filter, List.mem_finRange]

theorem isEmpty_iff {n : Node} : n.isEmpty = true ↔ n = .empty := by
  cases n <;> simp [Node.isEmpty]

theorem lookup_of_isEmpty {n : Node} (h : n.isEmpty = true) (q : Path) : lookup n q = none := by
  rw [isEmpty_iff.mp h]; simp [lookup]

theorem kids_nil {cs : Nib → Node} (h : kids cs = []) (i : Nib) : cs i = .empty := by
  have : i ∉ kids cs := by rw [h]; simp
  rw [mem_kids] at this
  cases hc : (cs i).isEmpty with
  | true => exact isEmpty_iff.mp hc
  | false => exact absurd hc this

theorem kids_single {cs : Nib → Node} {i : Nib} (h : kids cs = [i]) (j : Nib) (hj : j ≠ i) : cs j = .empty := by
  have : j ∉ kids cs := by rw [h]; simp [hj]
  rw [mem_kids] at this
  cases hc : (cs j).isEmpty with
  | true => exact isEmpty_iff.mp hc
  | false => exact absurd hc this

theorem kids_single_ne {cs : Nib → Node} {i : Nib} (h : kids cs = [i]) : (cs i).isEmpty = false := by
  have : i ∈ kids cs := by rw [h]; simp
  exact mem_kids.mp this

theorem lookup_collapseBranch (cs : Nib → Node) (v : Option Val) (q : Path) :
    lookup (collapseBranch cs v) q = lookup (.branch cs v) q := by
  unfold collapseBranch
  split
  · rename_i w hk
    cases q with
    | nil => simp [lookup]
    | cons j q => simp [lookup, kids_nil hk j]
  · rename_i i hk
    have hother := kids_single hk
    cases q with
    | nil =>
      split <;> simp [lookup_ext, stripPre, lookup]
    | cons j q =>
      by_cases hj : j = i
      · subst hj
        split
        · rename_i k n hc
          rw [show (j :: k) = [j] ++ k from rfl, lookup_ext_append]
          simp [stripPre, lookup, hc]
        · simp [lookup_ext, stripPre, lookup]
      · have : ¬ i = j := fun e => hj e.symm
        split <;> simp [lookup_ext, stripPre, lookup, hother j hj, this]
  · rename_i hk
    cases q with
    | nil => simp [lookup_ext, stripPre, lookup]
    | cons j q =>
      simp only [lookup_ext, lookup, kids_nil hk j]
      cases stripPre [0] (j :: q) <;> simp [lookup]
  · rfl

/-- C10.1: `delete` removes exactly the key deleted. -/
theorem lookup_delete (t : Node) (p q : Path) :
    lookup (delete t p) q = if q = p then none else lookup t q := by
  induction t generalizing p q with
  | empty => simp [delete, lookup]
  | leaf w =>
    cases p with
    | nil => cases q <;> simp [delete, lookup]
    | cons i p => cases q <;> simp [delete, lookup]
  | branch cs w ih =>
    cases p with
    | nil =>
      simp only [delete, lookup_collapseBranch]
      cases q <;> simp [lookup]
    | cons i p =>
      simp only [delete, lookup_collapseBranch]
      cases q with
      | nil => simp [lookup]
      | cons j q =>
        simp only [lookup]
        by_cases hj : j = i
        · subst hj; simp [upd_same, ih]
        · have : (j :: q) ≠ (i :: p) := by intro e; cases e; exact hj rfl
          simp [upd_other _ _ _ _ hj, this]
  | ext k n ih =>
    simp only [delete]
    cases hs : stripPre k p with
    | none =>
      have h := stripPre_eq_none.mp hs
      simp only [lookup_ext]
      by_cases hq : q = p
      · subst hq; simp [hs]
      · simp [hq]
    | some r =>
      have hp := stripPre_eq_some.mp hs
      subst hp
      have key : ∀ m, lookup m = lookup (delete n r) →
          lookup (.ext k m) q = if q = k ++ r then none else lookup (.ext k n) q := by
        intro m hm
        simp only [lookup_ext]
        cases hs2 : stripPre k q with
        | none =>
          simp
        | some r2 =>
          have := stripPre_eq_some.mp hs2
          subst this
          simp [hm, ih]
      simp only
      split
      · rename_i k2 n2 hd
        have := key (.ext k2 n2) (by rw [hd])
        rw [← this]
        rw [lookup_ext_append, lookup_ext]
      · rename_i hd
        have := key .empty (by rw [hd])
        rw [← this]
        simp only [lookup_ext, lookup]
        cases stripPre k q <;> simp [lookup]
      · rename_i m h1 h2
        exact key _ rfl

end NeoModel.Mpt
