/- C07 helper lemmas: what the admission reads of the chain. -/
import NeoModel.Proofs.FeesAdmit
import NeoModel.Model.Fees.Block
namespace NeoModel.Admission
open NeoModel.Fees NeoModel.Pack
open NeoModel.Generated.FeeConsts

/-- two chain states that look the same from transaction `t`: the same height, configuration and Policy values,
the same cryptography, the same attribute fee for every attribute type `t` carries, the same blocked flag for every
signer of `t`, and the same on-chain record under the hash of `t` and under every hash named by a Conflicts attribute
of `t`. Nothing else of the chain is constrained. -/
structure SameFor (c c' : Chain) (t : Tx) : Prop where
  height : c.height = c'.height
  maxVUBInc : c.maxVUBInc = c'.maxVUBInc
  maxBlockSysFee : c.maxBlockSysFee = c'.maxBlockSysFee
  feePerByte : c.feePerByte = c'.feePerByte
  base : c.base = c'.base
  maxVerGas : c.maxVerGas = c'.maxVerGas
  mtb : c.mtb = c'.mtb
  gorgon : c.gorgon = c'.gorgon
  p2pSigExt : c.p2pSigExt = c'.p2pSigExt
  reservedAttrs : c.reservedAttrs = c'.reservedAttrs
  notaryActive : c.notaryActive = c'.notaryActive
  committee : c.committee = c'.committee
  oracleHash : c.oracleHash = c'.oracleHash
  notary : c.notary = c'.notary
  validKey : c.validKey = c'.validKey
  verify : c.verify = c'.verify
  attrFee : ∀ a ∈ t.attrs, c.attrFee a.typ = c'.attrFee a.typ
  blocked : ∀ s ∈ t.signers, c.blocked s.account = c'.blocked s.account
  lookupSelf : c.lookup t.hash = c'.lookup t.hash
  lookupConf : ∀ h ∈ conflictHashes t, c.lookup h = c'.lookup h

theorem any_congr_mem {α : Type} (l : List α) (p q : α → Bool) (h : ∀ x ∈ l, p x = q x) : l.any p = l.any q := by
  induction l with
  | nil => rfl
  | cons a as ih => simp only [List.any_cons, h a (by simp), ih (fun x hx => h x (by simp [hx]))]

theorem all_congr_mem {α : Type} (l : List α) (p q : α → Bool) (h : ∀ x ∈ l, p x = q x) : l.all p = l.all q := by
  induction l with
  | nil => rfl
  | cons a as ih => simp only [List.all_cons, h a (by simp), ih (fun x hx => h x (by simp [hx]))]

theorem attrsFee_congr (c c' : Chain) (n : Nat) (hp : c.p2pSigExt = c'.p2pSigExt) : ∀ (l : List Attr),
    (∀ a ∈ l, c.attrFee a.typ = c'.attrFee a.typ) → attrsFee c n l = attrsFee c' n l := by
  intro l
  induction l with
  | nil => intro _; rfl
  | cons a as ih =>
    intro h
    simp only [attrsFee, h a (by simp), hp, ih (fun x hx => h x (by simp [hx]))]

theorem verifyOne_congr (c c' : Chain) (gas : Nat) (w : Wit) (hb : c.base = c'.base) (hm : c.maxVerGas = c'.maxVerGas)
    (hg : c.gorgon = c'.gorgon) (hk : c.validKey = c'.validKey) (hv : c.verify = c'.verify) :
    verifyOne c gas w = verifyOne c' gas w := by
  cases w <;> simp [verifyOne, hb, hm, hg, hk, hv]

theorem verifyWitnesses_congr (c c' : Chain) (hb : c.base = c'.base) (hm : c.maxVerGas = c'.maxVerGas)
    (hg : c.gorgon = c'.gorgon) (hk : c.validKey = c'.validKey) (hv : c.verify = c'.verify) :
    ∀ (ws : List Wit) (gas : Nat), verifyWitnesses c gas ws = verifyWitnesses c' gas ws := by
  intro ws
  induction ws with
  | nil => intro gas; rfl
  | cons w ws ih =>
    intro gas
    simp only [verifyWitnesses, verifyOne_congr c c' gas w hb hm hg hk hv]
    split <;> simp [ih]

theorem mem_conflictHashes (t : Tx) (h : Nat) (hm : Attr.conflicts h ∈ t.attrs) : h ∈ conflictHashes t := by
  simp only [conflictHashes, List.mem_filterMap]
  exact ⟨_, hm, rfl⟩

theorem checkAttr_congr (c c' : Chain) (t : Tx) (s : SameFor c c' t) (a : Attr) (ha : a ∈ t.attrs) :
    checkAttr c t a = checkAttr c' t a := by
  cases a with
  | highPriority => simp [checkAttr, s.committee]
  | oracleResponse f => simp [checkAttr, s.oracleHash]
  | notValidBefore h => simp [checkAttr, s.height]
  | conflicts h => simp [checkAttr, s.lookupConf h (mem_conflictHashes t h ha)]
  | notaryAssisted nk => simp [checkAttr, s.notaryActive, s.notary]
  | other typ => simp [checkAttr, s.reservedAttrs]

/-- **what `admit` may depend on.** -/
theorem admit_congr (c c' : Chain) (p : Pool) (t : Tx) (s : SameFor c c' t) : admit c p t = admit c' p t := by
  have hb : (t.signers.any fun x => c.blocked x.account) = (t.signers.any fun x => c'.blocked x.account) := by
    exact any_congr_mem _ _ _ (fun x hx => s.blocked x hx)
  have hattr : verifyAttrs c t = verifyAttrs c' t := by
    simp only [verifyAttrs]
    exact all_congr_mem _ _ _ (fun a ha => checkAttr_congr c c' t s a ha)
  simp only [admit, s.maxBlockSysFee, s.height, s.maxVUBInc, hb, s.feePerByte, attrsFee_congr c c' _ s.p2pSigExt t.attrs s.attrFee,
    s.lookupSelf, s.mtb, verifyWitnesses_congr c c' s.base s.maxVerGas s.gorgon s.validKey s.verify, hattr]

/-- the exact dependence on a conflict record: it blocks the transaction iff the record under its hash is inside
the traceability window and one of the transaction's signers has a per-signer record inside the window. -/
theorem stub_blocks_iff (idx : Nat) (recs : List (Nat × Nat)) (signers : List Nat) (height mtb : Nat) (hne : signers ≠ []) :
    hasTransaction (.stub idx recs) signers height mtb = some .hasConflicts
      ↔ isTraceable idx height mtb = true ∧ ∃ a ∈ signers, ∃ q ∈ recs, q.1 = a ∧ isTraceable q.2 height mtb = true := by
  have he : signers.isEmpty = false := by cases signers <;> simp_all
  simp only [hasTransaction, he, Bool.false_eq_true, if_false]
  by_cases ht : isTraceable idx height mtb = true
  · simp only [ht, Bool.not_true, Bool.false_eq_true, if_false, true_and]
    constructor
    · intro h
      split at h
      · rename_i hany
        simp only [List.any_eq_true, Bool.and_eq_true, beq_iff_eq] at hany
        obtain ⟨a, ha, q, hq, h1, h2⟩ := hany
        exact ⟨a, ha, q, hq, h1, h2⟩
      · simp at h
    · intro ⟨a, ha, q, hq, h1, h2⟩
      have : (signers.any fun a => recs.any fun x => x.1 == a && isTraceable x.2 height mtb) = true := by
        simp only [List.any_eq_true, Bool.and_eq_true, beq_iff_eq]
        exact ⟨a, ha, q, hq, h1, h2⟩
      simp [this]
  · simp [ht]

end NeoModel.Admission
