/-
C19: `getBlockWitness` (consensus.go:666-696; machine model `Mach.blockWitness`) emits EXACTLY M signatures, all taken
from Commits of the node's current view, in validator order — for every set of held Commits of the view with at least M
members (a validator that is last within the view holds N > M of them when it builds the block). The rule of seeded
change C19-m7 (no `j < m` cap) emits them all.
-/
import NeoModel.Proofs.DbftWitness
import NeoModel.Proofs.DbftSimB

namespace NeoModel.Dbft.Mach

/-- validator `i`'s slot holds a Commit of the node's current view -/
def viewCommit (nd : Node) (i : Nat) : Bool :=
  match slot nd.commit i with
  | some (.commit x _) => x.v == nd.view
  | _ => false

/-- what `getBlockWitness` reads from validator `i`'s slot -/
def bwSlot (nd : Node) (b : Block) (i : Nat) : Option (Nat × Bool) :=
  match slot nd.commit i with
  | some (.commit x sb) => if x.v == nd.view then some (i, decide (sb = b)) else none
  | _ => none

theorem blockWitness_def (e : Env) (nd : Node) (b : Block) :
    blockWitness e nd b = ((List.range e.n).filterMap (bwSlot nd b)).take e.m := rfl

/-- seeded change C19-m7: one pass over the slots, no cap -/
def blockWitnessUncapped (e : Env) (nd : Node) (b : Block) : List (Nat × Bool) :=
  (List.range e.n).filterMap (bwSlot nd b)

theorem bwSlot_isSome (nd : Node) (b : Block) (i : Nat) : (bwSlot nd b i).isSome = viewCommit nd i := by
  unfold bwSlot viewCommit
  split
  · split <;> simp_all
  · rfl

theorem bwSlot_fst (nd : Node) (b : Block) (i : Nat) (s : Nat × Bool) (h : bwSlot nd b i = some s) : s.1 = i := by
  unfold bwSlot at h
  split at h
  · split at h
    · simp only [Option.some.injEq] at h; subst h; rfl
    · cases h
  · cases h

theorem length_filterMap_isSome {α β : Type} (f : α → Option β) (l : List α) :
    (l.filterMap f).length = (l.filter fun a => (f a).isSome).length := by
  induction l with
  | nil => rfl
  | cons a t ih =>
    cases h : f a <;> simp [h, ih]

/-- the number of validators whose Commit of the current view the node holds -/
def viewCommits (e : Env) (nd : Node) : Nat := ((List.range e.n).filter (viewCommit nd)).length

theorem uncapped_length (e : Env) (nd : Node) (b : Block) :
    (blockWitnessUncapped e nd b).length = viewCommits e nd := by
  unfold blockWitnessUncapped viewCommits
  rw [length_filterMap_isSome]
  congr 1
  exact List.filter_congr (fun i _ => bwSlot_isSome nd b i)

/-- **exactly M signatures** whenever at least M Commits of the view are held — M, M+1, …, N alike -/
theorem blockWitness_length (e : Env) (nd : Node) (b : Block) (h : e.m ≤ viewCommits e nd) :
    (blockWitness e nd b).length = e.m := by
  rw [blockWitness_def, List.length_take]
  have := uncapped_length e nd b
  unfold blockWitnessUncapped at this
  omega

/-- every signature comes from a Commit of the node's current view, held in the signer's own slot -/
theorem blockWitness_from_view (e : Env) (nd : Node) (b : Block) (s : Nat × Bool) (hs : s ∈ blockWitness e nd b) :
    s.1 < e.n ∧ ∃ x sb, slot nd.commit s.1 = some (.commit x sb) ∧ x.v = nd.view ∧ s.2 = decide (sb = b) := by
  rw [blockWitness_def] at hs
  have hs := List.mem_of_mem_take hs
  rw [List.mem_filterMap] at hs
  obtain ⟨i, hi, hf⟩ := hs
  have h1 := bwSlot_fst nd b i s hf
  subst h1
  refine ⟨List.mem_range.mp hi, ?_⟩
  unfold bwSlot at hf
  split at hf
  · rename_i x sb heq
    split at hf
    · rename_i hv
      simp only [Option.some.injEq] at hf
      exact ⟨x, sb, heq, by simpa using hv, by rw [← hf]⟩
    · cases hf
  · cases hf

/-- in validator order (the order of the keys in the verification script), no validator twice -/
theorem blockWitness_ordered (e : Env) (nd : Node) (b : Block) :
    (blockWitness e nd b).Pairwise (fun s t => s.1 < t.1) := by
  rw [blockWitness_def]
  refine List.Pairwise.sublist (List.take_sublist _ _) ?_
  refine List.Pairwise.filterMap (bwSlot nd b) ?_ (List.pairwise_lt_range (n := e.n))
  intro i j hij s hs t ht
  rw [bwSlot_fst nd b i s hs, bwSlot_fst nd b j t ht]
  exact hij

/-- and they are the FIRST M holders of a Commit of the view: the capped witness is a prefix of the uncapped one -/
theorem blockWitness_prefix (e : Env) (nd : Node) (b : Block) :
    blockWitness e nd b = (blockWitnessUncapped e nd b).take e.m := rfl

/-- regression (seeded C19-m7): without the cap a validator that holds more than M Commits of the view emits more
than M signatures — for an M-of-N script `CheckMultisig` leaves the surplus on the stack and every ledger refuses -/
theorem uncapped_too_long (e : Env) (nd : Node) (b : Block) (h : e.m < viewCommits e nd) :
    e.m < (blockWitnessUncapped e nd b).length := by
  rw [uncapped_length]; exact h

end NeoModel.Dbft.Mach

namespace NeoModel.Dbft.Mach

theorem filter_length_range {α : Type} (p : α → Bool) : ∀ (n : Nat) (l : List α) (q : Nat → Bool), l.length = n →
    (∀ i (h : i < l.length), q i = p l[i]) → (l.filter p).length = ((List.range n).filter q).length
  | 0, l, q, hl, _ => by
    have : l = [] := List.length_eq_zero_iff.mp hl
    subst this; rfl
  | n + 1, [], _, hl, _ => by simp at hl
  | n + 1, a :: t, q, hl, hq => by
    have ih := filter_length_range p n t (q ∘ Nat.succ) (by simpa using hl)
      (fun i h => by have := hq (i + 1) (by simp; omega); simpa using this)
    have h0 : q 0 = p a := by have := hq 0 (by simp); simpa using this
    rw [List.range_succ_eq_map, List.filter_cons, List.filter_cons, List.filter_map, h0]
    cases p a <;> simp [ih]

/-- `checkCommit`'s count (check.go:106-112: Commit payloads of the current view) is the number of validators whose
slot `getBlockWitness` reads a signature from, in every state satisfying the refinement relation `RN` (slots are typed:
a Commit slot holds a Commit; Proofs/DbftSimB.lean — an invariant of every reachable machine state) -/
theorem count_eq_viewCommits {e : Env} {as : State} {i : Nat} {nd : Node} (h : RN e as i nd) :
    (nd.commit.filter fun s => match s with
      | some m => m.hd.v == nd.view
      | none => false).length = viewCommits e nd := by
  unfold viewCommits
  refine filter_length_range _ e.n nd.commit (viewCommit nd) h.lens.2.1 ?_
  intro j hj
  unfold viewCommit
  have hs : slot nd.commit j = nd.commit[j] := by simp [slot, List.getElem?_eq_getElem hj]
  cases hc : nd.commit[j] with
  | none => simp [hs, hc]
  | some m =>
    obtain ⟨x, sb, rfl, _⟩ := h.commit j m (by rw [hs, hc])
    simp [hs, hc, Pl.hd]

/-- **hypothesis removed**: whenever `checkCommit` passes its own threshold (count ≥ M) in a state of the invariant,
the witness it assembles has exactly M signatures — never N > M, whatever the order in which the Commits arrived. -/
theorem checkCommit_witness_exact {e : Env} {as : State} {i : Nat} {nd : Node} (h : RN e as i nd) (b : Block)
    (hc : ¬ (nd.commit.filter fun s => match s with
      | some m => m.hd.v == nd.view
      | none => false).length < e.m) :
    (blockWitness e nd b).length = e.m ∧ (blockWitness e nd b).Pairwise (fun s t => s.1 < t.1) := by
  rw [count_eq_viewCommits h] at hc
  exact ⟨blockWitness_length e nd b (by omega), blockWitness_ordered e nd b⟩

end NeoModel.Dbft.Mach
