/-
C15 — the binary condition decoder only accepts trees within the permitted nesting and width. Core Lean only.
-/
import NeoModel.Model.Witness
namespace NeoModel.Witness

theorem decodeN_spec (dec : Bytes → Option (Cond × Bytes)) (P : Cond → Prop)
    (hdec : ∀ bs c r, dec bs = some (c, r) → P c) :
    ∀ (n : Nat) (bs : Bytes) (cs : List Cond) (r : Bytes), decodeN dec n bs = some (cs, r) →
      cs.length = n ∧ ∀ c ∈ cs, P c
  | 0, bs, cs, r, h => by simp [decodeN] at h; simp [h.1]
  | n+1, bs, cs, r, h => by
      simp only [decodeN] at h
      split at h
      · cases h
      · rename_i c r1 hc
        split at h
        · cases h
        · rename_i cs' r' hn
          have ih := decodeN_spec dec P hdec n r1 cs' r' hn
          cases h
          refine ⟨by simp [ih.1], ?_⟩
          intro x hx
          cases hx with
          | head => exact hdec _ _ _ hc
          | tail _ hx => exact ih.2 x hx

theorem depthList_le {cs : List Cond} {d : Nat} (h : ∀ c ∈ cs, c.depth ≤ d) : depthList cs ≤ d := by
  induction cs with
  | nil => simp [depthList]
  | cons c cs ih =>
    simp only [depthList]
    have h1 := h c (by simp)
    have h2 := ih (fun x hx => h x (by simp [hx]))
    omega

theorem widthOkList_of {cs : List Cond} (h : ∀ c ∈ cs, c.widthOk = true) : widthOkList cs = true := by
  induction cs with
  | nil => simp [widthOkList]
  | cons c cs ih =>
    simp only [widthOkList, Bool.and_eq_true]
    exact ⟨h c (by simp), ih (fun x hx => h x (by simp [hx]))⟩

theorem readArray_spec (dec : Bytes → Option (Cond × Bytes)) (d : Nat)
    (hdec : ∀ bs c r, dec bs = some (c, r) → c.depth ≤ d ∧ c.widthOk = true)
    {bs : Bytes} {cs : List Cond} {r : Bytes} (h : readArrayOfConditions dec bs = some (cs, r)) :
    cs.length ≠ 0 ∧ cs.length ≤ maxSubitems ∧ depthList cs ≤ d ∧ widthOkList cs = true := by
  unfold readArrayOfConditions at h
  split at h
  · cases h
  · rename_i l r1 hl
    split at h
    · cases h
    · rename_i hz
      split at h
      · cases h
      · rename_i hm
        have := decodeN_spec dec (fun c => c.depth ≤ d ∧ c.widthOk = true) hdec l r1 cs r h
        have hz' : l ≠ 0 := by simpa using hz
        refine ⟨by omega, by omega, depthList_le (fun c hc => (this.2 c hc).1), widthOkList_of (fun c hc => (this.2 c hc).2)⟩

/-- whatever the decoder accepts with `maxDepth = d` has nesting depth ≤ d and every And/Or has 1..16 operands. -/
theorem decodeCond_bounded (dk : Bytes → Option (Key × Bytes)) :
    ∀ (d : Nat) (bs : Bytes) (c : Cond) (r : Bytes), decodeCond dk d bs = some (c, r) →
      c.depth ≤ d ∧ c.widthOk = true
  | 0, bs, c, r, h => by simp [decodeCond] at h
  | d+1, bs, c, r, h => by
      have ih := decodeCond_bounded dk d
      cases bs with
      | nil => simp [decodeCond] at h
      | cons t rest =>
        simp only [decodeCond] at h
        split at h
        · -- boolean
          split at h
          · cases h
          · cases h; simp [Cond.depth, Cond.widthOk]
        split at h
        · -- not
          split at h
          · cases h
          · rename_i c' r' hc
            cases h
            have := ih _ _ _ hc
            simp only [Cond.depth, Cond.widthOk]; exact ⟨by omega, this.2⟩
        split at h
        · -- and
          split at h
          · cases h
          · rename_i cs r' hc
            cases h
            have := readArray_spec (decodeCond dk d) d ih hc
            simp only [Cond.depth, Cond.widthOk, Bool.and_eq_true]
            refine ⟨by omega, ⟨by simpa using this.1, by simpa using this.2.1⟩, this.2.2.2⟩
        split at h
        · -- or
          split at h
          · cases h
          · rename_i cs r' hc
            cases h
            have := readArray_spec (decodeCond dk d) d ih hc
            simp only [Cond.depth, Cond.widthOk, Bool.and_eq_true]
            refine ⟨by omega, ⟨by simpa using this.1, by simpa using this.2.1⟩, this.2.2.2⟩
        split at h
        · simp only [Option.map_eq_some_iff] at h
          obtain ⟨⟨a, b⟩, _, hh⟩ := h; cases hh; simp [Cond.depth, Cond.widthOk]
        split at h
        · simp only [Option.map_eq_some_iff] at h
          obtain ⟨⟨a, b⟩, _, hh⟩ := h; cases hh; simp [Cond.depth, Cond.widthOk]
        split at h
        · cases h; simp [Cond.depth, Cond.widthOk]
        split at h
        · simp only [Option.map_eq_some_iff] at h
          obtain ⟨⟨a, b⟩, _, hh⟩ := h; cases hh; simp [Cond.depth, Cond.widthOk]
        split at h
        · simp only [Option.map_eq_some_iff] at h
          obtain ⟨⟨a, b⟩, _, hh⟩ := h; cases hh; simp [Cond.depth, Cond.widthOk]
        · cases h

end NeoModel.Witness
