/-
C15 — the binary condition decoder only accepts trees within the permitted nesting and width. Core Lean only.
-/
import NeoModel.Model.Witness
namespace NeoModel.Witness

theorem decodeN_spec (dec : Bytes → Option (Cond × Bytes)) (P : Cond → Prop)
    (hdec : ∀ bs c r, dec bs = some (c, r) → P c) :
    ∀ (n : Nat) (bs : Bytes) (cs : List Cond) (r : Bytes), decodeN dec n bs = some (cs, r) →
      cs.length = n ∧ ∀ c ∈ cs, P c
  | 0, bs, cs, r, h => by simp [decodeN] at h; simp [h.1]
  | n+1, bs, cs, r, h => by
      simp only [decodeN] at h
      split at h
      · cases h
      · rename_i c r1 hc
        split at h
        · cases h
        · rename_i cs' r' hn
          have ih := decodeN_spec dec P hdec n r1 cs' r' hn
          cases h
          refine ⟨by simp [ih.1], ?_⟩
          intro x hx
          cases hx with
          | head => exact hdec _ _ _ hc
          | tail _ hx => exact ih.2 x hx

theorem depthList_le {cs : List Cond} {d : Nat} (h : ∀ c ∈ cs, c.depth ≤ d) : depthList cs ≤ d := by
  induction cs with
  | nil => simp [depthList]
  | cons c cs ih =>
    simp only [depthList]
    have h1 := h c (by simp)
    have h2 := ih (fun x hx => h x (by simp [hx]))
    omega

theorem widthOkList_of {cs : List Cond} (h : ∀ c ∈ cs, c.widthOk = true) : widthOkList cs = true := by
  induction cs with
  | nil => simp [widthOkList]
  | cons c cs ih =>
    simp only [widthOkList, Bool.and_eq_true]
    exact ⟨h c (by simp), ih (fun x hx => h x (by simp [hx]))⟩

theorem readArray_spec (dec : Bytes → Option (Cond × Bytes)) (d : Nat)
    (hdec : ∀ bs c r, dec bs = some (c, r) → c.depth ≤ d ∧ c.widthOk = true)
    {bs : Bytes} {cs : List Cond} {r : Bytes} (h : readArrayOfConditions dec bs = some (cs, r)) :
    cs.length ≠ 0 ∧ cs.length ≤ maxSubitems ∧ depthList cs ≤ d ∧ widthOkList cs = true := by
  unfold readArrayOfConditions at h
  split at h
  · cases h
  · rename_i l r1 hl
    split at h
    · cases h
    · rename_i hz
      split at h
      · cases h
      · rename_i hm
        have := decodeN_spec dec (fun c => c.depth ≤ d ∧ c.widthOk = true) hdec l r1 cs r h
        have hz' : l ≠ 0 := by simpa using hz
        refine ⟨by omega, by omega, depthList_le (fun c hc => (this.2 c hc).1), widthOkList_of (fun c hc => (this.2 c hc).2)⟩

/-- whatever the decoder accepts with `maxDepth = d` has nesting depth ≤ d and every And/Or has 1..16 operands. -/
theorem decodeCond_bounded (dk : Bytes → Option (Key × Bytes)) :
    ∀ (d : Nat) (bs : Bytes) (c : Cond) (r : Bytes), decodeCond dk d bs = some (c, r) →
      c.depth ≤ d ∧ c.widthOk = true
  | 0, bs, c, r, h => by simp [decodeCond] at h
  | d+1, bs, c, r, h => by
      have ih := decodeCond_bounded dk d
      cases bs with
      | nil => simp [decodeCond] at h
      | cons t rest =>
        simp only [decodeCond] at h
        split at h
        · -- boolean
          split at h
          · cases h
          · cases h; simp [Cond.depth, Cond.widthOk]
        split at h
        · -- not
          split at h
          · cases h
          · rename_i c' r' hc
            cases h
            have := ih _ _ _ hc
            simp only [Cond.depth, Cond.widthOk]; exact ⟨by omega, this.2⟩
        split at h
        · -- and
          split at h
          · cases h
          · rename_i cs r' hc
            cases h
            have := readArray_spec (decodeCond dk d) d ih hc
            simp only [Cond.depth, Cond.widthOk, Bool.and_eq_true]
            refine ⟨by omega, ⟨by simpa using this.1, by simpa using this.2.1⟩, this.2.2.2⟩
        split at h
        · -- or
          split at h
          · cases h
          · rename_i cs r' hc
            cases h
            have := readArray_spec (decodeCond dk d) d ih hc
            simp only [Cond.depth, Cond.widthOk, Bool.and_eq_true]
            refine ⟨by omega, ⟨by simpa using this.1, by simpa using this.2.1⟩, this.2.2.2⟩
        split at h
        · simp only [Option.map_eq_some_iff] at h
          obtain ⟨⟨a, b⟩, _, hh⟩ := h; cases hh; simp [Cond.depth, Cond.widthOk]
        split at h
        · simp only [Option.map_eq_some_iff] at h
          obtain ⟨⟨a, b⟩, _, hh⟩ := h; cases hh; simp [Cond.depth, Cond.widthOk]
        split at h
        · cases h; simp [Cond.depth, Cond.widthOk]
        split at h
        · simp only [Option.map_eq_some_iff] at h
          obtain ⟨⟨a, b⟩, _, hh⟩ := h; cases hh; simp [Cond.depth, Cond.widthOk]
        split at h
        · simp only [Option.map_eq_some_iff] at h
          obtain ⟨⟨a, b⟩, _, hh⟩ := h; cases hh; simp [Cond.depth, Cond.widthOk]
        · cases h

theorem depthList_le_iff (cs : List Cond) (d : Nat) : depthList cs ≤ d ↔ ∀ c ∈ cs, c.depth ≤ d := by
  induction cs with
  | nil => simp [depthList]
  | cons c cs ih => simp [depthList, Nat.max_le, ih]

theorem widthOkList_iff (cs : List Cond) : widthOkList cs = true ↔ ∀ c ∈ cs, c.widthOk = true := by
  induction cs with
  | nil => simp [widthOkList]
  | cons c cs ih => simp [widthOkList, ih]

theorem depth_pos : ∀ c : Cond, 1 ≤ c.depth
  | .boolean _ => by simp [Cond.depth]
  | .not c => by simp [Cond.depth]
  | .and cs => by simp [Cond.depth]
  | .or cs => by simp [Cond.depth]
  | .scriptHash _ => by simp [Cond.depth]
  | .group _ => by simp [Cond.depth]
  | .calledByEntry => by simp [Cond.depth]
  | .calledByContract _ => by simp [Cond.depth]
  | .calledByGroup _ => by simp [Cond.depth]

mutual
theorem admits_iff : ∀ (c : Cond) (d : Nat), admits c d = true ↔ (c.depth ≤ d ∧ c.widthOk = true)
  | c, 0 => by
      have := depth_pos c
      cases c <;> simp [admits] <;> omega
  | .not c, d+1 => by simp [admits, Cond.depth, Cond.widthOk, admits_iff c d]
  | .and cs, d+1 => by
      simp only [admits, Cond.depth, Cond.widthOk, Bool.and_eq_true, admitsAll_iff cs d]
      constructor
      · rintro ⟨hl, hd, hw⟩; exact ⟨by omega, hl, hw⟩
      · rintro ⟨hd, hl, hw⟩; exact ⟨hl, by omega, hw⟩
  | .or cs, d+1 => by
      simp only [admits, Cond.depth, Cond.widthOk, Bool.and_eq_true, admitsAll_iff cs d]
      constructor
      · rintro ⟨hl, hd, hw⟩; exact ⟨by omega, hl, hw⟩
      · rintro ⟨hd, hl, hw⟩; exact ⟨hl, by omega, hw⟩
  | .boolean _, d+1 => by simp [admits, Cond.depth, Cond.widthOk]
  | .scriptHash _, d+1 => by simp [admits, Cond.depth, Cond.widthOk]
  | .group _, d+1 => by simp [admits, Cond.depth, Cond.widthOk]
  | .calledByEntry, d+1 => by simp [admits, Cond.depth, Cond.widthOk]
  | .calledByContract _, d+1 => by simp [admits, Cond.depth, Cond.widthOk]
  | .calledByGroup _, d+1 => by simp [admits, Cond.depth, Cond.widthOk]
theorem admitsAll_iff : ∀ (cs : List Cond) (d : Nat), admitsAll cs d = true ↔ (depthList cs ≤ d ∧ widthOkList cs = true)
  | [], d => by simp [admitsAll, depthList, widthOkList]
  | c :: cs, d => by
      simp only [admitsAll, depthList, widthOkList, Bool.and_eq_true, admits_iff c d, admitsAll_iff cs d, Nat.max_le]
      constructor
      · rintro ⟨⟨a, b⟩, c', d'⟩; exact ⟨⟨a, c'⟩, b, d'⟩
      · rintro ⟨⟨a, c'⟩, b, d'⟩; exact ⟨⟨a, b⟩, c', d'⟩
end

/-! ### Signer decoder -/

theorem decodeMany_spec {α : Type} (dec : Bytes → Option (α × Bytes)) (P : α → Prop)
    (hdec : ∀ bs x r, dec bs = some (x, r) → P x) :
    ∀ (n : Nat) (bs : Bytes) (xs : List α) (r : Bytes), decodeMany dec n bs = some (xs, r) →
      xs.length = n ∧ ∀ x ∈ xs, P x
  | 0, bs, xs, r, h => by simp [decodeMany] at h; simp [h.1]
  | n+1, bs, xs, r, h => by
      simp only [decodeMany] at h
      split at h
      · cases h
      · rename_i x r1 hx
        split at h
        · cases h
        · rename_i xs' r' hn
          have ih := decodeMany_spec dec P hdec n r1 xs' r' hn
          cases h
          refine ⟨by simp [ih.1], ?_⟩
          intro y hy
          cases hy with
          | head => exact hdec _ _ _ hx
          | tail _ hy => exact ih.2 y hy

theorem readArrayMax_spec {α : Type} (dec : Bytes → Option (α × Bytes)) (P : α → Prop)
    (hdec : ∀ bs x r, dec bs = some (x, r) → P x) (max : Nat) {bs : Bytes} {xs : List α} {r : Bytes}
    (h : readArrayMax dec max bs = some (xs, r)) : xs.length ≤ max ∧ ∀ x ∈ xs, P x := by
  unfold readArrayMax at h
  split at h
  · cases h
  · rename_i l r1 hl
    split at h
    · cases h
    · rename_i hm
      have := decodeMany_spec dec P hdec l r1 xs r h
      exact ⟨by omega, this.2⟩

/-- a rule as the wire format admits it. -/
def Rule.wellFormed (r : Rule) : Prop :=
  (r.action = 0 ∨ r.action = actAllow) ∧ r.cond.depth ≤ maxConditionNesting ∧ r.cond.widthOk = true

theorem decodeRule_spec (dk : Bytes → Option (Key × Bytes)) (bs : Bytes) (x : Rule) (r : Bytes)
    (h : decodeRule dk bs = some (x, r)) : x.wellFormed := by
  unfold decodeRule at h
  split at h
  · cases h
  · rename_i a rest
    split at h
    · cases h
    · rename_i ha
      split at h
      · cases h
      · rename_i c r' hc
        cases h
        have hb := decodeCond_bounded dk maxConditionNesting _ _ _ hc
        refine ⟨?_, hb.1, hb.2⟩
        simp at ha
        simp only
        by_cases h0 : a.toNat = 0
        · exact Or.inl h0
        · exact Or.inr (ha h0)

/-- what `Signer.DecodeBinary` guarantees about an accepted signer. -/
def Signer.wellFormed (s : Signer) : Prop :=
  validScopes s.scopes = true ∧
  s.allowedContracts.length ≤ maxSubitems ∧ s.allowedGroups.length ≤ maxSubitems ∧ s.rules.length ≤ maxSubitems ∧
  (∀ r ∈ s.rules, r.wellFormed) ∧
  (hasScope s.scopes scCustomContracts = false → s.allowedContracts = []) ∧
  (hasScope s.scopes scCustomGroups = false → s.allowedGroups = []) ∧
  (hasScope s.scopes scRules = false → s.rules = [])

theorem decodeSigner_spec (dk : Bytes → Option (Key × Bytes)) (bs : Bytes) (s : Signer) (r : Bytes)
    (h : decodeSigner dk bs = some (s, r)) : s.wellFormed := by
  unfold decodeSigner at h
  split at h
  · cases h
  · rename_i acc r0 _
    split at h
    · cases h
    · rename_i sb r1 _
      simp only at h
      split at h
      · cases h
      · rename_i hv
        split at h
        · cases h
        · rename_i cs r2 hcs
          split at h
          · cases h
          · rename_i gs r3 hgs
            split at h
            · cases h
            · rename_i rs r4 hrs
              cases h
              have hv' : validScopes sb.toNat = true := by simpa using hv
              refine ⟨hv', ?_, ?_, ?_, ?_, ?_, ?_, ?_⟩
              · split at hcs
                · exact (readArrayMax_spec readHash (fun _ => True) (by simp) _ hcs).1
                · cases hcs; simp
              · split at hgs
                · exact (readArrayMax_spec dk (fun _ => True) (by simp) _ hgs).1
                · cases hgs; simp
              · split at hrs
                · exact (readArrayMax_spec (decodeRule dk) (fun _ => True) (by simp) _ hrs).1
                · cases hrs; simp
              · split at hrs
                · exact (readArrayMax_spec (decodeRule dk) Rule.wellFormed (decodeRule_spec dk) _ hrs).2
                · cases hrs; simp
              · intro hb; simp only [hb] at hcs; cases hcs; rfl
              · intro hb; simp only [hb] at hgs; cases hgs; rfl
              · intro hb; simp only [hb] at hrs; cases hrs; rfl

/-! ### Encoder / decoder round trip -/

theorem beVal_foldl (bs : Bytes) (a : Nat) :
    bs.foldl (fun a b => a * 256 + b.toNat) a = a * 256 ^ bs.length + beVal bs := by
  induction bs generalizing a with
  | nil => simp [beVal]
  | cons b bs ih =>
    simp only [List.foldl_cons, beVal, List.length_cons]
    rw [ih, ih (0 * 256 + b.toNat)]
    simp [Nat.pow_succ, Nat.add_mul, Nat.mul_assoc, Nat.mul_comm 256, Nat.add_assoc]

theorem beVal_cons (b : UInt8) (bs : Bytes) : beVal (b :: bs) = b.toNat * 256 ^ bs.length + beVal bs := by
  simp only [beVal, List.foldl_cons]
  rw [beVal_foldl]; simp [beVal]

theorem beBytes_length (n v : Nat) : (beBytes n v).length = n := by
  induction n with
  | zero => rfl
  | succ n ih => simp [beBytes, ih]

theorem beVal_beBytes (n v : Nat) : beVal (beBytes n v) = v % 256 ^ n := by
  induction n with
  | zero => simp [beBytes, beVal, Nat.mod_one]
  | succ n ih =>
    simp only [beBytes, beVal_cons, beBytes_length, ih]
    have h1 : (UInt8.ofNat (v / 256 ^ n % 256)).toNat = v / 256 ^ n % 256 := by
      simp [UInt8.toNat_ofNat']
    rw [h1, Nat.pow_succ, Nat.mod_mul, Nat.mul_comm]
    omega

theorem readHash_beBytes (h : Hash) (r : Bytes) (hh : h < 2 ^ 160) :
    readHash (beBytes 20 h ++ r) = some (h, r) := by
  have hl := beBytes_length 20 h
  have hv : beVal (beBytes 20 h) = h := by
    rw [beVal_beBytes]; apply Nat.mod_eq_of_lt
    have : (256 : Nat) ^ 20 = 2 ^ 160 := by decide
    omega
  simp [readHash, Wire.takeN, hl, hv]

theorem readVarUint_small (n : Nat) (r : Bytes) (hn : n ≤ 16) :
    Wire.readVarUint (Wire.putVarUint n ++ r) = some (n, r) := by
  have h1 : n < 0xfd := by omega
  have hb : (UInt8.ofNat n).toNat = n := by simp [UInt8.toNat_ofNat']; omega
  have n1 : UInt8.ofNat n ≠ 0xfd := by intro e; have := congrArg UInt8.toNat e; rw [hb] at this; simp at this; omega
  have n2 : UInt8.ofNat n ≠ 0xfe := by intro e; have := congrArg UInt8.toNat e; rw [hb] at this; simp at this; omega
  have n3 : UInt8.ofNat n ≠ 0xff := by intro e; have := congrArg UInt8.toNat e; rw [hb] at this; simp at this; omega
  simp [Wire.putVarUint, h1, Wire.readVarUint, n1, n2, n3, hb]

theorem decodeN_encode (dec : Bytes → Option (Cond × Bytes)) (enc : Cond → Bytes) :
    ∀ (cs : List Cond) (r : Bytes), (∀ c ∈ cs, ∀ r', dec (enc c ++ r') = some (c, r')) →
      decodeN dec cs.length ((cs.map enc).flatten ++ r) = some (cs, r)
  | [], r, _ => by simp [decodeN]
  | c :: cs, r, h => by
      have hc := h c (by simp) ((cs.map enc).flatten ++ r)
      have ih := decodeN_encode dec enc cs r (fun x hx => h x (by simp [hx]))
      simp only [List.length_cons, decodeN, List.map_cons, List.flatten_cons, List.append_assoc, hc, ih]

theorem encodeConds_eq (ek : Key → Bytes) (cs : List Cond) :
    encodeConds ek cs = (cs.map (encodeCond ek)).flatten := by
  induction cs with
  | nil => simp [encodeConds]
  | cons c cs ih => simp [encodeConds, ih]

theorem hashesOkList_iff (cs : List Cond) : hashesOkList cs ↔ ∀ c ∈ cs, c.hashesOk := by
  induction cs with
  | nil => simp [hashesOkList]
  | cons c cs ih => simp [hashesOkList, ih]

theorem readArray_encode (dec : Bytes → Option (Cond × Bytes)) (ek : Key → Bytes) (cs : List Cond) (r : Bytes)
    (hl0 : cs.length ≠ 0) (hl : cs.length ≤ maxSubitems)
    (h : ∀ c ∈ cs, ∀ r', dec (encodeCond ek c ++ r') = some (c, r')) :
    readArrayOfConditions dec (Wire.putVarUint cs.length ++ (encodeConds ek cs ++ r)) = some (cs, r) := by
  unfold readArrayOfConditions
  rw [readVarUint_small cs.length _ (by simpa [maxSubitems] using hl)]
  have h0 : (cs.length == 0) = false := by simpa using hl0
  have h1 : ¬ cs.length > maxSubitems := by omega
  simp only [h0, h1, if_false, Bool.false_eq_true]
  rw [encodeConds_eq]
  exact decodeN_encode dec (encodeCond ek) cs r h

/-- Every tree within the permitted nesting and width is decoded back from its encoding (so the bound of
`nesting_bounded` is exactly the set of trees the wire format can carry). -/
theorem decode_encode (dk : Bytes → Option (Key × Bytes)) (ek : Key → Bytes)
    (hk : ∀ k r, dk (ek k ++ r) = some (k, r)) :
    ∀ (c : Cond) (d : Nat) (r : Bytes), c.depth ≤ d → c.widthOk = true → c.hashesOk →
      decodeCond dk d (encodeCond ek c ++ r) = some (c, r)
  | c, 0, r, hd, _, _ => by have := depth_pos c; omega
  | .boolean b, d+1, r, _, _, _ => by
      cases b <;> simp [encodeCond, decodeCond, tBoolean]
  | .not c, d+1, r, hd, hw, hh => by
      simp only [Cond.depth] at hd
      simp only [Cond.widthOk] at hw
      simp only [Cond.hashesOk] at hh
      have ih := decode_encode dk ek hk c d r (by omega) hw hh
      simp [encodeCond, decodeCond, tNot, tBoolean, ih]
  | .and cs, d+1, r, hd, hw, hh => by
      simp only [Cond.depth] at hd
      simp only [Cond.widthOk, Bool.and_eq_true] at hw
      simp only [Cond.hashesOk] at hh
      have hdl := (depthList_le_iff cs d).mp (by omega)
      have hwl := (widthOkList_iff cs).mp hw.2
      have hhl := (hashesOkList_iff cs).mp hh
      have ih : ∀ c ∈ cs, ∀ r', decodeCond dk d (encodeCond ek c ++ r') = some (c, r') :=
        fun c hc r' => decode_encode dk ek hk c d r' (hdl c hc) (hwl c hc) (hhl c hc)
      have := readArray_encode (decodeCond dk d) ek cs r (by simpa using hw.1.1) (by simpa using hw.1.2) ih
      simp [encodeCond, decodeCond, tAnd, tNot, tBoolean, this]
  | .or cs, d+1, r, hd, hw, hh => by
      simp only [Cond.depth] at hd
      simp only [Cond.widthOk, Bool.and_eq_true] at hw
      simp only [Cond.hashesOk] at hh
      have hdl := (depthList_le_iff cs d).mp (by omega)
      have hwl := (widthOkList_iff cs).mp hw.2
      have hhl := (hashesOkList_iff cs).mp hh
      have ih : ∀ c ∈ cs, ∀ r', decodeCond dk d (encodeCond ek c ++ r') = some (c, r') :=
        fun c hc r' => decode_encode dk ek hk c d r' (hdl c hc) (hwl c hc) (hhl c hc)
      have := readArray_encode (decodeCond dk d) ek cs r (by simpa using hw.1.1) (by simpa using hw.1.2) ih
      simp [encodeCond, decodeCond, tOr, tAnd, tNot, tBoolean, this]
  | .scriptHash h, d+1, r, _, _, hh => by
      simp only [Cond.hashesOk] at hh
      simp [encodeCond, decodeCond, tScriptHash, tOr, tAnd, tNot, tBoolean, readHash_beBytes h r hh]
  | .group k, d+1, r, _, _, _ => by
      simp [encodeCond, decodeCond, tGroup, tScriptHash, tOr, tAnd, tNot, tBoolean, hk k r]
  | .calledByEntry, d+1, r, _, _, _ => by
      simp [encodeCond, decodeCond, tCalledByEntry, tGroup, tScriptHash, tOr, tAnd, tNot, tBoolean]
  | .calledByContract h, d+1, r, _, _, hh => by
      simp only [Cond.hashesOk] at hh
      simp [encodeCond, decodeCond, tCalledByContract, tCalledByEntry, tGroup, tScriptHash, tOr, tAnd, tNot, tBoolean,
        readHash_beBytes h r hh]
  | .calledByGroup k, d+1, r, _, _, _ => by
      simp [encodeCond, decodeCond, tCalledByGroup, tCalledByContract, tCalledByEntry, tGroup, tScriptHash, tOr, tAnd,
        tNot, tBoolean, hk k r]


/-- a total toy key codec (unary), only used to show that the hypotheses of `decoder_complete` can be met. -/
def ekU (k : Key) : Bytes := List.replicate k 1 ++ [0]
def dkU : Bytes → Option (Key × Bytes)
  | [] => none
  | b :: r => if b = 0 then some (0, r) else match dkU r with
    | none => none
    | some (k, r') => some (k + 1, r')

theorem dkU_ekU (k : Key) (r : Bytes) : dkU (ekU k ++ r) = some (k, r) := by
  induction k with
  | zero => simp [ekU, dkU]
  | succ k ih =>
    simp only [ekU, List.replicate_succ, List.cons_append, dkU, List.append_assoc, List.nil_append] at ih ⊢
    simp [ih]

end NeoModel.Witness
