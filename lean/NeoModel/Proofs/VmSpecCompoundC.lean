/-
C13 — compound-type instructions, part C: Array / Struct instructions are list operations
(PACK / UNPACK inverses, NEWARRAY_T defaults, PICKITEM / SETITEM / APPEND / REMOVE / POPITEM / HASKEY,
REVERSEITEMS involution).
-/
import NeoModel.Proofs.VmSpecCompoundB
open NeoModel NeoModel.Vm
namespace NeoModel.Vm.Spec

theorem listRemove_eq_eraseIdx : ∀ (xs : List Item) (n : Nat), listRemove xs n = xs.eraseIdx n := by
  intro xs
  induction xs with
  | nil => intro n; simp [listRemove]
  | cons x rest ih =>
    intro n
    cases n with
    | zero => simp [listRemove]
    | succ n => simp [listRemove, ih]

theorem lenInRange (xs : List Item) (hl : xs.length < 2^31) : inRange (xs.length : Int) = true := by
  rw [inRange_iff]; omega

theorem pack_gen (n : Item) (k : Int) (hn : n.toInteger = some k) (st : List Item) (h : Heap)
    (h32 : -(2:Int)^31 ≤ k ∧ k < (2:Int)^31) (hk : ¬ (k < 0 ∨ k.toNat > st.length)) :
    execPure .pack [] (n :: st) h =
      .ok (.next (.array h.size :: st.drop k.toNat) (h.push (.items (st.take k.toNat)))) ∧
    execPure .packStruct [] (n :: st) h =
      .ok (.next (.struct h.size :: st.drop k.toNat) (h.push (.items (st.take k.toNat)))) := by
  constructor
  · simp only [execPure, popIdx_cons n _ k hn h32, bind, Except.bind, hk, if_false, Heap.alloc]
    rfl
  · simp only [execPure, popIdx_cons n _ k hn h32, bind, Except.bind, hk, if_false, Heap.alloc]
    rfl

/-- **pack_unpack.** PACK of the top `|xs|` items (the count may be any item convertible to that integer)
makes a new Array whose element 0 is the former top of the stack; UNPACK of that array restores exactly
the stack PACK started from (items in the same order, their count as an Integer on top); PACKSTRUCT / Struct
likewise. PACK and UNPACK are inverse to each other. -/
theorem pack_unpack (n : Item) (xs st : List Item) (h : Heap) (hn : n.toInteger = some (xs.length : Int))
    (hl : xs.length < 2^31) :
    execPure .pack [] (n :: (xs ++ st)) h = .ok (.next (.array h.size :: st) (h.push (.items xs))) ∧
    execPure .unpack [] (.array h.size :: st) (h.push (.items xs)) =
      .ok (.next (.int ⟨xs.length, lenInRange xs hl⟩ :: (xs ++ st)) (h.push (.items xs))) ∧
    execPure .packStruct [] (n :: (xs ++ st)) h = .ok (.next (.struct h.size :: st) (h.push (.items xs))) ∧
    execPure .unpack [] (.struct h.size :: st) (h.push (.items xs)) =
      .ok (.next (.int ⟨xs.length, lenInRange xs hl⟩ :: (xs ++ st)) (h.push (.items xs))) := by
  have hr := lenInRange xs hl
  have h32 : -(2:Int)^31 ≤ (xs.length : Int) ∧ (xs.length : Int) < (2:Int)^31 := by constructor <;> omega
  have hnot : ¬ ((xs.length : Int) < 0 ∨ (xs.length : Int).toNat > (xs ++ st).length) := by
    simp only [List.length_append]; omega
  have hg : Heap.getItems (h.push (.items xs)) h.size = some xs := by simp [Heap.getItems]
  obtain ⟨p1, p2⟩ := pack_gen n _ hn (xs ++ st) h h32 hnot
  simp only [Int.toNat_natCast, List.take_left', List.drop_left'] at p1 p2
  refine ⟨p1, ?_, p2, ?_⟩
  · simp [execPure, popE, seqItems, hg, bind, Except.bind, pushIntE_eq, intResult_inRange _ hr]
  · simp [execPure, popE, seqItems, hg, bind, Except.bind, pushIntE_eq, intResult_inRange _ hr]

/-- UNPACK then PACK: a NEW array (next heap id) with the same items; the original is untouched. -/
theorem unpack_pack (id : Nat) (xs st : List Item) (h : Heap) (hx : h.getItems id = some xs) (hl : xs.length < 2^31) :
    execPure .unpack [] (.array id :: st) h = .ok (.next (.int ⟨xs.length, lenInRange xs hl⟩ :: (xs ++ st)) h) ∧
    execPure .pack [] (.int ⟨xs.length, lenInRange xs hl⟩ :: (xs ++ st)) h =
      .ok (.next (.array h.size :: st) (h.push (.items xs))) ∧
    id ≠ h.size := by
  have hr := lenInRange xs hl
  refine ⟨?_, (pack_unpack _ xs st h rfl hl).1, Nat.ne_of_lt (getItems_lt h id xs hx)⟩
  simp [execPure, popE, seqItems, hx, bind, Except.bind, pushIntE_eq, intResult_inRange _ hr]

/-- PACK with a negative count or more items than the stack holds FAULTs. -/
theorem pack_fault (n : Item) (k : Int) (hn : n.toInteger = some k) (st : List Item) (h : Heap)
    (hk : k < 0 ∨ k > st.length) :
    isFault (execPure .pack [] (n :: st) h) ∧ isFault (execPure .packStruct [] (n :: st) h) := by
  by_cases h32 : -(2:Int)^31 ≤ k ∧ k < (2:Int)^31
  · have hbad : k < 0 ∨ k.toNat > st.length := by omega
    constructor <;>
    · simp only [execPure, popIdx_cons n _ k hn h32, bind, Except.bind, hbad, if_true]
      simp [throw, throwThe, MonadExceptOf.throw, isFault]
  · constructor <;>
    · simp only [execPure, popIdx_cons_big n _ k hn h32, bind, Except.bind]
      simp [isFault]

/-- the default element of NEWARRAY_T: false for Boolean, 0 for Integer, the empty string for ByteString,
Null for every other type. -/
theorem fillItem_spec : fillItem tBoolean = .bool false ∧ fillItem tInteger = .int ⟨0, by decide⟩ ∧
    fillItem tByteString = .bytes [] ∧
    (∀ t, t ≠ tBoolean → t ≠ tInteger → t ≠ tByteString → fillItem t = .null) := by
  refine ⟨by decide, by decide, by decide, ?_⟩
  intro t h1 h2 h3
  simp [fillItem, h1, h2, h3]

/-- **newarray_spec.** NEWARRAY_T `t` with count `0 ≤ k ≤ 2048` and a valid type byte makes a new Array of
`k` default elements of that type; NEWARRAY is NEWARRAY_T Any (all Null); NEWSTRUCT the same as a Struct;
a count outside [0, 2048] or an invalid type byte FAULTs. -/
theorem newarray_spec (n : Item) (k : Int) (hn : n.toInteger = some k) (t : UInt8) (st : List Item) (h : Heap) :
    (0 ≤ k ∧ k ≤ 2048 → typeValid t = true →
      execPure .newArrayT [t] (n :: st) h =
        .ok (.next (.array h.size :: st) (h.push (.items (List.replicate k.toNat (fillItem t)))))) ∧
    (0 ≤ k ∧ k ≤ 2048 →
      execPure .newArray [] (n :: st) h =
        .ok (.next (.array h.size :: st) (h.push (.items (List.replicate k.toNat .null)))) ∧
      execPure .newStruct [] (n :: st) h =
        .ok (.next (.struct h.size :: st) (h.push (.items (List.replicate k.toNat .null))))) ∧
    (k < 0 ∨ k > 2048 → isFault (execPure .newArrayT [t] (n :: st) h) ∧ isFault (execPure .newArray [] (n :: st) h) ∧
      isFault (execPure .newStruct [] (n :: st) h)) ∧
    (typeValid t = false → isFault (execPure .newArrayT [t] (n :: st) h)) := by
  refine ⟨?_, ?_, ?_, ?_⟩
  · intro hk ht
    have h32 : -(2:Int)^31 ≤ k ∧ k < (2:Int)^31 := by constructor <;> omega
    have hnot : ¬ (k < 0 ∨ k > (maxStackSize : Int)) := by simp [maxStackSize]; omega
    have e2 : (Op.newArrayT == Op.newStruct) = false := by decide
    simp [execPure, popIdx_cons n _ k hn h32, bind, Except.bind, hnot, e2, ht, Heap.alloc]
  · intro hk
    have h32 : -(2:Int)^31 ≤ k ∧ k < (2:Int)^31 := by constructor <;> omega
    have hnot : ¬ (k < 0 ∨ k > (maxStackSize : Int)) := by simp [maxStackSize]; omega
    have e1 : (Op.newArray == Op.newArrayT) = false := by decide
    have e2 : (Op.newArray == Op.newStruct) = false := by decide
    have e3 : (Op.newStruct == Op.newArrayT) = false := by decide
    have hv : typeValid tAny = true := by decide
    have hf : fillItem tAny = .null := by decide
    constructor
    · simp [execPure, popIdx_cons n _ k hn h32, bind, Except.bind, hnot, e1, e2, hv, hf, Heap.alloc]
    · simp [execPure, popIdx_cons n _ k hn h32, bind, Except.bind, hnot, e3, hv, hf, Heap.alloc]
  · intro hk
    by_cases h32 : -(2:Int)^31 ≤ k ∧ k < (2:Int)^31
    · have hbad : k < 0 ∨ k > (maxStackSize : Int) := by simpa [maxStackSize] using hk
      refine ⟨?_, ?_, ?_⟩ <;>
      · simp only [execPure, popIdx_cons n _ k hn h32, bind, Except.bind, hbad, if_true]
        simp [throw, throwThe, MonadExceptOf.throw, isFault]
    · refine ⟨?_, ?_, ?_⟩ <;>
      · simp only [execPure, popIdx_cons_big n _ k hn h32, bind, Except.bind]
        simp [isFault]
  · intro ht
    by_cases h32 : -(2:Int)^31 ≤ k ∧ k < (2:Int)^31
    · by_cases hbad : k < 0 ∨ k > (maxStackSize : Int)
      · simp only [execPure, popIdx_cons n _ k hn h32, bind, Except.bind, hbad, if_true]
        simp [throw, throwThe, MonadExceptOf.throw, isFault]
      · simp [execPure, popIdx_cons n _ k hn h32, bind, Except.bind, hbad, ht, throw, throwThe,
          MonadExceptOf.throw, isFault]
    · simp only [execPure, popIdx_cons_big n _ k hn h32, bind, Except.bind]
      simp [isFault]

example : execPure .newArrayT [tInteger] [.int ⟨2, by decide⟩] #[] =
    .ok (.next [.array 0] #[.items [.int ⟨0, by decide⟩, .int ⟨0, by decide⟩]]) := by decide +kernel

end NeoModel.Vm.Spec
