/-
CompileLayout — C14 target 2: the layout condition `layoutOK` (hypothesis of the byte-level theorems) is PROVED for
every assembly program that is `encodable` (operands representable, every jump target marked, long layout below
2^31 bytes — all decidable, evaluated nowhere).

The real writeJumps (codegen.go:2882-2951) makes ONE pass over the long layout: a jump is shortened iff its
long-layout offset fits a signed byte, `JMPL +5` and `INITSLOT 0,0` are removed, then removeNOPs deletes the freed
bytes and corrects every offset.  No fixed point is computed; what makes the result consistent is that deleting
bytes only moves items closer together and never reorders them (`fpos_closer`): a jump whose long offset fits a
byte still fits after shortening, and the target of a removed `JMPL +5` (whose long offset is exactly the jump's
own 5 bytes) ends up at the jump's own final offset.  The proof: final offsets are prefix sums of the final sizes
(`fposAt_psum`), every row of `emitItems` has the size accounted for (`rowBytes_length`), the script from the offset
of item i on is the bytes of item i followed by the script from item i+1 on (`assemble_drop`), and the bytes of an
item decode to the instruction again (`decode_encode`, Proofs/CompileCodec.lean).
-/
import NeoModel.Proofs.CompileAsm
import NeoModel.Proofs.CompileCodec
set_option linter.unusedSimpArgs false
set_option linter.unnecessarySimpa false
namespace NeoModel.CompileProofs
open NeoModel.MiniVm NeoModel.MiniVm.Asm NeoModel.MiniGo NeoModel.Compile

/-! ### prefix sums -/

/-- sum of the first `i` entries. -/
def psum (l : List Nat) (i : Nat) : Nat := (l.take i).sum

theorem psum_zero (l : List Nat) : psum l 0 = 0 := by simp [psum]
theorem psum_cons (x : Nat) (l : List Nat) (i : Nat) : psum (x :: l) (i + 1) = x + psum l i := by simp [psum]
theorem psum_nil (i : Nat) : psum [] i = 0 := by simp [psum]

theorem psum_succ (l : List Nat) (i : Nat) (x : Nat) (h : l[i]? = some x) : psum l (i + 1) = psum l i + x := by
  induction l generalizing i with
  | nil => simp at h
  | cons y r ih =>
    cases i with
    | zero => simp at h; subst h; simp [psum]
    | succ k =>
      simp at h
      rw [psum_cons, psum_cons, ih k h]; omega

theorem psum_ge (l : List Nat) (i : Nat) (h : l.length ≤ i) : psum l i = l.sum := by
  simp [psum, List.take_of_length_le h]

theorem psum_mono (l : List Nat) {a b : Nat} (h : a ≤ b) : psum l a ≤ psum l b := by
  induction l generalizing a b with
  | nil => simp [psum]
  | cons x r ih =>
    cases a with
    | zero => simp [psum]
    | succ a' =>
      cases b with
      | zero => omega
      | succ b' => rw [psum_cons, psum_cons]; have := ih (a := a') (b := b') (by omega); omega

/-- entrywise ≤ of two lists of the same length. -/
inductive LeAll : List Nat → List Nat → Prop
  | nil : LeAll [] []
  | cons {x y : Nat} {r1 r2 : List Nat} : x ≤ y → LeAll r1 r2 → LeAll (x :: r1) (y :: r2)

theorem leAll_of_get : ∀ (l1 l2 : List Nat), l1.length = l2.length →
    (∀ (k x y : Nat), l1[k]? = some x → l2[k]? = some y → x ≤ y) → LeAll l1 l2 := by
  intro l1
  induction l1 with
  | nil => intro l2 hl _; cases l2 with
    | nil => exact .nil
    | cons a b => simp at hl
  | cons x r ih =>
    intro l2 hl h
    cases l2 with
    | nil => simp at hl
    | cons y r2 =>
      refine .cons (h 0 x y (by simp) (by simp)) (ih r2 (by simpa using hl) ?_)
      intro k a b ha hb
      exact h (k + 1) a b (by simpa using ha) (by simpa using hb)

/-- pointwise smaller entries give smaller segment sums. -/
theorem psum_seg_le {l1 l2 : List Nat} (h : LeAll l1 l2) {a b : Nat} (hab : a ≤ b) :
    psum l1 b - psum l1 a ≤ psum l2 b - psum l2 a ∧ psum l1 a ≤ psum l1 b ∧ psum l2 a ≤ psum l2 b := by
  refine ⟨?_, psum_mono l1 hab, psum_mono l2 hab⟩
  induction h generalizing a b with
  | nil => simp [psum]
  | @cons x y r1 r2 hxy _ ih =>
    cases b with
    | zero => have : a = 0 := by omega
              subst this; simp [psum]
    | succ b' =>
      cases a with
      | zero =>
        rw [psum_cons, psum_cons, psum_zero, psum_zero]
        have := ih (a := 0) (b := b') (by omega)
        rw [psum_zero, psum_zero] at this
        omega
      | succ a' =>
        rw [psum_cons, psum_cons, psum_cons, psum_cons]
        have := ih (a := a') (b := b') (by omega)
        have m1 := psum_mono r1 (show a' ≤ b' by omega)
        have m2 := psum_mono r2 (show a' ≤ b' by omega)
        omega

/-- a segment whose sum is zero consists of zeros. -/
theorem psum_seg_zero {l : List Nat} {a b k : Nat} (hab : psum l b = psum l a) (hk1 : a ≤ k) (hk2 : k < b) (x : Nat)
    (hx : l[k]? = some x) : x = 0 := by
  have h1 := psum_mono l hk1
  have h2 := psum_mono l (show k + 1 ≤ b by omega)
  have := psum_succ l k x hx
  omega

theorem longPositions_get (c : Code) (p i : Nat) (hi : i < c.length) :
    (longPositions c p)[i]? = some (p + psum (c.map longSize) i) := by
  induction c generalizing p i with
  | nil => simp at hi
  | cons it r ih =>
    cases i with
    | zero => simp [longPositions, psum]
    | succ k =>
      simp only [longPositions, List.getElem?_cons_succ, List.map_cons, psum_cons]
      rw [ih (p + longSize it) k (by simpa using hi)]
      congr 1; omega

theorem finalPositions_get (l : List (Item × Form)) (p i : Nat) (hi : i < l.length) :
    (finalPositions l p)[i]? = some (p + psum (l.map (fun x => finalSize x.1 x.2)) i) := by
  induction l generalizing p i with
  | nil => simp at hi
  | cons x r ih =>
    obtain ⟨it, f⟩ := x
    cases i with
    | zero => simp [finalPositions, psum]
    | succ k =>
      simp only [finalPositions, List.getElem?_cons_succ, List.map_cons, psum_cons]
      rw [ih (p + finalSize it f) k (by simpa using hi)]
      congr 1; omega


/-! ### the lists that `assemble` computes, entry by entry -/

def lposL (c : Code) : List Nat := longPositions c 0
def formsL (c : Code) : List Form := (c.zip (lposL c)).map (fun (it, ip) => formOf c (lposL c) it ip)
def lsizes (c : Code) : List Nat := c.map longSize
def fsizes (c : Code) : List Nat := (c.zip (formsL c)).map (fun x => finalSize x.1 x.2)
def rowsL (c : Code) : List (Item × Form × Nat) := c.zip ((formsL c).zip (fposOf c))

theorem fposOf_eq (c : Code) : fposOf c = finalPositions (c.zip (formsL c)) 0 := rfl
theorem assemble_eq (c : Code) : assemble c = emitItems c (fposOf c) (rowsL c) := rfl

theorem lposL_length (c : Code) : (lposL c).length = c.length := longPositions_length c 0
theorem formsL_length (c : Code) : (formsL c).length = c.length := by simp [formsL, lposL_length]
theorem lsizes_length (c : Code) : (lsizes c).length = c.length := by simp [lsizes]
theorem fsizes_length (c : Code) : (fsizes c).length = c.length := by simp [fsizes, formsL_length]
theorem rowsL_length (c : Code) : (rowsL c).length = c.length := by simp [rowsL, formsL_length, fposOf_length]

theorem zip_get {α β : Type} {l1 : List α} {l2 : List β} {i : Nat} {a : α} {b : β}
    (h1 : l1[i]? = some a) (h2 : l2[i]? = some b) : (l1.zip l2)[i]? = some (a, b) :=
  List.getElem?_zip_eq_some.mpr ⟨h1, h2⟩

theorem lposL_get (c : Code) (i : Nat) (hi : i < c.length) : (lposL c)[i]? = some (psum (lsizes c) i) := by
  have := longPositions_get c 0 i hi
  simpa [lposL, lsizes] using this

theorem formsL_get (c : Code) (i : Nat) (it : Item) (hi : c[i]? = some it) :
    (formsL c)[i]? = some (formOf c (lposL c) it (psum (lsizes c) i)) := by
  have hlt : i < c.length := by
    rcases Nat.lt_or_ge i c.length with h | h
    · exact h
    · rw [List.getElem?_eq_none h] at hi; cases hi
  simp [formsL, List.getElem?_map, zip_get hi (lposL_get c i hlt)]

theorem fsizes_get (c : Code) (i : Nat) (it : Item) (hi : c[i]? = some it) :
    (fsizes c)[i]? = some (finalSize it (formOf c (lposL c) it (psum (lsizes c) i))) := by
  simp [fsizes, List.getElem?_map, zip_get hi (formsL_get c i it hi)]

theorem lsizes_get (c : Code) (i : Nat) (it : Item) (hi : c[i]? = some it) : (lsizes c)[i]? = some (longSize it) := by
  simp [lsizes, hi]

theorem fposOf_get (c : Code) (i : Nat) (hi : i < c.length) : (fposOf c)[i]? = some (psum (fsizes c) i) := by
  have := finalPositions_get (c.zip (formsL c)) 0 i (by simp [formsL_length]; exact hi)
  simpa [fposOf_eq, fsizes] using this


/-- the bytes `emitItems` writes for one row. -/
def rowBytes (c : Code) (fpos : List Nat) : Item × Form × Nat → Bytes
  | (it, f, ip) =>
    match it, f with
    | .ins op, .long => match Op.target? op with
      | some l => match labelPos c fpos l with
        | some t => Byte.encode true (Op.retarget ((t : Int) - ip) op)
        | none => Byte.encode true (Op.retarget (0 : Int) op)
      | none => Byte.encode true (Op.retarget (0 : Int) op)
    | .ins op, .short => match Op.target? op with
      | some l => match labelPos c fpos l with
        | some t => Byte.encode false (Op.retarget ((t : Int) - ip) op)
        | none => []
      | none => []
    | _, _ => []

theorem emitItems_eq (c : Code) (fpos : List Nat) (rows : List (Item × Form × Nat)) :
    emitItems c fpos rows = (rows.map (rowBytes c fpos)).flatten := by
  induction rows with
  | nil => rfl
  | cons r rs ih =>
    obtain ⟨it, f, ip⟩ := r
    simp only [emitItems, List.map_cons, List.flatten_cons, ih]
    rfl

theorem flatten_take_length (bs : List Bytes) (i : Nat) : ((bs.take i).flatten).length = psum (bs.map List.length) i := by
  induction bs generalizing i with
  | nil => simp [psum]
  | cons b r ih =>
    cases i with
    | zero => simp [psum]
    | succ k => simp [psum_cons, ih k]

theorem flatten_length (bs : List Bytes) : bs.flatten.length = (bs.map List.length).sum := by
  induction bs with
  | nil => rfl
  | cons b r ih => simp [ih]

theorem flatten_drop (bs : List Bytes) (i : Nat) : bs.flatten.drop (psum (bs.map List.length) i) = (bs.drop i).flatten := by
  induction bs generalizing i with
  | nil => simp [psum]
  | cons b r ih =>
    cases i with
    | zero => simp [psum]
    | succ k =>
      simp only [List.map_cons, psum_cons, List.flatten_cons, List.drop_succ_cons]
      rw [List.drop_length_add_append, ih k]

theorem labelPos_none (c : Code) (pos : List Nat) (l : Nat) (h : findLabel c l = none) : labelPos c pos l = none := by
  induction c generalizing pos with
  | nil => cases pos <;> rfl
  | cons it r ih =>
    cases pos with
    | nil => cases it <;> rfl
    | cons p ps =>
      cases it with
      | lbl k =>
        simp only [findLabel] at h
        by_cases hk : (k == l) = true
        · simp [hk] at h
        · simp [hk] at h
          simp [labelPos, hk, ih ps h]
      | ins op =>
        simp only [findLabel, Option.map_eq_none_iff] at h
        simp [labelPos, ih ps h]

/-- `labelPos` in terms of `findLabel`, for a position list of the right length. -/
theorem labelPos_eq (c : Code) (pos : List Nat) (l : Nat) (hl : pos.length = c.length) :
    labelPos c pos l = match findLabel c l with | some j => pos[j]? | none => none := by
  cases h : findLabel c l with
  | none => exact labelPos_none c pos l h
  | some j => exact labelPos_findLabel c pos l j hl h

theorem longSize_ins (op : Op Nat) (h : op ≠ .nop) : longSize (.ins op) = (Byte.encode true (Op.retarget (0 : Int) op)).length := by
  cases op <;> first | rfl | exact absurd rfl h

/-- what `formOf` (writeJumps' decision, codegen.go:2899-2923) can answer for an instruction. -/
theorem formOf_spec (c : Code) (lpos : List Nat) (op : Op Nat) (lp : Nat) (hnop : op ≠ .nop) :
    formOf c lpos (.ins op) lp = .long ∨
    ∃ l t, Op.target? op = some l ∧ labelPos c lpos l = some t ∧ -128 ≤ (t : Int) - lp ∧ (t : Int) - lp ≤ 127 ∧
      (formOf c lpos (.ins op) lp = .short ∨ (formOf c lpos (.ins op) lp = .removed ∧ op = .jmp l ∧ (t : Int) - lp = 5)) := by
  cases op <;> first | exact absurd rfl hnop | (left; rfl) | skip
  all_goals
    rename_i l
    simp only [formOf, Op.target?]
    cases hl : labelPos c lpos l with
    | none => left; rfl
    | some t =>
      simp only
      split
      · rename_i hr
        right
        refine ⟨l, t, rfl, hl, hr.1, hr.2, ?_⟩
        first
          | (left; rfl)
          | (split
             · rename_i h5; right; exact ⟨rfl, rfl, by simpa using h5⟩
             · left; rfl)
      · left; rfl

/-- every row has exactly the size that `finalPositions` accounted for. -/
theorem rowBytes_length (c : Code) (it : Item) (lp ip : Nat) :
    (rowBytes c (fposOf c) (it, formOf c (lposL c) it lp, ip)).length = finalSize it (formOf c (lposL c) it lp) := by
  cases it with
  | lbl k => simp [rowBytes, formOf, finalSize]
  | ins op =>
    by_cases hnop : op = .nop
    · subst hnop; simp [rowBytes, formOf, finalSize]
    · rcases formOf_spec c (lposL c) op lp hnop with hlong | ⟨l, t, ht, hlp, _, _, hshort | ⟨hrem, _, _⟩⟩
      · rw [hlong]
        simp only [rowBytes, finalSize]
        rw [longSize_ins op hnop]
        cases ht : Op.target? op with
        | none => rfl
        | some l =>
          simp only
          cases labelPos c (fposOf c) l with
          | none => rfl
          | some t => exact encode_length_retarget true op _ _
      · rw [hshort]
        simp only [rowBytes, finalSize, ht]
        rw [labelPos_eq c (lposL c) l (lposL_length c)] at hlp
        cases hf : findLabel c l with
        | none => rw [hf] at hlp; cases hlp
        | some j =>
          have hj : j < c.length := findLabel_lt c l j hf
          have hfp : labelPos c (fposOf c) l = (fposOf c)[j]? := labelPos_findLabel c (fposOf c) l j (fposOf_length c) hf
          rw [fposOf_get c j hj] at hfp
          simp only [hfp]
          exact encode_short_length op l _ ht
      · rw [hrem]; simp [rowBytes, finalSize]


theorem rowsL_get (c : Code) (i : Nat) (it : Item) (hi : c[i]? = some it) :
    (rowsL c)[i]? = some (it, formOf c (lposL c) it (psum (lsizes c) i), psum (fsizes c) i) := by
  have hlt : i < c.length := by
    rcases Nat.lt_or_ge i c.length with h | h
    · exact h
    · rw [List.getElem?_eq_none h] at hi; cases hi
  exact zip_get hi (zip_get (formsL_get c i it hi) (fposOf_get c i hlt))

/-- the byte lengths of the rows are the sizes that `finalPositions` used. -/
theorem rowLens_eq (c : Code) : ((rowsL c).map (rowBytes c (fposOf c))).map List.length = fsizes c := by
  apply List.ext_getElem?
  intro i
  rcases Nat.lt_or_ge i c.length with h | h
  · obtain ⟨it, hit⟩ : ∃ it, c[i]? = some it := ⟨c[i], List.getElem?_eq_getElem h⟩
    simp only [List.getElem?_map, rowsL_get c i it hit, fsizes_get c i it hit, Option.map_some]
    rw [rowBytes_length]
  · rw [List.getElem?_eq_none (by simp [rowsL_length]; exact h), List.getElem?_eq_none (by rw [fsizes_length]; exact h)]

theorem assemble_length (c : Code) : (assemble c).length = (fsizes c).sum := by
  rw [assemble_eq, emitItems_eq, flatten_length, rowLens_eq]

/-- the final offset of item `i` is the sum of the final sizes before it (the script length past the end). -/
theorem fposAt_psum (c : Code) (i : Nat) : fposAt c i = psum (fsizes c) i := by
  rw [fposAt_eq]
  rcases Nat.lt_or_ge i c.length with h | h
  · rw [fposOf_get c i h]
  · rw [List.getElem?_eq_none (by rw [fposOf_length]; exact h)]
    simp only
    rw [assemble_length, psum_ge _ _ (by rw [fsizes_length]; exact h)]

/-- the script from the offset of item `i` on: the bytes of item `i`, then the script from item `i+1` on. -/
theorem assemble_drop (c : Code) (i : Nat) (it : Item) (hi : c[i]? = some it) :
    (assemble c).drop (fposAt c i) =
      rowBytes c (fposOf c) (it, formOf c (lposL c) it (psum (lsizes c) i), fposAt c i) ++ (assemble c).drop (fposAt c (i + 1)) := by
  rw [fposAt_psum, fposAt_psum, assemble_eq, emitItems_eq]
  rw [← rowLens_eq, flatten_drop, flatten_drop]
  have hr := rowsL_get c i it hi
  have hlt : i < (rowsL c).length := by
    rcases Nat.lt_or_ge i (rowsL c).length with h | h
    · exact h
    · rw [List.getElem?_eq_none h] at hr; cases hr
  have : (List.map (rowBytes c (fposOf c)) (rowsL c)).drop i =
      rowBytes c (fposOf c) (it, formOf c (lposL c) it (psum (lsizes c) i), psum (fsizes c) i) ::
        (List.map (rowBytes c (fposOf c)) (rowsL c)).drop (i + 1) := by
    rw [← List.map_drop, ← List.map_drop, List.drop_eq_getElem_cons hlt, List.map_cons]
    congr 2
    have := List.getElem?_eq_getElem hlt
    rw [hr] at this
    exact (Option.some.inj this).symm
  rw [this, List.flatten_cons, rowLens_eq]

theorem finalSize_le (c : Code) (it : Item) (lp : Nat) : finalSize it (formOf c (lposL c) it lp) ≤ longSize it := by
  cases it with
  | lbl k => simp [formOf, finalSize]
  | ins op =>
    by_cases hnop : op = .nop
    · subst hnop; simp [formOf, finalSize]
    · rcases formOf_spec c (lposL c) op lp hnop with hlong | ⟨l, t, ht, _, _, _, hshort | ⟨hrem, _, _⟩⟩
      · rw [hlong]; simp [finalSize]
      · rw [hshort]; simp only [finalSize]
        rw [longSize_ins op hnop, encode_long_jump_length op l _ ht]; omega
      · rw [hrem]; simp [finalSize]

theorem sizes_le (c : Code) : LeAll (fsizes c) (lsizes c) := by
  apply leAll_of_get _ _ (by rw [fsizes_length, lsizes_length])
  intro k x y hx hy
  rcases Nat.lt_or_ge k c.length with h | h
  · obtain ⟨it, hit⟩ : ∃ it, c[k]? = some it := ⟨c[k], List.getElem?_eq_getElem h⟩
    rw [fsizes_get c k it hit] at hx
    rw [lsizes_get c k it hit] at hy
    cases hx; cases hy
    exact finalSize_le c it _
  · rw [List.getElem?_eq_none (by rw [fsizes_length]; exact h)] at hx; cases hx


theorem encOK_notarget (op : Op Nat) (h : Op.target? op = none) (he : itemEnc (.ins op) = true) :
    encOK true (Op.retarget (0 : Int) op) = true := by
  cases op <;> simp [Op.target?] at h <;> simpa [encOK, Op.retarget, itemEnc] using he

theorem encOK_jump (long : Bool) (op : Op Nat) (l : Nat) (t : Int) (h : Op.target? op = some l)
    (hr : if long then -(2 ^ 31) ≤ t ∧ t < 2 ^ 31 else -128 ≤ t ∧ t ≤ 127) :
    encOK long (Op.retarget t op) = true := by
  cases op <;> simp [Op.target?] at h <;> cases long <;> simpa [encOK, Op.retarget] using hr

theorem retarget_notarget (op : Op Nat) (h : Op.target? op = none) (t t' : Int) : Op.retarget t op = Op.retarget t' op := by
  cases op <;> simp [Op.target?] at h <;> rfl

theorem targetsMarked_get (c : Code) (h : targetsMarked c = true) (i : Nat) (op : Op Nat) (l : Nat)
    (hi : c[i]? = some (.ins op)) (ht : Op.target? op = some l) : ∃ j, findLabel c l = some j := by
  have hmem : Item.ins op ∈ c := List.mem_of_getElem? hi
  have := List.all_eq_true.mp h _ hmem
  simp only [ht] at this
  exact Option.isSome_iff_exists.mp this

theorem psum_le_sum (l : List Nat) (i : Nat) : psum l i ≤ l.sum := by
  have h1 := psum_mono l (show i ≤ i + l.length by omega)
  have h2 := psum_ge l (i + l.length) (by omega)
  omega

theorem sum_le_of_leAll {l1 l2 : List Nat} (h : LeAll l1 l2) : l1.sum ≤ l2.sum := by
  induction h with
  | nil => simp
  | cons hxy _ ih => simp; omega


/-- final offsets are closer together than long-layout offsets, in the same order (shortening never reorders). -/
theorem fpos_closer (c : Code) {a b : Nat} (hab : a ≤ b) :
    psum (fsizes c) a ≤ psum (fsizes c) b ∧ psum (lsizes c) a ≤ psum (lsizes c) b ∧
    psum (fsizes c) b - psum (fsizes c) a ≤ psum (lsizes c) b - psum (lsizes c) a := by
  have := psum_seg_le (sizes_le c) hab
  exact ⟨this.2.1, this.2.2, this.1⟩

theorem itemOK_of (c : Code) (henc : c.all itemEnc = true) (htgt : targetsMarked c = true)
    (hsz : longLen c < 2 ^ 31) (i : Nat) : itemOK c i = true := by
  unfold itemOK
  cases hc : c[i]? with
  | none => rfl
  | some it =>
    have hfs := fsizes_get c i it hc
    have hls := lsizes_get c i it hc
    have hq : fposAt c (i + 1) = fposAt c i + finalSize it (formOf c (lposL c) it (psum (lsizes c) i)) := by
      rw [fposAt_psum, fposAt_psum, psum_succ _ _ _ hfs]
    have hlq : psum (lsizes c) (i + 1) = psum (lsizes c) i + longSize it := psum_succ _ _ _ hls
    have hqlen : fposAt c (i + 1) ≤ (assemble c).length := by
      rw [fposAt_psum, assemble_length]; exact psum_le_sum _ _
    have htot : (assemble c).length ≤ longLen c := by
      rw [assemble_length]; exact sum_le_of_leAll (sizes_le c)
    have hdrop := assemble_drop c i it hc
    have hie : itemEnc it = true := List.all_eq_true.mp henc it (List.mem_of_getElem? hc)
    cases it with
    | lbl k =>
      simp only [beq_iff_eq]
      rw [hq]; simp [formOf, finalSize]
    | ins op =>
      simp only
      by_cases hnop : op = .nop
      · subst hnop
        have : fposAt c (i + 1) = fposAt c i := by rw [hq]; simp [formOf, finalSize]
        simp [this]
      · rcases formOf_spec c (lposL c) op (psum (lsizes c) i) hnop with hlong | ⟨l, t, ht, hlp, hr1, hr2, hshort | ⟨hrem, hjmp, h5⟩⟩
        · -- long form
          rw [hlong] at hq hdrop
          simp only [finalSize] at hq
          have hpos : 0 < longSize (.ins op) := by rw [longSize_ins op hnop]; exact encode_length_pos _ _
          have hne : ¬ (fposAt c (i + 1) == fposAt c i) = true := by simp; omega
          rw [if_neg hne]
          simp only [Bool.and_eq_true, decide_eq_true_eq]
          refine ⟨⟨by omega, hqlen⟩, ?_⟩
          cases ht : Op.target? op with
          | none =>
            simp only [beq_iff_eq]
            rw [hdrop]
            simp only [rowBytes, ht]
            rw [decode_encode true _ _ (encOK_notarget op ht hie)]
            rw [hq, longSize_ins op hnop]
            simp
          | some l =>
            obtain ⟨j, hj⟩ := targetsMarked_get c htgt i op l hc ht
            have hjl : j < c.length := findLabel_lt c l j hj
            have hfp : labelPos c (fposOf c) l = some (fposAt c j) := by
              rw [labelPos_findLabel c (fposOf c) l j (fposOf_length c) hj, fposOf_get c j hjl, fposAt_psum]
            simp only [hj, Bool.and_eq_true, beq_iff_eq, decide_eq_true_eq]
            have hjle : fposAt c j ≤ (assemble c).length := by
              rw [fposAt_psum, assemble_length]; exact psum_le_sum _ _
            refine ⟨?_, hjle⟩
            rw [hdrop]
            simp only [rowBytes, ht, hfp]
            have hile : fposAt c i ≤ (assemble c).length := by omega
            rw [decode_encode true _ _ (encOK_jump true op l _ ht (by simp only [if_true]; omega))]
            rw [hq, longSize_ins op hnop, encode_length_retarget true op _ 0]
            simp
        · -- short form
          rw [hshort] at hq hdrop
          simp only [finalSize] at hq
          have hne : ¬ (fposAt c (i + 1) == fposAt c i) = true := by simp; omega
          rw [if_neg hne]
          simp only [Bool.and_eq_true, decide_eq_true_eq]
          refine ⟨⟨by omega, hqlen⟩, ?_⟩
          obtain ⟨j, hj⟩ := targetsMarked_get c htgt i op l hc ht
          have hjl : j < c.length := findLabel_lt c l j hj
          have hfp : labelPos c (fposOf c) l = some (fposAt c j) := by
            rw [labelPos_findLabel c (fposOf c) l j (fposOf_length c) hj, fposOf_get c j hjl, fposAt_psum]
          have hlpj : t = psum (lsizes c) j := by
            rw [labelPos_findLabel c (lposL c) l j (lposL_length c) hj, lposL_get c j hjl] at hlp
            exact (Option.some.inj hlp).symm
          subst hlpj
          simp only [ht, hj, Bool.and_eq_true, beq_iff_eq, decide_eq_true_eq]
          have hjle : fposAt c j ≤ (assemble c).length := by
            rw [fposAt_psum, assemble_length]; exact psum_le_sum _ _
          refine ⟨?_, hjle⟩
          rw [hdrop]
          simp only [rowBytes, ht, hfp]
          have hrange : -128 ≤ (fposAt c j : Int) - fposAt c i ∧ (fposAt c j : Int) - fposAt c i ≤ 127 := by
            rw [fposAt_psum, fposAt_psum]
            rcases Nat.le_total i j with hij | hji
            · have := fpos_closer c hij; omega
            · have := fpos_closer c hji; omega
          rw [decode_encode false _ _ (encOK_jump false op l _ ht (by simpa using hrange))]
          rw [hq, encode_short_length op l _ ht]
          simp
        · -- `JMPL +5`, removed
          rw [hrem] at hq
          simp only [finalSize, Nat.add_zero] at hq
          subst hjmp
          simp only [hq, beq_self_eq_true, if_true]
          obtain ⟨j, hj⟩ := targetsMarked_get c htgt i _ l hc rfl
          have hjl : j < c.length := findLabel_lt c l j hj
          have hlpj : t = psum (lsizes c) j := by
            rw [labelPos_findLabel c (lposL c) l j (lposL_length c) hj, lposL_get c j hjl] at hlp
            exact (Option.some.inj hlp).symm
          subst hlpj
          simp only [hj, beq_iff_eq]
          have hl5 : longSize (.ins (.jmp l)) = 5 := rfl
          rw [hl5] at hlq
          have hij : i + 1 ≤ j := by
            rcases Nat.lt_or_ge i j with h | h
            · exact h
            · have := (fpos_closer c h).2.1; omega
          have := fpos_closer c hij
          rw [fposAt_psum, fposAt_psum] at *
          omega

/-- **layoutOK is a theorem**: for assembly code whose operands are representable, whose jump targets are marked and
    whose long layout stays below 2^31 bytes, writeJumps/removeNOPs as modelled put every item where the byte machine
    will look for it. -/
theorem layoutOK_of_encodable (c : Code) (h : encodable c = true) : layoutOK c = true := by
  simp only [encodable, Bool.and_eq_true, decide_eq_true_eq] at h
  obtain ⟨⟨h1, h2⟩, h3⟩ := h
  unfold layoutOK
  rw [List.all_eq_true]
  intro i _
  exact itemOK_of c h1 h2 h3 i

end NeoModel.CompileProofs
