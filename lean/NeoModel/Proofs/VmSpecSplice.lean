/-
C13 — the splice instructions are list operations on bytes: SUBSTR = drop/take, LEFT = take,
RIGHT = drop, CAT = append, MEMCPY = overwrite a window; with their exact FAULT conditions.
The result of SUBSTR / LEFT / RIGHT / CAT is always a NEW Buffer (next heap id).
-/
import NeoModel.Proofs.VmSpecCompoundD
open NeoModel NeoModel.Vm
namespace NeoModel.Vm.Spec

theorem popBytes_cons (h : Heap) (a : Item) (st : List Item) (b : Bytes) (ha : a.toBytes h = some b) :
    popBytes h (a :: st) = .ok (b, st) := by
  simp [popBytes, popE, optE, ha, bind, Except.bind, pure, Except.pure]

theorem popBytes_cons_none (h : Heap) (a : Item) (st : List Item) (ha : a.toBytes h = none) :
    popBytes h (a :: st) = .error "not bytes" := by
  simp [popBytes, popE, optE, ha, bind, Except.bind]

/-- **substr_spec.** SUBSTR (string, offset, length with the length on top), for a string operand of any
byte-convertible type (ByteString, Buffer, Integer, Boolean) holding `bs`: for `0 ≤ o`, `0 ≤ l`,
`o + l ≤ |bs|` it makes a new Buffer holding `(bs.drop o).take l`; LEFT `l` is `bs.take l`; RIGHT `l` is
`bs.drop (|bs| − l)`. -/
theorem substr_spec (s oi li : Item) (bs : Bytes) (o l : Int) (st : List Item) (h : Heap)
    (hs : s.toBytes h = some bs) (ho : oi.toInteger = some o) (hl : li.toInteger = some l)
    (h0 : 0 ≤ o) (h1 : 0 ≤ l) (hb : o + l ≤ bs.length) (hsz : bs.length < 2^31) :
    execPure .substr [] (li :: oi :: s :: st) h =
      .ok (.next (.buffer h.size :: st) (h.push (.buf ((bs.drop o.toNat).take l.toNat)))) ∧
    execPure .left [] (li :: s :: st) h =
      .ok (.next (.buffer h.size :: st) (h.push (.buf (bs.take l.toNat)))) ∧
    execPure .right [] (li :: s :: st) h =
      .ok (.next (.buffer h.size :: st) (h.push (.buf (bs.drop (bs.length - l.toNat))))) := by
  have hl32 : -(2:Int)^31 ≤ l ∧ l < (2:Int)^31 := by constructor <;> omega
  have ho32 : -(2:Int)^31 ≤ o ∧ o < (2:Int)^31 := by constructor <;> omega
  have n1 : ¬ l < 0 := by omega
  have n2 : ¬ o < 0 := by omega
  have n3 : ¬ l + o > (bs.length : Int) := by omega
  have n4 : ¬ l > (bs.length : Int) := by omega
  refine ⟨?_, ?_, ?_⟩
  · simp only [execPure, popIdx_cons li _ l hl hl32, popIdx_cons oi _ o ho ho32, popBytes_cons h s _ bs hs, bind,
      Except.bind, n1, n2, n3, if_false, newBuf, Heap.alloc]
  · simp only [execPure, popIdx_cons li _ l hl hl32, popBytes_cons h s _ bs hs, bind, Except.bind, n1, n4, if_false,
      newBuf, Heap.alloc]
  · simp only [execPure, popIdx_cons li _ l hl hl32, popBytes_cons h s _ bs hs, bind, Except.bind, n1, n4, if_false,
      newBuf, Heap.alloc]

/-- **substr_fault.** SUBSTR FAULTs (uncatchably) on a negative length or offset and when offset + length
exceeds the string; LEFT / RIGHT on a negative length or one exceeding the string. -/
theorem substr_fault (s oi li : Item) (bs : Bytes) (o l : Int) (st : List Item) (h : Heap)
    (hs : s.toBytes h = some bs) (ho : oi.toInteger = some o) (hl : li.toInteger = some l) :
    (l < 0 ∨ o < 0 ∨ o + l > bs.length → isFault (execPure .substr [] (li :: oi :: s :: st) h)) ∧
    (l < 0 ∨ l > bs.length → isFault (execPure .left [] (li :: s :: st) h) ∧
      isFault (execPure .right [] (li :: s :: st) h)) := by
  constructor
  · intro hbad
    by_cases hl32 : -(2:Int)^31 ≤ l ∧ l < (2:Int)^31
    · by_cases hl0 : l < 0
      · simp [execPure, popIdx_cons li _ l hl hl32, bind, Except.bind, hl0, throw, throwThe, MonadExceptOf.throw, isFault]
      · by_cases ho32 : -(2:Int)^31 ≤ o ∧ o < (2:Int)^31
        · by_cases ho0 : o < 0
          · simp [execPure, popIdx_cons li _ l hl hl32, popIdx_cons oi _ o ho ho32, bind, Except.bind, hl0, ho0,
              throw, throwThe, MonadExceptOf.throw, isFault]
          · have hgt : l + o > (bs.length : Int) := by omega
            simp [execPure, popIdx_cons li _ l hl hl32, popIdx_cons oi _ o ho ho32, popBytes_cons h s _ bs hs, bind,
              Except.bind, hl0, ho0, hgt, isFault]
        · simp [execPure, popIdx_cons li _ l hl hl32, popIdx_cons_big oi _ o ho ho32, bind, Except.bind, hl0, isFault]
    · simp [execPure, popIdx_cons_big li _ l hl hl32, bind, Except.bind, isFault]
  · intro hbad
    by_cases hl32 : -(2:Int)^31 ≤ l ∧ l < (2:Int)^31
    · by_cases hl0 : l < 0
      · constructor <;>
        simp [execPure, popIdx_cons li _ l hl hl32, bind, Except.bind, hl0, throw, throwThe, MonadExceptOf.throw, isFault]
      · have hgt : l > (bs.length : Int) := by omega
        constructor <;>
        simp [execPure, popIdx_cons li _ l hl hl32, popBytes_cons h s _ bs hs, bind, Except.bind, hl0, hgt, isFault]
    · constructor <;> simp [execPure, popIdx_cons_big li _ l hl hl32, bind, Except.bind, isFault]

/-- **cat_spec.** CAT (a, b with b on top) makes a new Buffer holding `a ++ b`, and FAULTs iff the result
would exceed MaxSize = 131070 bytes. -/
theorem cat_spec (a b : Item) (x y : Bytes) (st : List Item) (h : Heap)
    (ha : a.toBytes h = some x) (hb : b.toBytes h = some y) :
    execPure .cat [] (b :: a :: st) h =
      (if x.length + y.length > maxItemSize then .error "too big item"
       else .ok (.next (.buffer h.size :: st) (h.push (.buf (x ++ y))))) := by
  simp only [execPure, popBytes_cons h b _ y hb, popBytes_cons h a _ x ha, bind, Except.bind, newBuf, Heap.alloc]

/-- **splice laws.** LEFT l = SUBSTR 0 l; RIGHT l = SUBSTR (n−l) l; LEFT k ++ RIGHT (n−k) is the whole
string (so CAT of the two pieces rebuilds it); SUBSTR of SUBSTR composes. -/
theorem splice_laws (bs : Bytes) (o l k : Nat) :
    bs.take l = (bs.drop 0).take l ∧
    (l ≤ bs.length → bs.drop (bs.length - l) = (bs.drop (bs.length - l)).take l) ∧
    (k ≤ bs.length → bs.take k ++ bs.drop (bs.length - (bs.length - k)) = bs) ∧
    ((bs.drop o).take l).length = min l (bs.length - o) ∧
    (((bs.drop o).take l).drop k).take (l - k) = (bs.drop (o + k)).take (l - k) := by
  refine ⟨by simp, ?_, ?_, by simp, ?_⟩
  · intro hl
    rw [List.take_of_length_le]; simp; omega
  · intro hk
    rw [show bs.length - (bs.length - k) = k from by omega, List.take_append_drop]
  · rw [List.drop_take, List.take_take, List.drop_drop]
    congr 1; omega

/-! ### MEMCPY -/

/-- the window overwrite MEMCPY performs. -/
def overwrite (dst src : Bytes) (di si n : Nat) : Bytes :=
  dst.take di ++ (src.drop si).take n ++ dst.drop (di + n)

/-- **overwrite_laws.** The result has the length of the destination; positions before `di` and from
`di + n` on are unchanged; position `di + j` (`j < n`) holds `src[si + j]`. -/
theorem overwrite_laws (dst src : Bytes) (di si n : Nat) (hs : si + n ≤ src.length) (hd : di + n ≤ dst.length) :
    (overwrite dst src di si n).length = dst.length ∧
    (∀ j, j < di → (overwrite dst src di si n)[j]? = dst[j]?) ∧
    (∀ j, j < n → (overwrite dst src di si n)[di + j]? = src[si + j]?) ∧
    (∀ j, di + n ≤ j → (overwrite dst src di si n)[j]? = dst[j]?) := by
  have l1 : (dst.take di).length = di := by simp; omega
  have l2 : ((src.drop si).take n).length = n := by simp; omega
  refine ⟨?_, ?_, ?_, ?_⟩
  · simp [overwrite]; omega
  · intro j hj
    unfold overwrite
    rw [List.append_assoc, List.getElem?_append_left (by omega), List.getElem?_take_of_lt hj]
  · intro j hj
    unfold overwrite
    rw [List.append_assoc, List.getElem?_append_right (by omega), l1, Nat.add_sub_cancel_left,
      List.getElem?_append_left (by omega), List.getElem?_take_of_lt hj, List.getElem?_drop]
  · intro j hj
    unfold overwrite
    rw [List.getElem?_append_right (by simp; omega), List.getElem?_drop]
    simp only [List.length_append, l1, l2]
    congr 1; omega

/-- **memcpy_spec.** MEMCPY (dst Buffer, dst index, src, src index, count — the count on top) with all
indexes non-negative, `si + n ≤ |src|`, `di + n ≤ |dst|` overwrites the window of the destination Buffer in
place (`overwrite`); the source may be any byte-convertible item. -/
theorem memcpy_spec (id : Nat) (dst src : Bytes) (srcI diI siI nI : Item) (di si n : Int) (st : List Item) (h : Heap)
    (hdst : h.getBuf id = some dst) (hsrc : srcI.toBytes h = some src)
    (hdi : diI.toInteger = some di) (hsi : siI.toInteger = some si) (hn : nI.toInteger = some n)
    (h0 : 0 ≤ n ∧ 0 ≤ si ∧ 0 ≤ di) (hs : si + n ≤ src.length) (hd : di + n ≤ dst.length)
    (hsz : src.length < 2^31 ∧ dst.length < 2^31) :
    execPure .memcpy [] (nI :: siI :: srcI :: diI :: .buffer id :: st) h =
      .ok (.next st (Heap.put h id (.buf (overwrite dst src di.toNat si.toNat n.toNat)))) := by
  have hn32 : -(2:Int)^31 ≤ n ∧ n < (2:Int)^31 := by constructor <;> omega
  have hs32 : -(2:Int)^31 ≤ si ∧ si < (2:Int)^31 := by constructor <;> omega
  have hd32 : -(2:Int)^31 ≤ di ∧ di < (2:Int)^31 := by constructor <;> omega
  have n1 : ¬ n < 0 := by omega
  have n2 : ¬ si < 0 := by omega
  have n3 : ¬ si + n > (src.length : Int) := by omega
  have n4 : ¬ di < 0 := by omega
  have n5 : ¬ di + n > (dst.length : Int) := by omega
  simp only [execPure, popIdx_cons nI _ n hn hn32, popIdx_cons siI _ si hsi hs32, popBytes_cons h srcI _ src hsrc,
    popIdx_cons diI _ di hdi hd32, popE, hdst, bind, Except.bind, n1, n2, n3, n4, n5, if_false, overwrite]

example : execPure .memcpy [] [.int ⟨2, by decide⟩, .int ⟨1, by decide⟩, .bytes [0xa, 0xb, 0xc], .int ⟨0, by decide⟩, .buffer 0]
    #[.buf [1, 2, 3]] = .ok (.next [] #[.buf [0xb, 0xc, 3]]) := by decide +kernel
example : execPure .substr [] [.int ⟨2, by decide⟩, .int ⟨1, by decide⟩, .bytes [1, 2, 3, 4]] #[] =
    .ok (.next [.buffer 0] #[.buf [2, 3]]) := by decide +kernel

end NeoModel.Vm.Spec
