/-
C01 — guarded components (Model/Ledger/Guarded.lean): coherence of environment-reading components, exactness of the
guarded settings / RoleManagement components, adequacy of the dependent product, and the fact that the environment
the natives part supplies (the cached committee after OnPersist) is the same for any two adequate caches and is
what every transaction of the block sees.
-/
import NeoModel.Model.Ledger.Guarded
import NeoModel.Proofs.LedgerProduct
namespace NeoModel.Ledger

namespace EComp
variable {E S C O : Type}
open Comp

/-- generic coherence for environment-reading components: whatever environment each block runs in -/
theorem ecache_coherent (K : EComp E S C O) (hE : ∀ e, (K.fix e).Exact) (steps : List (EStep E O)) :
    ∀ n : CNode S C, n.cache = K.init n.store → (K.erun n steps).cache = K.init (K.erun n steps).store := by
  induction steps with
  | nil => intro n h; exact h
  | cons st ss ih =>
    intro n h
    simp only [erun]
    apply ih
    cases st with
    | block e txs =>
      simp only [estep, cstep]
      rw [h]
      exact runBlock_exact (K.fix e) (hE e) _ txs n.store
    | restart => rfl

/-- an exact environment-reading component is adequate in every environment; the predicted outcomes are part of the
    results, so they too are the same for a restarted node -/
theorem uadequate (K : EComp E S C O) (hE : ∀ e, (K.fix e).Exact) (e : E) :
    UAdequate (K.toEUSys.fix e) (fun s c _ => c = K.init s) where
  good_restart := fun _ _ _ _ => rfl
  good_step := by
    intro s c h b hg
    subst hg
    exact runBlock_exact (K.fix e) (hE e) (h + 1) b s
  good_det := by
    intro s c₁ c₂ h g1 g2
    subst g1 g2
    exact ⟨rfl, fun _ => ⟨rfl, rfl⟩⟩

end EComp

variable {E V C B R T V₂ C₂ B₂ R₂ T₂ : Type}

theorem EUSys.prod_adequate {U₁ : EUSys E V C B R T} {U₂ : EUSys E V₂ C₂ B₂ R₂ T₂} {G₁ G₂}
    (h₁ : ∀ e, UAdequate (U₁.fix e) G₁) (h₂ : ∀ e, UAdequate (U₂.fix e) G₂) (e : E) :
    UAdequate ((U₁.prod U₂).fix e) (fun v c h => G₁ v.1 c.1 h ∧ G₂ v.2 c.2 h) :=
  (h₁ e).prod (h₂ e)

theorem USys.toE_adequate {U : USys V C B R T} {G} (h : UAdequate U G) (e : E) : UAdequate ((U.toE E).fix e) G := h

/-- adequacy of the dependent product: the first system is adequate, the second is adequate in every environment, and
    any two adequate caches of the first system supply the same environment to the next block -/
theorem UAdequate.dprod {U₁ : USys V C B R T} {env : V → C → Nat → E} {U₂ : EUSys E V₂ C₂ B₂ R₂ T₂} {G₁ G₂}
    (h₁ : UAdequate U₁ G₁) (h₂ : ∀ e, UAdequate (U₂.fix e) G₂)
    (henv : ∀ v c₁ c₂ h, G₁ v c₁ h → G₁ v c₂ h → env v c₁ (h + 1) = env v c₂ (h + 1)) :
    UAdequate (U₁.dprod env U₂) (fun v c h => G₁ v.1 c.1 h ∧ G₂ v.2 c.2 h) where
  good_restart := fun v c h g => ⟨h₁.good_restart _ _ _ g.1, (h₂ (env v.1 c.1 h)).good_restart _ _ _ g.2⟩
  good_step := fun v c h b g => ⟨h₁.good_step _ _ _ b.1 g.1, (h₂ (env v.1 c.1 (h + 1))).good_step _ _ _ b.2 g.2⟩
  good_det := by
    intro v c₁ c₂ h g1 g2
    have d1 := h₁.good_det _ _ _ _ g1.1 g2.1
    have he := henv _ _ _ _ g1.1 g2.1
    have d2 := (h₂ (env v.1 c₁.1 (h + 1))).good_det _ _ _ _ g1.2 g2.2
    refine ⟨?_, ?_⟩
    · show (U₁.getters c₁.1 h, U₂.getters c₁.2 h) = (U₁.getters c₂.1 h, U₂.getters c₂.2 h)
      have e2 : U₂.getters c₁.2 h = U₂.getters c₂.2 h := d2.1
      rw [d1.1, e2]
    · intro b
      have a1 := (d1.2 b.1).1
      have a2 := (d1.2 b.1).2
      have b1 : (U₂.apply (env v.1 c₁.1 (h + 1)) v.2 c₁.2 (h + 1) b.2).1 = (U₂.apply (env v.1 c₁.1 (h + 1)) v.2 c₂.2 (h + 1) b.2).1 := (d2.2 b.2).1
      have b2 : (U₂.apply (env v.1 c₁.1 (h + 1)) v.2 c₁.2 (h + 1) b.2).2.2 = (U₂.apply (env v.1 c₁.1 (h + 1)) v.2 c₂.2 (h + 1) b.2).2.2 := (d2.2 b.2).2
      simp only [USys.dprod]
      rw [← he, a1, a2, b1, b2]
      exact ⟨rfl, rfl⟩

namespace Guarded
open Natives Components Comp

theorem gsettings_exact (e : Env) : (gsettings.fix e).Exact where
  step := by
    intro s h o s' c' he
    simp only [EComp.fix, gsettings] at he
    split at he
    · simp at he
    · split at he
      · simp at he
      · simp only [Option.some.injEq, Prod.mk.injEq] at he; rw [← he.1, ← he.2]; rfl
  noLeak := fun _ _ => rfl

theorem gdesignate_exact (e : Env) : (gdesignate.fix e).Exact where
  step := by
    intro s h o s' c' he
    simp only [EComp.fix, gdesignate] at he
    split at he; · simp at he
    split at he; · simp at he
    split at he; · simp at he
    split at he; · simp at he
    split at he; · simp at he
    split at he; · simp at he
    simp only [Option.some.injEq, Prod.mk.injEq] at he
    rw [← he.1, ← he.2]
    have hi : ∀ t, (gdesignate.fix e).init t = roleList.map fun r => (r, maxEntry t r) := fun _ => rfl
    rw [hi]
    simp only [List.map_map]
    apply List.map_congr_left
    intro r' _
    simp only [Function.comp]
    by_cases er : r' = o.op.role.toNat
    · simp [er]
    · simp only [er, if_false]
      rw [maxEntry_cons_other _ _ _ (fun x => er x.symm)]
  noLeak := fun _ _ => rfl

theorem gmindeploy_exact (e : Env) : (gmindeploy.fix e).Exact where
  step := fun _ _ _ _ _ _ => rfl
  noLeak := fun _ _ => rfl

/-- the check the natives model applies to its own committee-gated calls is the same function -/
theorem checkCommittee_eq (w : TxView) (tx : Tx) : checkCommittee w tx = committeeOk w.committee tx.committee := by
  unfold checkCommittee committeeOk
  cases tx.committee with
  | none => rfl
  | some p => rfl

/-- no transaction changes the cached committee: every transaction of the block sees the environment's committee -/
theorem execTx_committee (w : World) (tx : Tx) : (execTx w tx).1.c.neo.committee = w.c.neo.committee := by
  unfold execTx
  split
  · rfl
  · generalize execOp (viewOf w) tx = p
    obtain ⟨v, r⟩ := p
    cases r <;> rfl

theorem execTxs_committee (txs : List Tx) : ∀ w : World, (execTxs w txs).1.c.neo.committee = w.c.neo.committee := by
  induction txs with
  | nil => intro w; rfl
  | cons tx rest ih =>
    intro w
    simp only [execTxs]
    rw [ih, execTx_committee]

/-- the committee every transaction of block `h` is checked against, wherever it stands in the block -/
theorem committee_constant_in_block (cfg : Cfg) (st : Storage) (c : Caches) (h : Nat) (pre : List Tx) :
    (viewOf (execTxs (onPersist cfg { st := st, c := c } h) pre).1).committee = (envOf cfg st c h).committee := by
  show (execTxs (onPersist cfg { st := st, c := c } h) pre).1.c.neo.committee = _
  rw [execTxs_committee]; rfl

/-- any two adequate caches of the natives part supply the same environment to the next block -/
theorem envOf_det (cfg : Cfg) (st : Storage) (c₁ c₂ : Caches) (h : Nat)
    (g1 : NatGood cfg st c₁ h) (g2 : NatGood cfg st c₂ h) : envOf cfg st c₁ (h + 1) = envOf cfg st c₂ (h + 1) := by
  have hc := good_caches_eq cfg st c₁ c₂ h g1.1 g1.2 g2.1 g2.2
  rw [hc]
  unfold envOf onPersist
  split <;> rfl

end Guarded
end NeoModel.Ledger
