/-
Helper lemmas for C18 / Merkle root: the in-place loop and the tree builder compute `pairUp` level by level.
-/
import NeoModel.Model.Codec.Merkle
namespace NeoModel.Codec

theorem pairUp_get (H : Bytes → Bytes) (hs : List Bytes) :
    ∀ j, j < (hs.length + 1) / 2 →
      (pairUp H hs)[j]? = some (H (hs.getD (j * 2) [] ++
        (if j * 2 + 1 = hs.length then hs.getD (j * 2) [] else hs.getD (j * 2 + 1) []))) := by
  fun_induction pairUp H hs with
  | case1 => intro j h; simp at h
  | case2 a =>
    intro j h
    have : j = 0 := by simp at h; omega
    subst this; simp
  | case3 a b r ih =>
    intro j h
    cases j with
    | zero => simp
    | succ j =>
      have hj : j < (r.length + 1) / 2 := by simp only [List.length_cons] at h; omega
      have := ih j hj
      simp only [List.getElem?_cons_succ, this, List.length_cons]
      have e1 : (j + 1) * 2 = j * 2 + 1 + 1 := by omega
      rw [e1]
      simp only [List.getD_cons_succ]
      have : (j * 2 + 1 + 1 + 1 = r.length + 1 + 1) = (j * 2 + 1 = r.length) := by
        apply propext; omega
      simp only [this]


theorem getD_eq (l : List Bytes) (i : Nat) : l.getD i [] = (l[i]?).getD [] := by
  simp [List.getD_eq_getElem?_getD]

/-- the array after `j` iterations of the in-place loop: parents below `j`, the original above. -/
theorem calcLoop_get (H : Bytes → Bytes) (hs : List Bytes) :
    ∀ j, j ≤ (hs.length + 1) / 2 → ∀ i,
      ((List.range j).foldl (calcStep H hs.length) hs)[i]? = if i < j then (pairUp H hs)[i]? else hs[i]? := by
  intro j
  induction j with
  | zero => intro _ i; simp
  | succ j ih =>
    intro hj i
    have ihj := ih (by omega)
    rw [List.range_succ, List.foldl_append]
    simp only [List.foldl_cons, List.foldl_nil]
    generalize harr : (List.range j).foldl (calcStep H hs.length) hs = arr at ihj
    have hlen : arr.length = hs.length := by rw [← harr, calcLoop_length]
    have h2j : arr.getD (j * 2) [] = hs.getD (j * 2) [] := by
      rw [getD_eq, getD_eq, ihj]
      have : ¬ (j * 2 < j) := by omega
      simp [this]
    have h2j1 : arr.getD (j * 2 + 1) [] = hs.getD (j * 2 + 1) [] := by
      rw [getD_eq, getD_eq, ihj]
      have : ¬ (j * 2 + 1 < j) := by omega
      simp [this]
    unfold calcStep
    simp only [h2j, h2j1]
    rw [List.getElem?_set]
    have hjn : j < arr.length := by omega
    by_cases hij : j = i
    · subst hij
      simp only [hjn, if_true]
      have : j < j + 1 := by omega
      simp only [this, if_true]
      rw [pairUp_get H hs j (by omega)]
    · simp only [hij, if_false]
      rw [ihj]
      by_cases h1 : i < j
      · have : i < j + 1 := by omega
        simp [h1, this]
      · have : ¬ i < j + 1 := by omega
        simp [h1, this]

/-- the aliasing in-place loop computes exactly one level of the specification. -/
theorem calcLoop_eq_pairUp (H : Bytes → Bytes) (hs : List Bytes) :
    (((List.range ((hs.length + 1) / 2)).foldl (calcStep H hs.length) hs).take ((hs.length + 1) / 2)) = pairUp H hs := by
  apply List.ext_getElem?
  intro i
  rw [List.getElem?_take]
  by_cases h : i < (hs.length + 1) / 2
  · simp only [h, if_true]
    rw [calcLoop_get H hs _ (Nat.le_refl _)]
    simp [h]
  · simp only [h, if_false]
    have : (pairUp H hs).length ≤ i := by rw [pairUp_length]; omega
    exact (List.getElem?_eq_none this).symm

theorem calcMerkleRoot_eq_spec (H : Bytes → Bytes) (hs : List Bytes) :
    calcMerkleRoot H hs = merkleSpec H hs := by
  fun_induction merkleSpec H hs with
  | case1 => simp [calcMerkleRoot]
  | case2 h => simp [calcMerkleRoot]
  | case3 a b r ih =>
    rw [calcMerkleRoot]
    rw [calcLoop_eq_pairUp H (a :: b :: r)]
    exact ih


theorem getD_map_hash (l : List MNode) (i : Nat) :
    (l.map MNode.hash).getD i [] = (l.getD i (.leaf [])).hash := by
  simp only [List.getD_eq_getElem?_getD, List.getElem?_map]
  cases l[i]? <;> rfl

/-- one level of the tree builder has the hashes of one level of the specification. -/
theorem buildLevel_hash (H : Bytes → Bytes) (leaves : List MNode) :
    (buildLevel H leaves).map MNode.hash = pairUp H (leaves.map MNode.hash) := by
  apply List.ext_getElem?
  intro i
  by_cases h : i < (leaves.length + 1) / 2
  · rw [pairUp_get H _ i (by simpa using h)]
    simp only [buildLevel, List.getElem?_map, List.getElem?_range h, Option.map_some,
      getD_map_hash, List.length_map]
    by_cases h2 : i * 2 + 1 = leaves.length <;> simp [h2, MNode.hash]
  · have h1 : ((buildLevel H leaves).map MNode.hash).length ≤ i := by
      simp [buildLevel_length]; omega
    have h2 : (pairUp H (leaves.map MNode.hash)).length ≤ i := by
      rw [pairUp_length]; simp; omega
    rw [List.getElem?_eq_none h1, List.getElem?_eq_none h2]

theorem buildMerkleTree_hash (H : Bytes → Bytes) (leaves : List MNode) (hne : leaves ≠ []) :
    ∃ t, buildMerkleTree H leaves = some t ∧ t.hash = merkleSpec H (leaves.map MNode.hash) := by
  fun_induction buildMerkleTree H leaves with
  | case1 => exact absurd rfl hne
  | case2 x => exact ⟨x, rfl, by simp [merkleSpec]⟩
  | case3 a b r ih =>
    have hne' : buildLevel H (a :: b :: r) ≠ [] := by
      intro h
      have := congrArg List.length h
      rw [buildLevel_length] at this
      simp only [List.length_cons, List.length_nil] at this
      omega
    obtain ⟨t, ht, hh⟩ := ih hne'
    refine ⟨t, ht, ?_⟩
    rw [hh, buildLevel_hash]
    simp only [List.map_cons]
    rw [merkleSpec]

theorem treeRoot_eq_spec (H : Bytes → Bytes) (hs : List Bytes) (hne : hs ≠ []) :
    treeRoot H hs = some (merkleSpec H hs) := by
  unfold treeRoot
  have h1 : hs.isEmpty = false := by cases hs <;> simp_all
  simp only [h1]
  obtain ⟨t, ht, hh⟩ := buildMerkleTree_hash H (hs.map .leaf) (by cases hs <;> simp_all)
  rw [ht]
  simp only [Bool.false_eq_true, if_false, Option.map_some, hh, List.map_map]
  have hid : ∀ l : List Bytes, List.map (MNode.hash ∘ MNode.leaf) l = l := by
    intro l
    induction l with
    | nil => rfl
    | cons x xs ih => simp [MNode.hash, ih]
  rw [hid]

end NeoModel.Codec
