/-
C09 helper lemmas: the range scan in two critical sections (cache layers read at the start of the
window, the backend at its end). Whatever the scan shows for a key is the initial value or one written
during the window, hence the value the ordered map held at some instant of the window; keys not
written in the window are exact; with flush steps only the scan is exact.
-/
import NeoModel.Proofs.StoreSeekSpec
import NeoModel.Model.Store.Window
set_option linter.unusedSimpArgs false
namespace NeoModel.Store

/-! ### the split view as a map -/

theorem flatten_silent {k : Key} {s : Store} (h : s.Silent k) : s.flatten k = s.bottom.flatten k := by
  induction s with
  | cached L ps ih =>
    simp only [Store.flatten, Store.bottom, overlay, h.1]
    exact ih h.2
  | memB m st => rfl
  | level db => rfl
  | bolt db => rfl

theorem flatten_withBottom_silent {k : Key} {s : Store} (b : Store) (h : s.Silent k) :
    (s.withBottom b).flatten k = b.flatten k := by
  induction s with
  | cached L ps ih =>
    simp only [Store.withBottom, Store.flatten, overlay, h.1]
    exact ih h.2
  | memB m st => rfl
  | level db => rfl
  | bolt db => rfl

theorem flatten_withBottom_loud {k : Key} {s : Store} (b : Store) (h : ¬ s.Silent k) :
    (s.withBottom b).flatten k = s.flatten k := by
  induction s with
  | cached L ps ih =>
    simp only [Store.withBottom, Store.flatten, overlay]
    cases hs : layerSays L k with
    | some ov => cases ov <;> rfl
    | none =>
      simp only []
      apply ih
      intro hps
      exact h ⟨hs, hps⟩
  | memB m st => exact absurd trivial h
  | level db => exact absurd trivial h
  | bolt db => exact absurd trivial h

theorem withBottom_WF {s b : Store} (hs : s.WF) (hb : b.WF) : (s.withBottom b).WF := by
  induction s with
  | cached L ps ih => exact ⟨hs.1, ih hs.2⟩
  | memB m st => exact hb
  | level db => exact hb
  | bolt db => exact hb

theorem bottom_WF {s : Store} (hs : s.WF) : s.bottom.WF := by
  induction s with
  | cached L ps ih => exact ih hs.2
  | memB m st => exact hs
  | level db => exact hs
  | bolt db => exact hs

theorem withBottom_bottom (s : Store) : s.withBottom s.bottom = s := by
  induction s with
  | cached L ps ih => simp only [Store.withBottom, Store.bottom, ih]
  | memB m st => rfl
  | level db => rfl
  | bolt db => rfl

/-! ### where the entries for one key come from -/

/-- every cache-layer entry for `k` satisfies `P`, and the backend's value for `k` is the initial one
`b0` or satisfies `P`. -/
def Store.KeyFrom (k : Key) (P : Option Val → Prop) (b0 : Option Val) : Store → Prop
  | .cached L ps => (∀ ov, layerSays L k = some ov → P ov) ∧ ps.KeyFrom k P b0
  | b => b.flatten k = b0 ∨ P (b.flatten k)

theorem Store.KeyFrom.mono {k : Key} {P Q : Option Val → Prop} {b0 : Option Val} (hpq : ∀ ov, P ov → Q ov) {s : Store}
    (h : s.KeyFrom k P b0) : s.KeyFrom k Q b0 := by
  induction s with
  | cached L ps ih => exact ⟨fun ov hov => hpq ov (h.1 ov hov), ih h.2⟩
  | memB m st => exact h.imp id (hpq _)
  | level db => exact h.imp id (hpq _)
  | bolt db => exact h.imp id (hpq _)

theorem Store.KeyFrom.bottom {k : Key} {P : Option Val → Prop} {b0 : Option Val} {s : Store} (h : s.KeyFrom k P b0) :
    s.bottom.flatten k = b0 ∨ P (s.bottom.flatten k) := by
  induction s with
  | cached L ps ih => exact ih h.2
  | memB m st => exact h
  | level db => exact h
  | bolt db => exact h

theorem Store.KeyFrom.of_silent {k : Key} {P : Option Val → Prop} {s : Store} (h : s.Silent k) :
    s.KeyFrom k P (s.bottom.flatten k) := by
  induction s with
  | cached L ps ih =>
    refine ⟨?_, ih h.2⟩
    intro ov hov; rw [h.1] at hov; cases hov
  | memB m st => exact Or.inl rfl
  | level db => exact Or.inl rfl
  | bolt db => exact Or.inl rfl

/-- a change set whose entries for `k` satisfy `P`, written into any store. -/
theorem Store.KeyFrom.putChangeSet {k : Key} {P : Option Val → Prop} {b0 : Option Val} {s : Store} (h : s.KeyFrom k P b0)
    (p st : GoMap) (hp : MapWF p) (hst : MapWF st) (hpl : Placed p st)
    (hP : ∀ ov, layerSays { priv := false, mem := p, stor := st } k = some ov → P ov) :
    (s.putChangeSet p st).KeyFrom k P b0 := by
  have hb : ∀ b : Store, (b.flatten k = b0 ∨ P (b.flatten k)) →
      ((b.putChangeSet p st).flatten k = b0 ∨ P ((b.putChangeSet p st).flatten k)) := by
    intro b hb
    rw [flatten_putChangeSet b p st hp hst hpl]
    simp only [overlay]
    cases hs : layerSays { priv := false, mem := p, stor := st } k with
    | none => exact hb
    | some ov =>
      have := hP ov hs
      cases ov with
      | none => exact Or.inr this
      | some v => exact Or.inr this
  cases s with
  | cached L ps =>
    refine ⟨?_, h.2⟩
    intro ov hov
    rw [layerSays_putCS L p st hp hst] at hov
    cases hs : layerSays { priv := false, mem := p, stor := st } k with
    | none => rw [hs] at hov; exact h.1 ov hov
    | some x => rw [hs] at hov; have e := Option.some.inj hov; subst e; exact hP _ hs
  | memB m st0 => exact hb _ h
  | level db => exact hb _ h
  | bolt db => exact hb _ h

theorem Store.KeyFrom.putLayer {k : Key} {P : Option Val → Prop} {b0 : Option Val} {s : Store} (h : s.KeyFrom k P b0)
    (T : Layer) (hT : T.WF) (hP : ∀ ov, layerSays T k = some ov → P ov) :
    (s.putChangeSet T.mem T.stor).KeyFrom k P b0 :=
  h.putChangeSet T.mem T.stor hT.1 hT.2.1 hT.2.2 hP

/-- no flush step anywhere in the stack creates an entry for `k` out of nothing. -/
theorem flushStep_keyFrom {k : Key} {P : Option Val → Prop} {b0 : Option Val} {s s' : Store}
    (st : FlushStep s s') (hw : s.WF) (h : s.KeyFrom k P b0) : s'.KeyFrom k P b0 := by
  induction st with
  | «begin» L ps =>
    refine ⟨?_, ⟨h.1, h.2⟩⟩
    intro ov hov
    have : layerSays { L with mem := [], stor := [] } k = none := by
      simp [layerSays, Layer.choose, mapGet_nil]
    rw [this] at hov; cases hov
  | write F T ps =>
    exact ⟨h.1, h.2.1, h.2.2.putLayer T hw.2.1 h.2.1⟩
  | finish F T ps hc => exact ⟨h.1, h.2.2⟩
  | fail F T ps =>
    refine ⟨?_, h.2.2⟩
    intro ov hov
    rw [layerSays_fill] at hov
    cases hs : layerSays F k with
    | none => rw [hs] at hov; exact h.2.1 ov hov
    | some x => rw [hs] at hov; have e := Option.some.inj hov; subst e; exact h.1 _ hs
  | whole L ps =>
    unfold Store.persist
    by_cases h0 : (L.count == 0) = true
    · simp only [h0, if_true]; exact h
    · simp only [h0, if_false, Bool.false_eq_true]
      have hclear : ∀ (pr nm : Bool) ov, layerSays ({ priv := pr, mem := [], stor := [], nilMaps := nm } : Layer) k = some ov → P ov := by
        intro pr nm ov hov
        simp [layerSays, Layer.choose, mapGet_nil] at hov
      by_cases hp : L.priv = true
      · simp only [hp, if_true]
        exact ⟨hclear _ _, h.2.putLayer L hw.1 h.1⟩
      · simp only [hp, if_false, Bool.false_eq_true, Store.persist1, Store.persist2, Store.persist3]
        exact ⟨hclear _ _, h.2.putLayer L hw.1 h.1⟩
  | privateInto Pv L ps =>
    refine ⟨?_, ?_, h.2.2⟩
    · intro ov hov
      simp [layerSays, Layer.choose, mapGet_nil] at hov
    · intro ov hov
      rw [layerSays_putCS L Pv.mem Pv.stor hw.1.1 hw.1.2.1] at hov
      cases hs : layerSays { priv := false, mem := Pv.mem, stor := Pv.stor } k with
      | none => rw [hs] at hov; exact h.2.1 ov hov
      | some x => rw [hs] at hov; have e := Option.some.inj hov; subst e; exact h.1 _ hs
  | deeper L ps ps' _ ih => exact ⟨h.1, ih hw.2 h.2⟩


theorem sysStep_keyFrom {k : Key} {P : Option Val → Prop} {b0 : Option Val} {s s' : Store} {e : Ev}
    (st : SysStep s e s') (hw : s.WF) (h : s.KeyFrom k P b0) (hP : ∀ ov, e.writes k = some ov → P ov) :
    s'.KeyFrom k P b0 := by
  cases st with
  | put L ps k' v =>
    refine ⟨?_, h.2⟩
    intro ov hov
    rw [layerSays_set] at hov
    by_cases hk : k = k'
    · rw [if_pos hk] at hov
      have e := Option.some.inj hov; subst e
      exact hP _ (by simp [Ev.writes, hk])
    · rw [if_neg hk] at hov; exact h.1 ov hov
  | batch L ps p st hp hst hpl =>
    exact Store.KeyFrom.putChangeSet (s := .cached L ps) h p st hp hst hpl (fun ov hov => hP ov hov)
  | flush s s' fs => exact flushStep_keyFrom fs hw h

theorem run_keyFrom {k : Key} {P : Option Val → Prop} {b0 : Option Val} {s s' : Store} {es : List Ev}
    (r : Run s es s') (hw : s.WF) (h : s.KeyFrom k P b0) (hP : ∀ ov, Written es k ov → P ov) :
    s'.KeyFrom k P b0 := by
  induction r with
  | nil s => exact h
  | cons s s' s'' e es st _ ih =>
    have h' := sysStep_keyFrom st hw h (fun ov hov => hP ov ⟨e, List.mem_cons_self, hov⟩)
    exact ih (sysStep_WF st hw) h' (fun ov ⟨e', he', hov⟩ => hP ov ⟨e', List.mem_cons_of_mem _ he', hov⟩)

/-- the value the split view shows for any key is the initial one, or one written during the window. -/
theorem splitView_key {s0 s1 : Store} {es : List Ev} (r : Run s0 es s1) (hw : s0.WF) (k : Key) :
    (s0.splitView s1).flatten k = s0.flatten k ∨ Written es k ((s0.splitView s1).flatten k) := by
  unfold Store.splitView
  by_cases hs : s0.Silent k
  · rw [flatten_withBottom_silent _ hs, flatten_silent hs]
    exact (run_keyFrom r hw (Store.KeyFrom.of_silent hs) (fun ov h => h)).bottom
  · exact Or.inl (flatten_withBottom_loud _ hs)

theorem splitView_WF {s0 s1 : Store} {es : List Ev} (r : Run s0 es s1) (hw : s0.WF) : (s0.splitView s1).WF :=
  withBottom_WF hw (bottom_WF (run_WF r hw))

theorem splitView_self (s : Store) : s.splitView s = s := withBottom_bottom s

/-- right after an event that writes `ov` to `k`, the ordered map holds `ov` for `k`. -/
theorem specAfter_writes (f : SpecMap) (e : Ev) (k : Key) (ov : Option Val) (h : e.writes k = some ov) :
    specAfter f [e] k = ov := by
  cases e with
  | put k' v =>
    simp only [Ev.writes] at h
    by_cases hk : k = k'
    · rw [if_pos hk] at h
      simp only [specAfter, SpecMap.set, hk, if_true]
      exact Option.some.inj h
    · rw [if_neg hk] at h; cases h
  | batch p st =>
    simp only [Ev.writes] at h
    simp only [specAfter, overlay, h]
    cases ov <;> rfl
  | tau => cases h

theorem run_split {s s'' : Store} (a b : List Ev) (r : Run s (a ++ b) s'') : ∃ s', Run s a s' ∧ Run s' b s'' := by
  induction a generalizing s with
  | nil => exact ⟨s, .nil s, r⟩
  | cons e a ih =>
    cases r with
    | cons _ s1 _ _ _ st rest =>
      obtain ⟨s', r1, r2⟩ := ih rest
      exact ⟨s', .cons _ _ _ _ _ st r1, r2⟩

/-- per-key linearizability of the two-section scan: whatever the split view shows for a key is what
the ordered map held for that key at some instant of the window. -/
theorem splitView_instant {s0 s1 : Store} {es : List Ev} (r : Run s0 es s1) (hw : s0.WF) (k : Key) :
    ∃ es1 es2 σ, es = es1 ++ es2 ∧ Run s0 es1 σ ∧ Run σ es2 s1 ∧ (s0.splitView s1).flatten k = σ.flatten k := by
  rcases splitView_key r hw k with h | ⟨e, he, hwr⟩
  · exact ⟨[], es, s0, rfl, .nil s0, r, h⟩
  · obtain ⟨a, b, hab⟩ := List.append_of_mem he
    have hes : es = (a ++ [e]) ++ b := by rw [hab]; simp
    obtain ⟨σ, r1, r2⟩ := run_split (a ++ [e]) b (hes ▸ r)
    refine ⟨a ++ [e], b, σ, hes, r1, r2, ?_⟩
    rw [run_flatten r1 hw, specAfter_append]
    exact (specAfter_writes _ e k _ hwr).symm


/-- a key no client event of the window writes is shown exactly as in the initial state. -/
theorem splitView_untouched {s0 s1 : Store} {es : List Ev} (r : Run s0 es s1) (hw : s0.WF) (k : Key)
    (hk : ∀ ov, ¬ Written es k ov) : (s0.splitView s1).flatten k = s0.flatten k := by
  rcases splitView_key r hw k with h | h
  · exact h
  · exact absurd h (hk _)

theorem seek_eq_of_flatten_eq (a b : Store) (ha : a.WF) (hb : b.WF) (rng : SeekRange) (hp : rng.pfx ≠ [])
    (hd : rng.depth = 0) (h : a.flatten = b.flatten) : a.seek rng = b.seek rng := by
  have x := seek_spec_all a ha rng hp
  have y := seek_spec_all b hb rng hp
  rw [hd] at x y
  simp only [Store.flattenD] at x y
  rw [h] at x
  exact isSpecSeek_unique _ rng _ _ x y

/-- with flush steps only in the window (any number, anywhere in the stack, complete or not) the
two-section scan is exact: it is the one-step scan of the state at its start and at its end. -/
theorem splitView_flush_only {s0 s1 : Store} {es : List Ev} (r : Run s0 es s1) (hw : s0.WF)
    (htau : ∀ e ∈ es, e = Ev.tau) (rng : SeekRange) (hp : rng.pfx ≠ []) (hd : rng.depth = 0) :
    (s0.splitView s1).seek rng = s0.seek rng ∧ (s0.splitView s1).seek rng = s1.seek rng := by
  have hnw : ∀ k ov, ¬ Written es k ov := by
    rintro k ov ⟨e, he, hwr⟩
    rw [htau e he] at hwr; cases hwr
  have hf : (s0.splitView s1).flatten = s0.flatten := by
    funext k; exact splitView_untouched r hw k (hnw k)
  have hspec : specAfter s0.flatten es = s0.flatten := by
    clear r hnw hf
    induction es with
    | nil => rfl
    | cons e es ih =>
      rw [htau e List.mem_cons_self]
      exact ih (fun e' he' => htau e' (List.mem_cons_of_mem _ he'))
  have h1 : s1.flatten = s0.flatten := by rw [run_flatten r hw, hspec]
  exact ⟨seek_eq_of_flatten_eq _ _ (splitView_WF r hw) hw rng hp hd hf,
    seek_eq_of_flatten_eq _ _ (splitView_WF r hw) (run_WF r hw) rng hp hd (hf.trans h1.symm)⟩

/-! ### the reader's own private layers on top -/

theorem flatten_under_congr (up : List Layer) (a b : Store) (k : Key) (h : a.flatten k = b.flatten k) :
    (Store.under up a).flatten k = (Store.under up b).flatten k := by
  induction up with
  | nil => exact h
  | cons L up ih =>
    show overlay L (Store.under up a).flatten k = overlay L (Store.under up b).flatten k
    simp only [overlay, ih]

theorem under_WF (up : List Layer) (s : Store) (hu : ∀ L ∈ up, L.WF) (hs : s.WF) : (Store.under up s).WF := by
  induction up with
  | nil => exact hs
  | cons L up ih =>
    exact ⟨hu L List.mem_cons_self, ih (fun L' h' => hu L' (List.mem_cons_of_mem _ h'))⟩

/-- the same through the reader's own private layers (nobody else touches them): what the scan shows
for a key is what the reader's view held for it at some instant of the window. -/
theorem splitView_instant_under (up : List Layer) {s0 s1 : Store} {es : List Ev} (r : Run s0 es s1) (hw : s0.WF)
    (k : Key) :
    ∃ es1 es2 σ, es = es1 ++ es2 ∧ Run s0 es1 σ ∧ Run σ es2 s1 ∧
      (Store.under up (s0.splitView s1)).flatten k = (Store.under up σ).flatten k := by
  obtain ⟨es1, es2, σ, h1, h2, h3, h4⟩ := splitView_instant r hw k
  exact ⟨es1, es2, σ, h1, h2, h3, flatten_under_congr up _ _ k h4⟩

end NeoModel.Store
