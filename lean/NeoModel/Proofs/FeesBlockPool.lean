/- C07 helper lemmas: a consistent pool goes through the scratch pools of a backup and of the ledger. -/
import NeoModel.Proofs.FeesBlock
import NeoModel.Proofs.FeesAdmit
namespace NeoModel.Pack
open NeoModel NeoModel.Fees NeoModel.Admission
open NeoModel.Generated.FeeConsts
open NeoModel.Wire (varUintSize)

/-- what C08 proves of every reachable pool (Props/C08 `reachable_unpacked`, `solvent_reachable`), in the
vocabulary of this model: every transaction once, no two pooled transactions conflict, one response per oracle
request, every payer's pooled fees within its balance. -/
structure Consistent (notary : Nat) (bal : Nat × Nat → Nat) (pool : List Tx) : Prop where
  nodup : (pool.map (·.hash)).Nodup
  noConf : ∀ a ∈ pool, ∀ b ∈ pool, a.hash ∉ conflictHashes b
  orcUniq : ∀ a ∈ pool, ∀ b ∈ pool, ∀ i, oracleId a = some i → oracleId b = some i → a.hash = b.hash
  solvent : ∀ q, sumFees notary q pool ≤ bal q

/-- a pool view that lets everything through: `admit c (freePool t) t` is the chain part of the admission. -/
def freePool (t : Tx) : Pool :=
  { has := fun _ => false, conflictsAttrErr := false, balance := t.sysFee + t.netFee, feeSum := 0, oracleErr := false, full := false }

theorem poolAdd_freePool (t : Tx) : poolAdd (freePool t) t = none := by
  simp [poolAdd, freePool]

theorem sumFees_append (n : Nat) (q : Nat × Nat) (a b : List Tx) :
    sumFees n q (a ++ b) = sumFees n q a + sumFees n q b := by
  simp [sumFees, List.filter_append]

theorem sumFees_cons (n : Nat) (q : Nat × Nat) (t : Tx) (l : List Tx) :
    sumFees n q (t :: l) = (if payer n t == q then fee t else 0) + sumFees n q l := by
  simp only [sumFees, List.filter_cons]
  split <;> simp

/-- admission = chain part, then the pool. -/
theorem admit_split (c : Chain) (p : Pool) (t : Tx) :
    admit c p t = match admit c (freePool t) t with
      | some e => some e
      | none => poolAdd p t := by
  unfold admit
  by_cases h1 : t.sysFee > c.maxBlockSysFee
  · simp [h1]
  by_cases h2 : (!t.scriptOk) = true
  · simp [h1, h2]
  by_cases h3 : t.validUntil ≤ c.height
  · simp [h1, h2, h3]
  by_cases h4 : t.validUntil > c.height + c.maxVUBInc
  · simp [h1, h2, h3, h4]
  by_cases h5 : (t.signers.any fun s => c.blocked s.account) = true
  · simp [h1, h2, h3, h4, h5]
  by_cases h6 : t.size > maxTransactionSize
  · simp [h1, h2, h3, h4, h5, h6]
  simp only [h1, h2, h3, h4, h5, h6, if_false, Bool.false_eq_true]
  by_cases h7 : t.netFee < t.size * c.feePerByte + attrsFee c t.signers.length t.attrs
  · simp [h7]
  simp only [h7, if_false]
  cases hasTransaction (c.lookup t.hash) (t.signers.map (·.account)) c.height c.mtb with
  | some e => rfl
  | none =>
    simp only []
    cases verifyWitnesses c (t.netFee - (t.size * c.feePerByte + attrsFee c t.signers.length t.attrs)) (t.signers.map (·.wit)) with
    | none => rfl
    | some g =>
      simp only []
      by_cases h8 : (!verifyAttrs c t) = true
      · simp only [h8, if_true]
      · simp [h8, poolAdd_freePool]

theorem admit_none_of (c : Chain) (p : Pool) (t : Tx) (h1 : admit c (freePool t) t = none) (h2 : poolAdd p t = none) :
    admit c p t = none := by
  rw [admit_split, h1]; exact h2

theorem admitInBlock_of_admit (c : Chain) (p : Pool) (t : Tx) (h : admit c p t = none) : admitInBlock c p t = none := by
  unfold admit at h
  split at h
  · contradiction
  · exact h

/-- the chain part of an admitted transaction bounds its size and its system fee. -/
theorem admit_bounds (c : Chain) (p : Pool) (t : Tx) (h : admit c p t = none) :
    t.size ≤ maxTransactionSize ∧ t.sysFee ≤ c.maxBlockSysFee := by
  unfold admit at h
  split at h; · contradiction
  split at h; · contradiction
  split at h; · contradiction
  split at h; · contradiction
  split at h; · contradiction
  split at h; · contradiction
  rename_i h1 _ _ _ _ h6
  omega

theorem consistent_prefix {n : Nat} {bal : Nat × Nat → Nat} {a b : List Tx} (h : Consistent n bal (a ++ b)) :
    Consistent n bal a := by
  refine ⟨?_, ?_, ?_, ?_⟩
  · have := h.nodup; rw [List.map_append] at this; exact (List.nodup_append.mp this).1
  · intro x hx y hy; exact h.noConf x (by simp [hx]) y (by simp [hy])
  · intro x hx y hy; exact h.orcUniq x (by simp [hx]) y (by simp [hy])
  · intro q; have := h.solvent q; rw [sumFees_append] at this; omega

theorem namedOf_nil (sp : List Tx) (t : Tx) : ∀ (hs : List Nat), (∀ h ∈ hs, ∀ e ∈ sp, e.hash ≠ h) → namedOf sp t hs = some [] := by
  intro hs
  induction hs with
  | nil => intro _; rfl
  | cons h hs ih =>
    intro hh
    have hf : sp.find? (·.hash == h) = none := by
      rw [List.find?_eq_none]
      intro e he
      simpa using hh h (by simp) e he
    simp only [namedOf, hf]
    exact ih (fun x hx => hh x (by simp [hx]))

/-- the view a consistent pool gives to its next transaction: nothing stands in its way. -/
theorem scratchView_consistent (n : Nat) (bal : Nat × Nat → Nat) (sp : List Tx) (t : Tx) (rest : List Tx)
    (h : Consistent n bal (sp ++ t :: rest)) :
    poolAdd (scratchView n bal sp t) t = none ∧ (scratchAdd n bal sp t).2 = sp ++ [t] := by
  have hnd := h.nodup
  rw [List.map_append, List.map_cons] at hnd
  have hnot : ∀ e ∈ sp, e.hash ≠ t.hash := by
    intro e he heq
    have h1 := (List.nodup_append.mp hnd).2.2 e.hash (List.mem_map.mpr ⟨e, he, rfl⟩) t.hash (by simp)
    exact h1 heq
  have hby : namedBy sp t = [] := by
    simp only [namedBy, List.filter_eq_nil_iff, List.contains_eq_mem, decide_eq_true_eq]
    intro e he
    exact h.noConf t (by simp) e (by simp [he])
  have hof : namedOf sp t (conflictHashes t) = some [] := by
    apply namedOf_nil
    intro x hx e he heq
    exact h.noConf e (by simp [he]) t (by simp) (heq ▸ hx)
  have horc : ∀ id, oracleId t = some id → ∀ e ∈ sp, oracleId e ≠ some id := by
    intro id hid e he heid
    exact hnot e he (h.orcUniq e (by simp [he]) t (by simp) id heid hid)
  have hsolv := h.solvent (payer n t)
  rw [sumFees_append, sumFees_cons] at hsolv
  simp only [beq_self_eq_true, if_true] at hsolv
  have hhas : (sp.any fun e => e.hash == t.hash) = false := by
    simp only [List.any_eq_false, beq_iff_eq]
    intro e he; exact hnot e he
  have hv : poolAdd (scratchView n bal sp t) t = none := by
    simp only [scratchView, hof, hby, List.nil_append, List.filter_nil, List.map_nil, List.sum_nil, Nat.add_zero,
      Nat.sub_zero, poolAdd, hhas, Bool.false_eq_true, if_false, bne_self_eq_false, Bool.false_and]
    have h1 : ¬ bal (payer n t) < t.sysFee + t.netFee := by simp only [fee] at hsolv; omega
    have h2 : ¬ bal (payer n t) < t.sysFee + t.netFee + sumFees n (payer n t) sp := by simp only [fee] at hsolv; omega
    simp only [h1, h2, if_false]
    cases ho : oracleId t with
    | none => simp
    | some id =>
      have : (sp.any fun e => oracleId e == some id && decide (e.netFee ≥ t.netFee)) = false := by
        simp only [List.any_eq_false, Bool.and_eq_true, beq_iff_eq, decide_eq_true_eq, not_and]
        intro e he heid; exact absurd heid (horc id ho e he)
      simp [this]
  refine ⟨hv, ?_⟩
  have hrm : removedBy sp t = [] := by
    simp only [removedBy, hby, hof, Option.getD_some, List.nil_append, List.map_nil]
    cases ho : oracleId t with
    | none => rfl
    | some id =>
      simp only [List.map_eq_nil_iff, List.filter_eq_nil_iff, beq_iff_eq]
      intro e he; exact horc id ho e he
  simp [scratchAdd, hv, hrm]

/-- a consistent list of individually admissible transactions passes the backup's loop … -/
theorem backupLoop_consistent (c : Chain) (bal : Nat × Nat → Nat) (inMain : Nat → Bool) :
    ∀ (l sp : List Tx) (i : Nat), Consistent c.notary bal (sp ++ l) →
      (∀ t ∈ l, admit c (freePool t) t = none) → backupLoop c bal inMain i sp l = none := by
  intro l
  induction l with
  | nil => intros; rfl
  | cons t ts ih =>
    intro sp i hc ha
    obtain ⟨hv, hsp⟩ := scratchView_consistent c.notary bal sp t ts hc
    have hadm := admit_none_of c _ t (ha t (by simp)) hv
    simp only [backupLoop, hv, hadm, ite_self, hsp]
    exact ih (sp ++ [t]) (i + 1) (by simpa using hc) (fun x hx => ha x (by simp [hx]))

/-- … and the ledger's, count check included. -/
theorem ledgerLoop_consistent (c : Chain) (bal : Nat × Nat → Nat) (inMain : Nat → Bool) :
    ∀ (l sp : List Tx) (i : Nat), Consistent c.notary bal (sp ++ l) →
      (∀ t ∈ l, admit c (freePool t) t = none) → ledgerLoop c bal inMain i sp l = none := by
  intro l
  induction l with
  | nil => intros; rfl
  | cons t ts ih =>
    intro sp i hc ha
    obtain ⟨hv, hsp⟩ := scratchView_consistent c.notary bal sp t ts hc
    have hadm := admitInBlock_of_admit c _ t (admit_none_of c _ t (ha t (by simp)) hv)
    simp only [ledgerLoop, hv, hadm, ite_self, hsp, List.length_append, List.length_cons, List.length_nil, ne_eq,
      not_true_eq_false, if_false]
    exact ih (sp ++ [t]) (i + 1) (by simpa using hc) (fun x hx => ha x (by simp [hx]))

end NeoModel.Pack
