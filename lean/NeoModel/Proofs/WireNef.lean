/-
C17 — lawfulness of the NEF codec (zero-padded compiler field, method tokens, checksum over the re-encoding).
-/
import NeoModel.Model.Wire.Nef
import NeoModel.Proofs.WireTx
namespace NeoModel.Wire
open Codec
open NeoModel.Generated

/-! ### NEF file (pkg/smartcontract/nef) -/

theorem dropWhile_zeros (k : Nat) (l : Bytes) :
    (List.replicate k (0 : UInt8) ++ l).dropWhile (· == 0) = l.dropWhile (· == 0) := by
  induction k with
  | zero => simp
  | succ k ih => simp [List.replicate_succ, List.dropWhile_cons, ih]

theorem trimZeros_pad (n : Nat) (v : Bytes) : trimZeros (padZeros n v) = trimZeros v := by
  simp only [trimZeros, padZeros, List.reverse_append, List.reverse_replicate, dropWhile_zeros]

theorem dropWhile_idem (l : Bytes) : (l.dropWhile (· == 0)).dropWhile (· == 0) = l.dropWhile (· == 0) := by
  induction l with
  | nil => simp
  | cons a t ih =>
    by_cases h : a = 0
    · simp [List.dropWhile_cons, h, ih]
    · simp [List.dropWhile_cons, h]

theorem trimZeros_idem (b : Bytes) : trimZeros (trimZeros b) = trimZeros b := by
  simp only [trimZeros, List.reverse_reverse, dropWhile_idem]

theorem dropWhile_length (l : Bytes) : (l.dropWhile (· == 0)).length ≤ l.length := by
  induction l with
  | nil => simp
  | cons a t ih => simp only [List.dropWhile_cons]; split <;> simp <;> omega

theorem trimZeros_length (b : Bytes) : (trimZeros b).length ≤ b.length := by
  have := dropWhile_length b.reverse
  simpa [trimZeros] using this

theorem padZeros_length (n : Nat) (v : Bytes) (h : v.length ≤ n) : (padZeros n v).length = n := by
  simp [padZeros]; omega

theorem paddedC_lawful (n : Nat) : (paddedC n).Lawful where
  roundtrip v r hw := by
    simp only [paddedC] at hw ⊢
    have hl := padZeros_length n v hw.1
    have := takeN_append (padZeros n v) r
    rw [hl] at this
    rw [this]
    simp [trimZeros_pad, hw.2]
  dec_wf b v r hd := by
    simp only [paddedC, Option.map_eq_some_iff] at hd ⊢
    obtain ⟨⟨x, r'⟩, hx, he⟩ := hd
    simp at he
    rw [← he.1]
    exact ⟨by have := trimZeros_length x; have := (takeN_some hx).1; omega, trimZeros_idem x⟩
  dec_suffix b v r hd := by
    simp only [paddedC, Option.map_eq_some_iff] at hd
    obtain ⟨⟨x, r'⟩, hx, he⟩ := hd
    simp at he
    exact ⟨x, by rw [← he.2]; exact (takeN_some hx).2⟩
  size_eq v hw := by simp only [paddedC] at hw ⊢; exact (padZeros_length n v hw.1).symm
  alloc_ok _ _ _ _ := by simp [paddedC]
  alloc_fail _ _ := by simp [paddedC]

theorem methodTokenC_lawful : methodTokenC.Lawful :=
  map_lawful (seq_lawful (fixed_lawful 20) (seq_lawful (refine_lawful (varBytes_lawful _))
    (seq_lawful (uintLE_lawful 2) (seq_lawful boolC_lawful (refine_lawful byte_lawful))))) (fun _ _ => rfl)

theorem methodTokenC_strict : methodTokenC.Strict :=
  map_strict (seq_strict_left (fixed_strict 20 (by decide)) (seq_lawful (refine_lawful (varBytes_lawful _))
    (seq_lawful (uintLE_lawful 2) (seq_lawful boolC_lawful (refine_lawful byte_lawful)))))

theorem nefBodyC_lawful : nefBodyC.Lawful :=
  map_lawful (seq_lawful (refine_lawful (uintLE_lawful 4)) (seq_lawful (paddedC_lawful _)
    (seq_lawful (varBytes_lawful _) (seq_lawful (refine_lawful byte_lawful)
      (seq_lawful (array_lawful methodTokenC_lawful methodTokenC_strict)
        (seq_lawful (refine_lawful (uintLE_lawful 2)) (refine_lawful (varBytes_lawful _))))))))
    (by
      intro a hw
      obtain ⟨⟨_, hm⟩, _, _, ⟨_, hr1⟩, _, ⟨_, hr2⟩, _⟩ := hw
      simp only [beq_iff_eq] at hm hr1 hr2
      obtain ⟨a1, a2, a3, a4, a5, a6, a7⟩ := a
      simp only at hm hr1 hr2
      subst hm hr1 hr2; rfl)

/-- C17 (NEF): all laws, for any checksum function. -/
theorem nefC_lawful (H : Bytes → Bytes) : (nefC H).Lawful :=
  map_lawful (refine_lawful (seq_lawful nefBodyC_lawful (uintLE_lawful 4))) (fun _ _ => rfl)

end NeoModel.Wire

