/-
C20 (a) helper lemmas: progress of `Run` (`Good` is stable under every calm step; `Run` alone reaches `m`).
-/
import NeoModel.Proofs.QueueCalm
namespace NeoModel.Queue

/-- Every index in `(height, m]` has a valid element in its slot. -/
def Filled (s : State) (m : Nat) : Prop :=
  ∀ i, s.height < i → i ≤ m → ∃ x, s.ring (posOf s.cap i) = some x ∧ x.idx = i ∧ x.ok = true

/-- `Run` is inside its loop, or a signal is pending for it. -/
def Active (s : State) : Prop :=
  (s.signal = true ∧ s.pc ≠ .done) ∨ s.pc = .top ∨ (∃ h, s.pc = .haveH h) ∨
  (∃ b p, s.pc = .holding b p) ∨ (∃ b p, s.pc = .added b p)

structure Good (s : State) (m : Nat) : Prop where
  inv : Inv s
  fresh : Fresh s
  nd : s.discarded = false
  go : s.height < m → Filled s m ∧ Active s

theorem height_mono (s : State) (a : Act) : s.height ≤ (apply s a).height := by
  cases a with
  | put e hr => rw [apply, (put_frame s e _).2.1]; exact Nat.le_refl _
  | adv => simp only [apply, chainAdvance]; omega
  | disc => simp only [apply, discard]; split <;> exact Nat.le_refl _
  | notify => simp only [apply, notify]; split <;> exact Nat.le_refl _
  | run =>
    simp only [apply, runStep]
    split
    · exact Nat.le_refl _
    · unfold wake; split
      · exact Nat.le_refl _
      · split <;> exact Nat.le_refl _
    · exact Nat.le_refl _
    · exact Nat.le_refl _
    · simp only [addItem]; split <;> omega
    · exact Nat.le_refl _
    · exact Nat.le_refl _

theorem nd_apply (s : State) (a : Act) (hd : a ≠ .disc) (h : s.discarded = false) :
    (apply s a).discarded = false := by
  cases a with
  | put e hr => rw [apply, (put_frame s e _).2.2.2]; exact h
  | adv => exact h
  | disc => exact absurd rfl hd
  | notify => simp only [apply, notify]; split <;> exact h
  | run =>
    simp only [apply, runStep]
    split
    · exact h
    · unfold wake; split
      · exact h
      · split <;> exact h
    · exact h
    · exact h
    · exact h
    · exact h
    · exact h

/-- `Good s m` is stable under every calm step of every party. -/
theorem good_apply (s : State) (m : Nat) (a : Act) (hr : racy s a = false) (hd : a ≠ .disc)
    (g : Good s m) : Good (apply s a) m := by
  refine ⟨inv_apply s a g.inv, fresh_apply s a g.inv g.fresh hr, nd_apply s a hd g.nd, ?_⟩
  intro hlt
  have hm := height_mono s a
  obtain ⟨hfill, hact⟩ := g.go (by omega)
  cases a with
  | disc => exact absurd rfl hd
  | notify =>
    have hnd := g.nd
    simp only [apply, notify, hnd, Bool.false_eq_true, if_false]
    refine ⟨hfill, ?_⟩
    rcases hact with h | h | h | h | h
    · exact .inl ⟨rfl, h.2⟩
    · exact .inr (.inl h)
    · exact .inr (.inr (.inl h))
    · exact .inr (.inr (.inr (.inl h)))
    · exact .inr (.inr (.inr (.inr h)))
  | put e hr' =>
    obtain ⟨h1, h2, h3, _⟩ := put_frame s e (min hr' s.height)
    constructor
    · intro i hi1 hi2
      simp only [apply, h2] at hi1
      obtain ⟨x, hx1, hx2, hx3⟩ := hfill i hi1 hi2
      refine ⟨x, ?_, hx2, hx3⟩
      simp only [apply, h3]
      exact put_keeps s g.inv e _ (Nat.min_le_right _ _) _ x hx1 (by omega)
    · simp only [apply, Active, h1]
      rcases hact with h | h
      · left
        refine ⟨?_, h.2⟩
        rcases put_cases s e (min hr' s.height) with h1 | h1 | ⟨_, _, _, _, h1⟩ <;> rw [h1]
        · exact h.1
        · rfl
      · exact .inr h
  | adv =>
    constructor
    · intro i hi1 hi2
      exact hfill i (by simp only [apply, chainAdvance] at hi1; omega) hi2
    · exact hact
  | run =>
    cases hpc : s.pc with
    | init =>
      have hs : s.signal = true := by
        rcases hact with h | h | ⟨_, h⟩ | ⟨_, _, h⟩ | ⟨_, _, h⟩
        · exact h.1
        all_goals (rw [hpc] at h; cases h)
      simp only [apply, runStep, hpc]
      exact ⟨hfill, .inl ⟨hs, by simp [start]⟩⟩
    | wait =>
      have hs : s.signal = true := by
        rcases hact with h | h | ⟨_, h⟩ | ⟨_, _, h⟩ | ⟨_, _, h⟩
        · exact h.1
        all_goals (rw [hpc] at h; cases h)
      simp only [apply, runStep, hpc, wake, hs, if_true]
      exact ⟨hfill, .inr (.inl rfl)⟩
    | top =>
      simp only [apply, runStep, hpc]
      exact ⟨hfill, .inr (.inr (.inl ⟨_, rfl⟩))⟩
    | haveH hh =>
      have hhe := g.fresh.haveH hh hpc
      simp only [apply, runStep, hpc] at hlt ⊢
      have hlt' : s.height < m := hlt
      constructor
      · intro i hi1 hi2
        obtain ⟨x, hx1, hx2, hx3⟩ := hfill i hi1 hi2
        refine ⟨x, ?_, hx2, hx3⟩
        show (cleanup s.cap (hh - s.lastHeight) s.lastHeight s.ring s.len).1 (posOf s.cap i) = some x
        have hi1' : s.height < i := hi1
        by_cases hn : hh - s.lastHeight = 0
        · rw [hn]; exact hx1
        · exact cleanup_keeps _ _ _ _ _ _ _ hx1 (by omega)
      · obtain ⟨x, hx1, hx2, _⟩ := hfill (s.height + 1) (by omega) (by omega)
        right; right; right; left
        refine ⟨x, posOf s.cap (hh + 1), ?_⟩
        have hng : ¬ x.idx > s.height + 1 := by omega
        simp only [lockSection, hhe, hx1, hng, if_false]
    | holding b pos =>
      simp only [apply, runStep, hpc] at hlt hm ⊢
      constructor
      · intro i hi1 hi2
        exact hfill i (by omega) hi2
      · right; right; right; right; exact ⟨b, pos, rfl⟩
    | added b pos =>
      simp only [apply, runStep, hpc] at hlt ⊢
      constructor
      · intro i hi1 hi2
        have hi1' : s.height < i := hi1
        obtain ⟨x, hx1, hx2, hx3⟩ := hfill i hi1' hi2
        refine ⟨x, ?_, hx2, hx3⟩
        simp only [finish]
        split
        · rename_i hb
          simp only [setSlot]
          split
          · rename_i hp
            exfalso
            rw [hp, hb] at hx1
            cases hx1
            have := g.fresh.added _ _ hpc hx3
            omega
          · exact hx1
        · exact hx1
      · right; left; rfl
    | done =>
      exfalso
      rcases hact with h | h | ⟨_, h⟩ | ⟨_, _, h⟩ | ⟨_, _, h⟩
      · exact h.2 hpc
      all_goals (rw [hpc] at h; cases h)

theorem good_run (s : State) (m : Nat) (g : Good s m) : Good (runStep s) m :=
  good_apply s m .run rfl (by simp) g

theorem runN_add (k n : Nat) (s : State) : runN (k + n) s = runN n (runN k s) := by
  induction k generalizing s with
  | zero => simp [runN]
  | succ k ih => rw [Nat.succ_add]; simp only [runN]; exact ih _

theorem good_runN (n : Nat) (s : State) (m : Nat) (g : Good s m) : Good (runN n s) m := by
  induction n generalizing s with
  | zero => exact g
  | succ n ih => exact ih _ (good_run s m g)

theorem runN_mono (n : Nat) (s : State) : s.height ≤ (runN n s).height := by
  induction n generalizing s with
  | zero => exact Nat.le_refl _
  | succ n ih => exact Nat.le_trans (height_mono s .run) (ih _)

/-! progress: from every position of `Run` the height grows within a few steps -/

theorem prog_haveH (s : State) (m h : Nat) (g : Good s m) (hlt : s.height < m) (hpc : s.pc = .haveH h) :
    s.height < (runN 2 s).height := by
  have hhe := g.fresh.haveH h hpc
  obtain ⟨hfill, _⟩ := g.go hlt
  obtain ⟨x, hx1, hx2, hx3⟩ := hfill (s.height + 1) (by omega) (by omega)
  have hng : ¬ x.idx > s.height + 1 := by omega
  have h1 : (runStep s).pc = .holding x (posOf s.cap (h + 1)) ∧ (runStep s).height = s.height := by
    simp only [runStep, hpc, lockSection, hhe, hx1, hng, if_false, and_self]
  have h2 : (runStep (runStep s)).height = s.height + 1 := by
    rw [runStep, h1.1]
    simp only [addItem, accepts, hx3, hx2, h1.2, beq_self_eq_true, Bool.and_self, if_true]
  simp only [runN]; omega

theorem prog_top (s : State) (m : Nat) (g : Good s m) (hlt : s.height < m) (hpc : s.pc = .top) :
    s.height < (runN 3 s).height := by
  have h1 : (runStep s).pc = .haveH s.height ∧ (runStep s).height = s.height := by
    simp only [runStep, hpc, readH, and_self]
  have := prog_haveH (runStep s) m _ (good_run s m g) (by omega) h1.1
  simp only [runN] at this ⊢; omega

theorem prog_added (s : State) (m : Nat) (b : Elem) (p : Nat) (g : Good s m) (hlt : s.height < m)
    (hpc : s.pc = .added b p) : s.height < (runN 4 s).height := by
  have h1 : (runStep s).pc = .top ∧ (runStep s).height = s.height := by
    simp only [runStep, hpc, finish, and_self]
  have := prog_top (runStep s) m (good_run s m g) (by omega) h1.1
  simp only [runN] at this ⊢; omega

theorem prog_holding (s : State) (m : Nat) (b : Elem) (p : Nat) (g : Good s m) (hlt : s.height < m)
    (hpc : s.pc = .holding b p) : s.height < (runN 5 s).height := by
  have h1 : (runStep s).pc = .added b p := by simp only [runStep, hpc, addItem]
  have hm := height_mono s .run
  simp only [apply] at hm
  by_cases hlt' : (runStep s).height < m
  · have := prog_added (runStep s) m b p (good_run s m g) hlt' h1
    simp only [runN] at this ⊢; omega
  · have := runN_mono 4 (runStep s)
    simp only [runN] at this ⊢; omega

theorem prog_wait (s : State) (m : Nat) (g : Good s m) (hlt : s.height < m) (hpc : s.pc = .wait) :
    s.height < (runN 4 s).height := by
  obtain ⟨_, hact⟩ := g.go hlt
  have hs : s.signal = true := by
    rcases hact with h | h | ⟨_, h⟩ | ⟨_, _, h⟩ | ⟨_, _, h⟩
    · exact h.1
    all_goals (rw [hpc] at h; cases h)
  have h1 : (runStep s).pc = .top ∧ (runStep s).height = s.height := by
    simp only [runStep, hpc, wake, hs, if_true, and_self]
  have := prog_top (runStep s) m (good_run s m g) (by omega) h1.1
  simp only [runN] at this ⊢; omega

theorem prog_init (s : State) (m : Nat) (g : Good s m) (hlt : s.height < m) (hpc : s.pc = .init) :
    s.height < (runN 5 s).height := by
  have h1 : (runStep s).pc = .wait ∧ (runStep s).height = s.height := by
    simp only [runStep, hpc, start, and_self]
  have := prog_wait (runStep s) m (good_run s m g) (by omega) h1.1
  simp only [runN] at this ⊢; omega

theorem progress (s : State) (m : Nat) (g : Good s m) (hlt : s.height < m) :
    ∃ k, s.height < (runN k s).height := by
  cases hpc : s.pc with
  | init => exact ⟨5, prog_init s m g hlt hpc⟩
  | wait => exact ⟨4, prog_wait s m g hlt hpc⟩
  | top => exact ⟨3, prog_top s m g hlt hpc⟩
  | haveH h => exact ⟨2, prog_haveH s m h g hlt hpc⟩
  | holding b p => exact ⟨5, prog_holding s m b p g hlt hpc⟩
  | added b p => exact ⟨4, prog_added s m b p g hlt hpc⟩
  | done =>
    exfalso
    obtain ⟨_, hact⟩ := g.go hlt
    rcases hact with h | h | ⟨_, h⟩ | ⟨_, _, h⟩ | ⟨_, _, h⟩
    · exact h.2 hpc
    all_goals (rw [hpc] at h; cases h)

theorem reaches (s : State) (m : Nat) (g : Good s m) : ∃ n, m ≤ (runN n s).height := by
  generalize hd : m - s.height = d
  induction d using Nat.strongRecOn generalizing s with
  | _ d ih =>
    by_cases hlt : s.height < m
    · obtain ⟨k, hk⟩ := progress s m g hlt
      obtain ⟨n, hn⟩ := ih (m - (runN k s).height) (by omega) (runN k s) (good_runN k s m g) rfl
      exact ⟨k + n, by rw [runN_add]; exact hn⟩
    · exact ⟨0, by simp only [runN]; omega⟩

end NeoModel.Queue
