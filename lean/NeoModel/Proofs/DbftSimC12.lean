/- C19 simulation, part C12: onPrepareRequest. -/
import NeoModel.Proofs.DbftSimC11
namespace NeoModel.Dbft.Mach
open NeoModel.Dbft

theorem slot_map {α : Type} (l : List (Option α)) (f : Option α → Option α) (j : Nat) (m : α)
    (h : slot (l.map f) j = some m) : ∃ s, l[j]? = some s ∧ f s = some m := by
  rw [slot_eq_some, List.getElem?_map] at h
  cases hs : l[j]? with
  | none => rw [hs] at h; cases h
  | some s => rw [hs] at h; simp only [Option.map_some, Option.some.injEq] at h; exact ⟨s, rfl, h⟩

/-- dbft.go:346-357 on the machine: the request is stored (responses for another hash are dropped) -/
theorem good_oprMid {e : Env} {as : State} {i : Nat} {w : W} (h : Good e as i w) (hbp : w.nd.blockProcessed = false)
    (x : Hd) (p : Nat) (hx : x.frm < e.n) (hxh : x.h = w.nd.bi) (hxv : x.v = w.nd.view) (hxp : x.frm = w.nd.pidx)
    (hnr : w.nd.requestSOR = false) (hc : Claims e as (.prepReq x p)) :
    Good e as i (oprMid e w (.prepReq x p) p) ∧ (oprMid e w (.prepReq x p) p).nd.blockProcessed = false ∧
    (oprMid e w (.prepReq x p) p).nd.commitSent = false ∧ (oprMid e w (.prepReq x p) p).nd.my = w.nd.my ∧
    (oprMid e w (.prepReq x p) p).nd.pidx = w.nd.pidx ∧ (oprMid e w (.prepReq x p) p).nd.bi = w.nd.bi ∧
    (oprMid e w (.prepReq x p) p).nd.view = w.nd.view := by
  have hnc := noreq_nocommit h hnr
  obtain ⟨hbi, hview, hgp, hgc⟩ := h.synced hbp
  have hngp : ¬ ∃ b ∈ (as.nodes i).myPreps, b.h = w.nd.bi ∧ b.v = w.nd.view := by
    intro hx'; have := (hgp hx').1; rw [hnr] at this; cases this
  -- the steps before the slots change
  have g1 := good_upd h (fun nd => { nd with lastProposal := (e.prop p).txs }) rfl rfl rfl rfl rfl rfl rfl rfl rfl id rfl
  have g2 := good_extendTimer g1 2
  have g3 := good_upd g2 (fun nd => { nd with txHashes := (e.prop p).txs }) rfl rfl rfl rfl rfl rfl rfl rfl rfl id rfl
  have g4 := good_processMissingTx g3
  -- the fields of that world
  obtain ⟨a1, a2, a3, a4, a5, a6, a7, a8, a9, a10, a11, _, _⟩ := processMissingTx_frame e
    ((extendTimer e (w.upd fun nd => { nd with lastProposal := (e.prop p).txs }) 2).upd fun nd => { nd with txHashes := (e.prop p).txs })
  obtain ⟨f1, f2, f3, f4, f5, f6, f7, f8, f9, f10, f11, _, _⟩ := extendTimer_fields e (w.upd fun nd => { nd with lastProposal := (e.prop p).txs }) 2
  obtain ⟨w4, hw4⟩ : ∃ w4, w4 = processMissingTx e ((extendTimer e (w.upd fun nd => { nd with lastProposal := (e.prop p).txs }) 2).upd
    fun nd => { nd with txHashes := (e.prop p).txs }) := ⟨_, rfl⟩
  rw [← hw4] at a1 a2 a3 a4 a5 a6 a7 a8 a9 a10 a11 g4
  have e_my : w4.nd.my = w.nd.my := by rw [a1]; exact f1
  have e_prep : w4.nd.prep = w.nd.prep := by rw [a2]; exact f2
  have e_commit : w4.nd.commit = w.nd.commit := by rw [a3]; exact f3
  have e_bi : w4.nd.bi = w.nd.bi := by rw [a7]; exact f7
  have e_view : w4.nd.view = w.nd.view := by rw [a8]; exact f8
  have e_pidx : w4.nd.pidx = w.nd.pidx := by rw [a9]; exact f9
  have e_bp : w4.nd.blockProcessed = w.nd.blockProcessed := by rw [a10]; exact f10
  have hhd : (Pl.prepReq x p).hd = x := rfl
  have heq : oprMid e w (.prepReq x p) p = (w4.upd fun nd => { nd with prep := nd.prep.map fun (s : Option Pl) => match s with
      | some (.prepResp y ph) => if ph != p then none else some (.prepResp y ph)
      | s => s }).upd fun nd => { nd with prep := nd.prep.set x.frm (some (.prepReq x p)) } := by
    subst hw4; rfl
  rw [heq]
  have rn := g4.rn
  have hlen : x.frm < (w4.nd.prep.map fun (s : Option Pl) => match s with
      | some (Pl.prepResp y ph) => if ph != p then none else some (Pl.prepResp y ph)
      | s => s).length := by rw [List.length_map, rn.lens.1]; exact hx
  have hcs : ∀ nd' : Node, nd'.commit = w.nd.commit → nd'.my = w.nd.my → nd'.commitSent = false := by
    intro nd' h1 h2; unfold Node.commitSent at hnc ⊢; rw [h1, h2]; exact hnc
  refine ⟨⟨g4.g, ⟨rn.my, ?_, rn.chain, rn.height, ?_, rn.pidx, ?_, rn.commit, rn.cv, rn.lastCv, rn.cache, ?_⟩, g4.outs, g4.blk, g4.st, h.lt⟩,
    by show w4.nd.blockProcessed = false; rw [e_bp]; exact hbp, hcs _ e_commit e_my, e_my, e_pidx, e_bi, e_view⟩
  · simpa [W.upd] using rn.lens
  · left
    refine ⟨by show w4.nd.bi = _; rw [e_bi]; exact hbi, by show w4.nd.view = _; rw [e_view]; exact hview, ?_, ?_⟩
    · intro hg
      exfalso; apply hngp
      obtain ⟨b, hb, hb1, hb2⟩ := hg
      exact ⟨b, hb, by rw [← e_bi]; exact hb1, by rw [← e_view]; exact hb2⟩
    · intro hg
      exfalso
      obtain ⟨b, hb, hb1⟩ := hg
      have := hgc ⟨b, hb, by rw [← e_bi]; exact hb1⟩
      rw [hnc] at this; cases this
  · intro j m hj
    by_cases hjm : j = x.frm
    · subst hjm
      simp only [W.upd, slot_set_self _ _ _ hlen, Option.some.injEq] at hj
      subst hj
      refine ⟨?_, hc, rfl, fun _ => by show x.frm = w4.nd.pidx; rw [e_pidx]; exact hxp⟩
      show x = ⟨x.frm, w4.nd.bi, w4.nd.view⟩
      rw [e_bi, e_view, ← hxh, ← hxv]
    · simp only [W.upd, slot_set_other _ _ _ _ hjm] at hj
      obtain ⟨s, hs1, hs2⟩ := slot_map _ _ _ _ hj
      have hsm : s = some m := by
        cases s with
        | none => simp at hs2
        | some m0 =>
          cases m0 with
          | prepResp y ph =>
            simp only at hs2
            split at hs2
            · cases hs2
            · exact hs2
          | _ => exact hs2
      subst hsm
      exact rn.prep j m (slot_eq_some.mpr hs1)
  · intro y sb hj
    have := hcs w4.nd e_commit e_my
    unfold Node.commitSent at this
    rw [rn.my] at this
    simp only [W.upd] at hj
    rw [hj] at this; cases this

end NeoModel.Dbft.Mach
