/-
Tie by translation (C02, Blockchain.tryRunGC — WHEN the garbage collector runs and with which target): the definition
NeoModel.Generated.GoFuncs.tryRunGC is re-translated from /repo's Go source on every check run
(harness/cmd/extract/gofuncs.go). The theorem below proves, for all arguments, that it is the function `gcTarget` the
C02 persistence model (Model/PersistGC.lean: `gcRun`, see `gcRun_batches`) uses - including the
P2PStateExchangeExtensions alignment with its uint32 wrap-arounds. A change of the Go function changes the generated
definition and this proof stops checking.
-/
import NeoModel.Generated.GoFuncs
import NeoModel.Proofs.GoFuncs.C11
import NeoModel.Model.PersistGC
namespace NeoModel.GoFuncsTie
open NeoModel NeoModel.Generated NeoModel.Persist

theorem tdiv_cast (a g : Nat) : Int.tdiv (a : Int) (g : Int) = ((a / g : Nat) : Int) := by
  rw [Int.tdiv_eq_ediv_of_nonneg (by omega)]; exact (Int.natCast_ediv a g).symm

/-- the rounded target and the two period counters, as integers. -/
theorem round_cast (a g : Nat) : Int.tdiv (a : Int) (g : Int) * (g : Int) = ((a / g * g : Nat) : Int) := by
  rw [tdiv_cast]; push_cast; rfl

/-- **tryRunGC = gcTarget**: for every old and new persisted height (`h < 2^32`), MaxTraceableBlocks `< 2^32`, GC period
`> 0`, with or without P2PStateExchangeExtensions and for every StateSyncInterval: the translated Go function reaches
`stateRoot.GC(t)` exactly when the model's `gcTarget` is `some t`, with the same `t`. -/
theorem tryRunGC_eq_gcTarget (old h mtb ssi gcp : Nat) (ext : Bool) (x : Int)
    (hh : h < 2 ^ 32) (hm : mtb < 2 ^ 32) (hg : 0 < gcp) :
    GoFuncs.tryRunGC (old : Int) (h : Int) (mtb : Int) ext (ssi : Int) (gcp : Int) x =
      (gcTarget { mtb := mtb, gcp := gcp, p2pse := ext, ssi := ssi } h old).map (fun t => [(t : Int)]) := by
  have hgi : (0 : Int) < (gcp : Int) := by omega
  -- the unrounded target as the Go code computes it
  have key : ∀ A : Int, A ≤ (h : Int) - (mtb : Int) → (mtb ≤ h → A = ((gcBase { mtb := mtb, gcp := gcp, p2pse := ext, ssi := ssi } h : Nat) : Int)) →
      (if (Int.tdiv A (gcp : Int) * (gcp : Int) > (gcp : Int)) ∧ ((h : Int) / (gcp : Int) ≠ (old : Int) / (gcp : Int))
        then some [(Int.tdiv A (gcp : Int) * (gcp : Int)) % 4294967296] else none) =
      (gcTarget { mtb := mtb, gcp := gcp, p2pse := ext, ssi := ssi } h old).map (fun t => [(t : Int)]) := by
    intro A hA hAe
    unfold gcTarget
    simp only
    by_cases hlt : h < mtb
    · rw [if_pos hlt]
      have : ¬ (Int.tdiv A (gcp : Int) * (gcp : Int) > (gcp : Int)) := by
        intro hc
        have := (tdiv_mul_bounds A _ hgi hc).1
        omega
      simp [this]
    · rw [if_neg hlt]
      have hA' := hAe (by omega)
      subst hA'
      have hb : gcBase { mtb := mtb, gcp := gcp, p2pse := ext, ssi := ssi } h ≤ h := by
        have : gcBase { mtb := mtb, gcp := gcp, p2pse := ext, ssi := ssi } h ≤ h - mtb := by
          unfold gcBase; simp only; split
          · exact Nat.min_le_left _ _
          · exact Nat.le_refl _
        omega
      rw [round_cast]
      generalize hT : gcBase { mtb := mtb, gcp := gcp, p2pse := ext, ssi := ssi } h / gcp * gcp = T
      have hTle : T ≤ h := by rw [← hT]; exact Nat.le_trans (Nat.div_mul_le_self _ _) hb
      have e1 : (h : Int) / (gcp : Int) = ((h / gcp : Nat) : Int) := (Int.natCast_ediv h gcp).symm
      have e2 : (old : Int) / (gcp : Int) = ((old / gcp : Nat) : Int) := (Int.natCast_ediv old gcp).symm
      rw [e1, e2]
      have hmod : (T : Int) % 4294967296 = (T : Int) := by omega
      rw [hmod]
      by_cases c : T > gcp ∧ h / gcp ≠ old / gcp
      · rw [if_pos c, if_pos (by constructor <;> omega)]; rfl
      · rw [if_neg c, if_neg (by intro ⟨a, b⟩; exact c ⟨by omega, by omega⟩)]; rfl
  unfold GoFuncs.tryRunGC
  simp only []
  cases ext
  · simp only [Bool.false_eq_true, ↓reduceIte]
    exact key _ (Int.le_refl _) (fun hle => by simp [gcBase]; omega)
  · simp only [↓reduceIte]
    refine key _ (Int.min_le_left _ _) (fun hle => ?_)
    simp only [gcBase, u32, ↓reduceIte]
    have e0 : (ssi : Int) % 4294967296 = ((ssi % 4294967296 : Nat) : Int) := by omega
    rw [e0]
    generalize ssi % 4294967296 = s
    have e1 : (h : Int) / (s : Int) = ((h / s : Nat) : Int) := (Int.natCast_ediv h s).symm
    rw [e1]
    generalize h / s = q
    have e2 : ((q : Int) - 1) % 4294967296 = (((q + 4294967296 - 1) % 4294967296 : Nat) : Int) := by omega
    rw [e2]
    generalize (q + 4294967296 - 1) % 4294967296 = a
    have e3 : (a : Int) * (s : Int) = ((a * s : Nat) : Int) := by push_cast; rfl
    rw [e3]
    generalize a * s = p
    omega

-- non-vacuity: the collector runs (target 20000), does not run, and is capped by the sync point (14000)
example : gcTarget { mtb := 10000, gcp := 1000 } 30000 29999 = some 20000 := by decide
example : gcTarget { mtb := 10000, gcp := 1000 } 29999 29998 = none := by decide
example : gcTarget { mtb := 10000, gcp := 1000, p2pse := true, ssi := 4000 } 30000 29999 = some 14000 := by decide

end NeoModel.GoFuncsTie

namespace NeoModel.GoFuncsTie
open NeoModel NeoModel.Generated NeoModel.Persist

/-- **HeaderHashes.lastHeaderIndex** (translated from headerhashes.go): the model keeps the header height `hh` itself;
the code keeps `storedHeaderCount` (= `storedCnt B hh` after init / tryStoreBatch) and the slice `latest` with the
`hh + 1 - storedHeaderCount` hashes above it. The translated function gives back `hh` on that representation. -/
theorem lastHeaderIndex_of_height (B hh : Nat) (hh32 : hh + 1 < 2 ^ 32) :
    GoFuncs.lastHeaderIndex (((hh + 1) / B * B : Nat) : Int) ((hh + 1 - (hh + 1) / B * B : Nat) : Int) = (hh : Int) := by
  unfold GoFuncs.lastHeaderIndex
  have hle : (hh + 1) / B * B ≤ hh + 1 := Nat.div_mul_le_self _ _
  generalize (hh + 1) / B * B = s at hle
  omega

example : GoFuncs.lastHeaderIndex 4000 851 = 4850 := by decide

end NeoModel.GoFuncsTie

namespace NeoModel.GoFuncsTie
open NeoModel NeoModel.Generated

/-- **Blockchain.persist, refused flush** (translated from blockchain.go): when `bc.dao.Persist()` fails, persist returns
that error with NO effect - persistedHeight is not swapped (the `atomic.SwapUint32` leaf is never reached: the result
does not depend on it), no metric, and no `persistCond.Signal`: a storeBlock waiting at the back-pressure keeps
waiting for the next flush that succeeds. This is the model's refused flush (`MOp.fail`: nothing but the write cache
is touched). -/
theorem bcPersist_refused (now n h : Int) (he : Bool) (sw hh : Int) (hhe : Bool) (since iv kpp : Int) :
    GoFuncs.bcPersist now n true h he sw hh hhe since iv kpp = (0, "bc_dao_Persist_1_err", []) := by
  simp [GoFuncs.bcPersist]

/-- **Blockchain.persist, successful flush**: whenever persist returns without error - whether or not anything was
written - `bc.persistCond.Signal` is its last effect: the AddBlock that waits inside storeBlock (the model's
`blockWait`) is released by exactly the flush it waited for. -/
theorem bcPersist_ok_signals (now n h : Int) (he : Bool) (sw hh : Int) (hhe : Bool) (since iv kpp : Int)
    (hok : (GoFuncs.bcPersist now n false h he sw hh hhe since iv kpp).2.1 = "ok") :
    (GoFuncs.bcPersist now n false h he sw hh hhe since iv kpp).2.2.getLast? = some "bc.persistCond.Signal" := by
  unfold GoFuncs.bcPersist at hok ⊢
  simp only [] at hok ⊢
  split <;> (try split) <;> (try split) <;> (try split) <;> (try split) <;> simp_all

example : (GoFuncs.bcPersist 0 500 false 7 false 5 7 false 3 1000 0).2.2.getLast? = some "bc.persistCond.Signal" := by decide


/-- **statesync.Module.Init resumes the recorded sync point** (translated from statesync/module.go): on a node whose
module is not initialised yet (stage `none` = 2), with the chain at least two intervals high, the node itself still at
or below the sync point before the latest one, and a recorded sync point `pOld` that is not older than one interval:
the module keeps `pOld` (it becomes `s.syncPoint` and is written back), moves to stage `initialized` (4) and hands over
to defineSyncStage - the situation the model's `restartSync` starts from (a recorded sync point, the node below it). -/
theorem statesyncInit_resumes_recorded_point (cur si bh th pOld : Nat) (sp : Int) (ds cs : Bool)
    (hsi : 0 < si) (hcur : cur < 2 ^ 32) (h2 : 2 * si ≤ cur / si * si) (hbh : bh + 2 * si ≤ cur / si * si)
    (hold : cur / si * si ≤ pOld + si) :
    GoFuncs.statesyncModuleInit (cur : Int) 2 sp (si : Int) (bh : Int) (th : Int) (pOld : Int) false ds cs =
      ((if ds = true then "s_defineSyncStage_s1_err" else "ok"), 4, (pOld : Int), ["s.dao.PutStateSyncPoint"]) := by
  have e1 : ((cur : Int) / (si : Int)) * (si : Int) = ((cur / si * si : Nat) : Int) := by
    rw [← Int.natCast_ediv]; push_cast; rfl
  have hle : cur / si * si ≤ cur := Nat.div_mul_le_self _ _
  unfold GoFuncs.statesyncModuleInit
  simp only []
  rw [e1]
  generalize cur / si * si = p at *
  have c1 : ¬ (((p : Int) % 4294967296) < ((2 * (si : Int)) % 4294967296)) := by omega
  have c2 : ¬ ((bh : Int) > ((((p : Int) % 4294967296) - ((2 * (si : Int)) % 4294967296)) % 4294967296)) := by omega
  have c3 : (pOld : Int) ≥ ((((p : Int) % 4294967296) - (si : Int)) % 4294967296) := by omega
  simp [c1]
  have d2 : ¬ (((p : Int) - 2 * (si : Int)) % 4294967296 < (bh : Int)) := by omega
  have d3 : ((p : Int) - (si : Int)) % 4294967296 ≤ (pOld : Int) := by omega
  rw [if_neg d2, if_pos d3]

example : GoFuncs.statesyncModuleInit 33 2 0 4 0 0 28 false false false = ("ok", 4, 28, ["s.dao.PutStateSyncPoint"]) := by decide

end NeoModel.GoFuncsTie
