import NeoModel.Generated.GoFuncs
import NeoModel.Model.SyncStage
/-
Tie by translation (C20, statesync.Module): the stage getters and getLatestSavedBlock are re-translated from
/repo's Go source on every check run (harness/cmd/extract/gofuncs_c20.go); the theorems prove, for all arguments,
that the harness's decoding of the stage is the model's stage and that the block height the blocks stage starts
from is the model's `latestSaved` over `windowBase`.
-/
namespace NeoModel.GoFuncsTie
open NeoModel NeoModel.Generated NeoModel.StateSync

/-- The bits of `Module.syncStage` (module.go:50-71: inactive = 1, none = 2, initialized = 4, headersSynced = 8,
mptSynced = 16, blocksSynced = 32) a stage of the model stands for; `inactive` also is 8|16|32 = 56 between the
last block and the end of the jump (checkSyncIsCompleted). -/
def stageBits : Stage → Int
  | .headers => 4
  | .mpt => 8
  | .blocks => 24
  | .inactive => 1

/-- The four getters the harness decodes the module's stage from (`stage()` in harness/cmd/sync/main.go),
translated from module.go on this run, single out exactly the model's stage: NeedHeaders ⇔ headers,
NeedStorageData ⇔ mpt, NeedBlocks ⇔ blocks, ¬IsActive ⇔ inactive (for both encodings of inactive). -/
theorem statesyncGetters_decode (st : Stage) :
    GoFuncs.statesyncNeedHeaders (stageBits st) = decide (st = .headers) ∧
    GoFuncs.statesyncNeedStorageData (stageBits st) = decide (st = .mpt) ∧
    GoFuncs.statesyncNeedBlocks (stageBits st) = decide (st = .blocks) ∧
    GoFuncs.statesyncIsActive (stageBits st) = decide (st ≠ .inactive) ∧
    GoFuncs.statesyncIsActive 56 = false ∧ GoFuncs.statesyncNeedBlocks 56 = false ∧
    GoFuncs.statesyncNeedStorageData 56 = false ∧ GoFuncs.statesyncNeedHeaders 56 = false := by
  cases st <;> decide

/-- getLatestSavedBlock, translated from module.go on this run: whenever it returns (it panics only when the
Policy item is missing under both prefixes), the result is the maximum of the height below the window
(`p − mtb`, or 0 when `p ≤ mtb`; `mtb` the configured MaxTraceableBlocks or, from Echidna on, the Policy value of
the state being restored), the persisted block height of an interrupted blocks stage and the chain's own height:
with the chain still at 0 and "no persisted height" read as 0 this is the model's `latestSaved` = `max b0 storedBh`
for `b0 = windowBase p mtb` (the driver checks every case's `b0` against `windowBase`). -/
theorem statesyncLatestSavedBlock_eq (p k0 cfgMtb : Int) (hf : Bool) (mk tp si : Int) (e1 nf : Bool) (tp2 pol storedH : Int)
    (e2 : Bool) (actualH : Int) (r a : Int) (eff : List String)
    (hp : 0 ≤ p ∧ p < 4294967296) (hc : 0 ≤ cfgMtb ∧ cfgMtb < 4294967296) (hpol : 0 ≤ pol ∧ pol < 4294967296)
    (hs : 0 ≤ storedH) (ha : 0 ≤ actualH)
    (h : GoFuncs.statesyncLatestSavedBlock p k0 cfgMtb hf mk tp si e1 nf tp2 pol storedH e2 actualH = some (r, a, eff)) :
    ∃ mtb, (mtb = cfgMtb ∨ mtb = pol) ∧
      r = max (max (if p > mtb then p - mtb else 0) (if e2 then 0 else storedH)) actualH := by
  have hm1 : cfgMtb % 4294967296 = cfgMtb := Int.emod_eq_of_lt hc.1 hc.2
  have hm2 : pol % 4294967296 = pol := Int.emod_eq_of_lt hpol.1 hpol.2
  unfold GoFuncs.statesyncLatestSavedBlock at h
  simp only [hm1, hm2] at h
  have key : ∀ m : Int, 0 ≤ m → m < 4294967296 → p > m → (p - m) % 4294967296 = p - m :=
    fun m h1 h2 h3 => Int.emod_eq_of_lt (by omega) (by omega)
  repeat' split at h
  all_goals first
    | (cases h; done)
    | (simp only [Option.some.injEq, Prod.mk.injEq] at h
       obtain ⟨rfl, _, _⟩ := h
       first
         | (refine ⟨cfgMtb, .inl rfl, ?_⟩; cases e2 <;> simp_all <;> omega)
         | (refine ⟨pol, .inr rfl, ?_⟩; cases e2 <;> simp_all <;> omega))
/-- (*Module).Init, translated from module.go on this run, on a fresh node (stage `none` = 2, chain at height 0, no
sync point stored, CleanStorage succeeds): the chain is too low (`inactive` = 1, no point chosen) exactly when the
model's `syncPointOf` is `none`, otherwise the point stored is `syncPointOf top interval` and the stage is
`initialized` (= 4). With a stored point that is still valid (a restart) that point is kept. -/
theorem statesyncInit_point (top interval sp trusted pOld : Nat) (defErr : Bool) (hi : 0 < interval)
    (ht : top < 4294967296) (h2 : 2 * interval < 4294967296) :
    (GoFuncs.statesyncModuleInit top 2 sp interval 0 trusted pOld true defErr false).2.1 =
      (match syncPointOf top interval with | none => 1 | some _ => 4) ∧
    (GoFuncs.statesyncModuleInit top 2 sp interval 0 trusted pOld true defErr false).2.2.1 =
      (match syncPointOf top interval with | none => (sp : Int) | some p => (p : Int)) := by
  have hdiv : ((top : Int) / (interval : Int)) * (interval : Int) = ((top / interval * interval : Nat) : Int) := by
    push_cast; rfl
  have hle : top / interval * interval ≤ top := Nat.div_mul_le_self top interval
  generalize hP : ((top : Int) / (interval : Int)) * (interval : Int) = P at hdiv
  generalize hQ : top / interval * interval = Q at hdiv hle
  have hm1 : P % 4294967296 = P := Int.emod_eq_of_lt (by omega) (by omega)
  have hm2 : (2 * (interval : Int)) % 4294967296 = 2 * (interval : Int) := Int.emod_eq_of_lt (by omega) (by omega)
  unfold GoFuncs.statesyncModuleInit syncPointOf
  simp only [hP, hQ, hm1, hm2]
  by_cases hlow : Q < 2 * interval
  · have h1 : P < 2 * (interval : Int) := by omega
    simp only [hlow, h1, if_true]
    exact ⟨rfl, rfl⟩
  · have hn : ¬ P < 2 * (interval : Int) := by omega
    have hsub : (P - 2 * (interval : Int)) % 4294967296 = P - 2 * (interval : Int) :=
      Int.emod_eq_of_lt (by omega) (by omega)
    have hpos : ¬ ((0 : Int) > P - 2 * (interval : Int)) := by omega
    simp only [hlow, hn, hsub, hpos, if_false]
    simp [hdiv]

example : syncPointOf 13 4 = some 12 ∧ syncPointOf 7 4 = none := by decide

end NeoModel.GoFuncsTie
