/-
Tie by translation (C04): definitions of NeoModel.Generated.GoFuncs are re-translated from /repo's Go source on
every check run (harness/cmd/extract/gofuncs.go, specs of gofuncs_c04.go and of the base list); the theorems
prove, for all arguments, that the translated function is what the Exec model uses.
-/
import NeoModel.Generated.GoFuncs
import NeoModel.Model.Exec
import NeoModel.Proofs.ExecFacts
namespace NeoModel.GoFuncsTie
open NeoModel NeoModel.Generated NeoModel.Exec

/-- Policy.setFeePerByte: with the required call flags and the committee witness (the tree language supplies
    it), the model's native step fails exactly when the translated Go function panics, and otherwise writes
    exactly the value the Go function hands to `setIntWithKey` — for every value, contract, flag set, view. -/
theorem setFee_model_matches_go (v self : Nat) (f : Flags) (view : Key → Option Nat) (id : Int)
    (hf : (f.r && f.w) = true) :
    natStep (.setFee v) self f view =
      match GoFuncs.policySetFeePerByte (v : Int) true id with
      | some [_, w] => some ⟨[.set (policyTab, 0) w.toNat], [], none, false⟩
      | _ => none := by
  unfold GoFuncs.policySetFeePerByte
  simp only [natStep, hf, Bool.not_true, Bool.false_eq_true, if_false, maxFeePerByte]
  by_cases h : v > 100000000
  · have : ((v : Int) < 0 ∨ (v : Int) > 100000000) := Or.inr (by omega)
    simp [h, this]
  · have : ¬ ((v : Int) < 0 ∨ (v : Int) > 100000000) := by omega
    simp [h, this]

/-- without the committee witness the Go function panics whatever the value (the harness always supplies it;
    the model has no such parameter). -/
theorem setFee_go_needs_committee (v id : Int) : GoFuncs.policySetFeePerByte v false id = none := by
  unfold GoFuncs.policySetFeePerByte
  by_cases h : (v < 0 ∨ v > 100000000) <;> simp [h]

/-- vm/exception.go: a TRY frame "has a catch / finally block" iff the stored offset is non-negative (vm.go TRY
    turns an absent block — operand 0 — into -1); these are the `hasC` / `hasF` flags of `Tree.try_`. -/
theorem ehc_flags (c fo : Int) :
    GoFuncs.ehcHasCatch c = decide (0 ≤ c) ∧ GoFuncs.ehcHasFinally fo = decide (0 ≤ fo) := by
  unfold GoFuncs.ehcHasCatch GoFuncs.ehcHasFinally
  constructor <;> simp [ge_iff_le]

example : (natStep (.setFee 777) 0 Flags.all (fun _ => none)).map (·.ws) = some [.set (policyTab, 0) 777] := by decide
example : GoFuncs.policySetFeePerByte 777 true 5 = some [5, 777] := by decide

/- interop.Context.AddNotification was tied by translation (addNotification_matches_model) until /repo 0aa93d2 added
   a type assertion to it (`stackitem.DeepCopy(item, true).(*stackitem.Array)`), which is outside the translator's
   subset; the limit of 512 notifications is tied by the correspondence stream again (corpus cases at 510..513). -/

/-- callflag.Has, translated, is the model's flag test for every pair of flag sets (16 x 16). -/
theorem callFlagHas_matches_model (f m : Flags) :
    GoFuncs.callFlagHasC04 (m.toNat : Int) (f.toNat : Int) = f.has m.toNat := by
  obtain ⟨a, b, c, d⟩ := f
  obtain ⟨a', b', c', d'⟩ := m
  cases a <;> cases b <;> cases c <;> cases d <;> cases a' <;> cases b' <;> cases c' <;> cases d' <;> decide

/-- ... and `Flags.has` of a mask is the conjunction the model's conditions spell out. -/
theorem flags_has_and (f m : Flags) : f.has m.toNat = ((f.and m).toNat == m.toNat) := by
  obtain ⟨a, b, c, d⟩ := f
  obtain ⟨a', b', c', d'⟩ := m
  cases a <;> cases b <;> cases c <;> cases d <;> cases a' <;> cases b' <;> cases c' <;> cases d' <;> decide

/-- contract/call.go callInternal: for a method that is not `Safe` the requested flags are handed to
    callExFromNative unchanged whenever the call is permitted (manifest permission check), whatever the
    hardfork and the calling context; for a Safe method WriteStates|AllowNotify are removed. The model's
    `call c fl body` passes `fl` on (the interpreter contracts' `run` is not Safe). -/
theorem callInternal_passes_flags (f : Int) (hasReturn isDynamic : Bool) (vmctx : Int) (ctxNotNil deployed domovoi : Bool)
    (mf : Int) (mfNotNil canCall : Bool) (curr : Int) (currErr : Bool) (currM : Int) :
    GoFuncs.c04CallInternal f hasReturn isDynamic false vmctx ctxNotNil deployed domovoi mf mfNotNil canCall curr currErr currM =
      if ctxNotNil = true ∧ deployed = true ∧ mfNotNil = true ∧ canCall = false then none else some [f] := by
  unfold GoFuncs.c04CallInternal
  cases ctxNotNil <;> cases deployed <;> cases domovoi <;> cases mfNotNil <;> cases canCall <;> cases currErr <;> simp

theorem callInternal_safe_masks (f : Int) (hasReturn isDynamic : Bool) (vmctx : Int) (a b c : Bool) (mf : Int) (d e : Bool)
    (curr : Int) (g : Bool) (currM : Int) :
    GoFuncs.c04CallInternal f hasReturn isDynamic true vmctx a b c mf d e curr g currM = some [GoFuncs.bandnot f 10] := by
  unfold GoFuncs.c04CallInternal
  simp

/-- interop.Context.SyscallHandler: the handler of a system call runs only if the context's call flags
    contain the RequiredFlags (the order: unknown id, flags, price, handler) — the guard in front of every
    `put` / `del` / `notify` / `ifp` / `call` of the model. -/
theorem syscallHandler_checks_flags_first (id fn : Int) (cf : Int) (price fee : Int) (gasErr funcErr : Bool) :
    GoFuncs.c04SyscallHandler id fn false cf false price fee gasErr funcErr = "err" ∧
    GoFuncs.c04SyscallHandler id fn false cf true price fee false funcErr = (if funcErr then "f_Func_ic_err" else "ok") := by
  unfold GoFuncs.c04SyscallHandler
  simp


end NeoModel.GoFuncsTie
