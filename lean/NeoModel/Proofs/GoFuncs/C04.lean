/-
Tie by translation (C04): definitions of NeoModel.Generated.GoFuncs are re-translated from /repo's Go source on
every check run (harness/cmd/extract/gofuncs.go, specs of gofuncs_c04.go and of the base list); the theorems
prove, for all arguments, that the translated function is what the Exec model uses.
-/
import NeoModel.Generated.GoFuncs
import NeoModel.Model.Exec
namespace NeoModel.GoFuncsTie
open NeoModel NeoModel.Generated NeoModel.Exec

/-- Policy.setFeePerByte: with the required call flags and the committee witness (the tree language supplies
    it), the model's native step fails exactly when the translated Go function panics, and otherwise writes
    exactly the value the Go function hands to `setIntWithKey` — for every value, contract, flag set, view. -/
theorem setFee_model_matches_go (v self : Nat) (f : Flags) (view : Key → Option Nat) (id : Int)
    (hf : (f.r && f.w) = true) :
    natStep (.setFee v) self f view =
      match GoFuncs.policySetFeePerByte (v : Int) true id with
      | some [_, w] => some ⟨[.set (policyTab, 0) w.toNat], [], none, false⟩
      | _ => none := by
  unfold GoFuncs.policySetFeePerByte
  simp only [natStep, hf, Bool.not_true, Bool.false_eq_true, if_false, maxFeePerByte]
  by_cases h : v > 100000000
  · have : ((v : Int) < 0 ∨ (v : Int) > 100000000) := Or.inr (by omega)
    simp [h, this]
  · have : ¬ ((v : Int) < 0 ∨ (v : Int) > 100000000) := by omega
    simp [h, this]

/-- without the committee witness the Go function panics whatever the value (the harness always supplies it;
    the model has no such parameter). -/
theorem setFee_go_needs_committee (v id : Int) : GoFuncs.policySetFeePerByte v false id = none := by
  unfold GoFuncs.policySetFeePerByte
  by_cases h : (v < 0 ∨ v > 100000000) <;> simp [h]

/-- vm/exception.go: a TRY frame "has a catch / finally block" iff the stored offset is non-negative (vm.go TRY
    turns an absent block — operand 0 — into -1); these are the `hasC` / `hasF` flags of `Tree.try_`. -/
theorem ehc_flags (c fo : Int) :
    GoFuncs.ehcHasCatch c = decide (0 ≤ c) ∧ GoFuncs.ehcHasFinally fo = decide (0 ≤ fo) := by
  unfold GoFuncs.ehcHasCatch GoFuncs.ehcHasFinally
  constructor <;> simp [ge_iff_le]

example : (natStep (.setFee 777) 0 Flags.all (fun _ => none)).map (·.ws) = some [.set (policyTab, 0) 777] := by decide
example : GoFuncs.policySetFeePerByte 777 true 5 = some [5, 777] := by decide

end NeoModel.GoFuncsTie
