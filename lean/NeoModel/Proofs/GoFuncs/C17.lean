/-
Tie by translation (C17, pkg/io/size.go getVarIntSize): the definitions of NeoModel.Generated.GoFuncs are re-translated from /repo's Go source on
every check run (harness/cmd/extract/gofuncs.go); the theorems below prove, for all arguments, that the
translated function is the function the hand-written model uses (or has the property stated). A change of the Go
function changes the generated definition and these proofs stop checking.
-/
import NeoModel.Generated.GoFuncs
import NeoModel.Model.Wire.VarUint
namespace NeoModel.GoFuncsTie
open NeoModel NeoModel.Generated

/-- `io.getVarIntSize` is the model's `varUintSize` on every value a length can take (≤ 2^32-1; above that the Go
function keeps answering 5 while the encoding has 9 bytes — lengths never get there: arrays are capped far below). -/
theorem getVarIntSize_eq (v : Nat) (h : v ≤ 0xFFFFFFFF) :
    GoFuncs.getVarIntSize (v : Int) = (Wire.varUintSize v : Int) := by
  unfold GoFuncs.getVarIntSize Wire.varUintSize
  simp only []
  split <;> split <;> (try split) <;> (try split) <;> omega

example : GoFuncs.getVarIntSize 65535 = 3 ∧ GoFuncs.getVarIntSize 65536 = 5 ∧ GoFuncs.getVarIntSize 252 = 1 ∧ GoFuncs.getVarIntSize 253 = 3 := by decide

end NeoModel.GoFuncsTie
