/-
Tie by translation (C17, pkg/io/size.go getVarIntSize): the definitions of NeoModel.Generated.GoFuncs are re-translated from /repo's Go source on
every check run (harness/cmd/extract/gofuncs.go); the theorems below prove, for all arguments, that the
translated function is the function the hand-written model uses (or has the property stated). A change of the Go
function changes the generated definition and these proofs stop checking.
-/
import NeoModel.Generated.GoFuncs
import NeoModel.Model.Wire.VarUint
namespace NeoModel.GoFuncsTie
open NeoModel NeoModel.Generated NeoModel.Wire

/-- `io.getVarIntSize` is the model's `varUintSize` on every value a length can take (≤ 2^32-1; above that the Go
function keeps answering 5 while the encoding has 9 bytes — lengths never get there: arrays are capped far below). -/
theorem getVarIntSize_eq (v : Nat) (h : v ≤ 0xFFFFFFFF) :
    GoFuncs.getVarIntSize (v : Int) = (Wire.varUintSize v : Int) := by
  unfold GoFuncs.getVarIntSize Wire.varUintSize
  simp only []
  split <;> split <;> (try split) <;> (try split) <;> omega

example : GoFuncs.getVarIntSize 65535 = 3 ∧ GoFuncs.getVarIntSize 65536 = 5 ∧ GoFuncs.getVarIntSize 252 = 1 ∧ GoFuncs.getVarIntSize 253 = 3 := by decide

theorem leVal_lt' (b : Bytes) : leVal b < 256 ^ b.length := by
  induction b with
  | nil => simp [leVal]
  | cons x xs ih =>
    simp only [leVal, List.length_cons, Nat.pow_succ]
    have := x.toNat_lt
    omega

/-- The translated `BinReader.ReadVarUint` returns the value the model's `readVarUint` decodes, whenever the model
decodes (i.e. enough bytes are present): prefix byte fd/fe/ff selects the 2/4/8-byte little-endian field, any
other first byte is the value; no minimality check. -/
theorem readVarUint_eq (b : UInt8) (rest : Bytes) (v : Nat) (r : Bytes)
    (h : Wire.readVarUint (b :: rest) = some (v, r)) :
    GoFuncs.readVarUint false (b.toNat : Int) (leVal (rest.take 2) : Int) (leVal (rest.take 4) : Int) (leVal (rest.take 8) : Int)
      = (v : Int) := by
  have hb := b.toNat_lt
  have h2 := leVal_lt' (rest.take 2)
  have h4 := leVal_lt' (rest.take 4)
  have l2 : (rest.take 2).length ≤ 2 := by simp [List.length_take]; omega
  have l4 : (rest.take 4).length ≤ 4 := by simp [List.length_take]; omega
  have p2 : 256 ^ (rest.take 2).length ≤ 256 ^ 2 := Nat.pow_le_pow_right (by omega) l2
  have p4 : 256 ^ (rest.take 4).length ≤ 256 ^ 4 := Nat.pow_le_pow_right (by omega) l4
  unfold Wire.readVarUint at h
  unfold GoFuncs.readVarUint
  simp only [Bool.false_eq_true, ↓reduceIte]
  have hbm : ((b.toNat : Int) % 256) = (b.toNat : Int) := by omega
  simp only [hbm]
  by_cases c1 : b = 0xfd
  · subst c1
    simp [takeN] at h
    obtain ⟨_, hv, _⟩ := h
    simp; omega
  · by_cases c2 : b = 0xfe
    · subst c2
      simp [takeN] at h
      obtain ⟨_, hv, _⟩ := h
      simp; omega
    · by_cases c3 : b = 0xff
      · subst c3
        simp [takeN] at h
        obtain ⟨_, hv, _⟩ := h
        simp; omega
      · have n1 : b.toNat ≠ 253 := fun e => c1 (UInt8.toNat_inj.mp (by simpa using e))
        have n2 : b.toNat ≠ 254 := fun e => c2 (UInt8.toNat_inj.mp (by simpa using e))
        have n3 : b.toNat ≠ 255 := fun e => c3 (UInt8.toNat_inj.mp (by simpa using e))
        simp [c1, c2, c3] at h
        obtain ⟨hv, _⟩ := h
        have : ((b.toNat : Int) = 253) = False := by simp; omega
        simp only [show ¬ ((b.toNat : Int) = 253) by omega, show ¬ ((b.toNat : Int) = 254) by omega, show ¬ ((b.toNat : Int) = 255) by omega, ↓reduceIte]
        omega

example : GoFuncs.readVarUint false 0xfd 0x1234 0 0 = 0x1234 ∧ GoFuncs.readVarUint false 7 0 0 0 = 7 ∧ GoFuncs.readVarUint true 7 0 0 0 = 0 := by decide

end NeoModel.GoFuncsTie
