/-
Tie by translation (C17, pkg/vm/stackitem/item.go CheckIntegerSize): the generated `GoFuncs.wireCheckIntegerSize` is
re-translated from /repo on every check run (harness/cmd/extract/gofuncs_c17.go); proved here: it accepts exactly the
integers of the model's `intFits` (the bound of NewBigInteger — where FromJSONWithTypes / FromJSON panic beyond it).
Translator v2 (several results, field writes, effect lists): the scope checks and read order of Signer.DecodeBinary,
ScopesFromByte, ToInt32 / ToUint16, ByteArray.TryInteger, PutVarUint, the size cache of Transaction.DecodeBinary /
Size (fix 67279e2), NewTransactionFromBytes, Header / GetBlockByIndex / MethodToken decoders, nef.File.bytes.
-/
import NeoModel.Generated.GoFuncs
import NeoModel.Model.Wire.ItemJson
import NeoModel.Model.Wire.Manifest
import NeoModel.Model.Wire.Obj
import NeoModel.Model.Wire.P2P
namespace NeoModel.GoFuncsTie
open NeoModel NeoModel.Generated NeoModel.Wire

/-- `big.Int.BitLen()`: the number of bits of |x| (0 for 0). -/
def bitLen (m : Nat) : Nat := if m = 0 then 0 else m.log2 + 1

/-- `big.Int.TrailingZeroBits()`: the number of trailing zero bits of |x| (0 for 0). -/
def tzBits (m : Nat) : Nat :=
  if h : m = 0 then 0 else if m % 2 = 1 then 0 else tzBits (m / 2) + 1
termination_by m
decreasing_by omega

/-- `big.Int.Sign()` -/
def signOf (n : Int) : Int := if n < 0 then -1 else if n = 0 then 0 else 1

theorem bitLen_lt (m k : Nat) (hk : 0 < k) : bitLen m < k ↔ m < 2 ^ (k - 1) := by
  unfold bitLen
  split
  · rename_i h; subst h; simp [hk, Nat.pow_pos]
  · rename_i h
    have := Nat.log2_lt (k := k - 1) h
    constructor
    · intro hl; exact this.mp (by omega)
    · intro hl; have := this.mpr hl; omega

theorem pow_dvd_iff_le_tz : ∀ (m : Nat), m ≠ 0 → ∀ k, 2 ^ k ∣ m ↔ k ≤ tzBits m := by
  intro m
  induction m using Nat.strongRecOn with
  | _ m ih =>
    intro hm k
    rw [tzBits]
    simp only [hm, dite_false]
    split
    · rename_i hodd
      constructor
      · intro hd
        cases k with
        | zero => omega
        | succ k =>
          exfalso
          have : 2 ∣ m := Nat.dvd_trans ⟨2 ^ k, by rw [Nat.pow_succ, Nat.mul_comm]⟩ hd
          omega
      · intro hk
        have : k = 0 := by omega
        subst this; simp
    · rename_i heven
      have h2 : m % 2 = 0 := by omega
      have hm2 : m / 2 ≠ 0 := by omega
      have hlt : m / 2 < m := by omega
      cases k with
      | zero => simp
      | succ k =>
        have := ih (m / 2) hlt hm2 k
        constructor
        · intro hd
          have : 2 ^ k ∣ m / 2 := by
            obtain ⟨q, hq⟩ := hd
            refine ⟨q, ?_⟩
            rw [hq, Nat.pow_succ, Nat.mul_assoc, Nat.mul_comm 2 q, ← Nat.mul_assoc, Nat.mul_div_cancel _ (by decide : 0 < 2)]
          have := (ih (m / 2) hlt hm2 k).mp this
          omega
        · intro hk
          have hd := (ih (m / 2) hlt hm2 k).mpr (by omega)
          obtain ⟨q, hq⟩ := hd
          refine ⟨q, ?_⟩
          have : m = 2 * (m / 2) := by omega
          rw [this, hq, Nat.pow_succ]
          rw [Nat.mul_comm (2 ^ k) 2, Nat.mul_assoc]

theorem wire_ok_iff (bl sg tz : Int) :
    GoFuncs.wireCheckIntegerSize bl sg tz = "ok" ↔ (bl < 256 ∨ (bl = 256 ∧ sg ≠ 1 ∧ tz = 255)) := by
  unfold GoFuncs.wireCheckIntegerSize
  simp only []
  have hne : ¬ ("err" = "ok") := by decide
  split
  · rename_i h; simp [h]
  · rename_i h
    split
    · rename_i h2
      constructor
      · intro hc; exact absurd hc hne
      · rintro (h' | ⟨h', _⟩) <;> omega
    · rename_i h2
      have heq : bl = 256 := by omega
      split
      · rename_i h3
        constructor
        · intro hc; exact absurd hc hne
        · rintro (h' | ⟨_, a, b⟩)
          · omega
          · rcases h3 with h3 | h3
            · exact absurd h3 a
            · exact absurd b h3
      · rename_i h3
        constructor
        · intro _
          refine Or.inr ⟨heq, fun h => h3 (Or.inl h), ?_⟩
          apply Classical.byContradiction
          intro hc; exact h3 (Or.inr hc)
        · intro _; rfl

theorem tz_eq_iff (a P : Nat) (hP : P = 2 ^ 255) (hge : P ≤ a) (hlt : a < P * 2) : tzBits a = 255 ↔ a = P := by
  have hPpos : 0 < P := by rw [hP]; exact Nat.pow_pos (by decide)
  have hne : a ≠ 0 := by omega
  have e6 : (2 : Nat) ^ 256 = P * 2 := by rw [hP]
  constructor
  · intro ht
    have hd := (pow_dvd_iff_le_tz _ hne 255).mpr (by omega)
    rw [← hP] at hd
    obtain ⟨q, hq⟩ := hd
    rw [hq] at hlt hne
    have hq2 : q < 2 := Nat.lt_of_mul_lt_mul_left hlt
    have hq0 : q ≠ 0 := by intro h; rw [h] at hne; exact hne (Nat.mul_zero _)
    have : q = 1 := by omega
    rw [hq, this]; simp
  · intro he
    have h1' := (pow_dvd_iff_le_tz _ hne 255).mp ⟨1, by rw [he, hP, Nat.mul_one]⟩
    have h2' : ¬ 256 ≤ tzBits a := by
      intro hc
      have hd := (pow_dvd_iff_le_tz _ hne 256).mpr hc
      rw [e6] at hd
      have := Nat.le_of_dvd (by omega) hd
      omega
    omega

/-- The translated `stackitem.CheckIntegerSize` (item.go:434-451) accepts exactly the integers of the model's
`intFits` (−2^255 ≤ n < 2^255), with the three `big.Int` observers read as their mathematical meaning. -/
theorem checkIntegerSize_eq (n : Int) :
    (GoFuncs.wireCheckIntegerSize (bitLen n.natAbs) (signOf n) (tzBits n.natAbs) = "ok") ↔ intFits n = true := by
  rw [wire_ok_iff]
  have hb1 := bitLen_lt n.natAbs 256 (by decide)
  have hb2 := bitLen_lt n.natAbs 257 (by decide)
  simp only [show (256 - 1 : Nat) = 255 from rfl, show (257 - 1 : Nat) = 256 from rfl] at hb1 hb2
  unfold intFits
  simp only [Bool.and_eq_true, decide_eq_true_eq]
  have e6 : (2 : Nat) ^ 256 = 2 ^ 255 * 2 := Nat.pow_succ ..
  rw [e6] at hb2
  generalize hP : (2 : Nat) ^ 255 = P at *
  have hPpos : 0 < P := by rw [← hP]; exact Nat.pow_pos (by decide)
  have c1 : (((bitLen n.natAbs : Nat) : Int) < 256) ↔ bitLen n.natAbs < 256 := by omega
  have c2 : (((bitLen n.natAbs : Nat) : Int) = 256) ↔ bitLen n.natAbs = 256 := by omega
  have c3 : (((tzBits n.natAbs : Nat) : Int) = 255) ↔ tzBits n.natAbs = 255 := by omega
  rw [c1, c2, c3]
  have hsign : signOf n ≠ 1 ↔ n ≤ 0 := by
    unfold signOf
    split
    · omega
    · split <;> omega
  rw [hsign]
  constructor
  · rintro (h | ⟨h1, h2, h3⟩)
    · have := hb1.mp h; omega
    · have hlt := hb2.mp (by omega)
      have hge : P ≤ n.natAbs := by
        apply Classical.byContradiction; intro hc
        have := hb1.mpr (by omega); omega
      have := (tz_eq_iff n.natAbs P hP.symm hge hlt).mp h3
      omega
  · rintro ⟨h1, h2⟩
    by_cases hlt : n.natAbs < P
    · exact Or.inl (hb1.mpr hlt)
    · right
      have ha : n.natAbs = P := by omega
      have hnb1 : ¬ bitLen n.natAbs < 256 := fun h => hlt (hb1.mp h)
      have hb2' := hb2.mpr (by omega)
      refine ⟨by omega, by omega, (tz_eq_iff n.natAbs P hP.symm (by omega) (by omega)).mpr ha⟩

example : GoFuncs.wireCheckIntegerSize 256 (-1) 255 = "ok" ∧ GoFuncs.wireCheckIntegerSize 256 1 255 = "err"
    ∧ GoFuncs.wireCheckIntegerSize 255 1 0 = "ok" ∧ GoFuncs.wireCheckIntegerSize 257 (-1) 256 = "err" := by decide

/-! ### scopes: the two places that judge a scope byte -/

set_option maxRecDepth 1000000 in
theorem scopesFromByte_all : (List.range 256).all (fun b =>
    (GoFuncs.wireScopesFromByte (b : Int) == ((b : Int), "ok")) == scopeOk (UInt8.ofNat b)
      && ((GoFuncs.wireScopesFromByte (b : Int)).2 == "ok" || (GoFuncs.wireScopesFromByte (b : Int)).2 == "err")) = true := by
  decide

/-- `transaction.ScopesFromByte` (the RPC / CLI entry) accepts exactly the scope bytes `Signer.DecodeBinary` accepts
(the model's `scopeOk`), and returns the byte. -/
theorem scopesFromByte_eq (b : Nat) (h : b < 256) :
    (GoFuncs.wireScopesFromByte (b : Int) = ((b : Int), "ok")) ↔ scopeOk (UInt8.ofNat b) = true := by
  have := List.all_eq_true.mp scopesFromByte_all b (by simp [List.mem_range]; exact h)
  simp only [Bool.and_eq_true, beq_iff_eq] at this
  have h1 := this.1
  cases hs : scopeOk (UInt8.ofNat b) with
  | true => rw [hs] at h1; simp at h1; simp [h1]
  | false => rw [hs] at h1; simp at h1; simp [h1]

set_option maxRecDepth 1000000 in
theorem signerDecode_all : (List.range 256).all (fun b =>
    let r := GoFuncs.wireSignerDecodeBinary 0 false (b : Int) true true
    let sc := UInt8.ofNat b
    (r.2.1 == !scopeOk sc)
      && (!scopeOk sc || r.2.2 == "br.ReadBytes" :: ((if hasScope sc Generated.WireLimits.scopeCustomContracts then ["br.ReadArray"] else [])
            ++ (if hasScope sc Generated.WireLimits.scopeCustomGroups then ["br.ReadArray"] else [])
            ++ (if hasScope sc Generated.WireLimits.scopeRules then ["br.ReadArray"] else [])))) = true := by
  decide

/-- the translated `Signer.DecodeBinary` (signer.go:51-72) sets the reader's error exactly for the scope bytes the
model's `scopeOk` refuses, and otherwise reads — after the account — one array per scope bit CustomContracts,
CustomGroups, Rules, in this order (the model's `signerBody`). -/
theorem signerDecodeBinary_eq (b : Nat) (h : b < 256) :
    let r := GoFuncs.wireSignerDecodeBinary 0 false (b : Int) true true
    (r.2.1 = true ↔ scopeOk (UInt8.ofNat b) = false)
      ∧ (scopeOk (UInt8.ofNat b) = true → r.2.2 = "br.ReadBytes" ::
          ((if hasScope (UInt8.ofNat b) Generated.WireLimits.scopeCustomContracts then ["br.ReadArray"] else [])
            ++ (if hasScope (UInt8.ofNat b) Generated.WireLimits.scopeCustomGroups then ["br.ReadArray"] else [])
            ++ (if hasScope (UInt8.ofNat b) Generated.WireLimits.scopeRules then ["br.ReadArray"] else []))) := by
  have := List.all_eq_true.mp signerDecode_all b (by simp [List.mem_range]; exact h)
  simp only [Bool.and_eq_true, beq_iff_eq, Bool.or_eq_true, Bool.not_eq_true'] at this
  obtain ⟨h1, h2⟩ := this
  refine ⟨?_, ?_⟩
  · rw [h1]; cases scopeOk (UInt8.ofNat b) <;> simp
  · intro hok
    rcases h2 with h2 | h2
    · rw [hok] at h2; simp at h2
    · exact h2

/-! ### checked integer conversions used by Contract.FromStackItem -/

/-- `stackitem.ToInt32` / `ToUint16` accept exactly the ranges the model's `Contract.fromItem` uses for ID and
UpdateCounter (regenerated table WireManifest), and return the number unchanged. -/
theorem toInt32_eq (i : Int) :
    (GoFuncs.wireToInt32 i false = (i, "ok")) ↔ (Generated.WireManifest.contractIdLo ≤ i ∧ i ≤ Generated.WireManifest.contractIdHi) := by
  unfold GoFuncs.wireToInt32 GoFuncs.wrapS
  simp only [Generated.WireManifest.contractIdLo, Generated.WireManifest.contractIdHi]
  constructor
  · intro h
    split at h
    · simp at h
    · split at h
      · simp at h
      · omega
  · intro h
    simp only [Bool.false_eq_true, if_false]
    rw [if_neg (by omega)]
    have : (i + 2 ^ (32 - 1)) % 2 ^ 32 - 2 ^ (32 - 1) = i := by omega
    rw [this]

theorem toUint16_eq (i : Int) :
    (GoFuncs.wireToUint16 i false = (i, "ok")) ↔
      (Generated.WireManifest.contractUpdateCounterLo ≤ i ∧ i ≤ Generated.WireManifest.contractUpdateCounterHi) := by
  unfold GoFuncs.wireToUint16
  simp only [Generated.WireManifest.contractUpdateCounterLo, Generated.WireManifest.contractUpdateCounterHi]
  constructor
  · intro h
    split at h
    · simp at h
    · split at h
      · simp at h
      · omega
  · intro h
    simp only [Bool.false_eq_true, if_false]
    rw [if_neg (by omega)]
    have : i % 65536 = i := by omega
    rw [this]

/-- `ByteArray.TryInteger`: at most MaxBytesLen = 32 bytes (the model's `Item.tryInteger`). -/
theorem byteArrayTryInteger_eq (len v : Int) :
    (GoFuncs.wireByteArrayTryInteger len v = (v, "ok")) ↔ len ≤ (Generated.WireLimits.bigintMaxBytesLen : Int) := by
  unfold GoFuncs.wireByteArrayTryInteger
  simp only [Generated.WireLimits.bigintMaxBytesLen]
  constructor
  · intro h; split at h
    · simp at h
    · omega
  · intro h; rw [if_neg (by omega)]

/-! ### var-uint writer -/

/-- `io.PutVarUint` returns the length of the model's `putVarUint` and writes its first byte, for every 64-bit value. -/
theorem putVarUint_eq (v : Nat) (h : v < 2 ^ 64) (d0 d8 : Int) :
    (GoFuncs.wirePutVarUint (v : Int) d0 d8).1 = ((putVarUint v).length : Int)
      ∧ ((putVarUint v).head?.map (fun b => (b.toNat : Int))) = some (GoFuncs.wirePutVarUint (v : Int) d0 d8).2.1 := by
  unfold GoFuncs.wirePutVarUint putVarUint
  simp only []
  by_cases h1 : v < 0xfd
  · have : (v : Int) < 253 := by omega
    simp only [h1, this, if_true]
    refine ⟨by simp, ?_⟩
    simp [UInt8.toNat_ofNat']
  · have hn : ¬ ((v : Int) < 253) := by omega
    simp only [h1, hn, if_false]
    by_cases h2 : v ≤ 0xFFFF
    · have : (v : Int) ≤ 65535 := by omega
      simp only [h2, this, if_true]
      simp [leBytes]
    · have hn2 : ¬ ((v : Int) ≤ 65535) := by omega
      simp only [h2, hn2, if_false]
      by_cases h3 : v ≤ 0xFFFFFFFF
      · have : (v : Int) ≤ 4294967295 := by omega
        simp only [h3, this, if_true]
        simp [leBytes]
      · have hn3 : ¬ ((v : Int) ≤ 4294967295) := by omega
        simp only [h3, hn3, if_false]
        simp [leBytes]

/-! ### cached size of a transaction (fix 67279e2) and the FromBytes constructor -/

/-- `Transaction.DecodeBinary` followed by its trailing `Size()`: after a successful decode the cached size is the
freshly computed one, WHATEVER it was before (the reset of fix 67279e2 — the model's `TxObj.decode`); `Size()` on its
own computes only when the cache is 0 (`TxObj.sizeOf`). -/
theorem txDecodeBinary_size (old g : Int) :
    (GoFuncs.wireTxSize (GoFuncs.wireTxDecodeBinary old false g).1 g).1 = g
      ∧ (∀ sz, sz ≠ 0 → GoFuncs.wireTxSize sz g = (sz, sz)) ∧ GoFuncs.wireTxSize 0 g = (g, g) := by
  refine ⟨by simp [GoFuncs.wireTxDecodeBinary, GoFuncs.wireTxSize], ?_, by simp [GoFuncs.wireTxSize]⟩
  intro sz hsz
  simp [GoFuncs.wireTxSize, hsz]

/-- `NewTransactionFromBytes`: accepted iff the decoder reports no error AND nothing is left unread; the cached size
is then the number of received bytes (the model's `txFromBytes`). -/
theorem newTransactionFromBytes_eq (sz tx rd : Int) (err : Bool) (rest len : Int) :
    ((GoFuncs.wireNewTransactionFromBytes sz tx rd err rest len).2.1 = "ok" ↔ (err = false ∧ rest = 0))
      ∧ ((GoFuncs.wireNewTransactionFromBytes sz tx rd err rest len).2.1 = "ok" →
          (GoFuncs.wireNewTransactionFromBytes sz tx rd err rest len).2.2.1 = len) := by
  unfold GoFuncs.wireNewTransactionFromBytes
  simp only []
  cases err <;> by_cases hr : rest = 0 <;> simp [hr]

/-! ### small decoders: boundaries -/

/-- `Header.DecodeBinary`: the witness count must be exactly 1 (the model's `refine varUint (· == 1)`), and the
witness is read only then. -/
theorem headerDecodeBinary_eq (n : Int) :
    ((GoFuncs.wireHeaderDecodeBinary false n true).1 = true ↔ n ≠ 1)
      ∧ (n = 1 → (GoFuncs.wireHeaderDecodeBinary false n true).2 = ["b.decodeHashableFields", "b.Script.DecodeBinary"]) := by
  unfold GoFuncs.wireHeaderDecodeBinary
  simp only []
  by_cases h : n = 1 <;> simp [h]

/-- `GetBlockByIndex.DecodeBinary`: Count (int16) is −1 or 1..MaxHeadersAllowed. -/
theorem getBlockByIndexDecodeBinary_eq (idx c : Int) (hc : 0 ≤ c ∧ c < 65536) :
    (GoFuncs.wireGetBlockByIndexDecodeBinary 0 0 false idx c true).2.2 = true ↔
      ¬ (c = 65535 ∨ (1 ≤ c ∧ c ≤ 2000)) := by
  unfold GoFuncs.wireGetBlockByIndexDecodeBinary GoFuncs.wrapS
  simp only []
  by_cases h1 : c < 32768
  · have : (c + 2 ^ (16 - 1)) % 2 ^ 16 - 2 ^ (16 - 1) = c := by omega
    rw [this]
    split <;> simp <;> omega
  · have : (c + 2 ^ (16 - 1)) % 2 ^ 16 - 2 ^ (16 - 1) = c - 65536 := by omega
    rw [this]
    split <;> simp <;> omega

/-- `MethodToken.DecodeBinary`: a method name starting with `_` and a call flag outside `callflag.All` are refused. -/
theorem methodTokenDecodeBinary_eq (m pc cf f : Int) (hr : Bool) (pre : Bool) (hf : 0 ≤ f ∧ f < 256) :
    (GoFuncs.wireMethodTokenDecodeBinary 0 false 0 false 0 m pre true pc hr f true).2.1 = true ↔
      (pre = true ∨ GoFuncs.bandnot f 15 ≠ 0) := by
  unfold GoFuncs.wireMethodTokenDecodeBinary
  simp only []
  have : f % 256 = f := by omega
  rw [this]
  cases pre <;> simp
  by_cases h : GoFuncs.bandnot f 15 = 0 <;> simp [h]

/-- `nef.File.bytes(checkSize)`: refused over stackitem.MaxSize only when the size is checked (the model's `nefBytes`). -/
theorem nefFileBytes_eq (w res len : Int) :
    ((GoFuncs.wireNefFileBytes true w false res len).2.1 = "ok" ↔ len ≤ (Generated.WireLimits.stackMaxSize : Int))
      ∧ (GoFuncs.wireNefFileBytes false w false res len).2.1 = "ok" := by
  unfold GoFuncs.wireNefFileBytes
  simp only [Generated.WireLimits.stackMaxSize]
  constructor
  · by_cases h : len > 131070 <;> simp [h] <;> omega
  · simp

/-- `OracleResponse.DecodeBinary` (oracle.go:95-112): an invalid code is an error and the result is not read; a result is
allowed only with code Success = 0 (the model's `oracleC`: `refine … (code == 0 || result.isEmpty)` after the code
check). -/
theorem oracleResponseDecodeBinary_eq (id code res len : Int) (valid : Bool) (hc : 0 ≤ code ∧ code < 256) (hl : 0 ≤ len) :
    (GoFuncs.wireOracleResponseDecodeBinary 0 0 false 0 id code valid true res len true).2.2.1 = true ↔
      (valid = false ∨ (code ≠ 0 ∧ len ≠ 0)) := by
  unfold GoFuncs.wireOracleResponseDecodeBinary
  simp only []
  have : code % 256 = code := by omega
  rw [this]
  cases valid
  · simp
  · simp only [not_true_eq_false, if_false, Bool.true_eq_false, false_or]
    by_cases h : code ≠ 0 ∧ len > 0
    · rw [if_pos h]; simp; omega
    · rw [if_neg h]; simp; omega

end NeoModel.GoFuncsTie
