/-
Tie by translation (C17, pkg/vm/stackitem/item.go CheckIntegerSize): the generated `GoFuncs.wireCheckIntegerSize` is
re-translated from /repo on every check run (harness/cmd/extract/gofuncs_c17.go); proved here: it accepts exactly the
integers of the model's `intFits` (the bound of NewBigInteger — where FromJSONWithTypes / FromJSON panic beyond it).
-/
import NeoModel.Generated.GoFuncs
import NeoModel.Model.Wire.ItemJson
namespace NeoModel.GoFuncsTie
open NeoModel NeoModel.Generated NeoModel.Wire

/-- `big.Int.BitLen()`: the number of bits of |x| (0 for 0). -/
def bitLen (m : Nat) : Nat := if m = 0 then 0 else m.log2 + 1

/-- `big.Int.TrailingZeroBits()`: the number of trailing zero bits of |x| (0 for 0). -/
def tzBits (m : Nat) : Nat :=
  if h : m = 0 then 0 else if m % 2 = 1 then 0 else tzBits (m / 2) + 1
termination_by m
decreasing_by omega

/-- `big.Int.Sign()` -/
def signOf (n : Int) : Int := if n < 0 then -1 else if n = 0 then 0 else 1

theorem bitLen_lt (m k : Nat) (hk : 0 < k) : bitLen m < k ↔ m < 2 ^ (k - 1) := by
  unfold bitLen
  split
  · rename_i h; subst h; simp [hk, Nat.pow_pos]
  · rename_i h
    have := Nat.log2_lt (k := k - 1) h
    constructor
    · intro hl; exact this.mp (by omega)
    · intro hl; have := this.mpr hl; omega

theorem pow_dvd_iff_le_tz : ∀ (m : Nat), m ≠ 0 → ∀ k, 2 ^ k ∣ m ↔ k ≤ tzBits m := by
  intro m
  induction m using Nat.strongRecOn with
  | _ m ih =>
    intro hm k
    rw [tzBits]
    simp only [hm, dite_false]
    split
    · rename_i hodd
      constructor
      · intro hd
        cases k with
        | zero => omega
        | succ k =>
          exfalso
          have : 2 ∣ m := Nat.dvd_trans ⟨2 ^ k, by rw [Nat.pow_succ, Nat.mul_comm]⟩ hd
          omega
      · intro hk
        have : k = 0 := by omega
        subst this; simp
    · rename_i heven
      have h2 : m % 2 = 0 := by omega
      have hm2 : m / 2 ≠ 0 := by omega
      have hlt : m / 2 < m := by omega
      cases k with
      | zero => simp
      | succ k =>
        have := ih (m / 2) hlt hm2 k
        constructor
        · intro hd
          have : 2 ^ k ∣ m / 2 := by
            obtain ⟨q, hq⟩ := hd
            refine ⟨q, ?_⟩
            rw [hq, Nat.pow_succ, Nat.mul_assoc, Nat.mul_comm 2 q, ← Nat.mul_assoc, Nat.mul_div_cancel _ (by decide : 0 < 2)]
          have := (ih (m / 2) hlt hm2 k).mp this
          omega
        · intro hk
          have hd := (ih (m / 2) hlt hm2 k).mpr (by omega)
          obtain ⟨q, hq⟩ := hd
          refine ⟨q, ?_⟩
          have : m = 2 * (m / 2) := by omega
          rw [this, hq, Nat.pow_succ]
          rw [Nat.mul_comm (2 ^ k) 2, Nat.mul_assoc]

theorem wire_ok_iff (bl sg tz : Int) :
    GoFuncs.wireCheckIntegerSize bl sg tz = "ok" ↔ (bl < 256 ∨ (bl = 256 ∧ sg ≠ 1 ∧ tz = 255)) := by
  unfold GoFuncs.wireCheckIntegerSize
  simp only []
  have hne : ¬ ("err" = "ok") := by decide
  split
  · rename_i h; simp [h]
  · rename_i h
    split
    · rename_i h2
      constructor
      · intro hc; exact absurd hc hne
      · rintro (h' | ⟨h', _⟩) <;> omega
    · rename_i h2
      have heq : bl = 256 := by omega
      split
      · rename_i h3
        constructor
        · intro hc; exact absurd hc hne
        · rintro (h' | ⟨_, a, b⟩)
          · omega
          · rcases h3 with h3 | h3
            · exact absurd h3 a
            · exact absurd b h3
      · rename_i h3
        constructor
        · intro _
          refine Or.inr ⟨heq, fun h => h3 (Or.inl h), ?_⟩
          apply Classical.byContradiction
          intro hc; exact h3 (Or.inr hc)
        · intro _; rfl

theorem tz_eq_iff (a P : Nat) (hP : P = 2 ^ 255) (hge : P ≤ a) (hlt : a < P * 2) : tzBits a = 255 ↔ a = P := by
  have hPpos : 0 < P := by rw [hP]; exact Nat.pow_pos (by decide)
  have hne : a ≠ 0 := by omega
  have e6 : (2 : Nat) ^ 256 = P * 2 := by rw [hP]
  constructor
  · intro ht
    have hd := (pow_dvd_iff_le_tz _ hne 255).mpr (by omega)
    rw [← hP] at hd
    obtain ⟨q, hq⟩ := hd
    rw [hq] at hlt hne
    have hq2 : q < 2 := Nat.lt_of_mul_lt_mul_left hlt
    have hq0 : q ≠ 0 := by intro h; rw [h] at hne; exact hne (Nat.mul_zero _)
    have : q = 1 := by omega
    rw [hq, this]; simp
  · intro he
    have h1' := (pow_dvd_iff_le_tz _ hne 255).mp ⟨1, by rw [he, hP, Nat.mul_one]⟩
    have h2' : ¬ 256 ≤ tzBits a := by
      intro hc
      have hd := (pow_dvd_iff_le_tz _ hne 256).mpr hc
      rw [e6] at hd
      have := Nat.le_of_dvd (by omega) hd
      omega
    omega

/-- The translated `stackitem.CheckIntegerSize` (item.go:434-451) accepts exactly the integers of the model's
`intFits` (−2^255 ≤ n < 2^255), with the three `big.Int` observers read as their mathematical meaning. -/
theorem checkIntegerSize_eq (n : Int) :
    (GoFuncs.wireCheckIntegerSize (bitLen n.natAbs) (signOf n) (tzBits n.natAbs) = "ok") ↔ intFits n = true := by
  rw [wire_ok_iff]
  have hb1 := bitLen_lt n.natAbs 256 (by decide)
  have hb2 := bitLen_lt n.natAbs 257 (by decide)
  simp only [show (256 - 1 : Nat) = 255 from rfl, show (257 - 1 : Nat) = 256 from rfl] at hb1 hb2
  unfold intFits
  simp only [Bool.and_eq_true, decide_eq_true_eq]
  have e6 : (2 : Nat) ^ 256 = 2 ^ 255 * 2 := Nat.pow_succ ..
  rw [e6] at hb2
  generalize hP : (2 : Nat) ^ 255 = P at *
  have hPpos : 0 < P := by rw [← hP]; exact Nat.pow_pos (by decide)
  have c1 : (((bitLen n.natAbs : Nat) : Int) < 256) ↔ bitLen n.natAbs < 256 := by omega
  have c2 : (((bitLen n.natAbs : Nat) : Int) = 256) ↔ bitLen n.natAbs = 256 := by omega
  have c3 : (((tzBits n.natAbs : Nat) : Int) = 255) ↔ tzBits n.natAbs = 255 := by omega
  rw [c1, c2, c3]
  have hsign : signOf n ≠ 1 ↔ n ≤ 0 := by
    unfold signOf
    split
    · omega
    · split <;> omega
  rw [hsign]
  constructor
  · rintro (h | ⟨h1, h2, h3⟩)
    · have := hb1.mp h; omega
    · have hlt := hb2.mp (by omega)
      have hge : P ≤ n.natAbs := by
        apply Classical.byContradiction; intro hc
        have := hb1.mpr (by omega); omega
      have := (tz_eq_iff n.natAbs P hP.symm hge hlt).mp h3
      omega
  · rintro ⟨h1, h2⟩
    by_cases hlt : n.natAbs < P
    · exact Or.inl (hb1.mpr hlt)
    · right
      have ha : n.natAbs = P := by omega
      have hnb1 : ¬ bitLen n.natAbs < 256 := fun h => hlt (hb1.mp h)
      have hb2' := hb2.mpr (by omega)
      refine ⟨by omega, by omega, (tz_eq_iff n.natAbs P hP.symm (by omega) (by omega)).mpr ha⟩

example : GoFuncs.wireCheckIntegerSize 256 (-1) 255 = "ok" ∧ GoFuncs.wireCheckIntegerSize 256 1 255 = "err"
    ∧ GoFuncs.wireCheckIntegerSize 255 1 0 = "ok" ∧ GoFuncs.wireCheckIntegerSize 257 (-1) 256 = "err" := by decide

end NeoModel.GoFuncsTie
